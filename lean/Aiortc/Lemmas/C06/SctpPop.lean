import Aiortc.Model.Sctp.Inbound
/-!
# Soundness of `pop_messages`: every yielded message is one run B…E of consecutive TSNs (C06)
-/
namespace Aiortc.Sctp
open Aiortc.Gen

/-- `PRun seg exp`: `seg` is the beginning of a message being collected by `pop_messages`: it starts with a
B fragment, TSNs are consecutive, no fragment is an E fragment, and `exp` is the TSN expected next. -/
inductive PRun : List RChunk → Int → Prop
  | start (c : RChunk) : flagB c.flags = true → flagE c.flags = false → PRun [c] (tsn_plus_one c.tsn)
  | step (seg : List RChunk) (c : RChunk) (exp : Int) : PRun seg exp → c.tsn = exp →
      flagE c.flags = false → PRun (seg ++ [c]) (tsn_plus_one c.tsn)

/-- A complete run: B fragment, consecutive TSNs, the first E fragment is the last element. -/
inductive FullRun : List RChunk → Prop
  | single (c : RChunk) : flagB c.flags = true → flagE c.flags = true → FullRun [c]
  | close (seg : List RChunk) (c : RChunk) (exp : Int) : PRun seg exp → c.tsn = exp →
      flagE c.flags = true → FullRun (seg ++ [c])

/-- `m` is the join of a complete run of fragments taken from `R`. -/
def GoodMsg (R : List RChunk) (m : Msg) : Prop :=
  ∃ r, FullRun r ∧ (∀ c ∈ r, c ∈ R) ∧ m.data = r.flatMap (·.data) ∧
    ∃ e, r.getLast? = some e ∧ m.sid = e.sid ∧ m.ppid = e.ppid

structure PopInv (R0 : List RChunk) (st : PopSt) : Prop where
  sub : st.reasm.Sublist R0
  out : ∀ m ∈ st.out, GoodMsg R0 m
  run : ∀ sp, st.start = some sp → sp < st.pos ∧ PRun ((st.reasm.take st.pos).drop sp) st.expected

theorem take_succ_drop {α} (l : List α) (pos sp : Nat) (c : α) (h : l[pos]? = some c) (hsp : sp ≤ pos) :
    (l.take (pos + 1)).drop sp = (l.take pos).drop sp ++ [c] := by
  have hlt : pos < l.length := by
    rcases Nat.lt_or_ge pos l.length with h' | h'
    · exact h'
    · simp [List.getElem?_eq_none h'] at h
  rw [List.take_add_one, h]
  simp only [Option.toList_some]
  rw [List.drop_append_of_le_length (by simp; omega)]

theorem cut_sublist {α} (l : List α) (sp pos : Nat) (h : sp ≤ pos + 1) :
    (l.take sp ++ l.drop (pos + 1)).Sublist l := by
  have : l = l.take sp ++ (l.drop sp) := (List.take_append_drop sp l).symm
  conv => rhs; rw [this]
  apply List.Sublist.append_left
  have : l.drop (pos + 1) = (l.drop sp).drop (pos + 1 - sp) := by
    rw [List.drop_drop]; congr 1; omega
  rw [this]
  exact List.drop_sublist _ _

theorem mem_take_drop {α} (l : List α) (a b : Nat) (c : α) (h : c ∈ (l.take a).drop b) : c ∈ l :=
  List.mem_of_mem_take (List.mem_of_mem_drop h)

/-- `popTail` keeps the invariant: `seg = reasm[sp:pos]` is the run collected so far (empty when the chunk at
`pos` is the B fragment that starts it). -/
theorem popTail_inv (R0 : List RChunk) (st : PopSt) (chunk : RChunk) (sp : Nat)
    (hsub : st.reasm.Sublist R0) (hout : ∀ m ∈ st.out, GoodMsg R0 m)
    (hc : st.reasm[st.pos]? = some chunk) (hsp : sp ≤ st.pos)
    (hseg : (sp = st.pos ∧ flagB chunk.flags = true) ∨
            (sp < st.pos ∧ PRun ((st.reasm.take st.pos).drop sp) chunk.tsn))
    (hexp : st.expected = chunk.tsn) (hstart : st.start = some sp) :
    PopInv R0 (popTail st chunk sp) := by
  have hrun := take_succ_drop st.reasm st.pos sp chunk hc hsp
  unfold popTail
  by_cases hE : flagE chunk.flags = true
  · simp only [hE, ↓reduceIte]
    refine ⟨?_, ?_, ?_⟩
    · exact (cut_sublist st.reasm sp st.pos (by omega)).trans hsub
    · intro m hm
      rcases List.mem_append.1 hm with hm | hm
      · exact hout m hm
      · simp only [List.mem_singleton] at hm
        subst hm
        refine ⟨(st.reasm.take (st.pos + 1)).drop sp, ?_, ?_, rfl, chunk, ?_, rfl, rfl⟩
        · rw [hrun]
          rcases hseg with ⟨h1, h2⟩ | ⟨h1, h2⟩
          · subst h1
            simp only [List.drop_take_self, List.nil_append]
            exact FullRun.single chunk h2 hE
          · exact FullRun.close _ chunk _ h2 rfl hE
        · intro c hc'
          exact hsub.subset (mem_take_drop _ _ _ _ hc')
        · rw [hrun]; simp
    · intro sp' h; simp at h
  · have hE' : flagE chunk.flags = false := by simpa using hE
    simp only [hE', Bool.false_eq_true, ↓reduceIte]
    refine ⟨hsub, hout, ?_⟩
    intro sp' h
    simp only [hstart, Option.some.injEq] at h
    subst h
    refine ⟨Nat.lt_succ_of_le hsp, ?_⟩
    simp only [hrun, hexp]
    rcases hseg with ⟨h1, h2⟩ | ⟨h1, h2⟩
    · subst h1
      simp only [List.drop_take_self, List.nil_append]
      exact PRun.start chunk h2 hE'
    · exact PRun.step _ chunk _ h2 rfl hE'

theorem popIter_inv (R0 : List RChunk) (st st' : PopSt) (hinv : PopInv R0 st)
    (h : popIter st = some st') : PopInv R0 st' := by
  unfold popIter at h
  cases hc : st.reasm[st.pos]? with
  | none => simp [hc] at h
  | some chunk =>
    simp only [hc] at h
    cases hs : st.start with
    | none =>
      simp only [hs] at h
      split at h
      · split at h
        · simp at h
        · simp only [Option.some.injEq] at h
          subst h
          exact ⟨hinv.sub, hinv.out, fun sp hsp => by simp at hsp⟩
      · rename_i hB
        split at h
        · simp at h
        · simp only [Option.some.injEq] at h
          subst h
          exact popTail_inv R0 { st with ordered := !flagU chunk.flags, expected := chunk.tsn,
                                           start := some st.pos } chunk st.pos hinv.sub hinv.out hc
            (Nat.le_refl _) (Or.inl ⟨rfl, by simpa using hB⟩) rfl rfl
    | some sp =>
      simp only [hs] at h
      have ⟨hlt, hrun⟩ := hinv.run sp hs
      split at h
      · split at h
        · simp at h
        · simp only [Option.some.injEq] at h
          subst h
          exact ⟨hinv.sub, hinv.out, fun sp hsp => by simp at hsp⟩
      · rename_i hne
        simp only [Option.some.injEq] at h
        subst h
        have heq : chunk.tsn = st.expected := by simpa using hne
        apply popTail_inv R0 st chunk sp hinv.sub hinv.out hc (Nat.le_of_lt hlt)
          (Or.inr ⟨hlt, heq ▸ hrun⟩) heq.symm hs

theorem popRun_inv (R0 : List RChunk) (fuel : Nat) (st st' : PopSt) (hinv : PopInv R0 st)
    (h : popRun fuel st = some st') : PopInv R0 st' := by
  induction fuel generalizing st with
  | zero => simp [popRun] at h
  | succ fuel ih =>
    unfold popRun at h
    cases hi : popIter st with
    | none => simp only [hi, Option.some.injEq] at h; exact h ▸ hinv
    | some st1 =>
      simp only [hi] at h
      exact ih st1 (popIter_inv R0 st st1 hinv hi) h

/-- **Soundness of `pop_messages`**: every message yielded is the join of one complete run (B fragment,
consecutive TSNs, first E fragment) of fragments that were in the reassembly queue, and what stays in the
queue is a sub-list of what was there (nothing is invented, reordered or duplicated). -/
theorem popMessages_sound (s s' : InStream) (msgs : List Msg)
    (h : s.popMessages = .ok (msgs, s')) :
    (∀ m ∈ msgs, GoodMsg s.reasm m) ∧ s'.reasm.Sublist s.reasm := by
  unfold InStream.popMessages at h
  simp only at h
  split at h
  · simp at h
  · rename_i st hst
    simp only [Outcome.ok.injEq, Prod.mk.injEq] at h
    have hinv := popRun_inv s.reasm _ _ st
      ⟨List.Sublist.refl _, by simp, by simp⟩ hst
    obtain ⟨h1, h2⟩ := h
    subst h1; subst h2
    exact ⟨hinv.out, hinv.sub⟩

end Aiortc.Sctp
