import Aiortc.Lemmas.C06.SctpPop
/-!
# `pop_messages` delivers a complete message that is alone in the reassembly queue (C06, recovery)
-/
namespace Aiortc.Sctp
open Aiortc.Gen

theorem popRun_succ (fuel : Nat) (st : PopSt) :
    popRun (fuel + 1) st = match popIter st with | none => some st | some st' => popRun fuel st' := rfl

theorem getElem?_length_append {α} (a : List α) (c : α) (b : List α) : (a ++ c :: b)[a.length]? = some c := by
  simp

theorem prun_ne_nil {seg : List RChunk} {exp : Int} (h : PRun seg exp) : seg ≠ [] := by
  induction h with
  | start c _ _ => simp
  | step seg c exp _ _ _ _ => simp

/-- collecting the beginning `seg` of a message takes `|seg|` iterations. -/
theorem popRun_prun (seg : List RChunk) (exp : Int) (h : PRun seg exp) (hd : RChunk)
    (hhd : seg.head? = some hd) (seq : Int)
    (hord : flagU hd.flags = true ∨ uint16_gt hd.ssn seq = false) (post : List RChunk) (fuel : Nat) :
    popRun (fuel + seg.length)
        { reasm := seg ++ post, seq := seq, pos := 0, start := none, expected := 0, ordered := true, out := [] }
      = popRun fuel
        { reasm := seg ++ post, seq := seq, pos := seg.length, start := some 0, expected := exp,
          ordered := !flagU hd.flags, out := [] } := by
  induction h generalizing post fuel with
  | start c hB hE =>
    simp only [List.head?_cons, Option.some.injEq] at hhd
    subst hhd
    simp only [List.length_cons, List.length_nil, Nat.zero_add, popRun_succ]
    have : popIter { reasm := [c] ++ post, seq := seq, pos := 0, start := none, expected := 0,
                     ordered := true, out := [] }
        = some { reasm := [c] ++ post, seq := seq, pos := 1, start := some 0,
                 expected := tsn_plus_one c.tsn, ordered := !flagU c.flags, out := [] } := by
      unfold popIter
      simp only [List.singleton_append, List.getElem?_cons_zero, hB, Bool.not_true, Bool.false_eq_true,
        ↓reduceIte]
      have : (!flagU c.flags && uint16_gt c.ssn seq) = false := by
        rcases hord with h | h <;> simp [h]
      simp [this, popTail, hE]
    rw [this]
  | step seg c exp hp hc hE ih =>
    have hhd' : seg.head? = some hd := by
      have hne := prun_ne_nil hp
      cases seg with
      | nil => exact absurd rfl hne
      | cons a seg => simpa using hhd
    have ih := ih hhd' (c :: post) (fuel + 1)
    simp only [List.append_assoc, List.singleton_append, List.length_append, List.length_cons,
      List.length_nil, Nat.zero_add] at ih ⊢
    rw [show fuel + (seg.length + 1) = fuel + 1 + seg.length by omega, ih, popRun_succ]
    have : popIter { reasm := seg ++ c :: post, seq := seq, pos := seg.length, start := some 0,
                     expected := exp, ordered := !flagU hd.flags, out := [] }
        = some { reasm := seg ++ c :: post, seq := seq, pos := seg.length + 1, start := some 0,
                 expected := tsn_plus_one c.tsn, ordered := !flagU hd.flags, out := [] } := by
      unfold popIter
      simp only [getElem?_length_append, hc, ne_eq, not_true_eq_false, ↓reduceIte]
      simp [popTail, hE]
    rw [this]

/-- **A complete message that is alone in the reassembly queue is delivered** (for an ordered message: unless
its sequence number is still ahead of the expected one), and the queue is empty afterwards. -/
theorem popMessages_single_run (r : List RChunk) (h : FullRun r) (hd e : RChunk)
    (hhd : r.head? = some hd) (he : r.getLast? = some e) (seq : Int)
    (hord : flagU hd.flags = true ∨ uint16_gt hd.ssn seq = false) :
    ({ reasm := r, seq := seq } : InStream).popMessages =
      .ok ([{ sid := e.sid, ppid := e.ppid, data := r.flatMap (·.data) }],
           { reasm := [], seq := if (!flagU hd.flags && decide (e.ssn = seq)) = true
                                  then uint16_add seq 1 else seq }) := by
  cases h with
  | single c hB hE =>
    simp only [List.head?_cons, Option.some.injEq, List.getLast?_singleton] at hhd he
    subst hhd; subst he
    have hno : (!flagU c.flags && uint16_gt c.ssn seq) = false := by
      rcases hord with h | h <;> simp [h]
    unfold InStream.popMessages
    simp only [List.length_cons, List.length_nil, Nat.zero_add]
    rw [show 2 * 1 + 2 = 2 + 1 + 1 by rfl, popRun_succ]
    have h1 : popIter { reasm := [c], seq := seq, pos := 0, start := none, expected := 0,
                        ordered := true, out := [] }
        = some { reasm := [], seq := if (!flagU c.flags && decide (c.ssn = seq)) = true
                                       then uint16_add seq 1 else seq,
                 pos := 0, start := none, expected := c.tsn, ordered := !flagU c.flags,
                 out := [{ sid := c.sid, ppid := c.ppid, data := [c].flatMap (·.data) }] } := by
      unfold popIter
      simp only [List.getElem?_cons_zero, hB, Bool.not_true, Bool.false_eq_true, ↓reduceIte, hno]
      simp [popTail, hE]
    rw [h1]
    simp only []
    rw [popRun_succ]
    simp [popIter]
  | close seg c exp hp hc hE =>
    have hne := prun_ne_nil hp
    have hhd' : seg.head? = some hd := by
      cases seg with
      | nil => exact absurd rfl hne
      | cons a seg => simpa using hhd
    have he' : c = e := by simpa using he
    subst he'
    unfold InStream.popMessages
    simp only [List.length_append, List.length_cons, List.length_nil, Nat.zero_add]
    rw [show 2 * (seg.length + 1) + 2 = (seg.length + 2 + 2) + seg.length by omega,
      popRun_prun seg exp hp hd hhd' seq hord [c] _, popRun_succ]
    have h1 : popIter { reasm := seg ++ [c], seq := seq, pos := seg.length, start := some 0,
                        expected := exp, ordered := !flagU hd.flags, out := [] }
        = some { reasm := [], seq := if (!flagU hd.flags && decide (c.ssn = seq)) = true
                                       then uint16_add seq 1 else seq,
                 pos := 0, start := none, expected := exp, ordered := !flagU hd.flags,
                 out := [{ sid := c.sid, ppid := c.ppid, data := (seg ++ [c]).flatMap (·.data) }] } := by
      unfold popIter
      simp only [getElem?_length_append, hc, ne_eq, not_true_eq_false, ↓reduceIte]
      simp [popTail, hE, List.take_of_length_le, List.drop_of_length_le]
    rw [h1]
    simp only []
    rw [popRun_succ]
    simp [popIter]

end Aiortc.Sctp
