import Aiortc.Model.Sctp.Inbound
/-!
# `pop_messages` terminates within its fuel: the model never answers `hang` (C06)
-/
namespace Aiortc.Sctp
open Aiortc.Gen

def popMeasure (st : PopSt) : Nat := 2 * st.reasm.length - st.pos

structure PopOk (st : PopSt) : Prop where
  pos_le : st.pos ≤ st.reasm.length
  sp_le : ∀ sp, st.start = some sp → sp ≤ st.pos

theorem lt_length_of_getElem? {α} (l : List α) (i : Nat) (a : α) (h : l[i]? = some a) : i < l.length := by
  rcases Nat.lt_or_ge i l.length with h' | h'
  · exact h'
  · simp [List.getElem?_eq_none h'] at h

theorem popTail_measure (st : PopSt) (chunk : RChunk) (sp : Nat) (hc : st.reasm[st.pos]? = some chunk)
    (hsp : sp ≤ st.pos) (hst : ∀ sp', st.start = some sp' → sp' ≤ st.pos) :
    PopOk (popTail st chunk sp) ∧ popMeasure (popTail st chunk sp) < popMeasure st := by
  have hlt := lt_length_of_getElem? _ _ _ hc
  unfold popTail
  split
  · refine ⟨⟨?_, ?_⟩, ?_⟩
    · simp only [List.length_append, List.length_take, List.length_drop]; omega
    · intro sp' h; simp at h
    · simp only [popMeasure, List.length_append, List.length_take, List.length_drop]; omega
  · refine ⟨⟨?_, ?_⟩, ?_⟩
    · simp only; omega
    · intro sp' h; have := hst sp' h; simp only; omega
    · simp only [popMeasure]; omega

theorem popIter_measure (st st' : PopSt) (hok : PopOk st) (h : popIter st = some st') :
    PopOk st' ∧ popMeasure st' < popMeasure st := by
  unfold popIter at h
  cases hc : st.reasm[st.pos]? with
  | none => simp [hc] at h
  | some chunk =>
    have hlt := lt_length_of_getElem? _ _ _ hc
    simp only [hc] at h
    cases hs : st.start with
    | none =>
      simp only [hs] at h
      split at h
      · split at h
        · simp at h
        · simp only [Option.some.injEq] at h
          subst h
          refine ⟨⟨by simp only; omega, ?_⟩, by simp only [popMeasure]; omega⟩
          intro sp hsp; simp at hsp
      · split at h
        · simp at h
        · simp only [Option.some.injEq] at h
          subst h
          exact popTail_measure { st with ordered := !flagU chunk.flags, expected := chunk.tsn,
                                          start := some st.pos } chunk st.pos hc (Nat.le_refl _)
            (by intro sp' h'; simp only [Option.some.injEq] at h'; exact Nat.le_of_eq h'.symm)
    | some sp =>
      simp only [hs] at h
      have hsp := hok.sp_le sp hs
      split at h
      · split at h
        · simp at h
        · simp only [Option.some.injEq] at h
          subst h
          refine ⟨⟨by simp only; omega, ?_⟩, by simp only [popMeasure]; omega⟩
          intro sp' h'; simp at h'
      · simp only [Option.some.injEq] at h
        subst h
        exact popTail_measure st chunk sp hc hsp hok.sp_le

theorem popRun_some (fuel : Nat) (st : PopSt) (hok : PopOk st) (hf : popMeasure st < fuel) :
    ∃ st', popRun fuel st = some st' := by
  induction fuel generalizing st with
  | zero => omega
  | succ fuel ih =>
    unfold popRun
    cases hi : popIter st with
    | none => exact ⟨st, rfl⟩
    | some st1 =>
      have := popIter_measure st st1 hok hi
      exact ih st1 this.1 (by omega)

/-- **`pop_messages` always terminates**: the model never reports `hang` (nor any error). -/
theorem popMessages_total (s : InStream) : ∃ msgs s', s.popMessages = .ok (msgs, s') := by
  unfold InStream.popMessages
  simp only
  obtain ⟨st', h⟩ := popRun_some (2 * s.reasm.length + 2)
    { reasm := s.reasm, seq := s.seq, pos := 0, start := none, expected := 0, ordered := true, out := [] }
    ⟨by simp, by intro sp h; simp at h⟩ (by simp only [popMeasure]; omega)
  rw [h]
  exact ⟨_, _, rfl⟩

end Aiortc.Sctp
