import Aiortc.Lemmas.C06.SctpRuns
/-!
# After pruning, no run waits for a skipped fragment; runs are maximal (C06)
-/
namespace Aiortc.Sctp
open Aiortc.Gen

/-- adjacent runs do not join. -/
def AdjOk : List (List RChunk) → Prop
  | g1 :: g2 :: r => (∀ a ∈ g1.getLast?, ∀ b ∈ g2.head?, joins a b = false) ∧ AdjOk (g2 :: r)
  | _ => True

theorem runsOf_head (l : List RChunk) : ∀ g ∈ (runsOf l).head?, g.head? = l.head? := by
  cases l with
  | nil => simp [runsOf]
  | cons c cs => rw [runsOf]; simp

theorem runsOf_adjOk (l : List RChunk) : AdjOk (runsOf l) := by
  induction h : l.length using Nat.strongRecOn generalizing l with
  | _ n ih =>
    cases l with
    | nil => simp [runsOf, AdjOk]
    | cons c cs =>
      have hl := takeRun_length c cs
      have ih' := ih (takeRun c cs).2.length (by simp at h; omega) _ rfl
      have hmax := takeRun_maximal c cs
      have hhead := runsOf_head (takeRun c cs).2
      rw [runsOf]
      cases hr : runsOf (takeRun c cs).2 with
      | nil => simp [AdjOk]
      | cons g2 r =>
        rw [hr] at ih' hhead
        refine ⟨?_, ih'⟩
        intro a ha b hb
        have hb' : b ∈ (takeRun c cs).2.head? := by
          have := hhead g2 (by simp)
          rw [← this]; exact hb
        have ha' : a = runLast c (takeRun c cs).1 := by
          simp only [runLast]
          simp only [Option.mem_def] at ha
          rw [ha]; rfl
        rw [ha']
        exact hmax b hb'

theorem head?_flatten_of_ne_nil {α} (L : List (List α)) (h : ∀ g ∈ L, g ≠ []) :
    L.flatten.head? = L.head?.bind List.head? := by
  cases L with
  | nil => rfl
  | cons g L =>
    cases g with
    | nil => exact absurd rfl (h [] (by simp))
    | cons a g => simp

/-- After `prune_chunks(cum)` the head of the reassembly queue, if it is not a B fragment, is waiting for a
fragment the FORWARD TSN did not skip: the stream is not wedged behind an abandoned message. -/
theorem prune_head_not_wedged (s : InStream) (cum : Int) :
    ∀ h ∈ (s.pruneChunks cum).1.reasm.head?,
      flagB h.flags = true ∨ uint32_gte cum (tsn_minus_one h.tsn) = false := by
  rw [pruneChunks_eq]
  simp only
  intro h hh
  rw [head?_flatten_of_ne_nil] at hh
  · cases hk : (runsOf s.reasm).filter (fun g => !runDead cum g) with
    | nil => simp [hk] at hh
    | cons g gs =>
      have hg : g ∈ (runsOf s.reasm).filter (fun g => !runDead cum g) := by rw [hk]; simp
      have hdead : runDead cum g = false := by simpa using (List.mem_filter.1 hg).2
      simp only [hk, List.head?_cons, Option.bind_some, Option.mem_def] at hh
      cases g with
      | nil => simp at hh
      | cons first run =>
        simp only [List.head?_cons, Option.some.injEq] at hh
        subst hh
        simp only [runDead, Bool.or_eq_false_iff, Bool.and_eq_false_iff, Bool.not_eq_false'] at hdead
        exact hdead.1
  · intro g hg
    exact runsOf_ne_nil s.reasm g (List.mem_filter.1 hg).1

end Aiortc.Sctp
