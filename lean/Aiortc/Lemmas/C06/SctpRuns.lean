import Aiortc.Model.Sctp.Inbound
/-!
# Runs of a reassembly queue and what `prune_chunks` does to them (C06)

`runsOf l` cuts a reassembly queue into the maximal runs of fragments that `prune_chunks` treats as
belonging together (`joins`: the previous fragment is not an E fragment, the next one is not a B
fragment and carries the next TSN).  `pruneGo_eq` shows that the fuelled loop model of
`prune_chunks` keeps exactly the runs that are not `runDead`, in order, and frees exactly the bytes of
the dead ones.
-/
namespace Aiortc.Sctp
open Aiortc.Gen

/-- `d` continues the run whose last fragment so far is `c` (the test of the inner `while`). -/
def joins (c d : RChunk) : Bool :=
  !flagE c.flags && !flagB d.flags && decide (d.tsn = tsn_plus_one c.tsn)

/-- every fragment continues its predecessor, starting from `p`. -/
def Chained : RChunk → List RChunk → Prop
  | _, [] => True
  | p, c :: cs => joins p c = true ∧ Chained c cs

theorem takeRun_append (prev : RChunk) (l : List RChunk) :
    (takeRun prev l).1 ++ (takeRun prev l).2 = l := by
  induction l generalizing prev with
  | nil => simp [takeRun]
  | cons c cs ih =>
    unfold takeRun
    split
    · simp only [List.cons_append, ih c]
    · simp

theorem takeRun_chained (prev : RChunk) (l : List RChunk) : Chained prev (takeRun prev l).1 := by
  induction l generalizing prev with
  | nil => simp [takeRun, Chained]
  | cons c cs ih =>
    unfold takeRun
    split
    · rename_i h
      refine ⟨?_, ih c⟩
      simpa [joins] using h
    · simp [Chained]

/-- last fragment of the run that starts with `prev`. -/
def runLast (prev : RChunk) (run : List RChunk) : RChunk := (prev :: run).getLast?.getD prev

theorem runLast_nil (p : RChunk) : runLast p [] = p := rfl
theorem runLast_cons (p c : RChunk) (cs : List RChunk) : runLast p (c :: cs) = runLast c cs := by
  simp [runLast, List.getLast?_cons_cons]
  cases h : (c :: cs).getLast? with
  | none => simp at h
  | some x => rfl

/-- maximality: what follows a run does not continue it. -/
theorem takeRun_maximal (prev : RChunk) (l : List RChunk) :
    ∀ d ∈ (takeRun prev l).2.head?, joins (runLast prev (takeRun prev l).1) d = false := by
  induction l generalizing prev with
  | nil => simp [takeRun]
  | cons c cs ih =>
    unfold takeRun
    split
    · simp only [runLast_cons]; exact ih c
    · rename_i h
      intro d hd
      simp only [List.head?_cons, Option.mem_def, Option.some.injEq] at hd
      subst hd
      simp only [runLast_nil]
      simpa [joins] using h

/-- The maximal runs of a reassembly queue, in order. -/
def runsOf : List RChunk → List (List RChunk)
  | [] => []
  | c :: cs => (c :: (takeRun c cs).1) :: runsOf (takeRun c cs).2
termination_by l => l.length
decreasing_by
  have := takeRun_length c cs
  simp only [List.length_cons]; omega

theorem runsOf_flatten (l : List RChunk) : (runsOf l).flatten = l := by
  induction h : l.length using Nat.strongRecOn generalizing l with
  | _ n ih =>
    cases l with
    | nil => simp [runsOf]
    | cons c cs =>
      rw [runsOf, List.flatten_cons]
      have hl := takeRun_length c cs
      rw [ih (takeRun c cs).2.length (by simp at h; omega) _ rfl]
      simp [takeRun_append]

theorem runsOf_ne_nil (l : List RChunk) : ∀ g ∈ runsOf l, g ≠ [] := by
  induction h : l.length using Nat.strongRecOn generalizing l with
  | _ n ih =>
    cases l with
    | nil => simp [runsOf]
    | cons c cs =>
      rw [runsOf]
      have hl := takeRun_length c cs
      intro g hg
      rcases List.mem_cons.1 hg with rfl | hg
      · simp
      · exact ih (takeRun c cs).2.length (by simp at h; omega) _ rfl g hg

/-- every run is a chain of joining fragments. -/
theorem runsOf_chained (l : List RChunk) : ∀ g ∈ runsOf l, ∃ c r, g = c :: r ∧ Chained c r := by
  induction h : l.length using Nat.strongRecOn generalizing l with
  | _ n ih =>
    cases l with
    | nil => simp [runsOf]
    | cons c cs =>
      rw [runsOf]
      have hl := takeRun_length c cs
      intro g hg
      rcases List.mem_cons.1 hg with rfl | hg
      · exact ⟨c, _, rfl, takeRun_chained c cs⟩
      · exact ih (takeRun c cs).2.length (by simp at h; omega) _ rfl g hg

/-- `prune_chunks`' verdict on one run (first fragment `first`, last fragment `last`): the run lacks its
beginning and the fragment just before it was skipped, or it lacks its end and the fragment just
after it was skipped. -/
def runDead (tsn : Int) : List RChunk → Bool
  | [] => false
  | first :: run =>
    let last := runLast first run
    (!flagB first.flags && uint32_gte tsn (tsn_minus_one first.tsn))
      || (!flagE last.flags && uint32_gte tsn (tsn_plus_one last.tsn))

def bytesOf (g : List RChunk) : Nat := (g.map (·.data.length)).sum

theorem bytesOf_append (a b : List RChunk) : bytesOf (a ++ b) = bytesOf a + bytesOf b := by
  simp [bytesOf]

theorem pruneGo_eq (tsn : Int) (fuel : Nat) (l : List RChunk) (h : l.length < fuel) :
    pruneGo tsn fuel l =
      (((runsOf l).filter (fun g => !runDead tsn g)).flatten,
       (((runsOf l).filter (runDead tsn)).map bytesOf).sum) := by
  induction fuel generalizing l with
  | zero => omega
  | succ fuel ih =>
    cases l with
    | nil => simp [pruneGo, runsOf]
    | cons first cs =>
      have hl := takeRun_length first cs
      have hrest : (takeRun first cs).2.length < fuel := by simp at h; omega
      rw [runsOf]
      simp only [pruneGo, ih _ hrest, List.filter_cons, runDead, runLast]
      split <;> rename_i hd
      · simp [hd, bytesOf, Nat.add_comm]
      · simp [hd]

/-- `prune_chunks` in terms of runs. -/
theorem pruneChunks_eq (s : InStream) (tsn : Int) :
    s.pruneChunks tsn =
      ({ s with reasm := ((runsOf s.reasm).filter (fun g => !runDead tsn g)).flatten },
       (((runsOf s.reasm).filter (runDead tsn)).map bytesOf).sum) := by
  simp only [InStream.pruneChunks, pruneGo_eq tsn _ s.reasm (Nat.lt_succ_self _)]

/-- kept bytes + freed bytes = bytes before. -/
theorem filter_bytes_split (p : List RChunk → Bool) (L : List (List RChunk)) :
    bytesOf (L.filter (fun g => !p g)).flatten + ((L.filter p).map bytesOf).sum = bytesOf L.flatten := by
  induction L with
  | nil => simp [bytesOf]
  | cons g L ih =>
    simp only [List.filter_cons, List.flatten_cons, bytesOf_append]
    cases hp : p g
    · simp only [Bool.not_false, ↓reduceIte, List.flatten_cons, bytesOf_append, Bool.false_eq_true]
      omega
    · simp only [Bool.not_true, Bool.false_eq_true, ↓reduceIte, List.map_cons, List.sum_cons]
      omega

theorem filter_all_flatten {α} (p : List α → Bool) (L : List (List α)) (h : ∀ g ∈ L, p g = true) :
    (L.filter p).flatten = L.flatten := by
  rw [List.filter_eq_self.2 h]

theorem filter_none_sum (p : List RChunk → Bool) (L : List (List RChunk)) (h : ∀ g ∈ L, p g = false) :
    ((L.filter p).map bytesOf).sum = 0 := by
  have : L.filter p = [] := by
    rw [List.filter_eq_nil_iff]; intro g hg; simp [h g hg]
  simp [this]

end Aiortc.Sctp
