import Aiortc.Model.Sctp.Forward
import Aiortc.Lemmas.C06.SctpIntegrity
import Aiortc.Lemmas.C06.SctpAdvAck
/-!
# Receiver-level integrity: arbitrary arrival lists, DATA and FORWARD TSN (C06)
-/
namespace Aiortc.Sctp
open Aiortc.Gen

/-- every fragment in every reassembly queue satisfies `P` (e.g. "was sent by the peer"). -/
def StreamsOk (P : RChunk → Prop) (ins : List (Nat × InStream)) : Prop := ∀ p ∈ ins, ∀ c ∈ p.2.reasm, P c

/-- all messages are joins of complete runs of `P`-fragments. -/
def MsgsOk (P : RChunk → Prop) (msgs : List Msg) : Prop := ∀ m ∈ msgs, ∃ R, (∀ c ∈ R, P c) ∧ GoodMsg R m

theorem dictGet_mem {β} (d : List (Nat × β)) (k : Nat) (v : β) (h : dictGet d k = some v) : (k, v) ∈ d := by
  induction d with
  | nil => simp [dictGet_nil] at h
  | cons e d ih =>
    rw [dictGet_cons] at h
    split at h
    · rename_i he
      simp only [Option.some.injEq] at h
      have : e = (k, v) := by cases e; simp_all
      simp [this]
    · exact List.mem_cons_of_mem _ (ih h)

theorem mem_dictSet {β} (d : List (Nat × β)) (k : Nat) (v : β) (p : Nat × β) (h : p ∈ dictSet d k v) :
    p ∈ d ∨ p = (k, v) := by
  unfold dictSet at h
  split at h
  · obtain ⟨e, he, hp⟩ := List.mem_map.1 h
    split at hp
    · exact Or.inr hp.symm
    · exact Or.inl (hp ▸ he)
  · rcases List.mem_append.1 h with h | h
    · exact Or.inl h
    · exact Or.inr (by simpa using h)

theorem streamsOk_dictSet (P : RChunk → Prop) (ins : List (Nat × InStream)) (k : Nat) (s : InStream)
    (h : StreamsOk P ins) (hs : ∀ c ∈ s.reasm, P c) : StreamsOk P (dictSet ins k s) := by
  intro p hp
  rcases mem_dictSet ins k s p hp with hp | rfl
  · exact h p hp
  · exact hs

/-- `_get_inbound_stream`: the stream looked up (or created) holds only `P`-fragments. -/
theorem streamsOk_get (P : RChunk → Prop) (ins : List (Nat × InStream)) (k : Nat) (h : StreamsOk P ins) :
    StreamsOk P (if (dictGet ins k).isSome then ins else ins ++ [(k, ({} : InStream))]) ∧
    ∀ c ∈ ((dictGet (if (dictGet ins k).isSome then ins else ins ++ [(k, ({} : InStream))]) k).getD ({} : InStream)).reasm, P c := by
  have h1 : StreamsOk P (if (dictGet ins k).isSome then ins else ins ++ [(k, ({} : InStream))]) := by
    split
    · exact h
    · intro p hp
      rcases List.mem_append.1 hp with hp | hp
      · exact h p hp
      · simp only [List.mem_singleton] at hp; subst hp; intro c hc; simp at hc
  refine ⟨h1, ?_⟩
  cases hg : dictGet (if (dictGet ins k).isSome then ins else ins ++ [(k, ({} : InStream))]) k with
  | none => intro c hc; simp at hc
  | some s => exact h1 (k, s) (dictGet_mem _ k s hg)

theorem fwdGuard_reasm (s : InStream) (sseq : Int) : (fwdGuard s sseq).reasm = s.reasm := by
  unfold fwdGuard
  simp only
  split <;> rfl

theorem fwdPrune_ok (P : RChunk → Prop) (cum : Int) (ins : List (Nat × InStream)) (h : StreamsOk P ins) :
    StreamsOk P (fwdPrune cum ins).1 := by
  intro p hp
  simp only [fwdPrune, List.mem_map] at hp
  obtain ⟨q, hq, rfl⟩ := hp
  intro c hc
  exact h q hq c ((pruneChunks_sublist q.2 cum).subset hc)

theorem fwdAdvanceOne_ok (P : RChunk → Prop) (ins ins' : List (Nat × InStream)) (sid : Nat) (sseq : Int)
    (msgs : List Msg) (h : StreamsOk P ins) (hr : fwdAdvanceOne ins sid sseq = .ok (ins', msgs)) :
    StreamsOk P ins' ∧ MsgsOk P msgs := by
  unfold fwdAdvanceOne at hr
  simp only at hr
  have hget := streamsOk_get P ins sid h
  split at hr
  · rename_i m s' hp
    simp only [Outcome.ok.injEq, Prod.mk.injEq] at hr
    obtain ⟨rfl, rfl⟩ := hr
    have hs := popMessages_sound _ s' m hp
    have hguard : ∀ c ∈ (fwdGuard ((dictGet (if (dictGet ins sid).isSome then ins
        else ins ++ [(sid, ({} : InStream))]) sid).getD ({} : InStream)) sseq).reasm, P c := by
      intro c hc
      rw [fwdGuard_reasm] at hc
      exact hget.2 c hc
    exact ⟨streamsOk_dictSet P _ sid s' hget.1 (fun c hc => hguard c (hs.2.subset hc)),
      fun x hx => ⟨_, hguard, hs.1 x hx⟩⟩
  all_goals simp at hr

theorem fwdAdvance_ok (P : RChunk → Prop) (streams : List (Nat × Int)) (ins ins' : List (Nat × InStream))
    (msgs : List Msg) (h : StreamsOk P ins) (hr : fwdAdvance ins streams = .ok (ins', msgs)) :
    StreamsOk P ins' ∧ MsgsOk P msgs := by
  induction streams generalizing ins msgs with
  | nil =>
    simp only [fwdAdvance, Outcome.ok.injEq, Prod.mk.injEq] at hr
    obtain ⟨rfl, rfl⟩ := hr
    exact ⟨h, fun m hm => by simp at hm⟩
  | cons p rest ih =>
    obtain ⟨sid, sseq⟩ := p
    unfold fwdAdvance at hr
    cases h1 : fwdAdvanceOne ins sid sseq with
    | ok r =>
      obtain ⟨ins1, m1⟩ := r
      simp only [h1] at hr
      cases h2 : fwdAdvance ins1 rest with
      | ok r2 =>
        obtain ⟨ins2, m2⟩ := r2
        simp only [h2, Outcome.ok.injEq, Prod.mk.injEq] at hr
        obtain ⟨rfl, rfl⟩ := hr
        have a := fwdAdvanceOne_ok P ins ins1 sid sseq m1 h h1
        have b := ih ins1 m2 a.1 h2
        refine ⟨b.1, ?_⟩
        intro m hm
        rcases List.mem_append.1 hm with hm | hm
        · exact a.2 m hm
        · exact b.2 m hm
      | valueError => simp [h2] at hr
      | crash k => simp [h2] at hr
      | hang => simp [h2] at hr
    | valueError => simp [h1] at hr
    | crash k => simp [h1] at hr
    | hang => simp [h1] at hr

theorem rxFwd_ok (P : RChunk → Prop) (rx rx' : Rx) (ins ins' : List (Nat × InStream)) (cum : Int)
    (streams : List (Nat × Int)) (freed : Nat) (msgs : List Msg) (h : StreamsOk P ins)
    (hr : rxFwd rx ins cum streams = .ok (rx', ins', freed, msgs)) :
    StreamsOk P ins' ∧ MsgsOk P msgs := by
  unfold rxFwd at hr
  split at hr
  · simp only [Outcome.ok.injEq, Prod.mk.injEq] at hr
    obtain ⟨_, rfl, _, rfl⟩ := hr
    exact ⟨h, fun m hm => by simp at hm⟩
  · unfold fwdStreams at hr
    simp only at hr
    cases h1 : fwdAdvance (fwdPrune cum ins).1 streams with
    | ok r =>
      obtain ⟨ins2, m2⟩ := r
      simp only [h1, Outcome.ok.injEq, Prod.mk.injEq] at hr
      obtain ⟨_, rfl, _, rfl⟩ := hr
      exact fwdAdvance_ok P streams _ _ _ (fwdPrune_ok P cum ins h) h1
    | valueError => simp [h1] at hr
    | crash k => simp [h1] at hr
    | hang => simp [h1] at hr

theorem rxData_ok (P : RChunk → Prop) (rx rx' : Rx) (ins ins' : List (Nat × InStream)) (c : RChunk)
    (msgs : List Msg) (h : StreamsOk P ins) (hc : P c)
    (hr : rxData rx ins c = .ok (rx', ins', msgs)) :
    StreamsOk P ins' ∧ MsgsOk P msgs := by
  unfold rxData at hr
  simp only at hr
  split at hr
  · simp only [Outcome.ok.injEq, Prod.mk.injEq] at hr
    obtain ⟨_, rfl, rfl⟩ := hr
    exact ⟨h, fun m hm => by simp at hm⟩
  · have hget := streamsOk_get P ins c.sid h
    generalize (if (dictGet ins c.sid).isSome then ins else ins ++ [(c.sid, ({} : InStream))]) = insX at hr hget
    by_cases hg : (((dictGet insX c.sid).getD {}).reasm.any fun x => x.tsn == c.tsn) = true
    · -- the chunk is still waiting in the reassembly queue: dropped (the stream entry may have been created)
      rw [if_pos hg] at hr
      simp only [Outcome.ok.injEq, Prod.mk.injEq] at hr
      obtain ⟨_, rfl, rfl⟩ := hr
      exact ⟨hget.1, fun m hm => by simp at hm⟩
    rw [if_neg hg] at hr
    split at hr
    · rename_i s1 ha
      split at hr
      · rename_i m s2 hp
        simp only [Outcome.ok.injEq, Prod.mk.injEq] at hr
        obtain ⟨_, rfl, rfl⟩ := hr
        have h1 : ∀ x ∈ s1.reasm, P x := by
          intro x hx
          rcases (addChunk_mem _ s1 c ha).1 x hx with rfl | hx
          · exact hc
          · exact hget.2 x hx
        have hs := popMessages_sound s1 s2 m hp
        exact ⟨streamsOk_dictSet P _ c.sid s2 hget.1 (fun x hx => h1 x (hs.2.subset hx)),
          fun x hx => ⟨_, h1, hs.1 x hx⟩⟩
      all_goals simp at hr
    all_goals simp at hr

theorem rxRun_ok (P : RChunk → Prop) (arrivals : List Arrival) (st st' : RxSt) (out : List Msg)
    (h : StreamsOk P st.2) (harr : ∀ c, Arrival.data c ∈ arrivals → P c)
    (hr : rxRun st arrivals = .ok (st', out)) : StreamsOk P st'.2 ∧ MsgsOk P out := by
  induction arrivals generalizing st out with
  | nil =>
    simp only [rxRun, Outcome.ok.injEq, Prod.mk.injEq] at hr
    obtain ⟨rfl, rfl⟩ := hr
    exact ⟨h, fun m hm => by simp at hm⟩
  | cons a as ih =>
    unfold rxRun at hr
    cases h1 : rxStep st a with
    | ok r =>
      obtain ⟨st1, o1⟩ := r
      simp only [h1] at hr
      cases h2 : rxRun st1 as with
      | ok r2 =>
        obtain ⟨st2, o2⟩ := r2
        simp only [h2, Outcome.ok.injEq, Prod.mk.injEq] at hr
        obtain ⟨rfl, rfl⟩ := hr
        have hstep : StreamsOk P st1.2 ∧ MsgsOk P o1 := by
          cases a with
          | data c =>
            simp only [rxStep] at h1
            cases h3 : rxData st.1 st.2 c with
            | ok q =>
              obtain ⟨rx', ins', m'⟩ := q
              simp only [h3, Outcome.ok.injEq, Prod.mk.injEq] at h1
              obtain ⟨rfl, rfl⟩ := h1
              exact rxData_ok P st.1 rx' st.2 ins' c m' h (harr c (by simp)) h3
            | valueError => simp [h3] at h1
            | crash k => simp [h3] at h1
            | hang => simp [h3] at h1
          | fwd cum streams =>
            simp only [rxStep] at h1
            cases h3 : rxFwd st.1 st.2 cum streams with
            | ok q =>
              obtain ⟨rx', ins', fr, m'⟩ := q
              simp only [h3, Outcome.ok.injEq, Prod.mk.injEq] at h1
              obtain ⟨rfl, rfl⟩ := h1
              exact rxFwd_ok P st.1 rx' st.2 ins' cum streams fr m' h h3
            | valueError => simp [h3] at h1
            | crash k => simp [h3] at h1
            | hang => simp [h3] at h1
        have b := ih st1 o2 hstep.1 (fun c hc => harr c (by simp [hc])) h2
        refine ⟨b.1, ?_⟩
        intro m hm
        rcases List.mem_append.1 hm with hm | hm
        · exact hstep.2 m hm
        · exact b.2 m hm
      | valueError => simp [h2] at hr
      | crash k => simp [h2] at hr
      | hang => simp [h2] at hr
    | valueError => simp [h1] at hr
    | crash k => simp [h1] at hr
    | hang => simp [h1] at hr

end Aiortc.Sctp
