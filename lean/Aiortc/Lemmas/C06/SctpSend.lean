import Aiortc.Lemmas.C06.SctpAbandon
import Aiortc.Lemmas.C06.SctpUniverse
/-!
# What `_send` puts into the outbound queue (C06)

The fragments of one message carry consecutive TSNs, the B flag on the first and only the first, the E flag
on the last and only the last, the message's stream id / ppid, and their payloads join to the user data.
-/
namespace Aiortc.Sctp
open Aiortc.Gen

theorem flag_consts : SCTP_DATA_LAST_FRAG = 1 ∧ SCTP_DATA_FIRST_FRAG = 2 ∧ SCTP_DATA_UNORDERED = 4 := by decide

section Frag
variable (tsn : Int) (sid : Nat) (ssn : Int) (ppid : Nat) (ordered : Bool) (expiry maxRtx : Option Int)
  (n : Nat) (data : Bytes)

/-- flags of fragment `i` of `n`. -/
def fragFlags (i : Nat) : Nat :=
  let f0 := if ordered then 0 else SCTP_DATA_UNORDERED
  let f1 := if i = 0 then f0 + SCTP_DATA_FIRST_FRAG else f0
  if i = n - 1 then f1 + SCTP_DATA_LAST_FRAG else f1

def ff (o z l : Bool) : Nat := (if o then 0 else 4) + (if z then 2 else 0) + (if l then 1 else 0)

theorem fragFlags_ff (i : Nat) : fragFlags ordered n i = ff ordered (decide (i = 0)) (decide (i = n - 1)) := by
  unfold fragFlags ff
  simp only [SCTP_DATA_UNORDERED, SCTP_DATA_FIRST_FRAG, SCTP_DATA_LAST_FRAG, decide_eq_true_eq]
  split <;> split <;> split <;> rfl

theorem fragFlags_B (i : Nat) : flagB (fragFlags ordered n i) = decide (i = 0) := by
  rw [fragFlags_ff]
  cases ordered <;> cases decide (i = 0) <;> cases decide (i = n - 1) <;> rfl

theorem fragFlags_E (i : Nat) : flagE (fragFlags ordered n i) = decide (i = n - 1) := by
  rw [fragFlags_ff]
  cases ordered <;> cases decide (i = 0) <;> cases decide (i = n - 1) <;> rfl

theorem fragFlags_U (i : Nat) : flagU (fragFlags ordered n i) = !ordered := by
  rw [fragFlags_ff]
  cases ordered <;> cases decide (i = 0) <;> cases decide (i = n - 1) <;> rfl

theorem fragments_succ (k : Nat) :
    fragments tsn sid ssn ppid ordered expiry maxRtx n data (k + 1) =
      { tsn := (tsn + ((n - (k + 1) : Nat) : Int)) % 4294967296, sid := sid, ssn := ssn, ppid := ppid,
        flags := fragFlags ordered n (n - (k + 1)),
        data := (data.drop ((n - (k + 1)) * USERDATA_MAX)).take USERDATA_MAX,
        bookSize := ((data.drop ((n - (k + 1)) * USERDATA_MAX)).take USERDATA_MAX).length,
        expiry := expiry, maxRetransmits := maxRtx }
      :: fragments tsn sid ssn ppid ordered expiry maxRtx n data k := by
  rw [fragments]; rfl

theorem fragments_length (k : Nat) :
    (fragments tsn sid ssn ppid ordered expiry maxRtx n data k).length = k := by
  induction k with
  | zero => rfl
  | succ k ih => rw [fragments_succ, List.length_cons, ih]

theorem fragments_fields (k : Nat) :
    ∀ c ∈ fragments tsn sid ssn ppid ordered expiry maxRtx n data k,
      c.sid = sid ∧ c.ppid = ppid ∧ c.ssn = ssn ∧ c.inFlight = false ∧ c.abandoned = false ∧
      flagU c.flags = !ordered := by
  induction k with
  | zero => simp [fragments]
  | succ k ih =>
    rw [fragments_succ]
    intro c hc
    rcases List.mem_cons.1 hc with rfl | hc
    · simp [fragFlags_U]
    · exact ih c hc

theorem fragments_tsn (k : Nat) (hk : k ≤ n) (j : Nat)
    (hj : j < (fragments tsn sid ssn ppid ordered expiry maxRtx n data k).length) :
    (fragments tsn sid ssn ppid ordered expiry maxRtx n data k)[j].tsn
      = (tsn + ((n - k + j : Nat) : Int)) % 4294967296 := by
  induction k generalizing j with
  | zero => simp [fragments] at hj
  | succ k ih =>
    simp only [fragments_succ] at hj ⊢
    cases j with
    | zero => simp
    | succ j =>
      simp only [List.getElem_cons_succ]
      rw [ih (by omega)]
      congr 2
      omega

theorem fragments_noB (k : Nat) (hk : k < n) :
    NoB (fragments tsn sid ssn ppid ordered expiry maxRtx n data k) := by
  induction k with
  | zero => intro c hc; simp [fragments] at hc
  | succ k ih =>
    rw [fragments_succ]
    intro c hc
    rcases List.mem_cons.1 hc with rfl | hc
    · simp only [fragFlags_B]; simp; omega
    · exact ih (by omega) c hc

theorem fragments_lastOnlyE (k : Nat) (hk : k ≤ n) (hk1 : 1 ≤ k) :
    LastOnlyE (fragments tsn sid ssn ppid ordered expiry maxRtx n data k) := by
  induction k with
  | zero => omega
  | succ k ih =>
    cases k with
    | zero =>
      rw [fragments_succ]
      simp only [fragments, LastOnlyE, fragFlags_E]
      simp
    | succ k =>
      have ih := ih (by omega) (by omega)
      rw [fragments_succ]
      rw [fragments_succ] at ih ⊢
      refine ⟨?_, ih⟩
      simp only [fragFlags_E]; simp; omega

/-- the fragments `_send` makes for a non-empty message are the fragments of one message. -/
theorem fragments_isMsg (hn : 1 ≤ n) : IsMsg (fragments tsn sid ssn ppid ordered expiry maxRtx n data n) := by
  refine ⟨?_, fragments_lastOnlyE tsn sid ssn ppid ordered expiry maxRtx n data n (Nat.le_refl _) hn⟩
  obtain ⟨k, rfl⟩ : ∃ k, n = k + 1 := ⟨n - 1, by omega⟩
  rw [fragments_succ]
  refine ⟨?_, fragments_noB tsn sid ssn ppid ordered expiry maxRtx (k + 1) data k (by omega)⟩
  simp only [fragFlags_B]; simp

theorem fragments_data (k : Nat) (hk : k ≤ n) (hn : data.length ≤ n * USERDATA_MAX) :
    (fragments tsn sid ssn ppid ordered expiry maxRtx n data k).flatMap (·.data)
      = data.drop ((n - k) * USERDATA_MAX) := by
  induction k with
  | zero => simp [fragments, List.drop_eq_nil_of_le hn]
  | succ k ih =>
    rw [fragments_succ, List.flatMap_cons, ih (by omega)]
    have : (n - k) * USERDATA_MAX = (n - (k + 1)) * USERDATA_MAX + USERDATA_MAX := by
      have : n - k = (n - (k + 1)) + 1 := by omega
      rw [this, Nat.add_mul]; simp
    rw [this, ← List.drop_drop]
    exact List.take_append_drop _ _

theorem fragCount_covers (len : Nat) : len ≤ fragCount len * USERDATA_MAX := by
  simp only [fragCount, USERDATA_MAX, USERDATA_MAX_LENGTH]
  omega

end Frag

/-! ## a history of `_send` calls -/

/-- one call `_send(stream_id, pp_id, user_data, expiry, max_retransmits, ordered)`. -/
structure SendReq where
  sid : Nat
  ppid : Nat
  data : Bytes
  expiry : Option Int := none
  maxRtx : Option Int := none
  ordered : Bool := true
  deriving Repr, DecidableEq

def Tx.enqueueReq (t : Tx) (r : SendReq) : Tx := t.enqueue r.sid r.ppid r.data r.expiry r.maxRtx r.ordered

/-- the fragments `_send` appends for request `r` in state `t`. -/
def reqFrags (t : Tx) (r : SendReq) : List SChunk :=
  fragments t.localTsn r.sid (if r.ordered then (dictGet t.streamSeq r.sid).getD 0 else 0) r.ppid r.ordered
    r.expiry r.maxRtx (fragCount r.data.length) r.data (fragCount r.data.length)

theorem enqueueReq_outQ (t : Tx) (r : SendReq) : (t.enqueueReq r).outQ = t.outQ ++ reqFrags t r := rfl
theorem enqueueReq_localTsn (t : Tx) (r : SendReq) :
    (t.enqueueReq r).localTsn = (t.localTsn + ((reqFrags t r).length : Int)) % 4294967296 := by
  simp [Tx.enqueueReq, Tx.enqueue, reqFrags, fragments_length]

/-- fragment lists of a history of sends, one per request, in order. -/
def sentFrags : Tx → List SendReq → List (List SChunk)
  | _, [] => []
  | t, r :: rs => reqFrags t r :: sentFrags (t.enqueueReq r) rs

theorem sendAll_outQ (t : Tx) (rs : List SendReq) :
    (rs.foldl Tx.enqueueReq t).outQ = t.outQ ++ (sentFrags t rs).flatten := by
  induction rs generalizing t with
  | nil => simp [sentFrags]
  | cons r rs ih => simp [sentFrags, ih, enqueueReq_outQ]

theorem sentFrags_mem (t : Tx) (rs : List SendReq) :
    ∀ fs ∈ sentFrags t rs, ∃ t' r, r ∈ rs ∧ fs = reqFrags t' r := by
  induction rs generalizing t with
  | nil => simp [sentFrags]
  | cons r rs ih =>
    intro fs hfs
    rcases List.mem_cons.1 hfs with rfl | hfs
    · exact ⟨t, r, by simp, rfl⟩
    · obtain ⟨t', r', hr', h⟩ := ih _ fs hfs
      exact ⟨t', r', by simp [hr'], h⟩

theorem reqFrags_data (t : Tx) (r : SendReq) : (reqFrags t r).flatMap (·.data) = r.data := by
  unfold reqFrags
  rw [fragments_data _ _ _ _ _ _ _ _ _ _ (Nat.le_refl _) (fragCount_covers _)]
  simp

theorem reqFrags_fields (t : Tx) (r : SendReq) :
    ∀ c ∈ reqFrags t r, c.sid = r.sid ∧ c.ppid = r.ppid ∧ c.inFlight = false ∧ c.abandoned = false ∧
      flagU c.flags = !r.ordered := by
  intro c hc
  have := fragments_fields _ _ _ _ _ _ _ _ _ _ c hc
  exact ⟨this.1, this.2.1, this.2.2.2.1, this.2.2.2.2.1, this.2.2.2.2.2⟩

theorem reqFrags_isMsg (t : Tx) (r : SendReq) (h : reqFrags t r ≠ []) : IsMsg (reqFrags t r) := by
  unfold reqFrags at h ⊢
  apply fragments_isMsg
  have := fragments_length t.localTsn r.sid (if r.ordered then (dictGet t.streamSeq r.sid).getD 0 else 0)
    r.ppid r.ordered r.expiry r.maxRtx (fragCount r.data.length) r.data (fragCount r.data.length)
  rcases Nat.eq_zero_or_pos (fragCount r.data.length) with h0 | h0
  · rw [h0] at h; simp [fragments] at h
  · exact h0

theorem reqFrags_tsn (t : Tx) (r : SendReq) : TsnSeq t.localTsn ((reqFrags t r).map SChunk.toR) := by
  intro j hj
  simp only [List.length_map] at hj
  simp only [List.getElem_map, SChunk.toR]
  unfold reqFrags at hj ⊢
  rw [fragments_tsn _ _ _ _ _ _ _ _ _ _ (Nat.le_refl _)]
  simp

theorem tsnSeq_append (T : Int) (a b : List RChunk) (ha : TsnSeq T a)
    (hb : TsnSeq ((T + (a.length : Int)) % 4294967296) b) : TsnSeq T (a ++ b) := by
  intro j hj
  by_cases h : j < a.length
  · rw [List.getElem_append_left h]; exact ha j h
  · have h' : a.length ≤ j := by omega
    rw [List.getElem_append_right h']
    rw [hb (j - a.length) (by simp at hj; omega)]
    have : ((j - a.length : Nat) : Int) = (j : Int) - (a.length : Int) := by omega
    rw [this]
    omega

/-- everything a history of sends produced, as the receiver sees it. -/
def sentWire (t : Tx) (rs : List SendReq) : List (List RChunk) := (sentFrags t rs).map (·.map SChunk.toR)

theorem sentWire_tsn (t : Tx) (rs : List SendReq) : TsnSeq t.localTsn (sentWire t rs).flatten := by
  induction rs generalizing t with
  | nil => intro j hj; simp [sentWire, sentFrags] at hj
  | cons r rs ih =>
    simp only [sentWire, sentFrags, List.map_cons, List.flatten_cons]
    apply tsnSeq_append _ _ _ (reqFrags_tsn t r)
    have := ih (t.enqueueReq r)
    rw [enqueueReq_localTsn] at this
    simpa [sentWire] using this

theorem lastOnlyE_map (m : List SChunk) (h : LastOnlyE m) : UpToE rE (m.map SChunk.toR) := by
  induction m with
  | nil => exact h
  | cons c m ih =>
    cases m with
    | nil => exact h
    | cons d r => exact ⟨h.1, ih h.2⟩

theorem firstOnlyB_map (m : List SChunk) (h : FirstOnlyB m) : HeadOnlyB rB (m.map SChunk.toR) := by
  cases m with
  | nil => exact h
  | cons c m =>
    refine ⟨h.1, ?_⟩
    intro d hd
    obtain ⟨x, hx, rfl⟩ := List.mem_map.1 hd
    exact h.2 x hx

end Aiortc.Sctp
