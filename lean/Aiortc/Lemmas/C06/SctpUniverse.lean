import Aiortc.Lemmas.C06.SctpPop
/-!
# A complete run of fragments that the peer really sent is one of its messages (C06)

`W` is everything the sender ever fragmented, in TSN order: the concatenation of its messages' fragment
lists; TSNs are consecutive (`TsnSeq`).  A `FullRun` (what `pop_messages` joins) whose fragments all
come from `W` is exactly one of those fragment lists: no splice of two messages can be delivered.
-/
namespace Aiortc.Sctp
open Aiortc.Gen

section Generic
variable {α : Type} (B E : α → Bool)

/-- the first E element is the last element. -/
def UpToE : List α → Prop
  | [] => False
  | [e] => E e = true
  | c :: d :: r => E c = false ∧ UpToE (d :: r)

/-- the head, and only the head, is a B element. -/
def HeadOnlyB : List α → Prop
  | [] => False
  | h :: tl => B h = true ∧ ∀ c ∈ tl, B c = false

theorem upToE_snoc (ini : List α) (e : α) (h1 : ∀ c ∈ ini, E c = false) (h2 : E e = true) :
    UpToE E (ini ++ [e]) := by
  induction ini with
  | nil => exact h2
  | cons c ini ih =>
    have ih := ih (fun d hd => h1 d (by simp [hd]))
    cases hi : ini ++ [e] with
    | nil => simp at hi
    | cons d r =>
      rw [List.cons_append, hi]
      rw [hi] at ih
      exact ⟨h1 c (by simp), ih⟩

theorem upToE_prefix_unique (r m x y : List α) (hr : UpToE E r) (hm : UpToE E m)
    (h : r ++ x = m ++ y) : r = m := by
  induction r generalizing m with
  | nil => exact absurd hr (by simp [UpToE])
  | cons c r ih =>
    cases m with
    | nil => exact absurd hm (by simp [UpToE])
    | cons c' m =>
      simp only [List.cons_append, List.cons.injEq] at h
      obtain ⟨rfl, h⟩ := h
      cases r with
      | nil =>
        cases m with
        | nil => rfl
        | cons d m' =>
          have h1 : E c = true := hr
          have h2 : E c = false := hm.1
          simp [h1] at h2
      | cons d r' =>
        cases m with
        | nil =>
          have h1 : E c = true := hm
          have h2 : E c = false := hr.1
          simp [h1] at h2
        | cons d' m' =>
          rw [ih (d' :: m') hr.2 hm.2 h]

theorem run_is_message (ms : List (List α)) (hms : ∀ m ∈ ms, HeadOnlyB B m ∧ UpToE E m)
    (pre r post : List α) (hr : UpToE E r) (hrB : ∃ h tl, r = h :: tl ∧ B h = true)
    (hW : ms.flatten = pre ++ (r ++ post)) : r ∈ ms := by
  induction ms generalizing pre with
  | nil =>
    obtain ⟨h, tl, rfl, _⟩ := hrB
    simp at hW
  | cons m ms ih =>
    have ih := ih (fun m' hm' => hms m' (by simp [hm']))
    rw [List.flatten_cons, List.append_eq_append_iff] at hW
    rcases hW with ⟨a', hpre, hfl⟩ | ⟨c', hm, hfl⟩
    · exact List.mem_cons_of_mem _ (ih a' hfl)
    · cases pre with
      | nil =>
        simp only [List.nil_append] at hm
        subst hm
        have := upToE_prefix_unique E r m post ms.flatten hr (hms m (by simp)).2 hfl
        simp [this]
      | cons p pre' =>
        cases c' with
        | nil =>
          simp only [List.nil_append] at hfl
          exact List.mem_cons_of_mem _ (ih [] (by simpa using hfl.symm))
        | cons c0 c'' =>
          obtain ⟨h, tl, rfl, hB⟩ := hrB
          simp only [List.cons_append, List.cons.injEq] at hfl
          obtain ⟨rfl, _⟩ := hfl
          have hmB := (hms m (by simp)).1
          rw [hm] at hmB
          have : B h = false := hmB.2 h (by simp)
          simp [hB] at this

end Generic

/-! ## locating a run inside the sender's chunk sequence by its TSNs -/

/-- `W`'s chunks carry consecutive TSNs starting at `T` (mod 2^32). -/
def TsnSeq (T : Int) (W : List RChunk) : Prop :=
  ∀ j (h : j < W.length), W[j].tsn = (T + (j : Int)) % 4294967296

theorem prun_noE {seg : List RChunk} {exp : Int} (h : PRun seg exp) : ∀ c ∈ seg, flagE c.flags = false := by
  induction h with
  | start c _ hE => intro d hd; simp only [List.mem_singleton] at hd; exact hd ▸ hE
  | step seg c exp _ _ hE ih =>
    intro d hd
    rcases List.mem_append.1 hd with hd | hd
    · exact ih d hd
    · simp only [List.mem_singleton] at hd; exact hd ▸ hE

theorem prun_head {seg : List RChunk} {exp : Int} (h : PRun seg exp) :
    ∃ hd tl, seg = hd :: tl ∧ flagB hd.flags = true := by
  induction h with
  | start c hB _ => exact ⟨c, [], rfl, hB⟩
  | step seg c exp _ _ _ ih =>
    obtain ⟨hd, tl, rfl, hB⟩ := ih
    exact ⟨hd, tl ++ [c], rfl, hB⟩

theorem getElem_mid {α} (pre post : List α) (c : α) (h : pre.length < (pre ++ c :: post).length) :
    (pre ++ c :: post)[pre.length] = c := by
  simp

theorem next_located (T : Int) (W : List RChunk) (hW : TsnSeq T W) (hlen : W.length < 4294967296)
    (pre seg post : List RChunk) (c : RChunk) (hWeq : W = pre ++ (seg ++ post)) (hc : c ∈ W)
    (htsn : c.tsn = (T + ((pre.length + seg.length : Nat) : Int)) % 4294967296) :
    ∃ post', post = c :: post' := by
  obtain ⟨j, hj, hjc⟩ := List.getElem_of_mem hc
  have ht := hW j hj
  rw [hjc, htsn] at ht
  have hlen' : W.length = pre.length + (seg.length + post.length) := by rw [hWeq]; simp
  have hjeq : j = pre.length + seg.length := by omega
  cases post with
  | nil => simp at hlen'; omega
  | cons d post' =>
    have h1 : W[j]? = some c := by rw [List.getElem?_eq_getElem hj, hjc]
    have h2 : W[j]? = some d := by
      rw [hWeq, hjeq, ← List.append_assoc]
      have : pre.length + seg.length = (pre ++ seg).length := by simp
      rw [this, List.getElem?_append_right (Nat.le_refl _)]
      simp
    have hd : c = d := by rw [h1] at h2; exact Option.some.inj h2
    exact ⟨post', by rw [hd]⟩

theorem prun_located (T : Int) (W : List RChunk) (hW : TsnSeq T W) (hlen : W.length < 4294967296)
    (seg : List RChunk) (exp : Int) (h : PRun seg exp) (hsub : ∀ c ∈ seg, c ∈ W) :
    ∃ pre post, W = pre ++ (seg ++ post) ∧
      exp = (T + ((pre.length + seg.length : Nat) : Int)) % 4294967296 := by
  induction h with
  | start c hB hE =>
    obtain ⟨pre, post, hWeq⟩ := List.append_of_mem (hsub c (by simp))
    refine ⟨pre, post, by simpa using hWeq, ?_⟩
    have hj : pre.length < W.length := by rw [hWeq]; simp
    have := hW pre.length hj
    simp only [hWeq, getElem_mid] at this
    rw [this]
    simp only [tsn_plus_one, List.length_cons, List.length_nil]
    push_cast
    omega
  | step seg c exp hp hc hE ih =>
    obtain ⟨pre, post, hWeq, hexp⟩ := ih (fun d hd => hsub d (by simp [hd]))
    obtain ⟨post', rfl⟩ := next_located T W hW hlen pre seg post c hWeq (hsub c (by simp)) (hc ▸ hexp)
    refine ⟨pre, post', by simpa using hWeq, ?_⟩
    rw [hc, hexp]
    simp only [tsn_plus_one, List.length_append, List.length_cons, List.length_nil]
    push_cast
    omega

theorem fullRun_located (T : Int) (W : List RChunk) (hW : TsnSeq T W) (hlen : W.length < 4294967296)
    (r : List RChunk) (h : FullRun r) (hsub : ∀ c ∈ r, c ∈ W) : ∃ pre post, W = pre ++ (r ++ post) := by
  cases h with
  | single c hB hE =>
    obtain ⟨pre, post, hWeq⟩ := List.append_of_mem (hsub c (by simp))
    exact ⟨pre, post, by simpa using hWeq⟩
  | close seg c exp hp hc hE =>
    obtain ⟨pre, post, hWeq, hexp⟩ := prun_located T W hW hlen seg exp hp (fun d hd => hsub d (by simp [hd]))
    obtain ⟨post', rfl⟩ := next_located T W hW hlen pre seg post c hWeq (hsub c (by simp)) (hc ▸ hexp)
    exact ⟨pre, post', by simpa using hWeq⟩

abbrev rB : RChunk → Bool := fun c => flagB c.flags
abbrev rE : RChunk → Bool := fun c => flagE c.flags

theorem fullRun_shape (r : List RChunk) (h : FullRun r) :
    UpToE rE r ∧ ∃ hd tl, r = hd :: tl ∧ rB hd = true := by
  cases h with
  | single c hB hE => exact ⟨hE, c, [], rfl, hB⟩
  | close seg c exp hp hc hE =>
    refine ⟨upToE_snoc rE seg c (prun_noE hp) hE, ?_⟩
    obtain ⟨hd, tl, rfl, hB⟩ := prun_head hp
    exact ⟨hd, tl ++ [c], rfl, hB⟩

/-- **No splice**: a complete run of consecutive TSNs made of fragments the sender produced is exactly the
fragment list of one of the sender's messages. -/
theorem fullRun_is_message (T : Int) (ms : List (List RChunk))
    (hms : ∀ m ∈ ms, HeadOnlyB rB m ∧ UpToE rE m)
    (hW : TsnSeq T ms.flatten) (hlen : ms.flatten.length < 4294967296)
    (r : List RChunk) (h : FullRun r) (hsub : ∀ c ∈ r, c ∈ ms.flatten) : r ∈ ms := by
  obtain ⟨pre, post, hWeq⟩ := fullRun_located T _ hW hlen r h hsub
  obtain ⟨hE, hB⟩ := fullRun_shape r h
  exact run_is_message rB rE ms hms pre r post hE hB hWeq

end Aiortc.Sctp
