import Aiortc.Model.Rtp.Ops
/-! Helper lemmas about the history semantics `Model/Rtp/Ops.lean` (C07 round 3). -/
namespace Aiortc.Lemmas.C07.Ops
open Aiortc Aiortc.Rtp Aiortc.Rtp.Ops Aiortc.Outcome

theorem upd_same {α} (f : Nat → α) (i : Nat) (a : α) : upd f i a i = a := by simp [upd]

theorem run_append_singleton (pool : Pool) (ops : List Op) (o : Op) :
    run pool (ops ++ [o]) = run pool ops ++ [(step (exec pool ops) o).2] := by
  induction ops generalizing pool with
  | nil => simp [run, exec]
  | cons x xs ih => simp [run, exec, ih]

/-- The operations that leave map `m` alone (everything but `mnew m` / `cfg m`) and register `b` alone. -/
def Quiet (m b : Nat) : Op → Prop
  | .mnew m' => m' ≠ m
  | .cfg m' _ => m' ≠ m
  | .ser _ _ b' => b' ≠ b
  | .raw b' _ => b' ≠ b
  | _ => True

theorem step_quiet (pool : Pool) (m b : Nat) (op : Op) (h : Quiet m b op) :
    (step pool op).1.maps m = pool.maps m ∧ (step pool op).1.regs b = pool.regs b := by
  cases op with
  | mnew m' => simp only [Quiet] at h; simp [step, upd, Ne.symm h]
  | cfg m' l => simp only [Quiet] at h; simp [step, upd, Ne.symm h]
  | put o v => simp [step]
  | ser o m' b' =>
    simp only [Quiet] at h
    simp only [step]
    cases (pool.objs o).bind (serVal (pool.maps m')) <;> simp [upd, Ne.symm h]
  | raw b' d => simp only [Quiet] at h; simp [step, upd, Ne.symm h]
  | parseRtp b' m' o =>
    simp only [step]
    cases parse (pool.maps m') (pool.regs b') <;> simp
  | parseRtcp b' o =>
    simp only [step]
    cases parseCompound (pool.regs b') <;> simp
  | mset m' e => simp [step]
  | mget m' p d => simp [step]

theorem exec_quiet (pool : Pool) (m b : Nat) (ops : List Op) (h : ∀ op ∈ ops, Quiet m b op) :
    (exec pool ops).maps m = pool.maps m ∧ (exec pool ops).regs b = pool.regs b := by
  induction ops generalizing pool with
  | nil => exact ⟨rfl, rfl⟩
  | cons x xs ih =>
    have hx := step_quiet pool m b x (h x (by simp))
    have := ih (step pool x).1 (fun op hop => h op (by simp [hop]))
    simp only [exec]
    exact ⟨this.1.trans hx.1, this.2.trans hx.2⟩

end Aiortc.Lemmas.C07.Ops
