import Aiortc.Model.Sctp.Wire
import Aiortc.Lemmas.SctpWire
import Aiortc.Lemmas.SctpBurst
/-!
# C08 — the checksum field of an accepted packet is the only 4-byte value accepted in its place

`withChecksum d v` = the packet `d` with bytes 8..11 replaced by `v`.  Whatever `v` is (the byte-reversed checksum,
the big-endian pack of the CRC, its complement, another checksum algorithm's value, zero …), the result is rejected
unless `v` is byte for byte what the packet carried.
-/
namespace Aiortc.Sctp.Wire
open Aiortc Aiortc.Gen Aiortc.Crc32c

/-- `d[0:8] + v + d[12:]`. -/
def withChecksum (d v : Bytes) : Bytes := d.take 8 ++ (v ++ d.drop 12)

/-- `d[8:12]`. -/
def checksumField (d : Bytes) : Bytes := (d.drop 8).take 4

theorem withChecksum_self (d : Bytes) (h : 12 ≤ d.length) : withChecksum d (checksumField d) = d := by
  obtain ⟨a0, a1, a2, a3, a4, a5, a6, a7, a8, a9, a10, a11, r, rfl⟩ := exists_cons12 d h
  simp [withChecksum, checksumField]

theorem exists_four {α} (v : List α) (h : v.length = 4) : ∃ a b c d, v = [a, b, c, d] := by
  match v, h with
  | [a, b, c, d], _ => exact ⟨a, b, c, d, rfl⟩

/-- Two packets that agree outside the checksum field and both pass the check carry the same field. -/
theorem checksumOk_field_unique (h0 h1 h2 h3 h4 h5 h6 h7 c0 c1 c2 c3 v0 v1 v2 v3 : Nat) (rest : Bytes)
    (hc0 : c0 < 256) (hc1 : c1 < 256) (hc2 : c2 < 256) (_hc3 : c3 < 256)
    (hv0 : v0 < 256) (hv1 : v1 < 256) (hv2 : v2 < 256) (_hv3 : v3 < 256)
    (hd : checksumOk (h0 :: h1 :: h2 :: h3 :: h4 :: h5 :: h6 :: h7 :: c0 :: c1 :: c2 :: c3 :: rest) = true)
    (hv : checksumOk (h0 :: h1 :: h2 :: h3 :: h4 :: h5 :: h6 :: h7 :: v0 :: v1 :: v2 :: v3 :: rest) = true) :
    v0 = c0 ∧ v1 = c1 ∧ v2 = c2 ∧ v3 = c3 := by
  simp only [checksumOk, beq_iff_eq] at hd hv
  rw [← hd] at hv
  omega

theorem isBytes_checksumField (d : Bytes) (hd : IsBytes d) : IsBytes (checksumField d) :=
  fun b hb => hd b (List.mem_of_mem_drop (List.mem_of_mem_take hb))

theorem checksumOk_withChecksum (d v : Bytes) (hd : IsBytes (checksumField d)) (hacc : checksumOk d = true)
    (hv : IsBytes v) (hl : v.length = 4) (hne : v ≠ checksumField d) :
    checksumOk (withChecksum d v) = false := by
  obtain ⟨a0, a1, a2, a3, a4, a5, a6, a7, c0, c1, c2, c3, r, rfl⟩ := exists_cons12 d (length_of_checksumOk d hacc)
  obtain ⟨v0, v1, v2, v3, rfl⟩ := exists_four v hl
  have hd : ∀ b ∈ [c0, c1, c2, c3], b < 256 := by
    have h' : IsBytes [c0, c1, c2, c3] := by simpa [checksumField] using hd
    exact h'
  cases hk : checksumOk (withChecksum
      (a0 :: a1 :: a2 :: a3 :: a4 :: a5 :: a6 :: a7 :: c0 :: c1 :: c2 :: c3 :: r) [v0, v1, v2, v3]) with
  | false => rfl
  | true =>
    exfalso
    apply hne
    have hk' : checksumOk (a0 :: a1 :: a2 :: a3 :: a4 :: a5 :: a6 :: a7 :: v0 :: v1 :: v2 :: v3 :: r) = true := by
      simpa [withChecksum] using hk
    obtain ⟨e0, e1, e2, e3⟩ := checksumOk_field_unique a0 a1 a2 a3 a4 a5 a6 a7 c0 c1 c2 c3 v0 v1 v2 v3 r
      (hd _ (by simp)) (hd _ (by simp)) (hd _ (by simp)) (hd _ (by simp))
      (hv _ (by simp)) (hv _ (by simp)) (hv _ (by simp)) (hv _ (by simp)) hacc hk'
    simp [checksumField, e0, e1, e2, e3]

theorem checksum_field_unique_aux (d v : Bytes) (hf : IsBytes (checksumField d)) (hok : checksumOk d = true)
    (hacc : (parsePacket d).isOk = true) (hv : IsBytes v) (hl : v.length = 4) :
    (parsePacket (withChecksum d v)).isOk = true ↔ v = checksumField d := by
  constructor
  · intro h
    apply Classical.byContradiction
    intro hne
    rw [parsePacket, parsePacketG_of_checksum_false true _ (checksumOk_withChecksum d v hf hok hv hl hne)] at h
    simp [Outcome.isOk] at h
  · intro h
    rw [h, withChecksum_self d (length_of_checksumOk d hok)]
    exact hacc

end Aiortc.Sctp.Wire
