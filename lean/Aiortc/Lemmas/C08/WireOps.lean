import Aiortc.Model.Sctp.WireOps
/-! Pool lemmas for `Props/C08Ops.lean` (slots written by `set` / by `parse_packet`). -/
namespace Aiortc.Lemmas.C08.WireOps
open Aiortc Aiortc.Sctp.Wire Aiortc.Sctp.WireOps

theorem Pool.set_same (p : Pool) (s : Nat) (v : Val) : (p.set s v) s = some v := by
  simp [Pool.set]

theorem Pool.set_other (p : Pool) (s j : Nat) (v : Val) (h : j ≠ s) : (p.set s v) j = p j := by
  simp [Pool.set, h]

theorem storeChunks_below (cs : List Chunk) : ∀ (p : Pool) (base j : Nat), j < base →
    (p.storeChunks base cs) j = p j := by
  induction cs with
  | nil => intro p base j _; rfl
  | cons c cs ih =>
    intro p base j hj
    simp only [Pool.storeChunks]
    rw [ih _ _ _ (by omega), Pool.set_other _ _ _ _ (by omega)]

/-- After `parse_packet` the `i`-th chunk sits in slot `base + i`. -/
theorem storeChunks_get (cs : List Chunk) : ∀ (p : Pool) (base i : Nat) (h : i < cs.length),
    (p.storeChunks base cs) (base + i) = some (.chunk cs[i]) := by
  induction cs with
  | nil => intro p base i h; simp at h
  | cons c cs ih =>
    intro p base i h
    simp only [Pool.storeChunks]
    cases i with
    | zero =>
      have h1 := storeChunks_below cs (p.set base (.chunk c)) (base + 1) base (by omega)
      simp only [Nat.add_zero, h1, Pool.set_same, List.getElem_cons_zero]
    | succ i =>
      have := ih (p.set base (.chunk c)) (base + 1) i (by simpa using h)
      rw [show base + (i + 1) = base + 1 + i by omega, this]
      rfl

end Aiortc.Lemmas.C08.WireOps
