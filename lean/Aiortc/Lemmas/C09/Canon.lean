import Aiortc.Lemmas.SdpSessionAll
/-! C09 (whole-text idempotence), part 1: the normal form `normS` of a session description — the value that
`parse (print d)` returns — and the fact that printing does not see the difference (`print (norm d) = print d`).

What normalisation does (each item is a way in which `parse` can return a value that `print` does not
re-serialise one-to-one): `origin = None` prints `o=None`; `mid = None` / `msid = ""` print nothing;
`rtcp_mux` without an rtcp port prints nothing; a codec of a media kind containing "/" prints the second piece of
the kind as its name; an ssrc entry without any known attribute prints nothing;
an audio codec with a channel count other than 2 prints no channel suffix; an rtcp-fb parameter `""` prints
nothing; an fmtp dictionary that serialises to `""` prints no fmtp line. -/
namespace Aiortc.Lemmas.C09
open Aiortc Aiortc.Model.Sdp

def ssrcHas (s : Ssrc) : Bool := s.cname.isSome || s.msid.isSome || s.mslabel.isSome || s.label.isSome

def normF (f : Feedback) : Feedback := { f with parameter := truthy f.parameter }

/-- `kind/<RTCRtpCodecParameters.name>`: what the reparsed rtpmap line gives.  Differs from `mimeType` only when the
kind itself contains "/" (`m=a/b …` + `a=rtpmap:96 opus/48000`: `mimeType = a/b/opus`, `.name = b`, printed
`a=rtpmap:96 b/48000`, reparsed `a/b/b`).  The guard makes `codecName` invariant by construction. -/
def normMime (kind : Str) (c : Codec) : Str :=
  match codecName c with
  | .ok n => if codecName { c with mimeType := kind ++ '/' :: n } = .ok n then kind ++ '/' :: n else c.mimeType
  | _ => c.mimeType

def normC (kind : Str) (c : Codec) : Codec :=
  { c with
    mimeType := normMime kind c
    channels := if kind = lit "audio" then (if c.channels = some 2 then some 2 else some 1) else c.channels
    rtcpFeedback := c.rtcpFeedback.map normF
    parameters := if (parametersToSdp c.parameters).isEmpty then [] else c.parameters }

def normM (m : Media) : Media :=
  { m with
    muxId := some (m.muxId.getD [])
    msid := truthy m.msid
    rtcpMux := m.rtcpPort.isSome && m.rtcpMux
    ssrc := m.ssrc.filter ssrcHas
    codecs := m.codecs.map (normC m.kind) }

def normS (s : Session) : Session :=
  { s with origin := some (s.origin.getD (lit "None")), media := s.media.map normM }

/-! ### printing is invariant under normalisation -/

theorem truthy_truthy (o : Option Str) : truthy (truthy o) = truthy o := by
  cases o with
  | none => rfl
  | some v => by_cases h : v.isEmpty <;> simp [truthy, h]

theorem truthy_getD (o : Option Str) : truthy (some (o.getD [])) = truthy o := by
  cases o with
  | none => rfl
  | some v => rfl

theorem fbValue_normF (pt : Int) (f : Feedback) : fbValue pt (normF f) = fbValue pt f := by
  obtain ⟨t, p⟩ := f
  cases p with
  | none => rfl
  | some v => by_cases h : v.isEmpty <;> simp [fbValue, normF, truthy, h]

theorem codecStr_normC (k : Str) (c : Codec) : codecStr (normC k c) = codecStr c := by
  have hn : codecName (normC k c) = codecName c := by
    show codecName { c with mimeType := normMime k c } = codecName c
    unfold normMime
    cases hcn : codecName c with
    | ok n =>
      simp only
      split
      · rename_i hg; exact hg
      · exact hcn
    | valueError => exact hcn
    | crash s => exact hcn
    | hang => exact hcn
  have hcl : (normC k c).clockRate = c.clockRate := rfl
  have hc : ((normC k c).channels = some 2) ↔ (c.channels = some 2) := by
    simp only [normC]
    by_cases hk : k = lit "audio"
    · by_cases h2 : c.channels = some 2 <;> simp [hk, h2]
    · simp [hk]
  simp only [codecStr, hn, hcl, hc]

theorem codecLines_normC (k : Str) (c : Codec) : codecLines (normC k c) = codecLines c := by
  simp only [codecLines, codecStr_normC]
  cases codecStr c with
  | ok cs =>
    simp only
    have h1 : (normC k c).payloadType = c.payloadType := rfl
    have h2 : (normC k c).rtcpFeedback.map (fun f => lit "a=rtcp-fb:" ++ fbValue (normC k c).payloadType f) =
        c.rtcpFeedback.map (fun f => lit "a=rtcp-fb:" ++ fbValue c.payloadType f) := by
      simp [normC, List.map_map, Function.comp_def, fbValue_normF]
    rw [h2, h1]
    by_cases he : (parametersToSdp c.parameters).isEmpty
    · have : (normC k c).parameters = [] := by simp [normC, he]
      have he' : parametersToSdp c.parameters = [] := by simpa using he
      rw [this, he']; simp [parametersToSdp, join]
    · have : (normC k c).parameters = c.parameters := by simp [normC, he]
      simp [this]
  | valueError => rfl
  | crash s => rfl
  | hang => rfl

theorem allLines_congr {α} (f g : α → Outcome (List Str)) (l : List α) (h : ∀ a ∈ l, f a = g a) :
    allLines f l = allLines g l := by
  induction l with
  | nil => rfl
  | cons a r ih =>
    simp only [allLines, h a (by simp), ih (fun x hx => h x (by simp [hx]))]

theorem allLines_map {α β} (f : α → Outcome (List Str)) (g : β → α) (l : List β) :
    allLines f (l.map g) = allLines (fun b => f (g b)) l := by
  induction l with
  | nil => rfl
  | cons a r ih => simp only [List.map_cons, allLines, ih]

theorem ssrcValues_none (s : Ssrc) (h : ssrcHas s = false) : ssrcValues s = [] := by
  obtain ⟨id, a, b, c, d⟩ := s
  simp only [ssrcHas, Bool.or_eq_false_iff, Option.isSome_eq_false_iff, Option.isNone_iff_eq_none] at h
  obtain ⟨⟨⟨rfl, rfl⟩, rfl⟩, rfl⟩ := h
  have hg : ∀ a, Ssrc.get ⟨id, none, none, none, none⟩ a = none := by
    intro a; unfold Ssrc.get
    split; rfl; split; rfl; split; rfl; split; rfl; rfl
  simp [ssrcValues, hg]

theorem ssrc_lines_filter (l : List Ssrc) :
    ((l.filter ssrcHas).flatMap fun s => (ssrcValues s).map (lit "a=ssrc:" ++ ·)) =
      (l.flatMap fun s => (ssrcValues s).map (lit "a=ssrc:" ++ ·)) := by
  induction l with
  | nil => rfl
  | cons s r ih =>
    by_cases h : ssrcHas s = true
    · simp [List.filter, h, ih]
    · simp only [Bool.not_eq_true] at h
      simp [List.filter, h, ih, ssrcValues_none s h]

theorem rtcpLines_normM (m : Media) : rtcpLines (normM m) = rtcpLines m := by
  have h1 : (normM m).rtcpPort = m.rtcpPort := rfl
  have h2 : (normM m).rtcpHost = m.rtcpHost := rfl
  have h3 : (normM m).rtcpMux = (m.rtcpPort.isSome && m.rtcpMux) := rfl
  simp only [rtcpLines, h1, h2, h3]
  cases m.rtcpPort <;> simp

theorem mediaLines_normM (m : Media) : mediaLines (normM m) = mediaLines m := by
  have hc : allLines codecLines (normM m).codecs = allLines codecLines m.codecs := by
    simp only [normM, allLines_map]
    exact allLines_congr _ _ _ (fun a _ => codecLines_normC _ a)
  have hr := rtcpLines_normM m
  have hs := ssrc_lines_filter m.ssrc
  simp only [mediaLines, hc, hr]
  simp only [normM, truthy_truthy, truthy_getD, hs]
  rfl

theorem allMedia_norm (ms : List Media) : allLines mediaLines (ms.map normM) = allLines mediaLines ms := by
  rw [allLines_map]; exact allLines_congr _ _ _ (fun a _ => mediaLines_normM a)

theorem any_lite_norm (ms : List Media) : (ms.map normM).any (·.ice.iceLite) = ms.any (·.ice.iceLite) := by
  rw [List.any_map]; rfl

theorem sessionToStr_normS (s : Session) : sessionToStr (normS s) = sessionToStr s := by
  simp only [sessionToStr, normS, allMedia_norm, any_lite_norm, Option.getD_some]

theorem sessionHdr_normS (s : Session) : sessionHdr (normS s) = sessionHdr s := by
  simp only [sessionHdr, normS, any_lite_norm, Option.getD_some]

end Aiortc.Lemmas.C09
