import Aiortc.Lemmas.C09.ParsedSession
/-! C09 (whole-text idempotence), part 9: the normal form of a parsed value is structurally valid
(`WFMedia (normM m)`, `WFSession (normS s)`), so the round-trip theorems of `Lemmas/Sdp*.lean` apply to it. -/
namespace Aiortc.Lemmas.C09
open Aiortc Aiortc.Model.Sdp

theorem splitOn_app (sep : Char) (a b : Str) :
    splitOn sep (a ++ sep :: b) = splitOn sep a ++ splitOn sep b := by
  induction a with
  | nil => simp [splitOn]
  | cons c cs ih =>
    by_cases hc : c = sep
    · simp [splitOn, hc, ih]
    · simp only [List.cons_append, splitOn, hc, if_false, ih]
      have := splitOn_ne_nil sep cs
      cases h : splitOn sep cs with
      | nil => exact absurd h this
      | cons x r => simp

/-- The `.name` of a parsed codec, and the fact that `kind/<.name>` has the same `.name`. -/
theorem normMime_parsed (kind name : Str) (c : Codec) (hm : c.mimeType = kind ++ '/' :: name) (hns : '/' ∉ name) :
    ∃ n, normMime kind c = kind ++ '/' :: n ∧ codecName { c with mimeType := kind ++ '/' :: n } = .ok n ∧ '/' ∉ n := by
  have hc : codecName c = codecName { c with mimeType := kind ++ '/' :: name } := by
    simp only [codecName, hm]
  have hnk := splitOn_nosep '/' kind
  have hne := splitOn_ne_nil '/' kind
  cases hP : splitOn '/' kind with
  | nil => exact absurd hP hne
  | cons p0 r =>
    cases r with
    | nil =>
      have h1 : codecName c = .ok name := by
        rw [hc]; simp only [codecName, splitOn_app, hP, splitOn_single '/' name hns]; rfl
      refine ⟨name, ?_, by rw [← hc]; exact h1, hns⟩
      unfold normMime
      rw [h1]
      simp only
      rw [← hc, h1]; simp
    | cons p1 r' =>
      have h1 : ∀ x, codecName { c with mimeType := kind ++ '/' :: x } = .ok p1 := by
        intro x; simp only [codecName, splitOn_app, hP]; rfl
      have h0 : codecName c = .ok p1 := by rw [hc]; exact h1 name
      refine ⟨p1, ?_, h1 p1, hnk p1 (by rw [hP]; simp)⟩
      unfold normMime
      rw [h0]
      simp only
      rw [h1 p1]; simp

theorem truthy_some (o : Option Str) (s : Str) (h : truthy o = some s) : s ≠ [] := by
  cases o with
  | none => cases h
  | some v =>
    simp only [truthy] at h
    split at h
    · cases h
    · rename_i hv; cases h; simpa using hv

theorem wfCodec_norm (kind : Str) (c : Codec) (hp : ParsedCodec kind c) :
    WFCodecFull kind (normC kind c) := by
  obtain ⟨name, hm, hns, _⟩ := hp.mime
  obtain ⟨n, hn1, hn2, hn3⟩ := normMime_parsed kind name c hm hns
  have hcn : codecName (strip (normC kind c)) = .ok n := by
    show codecName { c with mimeType := normMime kind c } = .ok n
    rw [hn1]; exact hn2
  refine ⟨⟨n, ⟨hn1, hcn, hn3, ?_, rfl, rfl⟩⟩, ?_, ?_⟩
  · have hch := hp.chan
    by_cases ha : kind = lit "audio"
    · subst ha
      have e0 : lit "audio" = "audio".toList := rfl
      rw [if_pos e0]
      have e : (strip (normC (lit "audio") c)).channels = if c.channels = some 2 then some 2 else some 1 := by
        show (if lit "audio" = lit "audio" then (if c.channels = some 2 then some 2 else some 1) else c.channels) = _
        rw [if_pos rfl]
      rw [e]
      split
      · exact Or.inr rfl
      · exact Or.inl rfl
    · have ha' : ¬ kind = "audio".toList := ha
      simp only [ha, if_false] at hch
      simp only [ha', if_false]
      simp only [strip, normC, ha, if_false]
      exact hch
  · intro f hf
    simp only [normC, List.mem_map] at hf
    obtain ⟨f0, hf0, rfl⟩ := hf
    exact ⟨(hp.fb f0 hf0).1, fun p hp' => truthy_some _ p hp'⟩
  · by_cases he : (parametersToSdp c.parameters).isEmpty
    · left; simp [normC, he]
    · right
      have hpar : (normC kind c).parameters = c.parameters := by simp [normC, he]
      rw [hpar]
      rcases hp.params with h0 | h0
      · rw [h0] at he; exact absurd (by decide) he
      · exact ⟨h0, by simpa using he⟩

theorem pts_normC (k : Str) (cs : List Codec) : pts (cs.map (normC k)) = pts cs := by
  simp only [pts, List.map_map]; rfl

theorem wfMedia_norm (m : Media) (hp : ParsedMedia m) (hr : DtlsRole m) : WFMedia (normM m) := by
  refine ⟨⟨hp.hkind, hp.hport, hp.hprofile, hp.hfmt⟩, ?_, ?_, ?_⟩
  · exact {
      host := fun h hh => (hp.host h hh).1
      direction := hp.direction
      ext := hp.ext
      mid := ⟨_, rfl⟩
      msid := fun s hs => truthy_some _ s hs
      rtcp_none := by
        intro hn
        have hn' : m.rtcpPort = none := hn
        exact ⟨hp.rtcp_none hn', by simp [normM, hn']⟩
      rtcp_host := fun h hh => (hp.rtcp_host h hh).1
      ssrcGroup := hp.ssrcGroup
      ssrc := by
        intro s hs
        simp only [normM, List.mem_filter] at hs
        obtain ⟨_, hs⟩ := hs
        obtain ⟨id, a, b, c, d⟩ := s
        simp only [ssrcHas, Bool.or_eq_true, Option.isSome_iff_ne_none] at hs
        simp only [WFSsrc]
        rcases hs with ((h | h) | h) | h
        · exact Or.inl h
        · exact Or.inr (Or.inl h)
        · exact Or.inr (Or.inr (Or.inl h))
        · exact Or.inr (Or.inr (Or.inr h))
      ssrc_nodup := by
        have : ((m.ssrc.filter ssrcHas).map (·.ssrc)).Sublist (m.ssrc.map (·.ssrc)) :=
          List.Sublist.map _ List.filter_sublist
        exact List.Nodup.sublist this hp.ssrc_nodup
      sctpmap_nodup := hp.sctpmap_nodup
      cands := hp.cands
      dtls := by
        intro d hd
        have hd' : m.dtls = some d := hd
        obtain ⟨i1, i2⟩ := hp.dtls d hd'
        obtain ⟨r, hr'⟩ := hr d hd'
        obtain ⟨su, h1, h2⟩ := i2 r hr'
        exact ⟨i1, r, su, hr', h1, h2⟩ }
  · intro c hc
    simp only [normM, List.mem_map] at hc
    obtain ⟨c0, hc0, rfl⟩ := hc
    exact wfCodec_norm m.kind c0 (hp.codecs c0 hc0)
  · have : pts (normM m).codecs = pts m.codecs := pts_normC m.kind m.codecs
    rw [this]; exact hp.codecs_nodup

theorem any_of_const {α} (f : α → Bool) (l : List α) (b : Bool) (h : ∀ a ∈ l, f a = b) :
    ∀ a ∈ l, f a = l.any f := by
  intro a ha
  cases b with
  | true => rw [h a ha]; symm; exact List.any_eq_true.mpr ⟨a, ha, h a ha⟩
  | false =>
    rw [h a ha]; symm
    rw [List.any_eq_false]
    intro x hx; rw [h x hx]; simp

theorem noTrail_None : NoTrail (lit "None") := by
  intro c h; simp [lit] at h; subst h; decide

theorem wfSession_norm (s : Session) (hp : ParsedSession s) : WFSession (normS s) := by
  obtain ⟨b, hb⟩ := hp.lite
  exact {
    origin := by
      cases ho : s.origin with
      | none => exact ⟨lit "None", by simp [normS, ho], noTrail_None⟩
      | some o => exact ⟨o, by simp [normS, ho], (hp.hdr.origin o ho).1⟩
    name := hp.hdr.name.1
    time := hp.hdr.time.1
    host := fun h hh => (hp.hdr.host h hh).1
    group := hp.hdr.group
    msidSemantic := hp.hdr.msid
    media := by
      intro m hm
      simp only [normS, List.mem_map] at hm
      obtain ⟨m0, hm0, rfl⟩ := hm
      exact wfMedia_norm m0 (hp.media m0 hm0).1 (hp.media m0 hm0).2
    lite := by
      have : ∀ m ∈ (normS s).media, m.ice.iceLite = b := by
        intro m hm
        simp only [normS, List.mem_map] at hm
        obtain ⟨m0, hm0, rfl⟩ := hm
        exact hb m0 hm0
      exact any_of_const (fun m : Media => m.ice.iceLite) _ b this }

end Aiortc.Lemmas.C09
