import Aiortc.Lemmas.C09.Canon
/-! C09 (whole-text idempotence), part 2: line-break freedom.  `splitlines` returns lines without line-break
characters; every piece the parser cuts out of such a line (split, strip, drop) is again free of them; tokens and
printed integers are free of them. -/
namespace Aiortc.Lemmas.C09
open Aiortc Aiortc.Model.Sdp

theorem ok_bind_eq {α β} (x : Outcome α) (f : α → Outcome β) (b : β) :
    (x >>= f) = .ok b ↔ ∃ a, x = .ok a ∧ f a = .ok b := by
  cases x with
  | ok a => simp
  | valueError => exact ⟨fun h => (by cases h), fun ⟨a, h, _⟩ => (by cases h)⟩
  | crash s => exact ⟨fun h => (by cases h), fun ⟨a, h, _⟩ => (by cases h)⟩
  | hang => exact ⟨fun h => (by cases h), fun ⟨a, h, _⟩ => (by cases h)⟩

theorem nb_nil : NoBreak [] := by intro c h; cases h

theorem nb_append (a b : Str) : NoBreak (a ++ b) ↔ NoBreak a ∧ NoBreak b := by
  simp only [NoBreak, List.mem_append]
  constructor
  · intro h; exact ⟨fun c hc => h c (Or.inl hc), fun c hc => h c (Or.inr hc)⟩
  · rintro ⟨h1, h2⟩ c (hc | hc); exact h1 c hc; exact h2 c hc

theorem nb_cons (c : Char) (s : Str) : NoBreak (c :: s) ↔ isLineBreak c = false ∧ NoBreak s := by
  simp only [NoBreak, List.mem_cons]
  constructor
  · intro h; exact ⟨h c (Or.inl rfl), fun x hx => h x (Or.inr hx)⟩
  · rintro ⟨h1, h2⟩ x (hx | hx); subst hx; exact h1; exact h2 x hx

theorem nb_sub (s p : Str) (h : NoBreak s) (hs : ∀ c ∈ p, c ∈ s) : NoBreak p := fun c hc => h c (hs c hc)

theorem break_is_space (c : Char) (h : isLineBreak c = true) : isPySpace c = true := by
  simp only [isLineBreak, isPySpace, Bool.or_eq_true, Bool.and_eq_true, decide_eq_true_eq] at h ⊢
  omega

theorem nb_tok (t : Str) (h : Tok t) : NoBreak t := by
  intro c hc
  cases hb : isLineBreak c with
  | false => rfl
  | true => have := break_is_space c hb; rw [h.2 c hc] at this; cases this

theorem nb_showInt (i : Int) : NoBreak (showInt i) := nb_tok _ (tok_showInt i)

theorem nb_showNat (n : Nat) : NoBreak (showNat n) := nb_showInt (Int.ofNat n)

theorem nb_drop (n : Nat) (s : Str) (h : NoBreak s) : NoBreak (s.drop n) :=
  nb_sub s _ h (fun _ hc => List.mem_of_mem_drop hc)

theorem nb_dropWhile (p : Char → Bool) (s : Str) (h : NoBreak s) : NoBreak (s.dropWhile p) :=
  nb_sub s _ h (fun _ hc => (List.dropWhile_sublist p).subset hc)

theorem nb_reverse (s : Str) (h : NoBreak s) : NoBreak s.reverse :=
  nb_sub s _ h (fun _ hc => List.mem_reverse.mp hc)

theorem nb_strip (s : Str) (h : NoBreak s) : NoBreak (Model.Sdp.strip s) := by
  unfold Model.Sdp.strip stripLeft
  exact nb_reverse _ (nb_dropWhile _ _ (nb_reverse _ (nb_dropWhile _ _ h)))

theorem nb_split1 (sep : Char) (s : Str) (h : NoBreak s) :
    NoBreak (split1 sep s).1 ∧ ∀ v, (split1 sep s).2 = some v → NoBreak v := by
  cases hs : (split1 sep s).2 with
  | none =>
    have := split1_none_eq sep s (split1 sep s).1 (by rw [← hs])
    rw [← this.1]; exact ⟨h, by intro v hv; cases hv⟩
  | some v =>
    have := split1_some_eq sep s (split1 sep s).1 v (by rw [← hs])
    rw [this, nb_append, nb_cons] at h
    exact ⟨h.1, by intro v' hv'; cases hv'; exact h.2.2⟩

theorem nb_split1_pair (sep : Char) (s k : Str) (o : Option Str) (h : NoBreak s) (e : split1 sep s = (k, o)) :
    NoBreak k ∧ ∀ v, o = some v → NoBreak v := by
  have := nb_split1 sep s h
  rw [e] at this; exact this

theorem nb_splitOn (sep : Char) (s : Str) (h : NoBreak s) : ∀ p ∈ splitOn sep s, NoBreak p := by
  induction s with
  | nil => intro p hp; simp [splitOn] at hp; subst hp; exact nb_nil
  | cons c cs ih =>
    rw [nb_cons] at h
    have ih := ih h.2
    by_cases hc : c = sep
    · intro p hp; simp [splitOn, hc] at hp
      rcases hp with hp | hp
      · subst hp; exact nb_nil
      · exact ih p hp
    · simp only [splitOn, hc, if_false]
      cases hs : splitOn sep cs with
      | nil => intro p hp; simp at hp; subst hp; rw [nb_cons]; exact ⟨h.1, nb_nil⟩
      | cons a r =>
        rw [hs] at ih
        intro p hp; simp at hp
        rcases hp with hp | hp
        · subst hp; rw [nb_cons]; exact ⟨h.1, ih a (by simp)⟩
        · exact ih p (by simp [hp])

theorem nb_parseAttr (line : Str) (h : NoBreak line) :
    NoBreak (parseAttr line).1 ∧ ∀ v, (parseAttr line).2 = some v → NoBreak v := by
  unfold parseAttr
  split
  · exact nb_split1 ':' _ (nb_drop 2 _ h)
  · exact ⟨nb_drop 2 _ h, by intro v hv; cases hv⟩

theorem nb_lit_chars (s : Str) (h : s.all (fun c => !isLineBreak c) = true) : NoBreak s := by
  intro c hc
  have := List.all_eq_true.mp h c hc
  simpa using this

theorem nb_unwords (toks : List Str) (h : ∀ t ∈ toks, NoBreak t) : NoBreak (unwords toks) := by
  unfold unwords
  induction toks with
  | nil => exact nb_nil
  | cons a r ih =>
    cases r with
    | nil => simpa [join] using h a (by simp)
    | cons b r' =>
      simp only [join]
      rw [nb_append, nb_append]
      exact ⟨⟨h a (by simp), by rw [nb_cons]; exact ⟨by decide, nb_nil⟩⟩, ih (fun t ht => h t (by simp [ht]))⟩

theorem nb_join (sep : Str) (hsep : NoBreak sep) (parts : List Str) (h : ∀ t ∈ parts, NoBreak t) :
    NoBreak (join sep parts) := by
  induction parts with
  | nil => exact nb_nil
  | cons a r ih =>
    cases r with
    | nil => simpa [join] using h a (by simp)
    | cons b r' =>
      simp only [join]
      rw [nb_append, nb_append]
      exact ⟨⟨h a (by simp), hsep⟩, ih (fun t ht => h t (by simp [ht]))⟩

/-- `splitlines` never returns a line with a line-break character in it. -/
theorem splitlinesAux_nb (s : Str) : ∀ (cur : Str) (cr : Bool), NoBreak cur →
    ∀ l ∈ splitlinesAux s cur cr, NoBreak l := by
  induction s with
  | nil =>
    intro cur cr hcur l hl
    simp only [splitlinesAux] at hl
    split at hl
    · cases hl
    · simp at hl; subst hl; exact nb_reverse _ hcur
  | cons c cs ih =>
    intro cur cr hcur l hl
    simp only [splitlinesAux] at hl
    split at hl
    · exact ih cur false hcur l hl
    · split at hl
      · simp only [List.mem_cons] at hl
        rcases hl with hl | hl
        · subst hl; exact nb_reverse _ hcur
        · exact ih [] _ nb_nil l hl
      · rename_i _ hb
        exact ih (c :: cur) false (by rw [nb_cons]; exact ⟨by simpa using hb, hcur⟩) l hl

theorem splitlines_nb (s : Str) : ∀ l ∈ splitlines s, NoBreak l :=
  splitlinesAux_nb s [] false nb_nil

end Aiortc.Lemmas.C09
