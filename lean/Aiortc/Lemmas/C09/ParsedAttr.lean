import Aiortc.Lemmas.C09.NoBreak
/-! C09 (whole-text idempotence), part 3: what the attribute-level parsers can return.
For every attribute codec: "accepted ⇒ the value has the shape the printer can carry" (tokens are tokens, hosts
have no blank, roles are in the table, nothing contains a line break). -/
namespace Aiortc.Lemmas.C09
open Aiortc Aiortc.Model.Sdp

/-- A host as returned by `ipaddress_from_sdp`. -/
theorem ipaddress_accepted (s a : Str) (h : ipaddressFromSdp s = .ok a) : HostOk a ∧ (NoBreak s → NoBreak a) := by
  unfold ipaddressFromSdp at h
  split at h
  · simp only at h
    split at h
    · rename_i hc
      cases h
      simp only [Bool.and_eq_true, Bool.not_eq_true', List.isEmpty_eq_false_iff] at hc
      refine ⟨⟨hc.1, ?_⟩, fun hs => nb_drop 7 s hs⟩
      intro hm; have := hc.2; simp [hm] at this
    · cases h
  · cases h

theorem extmap_accepted (value : Option Str) (x : HeaderExt) (h : parseExtmap value = .ok x) : Tok x.uri := by
  unfold parseExtmap at h
  cases value with
  | none => cases h
  | some v =>
    simp only at h
    have ht := splitWs_all_tok v
    split at h
    · rename_i extId uri he
      rw [he] at ht
      have hu : Tok uri := ht uri (by simp)
      split at h
      · split at h
        · cases h; exact hu
        · cases h
      · cases h
      · cases h
      · cases h
    · cases h

theorem fingerprint_accepted (value : Option Str) (f : Fingerprint) (h : parseFingerprint value = .ok f) :
    Tok f.algorithm ∧ Tok f.value := by
  unfold parseFingerprint at h
  cases value with
  | none => cases h
  | some v =>
    simp only at h
    have ht := splitWs_all_tok v
    split at h
    · rename_i a b he
      rw [he] at ht
      cases h
      exact ⟨ht a (by simp), ht b (by simp)⟩
    · cases h

/-- Both DTLS tables, as far as the parser can reach them: every role `DTLS_SETUP_ROLE` yields is printable and
prints to a value that parses to the same role. -/
theorem setup_table_dec : ∀ p ∈ Gen.DTLS_SETUP_ROLE,
    (setupOfRole p.2.toList).bind (fun su => parseSetup (some su)) = .ok p.2.toList := by
  decide

theorem setup_table : ∀ p ∈ Gen.DTLS_SETUP_ROLE,
    ∃ su, setupOfRole p.2.toList = .ok su ∧ parseSetup (some su) = .ok p.2.toList := by
  intro p hp
  have := setup_table_dec p hp
  cases hs : setupOfRole p.2.toList with
  | ok su => rw [hs] at this; exact ⟨su, rfl, this⟩
  | valueError => rw [hs] at this; cases this
  | crash k => rw [hs] at this; cases this
  | hang => rw [hs] at this; cases this

theorem setup_accepted (value : Option Str) (r : Str) (h : parseSetup value = .ok r) :
    ∃ su, setupOfRole r = .ok su ∧ parseSetup (some su) = .ok r := by
  unfold parseSetup at h
  cases value with
  | none => cases h
  | some v =>
    simp only [lookupS] at h
    cases hf : Gen.DTLS_SETUP_ROLE.find? (fun p => p.1.toList = v) with
    | none => simp [hf] at h
    | some p =>
      simp only [hf] at h
      cases h
      exact setup_table p (List.mem_of_find?_eq_some hf)

theorem groupInt_accepted (dest gs : List (Group Int)) (value : Option Str) (h : parseGroupInt dest value = .ok gs)
    (hd : ∀ g ∈ dest, Tok g.semantic) : ∀ g ∈ gs, Tok g.semantic := by
  unfold parseGroupInt at h
  cases value with
  | none => cases h
  | some v =>
    simp only at h
    have ht := splitWs_all_tok v
    split at h
    · cases h; exact hd
    · rename_i s items he
      rw [he] at ht
      split at h
      · cases h
        intro g hg
        simp only [List.mem_append, List.mem_singleton] at hg
        rcases hg with hg | hg
        · exact hd g hg
        · subst hg; exact ht s (by simp)
      · cases h
      · cases h
      · cases h

def GroupsOk (gs : List (Group Str)) : Prop := ∀ g ∈ gs, Tok g.semantic ∧ ∀ t ∈ g.items, Tok t

theorem groupStr_accepted (dest gs : List (Group Str)) (value : Option Str) (h : parseGroupStr dest value = .ok gs)
    (hd : GroupsOk dest) : GroupsOk gs := by
  unfold parseGroupStr at h
  cases value with
  | none => cases h
  | some v =>
    simp only at h
    have ht := splitWs_all_tok v
    split at h
    · cases h; exact hd
    · rename_i s items he
      rw [he] at ht
      cases h
      intro g hg
      simp only [List.mem_append, List.mem_singleton] at hg
      rcases hg with hg | hg
      · exact hd g hg
      · subst hg; exact ⟨ht s (by simp), fun t h' => ht t (by simp [h'])⟩

theorem ssrcLine_accepted (value : Option Str) (id : Int) (attr v : Str) (h : parseSsrcLine value = .ok (id, attr, v))
    (hv : ∀ x, value = some x → NoBreak x) : NoBreak v := by
  unfold parseSsrcLine at h
  cases value with
  | none => cases h
  | some x =>
    have hx := hv x rfl
    simp only at h
    split at h
    · cases h
    · rename_i idStr desc he
      have hd := (nb_split1_pair _ _ _ _ hx he).2 desc rfl
      split at h
      · cases h
      · split at h
        · cases h
        · rename_i a w he2
          cases h
          exact (nb_split1_pair _ _ _ _ hd he2).2 _ rfl

theorem sctpmap_accepted (value : Option Str) (k : Int) (v : Str) (h : parseSctpmap value = .ok (k, v))
    (hv : ∀ x, value = some x → NoBreak x) : NoBreak v := by
  unfold parseSctpmap at h
  cases value with
  | none => cases h
  | some x =>
    have hx := hv x rfl
    simp only at h
    split at h
    · cases h
    · rename_i idStr desc he
      have hd := (nb_split1_pair _ _ _ _ hx he).2 desc rfl
      split at h
      · cases h; exact hd
      · cases h

/-! ### ssrc entries -/

def SsrcNB (s : Ssrc) : Prop :=
  (∀ v, s.cname = some v → NoBreak v) ∧ (∀ v, s.msid = some v → NoBreak v) ∧
  (∀ v, s.mslabel = some v → NoBreak v) ∧ (∀ v, s.label = some v → NoBreak v)

theorem ssrcNB_new (id : Int) : SsrcNB { ssrc := id } := by
  refine ⟨?_, ?_, ?_, ?_⟩ <;> intro v hv <;> cases hv

theorem ssrcNB_set (s : Ssrc) (a v : Str) (hs : SsrcNB s) (hv : NoBreak v) : SsrcNB (s.set a v) := by
  obtain ⟨h1, h2, h3, h4⟩ := hs
  unfold Ssrc.set
  split
  · exact ⟨h1, h2, h3, h4⟩
  split
  · exact ⟨by intro w hw; cases hw; exact hv, h2, h3, h4⟩
  split
  · exact ⟨h1, by intro w hw; cases hw; exact hv, h3, h4⟩
  split
  · exact ⟨h1, h2, by intro w hw; cases hw; exact hv, h4⟩
  split
  · exact ⟨h1, h2, h3, by intro w hw; cases hw; exact hv⟩
  · exact ⟨h1, h2, h3, h4⟩

theorem ssrcUpdate_nb (l : List Ssrc) (id : Int) (a v : Str) (hv : NoBreak v)
    (h1 : ∀ s ∈ l, SsrcNB s) : ∀ s ∈ ssrcUpdate l id a v, SsrcNB s := by
  induction l with
  | nil =>
    intro s hs
    simp only [ssrcUpdate, List.mem_singleton] at hs
    subst hs; exact ssrcNB_set _ _ _ (ssrcNB_new id) hv
  | cons s r ih =>
    have ih := ih (fun x hx => h1 x (List.mem_cons_of_mem _ hx))
    intro x hx
    by_cases e : s.ssrc = id
    · simp only [ssrcUpdate, e, if_true, List.mem_cons] at hx
      rcases hx with hx | hx
      · subst hx; exact ssrcNB_set _ _ _ (h1 s List.mem_cons_self) hv
      · exact h1 x (List.mem_cons_of_mem _ hx)
    · simp only [ssrcUpdate, e, if_false, List.mem_cons] at hx
      rcases hx with hx | hx
      · subst hx; exact h1 _ List.mem_cons_self
      · exact ih x hx

theorem ssrcUpdate_keys (l : List Ssrc) (id : Int) (a v : Str) :
    ((ssrcUpdate l id a v).map (·.ssrc)) =
      (if id ∈ l.map (·.ssrc) then l.map (·.ssrc) else l.map (·.ssrc) ++ [id]) := by
  induction l with
  | nil => simp [ssrcUpdate, set_ssrc]
  | cons s r ih =>
    by_cases e : s.ssrc = id
    · simp [ssrcUpdate, e, set_ssrc]
    · have e' : ¬ id = s.ssrc := fun h => e h.symm
      simp only [ssrcUpdate, e, if_false, List.map_cons, List.mem_cons, e', false_or, ih]
      split <;> simp

theorem ssrcUpdate_nodup (l : List Ssrc) (id : Int) (a v : Str) (h : (l.map (·.ssrc)).Nodup) :
    ((ssrcUpdate l id a v).map (·.ssrc)).Nodup := by
  rw [ssrcUpdate_keys]
  split
  · exact h
  · rename_i hk
    exact List.nodup_append.mpr ⟨h, by simp, by intro a ha b hb; simp at hb; subst hb; intro e; subst e; exact hk ha⟩

theorem dictSetI_keys {β} (acc : List (Int × β)) (k : Int) (v : β) :
    (dictSet acc k v).map Prod.fst = if k ∈ acc.map Prod.fst then acc.map Prod.fst else acc.map Prod.fst ++ [k] := by
  induction acc with
  | nil => simp [dictSet]
  | cons a r ih =>
    obtain ⟨k', v'⟩ := a
    by_cases e : k' = k
    · simp [dictSet, e]
    · have e' : ¬ k = k' := fun h => e h.symm
      simp only [dictSet, e, if_false, List.map_cons, ih, List.mem_cons, e', false_or]
      split <;> simp

theorem dictSetI_nodup {β} (acc : List (Int × β)) (k : Int) (v : β) (h : (acc.map Prod.fst).Nodup) :
    ((dictSet acc k v).map Prod.fst).Nodup := by
  rw [dictSetI_keys]
  split
  · exact h
  · rename_i hk
    exact List.nodup_append.mpr ⟨h, by simp, by intro a ha b hb; simp at hb; subst hb; intro e; subst e; exact hk ha⟩

theorem dictSetI_mem {β} (acc : List (Int × β)) (k : Int) (v : β) :
    ∀ kv ∈ dictSet acc k v, kv ∈ acc ∨ kv = (k, v) := by
  induction acc with
  | nil => intro kv h; simp [dictSet] at h; exact Or.inr h
  | cons a r ih =>
    obtain ⟨k', v'⟩ := a
    intro kv h
    by_cases e : k' = k
    · simp [dictSet, e] at h
      rcases h with h | h
      · exact Or.inr h
      · exact Or.inl (by simp [h])
    · simp [dictSet, e] at h
      rcases h with h | h
      · exact Or.inl (by simp [h])
      · rcases ih kv h with h' | h'
        · exact Or.inl (by simp [h'])
        · exact Or.inr h'

end Aiortc.Lemmas.C09
