import Aiortc.Lemmas.C09.ParsedAttr
/-! C09 (whole-text idempotence), part 4: what the parser can put into `codecs` (rtpmap in the first pass,
rtcp-fb / fmtp in the second). -/
namespace Aiortc.Lemmas.C09
open Aiortc Aiortc.Model.Sdp

def FbOk (f : Feedback) : Prop := ' ' ∉ f.typ ∧ NoBreak f.typ ∧ ∀ p, f.parameter = some p → NoBreak p

/-- A codec as the parser builds it for a media section of kind `kind`. -/
structure ParsedCodec (kind : Str) (c : Codec) : Prop where
  mime : ∃ name, c.mimeType = kind ++ '/' :: name ∧ '/' ∉ name ∧ NoBreak name
  chan : if kind = lit "audio" then ∃ i, c.channels = some i else c.channels = none
  fb : ∀ f ∈ c.rtcpFeedback, FbOk f
  params : c.parameters = [] ∨ WFParams c.parameters
  params_nb : ∀ kv ∈ c.parameters, NoBreak (paramToStr kv)

theorem chan_shape (kind : Str) (bits : List Str) (channels : Option Int)
    (h : (if kind = "audio".toList then
            (match bits with
             | _ :: _ :: ch :: _ => match pyInt ch with
               | some i => Outcome.ok (some i)
               | none => .valueError
             | _ => .ok (some 1))
          else .ok none) = Outcome.ok channels) :
    if kind = lit "audio" then ∃ i, channels = some i else channels = none := by
  by_cases hk : kind = lit "audio"
  · have hk' : kind = "audio".toList := hk
    simp only [hk', if_true] at h
    simp only [hk, if_true]
    split at h
    · split at h
      · injection h with h; exact ⟨_, h.symm⟩
      · cases h
    · injection h with h; exact ⟨_, h.symm⟩
  · have hk' : ¬ kind = "audio".toList := hk
    simp only [hk', if_false] at h
    simp only [hk, if_false]
    injection h with h; exact h.symm

theorem rtpmap_accepted (kind : Str) (value : Option Str) (c : Codec) (h : parseRtpmap kind value = .ok c)
    (hv : ∀ x, value = some x → NoBreak x) : ParsedCodec kind c ∧ c.rtcpFeedback = [] ∧ c.parameters = [] := by
  unfold parseRtpmap at h
  cases value with
  | none => cases h
  | some x =>
    have hx := hv x rfl
    simp only at h
    split at h
    · cases h
    · rename_i formatId desc he
      have hd := (nb_split1_pair _ _ _ _ hx he).2 desc rfl
      have hns := splitOn_nosep '/' desc
      have hnb := nb_splitOn '/' desc hd
      generalize splitOn '/' desc = bits at *
      split at h
      · rename_i channels hch
        have hc := chan_shape kind bits channels hch
        split at h
        · rename_i name clock rest
          split at h
          · rename_i cr pt _ _
            cases h
            refine ⟨⟨⟨name, rfl, hns name (by simp), hnb name (by simp)⟩, hc, ?_, Or.inl rfl, ?_⟩, rfl, rfl⟩
            · intro f hf; cases hf
            · intro kv hkv; cases hkv
          · cases h
        · cases h
      · cases h
      · cases h
      · cases h

theorem splitFb_ok (v : Str) (hv : NoBreak v) :
    ∀ ty par, (splitFb v).2 = some (ty, par) → FbOk ⟨ty, par⟩ := by
  intro ty par h
  unfold splitFb at h
  split at h
  · cases h
  · rename_i b0 r he
    have hr := (nb_split1_pair _ _ _ _ hv he).2 r rfl
    simp only [Option.some.injEq] at h
    have h1 := split1_fst_nosep ' ' r
    have h2 := nb_split1 ' ' r hr
    rw [h] at h1 h2
    exact ⟨h1, h2.1, h2.2⟩

theorem addFeedback_inv (kind : Str) (bits : Str × Option (Str × Option Str))
    (hb : ∀ ty par, bits.2 = some (ty, par) → FbOk ⟨ty, par⟩) :
    ∀ (cs cs' : List Codec), addFeedback bits cs = .ok cs' → (∀ c ∈ cs, ParsedCodec kind c) →
      (∀ c ∈ cs', ParsedCodec kind c) ∧ pts cs' = pts cs := by
  intro cs
  induction cs with
  | nil => intro cs' h _; simp only [addFeedback] at h; cases h; exact ⟨by simp, rfl⟩
  | cons c r ih =>
    intro cs' h hp
    have hpr : ∀ c ∈ r, ParsedCodec kind c := fun x hx => hp x (List.mem_cons_of_mem _ hx)
    have hpc := hp c List.mem_cons_self
    simp only [addFeedback] at h
    split at h
    · split at h
      · cases h
      · rename_i ty par hbits
        split at h
        · rename_i r' hr'
          cases h
          obtain ⟨i1, i2⟩ := ih r' hr' hpr
          refine ⟨?_, by simp [pts] at i2 ⊢; exact i2⟩
          intro x hx
          simp only [List.mem_cons] at hx
          rcases hx with hx | hx
          · subst hx
            have hfb : ∀ f ∈ c.rtcpFeedback ++ [⟨ty, par⟩], FbOk f := by
              intro f hf
              simp only [List.mem_append, List.mem_singleton] at hf
              rcases hf with hf | hf
              · exact hpc.fb f hf
              · subst hf; exact hb ty par hbits
            exact { hpc with fb := hfb }
          · exact i1 x hx
        · rename_i e he; exact absurd h (he _)
    · split at h
      · rename_i r' hr'
        cases h
        obtain ⟨i1, i2⟩ := ih r' hr' hpr
        refine ⟨?_, by simp [pts] at i2 ⊢; exact i2⟩
        intro x hx
        simp only [List.mem_cons] at hx
        rcases hx with hx | hx
        · subst hx; exact hpc
        · exact i1 x hx
      · rename_i e he; exact absurd h (he _)

theorem setParams_inv (kind : Str) (pt : Int) (p : Params) (hp1 : p = [] ∨ WFParams p)
    (hp2 : ∀ kv ∈ p, NoBreak (paramToStr kv)) :
    ∀ (cs cs' : List Codec), setParams cs pt p = some cs' → (∀ c ∈ cs, ParsedCodec kind c) →
      (∀ c ∈ cs', ParsedCodec kind c) ∧ pts cs' = pts cs := by
  intro cs
  induction cs with
  | nil => intro cs' h _; simp [setParams] at h
  | cons c r ih =>
    intro cs' h hp
    have hpr : ∀ c ∈ r, ParsedCodec kind c := fun x hx => hp x (List.mem_cons_of_mem _ hx)
    have hpc := hp c List.mem_cons_self
    simp only [setParams] at h
    split at h
    · cases h
      refine ⟨?_, by simp [pts]⟩
      intro x hx
      simp only [List.mem_cons] at hx
      rcases hx with hx | hx
      · subst hx; exact { hpc with params := hp1, params_nb := hp2 }
      · exact hpr x hx
    · simp only [Option.map_eq_some_iff] at h
      obtain ⟨r', hr', rfl⟩ := h
      obtain ⟨i1, i2⟩ := ih r' hr' hpr
      refine ⟨?_, by simp [pts] at i2 ⊢; exact i2⟩
      intro x hx
      simp only [List.mem_cons] at hx
      rcases hx with hx | hx
      · subst hx; exact hpc
      · exact i1 x hx

theorem nb_eq : NoBreak ['='] := by intro c hc; simp at hc; subst hc; decide

theorem paramsFold_nb : ∀ (parts : List Str) (acc p : Params), (∀ s ∈ parts, NoBreak s) →
    (∀ kv ∈ acc, NoBreak (paramToStr kv)) → paramsFold parts acc = .ok p → ∀ kv ∈ p, NoBreak (paramToStr kv) := by
  intro parts
  induction parts with
  | nil => intro acc p _ ha h; simp only [paramsFold] at h; cases h; exact ha
  | cons s ps ih =>
    intro acc p hs ha h
    have hps : ∀ s ∈ ps, NoBreak s := fun x hx => hs x (List.mem_cons_of_mem _ hx)
    have hs0 := hs s List.mem_cons_self
    have hset : ∀ k v, NoBreak (paramToStr (k, v)) → ∀ kv ∈ dictSet acc k v, NoBreak (paramToStr kv) := by
      intro k v hkv kv hm
      rcases dictSet_mem acc k v kv hm with h' | h'
      · exact ha kv h'
      · subst h'; exact hkv
    simp only [paramsFold] at h
    split at h
    · rename_i k v he
      have hkv := nb_split1_pair _ _ _ _ hs0 he
      split at h
      · split at h
        · rename_i i _
          refine ih _ p hps (hset k (.int i) ?_) h
          simp only [paramToStr]
          rw [nb_append, nb_cons]; exact ⟨hkv.1, by decide, nb_showInt i⟩
        · cases h
      · refine ih _ p hps (hset k (.str v) ?_) h
        simp only [paramToStr]
        rw [nb_append, nb_cons]; exact ⟨hkv.1, by decide, hkv.2 v rfl⟩
    · exact ih _ p hps (hset s .none (by simpa [paramToStr] using hs0)) h

theorem params_accepted_nb (s : Str) (p : Params) (hs : NoBreak s) (h : parametersFromSdp s = .ok p) :
    ∀ kv ∈ p, NoBreak (paramToStr kv) :=
  paramsFold_nb _ [] p (nb_splitOn ';' s hs) (by simp) h

end Aiortc.Lemmas.C09
