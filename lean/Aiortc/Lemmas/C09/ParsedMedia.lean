import Aiortc.Lemmas.C09.ParsedCodec
/-! C09 (whole-text idempotence), part 5: the invariant `ParsedMedia` of the media-section parser
(the "m=" line establishes it, every line of the first and of the second pass preserves it). -/
namespace Aiortc.Lemmas.C09
open Aiortc Aiortc.Model.Sdp

def OptNB (o : Option Str) : Prop := ∀ v, o = some v → NoBreak v

def RoleOk (r : Str) : Prop := ∃ su, setupOfRole r = .ok su ∧ parseSetup (some su) = .ok r

def FpsOk (l : List Fingerprint) : Prop := ∀ f ∈ l, Tok f.algorithm ∧ Tok f.value

/-- What the session-level lines can leave in the defaults that are folded into every media section. -/
structure DefaultsOk (d : Defaults) : Prop where
  fps : FpsOk d.fingerprints
  role : ∀ r, d.role = some r → RoleOk r
  opts : OptNB d.iceOptions
  pwd : OptNB d.icePwd
  ufrag : OptNB d.iceUfrag

/-- Everything the media-section parser guarantees about its result (weaker than `WFMedia`: `mid`/`msid` may be
`None`/empty, `rtcp_mux` may be set without an rtcp port, ssrc entries may carry no attribute, audio channel counts
are arbitrary, feedback parameters may be empty, fmtp dictionaries may serialise to nothing, the kind may contain "/"). -/
structure ParsedMedia (m : Media) : Prop where
  hkind : m.kind ≠ [] ∧ ' ' ∉ m.kind
  hport : 0 ≤ m.port
  hprofile : m.profile ≠ [] ∧ ∀ c ∈ m.profile, profileChar c = true
  hfmt : match m.fmt with
    | .ints l => (m.kind = lit "audio" ∨ m.kind = lit "video") ∧ l ≠ [] ∧
        ∀ pt ∈ l, (0 ≤ pt && pt < 256 && !forbiddenPt pt) = true
    | .strs l => m.kind ≠ lit "audio" ∧ m.kind ≠ lit "video" ∧ l ≠ [] ∧ ∀ t ∈ l, Tok t
  kind_nb : NoBreak m.kind
  host : ∀ h, m.host = some h → HostOk h ∧ NoBreak h
  direction : ∀ d, m.direction = some d → d ∈ directions
  ext : ∀ h ∈ m.headerExtensions, Tok h.uri
  mid_nb : OptNB m.muxId
  msid_nb : OptNB m.msid
  rtcp_none : m.rtcpPort = none → m.rtcpHost = none
  rtcp_host : ∀ h, m.rtcpHost = some h → HostOk h ∧ NoBreak h
  ssrcGroup : ∀ g ∈ m.ssrcGroup, Tok g.semantic
  ssrc_nb : ∀ s ∈ m.ssrc, SsrcNB s
  ssrc_nodup : (m.ssrc.map (·.ssrc)).Nodup
  sctpmap_nodup : (m.sctpmap.map Prod.fst).Nodup
  sctpmap_nb : ∀ kv ∈ m.sctpmap, NoBreak kv.2
  cands : ∀ c ∈ m.candidates, WFCand c
  dtls : ∀ d, m.dtls = some d → FpsOk d.fingerprints ∧ ∀ r, d.role = some r → RoleOk r
  ufrag_nb : OptNB m.ice.usernameFragment
  pwd_nb : OptNB m.ice.password
  opts_nb : OptNB m.iceOptions
  codecs : ∀ c ∈ m.codecs, ParsedCodec m.kind c
  codecs_nodup : (pts m.codecs).Nodup

theorem ParsedMedia.header {m : Media} (h : ParsedMedia m) : WFHeader m := ⟨h.hkind, h.hport, h.hprofile, h.hfmt⟩

theorem pyInt_digits_nonneg (s : Str) (p : Int) (hne : s ≠ []) (hd : s.all isDigit = true) (h : pyInt s = some p) :
    0 ≤ p := by
  have hall : ∀ c ∈ s, isDigit c = true := List.all_eq_true.mp hd
  unfold pyInt at h
  rw [stripInt_self s (fun c hc => isDigit_not_intSpace (hall c hc))] at h
  cases s with
  | nil => exact absurd rfl hne
  | cons c r =>
    have hc := hall c (by simp)
    have h1 : c ≠ '-' := by intro e; subst e; revert hc; decide
    have h2 : c ≠ '+' := by intro e; subst e; revert hc; decide
    split at h
    · rename_i ds e; simp at e; exact absurd e.1 h1
    · rename_i ds e; simp at e; exact absurd e.1 h2
    · simp only [Option.map_eq_some_iff] at h
      obtain ⟨n, _, rfl⟩ := h
      exact Int.natCast_nonneg n

theorem nb_profile (p : Str) (h : p.all (fun c => ('A' ≤ c && c ≤ 'Z') || c = '/') = true) : NoBreak p := by
  intro c hc
  have := List.all_eq_true.mp h c hc
  simp only [Bool.or_eq_true, Bool.and_eq_true, decide_eq_true_eq] at this
  rcases this with h | h
  · have h1 : 65 ≤ c.toNat := by
      have := h.1; rw [Char.le_def, UInt32.le_iff_toNat_le] at this; exact this
    have h2 : c.toNat ≤ 90 := by
      have := h.2; rw [Char.le_def, UInt32.le_iff_toNat_le] at this; exact this
    simp only [isLineBreak, Bool.or_eq_false_iff, Bool.and_eq_false_iff, decide_eq_false_iff_not]
    omega
  · subst h; decide

theorem mapInt_length : ∀ (toks : List Str) (l : List Int), mapInt toks = .ok l → l.length = toks.length := by
  intro toks
  induction toks with
  | nil => intro l h; simp only [mapInt] at h; cases h; rfl
  | cons t r ih =>
    intro l h
    simp only [mapInt] at h
    split at h
    · split at h
      · rename_i l' hl'; cases h; simp [ih l' hl']
      · rename_i e he; exact absurd h (he _)
    · cases h

theorem fmt_shape (kind fmtStr : Str) (f : Fmt) (hfmt : ¬(splitWs fmtStr).isEmpty = true)
    (hfo : (if (decide (kind = lit "audio") || decide (kind = lit "video")) = true then
        match mapInt (splitWs fmtStr) with
        | Outcome.ok l =>
          if (l.all fun pt => decide (0 ≤ pt) && decide (pt < 256) && !forbiddenPt pt) = true then Outcome.ok (Fmt.ints l)
          else Outcome.crash "AssertionError"
        | Outcome.valueError => Outcome.valueError
        | Outcome.crash k => Outcome.crash k
        | Outcome.hang => Outcome.hang
      else Outcome.ok (Fmt.strs (splitWs fmtStr))) = Outcome.ok f) :
    (∀ l, f = .ints l → (kind = lit "audio" ∨ kind = lit "video") ∧ l ≠ [] ∧
        ∀ pt ∈ l, (0 ≤ pt && pt < 256 && !forbiddenPt pt) = true) ∧
    (∀ l, f = .strs l → kind ≠ lit "audio" ∧ kind ≠ lit "video" ∧ l ≠ [] ∧ ∀ t ∈ l, Tok t) := by
  have hne : splitWs fmtStr ≠ [] := by simpa using hfmt
  by_cases hav : (decide (kind = lit "audio") || decide (kind = lit "video")) = true
  · simp only [hav, if_true] at hfo
    generalize hm : mapInt (splitWs fmtStr) = r at hfo
    cases r with
    | ok l =>
      simp only at hfo
      split at hfo
      · rename_i hall
        injection hfo with hfo; subst hfo
        refine ⟨?_, (by intro l' h'; cases h')⟩
        intro l' h'; cases h'
        refine ⟨by simpa using hav, ?_, List.all_eq_true.mp hall⟩
        intro e; subst e
        have := mapInt_length _ _ hm
        simp at this; exact hne (List.length_eq_zero_iff.mp this.symm)
      · cases hfo
    | valueError => cases hfo
    | crash k => cases hfo
    | hang => cases hfo
  · simp only [hav] at hfo
    injection hfo with hfo; subst hfo
    simp only [Bool.or_eq_true, decide_eq_true_eq, not_or] at hav
    refine ⟨(by intro l' h'; cases h'), ?_⟩
    intro l' h'; cases h'
    exact ⟨hav.1, hav.2, hne, splitWs_all_tok fmtStr⟩

theorem mediaHeader_accepted (d : Defaults) (line : Str) (m : Media) (hd : DefaultsOk d) (hl : NoBreak line)
    (h : mediaHeader d line = .ok m) :
    ParsedMedia m ∧ m.dtls = some { fingerprints := d.fingerprints, role := d.role } ∧ m.ice.iceLite = d.iceLite := by
  unfold mediaHeader at h
  split at h
  · cases h
  split at h
  rotate_left
  · cases h
  rename_i kind r1 he1
  split at h
  rotate_left
  · cases h
  rename_i port r2 he2
  split at h
  rotate_left
  · cases h
  rename_i profile fmtStr he3
  split at h
  · cases h
  rename_i hcond
  simp only at h
  split at h
  · cases h
  rename_i hfmt
  simp only [Bool.or_eq_true, not_or, Bool.not_eq_true, Bool.not_eq_false, Bool.not_eq_true', List.isEmpty_eq_false_iff] at hcond
  obtain ⟨⟨⟨⟨⟨⟨hk, hpne⟩, hpd⟩, hprne⟩, hprc⟩, hfne⟩, _⟩ := hcond
  have hl2 := nb_drop 2 _ hl
  have n1 := nb_split1_pair _ _ _ _ hl2 he1
  have n2 := nb_split1_pair _ _ _ _ (n1.2 _ rfl) he2
  have n3 := nb_split1_pair _ _ _ _ (n2.2 _ rfl) he3
  have hksp : ' ' ∉ kind := by have := split1_fst_nosep ' ' (List.drop 2 line); rw [he1] at this; exact this
  split at h
  · rename_i f p hfo hp
    cases h
    refine ⟨?_, rfl, rfl⟩
    have hfmtW := fmt_shape kind fmtStr f hfmt hfo
    exact {
      hkind := ⟨hk, hksp⟩
      hport := pyInt_digits_nonneg port p hpne hpd hp
      hprofile := ⟨hprne, List.all_eq_true.mp hprc⟩
      hfmt := by
        cases f with
        | ints l => exact hfmtW.1 _ rfl
        | strs l => exact hfmtW.2 _ rfl
      kind_nb := n1.1
      host := by intro x hx; cases hx
      direction := by intro x hx; cases hx
      ext := by intro x hx; cases hx
      mid_nb := by intro x hx; cases hx; exact nb_nil
      msid_nb := by intro x hx; cases hx
      rtcp_none := fun _ => rfl
      rtcp_host := by intro x hx; cases hx
      ssrcGroup := by intro x hx; cases hx
      ssrc_nb := by intro x hx; cases hx
      ssrc_nodup := List.nodup_nil
      sctpmap_nodup := List.nodup_nil
      sctpmap_nb := by intro x hx; cases hx
      cands := by intro x hx; cases hx
      dtls := by intro x hx; cases hx; exact ⟨hd.fps, hd.role⟩
      ufrag_nb := hd.ufrag
      pwd_nb := hd.pwd
      opts_nb := hd.opts
      codecs := by intro x hx; cases hx
      codecs_nodup := List.nodup_nil }
  · cases h
  · cases h
  · cases h
  · cases h

end Aiortc.Lemmas.C09
