import Aiortc.Lemmas.C09.ParsedMedia
/-! C09 (whole-text idempotence), part 6: every line of the first pass over a media section preserves `ParsedMedia`. -/
namespace Aiortc.Lemmas.C09
open Aiortc Aiortc.Model.Sdp

theorem intOf_ok (s : Str) (i : Int) (h : intOf s = .ok i) : pyInt s = some i := by
  unfold intOf at h
  split at h
  · injection h with h; subst h; assumption
  · cases h

theorem pts_append_nodup (cs : List Codec) (c : Codec) (h : (pts cs).Nodup)
    (hall : cs.all (·.payloadType != c.payloadType) = true) : (pts (cs ++ [c])).Nodup := by
  simp only [pts, List.map_append, List.map_cons, List.map_nil]
  refine List.nodup_append.mpr ⟨h, by simp, ?_⟩
  intro a ha b hb
  simp only [List.mem_singleton] at hb
  subst hb
  simp only [List.mem_map] at ha
  obtain ⟨x, hx, rfl⟩ := ha
  have := List.all_eq_true.mp hall x hx
  have h2 : (x.payloadType != c.payloadType) = true := this
  exact bne_iff_ne.mp h2

theorem ite_ok {α} {c : Prop} [Decidable c] {a b r : α} (h : (if c then a else b) = r) :
    (c ∧ a = r) ∨ (¬c ∧ b = r) := by
  by_cases hc : c
  · rw [if_pos hc] at h; exact Or.inl ⟨hc, h⟩
  · rw [if_neg hc] at h; exact Or.inr ⟨hc, h⟩

theorem mediaAttr_inv (m m' : Media) (attr : Str) (value : Option Str)
    (hv : OptNB value) (hp : ParsedMedia m) (h : mediaAttr m attr value = .ok m') :
    ParsedMedia m' ∧ m'.ice.iceLite = m.ice.iceLite := by
  unfold mediaAttr at h
  rcases ite_ok h with ⟨hc, h⟩ | ⟨hc, h⟩
  · -- candidate
    cases value with
    | none => cases h
    | some v =>
      simp only [ok_bind_eq, pure_ok] at h
      obtain ⟨c, hc, h⟩ := h; cases h
      have hc' := candidate_accepted_wf v c hc
      refine ⟨{ hp with cands := ?_ }, rfl⟩
      intro x hx
      simp only [List.mem_append, List.mem_singleton] at hx
      rcases hx with hx | hx
      · exact hp.cands x hx
      · subst hx; exact hc'
  rcases ite_ok h with ⟨hc, h⟩ | ⟨hc, h⟩
  · cases h; exact ⟨{ hp with }, rfl⟩
  rcases ite_ok h with ⟨hc, h⟩ | ⟨hc, h⟩
  · -- extmap
    simp only [ok_bind_eq, pure_ok] at h
    obtain ⟨x, hx, h⟩ := h; cases h
    have hx' := extmap_accepted value x hx
    refine ⟨{ hp with ext := ?_ }, rfl⟩
    intro y hy
    simp only [List.mem_append, List.mem_singleton] at hy
    rcases hy with hy | hy
    · exact hp.ext y hy
    · subst hy; exact hx'
  rcases ite_ok h with ⟨hc, h⟩ | ⟨hc, h⟩
  · -- fingerprint
    simp only [ok_bind_eq, pure_ok] at h
    obtain ⟨f, hf, h⟩ := h; cases h
    have hf' := fingerprint_accepted value f hf
    refine ⟨{ hp with dtls := ?_ }, rfl⟩
    intro d hd
    simp only [Media.updDtls, Option.map_eq_some_iff] at hd
    obtain ⟨d0, hd0, rfl⟩ := hd
    obtain ⟨i1, i2⟩ := hp.dtls d0 hd0
    refine ⟨?_, i2⟩
    intro y hy
    simp only [List.mem_append, List.mem_singleton] at hy
    rcases hy with hy | hy
    · exact i1 y hy
    · subst hy; exact hf'
  rcases ite_ok h with ⟨hc, h⟩ | ⟨hc, h⟩
  · cases h; exact ⟨{ hp with opts_nb := hv }, rfl⟩
  rcases ite_ok h with ⟨hc, h⟩ | ⟨hc, h⟩
  · cases h; exact ⟨{ hp with pwd_nb := hv }, rfl⟩
  rcases ite_ok h with ⟨hc, h⟩ | ⟨hc, h⟩
  · cases h; exact ⟨{ hp with ufrag_nb := hv }, rfl⟩
  rcases ite_ok h with ⟨hc, h⟩ | ⟨hc, h⟩
  · -- max-message-size
    simp only [ok_bind_eq, pure_ok] at h
    obtain ⟨i, _, h⟩ := h; cases h
    exact ⟨{ hp with }, rfl⟩
  rcases ite_ok h with ⟨hc, h⟩ | ⟨hc, h⟩
  · cases h; exact ⟨{ hp with mid_nb := hv }, rfl⟩
  rcases ite_ok h with ⟨hc, h⟩ | ⟨hc, h⟩
  · cases h; exact ⟨{ hp with msid_nb := hv }, rfl⟩
  rcases ite_ok h with ⟨hc, h⟩ | ⟨hc, h⟩
  · -- rtcp
    cases value with
    | none => cases h
    | some v =>
      simp only at h
      split at h
      · simp only [ok_bind_eq, pure_ok] at h
        obtain ⟨i, _, h⟩ := h; cases h
        exact ⟨{ hp with rtcp_none := (by intro hn; cases hn) }, rfl⟩
      · rename_i p hh he
        simp only [ok_bind_eq, pure_ok] at h
        obtain ⟨i, _, a, ha, h⟩ := h; cases h
        have hnb := (nb_split1_pair _ _ _ _ (hv v rfl) he).2 hh rfl
        have ha' := ipaddress_accepted hh a ha
        refine ⟨{ hp with rtcp_none := (by intro hn; cases hn), rtcp_host := ?_ }, rfl⟩
        intro x hx; cases hx; exact ⟨ha'.1, ha'.2 hnb⟩
  rcases ite_ok h with ⟨hc, h⟩ | ⟨hc, h⟩
  · cases h; exact ⟨{ hp with }, rfl⟩
  rcases ite_ok h with ⟨hc, h⟩ | ⟨hc, h⟩
  · -- setup
    simp only [ok_bind_eq, pure_ok] at h
    obtain ⟨r, hr, h⟩ := h; cases h
    have hr' := setup_accepted value r hr
    refine ⟨{ hp with dtls := ?_ }, rfl⟩
    intro d hd
    simp only [Media.updDtls, Option.map_eq_some_iff] at hd
    obtain ⟨d0, hd0, rfl⟩ := hd
    obtain ⟨i1, i2⟩ := hp.dtls d0 hd0
    refine ⟨i1, ?_⟩
    intro r' hr''; cases hr''; exact hr'
  rcases ite_ok h with ⟨hc, h⟩ | ⟨hc, h⟩
  · -- direction
    cases h
    refine ⟨{ hp with direction := ?_ }, rfl⟩
    intro d hd; cases hd
    simpa using hc
  rcases ite_ok h with ⟨hc, h⟩ | ⟨hc, h⟩
  · -- rtpmap
    simp only [ok_bind_eq, pure_ok] at h
    obtain ⟨c, hc, h⟩ := h
    have hc' := rtpmap_accepted m.kind value c hc hv
    split at h
    · rename_i hall
      cases h
      refine ⟨{ hp with codecs := ?_, codecs_nodup := pts_append_nodup _ _ hp.codecs_nodup hall }, rfl⟩
      intro x hx
      simp only [List.mem_append, List.mem_singleton] at hx
      rcases hx with hx | hx
      · exact hp.codecs x hx
      · subst hx; exact hc'.1
    · cases h; exact ⟨hp, rfl⟩
  rcases ite_ok h with ⟨hc, h⟩ | ⟨hc, h⟩
  · -- sctpmap
    simp only [ok_bind_eq, pure_ok] at h
    obtain ⟨kv, hkv, h⟩ := h; cases h
    obtain ⟨k, v⟩ := kv
    have hnb := sctpmap_accepted value k v hkv hv
    refine ⟨{ hp with sctpmap_nodup := dictSetI_nodup _ _ _ hp.sctpmap_nodup, sctpmap_nb := ?_ }, rfl⟩
    intro x hx
    rcases dictSetI_mem _ _ _ x hx with hx | hx
    · exact hp.sctpmap_nb x hx
    · subst hx; exact hnb
  rcases ite_ok h with ⟨hc, h⟩ | ⟨hc, h⟩
  · -- sctp-port
    simp only [ok_bind_eq, pure_ok] at h
    obtain ⟨i, _, h⟩ := h; cases h
    exact ⟨{ hp with }, rfl⟩
  rcases ite_ok h with ⟨hc, h⟩ | ⟨hc, h⟩
  · -- ssrc-group
    simp only [ok_bind_eq, pure_ok] at h
    obtain ⟨g, hg, h⟩ := h; cases h
    exact ⟨{ hp with ssrcGroup := groupInt_accepted _ _ value hg hp.ssrcGroup }, rfl⟩
  rcases ite_ok h with ⟨hc, h⟩ | ⟨hc, h⟩
  · -- ssrc
    simp only [ok_bind_eq, pure_ok] at h
    obtain ⟨t, ht, h⟩ := h; cases h
    obtain ⟨id, a, v⟩ := t
    have hnb := ssrcLine_accepted value id a v ht hv
    exact ⟨{ hp with ssrc_nb := ssrcUpdate_nb _ _ _ _ hnb hp.ssrc_nb,
                     ssrc_nodup := ssrcUpdate_nodup _ _ _ _ hp.ssrc_nodup }, rfl⟩
  · cases h; exact ⟨hp, rfl⟩

theorem mediaLine_inv (m m' : Media) (line : Str) (hl : NoBreak line) (hp : ParsedMedia m)
    (h : mediaLine m line = .ok m') : ParsedMedia m' ∧ m'.ice.iceLite = m.ice.iceLite := by
  unfold mediaLine at h
  split at h
  · simp only [ok_bind_eq, pure_ok] at h
    obtain ⟨a, ha, h⟩ := h; cases h
    have ha' := ipaddress_accepted _ a ha
    refine ⟨{ hp with host := ?_ }, rfl⟩
    intro x hx; cases hx; exact ⟨ha'.1, ha'.2 (nb_drop 2 _ hl)⟩
  split at h
  · exact mediaAttr_inv m m' _ _ (nb_parseAttr line hl).2 hp h
  · cases h; exact ⟨hp, rfl⟩

theorem foldO_inv {σ α} (f : σ → α → Outcome σ) (P : σ → Prop) (Q : α → Prop)
    (step : ∀ s s' a, Q a → P s → f s a = .ok s' → P s') :
    ∀ (l : List α) (s s' : σ), (∀ a ∈ l, Q a) → P s → foldO f s l = .ok s' → P s' := by
  intro l
  induction l with
  | nil => intro s s' _ hs h; simp only [foldO] at h; cases h; exact hs
  | cons a r ih =>
    intro s s' hq hs h
    simp only [foldO] at h
    split at h
    · rename_i s1 h1
      exact ih s1 s' (fun x hx => hq x (List.mem_cons_of_mem _ hx)) (step s s1 a (hq a List.mem_cons_self) hs h1) h
    · rename_i e he; exact absurd h (he _)

theorem pass1_inv (m m' : Media) (lines : List Str) (hl : ∀ l ∈ lines, NoBreak l) (hp : ParsedMedia m)
    (h : foldO mediaLine m lines = .ok m') : ParsedMedia m' ∧ m'.ice.iceLite = m.ice.iceLite := by
  have := foldO_inv mediaLine (fun s => ParsedMedia s ∧ s.ice.iceLite = m.ice.iceLite) NoBreak
    (fun s s' a ha hs hf => by
      obtain ⟨i1, i2⟩ := mediaLine_inv s s' a ha hs.1 hf
      exact ⟨i1, i2.trans hs.2⟩)
    lines m m' hl ⟨hp, rfl⟩ h
  exact this

end Aiortc.Lemmas.C09
