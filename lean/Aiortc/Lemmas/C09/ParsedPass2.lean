import Aiortc.Lemmas.C09.ParsedPass1
/-! C09 (whole-text idempotence), part 7: the second pass (fmtp, rtcp-fb) preserves `ParsedMedia`; a whole media
section: `parseMedia` returns a `ParsedMedia` whose DTLS parameters, if any, have a role. -/
namespace Aiortc.Lemmas.C09
open Aiortc Aiortc.Model.Sdp

theorem mediaAttr2_inv (m m' : Media) (attr : Str) (value : Option Str)
    (hv : OptNB value) (hp : ParsedMedia m) (h : mediaAttr2 m attr value = .ok m') :
    ParsedMedia m' ∧ m'.dtls = m.dtls ∧ m'.ice.iceLite = m.ice.iceLite := by
  unfold mediaAttr2 at h
  rcases ite_ok h with ⟨hc, h⟩ | ⟨hc, h⟩
  · -- fmtp
    cases value with
    | none => cases h
    | some v =>
      simp only at h
      split at h
      · cases h
      · rename_i idStr desc he
        have hd := (nb_split1_pair _ _ _ _ (hv v rfl) he).2 desc rfl
        simp only [ok_bind_eq] at h
        obtain ⟨pt, _, h⟩ := h
        split at h
        · cases h
        · simp only [ok_bind_eq, pure_ok] at h
          obtain ⟨p, hpp, h⟩ := h
          split at h
          · rename_i cs hcs
            cases h
            obtain ⟨i1, i2⟩ := setParams_inv m.kind pt p (Or.inr (params_accepted_wf desc p hpp))
              (params_accepted_nb desc p hd hpp) _ _ hcs hp.codecs
            exact ⟨{ hp with codecs := i1, codecs_nodup := (by rw [i2]; exact hp.codecs_nodup) }, rfl, rfl⟩
          · cases h
  rcases ite_ok h with ⟨hc, h⟩ | ⟨hc, h⟩
  · -- rtcp-fb
    cases value with
    | none => cases h
    | some v =>
      simp only [ok_bind_eq, pure_ok] at h
      obtain ⟨cs, hcs, h⟩ := h; cases h
      obtain ⟨i1, i2⟩ := addFeedback_inv m.kind (splitFb v) (splitFb_ok v (hv v rfl)) _ _ hcs hp.codecs
      exact ⟨{ hp with codecs := i1, codecs_nodup := (by rw [i2]; exact hp.codecs_nodup) }, rfl, rfl⟩
  · cases h; exact ⟨hp, rfl, rfl⟩

theorem mediaLine2_inv (m m' : Media) (line : Str) (hl : NoBreak line) (hp : ParsedMedia m)
    (h : mediaLine2 m line = .ok m') : ParsedMedia m' ∧ m'.dtls = m.dtls ∧ m'.ice.iceLite = m.ice.iceLite := by
  unfold mediaLine2 at h
  rcases ite_ok h with ⟨hc, h⟩ | ⟨hc, h⟩
  · exact mediaAttr2_inv m m' _ _ (nb_parseAttr line hl).2 hp h
  · cases h; exact ⟨hp, rfl, rfl⟩

theorem pass2_inv (m m' : Media) (lines : List Str) (hl : ∀ l ∈ lines, NoBreak l) (hp : ParsedMedia m)
    (h : foldO mediaLine2 m lines = .ok m') :
    ParsedMedia m' ∧ m'.dtls = m.dtls ∧ m'.ice.iceLite = m.ice.iceLite :=
  foldO_inv mediaLine2 (fun s => ParsedMedia s ∧ s.dtls = m.dtls ∧ s.ice.iceLite = m.ice.iceLite) NoBreak
    (fun s s' a ha hs hf => by
      obtain ⟨i1, i2, i3⟩ := mediaLine2_inv s s' a ha hs.1 hf
      exact ⟨i1, i2.trans hs.2.1, i3.trans hs.2.2⟩)
    lines m m' hl ⟨hp, rfl, rfl⟩ h

/-- The DTLS parameters of a parsed media section, if present, have a role (`dtls = None` otherwise). -/
def DtlsRole (m : Media) : Prop := ∀ d, m.dtls = some d → ∃ r, d.role = some r

theorem parseMedia_inv (d : Defaults) (lines : List Str) (m : Media) (hd : DefaultsOk d)
    (hl : ∀ l ∈ lines, NoBreak l) (h : parseMedia d lines = .ok m) :
    ParsedMedia m ∧ DtlsRole m ∧ m.ice.iceLite = d.iceLite := by
  cases lines with
  | nil => cases h
  | cons hd0 rest =>
    simp only [parseMedia, ok_bind_eq] at h
    obtain ⟨m0, h0, m1, h1, h2⟩ := h
    have hr : ∀ l ∈ rest, NoBreak l := fun l hl' => hl l (List.mem_cons_of_mem _ hl')
    obtain ⟨p0, _, l0⟩ := mediaHeader_accepted d hd0 m0 hd (hl hd0 List.mem_cons_self) h0
    obtain ⟨p1, l1⟩ := pass1_inv m0 m1 rest hr p0 h1
    -- the `dtls = None` fix-up
    have key : ∀ m2 : Media, ParsedMedia m2 → DtlsRole m2 → m2.ice.iceLite = m1.ice.iceLite →
        foldO mediaLine2 m2 rest = .ok m → ParsedMedia m ∧ DtlsRole m ∧ m.ice.iceLite = d.iceLite := by
      intro m2 p2 r2 l2 hf
      obtain ⟨p3, d3, l3⟩ := pass2_inv m2 m rest hr p2 hf
      refine ⟨p3, ?_, by rw [l3, l2, l1, l0]⟩
      intro dt hdt; rw [d3] at hdt; exact r2 dt hdt
    cases hdt : m1.dtls with
    | none =>
      simp only [hdt] at h2
      exact key m1 p1 (by intro dt h'; rw [hdt] at h'; cases h') rfl h2
    | some dt =>
      simp only [hdt] at h2
      cases hrole : dt.role with
      | none =>
        simp only [hrole, Option.isNone_none, if_true] at h2
        exact key { m1 with dtls := none } { p1 with dtls := (by intro x hx; cases hx) } (by intro x hx; cases hx) rfl h2
      | some r =>
        simp only [hrole, Option.isNone_some, Bool.false_eq_true, if_false] at h2
        exact key m1 p1 (by intro x hx; rw [hdt] at hx; cases hx; exact ⟨r, hrole⟩) rfl h2

theorem parseMedias_inv (d : Defaults) (hd : DefaultsOk d) : ∀ (groups : List (List Str)) (ms : List Media),
    (∀ g ∈ groups, ∀ l ∈ g, NoBreak l) → parseMedias d groups = .ok ms →
    ∀ m ∈ ms, ParsedMedia m ∧ DtlsRole m ∧ m.ice.iceLite = d.iceLite := by
  intro groups
  induction groups with
  | nil => intro ms _ h; simp only [parseMedias] at h; cases h; simp
  | cons g r ih =>
    intro ms hg h
    simp only [parseMedias] at h
    split at h
    · rename_i m hm
      split at h
      · rename_i ms' hms'
        cases h
        intro x hx
        simp only [List.mem_cons] at hx
        rcases hx with hx | hx
        · subst hx; exact parseMedia_inv d g x hd (hg g List.mem_cons_self) hm
        · exact ih ms' (fun g' hg' => hg g' (List.mem_cons_of_mem _ hg')) hms' x hx
      · rename_i e he; exact absurd h (he _)
    · cases h
    · cases h
    · cases h

end Aiortc.Lemmas.C09
