import Aiortc.Lemmas.C09.ParsedPass2
/-! C09 (whole-text idempotence), part 8: the session-level lines, and `parse` as a whole: whatever
`SessionDescription.parse` returns is a `ParsedSession`. -/
namespace Aiortc.Lemmas.C09
open Aiortc Aiortc.Model.Sdp

theorem noTrail_strip_drop (line : Str) (n : Nat) : NoTrail ((Model.Sdp.strip line).drop n) := by
  intro c hc
  rw [List.getLast?_drop] at hc
  split at hc
  · cases hc
  · unfold Model.Sdp.strip at hc
    rw [List.getLast?_reverse] at hc
    have := List.head?_dropWhile_not isPySpace (stripLeft line).reverse
    unfold stripLeft at hc this
    rw [hc] at this
    exact this

/-- The session-level fields as the parser leaves them. -/
structure ParsedHdr (s : Session) : Prop where
  origin : ∀ o, s.origin = some o → NoTrail o ∧ NoBreak o
  name : NoTrail s.name ∧ NoBreak s.name
  time : NoTrail s.time ∧ NoBreak s.time
  host : ∀ h, s.host = some h → HostOk h ∧ NoBreak h
  group : GroupsOk s.group
  msid : GroupsOk s.msidSemantic

theorem parsedHdr_init : ParsedHdr {} :=
  { origin := by intro o h; cases h
    name := ⟨by intro c h; simp at h; subst h; decide, nb_lit_chars _ (by decide)⟩
    time := ⟨by intro c h; simp at h; subst h; decide, nb_lit_chars _ (by decide)⟩
    host := by intro o h; cases h
    group := by intro g h; cases h
    msid := by intro g h; cases h }

theorem defaultsOk_init : DefaultsOk {} :=
  { fps := by intro g h; cases h
    role := by intro g h; cases h
    opts := by intro g h; cases h
    pwd := by intro g h; cases h
    ufrag := by intro g h; cases h }

theorem sessionLine_inv (s s' : Session) (d d' : Defaults) (line : Str) (hl : NoBreak line)
    (hs : ParsedHdr s) (hd : DefaultsOk d) (h : sessionLine (s, d) line = .ok (s', d')) :
    ParsedHdr s' ∧ DefaultsOk d' ∧ s'.media = s.media := by
  unfold sessionLine at h
  simp only at h
  have hsd : ∀ n, NoTrail ((Model.Sdp.strip line).drop n) ∧ NoBreak ((Model.Sdp.strip line).drop n) :=
    fun n => ⟨noTrail_strip_drop line n, nb_drop n _ (nb_strip line hl)⟩
  rcases ite_ok h with ⟨hc, h⟩ | ⟨hc, h⟩
  · simp only [ok_bind_eq, pure_ok] at h
    obtain ⟨v, _, h⟩ := h; cases h
    exact ⟨{ hs with }, hd, rfl⟩
  rcases ite_ok h with ⟨hc, h⟩ | ⟨hc, h⟩
  · cases h
    exact ⟨{ hs with origin := (by intro o ho; cases ho; exact hsd 2) }, hd, rfl⟩
  rcases ite_ok h with ⟨hc, h⟩ | ⟨hc, h⟩
  · cases h
    exact ⟨{ hs with name := hsd 2 }, hd, rfl⟩
  rcases ite_ok h with ⟨hc, h⟩ | ⟨hc, h⟩
  · simp only [ok_bind_eq, pure_ok] at h
    obtain ⟨a, ha, h⟩ := h; cases h
    have ha' := ipaddress_accepted _ a ha
    exact ⟨{ hs with host := (by intro x hx; cases hx; exact ⟨ha'.1, ha'.2 (nb_drop 2 _ hl)⟩) }, hd, rfl⟩
  rcases ite_ok h with ⟨hc, h⟩ | ⟨hc, h⟩
  · cases h
    exact ⟨{ hs with time := hsd 2 }, hd, rfl⟩
  rcases ite_ok h with ⟨hc, h⟩ | ⟨hc, h⟩
  · have hv : OptNB (parseAttr line).2 := (nb_parseAttr line hl).2
    generalize (parseAttr line).2 = value at h hv
    generalize (parseAttr line).1 = attr at h
    rcases ite_ok h with ⟨hc, h⟩ | ⟨hc, h⟩
    · simp only [ok_bind_eq, pure_ok] at h
      obtain ⟨f, hf, h⟩ := h; cases h
      have hf' := fingerprint_accepted value f hf
      refine ⟨hs, { hd with fps := ?_ }, rfl⟩
      intro y hy
      simp only [List.mem_append, List.mem_singleton] at hy
      rcases hy with hy | hy
      · exact hd.fps y hy
      · subst hy; exact hf'
    rcases ite_ok h with ⟨hc, h⟩ | ⟨hc, h⟩
    · cases h; exact ⟨hs, { hd with }, rfl⟩
    rcases ite_ok h with ⟨hc, h⟩ | ⟨hc, h⟩
    · cases h; exact ⟨hs, { hd with opts := hv }, rfl⟩
    rcases ite_ok h with ⟨hc, h⟩ | ⟨hc, h⟩
    · cases h; exact ⟨hs, { hd with pwd := hv }, rfl⟩
    rcases ite_ok h with ⟨hc, h⟩ | ⟨hc, h⟩
    · cases h; exact ⟨hs, { hd with ufrag := hv }, rfl⟩
    rcases ite_ok h with ⟨hc, h⟩ | ⟨hc, h⟩
    · simp only [ok_bind_eq, pure_ok] at h
      obtain ⟨g, hg, h⟩ := h; cases h
      exact ⟨{ hs with group := groupStr_accepted _ _ value hg hs.group }, hd, rfl⟩
    rcases ite_ok h with ⟨hc, h⟩ | ⟨hc, h⟩
    · simp only [ok_bind_eq, pure_ok] at h
      obtain ⟨g, hg, h⟩ := h; cases h
      exact ⟨{ hs with msid := groupStr_accepted _ _ value hg hs.msid }, hd, rfl⟩
    rcases ite_ok h with ⟨hc, h⟩ | ⟨hc, h⟩
    · simp only [ok_bind_eq, pure_ok] at h
      obtain ⟨r, hr, h⟩ := h; cases h
      have hr' := setup_accepted value r hr
      exact ⟨hs, { hd with role := (by intro x hx; cases hx; exact hr') }, rfl⟩
    · cases h; exact ⟨hs, hd, rfl⟩
  · cases h; exact ⟨hs, hd, rfl⟩

/-- Lines of `grouplines`: every line of every group is a line of the input. -/
theorem grouplinesAux_mem : ∀ (ls sess : List Str) (media : List (List Str)),
    (∀ l ∈ (grouplinesAux ls sess media).1, l ∈ ls ∨ l ∈ sess) ∧
    (∀ g ∈ (grouplinesAux ls sess media).2, ∀ l ∈ g, l ∈ ls ∨ ∃ g' ∈ media, l ∈ g') := by
  intro ls
  induction ls with
  | nil =>
    intro sess media
    simp only [grouplinesAux]
    refine ⟨fun l hl => Or.inr (List.mem_reverse.mp hl), ?_⟩
    intro g hg l hl
    simp only [List.mem_reverse, List.mem_map] at hg
    obtain ⟨g', hg', rfl⟩ := hg
    exact Or.inr ⟨g', hg', List.mem_reverse.mp hl⟩
  | cons x r ih =>
    intro sess media
    simp only [grouplinesAux]
    split
    · obtain ⟨i1, i2⟩ := ih sess ([x] :: media)
      refine ⟨fun l hl => (i1 l hl).imp (List.mem_cons_of_mem _) id, ?_⟩
      intro g hg l hl
      rcases i2 g hg l hl with h | ⟨g', hg', hl'⟩
      · exact Or.inl (List.mem_cons_of_mem _ h)
      · simp only [List.mem_cons] at hg'
        rcases hg' with rfl | hg'
        · simp only [List.mem_singleton] at hl'; subst hl'; exact Or.inl List.mem_cons_self
        · exact Or.inr ⟨g', hg', hl'⟩
    · split
      · rename_i cur rest
        obtain ⟨i1, i2⟩ := ih sess ((x :: cur) :: rest)
        refine ⟨fun l hl => (i1 l hl).imp (List.mem_cons_of_mem _) id, ?_⟩
        intro g hg l hl
        rcases i2 g hg l hl with h | ⟨g', hg', hl'⟩
        · exact Or.inl (List.mem_cons_of_mem _ h)
        · simp only [List.mem_cons] at hg'
          rcases hg' with rfl | hg'
          · simp only [List.mem_cons] at hl'
            rcases hl' with rfl | hl'
            · exact Or.inl List.mem_cons_self
            · exact Or.inr ⟨cur, List.mem_cons_self, hl'⟩
          · exact Or.inr ⟨g', List.mem_cons_of_mem _ hg', hl'⟩
      · obtain ⟨i1, i2⟩ := ih (x :: sess) []
        refine ⟨?_, ?_⟩
        · intro l hl
          rcases i1 l hl with h | h
          · exact Or.inl (List.mem_cons_of_mem _ h)
          · simp only [List.mem_cons] at h
            rcases h with rfl | h
            · exact Or.inl List.mem_cons_self
            · exact Or.inr h
        · intro g hg l hl
          rcases i2 g hg l hl with h | ⟨g', hg', _⟩
          · exact Or.inl (List.mem_cons_of_mem _ h)
          · cases hg'

/-- What `SessionDescription.parse` guarantees about its result. -/
structure ParsedSession (s : Session) : Prop where
  hdr : ParsedHdr s
  media : ∀ m ∈ s.media, ParsedMedia m ∧ DtlsRole m
  lite : ∃ b, ∀ m ∈ s.media, m.ice.iceLite = b

theorem foldO_sessionLine_inv : ∀ (ls : List Str) (s s' : Session) (d d' : Defaults), (∀ l ∈ ls, NoBreak l) →
    ParsedHdr s → DefaultsOk d → foldO sessionLine (s, d) ls = .ok (s', d') → ParsedHdr s' ∧ DefaultsOk d' := by
  intro ls s s' d d' hl hs hd h
  have := foldO_inv sessionLine (fun st => ParsedHdr st.1 ∧ DefaultsOk st.2) NoBreak
    (fun st st' a ha hst hf => by
      obtain ⟨s1, d1⟩ := st
      obtain ⟨s2, d2⟩ := st'
      obtain ⟨i1, i2, _⟩ := sessionLine_inv s1 s2 d1 d2 a ha hst.1 hst.2 hf
      exact ⟨i1, i2⟩)
    ls (s, d) (s', d') hl ⟨hs, hd⟩ h
  exact this

/-- **Parser output is canonical up to `normS`**: everything `parse` accepts yields a `ParsedSession`. -/
theorem parse_parsed (t : Str) (s : Session) (h : parse t = .ok s) : ParsedSession s := by
  unfold parse grouplines at h
  have hnb := splitlines_nb t
  obtain ⟨g1, g2⟩ := grouplinesAux_mem (splitlines t) [] []
  generalize grouplinesAux (splitlines t) [] [] = gl at h g1 g2
  obtain ⟨sessLines, groups⟩ := gl
  simp only [ok_bind_eq, pure_ok] at h
  obtain ⟨⟨s0, d⟩, h0, ms, hms, h⟩ := h
  cases h
  have hsl : ∀ l ∈ sessLines, NoBreak l := by
    intro l hl
    rcases g1 l hl with h' | h'
    · exact hnb l h'
    · cases h'
  have hgl : ∀ g ∈ groups, ∀ l ∈ g, NoBreak l := by
    intro g hg l hl
    rcases g2 g hg l hl with h' | ⟨_, h', _⟩
    · exact hnb l h'
    · cases h'
  obtain ⟨i1, i2⟩ := foldO_sessionLine_inv sessLines {} s0 {} d hsl parsedHdr_init defaultsOk_init h0
  have i3 := parseMedias_inv d i2 groups ms hgl hms
  exact { hdr := { i1 with }
          media := fun m hm => ⟨(i3 m hm).1, (i3 m hm).2.1⟩
          lite := ⟨d.iceLite, fun m hm => (i3 m hm).2.2⟩ }

end Aiortc.Lemmas.C09
