import Aiortc.Lemmas.C09.CanonWF
/-! C09 (whole-text idempotence), part 10: no line printed for a parsed value contains a line-break character
(so `splitlines` of the printed text gives back exactly the printed lines). -/
namespace Aiortc.Lemmas.C09
open Aiortc Aiortc.Model.Sdp

/-- Close `NoBreak (a ++ b ++ c :: d …)` goals from hypotheses about the parts. -/
macro "nbtac" : tactic => `(tactic|
  repeat (first
    | assumption
    | exact nb_nil
    | exact nb_showInt _
    | exact nb_showNat _
    | exact nb_lit_chars _ (by decide)
    | (rw [nb_append]; constructor)
    | (rw [nb_cons]; refine ⟨by decide, ?_⟩)))

theorem allLines_mem {α} (f : α → Outcome (List Str)) : ∀ (l : List α) (ls : List Str), allLines f l = .ok ls →
    ∀ x ∈ ls, ∃ a ∈ l, ∃ la, f a = .ok la ∧ x ∈ la := by
  intro l
  induction l with
  | nil => intro ls h x hx; simp only [allLines] at h; cases h; cases hx
  | cons a r ih =>
    intro ls h x hx
    simp only [allLines] at h
    split at h
    · rename_i la hla
      split at h
      · rename_i lr hlr
        cases h
        simp only [List.mem_append] at hx
        rcases hx with hx | hx
        · exact ⟨a, List.mem_cons_self, la, hla, hx⟩
        · obtain ⟨a', ha', la', h1, h2⟩ := ih lr hlr x hx
          exact ⟨a', List.mem_cons_of_mem _ ha', la', h1, h2⟩
      · rename_i e he; exact absurd h (he _)
    · rename_i e he; exact absurd h (he _)

theorem nb_ipaddressToSdp (h : Str) (hh : NoBreak h) : NoBreak (ipaddressToSdp h) := by
  unfold ipaddressToSdp
  nbtac

theorem nb_optLine (pre : Str) (o : Option Str) (hpre : NoBreak pre) (ho : OptNB o) : ∀ l ∈ optLine pre o, NoBreak l := by
  intro l hl
  cases o with
  | none => cases hl
  | some v =>
    simp only [optLine, List.mem_singleton] at hl
    subst hl
    have := ho v rfl
    nbtac

theorem optNB_truthy (o : Option Str) (h : OptNB o) : OptNB (truthy o) := by
  intro v hv
  cases o with
  | none => cases hv
  | some w =>
    simp only [truthy] at hv
    split at hv
    · cases hv
    · cases hv; exact h _ rfl

theorem optNB_showInt (o : Option Int) : OptNB (o.map showInt) := by
  intro v hv
  cases o with
  | none => cases hv
  | some i => cases hv; exact nb_showInt i

theorem nb_candidate (c : Candidate) (h : WFCand c) : NoBreak (candidateToSdp c) :=
  nb_unwords _ (fun t ht => nb_tok t (candToks_tok c h t ht))

theorem codecName_mem (c : Codec) (n : Str) (h : codecName c = .ok n) : n ∈ splitOn '/' c.mimeType := by
  unfold codecName at h
  split at h
  · rename_i a n' r he; cases h; rw [he]; simp
  · cases h

theorem ssrcNB_get (s : Ssrc) (hs : SsrcNB s) (a v : Str) (h : s.get a = some v) : NoBreak v := by
  obtain ⟨h1, h2, h3, h4⟩ := hs
  unfold Ssrc.get at h
  split at h
  · exact h1 v h
  split at h
  · exact h2 v h
  split at h
  · exact h3 v h
  split at h
  · exact h4 v h
  · cases h

theorem ssrcAttrs_nb : ∀ a ∈ ssrcInfoAttrs, a.all (fun c => !isLineBreak c) = true := by decide

theorem nb_ssrcValues (s : Ssrc) (hs : SsrcNB s) : ∀ l ∈ ssrcValues s, NoBreak l := by
  intro l hl
  simp only [ssrcValues, List.mem_filterMap] at hl
  obtain ⟨a, ha, hl⟩ := hl
  split at hl
  · rename_i v hv
    injection hl with hl; subst hl
    have h1 := ssrcNB_get s hs a v hv
    have h2 := nb_lit_chars a (ssrcAttrs_nb a ha)
    nbtac
  · cases hl

end Aiortc.Lemmas.C09
