import Aiortc.Lemmas.C09.PrintNB
/-! C09 (whole-text idempotence), part 11: every line of `MediaDescription.__str__` / `SessionDescription.__str__`
printed for a parsed value is free of line-break characters. -/
namespace Aiortc.Lemmas.C09
open Aiortc Aiortc.Model.Sdp

theorem nb_mime (kind : Str) (c : Codec) (hp : ParsedCodec kind c) (hk : NoBreak kind) : NoBreak c.mimeType := by
  obtain ⟨name, hm, _, hn⟩ := hp.mime
  rw [hm]; nbtac

theorem nb_fbValue (pt : Int) (f : Feedback) (hf : FbOk f) : NoBreak (fbValue pt f) := by
  obtain ⟨_, h1, h2⟩ := hf
  unfold fbValue
  cases hpar : f.parameter with
  | none => simp only; nbtac
  | some p =>
    have := h2 p hpar
    simp only
    split <;> nbtac

theorem nb_params (p : Params) (h : ∀ kv ∈ p, NoBreak (paramToStr kv)) : NoBreak (parametersToSdp p) := by
  unfold parametersToSdp
  refine nb_join _ (by nbtac) _ ?_
  intro t ht
  simp only [List.mem_map] at ht
  obtain ⟨kv, hkv, rfl⟩ := ht
  exact h kv hkv

theorem codecLines_nb (kind : Str) (c : Codec) (hp : ParsedCodec kind c) (hk : NoBreak kind) (ls : List Str)
    (h : codecLines c = .ok ls) : ∀ l ∈ ls, NoBreak l := by
  unfold codecLines at h
  split at h
  · rename_i cs hcs
    cases h
    have hcsnb : NoBreak cs := by
      unfold codecStr at hcs
      split at hcs
      · rename_i n hn
        cases hcs
        have hn' := nb_splitOn '/' c.mimeType (nb_mime kind c hp hk) n (codecName_mem c n hn)
        split <;> nbtac
      · rename_i e he; exact absurd hcs (he _)
    intro l hl
    simp only [List.mem_append, List.mem_singleton, List.mem_map] at hl
    rcases hl with (hl | ⟨f, hf, hl⟩) | hl
    · subst hl; nbtac
    · subst hl
      have := nb_fbValue c.payloadType f (hp.fb f hf)
      nbtac
    · split at hl
      · cases hl
      · simp only [List.mem_singleton] at hl
        subst hl
        have := nb_params c.parameters hp.params_nb
        nbtac
  · cases h
  · cases h
  · cases h

theorem setupTable_nb : ∀ p ∈ Gen.DTLS_ROLE_SETUP, p.2.toList.all (fun c => !isLineBreak c) = true := by decide

theorem nb_setupOfRole (r su : Str) (h : setupOfRole r = .ok su) : NoBreak su := by
  unfold setupOfRole lookupS at h
  cases hf : Gen.DTLS_ROLE_SETUP.find? (fun p => p.1.toList = r) with
  | none => simp [hf] at h
  | some p =>
    simp only [hf] at h
    cases h
    exact nb_lit_chars _ (setupTable_nb p (List.mem_of_find?_eq_some hf))

theorem dtlsLines_nb (d : Option Dtls) (hfp : ∀ x, d = some x → FpsOk x.fingerprints) (ls : List Str)
    (h : dtlsLines d = .ok ls) : ∀ l ∈ ls, NoBreak l := by
  cases d with
  | none => simp only [dtlsLines] at h; cases h; intro l hl; cases hl
  | some x =>
    simp only [dtlsLines] at h
    split at h
    · rename_i su hsu
      cases h
      have hsunb := nb_setupOfRole _ su hsu
      intro l hl
      simp only [List.mem_append, List.mem_singleton, List.mem_map] at hl
      rcases hl with ⟨f, hf, hl⟩ | hl
      · subst hl
        obtain ⟨t1, t2⟩ := hfp x rfl f hf
        have := nb_tok _ t1
        have := nb_tok _ t2
        unfold fingerprintValue
        nbtac
      · subst hl; nbtac
    · cases h
    · cases h
    · cases h

theorem hdrLine_nb (m : Media) (hp : ParsedMedia m) : NoBreak (hdrLine m) := by
  unfold hdrLine
  have h1 := hp.kind_nb
  have h2 : NoBreak m.profile := nb_profile m.profile (List.all_eq_true.mpr hp.hprofile.2)
  have h3 : NoBreak (unwords (fmtToks m.fmt)) :=
    nb_unwords _ (fun t ht => nb_tok t ((fmtToks_tok m hp.header).2 t ht))
  nbtac

theorem hostLine_nb (pre : Str) (o : Option Str) (hpre : NoBreak pre) (ho : OptNB o) :
    ∀ l ∈ hostLine pre o, NoBreak l := by
  intro l hl
  cases o with
  | none => cases hl
  | some v =>
    simp only [hostLine, List.mem_singleton] at hl
    subst hl
    have := nb_ipaddressToSdp v (ho v rfl)
    nbtac

theorem nb_groupToStr {α} (sh : α → Str) (g : Group α) (hs : NoBreak g.semantic) (hi : ∀ a ∈ g.items, NoBreak (sh a)) :
    NoBreak (groupToStr sh g) := by
  unfold groupToStr
  have : NoBreak (unwords (g.items.map sh)) := nb_unwords _ (by
    intro t ht; simp only [List.mem_map] at ht; obtain ⟨a, ha, rfl⟩ := ht; exact hi a ha)
  nbtac

theorem preLines_nb (m : Media) (hp : ParsedMedia m) : ∀ l ∈ preLines m, NoBreak l := by
  intro l hl
  simp only [preLines, List.mem_append] at hl
  rcases hl with ((((((hl | hl) | hl) | hl) | hl) | hl) | hl) | hl
  · exact hostLine_nb _ _ (by nbtac) (fun v hv => (hp.host v hv).2) l hl
  · refine nb_optLine _ _ (by nbtac) ?_ l hl
    intro v hv
    have : ∀ d ∈ directions, d.all (fun c => !isLineBreak c) = true := by decide
    exact nb_lit_chars v (this v (hp.direction v hv))
  · simp only [List.mem_map] at hl
    obtain ⟨h, hh, rfl⟩ := hl
    have := nb_tok _ (hp.ext h hh)
    unfold extmapValue
    nbtac
  · exact nb_optLine _ _ (by nbtac) (optNB_truthy _ hp.mid_nb) l hl
  · exact nb_optLine _ _ (by nbtac) (optNB_truthy _ hp.msid_nb) l hl
  · unfold rtcpLines at hl
    split at hl
    · cases hl
    · simp only [List.mem_append, List.mem_singleton] at hl
      rcases hl with hl | hl
      · subst hl
        cases hh : m.rtcpHost with
        | none => simp only; nbtac
        | some h =>
          have := nb_ipaddressToSdp h (hp.rtcp_host h hh).2
          simp only; nbtac
      · split at hl
        · simp only [List.mem_singleton] at hl; subst hl; nbtac
        · cases hl
  · simp only [List.mem_map] at hl
    obtain ⟨g, hg, rfl⟩ := hl
    have := nb_groupToStr showInt g (nb_tok _ (hp.ssrcGroup g hg)) (fun a _ => nb_showInt a)
    nbtac
  · simp only [List.mem_flatMap, List.mem_map] at hl
    obtain ⟨s, hs, v, hv, rfl⟩ := hl
    have := nb_ssrcValues s (hp.ssrc_nb s hs) v hv
    nbtac

theorem postLines_nb (m : Media) (hp : ParsedMedia m) : ∀ l ∈ postLines m, NoBreak l := by
  intro l hl
  simp only [postLines, List.mem_append] at hl
  rcases hl with ((((((hl | hl) | hl) | hl) | hl) | hl) | hl) | hl
  · simp only [List.mem_map] at hl
    obtain ⟨kv, hkv, rfl⟩ := hl
    have := hp.sctpmap_nb kv hkv
    nbtac
  · exact nb_optLine _ _ (by nbtac) (optNB_showInt _) l hl
  · exact nb_optLine _ _ (by nbtac) (optNB_showInt _) l hl
  · simp only [List.mem_map] at hl
    obtain ⟨c, hc, rfl⟩ := hl
    have := nb_candidate c (hp.cands c hc)
    nbtac
  · split at hl
    · simp only [List.mem_singleton] at hl; subst hl; nbtac
    · cases hl
  · exact nb_optLine _ _ (by nbtac) hp.ufrag_nb l hl
  · exact nb_optLine _ _ (by nbtac) hp.pwd_nb l hl
  · exact nb_optLine _ _ (by nbtac) hp.opts_nb l hl

theorem mediaLines_nb (m : Media) (hp : ParsedMedia m) (ls : List Str) (h : mediaLines m = .ok ls) :
    ∀ l ∈ ls, NoBreak l := by
  have h' := h
  simp only [mediaLines, ok_bind_eq] at h'
  obtain ⟨codecL, hcl, dl, hdl, _⟩ := h'
  rw [mediaLines_eq m codecL dl hcl hdl] at h
  cases h
  intro l hl
  simp only [List.mem_cons, List.mem_append] at hl
  rcases hl with hl | hl | hl | hl | hl
  · subst hl; exact hdrLine_nb m hp
  · exact preLines_nb m hp l hl
  · obtain ⟨c, hc, lc, h1, h2⟩ := allLines_mem codecLines _ _ hcl l hl
    exact codecLines_nb m.kind c (hp.codecs c hc) hp.kind_nb lc h1 l h2
  · exact postLines_nb m hp l hl
  · exact dtlsLines_nb m.dtls (fun x hx => (hp.dtls x hx).1) dl hdl l hl

theorem sessionHdr_nb (s : Session) (hp : ParsedHdr s) : ∀ l ∈ sessionHdr s, NoBreak l := by
  intro l hl
  simp only [sessionHdr, List.mem_append, List.mem_cons, List.not_mem_nil, or_false, List.mem_map] at hl
  rcases hl with (((((hl | hl | hl) | hl) | hl) | hl) | ⟨g, hg, rfl⟩) | ⟨g, hg, rfl⟩
  · subst hl; nbtac
  · subst hl
    cases ho : s.origin with
    | none => simp only [Option.getD_none]; nbtac
    | some o => have := (hp.origin o ho).2; simp only [Option.getD_some]; nbtac
  · subst hl; have := hp.name.2; nbtac
  · exact hostLine_nb _ _ (by nbtac) (fun v hv => (hp.host v hv).2) l hl
  · subst hl; have := hp.time.2; nbtac
  · split at hl
    · simp only [List.mem_singleton] at hl; subst hl; nbtac
    · cases hl
  · have := nb_groupToStr id g (nb_tok _ (hp.group g hg).1) (fun a ha => nb_tok _ ((hp.group g hg).2 a ha))
    nbtac
  · have := nb_groupToStr id g (nb_tok _ (hp.msid g hg).1) (fun a ha => nb_tok _ ((hp.msid g hg).2 a ha))
    nbtac

end Aiortc.Lemmas.C09
