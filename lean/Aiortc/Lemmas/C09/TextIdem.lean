import Aiortc.Lemmas.C09.PrintNB2
/-! C09 (whole-text idempotence), part 12: assembly.  `parse t = ok s`, `print s = ok t1`  ⟹
`parse t1 = ok (normS s)` and `print (normS s) = ok t1`. -/
namespace Aiortc.Lemmas.C09
open Aiortc Aiortc.Model.Sdp

/-- `session_roundtrip` with the printed lines made explicit. -/
theorem parseLines_printed (s : Session) (hw : WFSession s) (ml : List Str)
    (h : allLines mediaLines s.media = .ok ml) : parseLines (sessionHdr s ++ ml) = .ok s := by
  obtain ⟨blocks, h1, h2, h3⟩ := medias_form s.media _ hw.media hw.lite
  rw [h] at h1
  injection h1 with h1
  subst h1
  simp only [parseLines]
  rw [grouplines_sess _ _ _ (notM_hdr s), grouplines_blocks _ _ _ h3]
  simp only [List.append_nil, List.reverse_reverse, List.map_nil, List.reverse_nil, List.nil_append]
  rw [session_hdr s hw]
  simp only [ok_bind, h2]
  simp

theorem sessionToStr_lines (s : Session) (t : Str) (h : sessionToStr s = .ok t) :
    ∃ ml, allLines mediaLines s.media = .ok ml ∧ t = unlines (sessionHdr s ++ ml) := by
  have h' := h
  simp only [sessionToStr, ok_bind_eq] at h'
  obtain ⟨ml, hml, _⟩ := h'
  refine ⟨ml, hml, ?_⟩
  rw [sessionToStr_eq s ml hml] at h
  injection h with h
  exact h.symm

/-- Printing a parsed value and parsing the text back gives the normal form of the value, which prints to the
same text. -/
theorem canon_fixed_point (s : Session) (t1 : Str) (hp : ParsedSession s)
    (h : sessionToStr s = .ok t1) : parse t1 = .ok (normS s) ∧ sessionToStr (normS s) = .ok t1 := by
  obtain ⟨ml, hml, rfl⟩ := sessionToStr_lines s t1 h
  have hw := wfSession_norm s hp
  have hml' : allLines mediaLines (normS s).media = .ok ml := by
    have : (normS s).media = s.media.map normM := rfl
    rw [this, allMedia_norm]; exact hml
  have hnb : ∀ l ∈ sessionHdr s ++ ml, NoBreak l := by
    intro l hl
    simp only [List.mem_append] at hl
    rcases hl with hl | hl
    · exact sessionHdr_nb s hp.hdr l hl
    · obtain ⟨m, hm, lm, h1, h2⟩ := allLines_mem mediaLines _ _ hml l hl
      exact mediaLines_nb m (hp.media m hm).1 lm h1 l h2
  refine ⟨?_, by rw [sessionToStr_normS]; exact h⟩
  rw [parse_eq, splitlines_unlines _ hnb, ← sessionHdr_normS s]
  exact parseLines_printed (normS s) hw ml hml'

theorem roundTrip_ok (t t1 : Str) (h : roundTrip t = .ok t1) : ∃ s, parse t = .ok s ∧ sessionToStr s = .ok t1 := by
  simp only [roundTrip, ok_bind_eq] at h
  exact h

/-- **Whole-text idempotence**: for ANY text the parser accepts and whose parse result can be serialised,
the serialised text is accepted again and is a fixed point of parse-then-serialise. -/
theorem text_idempotent (t t1 : Str) (h : roundTrip t = .ok t1) : roundTrip t1 = .ok t1 := by
  obtain ⟨s, hs, hpr⟩ := roundTrip_ok t t1 h
  obtain ⟨h1, h2⟩ := canon_fixed_point s t1 (parse_parsed t s hs) hpr
  simp only [roundTrip, h1, ok_bind, h2]

end Aiortc.Lemmas.C09
