import Aiortc.Lemmas.Router
/-! Helper lemmas for the "no capacity limit" theorems of Props/C12.lean (section 5). -/
namespace Aiortc.Model.Router

/-- a key with a value is a key -/
theorem mem_dkeys_of_dget {k v : Nat} {d : List (Nat × Nat)} (h : dget k d = some v) : k ∈ dkeys d := by
  by_cases hk : k ∈ dkeys d
  · exact hk
  · rw [dget_none_of_not_key hk] at h; cases h

/-- pigeonhole: a duplicate-free list contained in `l` is not longer than `l` -/
theorem length_le_of_nodup_subset : ∀ {xs l : List Nat}, xs.Nodup → xs ⊆ l → xs.length ≤ l.length
  | [], _, _, _ => Nat.zero_le _
  | x :: xs, l, hn, hs => by
    have hxl : x ∈ l := hs (by simp)
    have hn' := List.nodup_cons.1 hn
    have hsub : xs ⊆ l.erase x := fun y hy =>
      (List.mem_erase_of_ne (fun (e : y = x) => hn'.1 (by rw [← e]; exact hy))).2 (hs (by simp [hy]))
    have := length_le_of_nodup_subset hn'.2 hsub
    rw [List.length_erase_of_mem hxl] at this
    have hpos : 0 < l.length := List.length_pos_of_mem hxl
    simp only [List.length_cons]; omega

end Aiortc.Model.Router
