import Aiortc.Lemmas.C13.SctpFrame
/-!
# `bufferedAmount` = bytes accepted by `send()` and not yet handed to `_send`

`qsum q i` is the number of user-data bytes queued for channel object `i` in `_data_channel_queue`
(DCEP control messages are not counted: they never touch `bufferedAmount`).  `BufInv`: every channel
that is not closed has `buffered = qsum dcQueue i`, and the queue only mentions existing channels.
-/
set_option linter.unusedSimpArgs false
set_option linter.unusedVariables false
namespace Aiortc.Sctp
open Aiortc.Gen Aiortc.Sctp.Wire

def qsum : List (Nat × Nat × Bytes) → Nat → Int
  | [], _ => 0
  | (j, ppid, d) :: r, i => (if j = i ∧ ppid ≠ WEBRTC_DCEP then (d.length : Int) else 0) + qsum r i

theorem qsum_nonneg (q : List (Nat × Nat × Bytes)) (i : Nat) : 0 ≤ qsum q i := by
  induction q with
  | nil => simp [qsum]
  | cons a t ih =>
    obtain ⟨j, ppid, d⟩ := a
    simp only [qsum]
    split <;> omega

theorem qsum_append (a b : List (Nat × Nat × Bytes)) (i : Nat) : qsum (a ++ b) i = qsum a i + qsum b i := by
  induction a with
  | nil => simp [qsum]
  | cons x t ih =>
    obtain ⟨j, ppid, d⟩ := x
    simp only [List.cons_append, qsum, ih]
    omega

theorem qsum_eq_zero_of_absent (q : List (Nat × Nat × Bytes)) (i : Nat) (h : ∀ x ∈ q, x.1 ≠ i) :
    qsum q i = 0 := by
  induction q with
  | nil => simp [qsum]
  | cons a t ih =>
    obtain ⟨j, ppid, d⟩ := a
    have hj : j ≠ i := h (j, ppid, d) (by simp)
    simp only [qsum, hj, false_and, if_false]
    rw [ih (fun x hx => h x (by simp [hx]))]
    rfl

theorem qsum_filter_ne (q : List (Nat × Nat × Bytes)) (i j : Nat) (h : j ≠ i) :
    qsum (q.filter fun x => x.1 != i) j = qsum q j := by
  induction q with
  | nil => simp [qsum]
  | cons a t ih =>
    obtain ⟨k, ppid, d⟩ := a
    by_cases hk : k = i
    · subst hk
      have hkj : ¬ (k = j) := fun h' => h h'.symm
      simp [List.filter_cons, qsum, ih, hkj]
    · simp [List.filter_cons, qsum, ih, hk]

def BufInv (e : Ep) : Prop :=
  (∀ x ∈ e.dcQueue, x.1 < e.chans.length) ∧
  (∀ (i : Nat) c, e.chans[i]? = some c → c.ready ≠ 3 → c.buffered = qsum e.dcQueue i)

/-- never negative -/
theorem BufInv.nonneg {e : Ep} (h : BufInv e) {i : Nat} {c : Chan} (hc : e.chans[i]? = some c)
    (h3 : c.ready ≠ 3) : 0 ≤ c.buffered := by
  rw [h.2 i c hc h3]; exact qsum_nonneg _ _

/-- zero once the queue holds nothing for the channel -/
theorem BufInv.drained {e : Ep} (h : BufInv e) {i : Nat} {c : Chan} (hc : e.chans[i]? = some c)
    (h3 : c.ready ≠ 3) (hq : ∀ x ∈ e.dcQueue, x.1 ≠ i) : c.buffered = 0 := by
  rw [h.2 i c hc h3]; exact qsum_eq_zero_of_absent _ _ hq

def bufSpec : Spec :=
  { I := BufInv, R := fun _ _ => True, okOnly := True, refl := fun _ => trivial, trans := fun _ _ _ _ _ => trivial }

instance : Framed bufSpec where
  frame := by
    intro s s' ⟨h1, h2, _, _, _, _, _⟩ hI
    refine ⟨⟨?_, ?_⟩, trivial⟩
    · rw [h1, h2]; exact hI.1
    · rw [h1, h2]; exact hI.2

end Aiortc.Sctp
