import Aiortc.Lemmas.C13.SctpBufSteps
import Aiortc.Lemmas.C13.SctpClose
/-!
# `bufferedAmount` stays exact along every step that does not raise (`Pres bufSpec (handle inp)`)
-/
set_option linter.unusedSimpArgs false
set_option linter.unusedVariables false
namespace Aiortc.Sctp
open Aiortc.Gen Aiortc.Sctp.Wire

macro "pleaf" : tactic => `(tactic| first | with_reducible pres_leaf | fail "no leaf")

/-- goal `bufSpec.I e' ∧ bufSpec.R s s'` where `e'` has the channel objects and queue of `s` -/
macro "buf_keep" hI:term : tactic =>
  `(tactic| exact ⟨bufInv_queue $hI rfl ($hI).1 (fun _ => rfl), trivial⟩)

theorem WP.buf_keep_then {α : Type} {s : St} (hI : BufInv s.1) {E1 : Ep} {l1 : List Out}
    (hch : E1.chans = s.1.chans) (hq : E1.dcQueue = s.1.dcQueue) {x : M α} {Q}
    (k : BufInv E1 → WP x Q (E1, l1)) : WP x Q (E1, l1) :=
  k (bufInv_queue hI hch (by rw [hq]; exact hI.1) (fun _ => by rw [hq]))

/-- continue compositionally after a prefix that kept channel objects and queue -/
macro "buf_rest" hI:term : tactic =>
  `(tactic| (refine WP.buf_keep_then $hI ?_ ?_ ?_
             · rfl
             · rfl
             · intro hI1; exact WP.pres_after (S := bufSpec) (by pres) hI1 trivial))

theorem buf_modE_same (f : Ep → Ep) (h1 : ∀ e, (f e).chans = e.chans) (h2 : ∀ e, (f e).dcQueue = e.dcQueue) :
    Pres bufSpec (modE f) := by
  apply Pres.intro; intro s hI
  wp_head
  intro _
  exact ⟨bufInv_queue hI (h1 _) (by rw [h2]; exact hI.1) (fun _ => by rw [h2]), trivial⟩
macro_rules | `(tactic| pres_leaf) => `(tactic| exact buf_modE_same _ (fun _ => rfl) (fun _ => rfl))

theorem pres_chanGet' {S : Spec} (i : Nat) : Pres S (chanGet i) := by
  apply Pres.intro; intro s hI
  rw [WP_chanGet]
  cases s.1.chans[i]? <;> exact fun _ => ⟨hI, S.refl s⟩
macro_rules | `(tactic| pres_leaf) => `(tactic| exact pres_chanGet' _)

/-- `_setReadyState`: closing a channel, or moving a channel that is not closed, keeps the accounting -/
theorem wp_setReady_buf {s : St} (hI : BufInv s.1) (i st : Nat)
    (h : st = 3 ∨ ∀ c, s.1.chans[i]? = some c → c.ready ≠ 3) :
    WP (setReady i st) (fun r s' => IsOk r → BufInv s'.1) s := by
  unfold setReady
  wp_simp
  cases hc : s.1.chans[i]? with
  | none => simp only; exact fun h => h.elim
  | some c =>
    simp only
    have key : BufInv { s.1 with chans := s.1.chans.set i { c with ready := st } } := by
      refine bufInv_set hI hc rfl hI.1 (fun _ _ => rfl) ?_
      intro h3
      rcases h with h | h
      · exact absurd h h3
      · exact ⟨h c hc, rfl⟩
    split
    · wp_simp
      split
      · split
        · wp_simp; exact WP.after_buf (buf_react 0 i) key
        · split
          · wp_simp; exact WP.after_buf (buf_react 1 i) key
          · wp_simp; exact fun _ => key
      · wp_simp; exact fun _ => key
    · wp_simp; exact fun _ => hI

theorem buf_setReady3 (i : Nat) : Pres bufSpec (setReady i 3) := by
  apply Pres.intro; intro s hI
  exact WP.mono (wp_setReady_buf hI i 3 (Or.inl rfl)) (fun _ _ h hk => ⟨h (hk trivial), trivial⟩)
macro_rules | `(tactic| pres_leaf) => `(tactic| exact buf_setReady3 _)

theorem buf_dcClosed (sid : Nat) : Pres bufSpec (dcClosed sid) := by
  unfold dcClosed; pres
macro_rules | `(tactic| pres_leaf) => `(tactic| exact buf_dcClosed _)

theorem buf_dcClose (i : Nat) : Pres bufSpec (dcClose i) := by
  apply Pres.intro; intro s hI
  unfold dcClose
  wp_head
  cases hc : s.1.chans[i]? with
  | none => simp only; exact fun h => (h trivial).elim
  | some c =>
    simp only
    split
    · rename_i hg
      have hpre : ∀ c', s.1.chans[i]? = some c' → c'.ready ≠ 3 := by
        intro c' hc'
        rw [hc] at hc'; cases hc'
        simp at hg
        omega
      apply WP.bind_of (wp_setReady_buf hI i 2 (Or.inr hpre))
      intro r s1 hI1'
      cases r with
      | error k => exact fun h => (h trivial).elim
      | ok u =>
        have hI1 := hI1' trivial
        simp only
        wp_head
        split
        · wp_head
          split
          · wp_head; intro _; buf_keep hI1
          · wp_head; intro _; buf_keep hI1
        · wp_head
          have hX : ∀ (e' : Ep), e'.chans = s1.1.chans → e'.dcQueue = (s1.1.dcQueue.filter fun q => q.1 != i) →
              ∀ l', WP (setReady i 3) (fun r s' => (bufSpec.okOnly → IsOk r) → bufSpec.I s'.1 ∧ bufSpec.R s s') (e', l') := by
            intro e' h1 h2 l'
            have : BufInvX i e' := by
              refine ⟨?_, ?_⟩
              · intro x hx; rw [h2] at hx; rw [h1]; exact hI1.1 x (List.mem_filter.1 hx).1
              · intro j x hj hx hx3
                rw [h2, qsum_filter_ne _ _ _ hj]
                rw [h1] at hx
                exact hI1.2 j x hx hx3
            exact WP.mono (wp_setReady3_X (s := (e', l')) this) (fun _ _ h hk => ⟨h (hk trivial), trivial⟩)
          split
          · split
            · wp_head; exact fun h => (h trivial).elim
            · (try wp_head); refine hX _ ?_ ?_ _ <;> rfl
          · (try wp_head); refine hX _ ?_ ?_ _ <;> rfl
    · wp_head; exact fun _ => ⟨hI, trivial⟩
macro_rules | `(tactic| pres_leaf) => `(tactic| exact buf_dcClose _)

theorem buf_setState (st : AState) : Pres bufSpec (setState st) := by
  unfold setState
  refine pres_bind ?_ (fun _ => ?_); pleaf
  split
  · refine pres_bind ?_ (fun _ => ?_); pleaf
    apply pres_bind pres_getE; intro e
    refine pres_bind ?_ (fun _ => ?_)
    rotate_left
    · pres
    apply pres_forIn; intro a b
    apply Pres.intro; intro s hI
    split
    wp_head
    rename_i i
    cases hc : s.1.chans[i]? with
    | none => simp only; exact fun h => (h trivial).elim
    | some c =>
      simp only
      split
      · rename_i hg
        have hpre : ∀ c', s.1.chans[i]? = some c' → c'.ready ≠ 3 := by
          intro c' hc'
          rw [hc] at hc'; cases hc'
          simp at hg
          omega
        apply WP.bind_of (wp_setReady_buf hI i 1 (Or.inr hpre))
        intro r s1 h1
        cases r with
        | error k => exact fun h => (h trivial).elim
        | ok u => simp only; wp_head; exact fun _ => ⟨h1 trivial, trivial⟩
      · wp_head; exact fun _ => ⟨hI, trivial⟩
  · split
    · -- CLOSED
      refine pres_bind ?_ (fun _ => ?_); pleaf
      refine pres_bind ?_ (fun _ => ?_); pleaf
      refine pres_bind ?_ (fun _ => ?_); pleaf
      refine pres_bind ?_ (fun _ => ?_); pleaf
      refine pres_bind ?_ (fun _ => ?_); pleaf
      apply pres_bind pres_getE; intro e
      refine pres_bind ?_ (fun _ => ?_)
      · pres
      apply Pres.intro; intro s hI
      wp_head
      refine WP.bind_of (closeLoop (fun x : Nat × Nat × Bytes => x.1) _ (fun x b => rfl) _ s) ?_
      intro r s6 ⟨k1, k2, k3, k4⟩
      cases r with
      | error k => exact fun h => (h trivial).elim
      | ok u =>
        simp only
        wp_head
        intro _
        refine ⟨⟨(by intro x hx; cases hx), ?_⟩, trivial⟩
        intro j c' hc' h3
        have hlt : j < s.1.chans.length := by
          rw [← k3.1]; exact (List.getElem?_eq_some_iff.1 hc').1
        obtain ⟨c'', hc'', hr, hb⟩ := k3.2 j _ (List.getElem?_eq_getElem hlt)
        simp only at hc'
        rw [hc''] at hc'; cases hc'
        have hr' : c'.ready = (s.1.chans[j]).ready := by
          rcases hr with h | h
          · exact h
          · exact absurd h h3
        have hq0 : qsum s.1.dcQueue j = 0 := by
          apply qsum_eq_zero_of_absent
          intro x hx hxj
          obtain ⟨c2, hc2, h32⟩ := k4 trivial x hx
          simp only at hc2
          rw [hxj, hc''] at hc2; cases hc2
          exact h3 h32
        have := hI.2 j _ (List.getElem?_eq_getElem hlt) (by rw [← hr']; exact h3)
        simp only [qsum]
        rw [hb, this, hq0]
    · pres
macro_rules | `(tactic| pres_leaf) => `(tactic| exact buf_setState _)

theorem qsum_dcep_zero (q2 : List (Nat × Nat × Bytes)) (h : ∀ x ∈ q2, x.2.1 = WEBRTC_DCEP) (j : Nat) :
    qsum q2 j = 0 := by
  induction q2 with
  | nil => rfl
  | cons a t ih =>
    obtain ⟨k, ppid, d⟩ := a
    have := h (k, ppid, d) (by simp)
    simp only at this
    simp only [qsum, this, ne_eq, not_true_eq_false, and_false, if_false]
    rw [ih (fun x hx => h x (by simp [hx]))]; rfl

theorem bufInv_push {e : Ep} (h : BufInv e) {e' : Ep} {c' : Chan} {q2 : List (Nat × Nat × Bytes)}
    (hch : e'.chans = e.chans ++ [c']) (hq : e'.dcQueue = e.dcQueue ++ q2)
    (hq2 : ∀ x ∈ q2, x.1 = e.chans.length ∧ x.2.1 = WEBRTC_DCEP) (hb : c'.buffered = 0) : BufInv e' := by
  have hz : ∀ j, qsum q2 j = 0 := fun j => qsum_dcep_zero q2 (fun x hx => (hq2 x hx).2) j
  refine ⟨?_, ?_⟩
  · intro x hx
    rw [hq] at hx; rw [hch]
    simp only [List.length_append, List.length_singleton]
    rcases List.mem_append.1 hx with h' | h'
    · have := h.1 x h'; omega
    · have := (hq2 x h').1; omega
  · intro j x hx h3
    rw [hq, qsum_append, hz]
    rw [hch] at hx
    by_cases hlt : j < e.chans.length
    · rw [List.getElem?_append_left hlt] at hx
      have := h.2 j x hx h3; omega
    · rw [List.getElem?_append_right (by omega)] at hx
      have hj : j - e.chans.length = 0 := by
        cases hj : j - e.chans.length with
        | zero => rfl
        | succ m => rw [hj] at hx; simp at hx
      rw [hj] at hx; simp at hx
      have hje : j = e.chans.length := by omega
      rw [← hx, hb, qsum_eq_zero_of_absent _ _ (fun y hy => by have := h.1 y hy; omega)]
      rfl

theorem buf_dcReceive (sid ppid : Nat) (data : Bytes) : Pres bufSpec (dcReceive sid ppid data) := by
  apply Pres.intro; intro s hI
  unfold dcReceive
  wp_head
  split
  · split
    · split
      · wp_head; exact fun _ => ⟨hI, trivial⟩
      · split
        · wp_head; exact fun _ => ⟨hI, trivial⟩
        · wp_head
          refine WP.call_bind (s := (_, _)) buf_flush ?_ ?_
          · exact bufInv_push hI (q2 := [(s.1.chans.length, WEBRTC_DCEP, [DATA_CHANNEL_ACK])])
              rfl rfl (by simp) rfl
          intro r s2 h2
          cases r with
          | error k => exact fun h => (h trivial).elim
          | ok u =>
            obtain ⟨hI2, _⟩ := h2 (fun _ => trivial)
            simp only
            wp_head
            split
            · wp_head
              cases hc2 : s2.1.chans[s.1.chans.length]? with
              | none => simp only; exact fun h => (h trivial).elim
              | some c2 =>
                (try simp only)
                (try wp_head)
                refine WP.pres_after (S := bufSpec) (s1 := (_, _)) (buf_react 4 _) ?_ trivial
                exact bufInv_set hI2 hc2 rfl hI2.1 (fun _ _ => rfl) (fun h3 => ⟨h3, rfl⟩)
            · wp_head; exact fun _ => ⟨hI2, trivial⟩
    · split
      · split
        · wp_head; exact fun _ => ⟨hI, trivial⟩
        · rename_i i hi
          wp_head
          cases hc : s.1.chans[i]? with
          | none => simp only; exact fun h => (h trivial).elim
          | some c =>
            simp only
            split
            · rename_i h0
              refine WP.mono (wp_setReady_buf hI i 1 (Or.inr ?_)) (fun _ _ h hk => ⟨h (hk trivial), trivial⟩)
              intro c' hc'; rw [hc] at hc'; cases hc'; omega
            · wp_head; exact fun _ => ⟨hI, trivial⟩
      · wp_head; exact fun _ => ⟨hI, trivial⟩
  · split
    · wp_head; exact fun _ => ⟨hI, trivial⟩
    · rename_i i hi
      wp_head
      cases hc : s.1.chans[i]? with
      | none => simp only; exact fun h => (h trivial).elim
      | some c =>
        simp only
        repeat' split
        all_goals (try wp_head)
        all_goals first
          | exact fun _ => ⟨hI, trivial⟩
          | (intro _; buf_keep hI)
          | (refine WP.pres_after (S := bufSpec) (s1 := (_, _)) (buf_react 3 _) ?_ trivial
             exact bufInv_queue hI rfl hI.1 (fun _ => rfl))
macro_rules | `(tactic| pres_leaf) => `(tactic| exact buf_dcReceive _ _ _)

end Aiortc.Sctp
