import Aiortc.Lemmas.C13.SctpBufAll
/-!
# `bufferedAmount` stays exact: the receive path, `createChannel`, `runTask`, `handle`, `step`, runs
-/
set_option linter.unusedSimpArgs false
set_option linter.unusedVariables false
namespace Aiortc.Sctp
open Aiortc.Gen Aiortc.Sctp.Wire

macro_rules | `(tactic| pres_leaf) => `(tactic| exact buf_flush)

theorem buf_deliver (msgs : List Msg) : Pres bufSpec (deliver msgs) := by
  unfold deliver; pres
macro_rules | `(tactic| pres_leaf) => `(tactic| exact buf_deliver _)

theorem buf_receiveData (c : RChunk) : Pres bufSpec (receiveData c) := by
  apply Pres.intro; intro s hI
  unfold receiveData
  wp_head
  split
  · wp_head
    split
    · wp_head; intro _; buf_keep hI
    · buf_rest hI
  · wp_head; exact fun h => (h trivial).elim
macro_rules | `(tactic| pres_leaf) => `(tactic| exact buf_receiveData _)

theorem buf_receiveForwardTsn (cum : Int) (streams : List (Nat × Nat)) :
    Pres bufSpec (receiveForwardTsn cum streams) := by
  apply Pres.intro; intro s hI
  unfold receiveForwardTsn
  wp_head
  split
  · wp_head
    split
    · wp_head; intro _; buf_keep hI
    · wp_head; buf_rest hI
  · wp_head; exact fun h => (h trivial).elim
macro_rules | `(tactic| pres_leaf) => `(tactic| exact buf_receiveForwardTsn _ _)

theorem buf_receiveReconfigParam (p : RcParam) : Pres bufSpec (receiveReconfigParam p) := by
  unfold receiveReconfigParam; pres
macro_rules | `(tactic| pres_leaf) => `(tactic| exact buf_receiveReconfigParam _)

theorem buf_receiveSack (cum : Nat) (gaps : List (Nat × Nat)) : Pres bufSpec (receiveSack cum gaps) := by
  apply Pres.intro; intro s hI
  unfold receiveSack
  wp_head
  split
  · wp_head; intro _; buf_keep hI
  · split <;> (try wp_head) <;> split <;> (try wp_head) <;> (try split) <;> (try wp_head)
    all_goals first | (intro _; buf_keep hI) | buf_rest hI | exact fun h => (h trivial).elim
macro_rules | `(tactic| pres_leaf) => `(tactic| exact buf_receiveSack _ _)

theorem buf_receiveChunk (cookie : Bytes) (c : Chunk) : Pres bufSpec (receiveChunk cookie c) := by
  unfold receiveChunk; pres
macro_rules | `(tactic| pres_leaf) => `(tactic| exact buf_receiveChunk _ _)

theorem buf_handleData (data cookie : Bytes) : Pres bufSpec (handleData data cookie) := by
  unfold handleData; pres
macro_rules | `(tactic| pres_leaf) => `(tactic| exact buf_handleData _ _)

theorem buf_createChannel (p : CreateParams) : Pres bufSpec (createChannel p) := by
  apply Pres.intro; intro s hI
  unfold createChannel
  repeat' (first
    | (intro _; buf_keep hI)
    | exact fun _ => ⟨bufInv_push hI (q2 := [_]) rfl rfl (by simp) rfl, trivial⟩
    | exact fun _ => ⟨bufInv_push hI (q2 := []) rfl (by simp) (by simp) rfl, trivial⟩
    | wp_head
    | split)
macro_rules | `(tactic| pres_leaf) => `(tactic| exact buf_createChannel _)

theorem buf_runTask : Pres bufSpec runTask := by
  apply Pres.intro; intro s hI
  unfold runTask
  wp_head
  split
  · wp_head; intro _; buf_keep hI
  · wp_head; buf_rest hI
macro_rules | `(tactic| pres_leaf) => `(tactic| exact buf_runTask)

theorem buf_handle (inp : Input) : Pres bufSpec (handle inp) := by
  cases inp with
  | send i isStr data => exact buf_send i isStr data
  | start rp =>
    apply Pres.intro; intro s hI
    simp only [handle]
    wp_head
    split
    · wp_head; buf_rest hI
    · wp_head; intro _; buf_keep hI
  | threshold i v =>
    apply Pres.intro; intro s hI
    simp only [handle]
    split
    · wp_head; intro _; buf_keep hI
    · wp_head
      cases hc : s.1.chans[i]? with
      | none => simp only; exact fun h => (h trivial).elim
      | some c =>
        simp only
        intro _
        exact ⟨bufInv_set hI hc rfl hI.1 (fun _ _ => rfl) (fun h3 => ⟨h3, rfl⟩), trivial⟩
  | fire t =>
    unfold handle
    split
    all_goals try (solve | pres)
    all_goals (first | (rename_i h; cases h) | skip)
    apply Pres.intro; intro s hI
    wp_head; intro _; buf_keep hI
  | _ => simp only [handle]; pres

/-- no exception escaped a handler -/
def NoCrash (outs : List Out) : Prop := ∀ k, Out.crash k ∉ outs

theorem step_buffered (e : Ep) (now : Int) (inp : Input) (hI : BufInv e)
    (hok : NoCrash (step e now inp).2) : BufInv (step e now inp).1 := by
  have h0 : BufInv { e with now := now } := hI
  have h1 := (buf_handle inp).out ({ e with now := now }, []) h0
  rw [WP.def] at h1
  unfold step at hok ⊢
  simp only at hok ⊢
  unfold run at h1
  cases hr : (handle inp).run.run ({ e with now := now }, []) with
  | mk r s' =>
    rw [hr] at h1 hok
    obtain ⟨e', outs⟩ := s'
    cases r with
    | ok u => exact (h1 (fun _ => trivial)).1
    | error k => exact absurd (by simp) (hok k)

end Aiortc.Sctp
