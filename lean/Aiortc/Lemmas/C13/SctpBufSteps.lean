import Aiortc.Lemmas.C13.SctpBuf
/-!
# `bufferedAmount` bookkeeping of `send()` and `_data_channel_flush`
-/
set_option linter.unusedSimpArgs false
set_option linter.unusedVariables false
namespace Aiortc.Sctp
open Aiortc.Gen Aiortc.Sctp.Wire

/-- `_addBufferedAmount(amount)` up to the application's handler, exactly: the amount is added, and `bufferedamountlow`
is emitted (result `true`) iff the amount goes from above the threshold to at most the threshold (and somebody can listen) -/
theorem wp_addBufferedCore (i : Nat) (amount : Int) (s : St) (c : Chan) (hc : s.1.chans[i]? = some c) {Q}
    (h : Q (.ok (decide ((c.buffered > c.threshold ∧ c.buffered + amount ≤ c.threshold) ∧ c.silent = false ∧ c.ready ≠ 3)))
      ({ s.1 with chans := s.1.chans.set i { c with buffered := c.buffered + amount } },
        s.2 ++ (if (c.buffered > c.threshold ∧ c.buffered + amount ≤ c.threshold) ∧ c.silent = false ∧ c.ready ≠ 3
                then [Out.evLow i] else []))) :
    WP (addBufferedCore i amount) Q s := by
  unfold addBufferedCore
  wp_simp
  rw [hc]
  simp only
  split
  · rename_i hg
    wp_simp
    have : ((c.buffered > c.threshold ∧ c.buffered + amount ≤ c.threshold) ∧ c.silent = false ∧ c.ready ≠ 3) := by
      simp at hg; simp [hg]
    simpa [this] using h
  · rename_i hg
    wp_simp
    have : ¬ ((c.buffered > c.threshold ∧ c.buffered + amount ≤ c.threshold) ∧ c.silent = false ∧ c.ready ≠ 3) := by
      simp at hg ⊢; intro a b d; have := hg a b d; simp_all
    simpa [this] using h

theorem bufInv_set {e : Ep} (h : BufInv e) {i : Nat} {c c' : Chan} (hc : e.chans[i]? = some c)
    {e' : Ep} (hch : e'.chans = e.chans.set i c')
    (hidx : ∀ x ∈ e'.dcQueue, x.1 < e.chans.length)
    (hoth : ∀ j, j ≠ i → qsum e'.dcQueue j = qsum e.dcQueue j)
    (hself : c'.ready ≠ 3 → c.ready ≠ 3 ∧ c'.buffered - qsum e'.dcQueue i = c.buffered - qsum e.dcQueue i) :
    BufInv e' := by
  have hlt : i < e.chans.length := (List.getElem?_eq_some_iff.1 hc).1
  refine ⟨?_, ?_⟩
  · intro x hx; rw [hch, List.length_set]; exact hidx x hx
  · intro j x hx h3
    rw [hch] at hx
    by_cases hj : i = j
    · subst hj
      rw [List.getElem?_set_self hlt] at hx
      cases hx
      obtain ⟨h3', he⟩ := hself h3
      have := h.2 i c hc h3'
      omega
    · rw [List.getElem?_set_ne hj] at hx
      rw [hoth j (Ne.symm hj)]
      exact h.2 j x hx h3

/-- the same when no channel object changes -/
theorem bufInv_queue {e : Ep} (h : BufInv e) {e' : Ep} (hch : e'.chans = e.chans)
    (hidx : ∀ x ∈ e'.dcQueue, x.1 < e.chans.length)
    (hq : ∀ j, qsum e'.dcQueue j = qsum e.dcQueue j) : BufInv e' := by
  refine ⟨?_, ?_⟩
  · intro x hx; rw [hch]; exact hidx x hx
  · intro j x hx h3
    rw [hch] at hx
    rw [hq j]; exact h.2 j x hx h3

theorem userData_ppid (isStr : Bool) (data : Bytes) : (userData isStr data).1 ≠ WEBRTC_DCEP := by
  unfold userData; split <;> split <;> simp [WEBRTC_DCEP, WEBRTC_STRING, WEBRTC_BINARY, WEBRTC_STRING_EMPTY, WEBRTC_BINARY_EMPTY]

/-- `_data_channel_send`: the bytes are added to `bufferedAmount` and queued -/
theorem buf_dcSend (i : Nat) (isStr : Bool) (data : Bytes) : Pres bufSpec (dcSend i isStr data) := by
  apply Pres.intro; intro s hI
  unfold dcSend addBuffered0
  cases hc : s.1.chans[i]? with
  | none =>
    unfold addBufferedCore
    wp_head
    rw [hc]
    exact fun h => (h trivial).elim
  | some c =>
    have hlt : i < s.1.chans.length := (List.getElem?_eq_some_iff.1 hc).1
    simp only [WPh_assoc]
    apply WP.bind_of (P := fun r s' => (∃ b, r = .ok b) ∧ s' = _) (wp_addBufferedCore i _ s c hc ⟨⟨_, rfl⟩, rfl⟩)
    intro r s1 ⟨⟨b, hr'⟩, hs1⟩
    subst hr' hs1
    simp only
    wp_head
    intro _
    have hp := userData_ppid isStr data
    refine ⟨bufInv_set hI hc rfl ?_ ?_ ?_, trivial⟩
    · intro x hx
      simp only [List.mem_append, List.mem_singleton] at hx
      rcases hx with h | h
      · exact hI.1 x h
      · rw [h]; exact hlt
    · intro j hj
      simp only [qsum_append, qsum, hj.symm, false_and, if_false]
      omega
    · intro h3
      refine ⟨h3, ?_⟩
      simp only [qsum_append, qsum, true_and, ne_eq, hp, not_false_eq_true, if_true]
      omega
macro_rules | `(tactic| pres_leaf) => `(tactic| exact buf_dcSend _ _ _)

/-- an application handler that re-enters `send()` is accounted like a `send()` -/
theorem buf_react (k i : Nat) : Pres bufSpec (react k i) := by
  apply Pres.intro; intro s hI
  unfold react
  wp_head
  split
  · wp_head; exact fun _ => ⟨hI, trivial⟩
  · rename_i r hr
    wp_head
    have h1 : BufInv { s.1 with reactions := s.1.reactions.erase r } := bufInv_queue hI rfl hI.1 (fun _ => rfl)
    cases hc : s.1.chans[i]? with
    | none => simp only; exact fun h => (h trivial).elim
    | some c =>
      simp only
      split
      · wp_head; intro _; exact ⟨h1, trivial⟩
      · exact WP.pres_after (S := bufSpec) (buf_dcSend _ _ _) h1 trivial
macro_rules | `(tactic| pres_leaf) => `(tactic| exact buf_react _ _)

/-- continue with an accounted action after an explicit state that satisfies the invariant -/
theorem WP.after_buf {α : Type} {x : M α} (hx : Pres bufSpec x) {s1 : St} (h : BufInv s1.1) :
    WP x (fun r s' => IsOk r → BufInv s'.1) s1 :=
  WP.call hx h (fun r s' h2 hk => (h2 (fun _ => hk)).1)

/-- `RTCDataChannel.send` + `_data_channel_send` -/
theorem buf_send (i : Nat) (isStr : Bool) (data : Bytes) : Pres bufSpec (handle (.send i isStr data)) := by
  apply Pres.intro; intro s hI
  simp only [handle]
  wp_head
  cases hc : s.1.chans[i]? with
  | none => simp only; exact fun h => (h trivial).elim
  | some c =>
    simp only
    split
    · wp_head; intro _; exact ⟨bufInv_queue hI rfl hI.1 (fun _ => rfl), trivial⟩
    · exact (buf_dcSend i isStr data).out s hI

/-- the invariant while an entry has been popped but its bytes not yet subtracted: the channel objects
still account for the queue `old` -/
def BufPre (old : List (Nat × Nat × Bytes)) (e : Ep) : Prop :=
  (∀ x ∈ e.dcQueue, x.1 < e.chans.length) ∧
  (∀ (j : Nat) cj, e.chans[j]? = some cj → cj.ready ≠ 3 → cj.buffered = qsum old j)

theorem bufPre_frame {old} {s s' : St} (h : FrameRel s s') (hp : BufPre old s.1) : BufPre old s'.1 := by
  obtain ⟨h1, h2, _⟩ := h
  exact ⟨by rw [h1, h2]; exact hp.1, by rw [h1]; exact hp.2⟩

theorem bufPre_dcep {i : Nat} {data : Bytes} {rest} {e : Ep}
    (hp : BufPre ((i, WEBRTC_DCEP, data) :: rest) e) (hq : e.dcQueue = rest) : BufInv e := by
  refine ⟨hp.1, ?_⟩
  intro j cj hj h3
  rw [hp.2 j cj hj h3, hq]
  simp [qsum]

theorem bufPre_user {i ppid : Nat} {data : Bytes} {rest} {e e' : Ep}
    (hp : BufPre ((i, ppid, data) :: rest) e) (hne : ppid ≠ WEBRTC_DCEP) (hq : e.dcQueue = rest)
    {ci : Chan} (hci : e.chans[i]? = some ci)
    (hch : e'.chans = e.chans.set i { ci with buffered := ci.buffered + -(data.length : Int) })
    (hq' : e'.dcQueue = rest) : BufInv e' := by
  have hlt : i < e.chans.length := (List.getElem?_eq_some_iff.1 hci).1
  refine ⟨?_, ?_⟩
  · intro x hx; rw [hch, List.length_set]; rw [hq'] at hx; exact hp.1 x (by rw [hq]; exact hx)
  · intro j x hx h3
    rw [hch] at hx
    rw [hq']
    by_cases hj : i = j
    · subst hj
      rw [List.getElem?_set_self hlt] at hx
      cases hx
      have := hp.2 i ci hci h3
      simp only [qsum, hne, ne_eq, not_false_eq_true, and_self, if_true] at this
      simp only
      omega
    · rw [List.getElem?_set_ne hj] at hx
      have := hp.2 j x hx h3
      simp only [qsum, hj, false_and, if_false] at this
      omega

/-- the accounting holds except for channel object `i` (whose queue entries were just dropped) -/
def BufInvX (i : Nat) (e : Ep) : Prop :=
  (∀ x ∈ e.dcQueue, x.1 < e.chans.length) ∧
  (∀ (j : Nat) c, j ≠ i → e.chans[j]? = some c → c.ready ≠ 3 → c.buffered = qsum e.dcQueue j)

theorem wp_setReady3_X {s : St} {i : Nat} (hX : BufInvX i s.1) :
    WP (setReady i 3) (fun r s' => IsOk r → BufInv s'.1) s := by
  unfold setReady
  wp_simp
  have hkeep : ∀ c, s.1.chans[i]? = some c → c.ready = 3 → BufInv s.1 := by
    intro c hc h3
    refine ⟨hX.1, ?_⟩
    intro j x hx hx3
    by_cases hj : j = i
    · subst hj; rw [hc] at hx; cases hx; exact absurd h3 hx3
    · exact hX.2 j x hj hx hx3
  cases hc : s.1.chans[i]? with
  | none =>
    simp only
    exact fun h => h.elim
  | some c =>
    simp only
    have hlt : i < s.1.chans.length := (List.getElem?_eq_some_iff.1 hc).1
    have key : BufInv { s.1 with chans := s.1.chans.set i { c with ready := 3 } } := by
      refine ⟨by simpa using hX.1, ?_⟩
      intro j x hx hx3
      simp only at hx
      by_cases hj : i = j
      · subst hj
        rw [List.getElem?_set_self hlt] at hx; cases hx
        exact absurd rfl hx3
      · rw [List.getElem?_set_ne hj] at hx
        exact hX.2 j x (Ne.symm hj) hx hx3
    split
    · wp_simp
      split
      · split
        · wp_simp; exact WP.after_buf (buf_react 0 i) key
        · split
          · wp_simp; exact WP.after_buf (buf_react 1 i) key
          · wp_simp; exact fun _ => key
      · wp_simp; exact fun _ => key
    · rename_i h3
      wp_simp
      exact fun _ => hkeep c hc (by simpa using h3)

set_option hygiene false in
/-- the rest of a `flushLoop` iteration once the stream id is known (uses the local facts `tailD`, `tailU`,
`hpA`, `hlt` of `buf_flushLoop`) -/
macro "buf_tail" : tactic => `(tactic| (
  split
  · rename_i hdcep
    refine WP.call_bind (frame_sendData _ _ _ _ _ _) trivial ?_
    intro r s2 h2
    have hf := (h2 (fun h => h.elim)).2
    cases r with
    | error k => exact fun h => (h trivial).elim
    | ok u => exact tailD s2 (bufPre_frame hf hpA) (hf.2.1.trans rfl) hdcep
  · rename_i hdcep
    wp_head
    refine WP.call_bind (frame_sendData _ _ _ _ _ _) trivial ?_
    intro r s2 h2
    have hf := (h2 (fun h => h.elim)).2
    cases r with
    | error k => exact fun h => (h trivial).elim
    | ok u => exact tailU s2 (bufPre_frame hf hpA) (hf.2.1.trans rfl) (by rw [hf.1]; exact hlt) hdcep))

/-- `_data_channel_flush`'s loop keeps `bufferedAmount` exact (on runs that do not raise) -/
theorem buf_flushLoop (fuel : Nat) : Pres bufSpec (flushLoop fuel) := by
  induction fuel with
  | zero => unfold flushLoop; exact pres_pure _
  | succ n ih =>
    apply Pres.intro; intro s hI
    unfold flushLoop
    wp_head
    split
    · wp_head; exact fun _ => ⟨hI, trivial⟩
    · rename_i i ppid data rest hq
      split
      · wp_head; exact fun _ => ⟨hI, trivial⟩
      · wp_head
        have hlt : i < s.1.chans.length := hI.1 (i, ppid, data) (by rw [hq]; simp)
        obtain ⟨c, hc⟩ : ∃ c, s.1.chans[i]? = some c := ⟨_, List.getElem?_eq_getElem hlt⟩
        rw [hc]; simp only
        have hrest : ∀ x ∈ rest, x.1 < s.1.chans.length := fun x hx => hI.1 x (by rw [hq]; simp [hx])
        have tailD : ∀ s2 : St, BufPre ((i, ppid, data) :: rest) s2.1 → s2.1.dcQueue = rest → ppid = WEBRTC_DCEP →
            WP (flushLoop n) (fun r s' => (bufSpec.okOnly → IsOk r) → bufSpec.I s'.1 ∧ bufSpec.R s s') s2 := by
          intro s2 hp2 hq2 hp
          rw [hp] at hp2
          exact WP.call ih (bufPre_dcep hp2 hq2) (fun r s' h hk => ⟨(h hk).1, trivial⟩)
        have tailU : ∀ s2 : St, BufPre ((i, ppid, data) :: rest) s2.1 → s2.1.dcQueue = rest →
            i < s2.1.chans.length → ¬ ppid = WEBRTC_DCEP →
            WP (addBuffered i (-(data.length : Int)) >>= fun _ => flushLoop n)
              (fun r s' => (bufSpec.okOnly → IsOk r) → bufSpec.I s'.1 ∧ bufSpec.R s s') s2 := by
          intro s2 hp2 hq2 hlt2 hp
          obtain ⟨ci, hci⟩ : ∃ ci, s2.1.chans[i]? = some ci := ⟨_, List.getElem?_eq_getElem hlt2⟩
          unfold addBuffered
          simp only [WPh_assoc]
          apply WP.bind_of (P := fun r s' => (∃ b, r = .ok b) ∧ s' = _) (wp_addBufferedCore i _ s2 ci hci ⟨⟨_, rfl⟩, rfl⟩)
          intro r s3 ⟨⟨b, hr'⟩, hs3⟩
          subst hr' hs3
          simp only
          refine WP.pres_after (S := bufSpec) ?_ (bufPre_user hp2 hp hq2 hci rfl hq2) trivial
          pres
        split
        · -- the channel has an id
          wp_head
          have hpA : BufPre ((i, ppid, data) :: rest) { s.1 with dcQueue := rest } :=
            ⟨hrest, fun j cj hj h3 => by rw [← hq]; exact hI.2 j cj hj h3⟩
          buf_tail
        · split
          · rename_i start hstart
            wp_head
            split
            · -- no stream id left: the channel is closed, its entry is dropped
              have hX : BufInvX i { s.1 with dcQueue := rest } := by
                refine ⟨hrest, ?_⟩
                intro j cj hj hcj h3
                have := hI.2 j cj hcj h3
                rw [hq] at this
                simp only [qsum, Ne.symm hj, false_and, if_false] at this
                simp only
                omega
              apply WP.bind_of (wp_setReady3_X (s := (_, _)) hX)
              intro r s2 hI2
              cases r with
              | error k => exact fun h => (h trivial).elim
              | ok u =>
                simp only
                wp_head
                exact WP.call ih (hI2 trivial) (fun r s' h hk => ⟨(h hk).1, trivial⟩)
            wp_head
            have hpA : BufPre ((i, ppid, data) :: rest)
                { s.1 with dcQueue := rest
                           dataChannels := s.1.dataChannels ++ [(flushLoop.pick s.1 (s.1.dataChannels.length + 1) start, i)]
                           chans := s.1.chans.set i
                             { c with id := some (flushLoop.pick s.1 (s.1.dataChannels.length + 1) start) } } := by
              refine ⟨by simpa using hrest, ?_⟩
              intro j cj hj h3
              simp only at hj
              by_cases hij : i = j
              · subst hij
                rw [List.getElem?_set_self hlt] at hj
                cases hj
                rw [← hq]; exact hI.2 i c hc h3
              · rw [List.getElem?_set_ne hij] at hj
                rw [← hq]; exact hI.2 j cj hj h3
            have hlt : i < (s.1.chans.set i
                { c with id := some (flushLoop.pick s.1 (s.1.dataChannels.length + 1) start) }).length := by
              simpa using hlt
            buf_tail
          · wp_head; exact fun h => (h trivial).elim
macro_rules | `(tactic| pres_leaf) => `(tactic| exact buf_flushLoop _)

theorem buf_flush : Pres bufSpec flush := by
  unfold flush; pres

end Aiortc.Sctp
