import Aiortc.Lemmas.C13.SctpFrame
/-!
# When the association ends every channel closes (`_set_state(CLOSED)`)

`ChansRel s s'`: the channel objects are the same except that some `ready` became 3 (closed);
`closeLoop`/`closeLoop1` are the two `for` loops of `_set_state(CLOSED)`.
-/
set_option linter.unusedSimpArgs false
set_option linter.unusedVariables false
namespace Aiortc.Sctp
open Aiortc.Gen Aiortc.Sctp.Wire

def ClosedAt (e : Ep) (i : Nat) : Prop := ∃ c, e.chans[i]? = some c ∧ c.ready = 3

def ChansRel (s s' : St) : Prop :=
  s'.1.chans.length = s.1.chans.length ∧
  ∀ (j : Nat) c, s.1.chans[j]? = some c →
    ∃ c', s'.1.chans[j]? = some c' ∧ (c'.ready = c.ready ∨ c'.ready = 3) ∧ c'.buffered = c.buffered

theorem ChansRel.refl (s : St) : ChansRel s s := ⟨rfl, fun _ c h => ⟨c, h, Or.inl rfl, rfl⟩⟩

theorem ChansRel.trans {a b c : St} (h1 : ChansRel a b) (h2 : ChansRel b c) : ChansRel a c := by
  refine ⟨h2.1.trans h1.1, ?_⟩
  intro j x hx
  obtain ⟨y, hy, hr1, hb1⟩ := h1.2 j x hx
  obtain ⟨z, hz, hr2, hb2⟩ := h2.2 j y hy
  refine ⟨z, hz, ?_, hb2.trans hb1⟩
  rcases hr2 with h | h
  · rcases hr1 with h' | h'
    · left; rw [h, h']
    · right; rw [h, h']
  · right; exact h

theorem ChansRel.closed_stays {s s' : St} (h : ChansRel s s') {i : Nat} (hc : ClosedAt s.1 i) : ClosedAt s'.1 i := by
  obtain ⟨c, hc, h3⟩ := hc
  obtain ⟨c', hc', hr, _⟩ := h.2 i c hc
  exact ⟨c', hc', by rcases hr with h | h <;> omega⟩

/-- postcondition of `_setReadyState("closed")` on channel object `i` -/
def CloseStep (i : Nat) (s : St) (r : Except String Unit) (s' : St) : Prop :=
  s'.1.dcQueue = s.1.dcQueue ∧ s'.1.dataChannels = s.1.dataChannels ∧ ChansRel s s' ∧ (IsOk r → ClosedAt s'.1 i)

/-- postcondition of a handler running on a closed channel: nothing but the reaction list (and the log) changes -/
def ReactClosedPost (s1 : St) (r : Except String Unit) (s' : St) : Prop :=
  s'.1.chans = s1.1.chans ∧ s'.1.dcQueue = s1.1.dcQueue ∧ s'.1.dataChannels = s1.1.dataChannels

/-- a handler that calls `send()` on a closed channel gets `InvalidStateError`: no channel object, queue or id changes -/
theorem wp_react_closed (k i : Nat) (s1 : St) (h : ClosedAt s1.1 i) : WP (react k i) (ReactClosedPost s1) s1 := by
  obtain ⟨c, hc, h3⟩ := h
  unfold react
  wp_simp
  split
  · wp_simp; exact ⟨rfl, rfl, rfl⟩
  · wp_simp
    rw [hc]
    simp only
    have : c.ready ≠ 1 := by omega
    simp only [this, ne_eq, not_false_eq_true, if_true]
    wp_simp
    exact ⟨rfl, rfl, rfl⟩

/-- `_setReadyState("closed")` -/
theorem wp_setReady3 (i : Nat) (s : St) : WP (setReady i 3) (CloseStep i s) s := by
  unfold setReady
  wp_simp
  cases hc : s.1.chans[i]? with
  | none => simp only; exact ⟨rfl, rfl, ChansRel.refl s, fun h => h.elim⟩
  | some c =>
    simp only
    have hlt : i < s.1.chans.length := (List.getElem?_eq_some_iff.1 hc).1
    have key : ∀ (s' : St) (r : Except String Unit), s'.1.chans = s.1.chans.set i { c with ready := 3 } →
        s'.1.dcQueue = s.1.dcQueue → s'.1.dataChannels = s.1.dataChannels → CloseStep i s r s' := by
      intro s' r h1 h2 h4
      refine ⟨h2, h4, ⟨by simp [h1], ?_⟩, fun _ => ⟨_, by rw [h1]; exact List.getElem?_set_self hlt, rfl⟩⟩
      intro j x hx
      rw [h1]
      by_cases hj : i = j
      · subst hj
        rw [hc] at hx; cases hx
        exact ⟨_, List.getElem?_set_self hlt, Or.inr rfl, rfl⟩
      · exact ⟨x, by simpa [List.getElem?_set_ne hj] using hx, Or.inl rfl, rfl⟩
    split
    · wp_simp
      split
      · split
        · rename_i h; exact absurd h (by decide)
        · split
          · wp_simp
            refine WP.mono (wp_react_closed 1 i _ ⟨_, List.getElem?_set_self hlt, rfl⟩) ?_
            intro r s' ⟨h1, h2, h4⟩
            exact key s' r h1 h2 h4
          · wp_simp; exact key _ _ rfl rfl rfl
      · wp_simp; exact key _ _ rfl rfl rfl
    · rename_i h3
      wp_simp
      have h3' : c.ready = 3 := by simpa using h3
      exact ⟨rfl, rfl, ChansRel.refl s, fun _ => ⟨c, hc, h3'⟩⟩

def CloseLoopPost {γ : Type} (g : γ → Nat) (l : List γ) (s : St) (r : Except String PUnit) (s' : St) : Prop :=
  s'.1.dcQueue = s.1.dcQueue ∧ s'.1.dataChannels = s.1.dataChannels ∧
    ChansRel s s' ∧ (IsOk r → ∀ x ∈ l, ClosedAt s'.1 (g x))

/-- `for channel, _, _ in self._data_channel_queue: channel._setReadyState("closed")` -/
theorem closeLoop {γ : Type} (g : γ → Nat) (f : γ → PUnit → M (ForInStep PUnit))
    (hf : ∀ x b, f x b = (setReady (g x) 3 >>= fun _ => pure (ForInStep.yield PUnit.unit)))
    (l : List γ) : ∀ s : St, WP (forIn l PUnit.unit f) (CloseLoopPost g l s) s := by
  induction l with
  | nil =>
    intro s
    simp only [List.forIn_nil]
    wp_simp
    exact ⟨rfl, rfl, ChansRel.refl s, fun _ x hx => by cases hx⟩
  | cons a t ih =>
    intro s
    rw [List.forIn_cons, hf]
    wp_head
    apply WP.bind_of (wp_setReady3 (g a) s)
    intro r s1 ⟨h1, h2, h3, h4⟩
    cases r with
    | error k => exact ⟨h1, h2, h3, fun h => h.elim⟩
    | ok u =>
      simp only
      wp_head
      refine WP.mono (ih s1) ?_
      intro r s2 ⟨k1, k2, k3, k4⟩
      refine ⟨k1.trans h1, k2.trans h2, h3.trans k3, ?_⟩
      intro hok x hx
      rcases List.mem_cons.1 hx with h | h
      · rw [h]; exact k3.closed_stays (h4 trivial)
      · exact k4 hok x h

theorem dictDel_head (sid i : Nat) (t : List (Nat × Nat)) (h : (((sid, i) :: t).map (·.1)).Nodup) :
    dictDel ((sid, i) :: t) sid = t := by
  simp only [List.map_cons, List.nodup_cons, List.mem_map, not_exists, not_and] at h
  unfold dictDel
  rw [List.filter_cons]
  simp only [bne_self_eq_false, Bool.false_eq_true, if_false]
  rw [List.filter_eq_self]
  intro a ha
  have := h.1 a ha
  simpa [bne_iff_ne] using this

def CloseLoop1Post (l : List (Nat × Nat)) (s : St) (r : Except String PUnit) (s' : St) : Prop :=
  s'.1.dcQueue = s.1.dcQueue ∧ ChansRel s s' ∧
    (IsOk r → s'.1.dataChannels = [] ∧ ∀ x ∈ l, ClosedAt s'.1 x.2)

/-- `for stream_id in list(self._data_channels.keys()): self._data_channel_closed(stream_id)` -/
theorem closeLoop1 (f : Nat × Nat → PUnit → M (ForInStep PUnit))
    (hf : ∀ x b, f x b = (dcClosed x.1 >>= fun _ => pure (ForInStep.yield PUnit.unit)))
    (l : List (Nat × Nat)) : ∀ s : St, s.1.dataChannels = l → (l.map (·.1)).Nodup →
      WP (forIn l PUnit.unit f) (CloseLoop1Post l s) s := by
  induction l with
  | nil =>
    intro s hl _
    simp only [List.forIn_nil]
    wp_simp
    exact ⟨rfl, ChansRel.refl s, fun _ => ⟨hl, fun x hx => by cases hx⟩⟩
  | cons a t ih =>
    intro s hl hnd
    obtain ⟨sid, i⟩ := a
    rw [List.forIn_cons, hf]
    unfold dcClosed
    wp_head
    have hget : dictGet s.1.dataChannels sid = some i := by
      rw [hl]; simp [dictGet, List.find?_cons]
    rw [hget]
    simp only
    wp_head
    have hdel : dictDel s.1.dataChannels sid = t := by rw [hl]; exact dictDel_head sid i t hnd
    apply WP.bind_of (wp_setReady3 i _)
    intro r s1 ⟨h1, h2, h3, h4⟩
    cases r with
    | error k => exact ⟨h1, h3, fun h => h.elim⟩
    | ok u =>
      simp only
      wp_head
      have hnd' : (t.map (·.1)).Nodup := by
        simp only [List.map_cons, List.nodup_cons] at hnd; exact hnd.2
      refine WP.mono (ih s1 (h2.trans hdel) hnd') ?_
      intro r s2 ⟨k1, k3, k4⟩
      refine ⟨k1.trans h1, ChansRel.trans h3 k3, ?_⟩
      intro hok
      refine ⟨(k4 hok).1, ?_⟩
      intro x hx
      rcases List.mem_cons.1 hx with h | h
      · rw [h]; exact k3.closed_stays (h4 trivial)
      · exact (k4 hok).2 x h

def ClosedAllPost (s : St) (r : Except String Unit) (s' : St) : Prop :=
  IsOk r → s'.1.dataChannels = [] ∧ s'.1.dcQueue = [] ∧ (∀ x ∈ s.1.dataChannels, ClosedAt s'.1 x.2) ∧
    (∀ x ∈ s.1.dcQueue, ClosedAt s'.1 x.1) ∧ ChansRel s s'

set_option hygiene false in
macro "frame_next" lem:term : tactic => `(tactic| (
  refine WP.call_bind $lem trivial ?_
  intro r sN hN
  have hfr := FrameRel.trans _ _ _ hfr (hN (fun h => h.elim)).2
  clear hN
  rcases r with k | u
  · exact fun h => h.elim
  simp only))

/-- **when the association ends every channel closes**: after `_set_state(CLOSED)` every channel object
that was registered in `_data_channels` or still waiting in `_data_channel_queue` is closed, both
containers are empty, and no other field of any channel object changed -/
theorem closed_all (s : St) (hnd : (s.1.dataChannels.map (·.1)).Nodup) :
    WP (setState .closed) (ClosedAllPost s) s := by
  unfold setState
  wp_head
  split
  · rename_i h; cases h
  split
  · have hfr : FrameRel s ({ s.1 with assoc := AState.closed }, s.2) := by frame_rel
    frame_next frame_t1Cancel
    frame_next frame_t2Cancel
    frame_next frame_t3Cancel
    frame_next frame_rcCancel
    wp_head
    rename_i s4 _ _ _ _
    obtain ⟨f1, f2, f3, _⟩ := hfr
    refine WP.bind_of (closeLoop1 _ (fun x b => rfl) _ (_, _) rfl (by rw [f3]; exact hnd)) ?_
    intro r s5 ⟨h1, h3, h4⟩
    cases r with
    | error k => exact fun h => h.elim
    | ok u =>
      simp only
      wp_head
      refine WP.bind_of (closeLoop (fun x : Nat × Nat × Bytes => x.1) _ (fun x b => rfl) _ s5) ?_
      intro r s6 ⟨k1, k2, k3, k4⟩
      cases r with
      | error k => exact fun h => h.elim
      | ok u =>
        simp only
        wp_head
        intro _
        have hc45 : ChansRel s s5 := by
          refine ⟨h3.1.trans (by simp [f1]), ?_⟩
          intro j c hc
          exact h3.2 j c (by simpa [f1] using hc)
        have hc46 := ChansRel.trans hc45 k3
        refine ⟨k2.trans (h4 trivial).1, rfl, ?_, ?_, ⟨hc46.1, hc46.2⟩⟩
        · intro x hx
          have := (h4 trivial).2 x (by simpa [f3] using hx)
          exact (k3.closed_stays this)
        · intro x hx
          exact k4 trivial x (by rw [h1]; simpa [f2] using hx)
  · rename_i h; exact absurd trivial h

end Aiortc.Sctp
