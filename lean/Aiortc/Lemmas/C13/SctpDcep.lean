import Aiortc.Model.Sctp.Dcep
/-!
# DCEP `DATA_CHANNEL_OPEN`: the parser inside `dcReceive`, restated purely, inverts `encodeOpen`
-/
set_option linter.unusedSimpArgs false
namespace Aiortc.Sctp
open Aiortc.Gen Aiortc.Sctp.Wire

theorem beVal_u16be (n : Nat) (h : n < 65536) : beVal (u16be n) = n := by
  simp [beVal, u16be]; omega

theorem beVal_u32be (n : Nat) (h : n < 4294967296) : beVal (u32be n) = n := by
  simp [beVal, u32be]; omega

/-- the message built by `_data_channel_open` -/
def openMsg (ct rel : Nat) (label protocol : Bytes) : Bytes :=
  [DATA_CHANNEL_OPEN, ct] ++ u16be 0 ++ u32be rel ++ u16be label.length ++ u16be protocol.length
    ++ label ++ protocol

theorem decodeOpen_openMsg (ct rel : Nat) (label protocol : Bytes)
    (hl : label.length < 65536) (hp : protocol.length < 65536) (hr : rel < 4294967296)
    (hul : utf8Valid label = true) (hup : utf8Valid protocol = true) :
    decodeOpen (openMsg ct rel label protocol) = some {
      label := label, protocol := protocol
      ordered := ct / 128 % 2 = 0
      maxRetransmits := if ct % 4 = 1 then some rel else none
      maxPacketLifeTime := if ct % 4 = 2 then some rel else none } := by
  have e1 : openMsg ct rel label protocol =
      DATA_CHANNEL_OPEN :: ct :: (u16be 0 ++ (u32be rel ++ (u16be label.length ++ (u16be protocol.length
        ++ (label ++ protocol))))) := by
    simp [openMsg]
  have h4 : ((openMsg ct rel label protocol).drop 4).take 4 = u32be rel := by
    rw [e1]; simp [u16be, u32be]
  have h8 : ((openMsg ct rel label protocol).drop 8).take 2 = u16be label.length := by
    rw [e1]; simp [u16be, u32be]
  have h10 : ((openMsg ct rel label protocol).drop 10).take 2 = u16be protocol.length := by
    rw [e1]; simp [u16be, u32be]
  have h12 : (openMsg ct rel label protocol).drop 12 = label ++ protocol := by
    rw [e1]; simp [u16be, u32be]
  have h12' : (openMsg ct rel label protocol).drop (12 + label.length) = protocol := by
    rw [← List.drop_drop, h12]; simp
  have hlen : (openMsg ct rel label protocol).length ≥ 12 := by
    rw [e1]; simp [u16be, u32be]
  have hhd : (openMsg ct rel label protocol).headD 0 = DATA_CHANNEL_OPEN := by rw [e1]; rfl
  have hct : (openMsg ct rel label protocol).getD 1 0 = ct := by rw [e1]; rfl
  unfold decodeOpen
  simp only [hhd, hlen, hct, h4, h8, h10, beVal_u32be rel hr, beVal_u16be _ hl, beVal_u16be _ hp, h12, h12']
  simp [hul, hup]

/-- **DCEP round trip**: every label/protocol byte string that is valid UTF-8 and shorter than 65536
bytes, every ordered flag and every reliability setting (at most one of maxRetransmits /
maxPacketLifeTime, below 2^32) survives `encodeOpen` followed by the OPEN parser unchanged. -/
theorem decodeOpen_encodeOpen (c : Chan)
    (hl : c.label.length < 65536) (hp : c.protocol.length < 65536)
    (hul : utf8Valid c.label = true) (hup : utf8Valid c.protocol = true)
    (hone : c.maxRetransmits = none ∨ c.maxPacketLifeTime = none)
    (hr : ∀ r, c.maxRetransmits = some r → r < 4294967296)
    (ht : ∀ r, c.maxPacketLifeTime = some r → r < 4294967296) :
    ∃ d, encodeOpen c = .ok d ∧ decodeOpen d = some c.openParams := by
  obtain ⟨id, label, protocol, ordered, mr, ml, neg, ready, buf, thr, silent⟩ := c
  simp only at hl hp hul hup hone hr ht
  cases mr with
  | some r =>
    have hml : ml = none := by rcases hone with h | h; cases h; exact h
    subst hml
    have hr' := hr r rfl
    refine ⟨openMsg ((if !ordered then DATA_CHANNEL_RELIABLE + 128 else DATA_CHANNEL_RELIABLE) + 1) r label protocol, ?_, ?_⟩
    · simp [encodeOpen, openMsg, hl, hp, hr']
    · rw [decodeOpen_openMsg _ _ _ _ hl hp hr' hul hup]
      cases ordered <;> simp [Chan.openParams, DATA_CHANNEL_RELIABLE]
  | none =>
    cases ml with
    | some t =>
      have ht' := ht t rfl
      refine ⟨openMsg ((if !ordered then DATA_CHANNEL_RELIABLE + 128 else DATA_CHANNEL_RELIABLE) + 2) t label protocol, ?_, ?_⟩
      · simp [encodeOpen, openMsg, hl, hp, ht']
      · rw [decodeOpen_openMsg _ _ _ _ hl hp ht' hul hup]
        cases ordered <;> simp [Chan.openParams, DATA_CHANNEL_RELIABLE]
    | none =>
      refine ⟨openMsg (if !ordered then DATA_CHANNEL_RELIABLE + 128 else DATA_CHANNEL_RELIABLE) 0 label protocol, ?_, ?_⟩
      · simp [encodeOpen, openMsg, hl, hp]
      · rw [decodeOpen_openMsg _ _ _ _ hl hp (by omega) hul hup]
        cases ordered <;> simp [Chan.openParams, DATA_CHANNEL_RELIABLE]

end Aiortc.Sctp
