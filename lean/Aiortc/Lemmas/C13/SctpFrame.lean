import Aiortc.Lemmas.C13.SctpWp
/-!
# Frame lemmas: the parts of the endpoint automaton that do not touch data channel objects

`Frame x`: the action `x` leaves `chans`, `dcQueue`, `dataChannels`, `dcId`, `isServer` alone and only
appends outputs that are not channel events (`evOpen/evClose/evLow/evChannel`), whatever its outcome.
-/
namespace Aiortc.Sctp
open Aiortc.Gen Aiortc.Sctp.Wire

def Out.isChanEv : Out → Bool
  | .evOpen _ | .evClose _ | .evLow _ | .evChannel _ => true
  | _ => false

def FrameRel (s s' : St) : Prop :=
  s'.1.chans = s.1.chans ∧ s'.1.dcQueue = s.1.dcQueue ∧ s'.1.dataChannels = s.1.dataChannels ∧
  s'.1.dcId = s.1.dcId ∧ s'.1.isServer = s.1.isServer ∧ s'.1.reactions = s.1.reactions ∧
  ∃ l2, s'.2 = s.2 ++ l2 ∧ ∀ o ∈ l2, o.isChanEv = false

theorem FrameRel.refl (s : St) : FrameRel s s :=
  ⟨rfl, rfl, rfl, rfl, rfl, rfl, [], by simp, by simp⟩

theorem FrameRel.trans (a b c : St) (h1 : FrameRel a b) (h2 : FrameRel b c) : FrameRel a c := by
  obtain ⟨a1, a2, a3, a4, a5, a5', l1, a6, a7⟩ := h1
  obtain ⟨b1, b2, b3, b4, b5, b5', l2, b6, b7⟩ := h2
  refine ⟨b1.trans a1, b2.trans a2, b3.trans a3, b4.trans a4, b5.trans a5, b5'.trans a5', l1 ++ l2, ?_, ?_⟩
  · rw [b6, a6, List.append_assoc]
  · intro o ho
    rcases List.mem_append.1 ho with h | h
    · exact a7 o h
    · exact b7 o h

def frameSpec : Spec :=
  { I := fun _ => True, R := FrameRel, okOnly := False, refl := FrameRel.refl, trans := FrameRel.trans }

abbrev Frame {α} (x : M α) : Prop := Pres frameSpec x

/-- state update that keeps the framed fields, log extended by harmless outputs -/
theorem FrameRel.mk' {s : St} {e' : Ep} {l2 : List Out}
    (h1 : e'.chans = s.1.chans) (h2 : e'.dcQueue = s.1.dcQueue) (h3 : e'.dataChannels = s.1.dataChannels)
    (h4 : e'.dcId = s.1.dcId) (h5 : e'.isServer = s.1.isServer) (h5' : e'.reactions = s.1.reactions)
    (h6 : ∀ o ∈ l2, o.isChanEv = false) :
    FrameRel s (e', s.2 ++ l2) :=
  ⟨h1, h2, h3, h4, h5, h5', l2, rfl, h6⟩

theorem Frame.intro {α} {x : M α} (h : ∀ s, WP x (fun _ s' => FrameRel s s') s) : Frame x :=
  ⟨fun s _ => WP.mono (h s) (fun _ _ hr _ => ⟨trivial, hr⟩)⟩

/-- a specification that every framed action satisfies -/
class Framed (S : Spec) : Prop where
  frame : ∀ s s', FrameRel s s' → S.I s.1 → S.I s'.1 ∧ S.R s s'

instance : Framed frameSpec := ⟨fun _ _ h _ => ⟨trivial, h⟩⟩

theorem pres_of_frame {S : Spec} [Framed S] {α} {x : M α} (h : Frame x) : Pres S x :=
  ⟨fun s hI => WP.mono (h.out s trivial) (fun _ _ hr _ => Framed.frame _ _ (hr (fun h => h.elim)).2 hI)⟩

/-- after a call of a framed action -/
theorem WP.frame {α} {x : M α} (h : Frame x) {Q} {s : St}
    (k : ∀ r s', FrameRel s s' → Q r s') : WP x Q s :=
  WP.call h trivial (fun r s' hr => k r s' (hr (fun h => h.elim)).2)

theorem frame_modE (f : Ep → Ep) (h1 : ∀ e, (f e).chans = e.chans) (h2 : ∀ e, (f e).dcQueue = e.dcQueue)
    (h3 : ∀ e, (f e).dataChannels = e.dataChannels) (h4 : ∀ e, (f e).dcId = e.dcId)
    (h5 : ∀ e, (f e).isServer = e.isServer) (h6 : ∀ e, (f e).reactions = e.reactions) : Frame (modE f) := by
  apply Frame.intro; intro s
  simp only [WP_modE]
  simpa using FrameRel.mk' (l2 := []) (h1 s.1) (h2 s.1) (h3 s.1) (h4 s.1) (h5 s.1) (h6 s.1) (by simp)

theorem frame_emit (o : Out) (h : o.isChanEv = false) : Frame (emit o) := by
  apply Frame.intro; intro s
  simp only [WP_emit]
  exact FrameRel.mk' rfl rfl rfl rfl rfl rfl (by simpa using h)

/-- closing a goal `FrameRel s (e', s.2 ++ …)` where `e'` is a record update of `s.1` -/
macro "frame_rel" : tactic =>
  `(tactic| first
    | exact FrameRel.refl _
    | (refine ⟨rfl, rfl, rfl, rfl, rfl, rfl, _, rfl, ?_⟩; simp [Out.isChanEv]; done)
    | (refine ⟨rfl, rfl, rfl, rfl, rfl, rfl, [], ?_, ?_⟩ <;> simp <;> done))

/-- `modE`/`emit` leaves whose side conditions are closed by `rfl` -/
macro "frame_prim" : tactic =>
  `(tactic| first
    | exact pres_of_frame (frame_emit _ rfl)
    | exact pres_of_frame (frame_modE _ (fun _ => rfl) (fun _ => rfl) (fun _ => rfl) (fun _ => rfl) (fun _ => rfl) (fun _ => rfl)))
macro_rules | `(tactic| pres_leaf) => `(tactic| frame_prim)

theorem frame_sendChunk (c : Chunk) : Frame (sendChunk c) := by
  unfold sendChunk; pres
macro_rules | `(tactic| pres_leaf) => `(tactic| exact pres_of_frame (frame_sendChunk _))

theorem frame_playTx (evs : List TxEv) : Frame (playTx evs) := by
  unfold playTx; pres
macro_rules | `(tactic| pres_leaf) => `(tactic| exact pres_of_frame (frame_playTx _))

theorem frame_queueTask (t : Task) (n : String) : Frame (queueTask t n) := by
  apply Frame.intro; intro s
  simp only [WP_queueTask]
  frame_rel
macro_rules | `(tactic| pres_leaf) => `(tactic| exact pres_of_frame (frame_queueTask _ _))

theorem frame_transmit : Frame transmit := by
  apply Frame.intro; intro s
  unfold transmit
  wp_simp
  apply WP.frame (frame_playTx _)
  intro r s' h
  exact FrameRel.trans _ _ _ (by frame_rel) h
macro_rules | `(tactic| pres_leaf) => `(tactic| exact pres_of_frame frame_transmit)

theorem frame_sendData (sid ppid : Nat) (data : Bytes) (expiry maxRtx : Option Int) (ordered : Bool) :
    Frame (sendData sid ppid data expiry maxRtx ordered) := by
  unfold sendData; pres
macro_rules | `(tactic| pres_leaf) => `(tactic| exact pres_of_frame (frame_sendData _ _ _ _ _ _))

theorem frame_t1Cancel : Frame t1Cancel := by unfold t1Cancel; pres
theorem frame_t2Cancel : Frame t2Cancel := by unfold t2Cancel; pres
theorem frame_t3Cancel : Frame t3Cancel := by unfold t3Cancel; pres
theorem frame_rcCancel : Frame rcCancel := by unfold rcCancel; pres
macro_rules | `(tactic| pres_leaf) => `(tactic| exact pres_of_frame frame_t1Cancel)
macro_rules | `(tactic| pres_leaf) => `(tactic| exact pres_of_frame frame_t2Cancel)
macro_rules | `(tactic| pres_leaf) => `(tactic| exact pres_of_frame frame_t3Cancel)
macro_rules | `(tactic| pres_leaf) => `(tactic| exact pres_of_frame frame_rcCancel)
theorem frame_rcStart : Frame rcStart := by unfold rcStart; pres
macro_rules | `(tactic| pres_leaf) => `(tactic| exact pres_of_frame frame_rcStart)
theorem frame_t1Start (c : Chunk) : Frame (t1Start c) := by unfold t1Start; pres
theorem frame_t2Start (c : Chunk) : Frame (t2Start c) := by unfold t2Start; pres
macro_rules | `(tactic| pres_leaf) => `(tactic| exact pres_of_frame (frame_t1Start _))
macro_rules | `(tactic| pres_leaf) => `(tactic| exact pres_of_frame (frame_t2Start _))

theorem frame_transmitReconfig : Frame transmitReconfig := by
  apply Frame.intro; intro s
  unfold transmitReconfig
  wp_simp
  split
  · split
    · wp_simp; frame_rel
    · wp_simp
      split
      · apply WP.frame (frame_sendChunk _)
        intro r s1 h1
        cases r with
        | error k => exact FrameRel.trans _ _ _ (by frame_rel) h1
        | ok a =>
          apply WP.frame frame_rcStart
          intro r s2 h2
          exact FrameRel.trans _ _ _ (FrameRel.trans _ _ _ (by frame_rel) h1) h2
      all_goals frame_rel
  · wp_simp; frame_rel
macro_rules | `(tactic| pres_leaf) => `(tactic| exact pres_of_frame frame_transmitReconfig)

theorem frame_getInStream (sid : Nat) : Frame (getInStream sid) := by
  unfold getInStream; pres
macro_rules | `(tactic| pres_leaf) => `(tactic| exact pres_of_frame (frame_getInStream _))

theorem frame_setInStream (sid : Nat) (st : InStream) : Frame (setInStream sid st) := by
  unfold setInStream; pres
macro_rules | `(tactic| pres_leaf) => `(tactic| exact pres_of_frame (frame_setInStream _ _))

theorem frame_sendReconfigResponse (n : Nat) : Frame (sendReconfigResponse n) := by
  unfold sendReconfigResponse; pres
macro_rules | `(tactic| pres_leaf) => `(tactic| exact pres_of_frame (frame_sendReconfigResponse _))

theorem frame_getExtensions (ps : List Param) : Frame (getExtensions ps) := by
  unfold getExtensions; pres
macro_rules | `(tactic| pres_leaf) => `(tactic| exact pres_of_frame (frame_getExtensions _))

theorem frame_sendSack : Frame sendSack := by
  unfold sendSack; pres
macro_rules | `(tactic| pres_leaf) => `(tactic| exact pres_of_frame frame_sendSack)

end Aiortc.Sctp
