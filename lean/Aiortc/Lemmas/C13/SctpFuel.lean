import Aiortc.Lemmas.C13.SctpReact
/-!
# The fuel of `flush` suffices: `len(queue) + len(armed reactions) + 1` iterations are never exhausted

`mu e = dcQueue.length + reactions.length` does not increase in any action inside a loop iteration (a handler
that sends consumes its reaction and appends one queue entry) and every iteration pops one entry.
-/
set_option linter.unusedSimpArgs false
set_option linter.unusedVariables false
namespace Aiortc.Sctp
open Aiortc.Gen Aiortc.Sctp.Wire

def mu (e : Ep) : Nat := e.dcQueue.length + e.reactions.length

def MuLe (s s' : St) : Prop := mu s'.1 ≤ mu s.1

def muSpec : Spec :=
  { I := fun _ => True, R := MuLe, okOnly := False, refl := fun _ => Nat.le_refl _,
    trans := fun _ _ _ h1 h2 => Nat.le_trans h2 h1 }

instance : Framed muSpec where
  frame := by
    intro s s' ⟨_, h2, _, _, _, h, _⟩ _
    exact ⟨trivial, by unfold muSpec MuLe mu; simp only; rw [h, h2]; exact Nat.le_refl _⟩

theorem mu_modE (f : Ep → Ep) (h : ∀ e, (f e).reactions = e.reactions) (h2 : ∀ e, (f e).dcQueue = e.dcQueue) :
    Pres muSpec (modE f) := by
  apply Pres.intro; intro s _
  wp_head
  intro _
  exact ⟨trivial, by unfold muSpec MuLe mu; simp only; rw [h, h2]; exact Nat.le_refl _⟩
macro_rules | `(tactic| pres_leaf) => `(tactic| exact mu_modE _ (fun _ => rfl) (fun _ => rfl))
theorem mu_chanSet (i : Nat) (c : Chan) : Pres muSpec (chanSet i c) := mu_modE _ (fun _ => rfl) (fun _ => rfl)
macro_rules | `(tactic| pres_leaf) => `(tactic| exact mu_chanSet _ _)
theorem mu_emit (o : Out) : Pres muSpec (emit o) := by
  apply Pres.intro; intro s _
  wp_head
  exact fun _ => ⟨trivial, Nat.le_refl _⟩
macro_rules | `(tactic| pres_leaf) => `(tactic| exact mu_emit _)

theorem mu_addBufferedCore (i : Nat) (a : Int) : Pres muSpec (addBufferedCore i a) := by
  unfold addBufferedCore; pres
macro_rules | `(tactic| pres_leaf) => `(tactic| exact mu_addBufferedCore _ _)

/-- `_data_channel_send` appends exactly one queue entry -/
theorem wp_dcSend_mu (i : Nat) (isStr : Bool) (d : Bytes) (s1 : St) :
    WP (dcSend i isStr d) (fun _ s' => mu s'.1 ≤ mu s1.1 + 1) s1 := by
  unfold dcSend addBuffered0 addBufferedCore
  wp_simp
  cases s1.1.chans[i]? with
  | none => simp only; unfold mu; omega
  | some c =>
    simp only
    split <;> wp_simp <;> (unfold mu; simp only [List.length_append, List.length_singleton]; omega)

theorem mu_react (k i : Nat) : Pres muSpec (react k i) := by
  apply Pres.intro; intro s _
  rw [react_spec]
  cases ha : armed s.1 k i with
  | none => exact fun _ => ⟨trivial, Nat.le_refl _⟩
  | some r =>
    simp only
    have hm : r ∈ s.1.reactions := List.mem_of_find?_eq_some ha
    have hpos : 0 < s.1.reactions.length := List.length_pos_of_mem hm
    have hl : (s.1.reactions.erase r).length = s.1.reactions.length - 1 := List.length_erase_of_mem hm
    cases s.1.chans[i]? with
    | none => exact fun _ => ⟨trivial, by unfold muSpec MuLe mu; simp only; omega⟩
    | some c =>
      simp only
      split
      · exact fun _ => ⟨trivial, by unfold muSpec MuLe mu; simp only; omega⟩
      · refine WP.mono (wp_dcSend_mu _ _ _ (_, _)) ?_
        intro r' s' h2 _
        refine ⟨trivial, ?_⟩
        unfold muSpec MuLe
        unfold mu at h2 ⊢
        simp only at h2 ⊢
        omega
macro_rules | `(tactic| pres_leaf) => `(tactic| exact mu_react _ _)

theorem mu_setReady (i st : Nat) : Pres muSpec (setReady i st) := by
  unfold setReady; pres
macro_rules | `(tactic| pres_leaf) => `(tactic| exact mu_setReady _ _)
theorem mu_addBuffered (i : Nat) (a : Int) : Pres muSpec (addBuffered i a) := by
  unfold addBuffered; pres
macro_rules | `(tactic| pres_leaf) => `(tactic| exact mu_addBuffered _ _)

/-- the loop condition `self._data_channel_queue and not self._outbound_queue` is false -/
def LoopDone (r : Except String Unit) (s' : St) : Prop :=
  IsOk r → (s'.1.dcQueue = [] ∨ s'.1.tx.outQ.isEmpty = false)

macro "mu_le" : tactic =>
  `(tactic| ((try simp only [muSpec, MuLe, mu] at *); (try dsimp only at *); omega))

/-- **The fuel of `flush` suffices.** Started with at least `len(queue) + len(reactions) + 1` units of fuel, the loop only
returns normally when its real exit condition holds (queue empty or outbound queue non-empty) - never because the
fuel ran out - although handlers running inside the loop may append entries. -/
theorem flushLoop_fuel (fuel : Nat) : ∀ s : St, mu s.1 + 1 ≤ fuel → WP (flushLoop fuel) LoopDone s := by
  induction fuel with
  | zero => intro s h; omega
  | succ n ih =>
    intro s h
    unfold flushLoop
    wp_head
    split
    · rename_i hq
      wp_head
      exact fun _ => Or.inl hq
    · rename_i i ppid data rest hq
      have hlen : s.1.dcQueue.length = rest.length + 1 := by rw [hq]; simp
      split
      · rename_i ho
        wp_head
        exact fun _ => Or.inr (by simpa using ho)
      · repeat' (first
          | exact fun h => h.elim
          | exact ih _ (by mu_le)
          | wp_head
          | split
          | (refine WP.call_bind (S := muSpec) (s := (_, _)) ?_ trivial ?_
             (first | with_reducible pres_leaf | fail "no leaf")
             intro r s1 h1
             have h1 := (h1 (fun h => h.elim)).2
             rcases r with k | u <;> (try simp only)))

end Aiortc.Sctp
