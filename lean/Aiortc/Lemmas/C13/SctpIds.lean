import Aiortc.Model.Sctp.Endpoint
/-!
# Id allocation in `_data_channel_flush`: `while stream_id in self._data_channels: stream_id += 2`

`flushLoop.pick e fuel s` is that loop with fuel `len(_data_channels) + 1`.  It keeps the parity of the
start value and (pigeonhole) always finds an id that is not registered.
-/
namespace Aiortc.Sctp

theorem dict_pigeon {β : Type} (l : List (Nat × β)) (ks : List Nat) (hn : ks.Nodup)
    (h : ∀ k ∈ ks, (dictGet l k).isSome) : ks.length ≤ l.length := by
  induction l generalizing ks with
  | nil =>
    cases ks with
    | nil => simp
    | cons k t =>
      have := h k (by simp)
      simp [dictGet] at this
  | cons a t ih =>
    have h' : ∀ k ∈ ks.erase a.1, (dictGet t k).isSome := by
      intro k hk
      have hk' := (List.Nodup.mem_erase_iff hn).1 hk
      have := h k hk'.2
      have hne : (a.1 == k) = false := by
        simp only [beq_eq_false_iff_ne, ne_eq]
        exact fun h => hk'.1 h.symm
      simpa [dictGet, List.find?_cons, hne] using this
    have := ih (ks.erase a.1) (hn.erase _) h'
    by_cases ha : a.1 ∈ ks
    · rw [List.length_erase_of_mem ha] at this
      simp only [List.length_cons]
      omega
    · rw [List.erase_of_not_mem ha] at this
      simp only [List.length_cons]
      omega

theorem pick_spec (e : Ep) (fuel s : Nat) :
    dictGet e.dataChannels (flushLoop.pick e fuel s) = none ∨
      ∀ j, j < fuel → (dictGet e.dataChannels (s + 2 * j)).isSome := by
  induction fuel generalizing s with
  | zero => right; intro j hj; omega
  | succ n ih =>
    simp only [flushLoop.pick]
    split
    · rename_i hs
      rcases ih (s + 2) with h | h
      · left; exact h
      · right
        intro j hj
        cases j with
        | zero => simpa using hs
        | succ j =>
          have := h j (by omega)
          have e2 : s + 2 * (j + 1) = s + 2 + 2 * j := by omega
          rw [e2]; exact this
    · rename_i hs
      left
      cases h : dictGet e.dataChannels s with
      | none => rfl
      | some v => rw [h] at hs; simp at hs

/-- the id chosen for a channel without id is not in use -/
theorem pick_free (e : Ep) (s : Nat) :
    dictGet e.dataChannels (flushLoop.pick e (e.dataChannels.length + 1) s) = none := by
  rcases pick_spec e (e.dataChannels.length + 1) s with h | h
  · exact h
  · exfalso
    have hn : ((List.range (e.dataChannels.length + 1)).map (fun j => s + 2 * j)).Nodup := by
      rw [List.nodup_iff_pairwise_ne, List.pairwise_map]
      have := List.nodup_iff_pairwise_ne.1 (List.nodup_range (n := e.dataChannels.length + 1))
      exact this.imp (fun {a b} hab => by omega)
    have := dict_pigeon e.dataChannels _ hn (by
      intro k hk
      obtain ⟨j, hj, rfl⟩ := List.mem_map.1 hk
      exact h j (List.mem_range.1 hj))
    simp at this
    omega

end Aiortc.Sctp
