import Aiortc.Lemmas.C13.SctpFrame
/-!
# Data channel lifecycle: the forward-only step relation and its basic update lemmas

`FwdRel s s'` relates the endpoint state/output log before and after (part of) a step:
* every channel object survives at its index, its `ready` does not decrease, its parameters never
  change, an id once set stays, and an id that gets *assigned* has the parity of the endpoint's role;
* for every channel index `i` and event kind (open, close, datachannel) the number of such events in
  the log plus the "budget" still available to the channel (1 while it has not yet been open /
  closed / announced, 0 afterwards) never increases - hence at most one event of each kind per channel.
-/
namespace Aiortc.Sctp
open Aiortc.Gen Aiortc.Sctp.Wire

inductive Kind where
  | opened | closed | announced
  deriving DecidableEq, Repr

/-- is `o` the event of kind `k` for channel `i` -/
def Kind.ev : Kind → Nat → Out → Bool
  | .opened, i, .evOpen j => j == i
  | .closed, i, .evClose j => j == i
  | .announced, i, .evChannel j => j == i
  | _, _, _ => false

/-- may the event of kind `k` still happen for a channel in this state -/
def Kind.pending : Kind → Chan → Bool
  | .opened, c => c.ready = 0
  | .closed, c => c.ready < 3
  | .announced, _ => false   -- a `datachannel` event is only possible for an index that does not exist yet

def bud (k : Kind) (e : Ep) (i : Nat) : Nat :=
  match e.chans[i]? with
  | some c => if k.pending c then 1 else 0
  | none => 1

/-- 0 on the side with `is_server` (even ids), 1 on the other side (odd ids) -/
def parity (e : Ep) : Nat := if e.isServer then 0 else 1

structure ChanStep (par : Nat) (c c' : Chan) : Prop where
  ready : c.ready ≤ c'.ready
  label : c'.label = c.label
  protocol : c'.protocol = c.protocol
  ordered : c'.ordered = c.ordered
  maxRetransmits : c'.maxRetransmits = c.maxRetransmits
  maxPacketLifeTime : c'.maxPacketLifeTime = c.maxPacketLifeTime
  negotiated : c'.negotiated = c.negotiated
  id_keep : ∀ s, c.id = some s → c'.id = some s
  id_auto : c.id = none → ∀ s, c'.id = some s → s % 2 = par ∧ s ≤ 65535

theorem ChanStep.refl (par : Nat) (c : Chan) : ChanStep par c c :=
  ⟨Nat.le_refl _, rfl, rfl, rfl, rfl, rfl, rfl, fun _ h => h, fun h s hs => by rw [h] at hs; cases hs⟩

theorem ChanStep.trans {par : Nat} {a b c : Chan} (h1 : ChanStep par a b) (h2 : ChanStep par b c) :
    ChanStep par a c := by
  refine ⟨Nat.le_trans h1.ready h2.ready, h2.label.trans h1.label, h2.protocol.trans h1.protocol,
    h2.ordered.trans h1.ordered, h2.maxRetransmits.trans h1.maxRetransmits,
    h2.maxPacketLifeTime.trans h1.maxPacketLifeTime, h2.negotiated.trans h1.negotiated,
    fun s h => h2.id_keep s (h1.id_keep s h), ?_⟩
  intro ha s hs
  cases hb : b.id with
  | none => exact h2.id_auto hb s hs
  | some t =>
    have := h2.id_keep t hb
    rw [this] at hs
    have hts : t = s := Option.some.inj hs
    subst hts
    exact h1.id_auto ha t hb

def FwdRel (s s' : St) : Prop :=
  s'.1.isServer = s.1.isServer ∧
  (∀ (i : Nat) c, s.1.chans[i]? = some c → ∃ c', s'.1.chans[i]? = some c' ∧ ChanStep (parity s.1) c c') ∧
  (∀ k (i : Nat), s'.2.countP (Kind.ev k i) + bud k s'.1 i ≤ s.2.countP (Kind.ev k i) + bud k s.1 i)

theorem FwdRel.refl (s : St) : FwdRel s s :=
  ⟨rfl, fun _ c h => ⟨c, h, ChanStep.refl _ c⟩, fun _ _ => Nat.le_refl _⟩

theorem FwdRel.trans (a b c : St) (h1 : FwdRel a b) (h2 : FwdRel b c) : FwdRel a c := by
  obtain ⟨a1, a2, a3⟩ := h1
  obtain ⟨b1, b2, b3⟩ := h2
  refine ⟨b1.trans a1, ?_, fun k i => Nat.le_trans (b3 k i) (a3 k i)⟩
  intro i x hx
  obtain ⟨y, hy, hxy⟩ := a2 i x hx
  obtain ⟨z, hz, hyz⟩ := b2 i y hy
  have hp : parity b.1 = parity a.1 := by unfold parity; rw [a1]
  rw [hp] at hyz
  exact ⟨z, hz, hxy.trans hyz⟩

theorem FwdRel.length_le {s s' : St} (h : FwdRel s s') : s.1.chans.length ≤ s'.1.chans.length := by
  by_cases hl : s.1.chans.length = 0
  · omega
  · have hlt : s.1.chans.length - 1 < s.1.chans.length := by omega
    obtain ⟨c', hc', _⟩ := h.2.1 (s.1.chans.length - 1) _ (List.getElem?_eq_getElem hlt)
    have := (List.getElem?_eq_some_iff.1 hc').1
    omega

/-- every `ready` is one of the four states; the id allocator starts at the role's parity -/
def LifeInv (e : Ep) : Prop :=
  (∀ c ∈ e.chans, c.ready ≤ 3) ∧ (∀ d, e.dcId = some d → d = parity e)

def fwdSpec : Spec :=
  { I := LifeInv, R := FwdRel, okOnly := False, refl := FwdRel.refl, trans := FwdRel.trans }

theorem countP_ev_of_not_chanEv {l2 : List Out} (h : ∀ o ∈ l2, o.isChanEv = false) (k : Kind) (i : Nat) :
    l2.countP (Kind.ev k i) = 0 := by
  rw [List.countP_eq_zero]
  intro o ho
  have := h o ho
  cases k <;> cases o <;> simp_all [Kind.ev, Out.isChanEv]

/-- the state keeps its channel objects (other fields may change), outputs are not channel events -/
theorem fwd_same {s : St} (hI : LifeInv s.1) {e' : Ep} {l' : List Out} {l2 : List Out}
    (hch : e'.chans = s.1.chans) (hsrv : e'.isServer = s.1.isServer)
    (hdc : ∀ d, e'.dcId = some d → d = parity s.1)
    (hl : l' = s.2 ++ l2) (hev : ∀ o ∈ l2, o.isChanEv = false) :
    LifeInv e' ∧ FwdRel s (e', l') := by
  subst hl
  have hp : parity e' = parity s.1 := by unfold parity; rw [hsrv]
  refine ⟨⟨by rw [hch]; exact hI.1, by rw [hp]; exact hdc⟩, hsrv, ?_, ?_⟩
  · intro i c hc
    exact ⟨c, by simpa [hch] using hc, ChanStep.refl _ c⟩
  · intro k i
    simp only [List.countP_append, countP_ev_of_not_chanEv hev, bud, hch]
    omega

instance : Framed fwdSpec where
  frame := by
    intro s s' ⟨h1, _, _, h4, h5, _, l2, h6, h7⟩ hI
    have : s' = (s'.1, s'.2) := rfl
    rw [this]
    exact fwd_same hI h1 h5 (by rw [h4]; exact hI.2) h6 h7

/-- channel object `i` is replaced by a later version of itself -/
theorem fwd_set {s : St} (hI : LifeInv s.1) {e' : Ep} {l' l2 : List Out} {i : Nat} {c c' : Chan}
    (hc : s.1.chans[i]? = some c)
    (hch : e'.chans = s.1.chans.set i c') (hsrv : e'.isServer = s.1.isServer)
    (hdc : ∀ d, e'.dcId = some d → d = parity s.1)
    (hl : l' = s.2 ++ l2)
    (hstep : ChanStep (parity s.1) c c') (h3 : c'.ready ≤ 3)
    (hev : ∀ k, l2.countP (Kind.ev k i) + (if k.pending c' then 1 else 0) ≤ (if k.pending c then 1 else 0))
    (hoth : ∀ k j, j ≠ i → l2.countP (Kind.ev k j) = 0) :
    LifeInv e' ∧ FwdRel s (e', l') := by
  subst hl
  have hp : parity e' = parity s.1 := by unfold parity; rw [hsrv]
  have hlt : i < s.1.chans.length := (List.getElem?_eq_some_iff.1 hc).1
  refine ⟨⟨?_, by rw [hp]; exact hdc⟩, hsrv, ?_, ?_⟩
  · intro x hx
    rw [hch] at hx
    rcases List.mem_or_eq_of_mem_set hx with h | h
    · exact hI.1 x h
    · rw [h]; exact h3
  · intro j x hx
    by_cases hj : i = j
    · subst hj
      rw [hc] at hx; cases hx
      exact ⟨c', by simp [hch, List.getElem?_set_self hlt], hstep⟩
    · exact ⟨x, by simpa [hch, List.getElem?_set_ne hj] using hx, ChanStep.refl _ x⟩
  · intro k j
    simp only [List.countP_append, bud, hch]
    by_cases hj : i = j
    · subst hj
      rw [List.getElem?_set_self hlt, hc]
      have := hev k
      simp only at this ⊢
      omega
    · rw [List.getElem?_set_ne hj, hoth k j (Ne.symm hj)]
      omega

/-- a new channel object is appended -/
theorem fwd_push {s : St} (hI : LifeInv s.1) {e' : Ep} {l' l2 : List Out} {c' : Chan}
    (hch : e'.chans = s.1.chans ++ [c']) (hsrv : e'.isServer = s.1.isServer)
    (hdc : ∀ d, e'.dcId = some d → d = parity s.1)
    (hl : l' = s.2 ++ l2) (h3 : c'.ready ≤ 3)
    (hev : ∀ o ∈ l2, o.isChanEv = false) :
    LifeInv e' ∧ FwdRel s (e', l') := by
  subst hl
  have hp : parity e' = parity s.1 := by unfold parity; rw [hsrv]
  refine ⟨⟨?_, by rw [hp]; exact hdc⟩, hsrv, ?_, ?_⟩
  · intro x hx
    rw [hch] at hx
    rcases List.mem_append.1 hx with h | h
    · exact hI.1 x h
    · simp at h; rw [h]; exact h3
  · intro j x hx
    have hlt : j < s.1.chans.length := (List.getElem?_eq_some_iff.1 hx).1
    exact ⟨x, by simpa [hch, List.getElem?_append_left hlt] using hx, ChanStep.refl _ x⟩
  · intro k j
    simp only [List.countP_append, countP_ev_of_not_chanEv hev, bud, hch]
    by_cases hlt : j < s.1.chans.length
    · rw [List.getElem?_append_left hlt]; omega
    · have : s.1.chans[j]? = none := List.getElem?_eq_none_iff.2 (by omega)
      rw [this]
      cases h : (s.1.chans ++ [c'])[j]? with
      | none => simp
      | some y => simp only; split <;> omega

end Aiortc.Sctp
