import Aiortc.Lemmas.C13.SctpLifeRecv
/-!
# Forward steps: `createChannel`, `runTask`, `handle`, `step`
-/
set_option linter.unusedSimpArgs false
set_option linter.unusedVariables false
namespace Aiortc.Sctp
open Aiortc.Gen Aiortc.Sctp.Wire

/-- a channel object is appended, then a compositional rest -/
macro "fwd_push_rest" hI:term : tactic =>
  `(tactic| (refine WP.push_then $hI ?_ ?_ ?_ ?_
             · exact ⟨_, rfl, by simp⟩
             · rfl
             · exact ($hI).2
             · intro hI1 h01; exact WP.pres_after (S := fwdSpec) (by pres) hI1 h01))

macro "fwd_push_close" hI:term : tactic =>
  `(tactic| first
     | exact fun _ => fwd_push $hI rfl rfl ($hI).2 rfl (by simp) (by simp [Out.isChanEv])
     | exact fun _ => fwd_push $hI (l2 := []) rfl rfl ($hI).2 (by simp) (by simp) (by simp))

/-- symbolic execution to the end for handlers made of primitive operations only -/
macro "fwd_auto" hI:term : tactic =>
  `(tactic| repeat' (first
     | (intro _; fwd_keep $hI)
     | fwd_push_close $hI
     | wp_head
     | split))

theorem fwd_createChannel (p : CreateParams) : Pres fwdSpec (createChannel p) := by
  apply Pres.intro; intro s hI
  unfold createChannel
  fwd_auto hI
macro_rules | `(tactic| pres_leaf) => `(tactic| exact fwd_createChannel _)

theorem fwd_runTask : Pres fwdSpec runTask := by
  apply Pres.intro; intro s hI
  unfold runTask
  wp_head
  split
  · wp_head; intro _; fwd_keep hI
  · wp_head; fwd_rest hI
macro_rules | `(tactic| pres_leaf) => `(tactic| exact fwd_runTask)

theorem fwd_handle (inp : Input) : Pres fwdSpec (handle inp) := by
  unfold handle
  split
  all_goals try (solve | pres)
  · -- start
    apply Pres.intro; intro s hI
    wp_head
    split
    · wp_head
      refine WP.keep_then0 hI ?_ ?_ ?_ ?_
      · rfl
      · rfl
      · intro d hd; exact (Option.some.inj hd).symm
      · intro hI1 h01; exact WP.pres_after (S := fwdSpec) (by pres) hI1 h01
    · wp_head; intro _; fwd_keep hI
  · -- fire t3
    apply Pres.intro; intro s hI
    wp_head; intro _; fwd_keep hI
  · -- threshold
    rename_i x i v
    apply Pres.intro; intro s hI
    split
    · wp_head; intro _; fwd_keep hI
    · wp_head
      cases hc : s.1.chans[i]? with
      | none => simp only; fwd_triv hI
      | some c =>
        simp only
        intro _
        exact fwd_set hI hc rfl rfl hI.2 (l2 := []) (by simp)
          ⟨Nat.le_refl _, rfl, rfl, rfl, rfl, rfl, rfl, fun _ h => h, fun h s hs => by simp [h] at hs⟩
          (hI.1 c (List.mem_of_getElem? hc)) (by ev_self) (by ev_other)

/-! ## one atomic step, and runs -/

/-- the log before the step does not matter -/
theorem FwdRel.shift {e e' : Ep} {o : List Out} (h : FwdRel (e, []) (e', o)) (l : List Out) :
    FwdRel (e, l) (e', l ++ o) := by
  refine ⟨h.1, h.2.1, ?_⟩
  intro k i
  have := h.2.2 k i
  simp only [List.countP_append, List.countP_nil] at this ⊢
  omega

theorem step_forward (e : Ep) (now : Int) (inp : Input) (hI : LifeInv e) :
    LifeInv (step e now inp).1 ∧ FwdRel (e, []) (step e now inp) := by
  have h0 : LifeInv { e with now := now } ∧ FwdRel (e, []) ({ e with now := now }, []) :=
    fwd_same (s := (e, [])) hI (l2 := []) rfl rfl hI.2 (by simp) (by simp)
  have h1 := (fwd_handle inp).out ({ e with now := now }, []) h0.1
  rw [WP.def] at h1
  have h2 := h1 (fun h => h.elim)
  unfold step
  simp only
  unfold run at h2
  cases hr : (handle inp).run.run ({ e with now := now }, []) with
  | mk r s' =>
    rw [hr] at h2
    obtain ⟨e', outs⟩ := s'
    cases r with
    | ok u => exact ⟨h2.1, FwdRel.trans _ _ _ h0.2 h2.2⟩
    | error k =>
      simp only
      have h3 := fwd_same (s := (e', outs)) h2.1 (e' := e') (l2 := [Out.crash k]) rfl rfl h2.1.2 rfl
        (by simp [Out.isChanEv])
      exact ⟨h3.1, FwdRel.trans _ _ _ h0.2 (FwdRel.trans _ _ _ h2.2 h3.2)⟩

/-- a run: inputs with their clock values, outputs concatenated -/
def runSteps (e : Ep) : List (Int × Input) → Ep × List Out
  | [] => (e, [])
  | (now, inp) :: rest =>
    let r1 := step e now inp
    let r2 := runSteps r1.1 rest
    (r2.1, r1.2 ++ r2.2)

theorem runSteps_append (e : Ep) (a b : List (Int × Input)) :
    runSteps e (a ++ b) =
      ((runSteps (runSteps e a).1 b).1, (runSteps e a).2 ++ (runSteps (runSteps e a).1 b).2) := by
  induction a generalizing e with
  | nil => simp [runSteps]
  | cons x a ih =>
    obtain ⟨now, inp⟩ := x
    simp only [List.cons_append, runSteps, ih, List.append_assoc]

theorem run_forward (e : Ep) (ins : List (Int × Input)) (hI : LifeInv e) :
    LifeInv (runSteps e ins).1 ∧ FwdRel (e, []) (runSteps e ins) := by
  induction ins generalizing e with
  | nil => exact ⟨hI, FwdRel.refl _⟩
  | cons x rest ih =>
    obtain ⟨now, inp⟩ := x
    have h1 := step_forward e now inp hI
    have h2 := ih (step e now inp).1 h1.1
    refine ⟨h2.1, ?_⟩
    have h3 := FwdRel.shift (e := (step e now inp).1) h2.2 (step e now inp).2
    exact FwdRel.trans _ _ _ h1.2 h3

end Aiortc.Sctp
