import Aiortc.Lemmas.C13.SctpLifeSteps
/-!
# Forward steps, continued: `dcReceive` (DATA_CHANNEL_OPEN / ACK / user messages), the receive path,
`createChannel`, `runTask`, `handle`
-/
set_option linter.unusedSimpArgs false
set_option linter.unusedVariables false
namespace Aiortc.Sctp
open Aiortc.Gen Aiortc.Sctp.Wire

theorem fwd_announce {s : St} {e1 : Ep} {c : Chan}
    (hch1 : e1.chans = s.1.chans ++ [c])
    (h01 : FwdRel s (e1, s.2))
    {s2 : St} (hI2 : LifeInv s2.1) (hR : FwdRel (e1, s.2) s2)
    {c2 : Chan} (hc2 : s2.1.chans[s.1.chans.length]? = some c2)
    {e3 : Ep} (hch3 : e3.chans = s2.1.chans.set s.1.chans.length { c2 with silent := false })
    (hsrv3 : e3.isServer = s2.1.isServer) (hdc3 : e3.dcId = s2.1.dcId) :
    LifeInv e3 ∧ FwdRel s (e3, s2.2 ++ [.evChannel s.1.chans.length]) := by
  have h02 := FwdRel.trans _ _ _ h01 hR
  have hlt : s.1.chans.length < s2.1.chans.length := (List.getElem?_eq_some_iff.1 hc2).1
  have hp3 : parity e3 = parity s2.1 := by unfold parity; rw [hsrv3]
  refine ⟨⟨?_, ?_⟩, hsrv3.trans h02.1, ?_, ?_⟩
  · intro x hx; rw [hch3] at hx
    rcases List.mem_or_eq_of_mem_set hx with h | h
    · exact hI2.1 x h
    · rw [h]; exact hI2.1 c2 (List.mem_of_getElem? hc2)
  · rw [hp3, hdc3]; exact hI2.2
  · intro j x hx
    obtain ⟨y, hy, hxy⟩ := h02.2.1 j x hx
    have hjlt := (List.getElem?_eq_some_iff.1 hx).1
    have hj : s.1.chans.length ≠ j := by omega
    exact ⟨y, by simpa [hch3, List.getElem?_set_ne hj] using hy, hxy⟩
  · intro k j
    have a := h01.2.2 k j
    have b := hR.2.2 k j
    simp only [List.countP_append, bud, hch3, hch1] at a b ⊢
    by_cases hj : s.1.chans.length = j
    · subst hj
      rw [List.getElem?_set_self hlt]
      rw [hc2] at b
      have hn : s.1.chans[s.1.chans.length]? = none := List.getElem?_eq_none_iff.2 (Nat.le_refl _)
      rw [hn]
      rw [List.getElem?_concat_length] at b
      simp only at b ⊢
      clear a
      have h1 : (if c.ready = 0 then 1 else 0) ≤ 1 := by split <;> omega
      have h2 : (if c.ready < 3 then 1 else 0) ≤ 1 := by split <;> omega
      cases k <;> simp [Kind.ev, Kind.pending] at b ⊢ <;> omega
    · rw [List.getElem?_set_ne hj]
      have : [Out.evChannel s.1.chans.length].countP (Kind.ev k j) = 0 := by
        cases k <;> simp [Kind.ev] <;> omega
      rw [this]
      omega

theorem WP.push_then {α : Type} {s : St} (hI : LifeInv s.1) {E1 : Ep}
    (hch : ∃ c' : Chan, E1.chans = s.1.chans ++ [c'] ∧ c'.ready ≤ 3) (hsrv : E1.isServer = s.1.isServer)
    (hdc : ∀ d, E1.dcId = some d → d = parity s.1) {x : M α} {Q}
    (k : LifeInv E1 → FwdRel s (E1, s.2) → WP x Q (E1, s.2)) : WP x Q (E1, s.2) := by
  obtain ⟨c', hch, h3⟩ := hch
  have := fwd_push hI (l' := s.2) (l2 := []) hch hsrv hdc (by simp) h3 (by simp)
  exact k this.1 this.2

macro "fwd_triv" hI:term : tactic =>
  `(tactic| first
    | exact fun _ => ⟨$hI, FwdRel.refl _⟩
    | exact fun _ => fwd_same $hI rfl rfl ($hI).2 rfl (by simp [Out.isChanEv]))

theorem WP.keep_then0 {α : Type} {s : St} (hI : LifeInv s.1) {E1 : Ep}
    (hch : E1.chans = s.1.chans) (hsrv : E1.isServer = s.1.isServer)
    (hdc : ∀ d, E1.dcId = some d → d = parity s.1) {x : M α} {Q}
    (k : LifeInv E1 → FwdRel s (E1, s.2) → WP x Q (E1, s.2)) : WP x Q (E1, s.2) := by
  have := fwd_same hI (l' := s.2) (l2 := []) hch hsrv hdc (by simp) (by simp)
  exact k this.1 this.2

theorem WP.keep_then {α : Type} {s : St} (hI : LifeInv s.1) {E1 : Ep} {l2 : List Out}
    (hch : E1.chans = s.1.chans) (hsrv : E1.isServer = s.1.isServer)
    (hdc : ∀ d, E1.dcId = some d → d = parity s.1) (hev : ∀ o ∈ l2, o.isChanEv = false) {x : M α} {Q}
    (k : LifeInv E1 → FwdRel s (E1, s.2 ++ l2) → WP x Q (E1, s.2 ++ l2)) : WP x Q (E1, s.2 ++ l2) := by
  have := fwd_same hI (l' := s.2 ++ l2) (l2 := l2) hch hsrv hdc rfl hev
  exact k this.1 this.2

theorem fwd_dcReceive (sid ppid : Nat) (data : Bytes) : Pres fwdSpec (dcReceive sid ppid data) := by
  apply Pres.intro; intro s hI
  unfold dcReceive
  wp_head
  split
  · split
    · split
      · wp_head; fwd_triv hI
      · split
        · wp_head; fwd_triv hI
        · wp_head
          refine WP.push_then hI ?_ ?_ ?_ ?_
          · exact ⟨_, rfl, by simp⟩
          · rfl
          · exact hI.2
          intro hI1 h01
          refine WP.call_bind (s := (_, _)) fwd_flush hI1 ?_
          intro r s2 h2
          obtain ⟨hI2, h12⟩ := h2 (fun h => h.elim)
          cases r with
          | error k => exact fun _ => ⟨hI2, FwdRel.trans _ _ _ h01 h12⟩
          | ok u =>
            simp only
            wp_head
            split
            · wp_head
              obtain ⟨c2, hc2, _⟩ := h12.2.1 s.1.chans.length _ (List.getElem?_concat_length)
              rw [hc2]
              (try simp only)
              (try wp_head)
              refine WP.pres_after (S := fwdSpec) (s1 := (_, _)) (fwd_react 4 _) ?_ ?_
              · refine (fwd_announce rfl h01 hI2 h12 hc2 ?_ ?_ ?_).1 <;> rfl
              · refine (fwd_announce rfl h01 hI2 h12 hc2 ?_ ?_ ?_).2 <;> rfl
            · wp_head; exact fun _ => ⟨hI2, FwdRel.trans _ _ _ h01 h12⟩
    · split
      · split
        · wp_head; fwd_triv hI
        · rename_i i hi
          wp_head
          cases hc : s.1.chans[i]? with
          | none => simp only; fwd_triv hI
          | some c =>
            simp only
            split
            · rename_i h0
              refine WP.mono (wp_setReady hI i 1 ?_ (by omega)) (fun _ _ h _ => h)
              intro c' hc'; rw [hc] at hc'; cases hc'; omega
            · wp_head; fwd_triv hI
      · wp_head; fwd_triv hI
  · split
    · wp_head; fwd_triv hI
    · rename_i i hi
      wp_head
      cases hc : s.1.chans[i]? with
      | none => simp only; fwd_triv hI
      | some c =>
        simp only
        repeat' split
        all_goals (try wp_head)
        all_goals first
          | fwd_triv hI
          | (refine WP.keep_then hI ?_ ?_ ?_ ?_ ?_
             · rfl
             · rfl
             · exact hI.2
             · simp [Out.isChanEv]
             · intro hI1 h01; exact WP.pres_after (S := fwdSpec) (fwd_react 3 _) hI1 h01)
macro_rules | `(tactic| pres_leaf) => `(tactic| exact fwd_dcReceive _ _ _)

theorem fwd_deliver (msgs : List Msg) : Pres fwdSpec (deliver msgs) := by
  unfold deliver; pres
macro_rules | `(tactic| pres_leaf) => `(tactic| exact fwd_deliver _)

theorem fwd_receiveData (c : RChunk) : Pres fwdSpec (receiveData c) := by
  apply Pres.intro; intro s hI
  unfold receiveData
  wp_head
  split
  · wp_head
    split
    · wp_head; intro _; exact fwd_same hI (l2 := []) rfl rfl hI.2 (by simp) (by simp)
    · refine WP.pres_after (S := fwdSpec) ?_ ?_ ?_
      · pres
      · exact (fwd_same hI (l' := s.2) (l2 := []) rfl rfl hI.2 (by simp) (by simp)).1
      · exact (fwd_same hI (l' := s.2) (l2 := []) rfl rfl hI.2 (by simp) (by simp)).2
  · wp_head; intro _; exact fwd_same hI (l2 := []) rfl rfl hI.2 (by simp) (by simp)
macro_rules | `(tactic| pres_leaf) => `(tactic| exact fwd_receiveData _)

theorem pres_chanGet {S : Spec} (i : Nat) : Pres S (chanGet i) := by
  apply Pres.intro; intro s hI
  rw [WP_chanGet]
  cases s.1.chans[i]? <;> exact fun _ => ⟨hI, S.refl s⟩
macro_rules | `(tactic| pres_leaf) => `(tactic| exact pres_chanGet _)

macro "fwd_keep" hI:term : tactic =>
  `(tactic| first
    | exact fwd_same $hI rfl rfl ($hI).2 rfl (by simp [Out.isChanEv])
    | exact fwd_same $hI (l2 := []) rfl rfl ($hI).2 (by simp) (by simp))

/-- continue compositionally after a prefix that kept the channel objects -/
macro "fwd_rest" hI:term : tactic =>
  `(tactic| first
    | (refine WP.keep_then0 $hI ?_ ?_ ?_ ?_
       · rfl
       · rfl
       · exact ($hI).2
       · intro hI1 h01; exact WP.pres_after (S := fwdSpec) (by pres) hI1 h01)
    | (refine WP.keep_then $hI ?_ ?_ ?_ ?_ ?_
       · rfl
       · rfl
       · exact ($hI).2
       · simp [Out.isChanEv]
       · intro hI1 h01; exact WP.pres_after (S := fwdSpec) (by pres) hI1 h01))

theorem fwd_receiveForwardTsn (cum : Int) (streams : List (Nat × Nat)) :
    Pres fwdSpec (receiveForwardTsn cum streams) := by
  apply Pres.intro; intro s hI
  unfold receiveForwardTsn
  wp_head
  split
  · wp_head
    split
    · wp_head; intro _; fwd_keep hI
    · wp_head; fwd_rest hI
  · wp_head; intro _; fwd_keep hI
macro_rules | `(tactic| pres_leaf) => `(tactic| exact fwd_receiveForwardTsn _ _)

theorem fwd_receiveReconfigParam (p : RcParam) : Pres fwdSpec (receiveReconfigParam p) := by
  unfold receiveReconfigParam; pres
macro_rules | `(tactic| pres_leaf) => `(tactic| exact fwd_receiveReconfigParam _)

theorem fwd_receiveSack (cum : Nat) (gaps : List (Nat × Nat)) : Pres fwdSpec (receiveSack cum gaps) := by
  apply Pres.intro; intro s hI
  unfold receiveSack
  wp_head
  split
  · wp_head; intro _; fwd_keep hI
  · split <;> (try wp_head) <;> split <;> (try wp_head) <;> (try split) <;> (try wp_head)
    all_goals first | (intro _; fwd_keep hI) | fwd_rest hI
macro_rules | `(tactic| pres_leaf) => `(tactic| exact fwd_receiveSack _ _)

theorem fwd_receiveChunk (cookie : Bytes) (c : Chunk) : Pres fwdSpec (receiveChunk cookie c) := by
  unfold receiveChunk; pres
macro_rules | `(tactic| pres_leaf) => `(tactic| exact fwd_receiveChunk _ _)

theorem fwd_handleData (data cookie : Bytes) : Pres fwdSpec (handleData data cookie) := by
  unfold handleData; pres
macro_rules | `(tactic| pres_leaf) => `(tactic| exact fwd_handleData _ _)

end Aiortc.Sctp
