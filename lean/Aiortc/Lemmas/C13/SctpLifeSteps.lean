import Aiortc.Lemmas.C13.SctpLife
/-!
# Every handler of the endpoint automaton makes a forward step (`Pres fwdSpec`)

Bottom-up through the call graph of `Model/Sctp/Endpoint.lean`: `setReady` at its call sites (with the guard
that the real code checks), `addBuffered`, `dcClosed`, `flushLoop`, `flush`, `dcClose`, `setState`,
`dcReceive`, the receive path, `createChannel`, `runTask`, `handle`.
-/
set_option linter.unusedSimpArgs false
set_option linter.unusedVariables false
namespace Aiortc.Sctp
open Aiortc.Gen Aiortc.Sctp.Wire

macro "ev_self" : tactic =>
  `(tactic| (intro k; cases k <;> simp [Kind.ev, Kind.pending] <;>
      first | exact Nat.le_refl _ | omega | (split <;> split <;> omega) | (split <;> omega)))
macro "ev_other" : tactic =>
  `(tactic| (intro k j hj; cases k <;> simp [Kind.ev] <;> omega))

theorem fwd_via {s0 s : St} (hR0 : FwdRel s0 s) {e' : Ep} {l' : List Out}
    (h : LifeInv e' ∧ FwdRel s (e', l')) : LifeInv e' ∧ FwdRel s0 (e', l') :=
  ⟨h.1, FwdRel.trans _ _ _ hR0 h.2⟩

theorem ChanStep.of_ready {par : Nat} {c : Chan} {st : Nat} (h : c.ready ≤ st) :
    ChanStep par c { c with ready := st } :=
  ⟨h, rfl, rfl, rfl, rfl, rfl, rfl, fun _ h => h, fun h s hs => by simp [h] at hs⟩

/-- `_addBufferedAmount` without the application handler -/
theorem fwd_addBufferedCore (i : Nat) (amount : Int) : Pres fwdSpec (addBufferedCore i amount) := by
  apply Pres.intro; intro s hI
  unfold addBufferedCore
  wp_head
  cases hc : s.1.chans[i]? with
  | none => simp only; exact fun _ => ⟨hI, FwdRel.refl s⟩
  | some c =>
    simp only
    have h3 : c.ready ≤ 3 := hI.1 c (List.mem_of_getElem? hc)
    have hst : ChanStep (parity s.1) c { c with buffered := c.buffered + amount } :=
      ⟨Nat.le_refl _, rfl, rfl, rfl, rfl, rfl, rfl, fun _ h => h, fun h s hs => by simp [h] at hs⟩
    split
    · wp_head
      intro _
      refine fwd_set hI hc rfl rfl hI.2 (l2 := [.evLow i]) rfl hst h3 ?_ ?_
      · ev_self
      · ev_other
    · wp_head
      intro _
      refine fwd_set hI hc rfl rfl hI.2 (l2 := []) (by simp) hst h3 ?_ ?_
      · ev_self
      · ev_other
macro_rules | `(tactic| pres_leaf) => `(tactic| exact fwd_addBufferedCore _ _)

theorem fwd_addBuffered0 (i : Nat) (amount : Int) : Pres fwdSpec (addBuffered0 i amount) := by
  unfold addBuffered0; pres
macro_rules | `(tactic| pres_leaf) => `(tactic| exact fwd_addBuffered0 _ _)

/-- changing only the bookkeeping of ids (`dataChannels`, `dcQueue`, …) -/
theorem fwd_modE_same (f : Ep → Ep) (h1 : ∀ e, (f e).chans = e.chans) (h2 : ∀ e, (f e).isServer = e.isServer)
    (h3 : ∀ e, (f e).dcId = e.dcId) : Pres fwdSpec (modE f) := by
  apply Pres.intro; intro s hI
  wp_head
  intro _
  exact fwd_same hI (l2 := []) (h1 _) (h2 _) (by rw [h3]; exact hI.2) (by simp) (by simp)
macro_rules | `(tactic| pres_leaf) => `(tactic| exact fwd_modE_same _ (fun _ => rfl) (fun _ => rfl) (fun _ => rfl))

/-- `_data_channel_send` (from `send()` or from an application handler) -/
theorem fwd_dcSend (i : Nat) (isStr : Bool) (data : Bytes) : Pres fwdSpec (dcSend i isStr data) := by
  unfold dcSend; pres
macro_rules | `(tactic| pres_leaf) => `(tactic| exact fwd_dcSend _ _ _)

/-- an application handler that re-enters `send()`: the reaction is consumed, the channel objects only change
by `bufferedAmount` -/
theorem fwd_react (k i : Nat) : Pres fwdSpec (react k i) := by
  apply Pres.intro; intro s hI
  unfold react
  wp_head
  split
  · wp_head; exact fun _ => ⟨hI, FwdRel.refl s⟩
  · rename_i r hr
    wp_head
    have h1 := fwd_same hI (e' := { s.1 with reactions := s.1.reactions.erase r }) (l' := s.2) (l2 := [])
      rfl rfl hI.2 (by simp) (by simp)
    cases hc : s.1.chans[i]? with
    | none => simp only; exact fun _ => h1
    | some c =>
      simp only
      split
      · wp_head
        intro _
        exact fwd_same hI (l2 := [.rexc i "InvalidStateError"]) rfl rfl hI.2 rfl (by simp [Out.isChanEv])
      · exact WP.pres_after (S := fwdSpec) (fwd_dcSend _ _ _) h1.1 h1.2
macro_rules | `(tactic| pres_leaf) => `(tactic| exact fwd_react _ _)

/-- continue with a forward action after an explicit forward step -/
theorem WP.after_fwd {α : Type} {x : M α} (hx : Pres fwdSpec x) {s : St} {e' : Ep} {l' : List Out}
    (h : LifeInv e' ∧ FwdRel s (e', l')) : WP x (fun _ s' => LifeInv s'.1 ∧ FwdRel s s') (e', l') :=
  WP.call hx h.1 (fun r s' h2 =>
    ⟨(h2 (fun h => h.elim)).1, FwdRel.trans _ _ _ h.2 (h2 (fun h => h.elim)).2⟩)

/-- `_setReadyState(st)` where the caller has checked that the channel is not already beyond `st` -/
theorem wp_setReady {s : St} (hI : LifeInv s.1) (i st : Nat)
    (hpre : ∀ c, s.1.chans[i]? = some c → c.ready ≤ st) (h3 : st ≤ 3) :
    WP (setReady i st) (fun _ s' => LifeInv s'.1 ∧ FwdRel s s') s := by
  unfold setReady
  wp_simp
  cases hc : s.1.chans[i]? with
  | none => simp only; exact ⟨hI, FwdRel.refl s⟩
  | some c =>
    simp only
    have hle := hpre c hc
    split
    · wp_simp
      split
      · split
        · wp_simp
          refine WP.after_fwd (fwd_react 0 i) ?_
          refine fwd_set hI hc rfl rfl hI.2 (l2 := [.evOpen i]) rfl (ChanStep.of_ready hle) h3 ?_ ?_
          · ev_self
          · ev_other
        · split
          · wp_simp
            refine WP.after_fwd (fwd_react 1 i) ?_
            refine fwd_set hI hc rfl rfl hI.2 (l2 := [.evClose i]) rfl (ChanStep.of_ready hle) h3 ?_ ?_
            · ev_self
            · ev_other
          · wp_simp
            refine fwd_set hI hc rfl rfl hI.2 (l2 := []) (by simp) (ChanStep.of_ready hle) h3 ?_ ?_
            · ev_self
            · ev_other
      · wp_simp
        refine fwd_set hI hc rfl rfl hI.2 (l2 := []) (by simp) (ChanStep.of_ready hle) h3 ?_ ?_
        · ev_self
        · ev_other
    · wp_simp; exact ⟨hI, FwdRel.refl s⟩

/-- moving to `closed` is always a forward step -/
theorem fwd_setReady3 (i : Nat) : Pres fwdSpec (setReady i 3) := by
  apply Pres.intro; intro s hI
  refine WP.mono (wp_setReady hI i 3 ?_ (Nat.le_refl _)) (fun _ _ h _ => h)
  intro c hc
  exact hI.1 c (List.mem_of_getElem? hc)
macro_rules | `(tactic| pres_leaf) => `(tactic| exact fwd_setReady3 _)

theorem fwd_addBuffered (i : Nat) (amount : Int) : Pres fwdSpec (addBuffered i amount) := by
  unfold addBuffered; pres
macro_rules | `(tactic| pres_leaf) => `(tactic| exact fwd_addBuffered _ _)

theorem fwd_dcClosed (sid : Nat) : Pres fwdSpec (dcClosed sid) := by
  unfold dcClosed; pres
macro_rules | `(tactic| pres_leaf) => `(tactic| exact fwd_dcClosed _)

theorem pick_parity (e : Ep) (fuel s : Nat) : flushLoop.pick e fuel s % 2 = s % 2 := by
  induction fuel generalizing s with
  | zero => simp [flushLoop.pick]
  | succ n ih =>
    simp only [flushLoop.pick]
    split
    · rw [ih]; omega
    · rfl

theorem fwd_flushLoop (fuel : Nat) : Pres fwdSpec (flushLoop fuel) := by
  induction fuel with
  | zero => unfold flushLoop; exact pres_pure _
  | succ n ih =>
    apply Pres.intro; intro s hI
    unfold flushLoop
    wp_head
    split
    · wp_head; exact fun _ => ⟨hI, FwdRel.refl s⟩
    · rename_i i ppid data rest hq
      split
      · wp_head; exact fun _ => ⟨hI, FwdRel.refl s⟩
      · wp_head
        cases hc : s.1.chans[i]? with
        | none =>
          simp only
          intro _
          exact fwd_same hI (l2 := []) rfl rfl hI.2 (by simp) (by simp)
        | some c =>
          simp only
          have hI1 : LifeInv { s.1 with dcQueue := rest } := hI
          split
          · -- the channel has an id
            wp_head
            refine WP.pres_after (S := fwdSpec) ?_ hI1 ?_
            · pres
            · exact (fwd_same hI (l2 := []) rfl rfl hI.2 (by simp) (by simp)).2
          · -- allocate an id
            rename_i hid
            split
            · rename_i start hstart
              wp_head
              split
              · -- every stream id of the local parity is in use: the channel is closed
                refine WP.pres_after (S := fwdSpec) ?_ hI1 ?_
                · pres
                · exact (fwd_same hI (l2 := []) rfl rfl hI.2 (by simp) (by simp)).2
              rename_i hsmall
              wp_head
              have hpar : start = parity s.1 := hI.2 start hstart
              have hst : ChanStep (parity s.1) c
                  { c with id := some (flushLoop.pick s.1 (s.1.dataChannels.length + 1) start) } := by
                refine ⟨Nat.le_refl _, rfl, rfl, rfl, rfl, rfl, rfl, ?_, ?_⟩
                · intro x h; rw [hid] at h; cases h
                · intro _ x hx
                  have hx' : flushLoop.pick s.1 (s.1.dataChannels.length + 1) start = x := Option.some.inj hx
                  refine ⟨?_, by rw [← hx']; omega⟩
                  rw [← hx', pick_parity, hpar]
                  unfold parity; split <;> rfl
              have hr := fwd_set (s := s) hI (i := i) (c := c)
                (c' := { c with id := some (flushLoop.pick s.1 (s.1.dataChannels.length + 1) start) })
                (e' := { s.1 with dcQueue := rest
                                  dataChannels := s.1.dataChannels ++
                                    [(flushLoop.pick s.1 (s.1.dataChannels.length + 1) start, i)]
                                  chans := s.1.chans.set i
                                    { c with id := some (flushLoop.pick s.1 (s.1.dataChannels.length + 1) start) } })
                (l' := s.2) (l2 := []) hc rfl rfl hI.2 (by simp) hst
                (hI.1 c (List.mem_of_getElem? hc)) (by ev_self) (by ev_other)
              refine WP.pres_after (S := fwdSpec) ?_ hr.1 hr.2
              pres
            · wp_head
              intro _
              exact fwd_same hI (l2 := []) rfl rfl hI.2 (by simp) (by simp)
macro_rules | `(tactic| pres_leaf) => `(tactic| exact fwd_flushLoop _)

theorem fwd_flush : Pres fwdSpec flush := by
  unfold flush; pres
macro_rules | `(tactic| pres_leaf) => `(tactic| exact fwd_flush)

/-- a step from `s1` that keeps the channel objects, after a forward step `s → s1` -/
macro "fwd_same_close" hR:term "," hI:term : tactic =>
  `(tactic| first
    | exact fwd_via $hR (fwd_same $hI rfl rfl ($hI).2 rfl (by simp [Out.isChanEv]))
    | exact fwd_via $hR (fwd_same $hI (l2 := []) rfl rfl ($hI).2 (by simp) (by simp)))

theorem fwd_dcClose (i : Nat) : Pres fwdSpec (dcClose i) := by
  apply Pres.intro; intro s hI
  unfold dcClose
  wp_head
  cases hc : s.1.chans[i]? with
  | none => simp only; exact fun _ => ⟨hI, FwdRel.refl s⟩
  | some c =>
    simp only
    have h3 : c.ready ≤ 3 := hI.1 c (List.mem_of_getElem? hc)
    split
    · rename_i hg
      have hpre : ∀ c', s.1.chans[i]? = some c' → c'.ready ≤ 2 := by
        intro c' hc'
        rw [hc] at hc'; cases hc'
        simp at hg
        omega
      apply WP.bind_of (wp_setReady hI i 2 hpre (by omega))
      intro r s1 ⟨hI1, hR1⟩
      cases r with
      | error k => exact fun _ => ⟨hI1, hR1⟩
      | ok u =>
        simp only
        wp_head
        split
        · wp_head
          split
          · wp_head; intro _; fwd_same_close hR1, hI1
          · wp_head; intro _; fwd_same_close hR1, hI1
        · wp_head
          have hsame : ∀ (e' : Ep) , e'.chans = s1.1.chans → e'.isServer = s1.1.isServer → e'.dcId = s1.1.dcId →
              WP (setReady i 3) (fun r s' => (fwdSpec.okOnly → IsOk r) → fwdSpec.I s'.1 ∧ fwdSpec.R s s') (e', s1.2) := by
            intro e' h1 h2 h4
            have := fwd_via hR1 (fwd_same hI1 (e' := e') (l' := s1.2) (l2 := []) h1 h2
              (by rw [h4]; exact hI1.2) (by simp) (by simp))
            exact WP.pres_after (fwd_setReady3 i) this.1 this.2
          split
          · split
            · wp_head; intro _; fwd_same_close hR1, hI1
            · (try wp_head); exact hsame _ rfl rfl rfl
          · (try wp_head); exact hsame _ rfl rfl rfl
    · wp_head; exact fun _ => ⟨hI, FwdRel.refl s⟩
macro_rules | `(tactic| pres_leaf) => `(tactic| exact fwd_dcClose _)

theorem fwd_setState (st : AState) : Pres fwdSpec (setState st) := by
  unfold setState
  apply pres_bind (by pres_leaf); intro _
  split
  · apply pres_bind (by pres_leaf); intro _
    apply pres_bind pres_getE; intro e
    refine pres_bind ?_ (fun _ => by pres)
    apply pres_forIn; intro a b
    apply Pres.intro; intro s hI
    split
    wp_head
    rename_i i
    cases hc : s.1.chans[i]? with
    | none => simp only; exact fun _ => ⟨hI, FwdRel.refl s⟩
    | some c =>
      simp only
      split
      · rename_i hg
        have hpre : ∀ c', s.1.chans[i]? = some c' → c'.ready ≤ 1 := by
          intro c' hc'
          rw [hc] at hc'; cases hc'
          simp at hg
          omega
        apply WP.bind_of (wp_setReady hI i 1 hpre (by omega))
        intro r s1 h1
        cases r with
        | error k => exact fun _ => h1
        | ok u => simp only; wp_head; exact fun _ => h1
      · wp_head; exact fun _ => ⟨hI, FwdRel.refl s⟩
  · pres
macro_rules | `(tactic| pres_leaf) => `(tactic| exact fwd_setState _)

end Aiortc.Sctp
