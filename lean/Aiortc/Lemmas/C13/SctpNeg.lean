import Aiortc.Lemmas.C13.SctpWp
/-!
# Out-of-band negotiated channels: `RTCDataChannel(..., negotiated=True, id=n)` registers exactly id `n`
or raises `ValueError` leaving the transport unchanged
-/
set_option linter.unusedSimpArgs false
set_option linter.unusedVariables false
namespace Aiortc.Sctp
open Aiortc.Gen Aiortc.Sctp.Wire

def NegPost (p : CreateParams) (e : Ep) (l : List Out) (r : Except String Unit) (s' : St) : Prop :=
  r = .ok () ∧
  (s' = (e, l ++ [.exc "ValueError"]) ∨
   ∃ v : Int, p.id = some v ∧ 0 ≤ v ∧ v ≤ 65534 ∧ dictGet e.dataChannels v.toNat = none ∧
     s'.2 = l ∧ ∃ c : Chan,
       s'.1 = { e with chans := e.chans ++ [c], dataChannels := e.dataChannels ++ [(v.toNat, e.chans.length)] } ∧
       c.id = some v.toNat ∧ c.negotiated = true ∧ c.label = p.label ∧ c.protocol = p.protocol ∧
       c.ordered = p.ordered ∧ c.maxRetransmits = p.maxRetransmits ∧ c.maxPacketLifeTime = p.maxPacketLifeTime ∧
       c.buffered = 0 ∧ c.ready = (if e.assoc = .established then 1 else 0))

theorem createChannel_negotiated (p : CreateParams) (hneg : p.negotiated = true) (e : Ep) (l : List Out) :
    WP (createChannel p) (NegPost p e l) (e, l) := by
  unfold createChannel
  repeat' (first | wp_head | split)
  all_goals (refine ⟨rfl, ?_⟩)
  all_goals try (exact Or.inl rfl)
  all_goals try (exfalso; simp_all; done)
  all_goals (
    rename_i x1 v hid hrange hnn x2 sN hmap hfree hassoc
    have hsN : sN = v.toNat := by rw [hid] at hmap; simpa using hmap.symm
    subst hsN
    simp [hneg] at hrange
    right
    refine ⟨v, hid, by omega, by omega, ?_, rfl, _, rfl, ?_⟩
    · cases h : dictGet e.dataChannels v.toNat with
      | none => rfl
      | some x => rw [h] at hfree; simp at hfree
    · simp [hneg, hid, hassoc])

end Aiortc.Sctp
