import Aiortc.Lemmas.C13.SctpLifeRecv
import Aiortc.Lemmas.C13.SctpDcep
/-!
# A received DATA_CHANNEL_OPEN creates a channel object with exactly the decoded parameters and the
stream id it arrived on, and announces it with one `datachannel` event
-/
set_option linter.unusedSimpArgs false
set_option linter.unusedVariables false
namespace Aiortc.Sctp
open Aiortc.Gen Aiortc.Sctp.Wire

def OpenPost (sid : Nat) (p : OpenParams) (s : St) (r : Except String Unit) (s' : St) : Prop :=
  IsOk r → ∃ c, s'.1.chans[s.1.chans.length]? = some c ∧ c.openParams = p ∧ c.id = some sid ∧
    c.negotiated = false ∧
    (s'.1.listeners = true → Out.evChannel s.1.chans.length ∈ s'.2 ∧ c.silent = false)

/-- what an application handler (a re-entrant `send()`) can change: the reaction list, `bufferedAmount`, the queue and
the log - every other field of every channel object, and the transport's listeners, stay -/
def ReactKeepPost (s1 : St) (r : Except String Unit) (s' : St) : Prop :=
  s'.1.listeners = s1.1.listeners ∧ (∃ l2, s'.2 = s1.2 ++ l2) ∧
  ∀ (j : Nat) c, s1.1.chans[j]? = some c → ∃ c', s'.1.chans[j]? = some c' ∧ c' = { c with buffered := c'.buffered }

theorem wp_react_keeps (k i : Nat) (s1 : St) : WP (react k i) (ReactKeepPost s1) s1 := by
  have same : ∀ (e' : Ep) (l' : List Out) (r : Except String Unit), e'.listeners = s1.1.listeners →
      e'.chans = s1.1.chans → (∃ l2, l' = s1.2 ++ l2) → ReactKeepPost s1 r (e', l') := by
    intro e' l' r h1 h2 h3
    exact ⟨h1, h3, fun j c hc => ⟨c, by rw [h2]; exact hc, rfl⟩⟩
  unfold react
  wp_simp
  split
  · wp_simp; exact same _ _ _ rfl rfl ⟨[], by simp⟩
  · wp_simp
    cases hc : s1.1.chans[i]? with
    | none => simp only; exact same _ _ _ rfl rfl ⟨[], by simp⟩
    | some c =>
      simp only
      have hlt : i < s1.1.chans.length := (List.getElem?_eq_some_iff.1 hc).1
      split
      · wp_simp; exact same _ _ _ rfl rfl ⟨_, rfl⟩
      · unfold dcSend addBuffered0 addBufferedCore
        wp_simp
        rw [hc]
        simp only
        have upd : ∀ (e' : Ep) (l' : List Out) (b : Int) (r : Except String Unit), e'.listeners = s1.1.listeners →
            e'.chans = s1.1.chans.set i { c with buffered := b } → (∃ l2, l' = s1.2 ++ l2) →
            ReactKeepPost s1 r (e', l') := by
          intro e' l' b r h1 h2 h3
          refine ⟨h1, h3, ?_⟩
          intro j x hx
          rw [h2]
          by_cases hj : i = j
          · subst hj
            rw [hc] at hx; cases hx
            exact ⟨_, List.getElem?_set_self hlt, rfl⟩
          · exact ⟨x, by simpa [List.getElem?_set_ne hj] using hx, rfl⟩
        split
        · wp_simp
          exact upd _ _ _ _ rfl rfl ⟨_, List.append_assoc _ _ _⟩
        · wp_simp
          exact upd _ _ _ _ rfl rfl ⟨_, rfl⟩

theorem dcReceive_open (sid : Nat) (data : Bytes) (p : OpenParams) (hp : decodeOpen data = some p)
    (s : St) (hI : LifeInv s.1) (hfree : dictGet s.1.dataChannels sid = none) :
    WP (dcReceive sid WEBRTC_DCEP data) (OpenPost sid p s) s := by
  unfold decodeOpen at hp
  split at hp
  · rename_i hopen
    simp only at hp
    split at hp
    · cases hp
    · rename_i hutf
      simp only [Option.some.injEq] at hp
      have hne : (!data.isEmpty) = true := by
        simp only [Bool.and_eq_true, decide_eq_true_eq] at hopen
        cases data with
        | nil => simp at hopen
        | cons a t => rfl
      unfold dcReceive
      wp_head
      simp only [hne, decide_true, Bool.and_self, if_true, hopen, hfree, Option.isSome_none, Bool.false_eq_true,
        if_false, hutf]
      wp_head
      refine WP.push_then hI ?_ ?_ ?_ ?_
      · exact ⟨_, rfl, by simp⟩
      · rfl
      · exact hI.2
      intro hI1 h01
      refine WP.call_bind (s := (_, _)) fwd_flush hI1 ?_
      intro r s2 h2
      obtain ⟨hI2, h12⟩ := h2 (fun h => h.elim)
      obtain ⟨c2, hc2, hst⟩ := h12.2.1 s.1.chans.length _ (List.getElem?_concat_length)
      cases r with
      | error k => exact fun h => h.elim
      | ok u =>
        simp only
        wp_head
        split
        · rename_i hl
          wp_head
          rw [hc2]
          (try simp only)
          (try wp_head)
          have hlt : s.1.chans.length < s2.1.chans.length := (List.getElem?_eq_some_iff.1 hc2).1
          refine WP.mono (wp_react_keeps 4 _ (_, _)) ?_
          intro r s' ⟨hl', ⟨l2, hl2⟩, hk⟩ _
          obtain ⟨c', hc', he⟩ := hk s.1.chans.length { c2 with silent := false }
            (by simp [List.getElem?_set_self hlt])
          refine ⟨c', hc', ?_, ?_, ?_, ?_⟩
          · rw [← hp, he]
            simp only [Chan.openParams, hst.label, hst.protocol, hst.ordered, hst.maxRetransmits,
              hst.maxPacketLifeTime]
          · rw [he]; exact hst.id_keep sid rfl
          · rw [he]; exact hst.negotiated
          · intro _
            refine ⟨by rw [hl2]; simp, ?_⟩
            rw [he]
        · rename_i hl
          wp_head
          intro _
          refine ⟨c2, hc2, ?_, hst.id_keep sid rfl, hst.negotiated, fun h => absurd h hl⟩
          rw [← hp]
          simp only [Chan.openParams, hst.label, hst.protocol, hst.ordered, hst.maxRetransmits,
            hst.maxPacketLifeTime]
  · cases hp

end Aiortc.Sctp
