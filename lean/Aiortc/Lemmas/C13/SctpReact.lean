import Aiortc.Lemmas.C13.SctpFrame
/-!
# Re-entrant application handlers (`react`): exact effect, one-shot reactions, fuel of the flush loop
-/
set_option linter.unusedSimpArgs false
set_option linter.unusedVariables false
namespace Aiortc.Sctp
open Aiortc.Gen Aiortc.Sctp.Wire

/-! ## (a) what a handler does, exactly -/

/-- the armed reaction a handler of kind `k` on channel `i` consumes (kind 4, `datachannel`, matches any channel) -/
def armed (e : Ep) (k i : Nat) : Option (Nat × Nat × Bool × Bytes) :=
  e.reactions.find? (fun r => r.1 == k && (k == 4 || r.2.1 == i))

/-- **`react k i`, exactly**: without a matching armed reaction nothing happens; otherwise the reaction is consumed and -
iff channel `i` is open - the rest is exactly `dcSend` (`_data_channel_send`) with the reaction's data; on a channel
that is not open only `.rexc i "InvalidStateError"` is emitted (the exception stays inside the handler). -/
theorem react_spec (k i : Nat) (s : St) (Q : Except String Unit → St → Prop) :
    WP (react k i) Q s ↔
      match armed s.1 k i with
      | none => Q (.ok ()) s
      | some r =>
        match s.1.chans[i]? with
        | none => Q (.error "IndexError") ({ s.1 with reactions := s.1.reactions.erase r }, s.2)
        | some c =>
          if c.ready ≠ 1 then
            Q (.ok ()) ({ s.1 with reactions := s.1.reactions.erase r }, s.2 ++ [.rexc i "InvalidStateError"])
          else WP (dcSend i r.2.2.1 r.2.2.2) Q ({ s.1 with reactions := s.1.reactions.erase r }, s.2) := by
  unfold react armed
  wp_head
  cases s.1.reactions.find? (fun r => r.1 == k && (k == 4 || r.2.1 == i)) with
  | none => simp only; wp_head
  | some r =>
    simp only
    wp_head
    cases s.1.chans[i]? with
    | none => simp only
    | some c =>
      simp only
      split
      · wp_head
      · rfl

/-! ## (b) reactions are one-shot: no handler of the automaton ever arms one -/

def RLe (s s' : St) : Prop := s'.1.reactions.length ≤ s.1.reactions.length

def reactSpec : Spec :=
  { I := fun _ => True, R := RLe, okOnly := False, refl := fun _ => Nat.le_refl _,
    trans := fun _ _ _ h1 h2 => Nat.le_trans h2 h1 }

instance : Framed reactSpec where
  frame := by
    intro s s' ⟨_, _, _, _, _, h, _⟩ _
    exact ⟨trivial, by unfold reactSpec RLe; simp only; rw [h]; exact Nat.le_refl _⟩

theorem rs_modE (f : Ep → Ep) (h : ∀ e, (f e).reactions = e.reactions) : Pres reactSpec (modE f) := by
  apply Pres.intro; intro s _
  wp_head
  intro _
  exact ⟨trivial, by unfold reactSpec RLe; simp only; rw [h]; exact Nat.le_refl _⟩
macro_rules | `(tactic| pres_leaf) => `(tactic| exact rs_modE _ (fun _ => rfl))

theorem rs_emit (o : Out) : Pres reactSpec (emit o) := by
  apply Pres.intro; intro s _
  wp_head
  exact fun _ => ⟨trivial, Nat.le_refl _⟩
macro_rules | `(tactic| pres_leaf) => `(tactic| exact rs_emit _)

theorem rs_chanSet (i : Nat) (c : Chan) : Pres reactSpec (chanSet i c) := rs_modE _ (fun _ => rfl)
macro_rules | `(tactic| pres_leaf) => `(tactic| exact rs_chanSet _ _)

theorem rs_chanGet {S : Spec} (i : Nat) : Pres S (chanGet i) := by
  apply Pres.intro; intro s hI
  rw [WP_chanGet]
  cases s.1.chans[i]? <;> exact fun _ => ⟨hI, S.refl s⟩
macro_rules | `(tactic| pres_leaf) => `(tactic| exact rs_chanGet _)

/-- `reactSpec.R s (e', l')` from the relations collected so far -/
macro "rs_le" : tactic =>
  `(tactic| first
     | exact Nat.le_refl _
     | exact List.length_erase_le
     | ((try simp only [reactSpec, RLe] at *); (try dsimp only at *); omega))

/-- symbolic execution of the primitive prefix, calls of verified functions, then the compositional rest -/
macro "rs" : tactic =>
  `(tactic| repeat' (first
     | (intro _; exact ⟨trivial, by rs_le⟩)
     | (refine WP.pres_after (S := reactSpec) (s1 := (_, _)) ?_ trivial ?_ <;> first | (solve | pres) | rs_le)
     | wp_head
     | split
     | (refine WP.call_bind (S := reactSpec) (s := (_, _)) ?_ trivial ?_
        (first | with_reducible pres_leaf | fail "no leaf")
        intro r s1 h1
        have h1 := (h1 (fun h => h.elim)).2
        rcases r with k | u <;> (try simp only))))

macro "rs_fn" : tactic => `(tactic| (apply Pres.intro; intro s _; rs))

theorem rs_addBufferedCore (i : Nat) (a : Int) : Pres reactSpec (addBufferedCore i a) := by
  unfold addBufferedCore; pres
macro_rules | `(tactic| pres_leaf) => `(tactic| exact rs_addBufferedCore _ _)
theorem rs_addBuffered0 (i : Nat) (a : Int) : Pres reactSpec (addBuffered0 i a) := by
  unfold addBuffered0; pres
macro_rules | `(tactic| pres_leaf) => `(tactic| exact rs_addBuffered0 _ _)
theorem rs_dcSend (i : Nat) (isStr : Bool) (d : Bytes) : Pres reactSpec (dcSend i isStr d) := by
  unfold dcSend; pres
macro_rules | `(tactic| pres_leaf) => `(tactic| exact rs_dcSend _ _ _)
theorem rs_react (k i : Nat) : Pres reactSpec (react k i) := by
  unfold react; rs_fn
macro_rules | `(tactic| pres_leaf) => `(tactic| exact rs_react _ _)
theorem rs_setReady (i st : Nat) : Pres reactSpec (setReady i st) := by
  unfold setReady; pres
macro_rules | `(tactic| pres_leaf) => `(tactic| exact rs_setReady _ _)
theorem rs_addBuffered (i : Nat) (a : Int) : Pres reactSpec (addBuffered i a) := by
  unfold addBuffered; pres
macro_rules | `(tactic| pres_leaf) => `(tactic| exact rs_addBuffered _ _)
theorem rs_dcClosed (sid : Nat) : Pres reactSpec (dcClosed sid) := by
  unfold dcClosed; pres
macro_rules | `(tactic| pres_leaf) => `(tactic| exact rs_dcClosed _)

theorem rs_flushLoop (fuel : Nat) : Pres reactSpec (flushLoop fuel) := by
  induction fuel with
  | zero => unfold flushLoop; exact pres_pure _
  | succ n ih => unfold flushLoop; rs_fn
macro_rules | `(tactic| pres_leaf) => `(tactic| exact rs_flushLoop _)

theorem rs_flush : Pres reactSpec flush := by unfold flush; pres
macro_rules | `(tactic| pres_leaf) => `(tactic| exact rs_flush)
theorem rs_dcClose (i : Nat) : Pres reactSpec (dcClose i) := by unfold dcClose; rs_fn
macro_rules | `(tactic| pres_leaf) => `(tactic| exact rs_dcClose _)
theorem rs_setState (st : AState) : Pres reactSpec (setState st) := by unfold setState; pres
macro_rules | `(tactic| pres_leaf) => `(tactic| exact rs_setState _)
theorem rs_dcReceive (sid ppid : Nat) (d : Bytes) : Pres reactSpec (dcReceive sid ppid d) := by
  unfold dcReceive; rs_fn
macro_rules | `(tactic| pres_leaf) => `(tactic| exact rs_dcReceive _ _ _)

theorem rs_deliver (msgs : List Msg) : Pres reactSpec (deliver msgs) := by unfold deliver; pres
macro_rules | `(tactic| pres_leaf) => `(tactic| exact rs_deliver _)
theorem rs_receiveData (c : RChunk) : Pres reactSpec (receiveData c) := by unfold receiveData; rs_fn
macro_rules | `(tactic| pres_leaf) => `(tactic| exact rs_receiveData _)
theorem rs_receiveForwardTsn (cum : Int) (streams : List (Nat × Nat)) :
    Pres reactSpec (receiveForwardTsn cum streams) := by unfold receiveForwardTsn; rs_fn
macro_rules | `(tactic| pres_leaf) => `(tactic| exact rs_receiveForwardTsn _ _)
theorem rs_receiveReconfigParam (p : RcParam) : Pres reactSpec (receiveReconfigParam p) := by
  unfold receiveReconfigParam; pres
macro_rules | `(tactic| pres_leaf) => `(tactic| exact rs_receiveReconfigParam _)
theorem rs_receiveSack (cum : Nat) (gaps : List (Nat × Nat)) : Pres reactSpec (receiveSack cum gaps) := by
  unfold receiveSack; rs_fn
macro_rules | `(tactic| pres_leaf) => `(tactic| exact rs_receiveSack _ _)
theorem rs_receiveChunk (cookie : Bytes) (c : Chunk) : Pres reactSpec (receiveChunk cookie c) := by
  unfold receiveChunk; pres
macro_rules | `(tactic| pres_leaf) => `(tactic| exact rs_receiveChunk _ _)
theorem rs_handleData (data cookie : Bytes) : Pres reactSpec (handleData data cookie) := by
  unfold handleData; pres
macro_rules | `(tactic| pres_leaf) => `(tactic| exact rs_handleData _ _)
theorem rs_createChannel (p : CreateParams) : Pres reactSpec (createChannel p) := by
  unfold createChannel
  apply Pres.intro; intro s _
  repeat' (first | (intro _; exact ⟨trivial, by rs_le⟩) | wp_head | split)
macro_rules | `(tactic| pres_leaf) => `(tactic| exact rs_createChannel _)
theorem rs_runTask : Pres reactSpec runTask := by unfold runTask; rs_fn
macro_rules | `(tactic| pres_leaf) => `(tactic| exact rs_runTask)

/-- no input other than `.react` (the application arming a handler) makes the list of armed reactions longer -/
theorem rs_handle (inp : Input) (h : ∀ k i isStr data, inp ≠ .react k i isStr data) : Pres reactSpec (handle inp) := by
  cases inp with
  | react k i isStr data => exact absurd rfl (h k i isStr data)
  | fire t =>
    unfold handle
    split
    all_goals try (solve | pres)
    all_goals (first | (rename_i h; cases h) | skip)
    rs_fn
  | _ => simp only [handle]; first | (solve | pres) | rs_fn

theorem step_reactions_le (e : Ep) (now : Int) (inp : Input) (h : ∀ k i isStr data, inp ≠ .react k i isStr data) :
    (step e now inp).1.reactions.length ≤ e.reactions.length := by
  have h1 := (rs_handle inp h).out ({ e with now := now }, []) trivial
  rw [WP.def] at h1
  have h2 := (h1 (fun h => h.elim)).2
  unfold step
  simp only
  unfold run at h2
  cases hr : (handle inp).run.run ({ e with now := now }, []) with
  | mk r s' =>
    rw [hr] at h2
    obtain ⟨e', outs⟩ := s'
    cases r <;> exact h2

/-- **Reactions are one-shot**: a step makes the list of armed reactions longer by at most one, and only the
`.react` input (the application attaching a handler) does so. -/
theorem step_reactions (e : Ep) (now : Int) (inp : Input) :
    (step e now inp).1.reactions.length ≤ e.reactions.length + 1 := by
  cases inp with
  | react k i isStr data =>
    have : (handle (.react k i isStr data)).run.run ({ e with now := now }, []) =
        (.ok (), ({ e with now := now, reactions := e.reactions ++ [(k, i, isStr, data)] }, [])) := rfl
    unfold step
    simp only [this, List.length_append, List.length_singleton]
    exact Nat.le_refl _
  | _ => exact Nat.le_succ_of_le (step_reactions_le e now _ (by intro k i b d h; cases h))

/-- a handler that fires consumes its reaction: the list gets strictly shorter -/
theorem react_consumes (k i : Nat) (s : St) (h : (armed s.1 k i).isSome) :
    WP (react k i) (fun _ s' => s'.1.reactions.length < s.1.reactions.length) s := by
  rw [react_spec]
  cases ha : armed s.1 k i with
  | none => rw [ha] at h; cases h
  | some r =>
    simp only
    have hm : r ∈ s.1.reactions := List.mem_of_find?_eq_some ha
    have hl : (s.1.reactions.erase r).length < s.1.reactions.length := by
      rw [List.length_erase_of_mem hm]
      have : 0 < s.1.reactions.length := List.length_pos_of_mem hm
      omega
    cases s.1.chans[i]? with
    | none => exact hl
    | some c =>
      simp only
      split
      · exact hl
      · refine WP.mono ((rs_dcSend _ _ _).out (_, _) trivial) ?_
        intro r' s' h2
        have := (h2 (fun h => h.elim)).2
        simp only [reactSpec, RLe] at this
        omega

end Aiortc.Sctp
