import Aiortc.Lemmas.C13.SctpWp
/-!
# `_transmit_reconfig` resets a stream only once nothing is queued for it in `_data_channel_queue`
-/
set_option linter.unusedSimpArgs false
set_option linter.unusedVariables false
namespace Aiortc.Sctp
open Aiortc.Gen Aiortc.Sctp.Wire

/-- the stream id a queue entry will be sent on (`channel.id` of the queued channel object) -/
def queuedId (e : Ep) (q : Nat × Nat × Bytes) : Option Nat := (e.chans[q.1]?).bind (·.id)

/-- if `_transmit_reconfig` issues a new request, none of its streams is the id of a channel that still has an
entry in `_data_channel_queue` (whatever the outcome of the call) -/
def ResetPost (s : St) (r : Except String Unit) (s' : St) : Prop :=
  s.1.reconfigRequest = none → ∀ p, s'.1.reconfigRequest = some p →
    ∀ x ∈ p.2.2.2, ∀ q ∈ s'.1.dcQueue, queuedId s'.1 q ≠ some x

theorem streams_not_queued (rq : List Nat) (queued : List (Option Nat)) (n x : Nat)
    (hx : x ∈ (rq.filter fun x => !queued.contains (some x)).take n) : some x ∉ queued := by
  have h1 := List.mem_of_mem_take hx
  have h2 := (List.mem_filter.1 h1).2
  simpa using h2

theorem transmitReconfig_deferred (s : St) : WP transmitReconfig (ResetPost s) s := by
  have keep : ∀ l', ResetPost s (.ok ()) (s.1, l') := by
    intro l' h0 p hp
    rw [h0] at hp; cases hp
  have key : ∀ (e' : Ep) (l' : List Out) (r : Except String Unit), e'.chans = s.1.chans → e'.dcQueue = s.1.dcQueue →
      (∀ p, e'.reconfigRequest = some p → p.2.2.2 =
        ((s.1.reconfigQueue.filter fun x =>
          !(s.1.dcQueue.map fun q => (s.1.chans[q.1]?).bind (·.id)).contains (some x)).take RECONFIG_MAX_STREAMS)) →
      ResetPost s r (e', l') := by
    intro e' l' r hch hq hp _ p hpe x hx q hq'
    rw [hp p hpe] at hx
    have := streams_not_queued _ _ _ _ hx
    intro hqi
    apply this
    simp only at hq'
    rw [hq] at hq'
    unfold queuedId at hqi
    simp only [hch] at hqi
    rw [← hqi]
    exact List.mem_map.2 ⟨q, hq', rfl⟩
  unfold transmitReconfig sendChunk rcStart rcCancel packetFor
  wp_simp
  split
  · split
    · wp_simp; exact keep _
    · wp_simp
      repeat' split
      all_goals (try wp_simp)
      all_goals (first
        | exact key _ _ _ rfl rfl (fun p hp => by cases hp; rfl)
        | (repeat' split) <;> (try wp_simp) <;> exact key _ _ _ rfl rfl (fun p hp => by cases hp; rfl))
  · wp_simp; exact keep _

end Aiortc.Sctp
