import Aiortc.Model.Sctp.Dcep
/-!
# `utf8Valid` accepts exactly the well-formed UTF-8 byte sequences (Unicode Table 3-7)

`encodeCp` is the UTF-8 encoding of a code point (Unicode Table 3-6); `Scalar n` says `n` is a Unicode
scalar value (no surrogates, at most U+10FFFF).
-/
set_option linter.unusedSimpArgs false
namespace Aiortc.Sctp

theorem utf8Valid_cons (b0 : Nat) (r : Bytes) : utf8Valid (b0 :: r) =
    if b0 < 0x80 then utf8Valid r
    else if 0xC2 ≤ b0 ∧ b0 ≤ 0xDF then
      match r with
      | b1 :: r => (0x80 ≤ b1 && b1 ≤ 0xBF) && utf8Valid r
      | _ => false
    else if 0xE0 ≤ b0 ∧ b0 ≤ 0xEF then
      match r with
      | b1 :: b2 :: r =>
        ((if b0 = 0xE0 then 0xA0 else 0x80) ≤ b1 && b1 ≤ (if b0 = 0xED then 0x9F else 0xBF)) &&
          (0x80 ≤ b2 && b2 ≤ 0xBF) && utf8Valid r
      | _ => false
    else if 0xF0 ≤ b0 ∧ b0 ≤ 0xF4 then
      match r with
      | b1 :: b2 :: b3 :: r =>
        ((if b0 = 0xF0 then 0x90 else 0x80) ≤ b1 && b1 ≤ (if b0 = 0xF4 then 0x8F else 0xBF)) &&
          (0x80 ≤ b2 && b2 ≤ 0xBF) && (0x80 ≤ b3 && b3 ≤ 0xBF) && utf8Valid r
      | _ => false
    else false := by
  rw [utf8Valid.eq_def]; rfl

/-- completeness: the encoding of a scalar value is accepted -/
theorem utf8Valid_encodeCp (n : Nat) (h : Scalar n) (r : Bytes) :
    utf8Valid (encodeCp n ++ r) = utf8Valid r := by
  unfold encodeCp Scalar at *
  by_cases h1 : n < 0x80
  · simp only [h1, if_true, List.cons_append, List.nil_append]
    rw [utf8Valid_cons]; simp [h1]
  by_cases h2 : n < 0x800
  · simp only [h1, h2, if_true, if_false, List.cons_append, List.nil_append]
    rw [utf8Valid_cons]
    have a1 : ¬ (0xC0 + n / 64 < 0x80) := by omega
    have a2 : 0xC2 ≤ 0xC0 + n / 64 ∧ 0xC0 + n / 64 ≤ 0xDF := by omega
    simp only [a1, a2, if_true, if_false, and_self]
    have a3 : 0x80 ≤ 0x80 + n % 64 := by omega
    have a4 : 0x80 + n % 64 ≤ 0xBF := by omega
    simp only [decide_eq_true a3, decide_eq_true a4, Bool.and_self, Bool.true_and]
  by_cases h3 : n < 0x10000
  · simp only [h1, h2, h3, if_true, if_false, List.cons_append, List.nil_append]
    rw [utf8Valid_cons]
    have a1 : ¬ (0xE0 + n / 4096 < 0x80) := by omega
    have a2 : ¬ (0xC2 ≤ 0xE0 + n / 4096 ∧ 0xE0 + n / 4096 ≤ 0xDF) := by omega
    have a3 : 0xE0 ≤ 0xE0 + n / 4096 ∧ 0xE0 + n / 4096 ≤ 0xEF := by omega
    simp only [a1, a2, a3, if_true, if_false, and_self]
    have b1 : (if 0xE0 + n / 4096 = 0xE0 then 0xA0 else 0x80) ≤ 0x80 + n / 64 % 64 := by split <;> omega
    have b2 : 0x80 + n / 64 % 64 ≤ (if 0xE0 + n / 4096 = 0xED then 0x9F else 0xBF) := by split <;> omega
    have b3 : 0x80 ≤ 0x80 + n % 64 := by omega
    have b4 : 0x80 + n % 64 ≤ 0xBF := by omega
    simp only [decide_eq_true b1, decide_eq_true b2, decide_eq_true b3, decide_eq_true b4, Bool.and_self, Bool.true_and]
  · simp only [h1, h2, h3, if_true, if_false, List.cons_append, List.nil_append]
    rw [utf8Valid_cons]
    have a1 : ¬ (0xF0 + n / 262144 < 0x80) := by omega
    have a2 : ¬ (0xC2 ≤ 0xF0 + n / 262144 ∧ 0xF0 + n / 262144 ≤ 0xDF) := by omega
    have a3 : ¬ (0xE0 ≤ 0xF0 + n / 262144 ∧ 0xF0 + n / 262144 ≤ 0xEF) := by omega
    have a4 : 0xF0 ≤ 0xF0 + n / 262144 ∧ 0xF0 + n / 262144 ≤ 0xF4 := by omega
    simp only [a1, a2, a3, a4, if_true, if_false, and_self]
    have b1 : (if 0xF0 + n / 262144 = 0xF0 then 0x90 else 0x80) ≤ 0x80 + n / 4096 % 64 := by split <;> omega
    have b2 : 0x80 + n / 4096 % 64 ≤ (if 0xF0 + n / 262144 = 0xF4 then 0x8F else 0xBF) := by split <;> omega
    have b3 : 0x80 ≤ 0x80 + n / 64 % 64 := by omega
    have b4 : 0x80 + n / 64 % 64 ≤ 0xBF := by omega
    have b5 : 0x80 ≤ 0x80 + n % 64 := by omega
    have b6 : 0x80 + n % 64 ≤ 0xBF := by omega
    simp only [decide_eq_true b1, decide_eq_true b2, decide_eq_true b3, decide_eq_true b4, decide_eq_true b5, decide_eq_true b6, Bool.and_self, Bool.true_and]

theorem utf8Valid_flatMap (cps : List Nat) (h : ∀ n ∈ cps, Scalar n) :
    utf8Valid (cps.flatMap encodeCp) = true := by
  induction cps with
  | nil => simp [utf8Valid]
  | cons n t ih =>
    rw [List.flatMap_cons, utf8Valid_encodeCp n (h n (by simp))]
    exact ih (fun m hm => h m (by simp [hm]))

/-- soundness: whatever is accepted is a concatenation of encoded scalar values -/
theorem utf8Valid_sound (k : Nat) : ∀ b : Bytes, b.length ≤ k → utf8Valid b = true →
    ∃ cps : List Nat, (∀ n ∈ cps, Scalar n) ∧ b = cps.flatMap encodeCp := by
  induction k with
  | zero =>
    intro b hb _
    have : b = [] := List.length_eq_zero_iff.1 (by omega)
    exact ⟨[], by simp, by simp [this]⟩
  | succ k ih =>
    intro b hb hv
    cases b with
    | nil => exact ⟨[], by simp, by simp⟩
    | cons b0 r =>
      rw [utf8Valid_cons] at hv
      by_cases h1 : b0 < 0x80
      · simp only [h1, if_true] at hv
        obtain ⟨cps, hs, he⟩ := ih r (by simp at hb; omega) hv
        refine ⟨b0 :: cps, ?_, ?_⟩
        · intro n hn; rcases List.mem_cons.1 hn with h | h
          · rw [h]; left; omega
          · exact hs n h
        · rw [List.flatMap_cons, ← he]; simp [encodeCp, h1]
      simp only [h1, if_false] at hv
      by_cases h2 : 0xC2 ≤ b0 ∧ b0 ≤ 0xDF
      · simp only [h2, and_self, if_true] at hv
        cases r with
        | nil => exact absurd hv (by simp)
        | cons b1 r =>
          simp only [Bool.and_eq_true, decide_eq_true_eq] at hv
          obtain ⟨⟨c1, c2⟩, hv⟩ := hv
          obtain ⟨cps, hs, he⟩ := ih r (by simp at hb; omega) hv
          refine ⟨((b0 - 0xC0) * 64 + (b1 - 0x80)) :: cps, ?_, ?_⟩
          · intro n hn; rcases List.mem_cons.1 hn with h | h
            · rw [h]; left; omega
            · exact hs n h
          · rw [List.flatMap_cons, ← he]
            have e1 : ¬ ((b0 - 0xC0) * 64 + (b1 - 0x80) < 0x80) := by omega
            have e2 : (b0 - 0xC0) * 64 + (b1 - 0x80) < 0x800 := by omega
            have f1 : 0xC0 + ((b0 - 0xC0) * 64 + (b1 - 0x80)) / 64 = b0 := by omega
            have f2 : 0x80 + ((b0 - 0xC0) * 64 + (b1 - 0x80)) % 64 = b1 := by omega
            simp only [encodeCp, e1, e2, if_true, if_false, List.cons_append, List.nil_append, f1, f2]
      have h2' : ¬ (0xC2 ≤ b0 ∧ b0 ≤ 0xDF) := h2
      simp only [h2', if_false] at hv
      by_cases h3 : 0xE0 ≤ b0 ∧ b0 ≤ 0xEF
      · simp only [h3, and_self, if_true] at hv
        match r, hb, hv with
        | [], _, hv => exact absurd hv (by simp)
        | [_], _, hv => exact absurd hv (by simp)
        | b1 :: b2 :: r, hb, hv =>
          simp only [Bool.and_eq_true, decide_eq_true_eq] at hv
          obtain ⟨⟨⟨c1, c2⟩, c3, c4⟩, hv⟩ := hv
          obtain ⟨cps, hs, he⟩ := ih r (by simp at hb; omega) hv
          have c1' : 0x80 ≤ b1 ∧ (b0 = 0xE0 → 0xA0 ≤ b1) := by split at c1 <;> omega
          have c2' : b1 ≤ 0xBF ∧ (b0 = 0xED → b1 ≤ 0x9F) := by split at c2 <;> omega
          refine ⟨((b0 - 0xE0) * 4096 + (b1 - 0x80) * 64 + (b2 - 0x80)) :: cps, ?_, ?_⟩
          · intro n hn; rcases List.mem_cons.1 hn with h | h
            · rw [h]; unfold Scalar; omega
            · exact hs n h
          · rw [List.flatMap_cons, ← he]
            have e1 : ¬ ((b0 - 0xE0) * 4096 + (b1 - 0x80) * 64 + (b2 - 0x80) < 0x80) := by omega
            have e2 : ¬ ((b0 - 0xE0) * 4096 + (b1 - 0x80) * 64 + (b2 - 0x80) < 0x800) := by omega
            have e3 : (b0 - 0xE0) * 4096 + (b1 - 0x80) * 64 + (b2 - 0x80) < 0x10000 := by omega
            have f1 : 0xE0 + ((b0 - 0xE0) * 4096 + (b1 - 0x80) * 64 + (b2 - 0x80)) / 4096 = b0 := by omega
            have f2 : 0x80 + ((b0 - 0xE0) * 4096 + (b1 - 0x80) * 64 + (b2 - 0x80)) / 64 % 64 = b1 := by omega
            have f3 : 0x80 + ((b0 - 0xE0) * 4096 + (b1 - 0x80) * 64 + (b2 - 0x80)) % 64 = b2 := by omega
            simp only [encodeCp, e1, e2, e3, if_true, if_false, List.cons_append, List.nil_append, f1, f2, f3]
      have h3' : ¬ (0xE0 ≤ b0 ∧ b0 ≤ 0xEF) := h3
      simp only [h3', if_false] at hv
      by_cases h4 : 0xF0 ≤ b0 ∧ b0 ≤ 0xF4
      · simp only [h4, and_self, if_true] at hv
        match r, hb, hv with
        | [], _, hv => exact absurd hv (by simp)
        | [_], _, hv => exact absurd hv (by simp)
        | [_, _], _, hv => exact absurd hv (by simp)
        | b1 :: b2 :: b3 :: r, hb, hv =>
          simp only [Bool.and_eq_true, decide_eq_true_eq] at hv
          obtain ⟨⟨⟨⟨c1, c2⟩, c3, c4⟩, c5, c6⟩, hv⟩ := hv
          obtain ⟨cps, hs, he⟩ := ih r (by simp at hb; omega) hv
          have c1' : 0x80 ≤ b1 ∧ (b0 = 0xF0 → 0x90 ≤ b1) := by split at c1 <;> omega
          have c2' : b1 ≤ 0xBF ∧ (b0 = 0xF4 → b1 ≤ 0x8F) := by split at c2 <;> omega
          refine ⟨((b0 - 0xF0) * 262144 + (b1 - 0x80) * 4096 + (b2 - 0x80) * 64 + (b3 - 0x80)) :: cps, ?_, ?_⟩
          · intro n hn; rcases List.mem_cons.1 hn with h | h
            · rw [h]; unfold Scalar; omega
            · exact hs n h
          · rw [List.flatMap_cons, ← he]
            have e1 : ¬ ((b0 - 0xF0) * 262144 + (b1 - 0x80) * 4096 + (b2 - 0x80) * 64 + (b3 - 0x80) < 0x80) := by omega
            have e2 : ¬ ((b0 - 0xF0) * 262144 + (b1 - 0x80) * 4096 + (b2 - 0x80) * 64 + (b3 - 0x80) < 0x800) := by omega
            have e3 : ¬ ((b0 - 0xF0) * 262144 + (b1 - 0x80) * 4096 + (b2 - 0x80) * 64 + (b3 - 0x80) < 0x10000) := by omega
            have f1 : 0xF0 + ((b0 - 0xF0) * 262144 + (b1 - 0x80) * 4096 + (b2 - 0x80) * 64 + (b3 - 0x80)) / 262144 = b0 := by omega
            have f2 : 0x80 + ((b0 - 0xF0) * 262144 + (b1 - 0x80) * 4096 + (b2 - 0x80) * 64 + (b3 - 0x80)) / 4096 % 64 = b1 := by omega
            have f3 : 0x80 + ((b0 - 0xF0) * 262144 + (b1 - 0x80) * 4096 + (b2 - 0x80) * 64 + (b3 - 0x80)) / 64 % 64 = b2 := by omega
            have f4 : 0x80 + ((b0 - 0xF0) * 262144 + (b1 - 0x80) * 4096 + (b2 - 0x80) * 64 + (b3 - 0x80)) % 64 = b3 := by omega
            simp only [encodeCp, e1, e2, e3, if_false, List.cons_append, List.nil_append, f1, f2, f3, f4]
      · have h4' : ¬ (0xF0 ≤ b0 ∧ b0 ≤ 0xF4) := h4
        simp only [h4', if_false] at hv
        exact absurd hv (by simp)

/-- `utf8Valid` accepts exactly the concatenations of UTF-8 encoded Unicode scalar values. -/
theorem utf8Valid_iff (b : Bytes) :
    utf8Valid b = true ↔ ∃ cps : List Nat, (∀ n ∈ cps, Scalar n) ∧ b = cps.flatMap encodeCp :=
  ⟨utf8Valid_sound b.length b (Nat.le_refl _), fun ⟨cps, hs, he⟩ => he ▸ utf8Valid_flatMap cps hs⟩

end Aiortc.Sctp
