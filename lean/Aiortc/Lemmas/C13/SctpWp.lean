import Aiortc.Model.Sctp.Endpoint
/-!
# A small weakest-precondition calculus for the endpoint monad `M`

`M = ExceptT String (StateM (Ep × List Out))`.  `run x s` is the outcome and final state of an action,
`WP x Q s` says the outcome/final state of `x` started in `s` satisfy `Q`.  The `WP_*` simp lemmas
execute the primitive operations of `Model/Sctp/Endpoint.lean` symbolically; calls to functions that
already have a specification are discharged with `WP.call`.

`Spec`/`Pres` package an invariant `I` and a reflexive-transitive step relation `R`; `Pres S x` is the
compositional judgement "started in a state satisfying `I`, the action `x` ends (normally or by an
exception) in a state satisfying `I` that is `R`-related to the start".  It is closed under
`pure`, `bind`, `throw`, `if`/`match` (by case split) and `for … in` over lists.
-/
namespace Aiortc.Sctp

abbrev St := Ep × List Out

def run {α} (x : M α) (s : St) : Except String α × St := x.run.run s

def WP {α} (x : M α) (Q : Except String α → St → Prop) (s : St) : Prop :=
  Q (run x s).1 (run x s).2

section prim
variable {α β : Type}

theorem run_pure (a : α) (s : St) : run (pure a : M α) s = (.ok a, s) := rfl

theorem run_bind (x : M α) (f : α → M β) (s : St) :
    run (x >>= f) s = match run x s with
      | (.ok a, s') => run (f a) s'
      | (.error k, s') => (.error k, s') := by
  show (ExceptT.run (x >>= f)).run s = _
  rw [ExceptT.run_bind]
  show (do let r ← ExceptT.run x; _ : StateM St _).run s = _
  simp only [StateT.run_bind, run]
  cases h : (ExceptT.run x).run s with
  | mk r s' =>
    cases r <;> rfl

theorem run_throw (k : String) (s : St) : run (throw k : M α) s = (.error k, s) := rfl
theorem run_crash (k : String) (s : St) : run (crash k : M α) s = (.error k, s) := rfl
theorem run_getE (s : St) : run getE s = (.ok s.1, s) := rfl
theorem run_setE (e : Ep) (s : St) : run (setE e) s = (.ok (), (e, s.2)) := rfl
theorem run_modE (f : Ep → Ep) (s : St) : run (modE f) s = (.ok (), (f s.1, s.2)) := rfl
theorem run_emit (o : Out) (s : St) : run (emit o) s = (.ok (), (s.1, s.2 ++ [o])) := rfl
theorem run_now1000 (s : St) : run now1000 s = (.ok (1000 * s.1.now), s) := rfl

theorem run_liftO (o : Outcome α) (s : St) :
    run (liftO o) s = match o with
      | .ok a => (.ok a, s)
      | .valueError => (.error "ValueError", s)
      | .crash k => (.error k, s)
      | .hang => (.error "hang", s) := by
  cases o <;> rfl

@[simp] theorem WP_pure (a : α) (Q) (s : St) : WP (pure a : M α) Q s ↔ Q (.ok a) s := Iff.rfl

@[simp] theorem WP_bind (x : M α) (f : α → M β) (Q) (s : St) :
    WP (x >>= f) Q s ↔
      WP x (fun r s' => match r with
        | .ok a => WP (f a) Q s'
        | .error k => Q (.error k) s') s := by
  unfold WP
  rw [run_bind]
  cases h : run x s with
  | mk r s' => cases r <;> simp

@[simp] theorem WP_throw (k : String) (Q) (s : St) : WP (throw k : M α) Q s ↔ Q (.error k) s := Iff.rfl
@[simp] theorem WP_crash (k : String) (Q) (s : St) : WP (crash k : M α) Q s ↔ Q (.error k) s := Iff.rfl
@[simp] theorem WP_getE (Q) (s : St) : WP getE Q s ↔ Q (.ok s.1) s := Iff.rfl
@[simp] theorem WP_setE (e : Ep) (Q) (s : St) : WP (setE e) Q s ↔ Q (.ok ()) (e, s.2) := Iff.rfl
@[simp] theorem WP_modE (f : Ep → Ep) (Q) (s : St) : WP (modE f) Q s ↔ Q (.ok ()) (f s.1, s.2) := Iff.rfl
@[simp] theorem WP_emit (o : Out) (Q) (s : St) : WP (emit o) Q s ↔ Q (.ok ()) (s.1, s.2 ++ [o]) := Iff.rfl
@[simp] theorem WP_now1000 (Q) (s : St) : WP now1000 Q s ↔ Q (.ok (1000 * s.1.now)) s := Iff.rfl

@[simp] theorem WP_liftO (o : Outcome α) (Q) (s : St) :
    WP (liftO o) Q s ↔ match o with
      | .ok a => Q (.ok a) s
      | .valueError => Q (.error "ValueError") s
      | .crash k => Q (.error k) s
      | .hang => Q (.error "hang") s := by
  unfold WP; rw [run_liftO]; cases o <;> rfl

theorem WP_ite (c : Prop) [Decidable c] (x y : M α) (Q) (s : St) :
    WP (if c then x else y) Q s ↔ if c then WP x Q s else WP y Q s := by
  split <;> rfl

theorem WP.mono {x : M α} {Q Q' : Except String α → St → Prop} {s : St}
    (h : WP x Q s) (hq : ∀ r s', Q r s' → Q' r s') : WP x Q' s := hq _ _ h

@[simp] theorem WP_chanGet (i : Nat) (Q) (s : St) :
    WP (chanGet i) Q s ↔ match s.1.chans[i]? with
      | some c => Q (.ok c) s
      | none => Q (.error "IndexError") s := by
  unfold chanGet
  simp only [WP_bind, WP_getE]
  cases s.1.chans[i]? <;> simp

@[simp] theorem WP_chanSet (i : Nat) (c : Chan) (Q) (s : St) :
    WP (chanSet i c) Q s ↔ Q (.ok ()) ({ s.1 with chans := s.1.chans.set i c }, s.2) := Iff.rfl

@[simp] theorem WP_queueTask (t : Task) (n : String) (Q) (s : St) :
    WP (queueTask t n) Q s ↔ Q (.ok ()) ({ s.1 with tasks := s.1.tasks ++ [t] }, s.2 ++ [.task n]) := by
  unfold queueTask; simp

end prim

/-! ## Specifications -/

/-- the outcome is not an exception -/
def IsOk {α} : Except String α → Prop
  | .ok _ => True
  | .error _ => False

@[simp] theorem isOk_ok {α} (a : α) : IsOk (Except.ok a : Except String α) = True := rfl
@[simp] theorem isOk_error {α} (k : String) : IsOk (Except.error k : Except String α) = False := rfl

structure Spec where
  /-- state invariant -/
  I : Ep → Prop
  /-- step relation between the state/log before and after -/
  R : St → St → Prop
  /-- `True`: nothing is claimed about runs that end in an exception -/
  okOnly : Prop
  refl : ∀ s, R s s
  trans : ∀ a b c, R a b → R b c → R a c

/-- `x` preserves the invariant and makes an `R` step, on every outcome (on normal outcomes only if `okOnly`). -/
structure Pres (S : Spec) {α} (x : M α) : Prop where
  out : ∀ s, S.I s.1 → WP x (fun r s' => (S.okOnly → IsOk r) → S.I s'.1 ∧ S.R s s') s

variable {S : Spec} {α β : Type}

theorem WP.call {x : M α} (h : Pres S x) {Q} {s : St} (hI : S.I s.1)
    (k : ∀ r s', ((S.okOnly → IsOk r) → S.I s'.1 ∧ S.R s s') → Q r s') : WP x Q s :=
  k _ _ (h.out s hI)

theorem pres_pure (a : α) : Pres S (pure a : M α) := ⟨fun s hI _ => ⟨hI, S.refl s⟩⟩
theorem pres_throw (k : String) : Pres S (throw k : M α) := ⟨fun s hI _ => ⟨hI, S.refl s⟩⟩
theorem pres_crash (k : String) : Pres S (crash k : M α) := ⟨fun s hI _ => ⟨hI, S.refl s⟩⟩
theorem pres_getE : Pres S getE := ⟨fun s hI _ => ⟨hI, S.refl s⟩⟩
theorem pres_now1000 : Pres S now1000 := ⟨fun s hI _ => ⟨hI, S.refl s⟩⟩
theorem pres_liftO (o : Outcome α) : Pres S (liftO o) := by
  constructor; intro s hI; cases o <;> exact fun _ => ⟨hI, S.refl s⟩

theorem pres_bind {x : M α} {f : α → M β} (hx : Pres S x) (hf : ∀ a, Pres S (f a)) :
    Pres S (x >>= f) := by
  constructor
  intro s hI
  rw [WP_bind]
  apply WP.call hx hI
  intro r s1 h1
  cases r with
  | error k =>
    intro hk
    exact h1 hk
  | ok a =>
    obtain ⟨hI1, hR1⟩ := h1 (fun _ => trivial)
    apply WP.call (hf a) hI1
    intro r2 s2 h2 hk
    obtain ⟨hI2, hR2⟩ := h2 hk
    exact ⟨hI2, S.trans _ _ _ hR1 hR2⟩

theorem pres_forIn {γ : Type} (l : List γ) (b : β) (f : γ → β → M (ForInStep β))
    (hf : ∀ a b, Pres S (f a b)) : Pres S (forIn l b f) := by
  induction l generalizing b with
  | nil => exact pres_pure b
  | cons a l ih =>
    rw [List.forIn_cons]
    apply pres_bind (hf a b)
    intro r
    cases r with
    | done b' => exact pres_pure b'
    | yield b' => exact ih b'

/-- leaves of the compositional proofs: specifications of already verified functions are registered
with `macro_rules | `(tactic| pres_leaf) => …` -/
syntax "pres_leaf" : tactic
macro_rules | `(tactic| pres_leaf) => `(tactic| assumption)

/-- one syntax-directed step of a compositional `Pres` proof -/
macro "pres_step" : tactic =>
  `(tactic| first
    | exact pres_pure _ | exact pres_throw _ | exact pres_crash _ | exact pres_getE
    | exact pres_liftO _ | exact pres_now1000
    | with_reducible pres_leaf
    | with_reducible apply pres_forIn
    | with_reducible apply pres_bind
    | intro _
    | split
    | dsimp only)

macro "pres" : tactic => `(tactic| repeat pres_step)

/-- symbolic execution of the primitive operations -/
macro "wp_simp" : tactic =>
  `(tactic| simp only [WP_bind, WP_pure, WP_getE, WP_setE, WP_modE, WP_emit, WP_throw, WP_crash, WP_liftO,
      WP_chanGet, WP_chanSet, WP_queueTask, WP_now1000])

/-! ### head-only symbolic execution: primitives at the head of a `bind` chain are executed, the first
call of a non-primitive function stops the rewriting (so that the rest can be handled compositionally) -/

theorem WPh_assoc {γ : Type} (x : M α) (g : α → M β) (f : β → M γ) (Q) (s : St) :
    WP ((x >>= g) >>= f) Q s ↔ WP (x >>= fun a => g a >>= f) Q s := by
  rw [bind_assoc]
theorem WPh_pure (a : α) (f : α → M β) (Q) (s : St) : WP (pure a >>= f) Q s ↔ WP (f a) Q s := by
  rw [pure_bind]
theorem WPh_getE (f : Ep → M β) (Q) (s : St) : WP (getE >>= f) Q s ↔ WP (f s.1) Q s := by
  rw [WP_bind, WP_getE]
theorem WPh_setE (e : Ep) (f : Unit → M β) (Q) (s : St) :
    WP (setE e >>= f) Q s ↔ WP (f ()) Q (e, s.2) := by
  rw [WP_bind, WP_setE]
theorem WPh_modE (g : Ep → Ep) (f : Unit → M β) (Q) (s : St) :
    WP (modE g >>= f) Q s ↔ WP (f ()) Q (g s.1, s.2) := by
  rw [WP_bind, WP_modE]
theorem WPh_emit (o : Out) (f : Unit → M β) (Q) (s : St) :
    WP (emit o >>= f) Q s ↔ WP (f ()) Q (s.1, s.2 ++ [o]) := by
  rw [WP_bind, WP_emit]
theorem WPh_now1000 (f : Int → M β) (Q) (s : St) :
    WP (now1000 >>= f) Q s ↔ WP (f (1000 * s.1.now)) Q s := by
  rw [WP_bind, WP_now1000]
theorem WPh_throw (k : String) (f : α → M β) (Q) (s : St) :
    WP ((throw k : M α) >>= f) Q s ↔ Q (.error k) s := by
  rw [WP_bind, WP_throw]
theorem WPh_crash (k : String) (f : α → M β) (Q) (s : St) :
    WP ((crash k : M α) >>= f) Q s ↔ Q (.error k) s := by
  rw [WP_bind, WP_crash]
theorem WPh_chanGet (i : Nat) (f : Chan → M β) (Q) (s : St) :
    WP (chanGet i >>= f) Q s ↔ match s.1.chans[i]? with
      | some c => WP (f c) Q s
      | none => Q (.error "IndexError") s := by
  rw [WP_bind, WP_chanGet]
theorem WPh_chanSet (i : Nat) (c : Chan) (f : Unit → M β) (Q) (s : St) :
    WP (chanSet i c >>= f) Q s ↔ WP (f ()) Q ({ s.1 with chans := s.1.chans.set i c }, s.2) := by
  rw [WP_bind, WP_chanSet]
theorem WPh_queueTask (t : Task) (n : String) (f : Unit → M β) (Q) (s : St) :
    WP (queueTask t n >>= f) Q s ↔
      WP (f ()) Q ({ s.1 with tasks := s.1.tasks ++ [t] }, s.2 ++ [.task n]) := by
  rw [WP_bind, WP_queueTask]
theorem WPh_liftO (o : Outcome α) (f : α → M β) (Q) (s : St) :
    WP (liftO o >>= f) Q s ↔ match o with
      | .ok a => WP (f a) Q s
      | .valueError => Q (.error "ValueError") s
      | .crash k => Q (.error k) s
      | .hang => Q (.error "hang") s := by
  rw [WP_bind, WP_liftO]

macro "wp_head" : tactic =>
  `(tactic| simp only [WPh_assoc, WPh_pure, WPh_getE, WPh_setE, WPh_modE, WPh_emit, WPh_now1000, WPh_throw,
      WPh_crash, WPh_chanGet, WPh_chanSet, WPh_queueTask, WPh_liftO,
      WP_pure, WP_getE, WP_setE, WP_modE, WP_emit, WP_throw, WP_crash, WP_liftO,
      WP_chanGet, WP_chanSet, WP_queueTask, WP_now1000])

/-- hand the rest of a symbolic execution over to a compositional proof -/
theorem WP.pres_after {x : M α} (h : Pres S x) {s s1 : St} (hI1 : S.I s1.1) (hR : S.R s s1) :
    WP x (fun r s' => (S.okOnly → IsOk r) → S.I s'.1 ∧ S.R s s') s1 :=
  WP.call h hI1 (fun _ _ h2 hk => ⟨(h2 hk).1, S.trans _ _ _ hR (h2 hk).2⟩)

/-- the same in the middle of a `bind` chain -/
theorem WP.call_bind {x : M α} {f : α → M β} (h : Pres S x) {Q} {s : St} (hI : S.I s.1)
    (k : ∀ r s', ((S.okOnly → IsOk r) → S.I s'.1 ∧ S.R s s') →
      match r with
      | .ok a => WP (f a) Q s'
      | .error k => Q (.error k) s') : WP (x >>= f) Q s := by
  rw [WP_bind]; exact WP.call h hI k

/-- `WP` of a call whose postcondition is known, in the middle of a `bind` chain -/
theorem WP.bind_of {x : M α} {f : α → M β} {P Q} {s : St} (hx : WP x P s)
    (k : ∀ r s', P r s' → match r with
      | .ok a => WP (f a) Q s'
      | .error e => Q (.error e) s') : WP (x >>= f) Q s := by
  rw [WP_bind]; exact WP.mono hx k

theorem WP.and {x : M α} {P Q} {s : St} (h1 : WP x P s) (h2 : WP x Q s) :
    WP x (fun r s' => P r s' ∧ Q r s') s := ⟨h1, h2⟩

theorem Pres.intro {x : M α}
    (h : ∀ s, S.I s.1 → WP x (fun r s' => (S.okOnly → IsOk r) → S.I s'.1 ∧ S.R s s') s) : Pres S x := ⟨h⟩

/-- `WP (pure a) Q s` and friends are only opened through the lemmas above -/
theorem WP.def {x : M α} {Q} {s : St} : WP x Q s ↔ Q (run x s).1 (run x s).2 := Iff.rfl

attribute [irreducible] WP

end Aiortc.Sctp
