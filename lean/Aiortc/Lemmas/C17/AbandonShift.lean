import Aiortc.Lemmas.C17.TxDefs
/-!
# C17 part 2 — `_maybe_abandon` and `_update_advanced_peer_ack_point` under the shifts
-/
namespace Aiortc.C17
open Aiortc Aiortc.Gen Aiortc.Sctp Aiortc.Props.C17

theorem abandonBack_shift (k j : Int) (fl : Nat) (l : List SChunk) :
    abandonBack fl (l.map (shiftS k j))
      = ((abandonBack fl l).1, (abandonBack fl l).2.map (shiftS k j)) := by
  induction l generalizing fl with
  | nil => rfl
  | cons c cs ih =>
    simp only [List.map_cons, abandonBack, markAb_shift, shiftS_flags, ih]
    split <;> rfl

theorem abandonFwd_shift (k j : Int) (fl : Nat) (l : List SChunk) :
    abandonFwd fl (l.map (shiftS k j))
      = ((abandonFwd fl l).1, (abandonFwd fl l).2.1.map (shiftS k j), (abandonFwd fl l).2.2) := by
  induction l generalizing fl with
  | nil => rfl
  | cons c cs ih =>
    simp only [List.map_cons, abandonFwd, markAb_shift, shiftS_flags, ih]
    split <;> rfl

theorem abandonUnsent_shift (k j : Int) (l : List SChunk) :
    abandonUnsent (l.map (shiftS k j))
      = ((abandonUnsent l).1.map (shiftS k j), (abandonUnsent l).2.map (shiftS k j)) := by
  induction l with
  | nil => rfl
  | cons c cs ih =>
    simp only [List.map_cons, abandonUnsent, shiftS_flags, ih]
    split <;> rfl

theorem getLastD_shiftS (k j : Int) (l : List SChunk) (c : SChunk) :
    (l.map (shiftS k j)).getLast?.getD (shiftS k j c) = shiftS k j (l.getLast?.getD c) := by
  rw [List.getLast?_map]; cases l.getLast? <;> rfl

/-- `_maybe_abandon(self._sent_queue[pos])`: same verdict, shifted state. -/
theorem maybeAbandon_shift (k j : Int) (t : Tx) (pos : Nat) (now : Int) :
    (shiftTx k j t).maybeAbandon pos now
      = ((t.maybeAbandon pos now).1, shiftTx k j (t.maybeAbandon pos now).2) := by
  unfold Tx.maybeAbandon
  have e1 : (shiftTx k j t).sentQ = t.sentQ.map (shiftS k j) := rfl
  have e2 : (shiftTx k j t).outQ = t.outQ.map (shiftS k j) := rfl
  have e3 : (shiftTx k j t).flight = t.flight := rfl
  simp only [e1, e2, e3, List.getElem?_map]
  cases hc : t.sentQ[pos]? with
  | none => rfl
  | some chunk =>
    simp only [Option.map_some, shiftS_abandoned, shouldAbandon_shift]
    by_cases ha : chunk.abandoned = true
    · simp only [ha, if_true]
    · simp only [ha, Bool.false_eq_true, if_false]
      by_cases hs : shouldAbandon chunk now = true
      · simp only [hs, Bool.not_true, Bool.false_eq_true, if_false]
        simp only [← List.map_take, ← List.map_drop, ← List.map_reverse, abandonBack_shift,
          getLastD_shiftS, ← List.map_cons, abandonFwd_shift, abandonUnsent_shift]
        split <;> simp [shiftTx]
      · simp only [hs, Bool.not_false, if_true]

/-! ## `_update_advanced_peer_ack_point` -/

theorem popAbandoned_shift (k j : Int) (adv : Int) (streams : List (Nat × Int)) (needed : Bool)
    (l : List SChunk) :
    popAbandoned (σ32 k adv) (mapVals (σ16 j) streams) needed (l.map (shiftS k j))
      = (σ32 k (popAbandoned adv streams needed l).1,
         mapVals (σ16 j) (popAbandoned adv streams needed l).2.1,
         (popAbandoned adv streams needed l).2.2.1,
         (popAbandoned adv streams needed l).2.2.2.map (shiftS k j)) := by
  induction l generalizing adv streams needed with
  | nil => rfl
  | cons c cs ih =>
    simp only [List.map_cons, popAbandoned, shiftS_abandoned, shiftS_flags, shiftS_tsn, shiftS_sid,
      shiftS_ssn]
    by_cases ha : c.abandoned = true
    · by_cases hU : flagU c.flags = true
      · simp only [ha, hU, Bool.not_true, Bool.false_eq_true, if_false, if_true, ih]
      · simp only [ha, hU, Bool.not_false, if_true, ssnS, Bool.false_eq_true, if_false,
          dictSet_mapVals, ih]
    · simp only [ha, Bool.false_eq_true, if_false]; rfl

/-- `_update_advanced_peer_ack_point`: commutes with the shifts (including the FORWARD-TSN chunk it
prepares: cumulative TSN moved by `k`, per-stream SSNs moved by `j`). -/
theorem updateAdvAck_shift (k j : Int) (t : Tx) (h1 : R32 t.lastSacked) (h2 : R32 t.advAck) :
    (shiftTx k j t).updateAdvAck = shiftTx k j t.updateAdvAck := by
  unfold Tx.updateAdvAck
  have e1 : (shiftTx k j t).lastSacked = σ32 k t.lastSacked := rfl
  have e2 : (shiftTx k j t).advAck = σ32 k t.advAck := rfl
  simp only [e1, e2, σ32_gte k _ _ h1 h2]
  by_cases hg : uint32_gte t.lastSacked t.advAck
  · simp only [hg, if_true]
    have := popAbandoned_shift k j t.lastSacked [] false t.sentQ
    simp only [mapVals, List.map_nil] at this
    simp only [shiftTx, mapVals, this]
    split <;> simp
  · simp only [hg, Bool.false_eq_true, if_false]
    have := popAbandoned_shift k j t.advAck t.forwardStreams t.forwardNeeded t.sentQ
    simp only [shiftTx, this]
    split <;> simp [mapVals]

end Aiortc.C17
