import Aiortc.Lemmas.C17.TxDefs
/-!
# C17 part 2 — `_send` (fragmentation, TSN / SSN assignment) under the shifts
-/
namespace Aiortc.C17
open Aiortc Aiortc.Gen Aiortc.Sctp Aiortc.Props.C17

/-- The U bit of the flags `_send` computes is exactly `not ordered`. -/
theorem flagU_frag (ordered : Bool) (first last : Bool) :
    flagU ((fun f1 => if last then f1 + SCTP_DATA_LAST_FRAG else f1)
      ((fun f0 => if first then f0 + SCTP_DATA_FIRST_FRAG else f0)
        (if ordered then 0 else SCTP_DATA_UNORDERED))) = !ordered := by
  cases ordered <;> cases first <;> cases last <;> decide

/-- SSN argument of `fragments` in the shifted run. -/
def ssnArg (j : Int) (ordered : Bool) (ssn : Int) : Int := if ordered then σ16 j ssn else ssn

theorem fragments_shift (k j : Int) (tsn : Int) (sid : Nat) (ssn : Int) (ppid : Nat) (ordered : Bool)
    (expiry maxRtx : Option Int) (n : Nat) (data : Bytes) (m : Nat) :
    fragments (σ32 k tsn) sid (ssnArg j ordered ssn) ppid ordered expiry maxRtx n data m
      = (fragments tsn sid ssn ppid ordered expiry maxRtx n data m).map (shiftS k j) := by
  induction m with
  | zero => rfl
  | succ q ih =>
    simp only [fragments, List.map_cons, ih]
    congr 1
    have hU := flagU_frag ordered (decide (n - (q + 1) = 0)) (decide (n - (q + 1) = n - 1))
    simp only [decide_eq_true_eq] at hU
    simp only [shiftS, ssnS, hU]
    have ht : (σ32 k tsn + ((n - (q + 1) : Nat) : Int)) % 4294967296
        = σ32 k ((tsn + ((n - (q + 1) : Nat) : Int)) % 4294967296) := by
      unfold σ32; omega
    rw [ht]
    cases ordered <;> simp [ssnArg]

/-- The stream's SSN counter exists already, or the SSN shift is trivial, or the message is unordered
(an outbound stream created on demand starts at SSN 0 in both runs). -/
def SeqKnown (j : Int) (t : Tx) (sid : Nat) (ordered : Bool) : Prop :=
  ordered = false ∨ (dictGet t.streamSeq sid).isSome ∨ j % 65536 = 0

theorem enqueue_ssn (k j : Int) (t : Tx) (sid : Nat) (ordered : Bool) (h : SeqKnown j t sid ordered) :
    (if ordered then (dictGet (shiftTx k j t).streamSeq sid).getD 0 else (0 : Int))
      = ssnArg j ordered (if ordered then (dictGet t.streamSeq sid).getD 0 else 0) := by
  cases ordered with
  | false => rfl
  | true =>
    simp only [if_true, ssnArg]
    have e : (shiftTx k j t).streamSeq = mapVals (σ16 j) t.streamSeq := rfl
    rw [e, dictGet_mapVals]
    cases hg : dictGet t.streamSeq sid with
    | some v => rfl
    | none =>
      rcases h with h | h | h
      · cases h
      · rw [hg] at h; cases h
      · simp only [Option.map_none, Option.getD_none]; unfold σ16; omega

/-- `_send`: the chunks appended to the outbound queue are the same chunks with TSNs moved by `k`
and (for an ordered message) SSN moved by `j`; `_local_tsn` and the stream's SSN counter move along. -/
theorem enqueue_shift (k j : Int) (t : Tx) (sid ppid : Nat) (data : Bytes) (expiry maxRtx : Option Int)
    (ordered : Bool) (h : SeqKnown j t sid ordered) :
    (shiftTx k j t).enqueue sid ppid data expiry maxRtx ordered
      = shiftTx k j (t.enqueue sid ppid data expiry maxRtx ordered) := by
  have hs := enqueue_ssn k j t sid ordered h
  unfold Tx.enqueue
  simp only [hs]
  have e1 : (shiftTx k j t).localTsn = σ32 k t.localTsn := rfl
  have e2 : (shiftTx k j t).outQ = t.outQ.map (shiftS k j) := rfl
  have e3 : (shiftTx k j t).streamSeq = mapVals (σ16 j) t.streamSeq := rfl
  simp only [e1, e2, e3, fragments_shift]
  have ht : (σ32 k t.localTsn + ((fragCount data.length : Nat) : Int)) % 4294967296
      = σ32 k ((t.localTsn + ((fragCount data.length : Nat) : Int)) % 4294967296) := by
    unfold σ32; omega
  rw [ht]
  cases ordered with
  | false => simp [shiftTx]
  | true =>
    simp only [if_true, ssnArg, σ16_add, dictSet_mapVals]
    simp [shiftTx]

end Aiortc.C17
