import Aiortc.Lemmas.C17.JitterFrame
/-!
# C17 part 2 — `JitterBuffer.add` and whole arrival lists under the shifts
-/
namespace Aiortc.C17
open Aiortc Aiortc.Gen Aiortc.Model.Jitter Aiortc.Props.C17

theorem shiftJB_setOrigin (k m : Int) (jb : JB) (x : Int) :
    ({ shiftJB k m jb with origin := some (σ16 k x) } : JB) = shiftJB k m { jb with origin := some x } := rfl

/-- Lines 32-38: forward and backward distance do not depend on the origin. -/
theorem addDist_shift (k m : Int) (jb : JB) (p : Packet) :
    addDist (shiftJB k m jb) (shiftP k m p)
      = (shiftJB k m (addDist jb p).1, (addDist jb p).2.1, (addDist jb p).2.2) := by
  unfold addDist
  rw [shiftJB_origin]
  cases ho : jb.origin with
  | none => simp only [Option.map_none, shiftP_seq, shiftJB_setOrigin]
  | some o =>
    simp only [Option.map_some, shiftP_seq]
    have e1 : uint16_add (σ16 k p.seq) (-σ16 k o) = uint16_add p.seq (-o) := by
      unfold uint16_add σ16; omega
    have e2 : uint16_add (σ16 k o) (-σ16 k p.seq) = uint16_add o (-p.seq) := by
      unfold uint16_add σ16; omega
    rw [e1, e2]

theorem addDist_ok (jb : JB) (p : Packet) (h : JBOk jb) : JBOk (addDist jb p).1 := by
  unfold addDist
  cases jb.origin with
  | none => exact h.withOrigin _
  | some o => exact h

def shiftMis (k m : Int) (r : Option (JB × Int × Bool)) : Option (JB × Int × Bool) :=
  r.map fun x => (shiftJB k m x.1, x.2.1, x.2.2)

theorem addMisorder_shift (k m : Int) (jb : JB) (p : Packet) (delta misorder : Int) (h : JBOk jb) :
    addMisorder (shiftJB k m jb) (shiftP k m p) delta misorder
      = omap (shiftMis k m) (addMisorder jb p delta misorder) := by
  unfold addMisorder
  rw [shiftJB_capacity, remove_shift k m jb jb.capacity h]
  by_cases h1 : misorder < delta
  · rw [if_pos h1, if_pos h1]
    by_cases h2 : misorder ≥ (MAX_MISORDER : Int)
    · rw [if_pos h2, if_pos h2]
      cases hr : remove jb jb.capacity with
      | ok jb1 => simp only [omap_ok, shiftP_seq, shiftJB_setOrigin, shiftJB_isVideo]; rfl
      | valueError => rfl
      | crash s => rfl
      | hang => rfl
    · rw [if_neg h2, if_neg h2]; rfl
  · rw [if_neg h1, if_neg h1]; rfl

theorem addMisorder_ok (jb : JB) (p : Packet) (delta misorder : Int) (x : JB × Int × Bool) (h : JBOk jb)
    (hr : addMisorder jb p delta misorder = .ok (some x)) : JBOk x.1 := by
  unfold addMisorder at hr
  split at hr
  · split at hr
    · cases hrm : remove jb jb.capacity with
      | ok jb1 =>
        rw [hrm] at hr; cases hr
        exact (remove_ok jb jb1 _ h hrm).withOrigin _
      | valueError => rw [hrm] at hr; cases hr
      | crash s => rw [hrm] at hr; cases hr
      | hang => rw [hrm] at hr; cases hr
    · cases hr
  · cases hr; exact h

theorem addOverflow_shift (k m : Int) (jb : JB) (p : Packet) (delta : Int) (pli : Bool) (h : JBOk jb) :
    addOverflow (shiftJB k m jb) (shiftP k m p) delta pli
      = omap (fun r => (shiftJB k m r.1, r.2)) (addOverflow jb p delta pli) := by
  unfold addOverflow
  simp only [shiftJB_capacity, smartRemove_shift k m jb _ h]
  by_cases h1 : delta ≥ (jb.capacity : Int)
  · rw [if_pos h1, if_pos h1]
    cases hr : smartRemove jb (delta - (jb.capacity : Int) + 1) with
    | ok r =>
      obtain ⟨jb1, full⟩ := r
      cases full with
      | true => simp only [omap_ok, if_true, shiftP_seq, shiftJB_setOrigin]; rfl
      | false => simp only [omap_ok, Bool.false_eq_true, if_false]; rfl
    | valueError => rfl
    | crash s => rfl
    | hang => rfl
  · rw [if_neg h1, if_neg h1]; rfl

theorem addOverflow_ok (jb : JB) (p : Packet) (delta : Int) (pli : Bool) (r : JB × Bool) (h : JBOk jb)
    (hr : addOverflow jb p delta pli = .ok r) : JBOk r.1 := by
  unfold addOverflow at hr
  simp only [] at hr
  split at hr
  · cases hs : smartRemove jb (delta - (jb.capacity : Int) + 1) with
    | ok x =>
      have hok := smartRemove_ok jb _ x h hs
      rw [hs] at hr
      obtain ⟨jb1, full⟩ := x
      simp only [] at hr
      cases hr
      cases full with
      | true => exact hok.withOrigin _
      | false => exact hok
    | valueError => rw [hs] at hr; cases hr
    | crash s => rw [hs] at hr; cases hr
    | hang => rw [hs] at hr; cases hr
  · cases hr; exact h

def shiftAddOut (k m : Int) (o : AddOut) : AddOut :=
  ⟨shiftJB k m o.jb, o.pli, o.frame.map (shiftF m), o.used.map (shiftP k m)⟩

theorem addPlace_shift (k m : Int) (jb : JB) (p : Packet) (pli : Bool) (h : JBOk jb) (hp : R32 p.ts) :
    addPlace (shiftJB k m jb) (shiftP k m p) pli = omap (shiftAddOut k m) (addPlace jb p pli) := by
  unfold addPlace
  rw [shiftP_seq, slotOf_shift k m jb p.seq (σ16 k p.seq) (σ16_mod k p.seq _ h.dvd)]
  cases hs : slotOf jb p.seq with
  | ok pos =>
    have hpos := slotOf_lt jb _ pos hs
    have hset := setSlot_shift k m jb h pos hpos (some p)
    simp only [Option.map_some] at hset
    simp only [omap_ok, hset]
    cases hset' : setSlot jb pos (some p) with
    | ok jb1 =>
      have h1 := setSlot_ok jb jb1 h pos (some p) (fun q hq => by cases hq; exact hp) hset'
      simp only [omap_ok, removeFrame_shift k m jb1 p.seq (σ16 k p.seq) h1]
      cases hrf : removeFrame jb1 p.seq with
      | ok r => rfl
      | valueError => rfl
      | crash s => rfl
      | hang => rfl
    | valueError => rfl
    | crash s => rfl
    | hang => rfl
  | valueError => rfl
  | crash s => rfl
  | hang => rfl

theorem addPlace_ok (jb : JB) (p : Packet) (pli : Bool) (o : AddOut) (h : JBOk jb) (hp : R32 p.ts)
    (hr : addPlace jb p pli = .ok o) : JBOk o.jb := by
  unfold addPlace at hr
  cases hs : slotOf jb p.seq with
  | ok pos =>
    rw [hs] at hr
    simp only [] at hr
    cases hset : setSlot jb pos (some p) with
    | ok jb1 =>
      have h1 := setSlot_ok jb jb1 h pos (some p) (fun q hq => by cases hq; exact hp) hset
      rw [hset] at hr
      simp only [] at hr
      cases hrf : removeFrame jb1 p.seq with
      | ok r => rw [hrf] at hr; cases hr; exact removeFrame_ok jb1 _ r h1 hrf
      | valueError => rw [hrf] at hr; cases hr
      | crash s => rw [hrf] at hr; cases hr
      | hang => rw [hrf] at hr; cases hr
    | valueError => rw [hset] at hr; cases hr
    | crash s => rw [hset] at hr; cases hr
    | hang => rw [hset] at hr; cases hr
  | valueError => rw [hs] at hr; cases hr
  | crash s => rw [hs] at hr; cases hr
  | hang => rw [hs] at hr; cases hr

/-- `JitterBuffer.add`: same PLI flag, the same frame (timestamp moved by `m`) made of the same packets,
the buffer afterwards is the rotated buffer. -/
theorem add_shift (k m : Int) (jb : JB) (p : Packet) (h : JBOk jb) (hp : R32 p.ts) :
    add (shiftJB k m jb) (shiftP k m p) = omap (shiftAddOut k m) (add jb p) := by
  unfold add
  rw [addDist_shift]
  have h0 := addDist_ok jb p h
  generalize addDist jb p = d at h0 ⊢
  obtain ⟨jb0, delta, misorder⟩ := d
  simp only [] at h0 ⊢
  rw [addMisorder_shift k m jb0 p delta misorder h0]
  cases hm : addMisorder jb0 p delta misorder with
  | ok r =>
    cases r with
    | none => rfl
    | some x =>
      have h1 := addMisorder_ok jb0 p delta misorder x h0 hm
      obtain ⟨jb1, delta1, pli1⟩ := x
      simp only [omap_ok, shiftMis, Option.map_some] at h1 ⊢
      rw [addOverflow_shift k m jb1 p delta1 pli1 h1]
      cases ho : addOverflow jb1 p delta1 pli1 with
      | ok y =>
        have h2 := addOverflow_ok jb1 p delta1 pli1 y h1 ho
        obtain ⟨jb2, pli2⟩ := y
        simp only [omap_ok] at h2 ⊢
        exact addPlace_shift k m jb2 p pli2 h2 hp
      | valueError => rfl
      | crash s => rfl
      | hang => rfl
  | valueError => rfl
  | crash s => rfl
  | hang => rfl

theorem add_ok (jb : JB) (p : Packet) (o : AddOut) (h : JBOk jb) (hp : R32 p.ts) (hr : add jb p = .ok o) :
    JBOk o.jb := by
  unfold add at hr
  have h0 := addDist_ok jb p h
  generalize addDist jb p = d at h0 hr
  obtain ⟨jb0, delta, misorder⟩ := d
  simp only [] at h0 hr
  cases hm : addMisorder jb0 p delta misorder with
  | ok r =>
    rw [hm] at hr
    cases r with
    | none => cases hr; exact h0
    | some x =>
      have h1 := addMisorder_ok jb0 p delta misorder x h0 hm
      obtain ⟨jb1, delta1, pli1⟩ := x
      simp only [] at h1 hr
      cases ho : addOverflow jb1 p delta1 pli1 with
      | ok y =>
        have h2 := addOverflow_ok jb1 p delta1 pli1 y h1 ho
        rw [ho] at hr
        obtain ⟨jb2, pli2⟩ := y
        exact addPlace_ok jb2 p pli2 o h2 hp hr
      | valueError => rw [ho] at hr; cases hr
      | crash s => rw [ho] at hr; cases hr
      | hang => rw [ho] at hr; cases hr
  | valueError => rw [hm] at hr; cases hr
  | crash s => rw [hm] at hr; cases hr
  | hang => rw [hm] at hr; cases hr

/-! ## whole arrival lists -/

def shiftObs (m : Int) (o : Obs) : Obs := (o.1, o.2.map (shiftF m))

/-- The same arrival pattern with every sequence number moved by `k` and every timestamp by `m`: the same
PLI flags and the same frames (payload bytes identical, timestamps moved by `m`), in the same order. -/
theorem jitterRun_shift (k m : Int) (ps : List Packet) (jb : JB) (h : JBOk jb) (hp : ∀ p ∈ ps, R32 p.ts) :
    run (shiftJB k m jb) (ps.map (shiftP k m))
      = omap (fun r => (shiftJB k m r.1, r.2.map (shiftObs m))) (run jb ps) := by
  induction ps generalizing jb with
  | nil => rfl
  | cons p rest ih =>
    have h1 := hp p (by simp)
    simp only [List.map_cons, run, add_shift k m jb p h h1]
    cases ha : add jb p with
    | ok o =>
      have ho := add_ok jb p o h h1 ha
      simp only [omap_ok]
      have e : (shiftAddOut k m o).jb = shiftJB k m o.jb := rfl
      rw [e, ih o.jb ho (fun q hq => hp q (by simp [hq]))]
      cases run o.jb rest with
      | ok r => rfl
      | valueError => rfl
      | crash s => rfl
      | hang => rfl
    | valueError => rfl
    | crash s => rfl
    | hang => rfl

/-- A freshly constructed buffer satisfies the shape invariant when its capacity is a positive divisor
of 2^16 (every power of two up to 2^16), and shifting it changes nothing. -/
theorem mk_ok (capacity : Nat) (prefetch : Int) (isVideo : Bool) (jb : JB)
    (hc : 0 < capacity) (hd : (capacity : Int) ∣ 65536) (h : mk capacity prefetch isVideo = .ok jb) :
    JBOk jb ∧ ∀ k m, shiftJB k m jb = jb := by
  unfold mk at h
  split at h
  · cases h
    refine ⟨⟨hc, hd, by simp, ?_⟩, ?_⟩
    · intro p hp
      simp only [List.mem_replicate] at hp
      cases hp.2
    · intro k m
      unfold shiftJB rotPackets
      simp only [Option.map_none]
      congr 1
      apply List.ext_getElem?
      intro i
      by_cases hi : i < capacity
      · rw [List.getElem?_map, List.getElem?_range hi, List.getElem?_replicate]
        simp only [hi, if_true, Option.map_some]
        have hu := unrot_lt k capacity i hc
        rw [List.getElem?_replicate]
        simp [hu]
      · rw [List.getElem?_eq_none (by simp; omega), List.getElem?_eq_none (by simp; omega)]
  · cases h

end Aiortc.C17
