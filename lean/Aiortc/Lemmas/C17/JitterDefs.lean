import Aiortc.Lemmas.C17.ShiftDefs
import Aiortc.Model.Jitter
/-!
# C17 part 2 — the jitter buffer under a shift `k` of the RTP sequence numbers and `m` of the timestamps

The packet array is indexed by `sequence_number % capacity`; the capacity divides 2^16, so shifting every
sequence number by `k` rotates the array by `k mod capacity`.  This file: the rotated state and the three
slot-access facts (`slotOf`, `getSlot`, `setSlot`) everything else is built on.
-/
namespace Aiortc.C17
open Aiortc Aiortc.Gen Aiortc.Model.Jitter Aiortc.Props.C17

def shiftP (k m : Int) (p : Packet) : Packet := { p with seq := σ16 k p.seq, ts := σ32 m p.ts }
def shiftF (m : Int) (f : Frame) : Frame := { f with ts := σ32 m f.ts }

@[simp] theorem shiftP_ts (k m : Int) (p : Packet) : (shiftP k m p).ts = σ32 m p.ts := rfl
@[simp] theorem shiftP_seq (k m : Int) (p : Packet) : (shiftP k m p).seq = σ16 k p.seq := rfl
@[simp] theorem shiftP_data (k m : Int) (p : Packet) : (shiftP k m p).data = p.data := rfl

/-- Slot `pos` moved by `k` (mod capacity `c`). -/
def rot (k : Int) (c pos : Nat) : Nat := (((pos : Int) + k) % (c : Int)).toNat

/-- Source slot of target slot `i`. -/
def unrot (k : Int) (c i : Nat) : Nat := (((i : Int) - k) % (c : Int)).toNat

def rotPackets (k m : Int) (c : Nat) (l : List (Option Packet)) : List (Option Packet) :=
  (List.range c).map fun i => (l[unrot k c i]?.getD none).map (shiftP k m)

def shiftJB (k m : Int) (jb : JB) : JB :=
  { jb with origin := jb.origin.map (σ16 k), packets := rotPackets k m jb.capacity jb.packets }

/-- Shape of a live buffer: positive capacity dividing 2^16, one slot per index, timestamps in range. -/
structure JBOk (jb : JB) : Prop where
  pos : 0 < jb.capacity
  dvd : (jb.capacity : Int) ∣ 65536
  len : jb.packets.length = jb.capacity
  ts : ∀ p, some p ∈ jb.packets → R32 p.ts

/-! ## modular facts -/

theorem rot_lt (k : Int) (c pos : Nat) (hc : 0 < c) : rot k c pos < c := by
  unfold rot
  have h1 := Int.emod_lt_of_pos ((pos : Int) + k) (show (0 : Int) < c by omega)
  have h2 := Int.emod_nonneg ((pos : Int) + k) (show (c : Int) ≠ 0 by omega)
  omega

theorem unrot_lt (k : Int) (c i : Nat) (hc : 0 < c) : unrot k c i < c := by
  unfold unrot
  have h1 := Int.emod_lt_of_pos ((i : Int) - k) (show (0 : Int) < c by omega)
  have h2 := Int.emod_nonneg ((i : Int) - k) (show (c : Int) ≠ 0 by omega)
  omega

theorem unrot_rot (k : Int) (c pos : Nat) (hc : 0 < c) (hp : pos < c) : unrot k c (rot k c pos) = pos := by
  unfold unrot rot
  have h2 := Int.emod_nonneg ((pos : Int) + k) (show (c : Int) ≠ 0 by omega)
  rw [Int.toNat_of_nonneg h2]
  have e : ((pos : Int) + k) % (c : Int) - k = ((pos : Int) + k) % (c : Int) + (-k) := by omega
  rw [e, Int.emod_add_emod]
  have e2 : (pos : Int) + k + -k = pos := by omega
  rw [e2, Int.emod_eq_of_lt (by omega) (by omega)]
  simp

theorem rot_unrot (k : Int) (c i : Nat) (hc : 0 < c) (hi : i < c) : rot k c (unrot k c i) = i := by
  unfold unrot rot
  have h2 := Int.emod_nonneg ((i : Int) - k) (show (c : Int) ≠ 0 by omega)
  rw [Int.toNat_of_nonneg h2, Int.emod_add_emod]
  have e2 : (i : Int) - k + k = i := by omega
  rw [e2, Int.emod_eq_of_lt (by omega) (by omega)]
  simp

/-- The slot of any number congruent to `x + k` is the rotated slot of `x`. -/
theorem slot_rot (k x y : Int) (c : Nat) (hc : ¬ c = 0) (h : y % (c : Int) = (x + k) % (c : Int)) :
    (y % (c : Int)).toNat = rot k c (x % (c : Int)).toNat := by
  unfold rot
  have h2 := Int.emod_nonneg x (show (c : Int) ≠ 0 by omega)
  rw [Int.toNat_of_nonneg h2, Int.emod_add_emod, h]

theorem σ16_mod (k x : Int) (c : Nat) (hd : (c : Int) ∣ 65536) :
    σ16 k x % (c : Int) = (x + k) % (c : Int) := by
  unfold σ16; exact Int.emod_emod_of_dvd _ hd

/-! ## the three slot accessors -/

theorem shiftJB_capacity (k m : Int) (jb : JB) : (shiftJB k m jb).capacity = jb.capacity := rfl
theorem shiftJB_prefetch (k m : Int) (jb : JB) : (shiftJB k m jb).prefetch = jb.prefetch := rfl
theorem shiftJB_isVideo (k m : Int) (jb : JB) : (shiftJB k m jb).isVideo = jb.isVideo := rfl
theorem shiftJB_origin (k m : Int) (jb : JB) : (shiftJB k m jb).origin = jb.origin.map (σ16 k) := rfl

/-- `x % capacity` of a shifted number is the rotated slot. `y` is any number congruent to `x + k`
(`σ16 k x`, or `σ16 k o + count` for `o + count`). -/
theorem slotOf_shift (k m : Int) (jb : JB) (x y : Int)
    (h : y % (jb.capacity : Int) = (x + k) % (jb.capacity : Int)) :
    slotOf (shiftJB k m jb) y = omap (rot k jb.capacity) (slotOf jb x) := by
  unfold slotOf
  rw [shiftJB_capacity]
  split
  · rfl
  · rename_i hc
    simp only [omap_ok, slot_rot k x y jb.capacity hc h]

theorem slotOf_lt (jb : JB) (x : Int) (pos : Nat) (h : slotOf jb x = .ok pos) : pos < jb.capacity := by
  unfold slotOf at h
  split at h
  · cases h
  · cases h
    have h1 := Int.emod_lt_of_pos x (show (0 : Int) < jb.capacity by omega)
    have h2 := Int.emod_nonneg x (show (jb.capacity : Int) ≠ 0 by omega)
    omega

theorem rotPackets_get (k m : Int) (c : Nat) (l : List (Option Packet)) (i : Nat) (hi : i < c) :
    (rotPackets k m c l)[i]? = some ((l[unrot k c i]?.getD none).map (shiftP k m)) := by
  unfold rotPackets
  rw [List.getElem?_map, List.getElem?_range hi]; rfl

theorem rotPackets_length (k m : Int) (c : Nat) (l : List (Option Packet)) :
    (rotPackets k m c l).length = c := by simp [rotPackets]

theorem getSlot_shift (k m : Int) (jb : JB) (h : JBOk jb) (pos : Nat) (hp : pos < jb.capacity) :
    getSlot (shiftJB k m jb) (rot k jb.capacity pos) = omap (Option.map (shiftP k m)) (getSlot jb pos) := by
  unfold getSlot
  have e : (shiftJB k m jb).packets = rotPackets k m jb.capacity jb.packets := rfl
  rw [e, rotPackets_get k m _ _ _ (rot_lt k _ pos h.pos), unrot_rot k _ pos h.pos hp]
  have hl : pos < jb.packets.length := by rw [h.len]; exact hp
  rw [List.getElem?_eq_getElem hl]
  rfl

theorem setSlot_shift (k m : Int) (jb : JB) (h : JBOk jb) (pos : Nat) (hp : pos < jb.capacity)
    (v : Option Packet) :
    setSlot (shiftJB k m jb) (rot k jb.capacity pos) (v.map (shiftP k m))
      = omap (shiftJB k m) (setSlot jb pos v) := by
  unfold setSlot
  have e : (shiftJB k m jb).packets = rotPackets k m jb.capacity jb.packets := rfl
  have hl : pos < jb.packets.length := by rw [h.len]; exact hp
  rw [e, rotPackets_length, if_pos (rot_lt k _ pos h.pos), if_pos hl]
  simp only [omap_ok]
  congr 1
  unfold shiftJB
  simp only []
  congr 1
  apply List.ext_getElem?
  intro i
  by_cases hi : i < jb.capacity
  · rw [List.getElem?_set, rotPackets_length, rotPackets_get k m _ _ _ hi, rotPackets_get k m _ _ _ hi,
      List.getElem?_set]
    by_cases hr : rot k jb.capacity pos = i
    · have hu : unrot k jb.capacity i = pos := by rw [← hr]; exact unrot_rot k _ pos h.pos hp
      simp only [hr, if_true, hi, hu, hl]
      rfl
    · have hu : ¬ pos = unrot k jb.capacity i := by
        intro hh; apply hr; rw [hh]; exact rot_unrot k _ i h.pos hi
      simp only [hr, if_false, hu]
  · have h1 : ((rotPackets k m jb.capacity jb.packets).set (rot k jb.capacity pos)
        (v.map (shiftP k m)))[i]? = none := by
      apply List.getElem?_eq_none; rw [List.length_set, rotPackets_length]; omega
    have h2 : (rotPackets k m jb.capacity (jb.packets.set pos v))[i]? = none := by
      apply List.getElem?_eq_none; rw [rotPackets_length]; omega
    rw [h1, h2]

theorem setSlot_ok (jb jb' : JB) (h : JBOk jb) (pos : Nat) (v : Option Packet)
    (hv : ∀ p, v = some p → R32 p.ts) (hs : setSlot jb pos v = .ok jb') : JBOk jb' := by
  unfold setSlot at hs
  split at hs
  · cases hs
    refine ⟨h.pos, h.dvd, by simp [h.len], ?_⟩
    intro p hp
    rcases List.mem_or_eq_of_mem_set hp with h1 | h1
    · exact h.ts p h1
    · exact hv p h1.symm
  · cases hs

/-- Changing the origin keeps the shape. -/
theorem JBOk.withOrigin {jb : JB} (h : JBOk jb) (o : Option Int) : JBOk { jb with origin := o } :=
  ⟨h.pos, h.dvd, h.len, h.ts⟩

theorem shiftJB_withOrigin (k m : Int) (jb : JB) (o : Int) :
    ({ shiftJB k m jb with origin := some (σ16 k o) } : JB) = shiftJB k m { jb with origin := some o } := rfl

end Aiortc.C17
