import Aiortc.Lemmas.C17.JitterRemove
/-!
# C17 part 2 — jitter buffer `_remove_frame` under the shifts
-/
namespace Aiortc.C17
open Aiortc Aiortc.Gen Aiortc.Model.Jitter Aiortc.Props.C17

def shiftRF (k m : Int) (st : RF) : RF :=
  { frame := st.frame.map (shiftF m), frames := st.frames, pkts := st.pkts.map (shiftP k m),
    remove := st.remove, ts := st.ts.map (σ32 m), used := st.used.map (shiftP k m) }

def shiftRFStep (k m : Int) : RFStep → RFStep
  | .cont st => .cont (shiftRF k m st)
  | .brk => .brk
  | .ret st => .ret (shiftRF k m st)

theorem joinData_shift (k m : Int) (l : List Packet) : joinData (l.map (shiftP k m)) = joinData l := by
  unfold joinData; rw [List.map_map]; rfl

theorem rfBody_shift (k m : Int) (prefetch : Int) (st : RF) (count : Nat) (p : Packet)
    (hts : TsOk st.ts) (hp : R32 p.ts) :
    rfBody prefetch (shiftRF k m st) count (shiftP k m p) = shiftRFStep k m (rfBody prefetch st count p) := by
  unfold rfBody
  have e1 : (shiftRF k m st).ts = st.ts.map (σ32 m) := rfl
  rw [e1]
  cases hs : st.ts with
  | none => simp [shiftRFStep, shiftRF, hs]
  | some t =>
    have ht := hts t hs
    simp only [Option.map_some, shiftP_ts, ne_eq, σ32_inj m p.ts t hp ht]
    by_cases hne : p.ts = t
    · simp only [hne, not_true_eq_false, if_false]
      simp [shiftRFStep, shiftRF]
    · simp only [hne, not_false_eq_true, if_true]
      have e2 : (shiftRF k m st).frame = st.frame.map (shiftF m) := rfl
      rw [e2]
      have e3 : (shiftRF k m st).frames = st.frames := rfl
      cases hf : st.frame with
      | none =>
        simp only [Option.map_none, e3]
        by_cases hpf : st.frames + 1 ≥ prefetch
        · simp [hpf, shiftRFStep, shiftRF, joinData_shift, shiftF, hf]
        · simp [hpf, shiftRFStep, shiftRF, joinData_shift, shiftF, hf]
      | some f =>
        simp only [Option.map_some, e3]
        by_cases hpf : st.frames + 1 ≥ prefetch
        · simp [hpf, shiftRFStep, shiftRF, hf]
        · simp [hpf, shiftRFStep, shiftRF, hf]

def RFStepOk : RFStep → Prop
  | .cont st => TsOk st.ts
  | .brk => True
  | .ret st => TsOk st.ts

theorem rfBody_ok (prefetch : Int) (st : RF) (count : Nat) (p : Packet) (hts : TsOk st.ts) (hp : R32 p.ts) :
    RFStepOk (rfBody prefetch st count p) := by
  have hsome : TsOk (some p.ts) := fun t ht => by cases ht; exact hp
  unfold rfBody
  cases hs : st.ts with
  | none => exact hsome
  | some t =>
    have ht : TsOk (some t) := hs ▸ hts
    simp only []
    by_cases hne : p.ts ≠ t
    · rw [if_pos hne]
      cases st.frame <;>
        (simp only []; split <;> first | exact hts | exact ht | exact hsome)
    · rw [if_neg hne]
      first | exact hts | exact ht

theorem rfStep_shift (k m : Int) (jb : JB) (o : Int) (st : RF) (count : Nat) (h : JBOk jb)
    (hts : TsOk st.ts) :
    rfStep (shiftJB k m jb) (σ16 k o) (shiftRF k m st) count
      = omap (shiftRFStep k m) (rfStep jb o st count) := by
  unfold rfStep
  have hmod : (σ16 k o + (count : Int)) % (jb.capacity : Int) = (o + (count : Int) + k) % (jb.capacity : Int) := by
    rw [← Int.emod_add_emod, σ16_mod k o _ h.dvd, Int.emod_add_emod]
    congr 1; omega
  rw [slotOf_shift k m jb (o + (count : Int)) (σ16 k o + (count : Int)) hmod]
  cases hs : slotOf jb (o + (count : Int)) with
  | ok pos =>
    have hp := slotOf_lt jb _ pos hs
    simp only [omap_ok, getSlot_shift k m jb h pos hp]
    cases hg : getSlot jb pos with
    | ok pkt =>
      cases pkt with
      | none => rfl
      | some p =>
        have hpr : R32 p.ts := h.ts p (getSlot_mem jb pos _ hg)
        simp only [omap_ok, Option.map_some, shiftJB_prefetch, rfBody_shift k m _ st count p hts hpr]
    | valueError => rfl
    | crash s => rfl
    | hang => rfl
  | valueError => rfl
  | crash s => rfl
  | hang => rfl

theorem rfStep_ok (jb : JB) (o : Int) (st : RF) (count : Nat) (r : RFStep) (h : JBOk jb) (hts : TsOk st.ts)
    (hr : rfStep jb o st count = .ok r) : RFStepOk r := by
  unfold rfStep at hr
  cases hs : slotOf jb (o + (count : Int)) with
  | ok pos =>
    rw [hs] at hr
    simp only [] at hr
    cases hg : getSlot jb pos with
    | ok pkt =>
      rw [hg] at hr
      cases pkt with
      | none => cases hr; trivial
      | some p =>
        cases hr
        exact rfBody_ok _ st count p hts (h.ts p (getSlot_mem jb pos _ hg))
    | valueError => rw [hg] at hr; cases hr
    | crash s => rw [hg] at hr; cases hr
    | hang => rw [hg] at hr; cases hr
  | valueError => rw [hs] at hr; cases hr
  | crash s => rw [hs] at hr; cases hr
  | hang => rw [hs] at hr; cases hr

theorem rfLoop_shift (k m : Int) (jb : JB) (o : Int) (n count : Nat) (st : RF) (h : JBOk jb)
    (hts : TsOk st.ts) :
    rfLoop (shiftJB k m jb) (σ16 k o) n count (shiftRF k m st)
      = omap (Option.map (shiftRF k m)) (rfLoop jb o n count st) := by
  induction n generalizing count st with
  | zero => rfl
  | succ n ih =>
    simp only [rfLoop, rfStep_shift k m jb o st count h hts]
    cases hr : rfStep jb o st count with
    | ok r =>
      have hok := rfStep_ok jb o st count r h hts hr
      cases r with
      | cont st1 => simp only [omap_ok, shiftRFStep]; exact ih (count + 1) st1 hok
      | brk => rfl
      | ret st1 => rfl
    | valueError => rfl
    | crash s => rfl
    | hang => rfl

def shiftRFOut (k m : Int) (r : RFOut) : RFOut :=
  ⟨shiftJB k m r.jb, r.frame.map (shiftF m), r.used.map (shiftP k m)⟩

/-- `_remove_frame`: the same frame (timestamp moved by `m`), made of the same packets. -/
theorem removeFrame_shift (k m : Int) (jb : JB) (sn sn' : Int) (h : JBOk jb) :
    removeFrame (shiftJB k m jb) sn' = omap (shiftRFOut k m) (removeFrame jb sn) := by
  unfold removeFrame
  rw [shiftJB_capacity, shiftJB_origin]
  have hc : ¬ jb.capacity = 0 := by have := h.pos; omega
  rw [if_neg hc, if_neg hc]
  cases ho : jb.origin with
  | none => rfl
  | some o =>
    simp only [Option.map_some]
    have hloop := rfLoop_shift k m jb o jb.capacity 0 RF.init h (fun t ht => by cases ht)
    rw [show shiftRF k m RF.init = RF.init from rfl] at hloop
    rw [hloop]
    cases hl : rfLoop jb o jb.capacity 0 RF.init with
    | ok r =>
      cases r with
      | none => rfl
      | some st =>
        simp only [omap_ok, Option.map_some]
        have e : (shiftRF k m st).remove = st.remove := rfl
        rw [e, remove_shift k m jb st.remove h]
        cases hrm : remove jb st.remove with
        | ok jb1 => rfl
        | valueError => rfl
        | crash s => rfl
        | hang => rfl
    | valueError => rfl
    | crash s => rfl
    | hang => rfl

theorem removeFrame_ok (jb : JB) (sn : Int) (r : RFOut) (h : JBOk jb) (hr : removeFrame jb sn = .ok r) :
    JBOk r.jb := by
  unfold removeFrame at hr
  split at hr
  · cases hr; exact h
  · cases ho : jb.origin with
    | none => rw [ho] at hr; cases hr
    | some o =>
      rw [ho] at hr
      simp only [] at hr
      cases hl : rfLoop jb o jb.capacity 0 RF.init with
      | ok x =>
        rw [hl] at hr
        cases x with
        | none => cases hr; exact h
        | some st =>
          simp only [] at hr
          cases hrm : remove jb st.remove with
          | ok jb1 => rw [hrm] at hr; cases hr; exact remove_ok jb jb1 _ h hrm
          | valueError => rw [hrm] at hr; cases hr
          | crash s => rw [hrm] at hr; cases hr
          | hang => rw [hrm] at hr; cases hr
      | valueError => rw [hl] at hr; cases hr
      | crash s => rw [hl] at hr; cases hr
      | hang => rw [hl] at hr; cases hr

end Aiortc.C17
