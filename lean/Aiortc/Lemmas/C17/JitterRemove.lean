import Aiortc.Lemmas.C17.JitterDefs
/-!
# C17 part 2 — jitter buffer `remove` / `smart_remove` under the shifts
-/
namespace Aiortc.C17
open Aiortc Aiortc.Gen Aiortc.Model.Jitter Aiortc.Props.C17

theorem getSlot_mem (jb : JB) (pos : Nat) (v : Option Packet) (h : getSlot jb pos = .ok v) :
    v ∈ jb.packets := by
  unfold getSlot at h
  cases hg : jb.packets[pos]? with
  | none => rw [hg] at h; cases h
  | some w => rw [hg] at h; cases h; exact List.mem_of_getElem? hg

/-! ## `remove` -/

theorem removeOne_shift (k m : Int) (jb : JB) (h : JBOk jb) :
    removeOne (shiftJB k m jb) = omap (shiftJB k m) (removeOne jb) := by
  unfold removeOne
  rw [shiftJB_origin]
  cases ho : jb.origin with
  | none => rfl
  | some o =>
    simp only [Option.map_some]
    rw [slotOf_shift k m jb o (σ16 k o) (σ16_mod k o _ h.dvd)]
    cases hs : slotOf jb o with
    | ok pos =>
      have hp := slotOf_lt jb o pos hs
      have hset := setSlot_shift k m jb h pos hp none
      simp only [Option.map_none] at hset
      simp only [omap_ok, hset]
      cases hset' : setSlot jb pos none with
      | ok jb1 => simp only [omap_ok, σ16_add, shiftJB_withOrigin]
      | valueError => rfl
      | crash s => rfl
      | hang => rfl
    | valueError => rfl
    | crash s => rfl
    | hang => rfl

theorem removeOne_ok (jb jb' : JB) (h : JBOk jb) (hr : removeOne jb = .ok jb') : JBOk jb' := by
  unfold removeOne at hr
  cases ho : jb.origin with
  | none => rw [ho] at hr; cases hr
  | some o =>
    rw [ho] at hr
    simp only [] at hr
    cases hs : slotOf jb o with
    | ok pos =>
      rw [hs] at hr
      simp only [] at hr
      cases hset : setSlot jb pos none with
      | ok jb1 =>
        rw [hset] at hr; cases hr
        exact (setSlot_ok jb jb1 h pos none (fun p hp => by cases hp) hset).withOrigin _
      | valueError => rw [hset] at hr; cases hr
      | crash s => rw [hset] at hr; cases hr
      | hang => rw [hset] at hr; cases hr
    | valueError => rw [hs] at hr; cases hr
    | crash s => rw [hs] at hr; cases hr
    | hang => rw [hs] at hr; cases hr

theorem removeLoop_shift (k m : Int) (n : Nat) (jb : JB) (h : JBOk jb) :
    removeLoop n (shiftJB k m jb) = omap (shiftJB k m) (removeLoop n jb) := by
  induction n generalizing jb with
  | zero => rfl
  | succ n ih =>
    simp only [removeLoop, removeOne_shift k m jb h]
    cases hr : removeOne jb with
    | ok jb1 => simp only [omap_ok]; exact ih jb1 (removeOne_ok jb jb1 h hr)
    | valueError => rfl
    | crash s => rfl
    | hang => rfl

theorem removeLoop_ok (n : Nat) (jb jb' : JB) (h : JBOk jb) (hr : removeLoop n jb = .ok jb') :
    JBOk jb' := by
  induction n generalizing jb with
  | zero => simp only [removeLoop] at hr; cases hr; exact h
  | succ n ih =>
    simp only [removeLoop] at hr
    cases h1 : removeOne jb with
    | ok jb1 => rw [h1] at hr; exact ih jb1 (removeOne_ok jb jb1 h h1) hr
    | valueError => rw [h1] at hr; cases hr
    | crash s => rw [h1] at hr; cases hr
    | hang => rw [h1] at hr; cases hr

theorem remove_shift (k m : Int) (jb : JB) (count : Nat) (h : JBOk jb) :
    remove (shiftJB k m jb) count = omap (shiftJB k m) (remove jb count) := by
  unfold remove
  rw [shiftJB_capacity]
  split
  · exact removeLoop_shift k m count jb h
  · rfl

theorem remove_ok (jb jb' : JB) (count : Nat) (h : JBOk jb) (hr : remove jb count = .ok jb') :
    JBOk jb' := by
  unfold remove at hr
  split at hr
  · exact removeLoop_ok count jb jb' h hr
  · cases hr

/-! ## `smart_remove` -/

def shiftSR (k m : Int) : SRStep → SRStep
  | .cont jb ts => .cont (shiftJB k m jb) (ts.map (σ32 m))
  | .brk jb => .brk (shiftJB k m jb)
  | .retTrue jb => .retTrue (shiftJB k m jb)

/-- The local `timestamp` of `smart_remove` is `None` or in range. -/
def TsOk (ts : Option Int) : Prop := ∀ t, ts = some t → R32 t

theorem ts_ne_shift (m : Int) (ts : Option Int) (t : Int) (hts : TsOk ts) (ht : R32 t) :
    (ts.map (σ32 m) ≠ some (σ32 m t)) ↔ (ts ≠ some t) := by
  cases ts with
  | none => simp
  | some u =>
    simp only [Option.map_some, ne_eq, Option.some.injEq, σ32_inj m u t (hts u rfl) ht]

/-- The check of `smart_remove` (lines 113-117): `none` = break. -/
def srChk (count : Int) (i : Nat) (ts : Option Int) (pkt : Option Packet) : Option (Option Int) :=
  match pkt with
  | some p => if (i : Int) ≥ count ∧ ts ≠ some p.ts then none else some (some p.ts)
  | none => some ts

theorem srChk_shift (k m : Int) (count : Int) (i : Nat) (ts : Option Int) (pkt : Option Packet)
    (hts : TsOk ts) (hp : ∀ p, pkt = some p → R32 p.ts) :
    srChk count i (ts.map (σ32 m)) (pkt.map (shiftP k m)) = (srChk count i ts pkt).map (Option.map (σ32 m)) := by
  unfold srChk
  cases pkt with
  | none => rfl
  | some p =>
    simp only [Option.map_some, shiftP_ts, ts_ne_shift m ts p.ts hts (hp p rfl)]
    by_cases hc : (i : Int) ≥ count ∧ ts ≠ some p.ts
    · rw [if_pos hc, if_pos hc]; rfl
    · rw [if_neg hc, if_neg hc]; rfl

theorem srChk_ok (count : Int) (i : Nat) (ts ts' : Option Int) (pkt : Option Packet)
    (hts : TsOk ts) (hp : ∀ p, pkt = some p → R32 p.ts) (h : srChk count i ts pkt = some ts') :
    TsOk ts' := by
  unfold srChk at h
  cases pkt with
  | none => simp only [Option.some.injEq] at h; rw [← h]; exact hts
  | some p =>
    simp only [] at h
    split at h
    · cases h
    · simp only [Option.some.injEq] at h; rw [← h]
      intro t ht; cases ht; exact hp p rfl

/-- `smartStep` written with `srChk` (same text). -/
theorem smartStep_eq (jb : JB) (count : Int) (i : Nat) (ts : Option Int) :
    smartStep jb count i ts =
      match jb.origin with
      | none => .crash "TypeError"
      | some o =>
        match slotOf jb o with
        | .ok pos =>
          match getSlot jb pos with
          | .ok pkt =>
            match srChk count i ts pkt with
            | none => .ok (.brk jb)
            | some ts' =>
              match setSlot jb pos none with
              | .ok jb1 =>
                if (i : Int) = (jb.capacity : Int) - 1
                then .ok (.retTrue { jb1 with origin := some (uint16_add o 1) })
                else .ok (.cont { jb1 with origin := some (uint16_add o 1) } ts')
              | .valueError => .valueError | .crash k => .crash k | .hang => .hang
          | .valueError => .valueError | .crash k => .crash k | .hang => .hang
        | .valueError => .valueError | .crash k => .crash k | .hang => .hang := by
  rfl

theorem smartStep_shift (k m : Int) (jb : JB) (count : Int) (i : Nat) (ts : Option Int) (h : JBOk jb)
    (hts : TsOk ts) :
    smartStep (shiftJB k m jb) count i (ts.map (σ32 m)) = omap (shiftSR k m) (smartStep jb count i ts) := by
  rw [smartStep_eq, smartStep_eq, shiftJB_origin, shiftJB_capacity]
  cases ho : jb.origin with
  | none => rfl
  | some o =>
    simp only [Option.map_some]
    rw [slotOf_shift k m jb o (σ16 k o) (σ16_mod k o _ h.dvd)]
    cases hs : slotOf jb o with
    | ok pos =>
      have hp := slotOf_lt jb o pos hs
      simp only [omap_ok, getSlot_shift k m jb h pos hp]
      cases hg : getSlot jb pos with
      | ok pkt =>
        have hpk : ∀ p, pkt = some p → R32 p.ts := fun p hpp => h.ts p (hpp ▸ getSlot_mem jb pos pkt hg)
        simp only [omap_ok, srChk_shift k m count i ts pkt hts hpk]
        cases hc : srChk count i ts pkt with
        | none => simp only [Option.map_none]; rfl
        | some ts' =>
          have hset := setSlot_shift k m jb h pos hp none
          simp only [Option.map_none] at hset
          simp only [Option.map_some, hset]
          cases hset' : setSlot jb pos none with
          | ok jb1 =>
            simp only [omap_ok, σ16_add, shiftJB_withOrigin]
            split <;> rfl
          | valueError => rfl
          | crash s => rfl
          | hang => rfl
      | valueError => rfl
      | crash s => rfl
      | hang => rfl
    | valueError => rfl
    | crash s => rfl
    | hang => rfl

/-- Range facts about the result of one `smart_remove` iteration. -/
def SROk : SRStep → Prop
  | .cont jb ts => JBOk jb ∧ TsOk ts
  | .brk jb => JBOk jb
  | .retTrue jb => JBOk jb

theorem smartStep_ok (jb : JB) (count : Int) (i : Nat) (ts : Option Int) (r : SRStep) (h : JBOk jb)
    (hts : TsOk ts) (hr : smartStep jb count i ts = .ok r) : SROk r := by
  rw [smartStep_eq] at hr
  cases ho : jb.origin with
  | none => rw [ho] at hr; cases hr
  | some o =>
    rw [ho] at hr
    simp only [] at hr
    cases hs : slotOf jb o with
    | ok pos =>
      rw [hs] at hr
      simp only [] at hr
      cases hg : getSlot jb pos with
      | ok pkt =>
        have hpk : ∀ p, pkt = some p → R32 p.ts := fun p hpp => h.ts p (hpp ▸ getSlot_mem jb pos pkt hg)
        rw [hg] at hr
        simp only [] at hr
        cases hc : srChk count i ts pkt with
        | none => rw [hc] at hr; cases hr; exact h
        | some ts' =>
          have hts' := srChk_ok count i ts ts' pkt hts hpk hc
          rw [hc] at hr
          simp only [] at hr
          cases hset : setSlot jb pos none with
          | ok jb1 =>
            have h1 := (setSlot_ok jb jb1 h pos none (fun p hp => by cases hp) hset).withOrigin
              (some (uint16_add o 1))
            rw [hset] at hr
            simp only [] at hr
            split at hr
            · cases hr; exact h1
            · cases hr; exact ⟨h1, hts'⟩
          | valueError => rw [hset] at hr; cases hr
          | crash s => rw [hset] at hr; cases hr
          | hang => rw [hset] at hr; cases hr
      | valueError => rw [hg] at hr; cases hr
      | crash s => rw [hg] at hr; cases hr
      | hang => rw [hg] at hr; cases hr
    | valueError => rw [hs] at hr; cases hr
    | crash s => rw [hs] at hr; cases hr
    | hang => rw [hs] at hr; cases hr

theorem smartLoop_shift (k m : Int) (count : Int) (n i : Nat) (jb : JB) (ts : Option Int) (h : JBOk jb)
    (hts : TsOk ts) :
    smartLoop count n i (shiftJB k m jb) (ts.map (σ32 m))
      = omap (fun r => (shiftJB k m r.1, r.2)) (smartLoop count n i jb ts) := by
  induction n generalizing i jb ts with
  | zero => rfl
  | succ n ih =>
    simp only [smartLoop, smartStep_shift k m jb count i ts h hts]
    cases hr : smartStep jb count i ts with
    | ok r =>
      have hok := smartStep_ok jb count i ts r h hts hr
      cases r with
      | cont jb1 ts1 => simp only [omap_ok, shiftSR]; exact ih (i + 1) jb1 ts1 hok.1 hok.2
      | brk jb1 => rfl
      | retTrue jb1 => rfl
    | valueError => rfl
    | crash s => rfl
    | hang => rfl

theorem smartLoop_ok (count : Int) (n i : Nat) (jb : JB) (ts : Option Int) (r : JB × Bool) (h : JBOk jb)
    (hts : TsOk ts) (hr : smartLoop count n i jb ts = .ok r) : JBOk r.1 := by
  induction n generalizing i jb ts with
  | zero => simp only [smartLoop] at hr; cases hr; exact h
  | succ n ih =>
    simp only [smartLoop] at hr
    cases hs : smartStep jb count i ts with
    | ok st =>
      have hok := smartStep_ok jb count i ts st h hts hs
      rw [hs] at hr
      cases st with
      | cont jb1 ts1 => exact ih (i + 1) jb1 ts1 hok.1 hok.2 hr
      | brk jb1 => cases hr; exact hok
      | retTrue jb1 => cases hr; exact hok
    | valueError => rw [hs] at hr; cases hr
    | crash s => rw [hs] at hr; cases hr
    | hang => rw [hs] at hr; cases hr

theorem smartRemove_shift (k m : Int) (jb : JB) (count : Int) (h : JBOk jb) :
    smartRemove (shiftJB k m jb) count
      = omap (fun r => (shiftJB k m r.1, r.2)) (smartRemove jb count) := by
  unfold smartRemove
  rw [shiftJB_capacity]
  exact smartLoop_shift k m count jb.capacity 0 jb none h (fun t ht => by cases ht)

theorem smartRemove_ok (jb : JB) (count : Int) (r : JB × Bool) (h : JBOk jb)
    (hr : smartRemove jb count = .ok r) : JBOk r.1 :=
  smartLoop_ok count jb.capacity 0 jb none r h (fun t ht => by cases ht) hr

end Aiortc.C17
