import Aiortc.Lemmas.C17.ShiftDefs
/-!
# C17 part 2 — `_mark_received` under a TSN shift
-/
namespace Aiortc.C17
open Aiortc Aiortc.Gen Aiortc.Sctp Aiortc.Props.C17

theorem insertByKey_shift (k base t : Int) (l : List Int) :
    insertByKey (σ32 k base) (σ32 k t) (l.map (σ32 k)) = (insertByKey base t l).map (σ32 k) := by
  induction l with
  | nil => rfl
  | cons x xs ih =>
    simp only [List.map_cons, insertByKey, serialKey_shift]
    split
    · simp
    · simp [ih]

theorem sortByKey_shift (k base : Int) (l : List Int) :
    sortByKey (σ32 k base) (l.map (σ32 k)) = (sortByKey base l).map (σ32 k) := by
  induction l with
  | nil => rfl
  | cons x xs ih =>
    simp only [sortByKey, List.map_cons, List.foldr_cons] at *
    rw [ih, insertByKey_shift]

theorem mem_insertByKey (base t x : Int) (l : List Int) :
    x ∈ insertByKey base t l ↔ x = t ∨ x ∈ l := by
  induction l with
  | nil => simp [insertByKey]
  | cons y ys ih =>
    simp only [insertByKey]
    split
    · simp
    · simp only [List.mem_cons, ih]
      constructor
      · rintro (h | h | h) <;> simp [h]
      · rintro (h | h | h) <;> simp [h]

theorem mem_sortByKey (base x : Int) (l : List Int) : x ∈ sortByKey base l ↔ x ∈ l := by
  induction l with
  | nil => simp [sortByKey]
  | cons y ys ih =>
    simp only [sortByKey, List.foldr_cons] at *
    rw [mem_insertByKey, ih]; simp

theorem consolidate_shift (k last : Int) (l : List Int) (hl : ∀ x ∈ l, R32 x) :
    consolidate (σ32 k last) (l.map (σ32 k)) = σ32 k (consolidate last l) := by
  induction l generalizing last with
  | nil => rfl
  | cons t ts ih =>
    have ht := hl t (by simp)
    have ih := fun last => ih last (fun y hy => hl y (by simp [hy]))
    simp only [List.map_cons, consolidate]
    by_cases h : t = tsn_plus_one last
    · rw [if_pos h, if_pos ((σ32_eq_plus_one k t last ht).2 h), ih]
    · rw [if_neg h, if_neg (fun h' => h ((σ32_eq_plus_one k t last ht).1 h'))]

theorem consolidate_range (last : Int) (l : List Int) (h0 : R32 last) (hl : ∀ x ∈ l, R32 x) :
    R32 (consolidate last l) := by
  induction l generalizing last with
  | nil => exact h0
  | cons t ts ih =>
    simp only [consolidate]
    split
    · exact ih t (hl t (by simp)) (fun y hy => hl y (by simp [hy]))
    · exact h0

/-- `_mark_received` commutes with the TSN shift; the duplicate verdict is unchanged. -/
theorem markReceived_shift (k : Int) (r : Rx) (tsn : Int) (hr : RxOk r) (ht : R32 tsn) :
    markReceived (shiftRx k r) (σ32 k tsn)
      = ((markReceived r tsn).1, shiftRx k (markReceived r tsn).2) := by
  obtain ⟨h1, h2, h3⟩ := hr
  have hmis : ∀ x ∈ r.mis ++ [tsn], R32 x := by
    intro x hx; simp only [List.mem_append, List.mem_singleton] at hx
    rcases hx with hx | hx
    · exact h2 x hx
    · exact hx ▸ ht
  have hsorted : ∀ x ∈ sortByKey r.last (r.mis ++ [tsn]), R32 x :=
    fun x hx => hmis x ((mem_sortByKey _ _ _).1 hx)
  have hlast := consolidate_range r.last _ h1 hsorted
  unfold markReceived
  simp only [shiftRx, σ32_gte k _ _ h1 ht, contains_shift32 k tsn r.mis ht h2]
  split
  · simp
  · have e1 : List.map (σ32 k) r.mis ++ [σ32 k tsn] = (r.mis ++ [tsn]).map (σ32 k) := by simp
    rw [e1, sortByKey_shift, consolidate_shift k _ _ hsorted]
    simp only [Prod.mk.injEq, Rx.mk.injEq, true_and]
    refine ⟨?_, ?_⟩
    · exact filter_map_shift _ _ _ _ (fun x hx => σ32_gt k x _ (hmis x hx) hlast)
    · exact filter_map_shift _ _ _ _ (fun x hx => σ32_gt k x _ (h3 x hx) hlast)

/-- The range invariant is kept. -/
theorem markReceived_ok (r : Rx) (tsn : Int) (hr : RxOk r) (ht : R32 tsn) :
    RxOk (markReceived r tsn).2 := by
  obtain ⟨h1, h2, h3⟩ := hr
  have hmis : ∀ x ∈ r.mis ++ [tsn], R32 x := by
    intro x hx; simp only [List.mem_append, List.mem_singleton] at hx
    rcases hx with hx | hx
    · exact h2 x hx
    · exact hx ▸ ht
  unfold markReceived
  split
  · refine ⟨h1, h2, ?_⟩
    intro x hx; simp only [List.mem_append, List.mem_singleton] at hx
    rcases hx with hx | hx
    · exact h3 x hx
    · exact hx ▸ ht
  · refine ⟨consolidate_range _ _ h1 (fun x hx => hmis x ((mem_sortByKey _ _ _).1 hx)), ?_, ?_⟩
    · intro x hx; exact hmis x (List.mem_filter.1 hx).1
    · intro x hx; exact h3 x (List.mem_filter.1 hx).1

end Aiortc.C17
