import Aiortc.Lemmas.C17.ShiftDefs
import Aiortc.Model.Video.Nack
/-!
# C17 part 2 — `NackGenerator` under a shift of the RTP sequence numbers
-/
namespace Aiortc.C17
open Aiortc Aiortc.Gen Aiortc.Model.Video Aiortc.Props.C17

def shiftNack (k : Int) (g : NackGen) : NackGen := ⟨g.maxSeq.map (σ16 k), g.missing.map (σ16 k)⟩

def NackOk (g : NackGen) : Prop := (∀ m, g.maxSeq = some m → R16 m) ∧ ∀ x ∈ g.missing, R16 x

theorem mem_shift16 (k a : Int) (l : List Int) (ha : R16 a) (hl : ∀ x ∈ l, R16 x) :
    σ16 k a ∈ l.map (σ16 k) ↔ a ∈ l := by
  simp only [List.mem_map]
  constructor
  · rintro ⟨y, hy, hxy⟩
    rw [(σ16_inj k y a (hl y hy) ha).1 hxy] at hy; exact hy
  · intro h; exact ⟨a, h, rfl⟩

theorem setAdd_shift (k x : Int) (l : List Int) (hx : R16 x) (hl : ∀ y ∈ l, R16 y) :
    setAdd (l.map (σ16 k)) (σ16 k x) = (setAdd l x).map (σ16 k) := by
  unfold setAdd
  by_cases h : x ∈ l
  · rw [if_pos h, if_pos ((mem_shift16 k x l hx hl).2 h)]
  · rw [if_neg h, if_neg (fun h' => h ((mem_shift16 k x l hx hl).1 h'))]; simp

theorem setAdd_range (x : Int) (l : List Int) (hx : R16 x) (hl : ∀ y ∈ l, R16 y) :
    ∀ y ∈ setAdd l x, R16 y := by
  unfold setAdd
  split
  · exact hl
  · intro y hy; simp only [List.mem_append, List.mem_singleton] at hy
    rcases hy with hy | hy
    · exact hl y hy
    · exact hy ▸ hx

theorem setDiscard_shift (k x : Int) (l : List Int) (hx : R16 x) (hl : ∀ y ∈ l, R16 y) :
    setDiscard (l.map (σ16 k)) (σ16 k x) = (setDiscard l x).map (σ16 k) := by
  unfold setDiscard
  apply filter_map_shift
  intro y hy
  rw [Bool.eq_iff_iff]
  simp only [ne_eq, decide_eq_true_eq, σ16_inj k y x (hl y hy) hx]

theorem markLoop_shift (k target : Int) (ht : R16 target) (fuel : Nat) (seq : Int) (missing : List Int)
    (missed : Bool) (hs : R16 seq) (hm : ∀ y ∈ missing, R16 y) :
    markLoop (σ16 k target) fuel (σ16 k seq) (missing.map (σ16 k)) missed
      = omap (fun p => (p.1.map (σ16 k), p.2)) (markLoop target fuel seq missing missed) := by
  induction fuel generalizing seq missing missed with
  | zero => rfl
  | succ n ih =>
    simp only [markLoop, σ16_gt k target seq ht hs]
    by_cases hg : uint16_gt target seq = true
    · simp only [hg, if_true, σ16_add, setAdd_shift k seq missing hs hm]
      exact ih _ _ _ (uint16_add_range _ _) (setAdd_range seq missing hs hm)
    · simp only [hg, Bool.false_eq_true, if_false, omap_ok]

theorem markLoop_range (target : Int) (fuel : Nat) (seq : Int) (missing : List Int) (missed : Bool)
    (hs : R16 seq) (hm : ∀ y ∈ missing, R16 y) (r : List Int × Bool)
    (h : markLoop target fuel seq missing missed = .ok r) : ∀ y ∈ r.1, R16 y := by
  induction fuel generalizing seq missing missed with
  | zero => simp [markLoop] at h
  | succ n ih =>
    simp only [markLoop] at h
    split at h
    · exact ih _ _ _ (uint16_add_range _ _) (setAdd_range seq missing hs hm) h
    · cases h; exact hm

theorem truncate_shift (k : Int) (g : NackGen) (hg : NackOk g) :
    NackGen.truncate (shiftNack k g) = shiftNack k (NackGen.truncate g) := by
  unfold NackGen.truncate
  cases hm : g.maxSeq with
  | none => simp [shiftNack, hm]
  | some m =>
    simp only [shiftNack, hm, Option.map_some, σ16_add]
    congr 1
    apply filter_map_shift
    intro s hs
    rw [σ16_gt k _ s (uint16_add_range _ _) (hg.2 s hs)]

theorem truncate_ok (g : NackGen) (hg : NackOk g) : NackOk (NackGen.truncate g) := by
  unfold NackGen.truncate
  cases hm : g.maxSeq with
  | none => simpa [hm] using hg
  | some m =>
    refine ⟨fun m' h' => hg.1 m' (by simpa [hm] using h'), ?_⟩
    intro x hx
    exact hg.2 x (List.mem_filter.1 hx).1

/-- `NackGenerator.add`: same `missed` verdict, the missing set is the shifted set. -/
theorem nackAdd_shift (k : Int) (g : NackGen) (sn : Int) (hg : NackOk g) (hs : R16 sn) :
    (shiftNack k g).add (σ16 k sn) = omap (fun p => (shiftNack k p.1, p.2)) (g.add sn) := by
  unfold NackGen.add
  cases hm : g.maxSeq with
  | none => simp [shiftNack, hm]
  | some m =>
    have hmr := hg.1 m hm
    simp only [shiftNack, hm, Option.map_some, σ16_gt k sn m hs hmr]
    by_cases hgt : uint16_gt sn m = true
    · simp only [hgt, if_true, σ16_add]
      rw [markLoop_shift k sn hs _ _ _ _ (uint16_add_range _ _) hg.2]
      cases hl : markLoop sn markFuel (uint16_add m 1) g.missing false with
      | ok r =>
        obtain ⟨miss, missed⟩ := r
        have hr := markLoop_range sn _ _ _ _ (uint16_add_range _ _) hg.2 _ hl
        simp only [omap_ok]
        have := truncate_shift k { maxSeq := some sn, missing := miss }
          ⟨fun m' h' => by cases h'; exact hs, hr⟩
        simp only [shiftNack, Option.map_some] at this
        rw [this]
      | valueError => rfl
      | crash s => rfl
      | hang => rfl
    · simp only [hgt, Bool.false_eq_true, if_false, omap_ok,
        setDiscard_shift k sn g.missing hs hg.2]
      have := truncate_shift k { g with missing := setDiscard g.missing sn }
        ⟨fun m' h' => hg.1 m' h', fun x hx => hg.2 x (List.mem_filter.1 hx).1⟩
      simp only [shiftNack, hm, Option.map_some] at this
      rw [this]

theorem nackAdd_ok (g g' : NackGen) (sn : Int) (b : Bool) (hg : NackOk g) (hs : R16 sn)
    (h : g.add sn = .ok (g', b)) : NackOk g' := by
  unfold NackGen.add at h
  cases hm : g.maxSeq with
  | none =>
    rw [hm] at h; cases h
    exact ⟨fun m' h' => by cases h'; exact hs, hg.2⟩
  | some m =>
    rw [hm] at h
    simp only [] at h
    split at h
    · cases hl : markLoop sn markFuel (uint16_add m 1) g.missing false with
      | ok r =>
        obtain ⟨miss, missed⟩ := r
        rw [hl] at h; cases h
        have hr := markLoop_range sn _ _ _ _ (uint16_add_range _ _) hg.2 _ hl
        exact truncate_ok _ ⟨fun m' h' => by cases h'; exact hs, hr⟩
      | valueError => rw [hl] at h; cases h
      | crash s => rw [hl] at h; cases h
      | hang => rw [hl] at h; cases h
    · cases h
      exact truncate_ok _ ⟨fun m' h' => hg.1 m' (hm.trans h'), fun x hx => hg.2 x (List.mem_filter.1 hx).1⟩

/-- Feeding a list of sequence numbers; the `missed` verdicts are collected. -/
def nackRun : NackGen → List Int → Outcome (NackGen × List Bool)
  | g, [] => .ok (g, [])
  | g, sn :: rest =>
    match g.add sn with
    | .ok (g1, b) =>
      match nackRun g1 rest with
      | .ok (g2, bs) => .ok (g2, b :: bs)
      | .valueError => .valueError | .crash s => .crash s | .hang => .hang
    | .valueError => .valueError | .crash s => .crash s | .hang => .hang

theorem nackRun_shift (k : Int) (sns : List Int) (g : NackGen) (hg : NackOk g) (hs : ∀ x ∈ sns, R16 x) :
    nackRun (shiftNack k g) (sns.map (σ16 k))
      = omap (fun p => (shiftNack k p.1, p.2)) (nackRun g sns) := by
  induction sns generalizing g with
  | nil => rfl
  | cons sn rest ih =>
    have h1 := hs sn (by simp)
    simp only [List.map_cons, nackRun, nackAdd_shift k g sn hg h1]
    cases ha : g.add sn with
    | ok p =>
      obtain ⟨g1, b⟩ := p
      have hg1 := nackAdd_ok g g1 sn b hg h1 ha
      simp only [omap_ok, ih g1 hg1 (fun y hy => hs y (by simp [hy]))]
      cases nackRun g1 rest with
      | ok q => rfl
      | valueError => rfl
      | crash s => rfl
      | hang => rfl
    | valueError => rfl
    | crash s => rfl
    | hang => rfl

end Aiortc.C17
