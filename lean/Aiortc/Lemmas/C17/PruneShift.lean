import Aiortc.Lemmas.C17.ShiftDefs
/-!
# C17 part 2 — `InboundStream.prune_chunks` under the shifts
-/
namespace Aiortc.C17
open Aiortc Aiortc.Gen Aiortc.Sctp Aiortc.Props.C17

theorem takeRun_shift (k j : Int) (prev : RChunk) (l : List RChunk) (hl : ∀ x ∈ l, CR x) :
    takeRun (shiftR k j prev) (l.map (shiftR k j))
      = ((takeRun prev l).1.map (shiftR k j), (takeRun prev l).2.map (shiftR k j)) := by
  induction l generalizing prev with
  | nil => rfl
  | cons c cs ih =>
    have hc := hl c (by simp)
    have ih := fun p => ih p (fun y hy => hl y (by simp [hy]))
    simp only [List.map_cons, takeRun, shiftR_flags, shiftR_tsn,
      σ32_eq_plus_one k c.tsn prev.tsn hc.1, ih]
    split <;> simp

theorem takeRun_mem (prev : RChunk) (l : List RChunk) :
    (∀ x ∈ (takeRun prev l).1, x ∈ l) ∧ (∀ x ∈ (takeRun prev l).2, x ∈ l) := by
  induction l generalizing prev with
  | nil => simp [takeRun]
  | cons c cs ih =>
    simp only [takeRun]
    split
    · have := ih c
      constructor
      · intro x hx; simp only [List.mem_cons] at hx ⊢
        rcases hx with hx | hx
        · exact Or.inl hx
        · exact Or.inr (this.1 x hx)
      · intro x hx; exact List.mem_cons_of_mem _ (this.2 x hx)
    · simp

theorem getLastD_shift (k j : Int) (first : RChunk) (run : List RChunk) :
    (((first :: run).map (shiftR k j)).getLast?.getD (shiftR k j first))
      = shiftR k j ((first :: run).getLast?.getD first) := by
  rw [List.getLast?_map]
  cases (first :: run).getLast? <;> rfl

theorem sum_data_shift (k j : Int) (l : List RChunk) :
    ((l.map (shiftR k j)).map (·.data.length)).sum = (l.map (·.data.length)).sum := by
  simp [List.map_map, Function.comp_def]

theorem pruneGo_shift (k j : Int) (tsn : Int) (ht : R32 tsn) (fuel : Nat) (l : List RChunk)
    (hl : ∀ x ∈ l, CR x) :
    pruneGo (σ32 k tsn) fuel (l.map (shiftR k j))
      = ((pruneGo tsn fuel l).1.map (shiftR k j), (pruneGo tsn fuel l).2) := by
  induction fuel generalizing l with
  | zero => cases l <;> rfl
  | succ n ih =>
    cases l with
    | nil => rfl
    | cons first cs =>
      have hcs : ∀ x ∈ cs, CR x := fun y hy => hl y (by simp [hy])
      have hrest : ∀ x ∈ (takeRun first cs).2, CR x :=
        fun x hx => hcs x ((takeRun_mem first cs).2 x hx)
      have e := getLastD_shift k j first (takeRun first cs).1
      have e2 := sum_data_shift k j (first :: (takeRun first cs).1)
      simp only [List.map_cons] at e e2
      simp only [List.map_cons, pruneGo, takeRun_shift k j first cs hcs, ih _ hrest, e, e2,
        shiftR_flags, shiftR_tsn, σ32_minus_one, σ32_plus_one,
        σ32_gte k tsn _ ht (minus_one_range _), σ32_gte k tsn _ ht (plus_one_range _)]
      split <;> simp

/-- `prune_chunks(tsn)`: the surviving queue is the shifted one, the byte count freed is unchanged. -/
theorem pruneChunks_shift (k j : Int) (s : InStream) (tsn : Int) (hs : InOk s) (ht : R32 tsn) :
    (shiftIn k j s).pruneChunks (σ32 k tsn)
      = (shiftIn k j (s.pruneChunks tsn).1, (s.pruneChunks tsn).2) := by
  unfold InStream.pruneChunks
  simp only [shiftIn, List.length_map, pruneGo_shift k j tsn ht _ s.reasm hs.1]

end Aiortc.C17
