import Aiortc.Lemmas.C17.StrikeShift
import Aiortc.Lemmas.C17.SackShift
/-!
# C17 part 2 — `_receive_sack_chunk` under the shifts

`Tx.receiveSack` is cut into its four phases (same text as in the model; `receiveSack_eq` is the proof that
the cut is faithful), each phase is shown to commute with the shifts.
-/
namespace Aiortc.C17
open Aiortc Aiortc.Gen Aiortc.Sctp Aiortc.Props.C17

/-! ## the phases -/

/-- cumulative-ack phase: `(state, done, done_bytes)`. -/
def sackAck (t : Tx) (cum : Int) : Tx × Nat × Nat :=
  let r := ackLoop cum t.flight 0 0 t.sentQ
  ({ t with lastSacked := cum, flight := r.1, sentQ := r.2.2.2 }, r.2.1, r.2.2.1)

/-- gap-block phase (`if chunk.gaps:`): `(state, done_bytes, loss)`. -/
def sackGaps (t : Tx) (cum : Int) (gaps : List (Nat × Nat)) (doneBytes : Nat) (now : Int) :
    Tx × Nat × Bool :=
  let limit : Nat := match t.sentQ.getLast? with
    | some l => if uint32_gt l.tsn cum then ((l.tsn - cum) % 4294967296).toNat else 0
    | none => 0
  let g := gapSeen cum limit gaps
  let h := htnaLoop g.1 g.2 t.flight doneBytes cum [] t.sentQ
  let t1 : Tx := { t with flight := h.1, sentQ := h.2.2.2 }
  let s := strikeLoop g.1 h.2.2.1 now t1.sentQ.length 0 t1 false
  (s.1, h.2.1, s.2)

/-- congestion-window growth (`if done and fully_utilized:`). -/
def cwndGrow (t : Tx) (done : Nat) (fully : Bool) (doneBytes : Nat) : Tx :=
  if done > 0 && fully then
    if t.cwnd ≤ t.ssthresh then { t with cwnd := t.cwnd + min doneBytes USERDATA_MAX }
    else
      let pba := t.partialBytesAcked + doneBytes
      if pba ≥ t.cwnd then { t with partialBytesAcked := pba - t.cwnd, cwnd := t.cwnd + USERDATA_MAX }
      else { t with partialBytesAcked := pba }
  else t

/-- entering fast recovery (`if loss:`). -/
def enterFr (t : Tx) : Outcome Tx :=
  match t.sentQ.getLast? with
  | none => .crash "IndexError"
  | some l =>
    let ss := max (t.cwnd / 2) (4 * USERDATA_MAX)
    .ok { t with ssthresh := ss, cwnd := ss, partialBytesAcked := 0,
                 fastRecoveryExit := some l.tsn, fastRecoveryTransmit := true }

/-- congestion-window phase. -/
def sackCwnd (t : Tx) (cum : Int) (done : Nat) (fully : Bool) (doneBytes : Nat) (loss : Bool) :
    Outcome Tx :=
  match t.fastRecoveryExit with
  | none => if loss then enterFr (cwndGrow t done fully doneBytes) else .ok (cwndGrow t done fully doneBytes)
  | some ex => if uint32_gte cum ex then .ok { t with fastRecoveryExit := none } else .ok t

/-- T3 phase. -/
def sackT3 (t : Tx) (done : Nat) : Tx × List TxEv :=
  if t.sentQ.isEmpty then ({ t with t3 := false }, if t.t3 then [TxEv.t3cancel] else [])
  else if done > 0 then ({ t with t3 := true }, t3Restart t.t3)
  else (t, [])

def sackMid (t : Tx) (cum : Int) (gaps : List (Nat × Nat)) (now : Int) : Tx × Nat × Bool :=
  if gaps.isEmpty then ((sackAck t cum).1, (sackAck t cum).2.2, false)
  else sackGaps (sackAck t cum).1 cum gaps (sackAck t cum).2.2 now

def sackEnd (r : Outcome Tx) (done : Nat) : Outcome (Option (Tx × List TxEv)) :=
  match r with
  | .ok t => .ok (some ((sackT3 t done).1.updateAdvAck, (sackT3 t done).2))
  | .valueError => .valueError
  | .crash k => .crash k
  | .hang => .hang

theorem receiveSack_eq (t : Tx) (cum : Int) (gaps : List (Nat × Nat)) (now : Int) :
    t.receiveSack cum gaps now
      = if t.sackStale cum then .ok none
        else sackEnd (sackCwnd (sackMid t cum gaps now).1 cum (sackAck t cum).2.1
              (decide (t.flight ≥ t.cwnd)) (sackMid t cum gaps now).2.1 (sackMid t cum gaps now).2.2)
              (sackAck t cum).2.1 := by
  unfold Tx.receiveSack
  split
  · rfl
  · unfold sackMid
    cases hg : gaps.isEmpty with
    | true =>
      simp only [if_true]
      unfold sackEnd sackCwnd enterFr cwndGrow sackT3 sackAck
      rfl
    | false =>
      simp only [Bool.false_eq_true, if_false]
      unfold sackEnd sackCwnd enterFr cwndGrow sackT3 sackGaps sackAck
      rfl

/-! ## what the SACK phases leave alone -/

/-- `fastRecoveryExit`, `advAck`, `lastSacked` are untouched. -/
def Frame (t t' : Tx) : Prop :=
  t'.fastRecoveryExit = t.fastRecoveryExit ∧ t'.advAck = t.advAck ∧ t'.lastSacked = t.lastSacked ∧
    t'.streamSeq = t.streamSeq

theorem Frame.refl (t : Tx) : Frame t t := ⟨rfl, rfl, rfl, rfl⟩
theorem Frame.trans {a b c : Tx} (h1 : Frame a b) (h2 : Frame b c) : Frame a c :=
  ⟨h2.1.trans h1.1, h2.2.1.trans h1.2.1, h2.2.2.1.trans h1.2.2.1, h2.2.2.2.trans h1.2.2.2⟩

theorem maybeAbandon_frame (t : Tx) (pos : Nat) (now : Int) : Frame t (t.maybeAbandon pos now).2 := by
  unfold Tx.maybeAbandon
  cases t.sentQ[pos]? with
  | none => exact Frame.refl t
  | some chunk =>
    simp only []
    split
    · exact Frame.refl t
    · split
      · exact Frame.refl t
      · split <;> exact ⟨rfl, rfl, rfl, rfl⟩

theorem strikeHit_frame (t : Tx) (pos : Nat) (c : SChunk) (now : Int) : Frame t (strikeHit t pos c now) := by
  have h1 : Frame t (strikeMiss t pos 0) := ⟨rfl, rfl, rfl, rfl⟩
  have h2 := maybeAbandon_frame (strikeMiss t pos 0) pos now
  have h3 : Frame ((strikeMiss t pos 0).maybeAbandon pos now).2 (strikeHit t pos c now) := ⟨rfl, rfl, rfl, rfl⟩
  exact (h1.trans h2).trans h3

theorem strikeLoop_frame (seen : List Int) (hna now : Int) (fuel pos : Nat) (t : Tx) (loss : Bool) :
    Frame t (strikeLoop seen hna now fuel pos t loss).1 := by
  induction fuel generalizing pos t loss with
  | zero => exact Frame.refl t
  | succ n ih =>
    rw [strikeLoop_succ]
    cases t.sentQ[pos]? with
    | none => exact Frame.refl t
    | some c =>
      simp only []
      split
      · exact Frame.refl t
      · split
        · split
          · exact (strikeHit_frame t pos c now).trans (ih _ _ _)
          · exact (show Frame t (strikeMiss t pos (c.misses + 1)) from ⟨rfl, rfl, rfl, rfl⟩).trans (ih _ _ _)
        · exact ih _ _ _

/-! ## cumulative-ack phase -/

theorem ackLoop_mem (ls : Int) (fl done db : Nat) (l : List SChunk) :
    ∀ x ∈ (ackLoop ls fl done db l).2.2.2, x ∈ l := by
  induction l generalizing fl done db with
  | nil => simp [ackLoop]
  | cons c cs ih =>
    simp only [ackLoop]
    split
    · intro x hx; exact List.mem_cons_of_mem _ (ih _ _ _ x hx)
    · intro x hx; exact hx

theorem sackAck_shift (k j : Int) (t : Tx) (cum : Int) (hc : R32 cum) (ht : AllR t.sentQ) :
    sackAck (shiftTx k j t) (σ32 k cum) = (shiftTx k j (sackAck t cum).1, (sackAck t cum).2) := by
  unfold sackAck
  simp only [shiftTx_sentQ, shiftTx_flight, ackLoop_shift k j cum hc _ _ _ t.sentQ ht]
  rfl

theorem sackAck_qok (t : Tx) (cum : Int) (h : QOk t) : QOk (sackAck t cum).1 :=
  ⟨h.1.sub (ackLoop_mem _ _ _ _ _), h.2⟩

/-! ## gap-block phase -/

theorem htnaLoop_ok (seen : List Int) (hs : Int) (fl db : Nat) (hna : Int) (acc l : List SChunk)
    (hh : R32 hna) (hacc : AllR acc) (hl : AllR l) :
    R32 (htnaLoop seen hs fl db hna acc l).2.2.1 ∧ AllR (htnaLoop seen hs fl db hna acc l).2.2.2 := by
  induction l generalizing fl db hna acc with
  | nil =>
    simp only [htnaLoop]
    exact ⟨hh, hacc.sub (fun x hx => List.mem_reverse.1 hx)⟩
  | cons c cs ih =>
    have hc := hl c (by simp)
    have hcs : AllR cs := fun y hy => hl y (by simp [hy])
    simp only [htnaLoop]
    split
    · refine ⟨hh, ?_⟩
      intro x hx
      rcases List.mem_append.1 hx with h1 | h1
      · exact hacc x (List.mem_reverse.1 h1)
      · exact hl x h1
    · split
      · apply ih _ _ _ _ hc _ hcs
        intro x hx; simp only [List.mem_cons] at hx
        rcases hx with hx | hx
        · rw [hx, decFlight_tsn]; exact hc
        · exact hacc x hx
      · apply ih _ _ _ _ hh _ hcs
        intro x hx; simp only [List.mem_cons] at hx
        rcases hx with hx | hx
        · rw [hx]; exact hc
        · exact hacc x hx

theorem shiftTx_setFS (k j : Int) (t : Tx) (fl : Nat) (q : List SChunk) :
    ({ shiftTx k j t with flight := fl, sentQ := q.map (shiftS k j) } : Tx)
      = shiftTx k j { t with flight := fl, sentQ := q } := rfl

theorem sackGaps_shift (k j : Int) (t : Tx) (cum : Int) (gaps : List (Nat × Nat)) (db : Nat) (now : Int)
    (hc : R32 cum) (ht : QOk t) :
    sackGaps (shiftTx k j t) (σ32 k cum) gaps db now
      = (shiftTx k j (sackGaps t cum gaps db now).1, (sackGaps t cum gaps db now).2) := by
  unfold sackGaps
  have hlim : (match (shiftTx k j t).sentQ.getLast? with
        | some l => if uint32_gt l.tsn (σ32 k cum) then ((l.tsn - σ32 k cum) % 4294967296).toNat else 0
        | none => 0)
      = (match t.sentQ.getLast? with
        | some l => if uint32_gt l.tsn cum then ((l.tsn - cum) % 4294967296).toNat else 0
        | none => 0) := by
    rw [shiftTx_sentQ, List.getLast?_map]
    cases hl : t.sentQ.getLast? with
    | none => rfl
    | some l =>
      have hlr : R32 l.tsn := ht.1 l (List.mem_of_getLast? hl)
      show (if uint32_gt (σ32 k l.tsn) (σ32 k cum) then ((σ32 k l.tsn - σ32 k cum) % 4294967296).toNat else 0)
        = (if uint32_gt l.tsn cum then ((l.tsn - cum) % 4294967296).toNat else 0)
      rw [σ32_eq_add, σ32_eq_add, Aiortc.Props.C17.uint32_gt_shift l.tsn cum k hlr hc, ← σ32_eq_add, ← σ32_eq_add,
        limit_shift]
  simp only [hlim]
  generalize (match t.sentQ.getLast? with
        | some l => if uint32_gt l.tsn cum then ((l.tsn - cum) % 4294967296).toNat else 0
        | none => 0) = limit
  have hg := gapSeen_range cum limit gaps hc
  simp only [gapSeen_shift, shiftTx_sentQ, shiftTx_flight]
  have hh := htnaLoop_shift k j (gapSeen cum limit gaps).1 (gapSeen cum limit gaps).2 hg.1 hg.2
    t.flight db cum [] t.sentQ ht.1
  simp only [List.map_nil] at hh
  simp only [hh, shiftTx_setFS, List.length_map]
  have hok := htnaLoop_ok (gapSeen cum limit gaps).1 (gapSeen cum limit gaps).2 t.flight db cum []
    t.sentQ hc (fun x hx => by simp at hx) ht.1
  generalize htnaLoop (gapSeen cum limit gaps).1 (gapSeen cum limit gaps).2 t.flight db cum []
    t.sentQ = h at hok ⊢
  have hq : QOk { t with flight := h.1, sentQ := h.2.2.2 } := ⟨hok.2, ht.2⟩
  rw [strikeLoop_shift k j _ _ now hg.1 hok.1 _ 0 _ false hq]

theorem sackGaps_frame (t : Tx) (cum : Int) (gaps : List (Nat × Nat)) (db : Nat) (now : Int) :
    Frame t (sackGaps t cum gaps db now).1 := by
  unfold sackGaps
  simp only []
  exact (show Frame t _ from ⟨rfl, rfl, rfl, rfl⟩).trans (strikeLoop_frame _ _ _ _ _ _ _)

theorem sackMid_shift (k j : Int) (t : Tx) (cum : Int) (gaps : List (Nat × Nat)) (now : Int)
    (hc : R32 cum) (ht : QOk t) :
    sackMid (shiftTx k j t) (σ32 k cum) gaps now
      = (shiftTx k j (sackMid t cum gaps now).1, (sackMid t cum gaps now).2) := by
  unfold sackMid
  rw [sackAck_shift k j t cum hc ht.1]
  split
  · rfl
  · exact sackGaps_shift k j _ cum gaps _ now hc (sackAck_qok t cum ht)

theorem sackMid_frame (t : Tx) (cum : Int) (gaps : List (Nat × Nat)) (now : Int) :
    (sackMid t cum gaps now).1.fastRecoveryExit = t.fastRecoveryExit
      ∧ (sackMid t cum gaps now).1.advAck = t.advAck ∧ (sackMid t cum gaps now).1.lastSacked = cum := by
  unfold sackMid
  split
  · exact ⟨rfl, rfl, rfl⟩
  · have := sackGaps_frame (sackAck t cum).1 cum gaps (sackAck t cum).2.2 now
    exact ⟨this.1, this.2.1, this.2.2.1⟩

theorem t3Restart_shift' (k j : Int) (b : Bool) : (t3Restart b).map (shiftEv k j) = t3Restart b := by
  cases b <;> rfl

/-! ## congestion-window and T3 phases -/

theorem cwndGrow_shift (k j : Int) (t : Tx) (done : Nat) (fully : Bool) (db : Nat) :
    cwndGrow (shiftTx k j t) done fully db = shiftTx k j (cwndGrow t done fully db) := by
  unfold cwndGrow
  have e1 : (shiftTx k j t).cwnd = t.cwnd := rfl
  have e2 : (shiftTx k j t).ssthresh = t.ssthresh := rfl
  have e3 : (shiftTx k j t).partialBytesAcked = t.partialBytesAcked := rfl
  simp only [e1, e2, e3]
  by_cases c1 : (decide (done > 0) && fully) = true
  · simp only [c1, if_true]
    by_cases c2 : t.cwnd ≤ t.ssthresh
    · simp only [c2, if_true]; rfl
    · simp only [c2, if_false]
      by_cases c3 : t.partialBytesAcked + db ≥ t.cwnd
      · simp only [c3, if_true]; rfl
      · simp only [c3, if_false]; rfl
  · simp only [c1, Bool.false_eq_true, if_false]

theorem cwndGrow_keep (t : Tx) (done : Nat) (fully : Bool) (db : Nat) :
    (cwndGrow t done fully db).lastSacked = t.lastSacked ∧ (cwndGrow t done fully db).advAck = t.advAck := by
  unfold cwndGrow
  split
  · split
    · exact ⟨rfl, rfl⟩
    · simp only []; split <;> exact ⟨rfl, rfl⟩
  · exact ⟨rfl, rfl⟩

theorem enterFr_shift (k j : Int) (t : Tx) :
    enterFr (shiftTx k j t) = omap (shiftTx k j) (enterFr t) := by
  unfold enterFr
  rw [shiftTx_sentQ, List.getLast?_map]
  cases t.sentQ.getLast? with
  | none => rfl
  | some l => rfl

theorem enterFr_keep (t t' : Tx) (h : enterFr t = .ok t') :
    t'.lastSacked = t.lastSacked ∧ t'.advAck = t.advAck := by
  unfold enterFr at h
  cases hl : t.sentQ.getLast? with
  | none => rw [hl] at h; cases h
  | some l => rw [hl] at h; cases h; exact ⟨rfl, rfl⟩

theorem sackCwnd_shift (k j : Int) (t : Tx) (cum : Int) (done : Nat) (fully : Bool) (db : Nat)
    (loss : Bool) (hc : R32 cum) (hex : ∀ e, t.fastRecoveryExit = some e → R32 e) :
    sackCwnd (shiftTx k j t) (σ32 k cum) done fully db loss
      = omap (shiftTx k j) (sackCwnd t cum done fully db loss) := by
  unfold sackCwnd
  have e1 : (shiftTx k j t).fastRecoveryExit = t.fastRecoveryExit.map (σ32 k) := rfl
  rw [e1]
  cases hfe : t.fastRecoveryExit with
  | none =>
    simp only [Option.map_none, cwndGrow_shift, enterFr_shift]
    cases loss <;> simp
  | some ex =>
    simp only [Option.map_some, σ32_gte k cum ex hc (hex ex hfe)]
    by_cases hg : uint32_gte cum ex = true
    · simp only [hg, if_true, omap_ok]
      congr 1
    · simp only [hg, Bool.false_eq_true, if_false, omap_ok]

theorem sackCwnd_keep (t t' : Tx) (cum : Int) (done : Nat) (fully : Bool) (db : Nat) (loss : Bool)
    (h : sackCwnd t cum done fully db loss = .ok t') :
    t'.lastSacked = t.lastSacked ∧ t'.advAck = t.advAck := by
  unfold sackCwnd at h
  cases hfe : t.fastRecoveryExit with
  | none =>
    rw [hfe] at h
    simp only [] at h
    have hk := cwndGrow_keep t done fully db
    split at h
    · have := enterFr_keep _ _ h
      exact ⟨this.1.trans hk.1, this.2.trans hk.2⟩
    · cases h; exact hk
  | some ex =>
    rw [hfe] at h
    simp only [] at h
    split at h <;> cases h <;> exact ⟨rfl, rfl⟩

theorem sackT3_shift (k j : Int) (t : Tx) (done : Nat) :
    sackT3 (shiftTx k j t) done = (shiftTx k j (sackT3 t done).1, (sackT3 t done).2.map (shiftEv k j)) := by
  unfold sackT3
  have e1 : (shiftTx k j t).sentQ.isEmpty = t.sentQ.isEmpty := by
    rw [shiftTx_sentQ]; cases t.sentQ <;> rfl
  have e2 : (shiftTx k j t).t3 = t.t3 := rfl
  rw [e1, e2]
  by_cases c1 : t.sentQ.isEmpty = true
  · simp only [c1, if_true]
    cases t.t3 <;> simp [shiftEv] <;> rfl
  · simp only [c1, Bool.false_eq_true, if_false]
    by_cases c2 : done > 0
    · simp only [c2, if_true, t3Restart_shift']
      rfl
    · simp only [c2, if_false, List.map_nil]

theorem sackT3_keep (t : Tx) (done : Nat) :
    (sackT3 t done).1.lastSacked = t.lastSacked ∧ (sackT3 t done).1.advAck = t.advAck := by
  unfold sackT3
  split
  · exact ⟨rfl, rfl⟩
  · split <;> exact ⟨rfl, rfl⟩

/-- Shift of the result of `_receive_sack_chunk`. -/
def shiftSackOut (k j : Int) (r : Option (Tx × List TxEv)) : Option (Tx × List TxEv) :=
  r.map (fun p => (shiftTx k j p.1, p.2.map (shiftEv k j)))

theorem sackEnd_shift (k j : Int) (r : Outcome Tx) (done : Nat)
    (hr : ∀ t, r = .ok t → R32 t.lastSacked ∧ R32 t.advAck) :
    sackEnd (omap (shiftTx k j) r) done = omap (shiftSackOut k j) (sackEnd r done) := by
  cases r with
  | ok t =>
    have h := hr t rfl
    have hk := sackT3_keep t done
    simp only [omap_ok, sackEnd, sackT3_shift, shiftSackOut, Option.map_some]
    rw [updateAdvAck_shift k j _ (hk.1 ▸ h.1) (hk.2 ▸ h.2)]
  | valueError => rfl
  | crash s => rfl
  | hang => rfl

theorem tsn_minus_one_shift (k x : Int) : tsn_minus_one (σ32 k x) = σ32 k (tsn_minus_one x) := by
  unfold tsn_minus_one σ32; omega

/-- The "stale or never sent" test of a SACK only looks at serial distances. -/
theorem sackStale_shift (k j : Int) (t : Tx) (cum : Int) (hl : R32 t.lastSacked) (hc : R32 cum) :
    (shiftTx k j t).sackStale (σ32 k cum) = t.sackStale cum := by
  have e1 : (shiftTx k j t).lastSacked = σ32 k t.lastSacked := rfl
  have e2 : (shiftTx k j t).localTsn = σ32 k t.localTsn := rfl
  have hm : R32 (tsn_minus_one t.localTsn) := by unfold R32 tsn_minus_one; omega
  unfold Tx.sackStale
  rw [e1, e2, tsn_minus_one_shift, σ32_gte k _ _ hc hl, σ32_gt k _ _ hc hm]

/-- `_receive_sack_chunk` (up to the trailing flush / transmit) commutes with the shifts: same verdict
(ignored / processed / IndexError), shifted state, same timer events. -/
theorem receiveSack_shift (k j : Int) (t : Tx) (cum : Int) (gaps : List (Nat × Nat)) (now : Int)
    (ht : TxOk t) (hc : R32 cum) :
    (shiftTx k j t).receiveSack (σ32 k cum) gaps now
      = omap (shiftSackOut k j) (t.receiveSack cum gaps now) := by
  have hq : QOk t := ⟨ht.sent, ht.out⟩
  rw [receiveSack_eq, receiveSack_eq]
  have e2 : (shiftTx k j t).cwnd = t.cwnd := rfl
  rw [sackStale_shift k j t cum ht.lastSacked hc, shiftTx_flight, e2]
  by_cases hg : t.sackStale cum = true
  · simp only [hg, if_true]; rfl
  · simp only [hg, Bool.false_eq_true, if_false]
    have hf := sackMid_frame t cum gaps now
    rw [sackMid_shift k j t cum gaps now hc hq, sackAck_shift k j t cum hc ht.sent]
    simp only []
    rw [sackCwnd_shift k j _ cum _ _ _ _ hc (fun e he => ht.exit e (hf.1 ▸ he))]
    apply sackEnd_shift
    intro t' ht'
    have hk := sackCwnd_keep _ _ _ _ _ _ _ ht'
    rw [hk.1, hk.2, hf.2.1, hf.2.2]
    exact ⟨hc, ht.advAck⟩

end Aiortc.C17
