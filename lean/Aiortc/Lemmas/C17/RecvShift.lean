import Aiortc.Lemmas.C17.MarkShift
import Aiortc.Lemmas.C17.StreamShift
/-!
# C17 part 2 — the pure receiver (`Recv.step` / `Recv.run`) under a TSN shift `k` and an SSN shift `j`
-/
namespace Aiortc.C17
open Aiortc Aiortc.Gen Aiortc.Sctp Aiortc.Props.C17

/-! ## insertion-ordered dicts under a map of the values -/

def mapVals {β γ} (g : β → γ) (d : List (Nat × β)) : List (Nat × γ) := d.map (fun e => (e.1, g e.2))

theorem dictGet_mapVals {β γ} (g : β → γ) (d : List (Nat × β)) (k : Nat) :
    dictGet (mapVals g d) k = (dictGet d k).map g := by
  induction d with
  | nil => rfl
  | cons e es ih =>
    simp only [dictGet, mapVals, List.map_cons, List.find?_cons] at *
    split <;> simp_all

theorem any_key_mapVals {β γ} (g : β → γ) (d : List (Nat × β)) (k : Nat) :
    (mapVals g d).any (·.1 == k) = d.any (·.1 == k) := by
  simp [mapVals, List.any_map, Function.comp_def]

theorem dictSet_mapVals {β γ} (g : β → γ) (d : List (Nat × β)) (k : Nat) (v : β) :
    dictSet (mapVals g d) k (g v) = mapVals g (dictSet d k v) := by
  unfold dictSet
  rw [any_key_mapVals]
  split
  · simp only [mapVals, List.map_map]
    apply List.map_congr_left
    intro e _
    simp only [Function.comp_def]
    split <;> rfl
  · simp [mapVals]

theorem dictSet_mem {β} (d : List (Nat × β)) (k : Nat) (v : β) :
    ∀ e ∈ dictSet d k v, e ∈ d ∨ e = (k, v) := by
  intro e he
  unfold dictSet at he
  split at he
  · simp only [List.mem_map] at he
    obtain ⟨x, hx, hxe⟩ := he
    split at hxe
    · exact Or.inr hxe.symm
    · exact Or.inl (hxe ▸ hx)
  · simp only [List.mem_append, List.mem_singleton] at he
    exact he

theorem dictGet_mem {β} (d : List (Nat × β)) (k : Nat) (v : β) (h : dictGet d k = some v) :
    ∃ e ∈ d, e.2 = v := by
  unfold dictGet at h
  cases hf : d.find? (·.1 == k) with
  | none => rw [hf] at h; cases h
  | some e =>
    rw [hf] at h; simp only [Option.map_some, Option.some.injEq] at h
    exact ⟨e, List.mem_of_find?_eq_some hf, h⟩

theorem dictGet_isSome_iff {β} (d : List (Nat × β)) (k : Nat) :
    (dictGet d k).isSome = d.any (·.1 == k) := by
  unfold dictGet
  rw [Option.isSome_map, Bool.eq_iff_iff, List.find?_isSome, List.any_eq_true]

theorem any_key_dictSet {β} (d : List (Nat × β)) (k k' : Nat) (v : β) (h : d.any (·.1 == k') = true) :
    (dictSet d k v).any (·.1 == k') = true := by
  unfold dictSet
  split
  · rw [List.any_eq_true] at h ⊢
    obtain ⟨x, hx, hk⟩ := h
    by_cases hxk : x.1 == k
    · refine ⟨(k, v), ?_, ?_⟩
      · simp only [List.mem_map]; exact ⟨x, hx, by simp [hxk]⟩
      · simp only [beq_iff_eq] at hxk hk ⊢; omega
    · refine ⟨x, ?_, hk⟩
      simp only [List.mem_map]; exact ⟨x, hx, by simp [hxk]⟩
  · simp [h]

theorem dictGet_isSome_dictSet {β} (d : List (Nat × β)) (k k' : Nat) (v : β)
    (h : (dictGet d k').isSome) : (dictGet (dictSet d k v) k').isSome := by
  rw [dictGet_isSome_iff] at h ⊢
  exact any_key_dictSet d k k' v h

/-! ## `_receive_data_chunk` -/

theorem shiftRecv_streams (k j : Int) (r : Recv) :
    (shiftRecv k j r).streams = mapVals (shiftIn k j) r.streams := rfl

theorem any_tsn_shift (k j : Int) (c : RChunk) (l : List RChunk) (hc : CR c) (hl : ∀ x ∈ l, CR x) :
    (l.map (shiftR k j)).any (fun x => x.tsn == σ32 k c.tsn) = l.any (fun x => x.tsn == c.tsn) := by
  induction l with
  | nil => rfl
  | cons x xs ih =>
    have hx := hl x (by simp)
    have ih := ih (fun y hy => hl y (by simp [hy]))
    simp only [List.map_cons, List.any_cons, ih, shiftR_tsn]
    congr 1
    rw [Bool.eq_iff_iff]; simp only [beq_iff_eq]
    exact σ32_inj k x.tsn c.tsn hx.1 hc.1

theorem inOk_default : InOk ({} : InStream) := ⟨by simp, by show R16 0; unfold R16; omega⟩

/-- The stream a chunk is looked up in satisfies the range invariant. -/
theorem getStream_ok (r : Recv) (sid : Nat) (hr : RecvOk r) :
    InOk ((dictGet r.streams sid).getD {}) := by
  cases h : dictGet r.streams sid with
  | none => exact inOk_default
  | some s =>
    obtain ⟨e, he, hes⟩ := dictGet_mem _ _ _ h
    simpa [← hes] using hr.2 e he

/-- Either the stream already exists (its expected SSN is then part of the shifted state) or the SSN
shift is trivial: a stream that is created on demand starts at SSN 0 in BOTH runs. -/
def StreamKnown (j : Int) (r : Recv) (sid : Nat) : Prop :=
  (dictGet r.streams sid).isSome ∨ j % 65536 = 0

theorem getStream_shift (k j : Int) (r : Recv) (sid : Nat) (hk : StreamKnown j r sid) :
    (dictGet (shiftRecv k j r).streams sid).getD {} = shiftIn k j ((dictGet r.streams sid).getD {}) := by
  rw [shiftRecv_streams, dictGet_mapVals]
  cases h : dictGet r.streams sid with
  | some s => rfl
  | none =>
    rcases hk with hk | hk
    · rw [h] at hk; cases hk
    · simp only [Option.map_none, Option.getD_none, shiftIn, List.map_nil]
      have : σ16 j 0 = 0 := by unfold σ16; omega
      rw [this]

/-- `_receive_data_chunk` commutes with the shifts; the messages handed to the application are
IDENTICAL. -/
theorem step_shift (k j : Int) (r : Recv) (c : RChunk) (hr : RecvOk r) (hc : CR c)
    (hk : StreamKnown j r c.sid) :
    (shiftRecv k j r).step (shiftR k j c)
      = omap (fun p => (shiftRecv k j p.1, p.2)) (r.step c) := by
  have hs := getStream_ok r c.sid hr
  unfold Recv.step
  have e0 : (shiftRecv k j r).rx = shiftRx k r.rx := rfl
  simp only [shiftR_tsn, shiftR_sid, e0, markReceived_shift k r.rx c.tsn hr.1 hc.1,
    getStream_shift k j r c.sid hk]
  cases hm : markReceived r.rx c.tsn with
  | mk dup rx' =>
    simp only []
    cases dup with
    | true => simp [shiftRecv]
    | false =>
      simp only [Bool.false_eq_true, if_false]
      have e1 : (shiftIn k j ((dictGet r.streams c.sid).getD {})).reasm
          = ((dictGet r.streams c.sid).getD {}).reasm.map (shiftR k j) := rfl
      rw [e1, any_tsn_shift k j c _ hc hs.1, addChunk_shift k j _ c hs hc]
      split
      · simp [shiftRecv]
      · cases ha : ((dictGet r.streams c.sid).getD {}).addChunk c with
        | ok s1 =>
          have hs1 := addChunk_ok _ s1 c hs hc ha
          simp only [omap_ok, popMessages_shift k j s1 hs1]
          cases hp : s1.popMessages with
          | ok p =>
            obtain ⟨msgs, s2⟩ := p
            simp only [omap_ok, shiftRecv]
            have := dictSet_mapVals (shiftIn k j) r.streams c.sid s2
            simp only [mapVals] at this
            rw [this]
          | valueError => simp
          | crash s => simp
          | hang => simp
        | valueError => simp
        | crash s => simp
        | hang => simp

theorem step_ok (r r' : Recv) (c : RChunk) (out : List Msg) (hr : RecvOk r) (hc : CR c)
    (h : r.step c = .ok (r', out)) : RecvOk r' := by
  have hs := getStream_ok r c.sid hr
  have hrx := markReceived_ok r.rx c.tsn hr.1 hc.1
  unfold Recv.step at h
  cases hm : markReceived r.rx c.tsn with
  | mk dup rx' =>
    rw [hm] at h hrx
    simp only [] at h hrx
    split at h
    · cases h; exact ⟨hrx, hr.2⟩
    · split at h
      · cases h; exact ⟨hrx, hr.2⟩
      · cases ha : ((dictGet r.streams c.sid).getD {}).addChunk c with
        | ok s1 =>
          have hs1 := addChunk_ok _ s1 c hs hc ha
          rw [ha] at h
          simp only [] at h
          cases hp : s1.popMessages with
          | ok p =>
            obtain ⟨msgs, s2⟩ := p
            have hs2 := popMessages_ok s1 s2 msgs hs1 hp
            rw [hp] at h
            cases h
            refine ⟨hrx, ?_⟩
            intro e he
            rcases dictSet_mem _ _ _ e he with h1 | h1
            · exact hr.2 e h1
            · rw [h1]; exact hs2
          | valueError => rw [hp] at h; cases h
          | crash s => rw [hp] at h; cases h
          | hang => rw [hp] at h; cases h
        | valueError => rw [ha] at h; cases h
        | crash s => rw [ha] at h; cases h
        | hang => rw [ha] at h; cases h

theorem step_known (j : Int) (r r' : Recv) (c : RChunk) (out : List Msg) (sid : Nat)
    (hk : StreamKnown j r sid) (h : r.step c = .ok (r', out)) : StreamKnown j r' sid := by
  rcases hk with hk | hk
  · left
    unfold Recv.step at h
    cases hm : markReceived r.rx c.tsn with
    | mk dup rx' =>
      rw [hm] at h
      simp only [] at h
      split at h
      · cases h; exact hk
      · split at h
        · cases h; exact hk
        · cases ha : ((dictGet r.streams c.sid).getD {}).addChunk c with
          | ok s1 =>
            rw [ha] at h
            simp only [] at h
            cases hp : s1.popMessages with
            | ok p =>
              rw [hp] at h
              cases h
              exact dictGet_isSome_dictSet _ _ _ _ hk
            | valueError => rw [hp] at h; cases h
            | crash s => rw [hp] at h; cases h
            | hang => rw [hp] at h; cases h
          | valueError => rw [ha] at h; cases h
          | crash s => rw [ha] at h; cases h
          | hang => rw [ha] at h; cases h
  · exact Or.inr hk

/-! ## whole runs -/

/-- The same arrival list with every TSN moved by `k` and every SSN by `j`, from the correspondingly
shifted state, delivers the SAME messages (and fails in the same way, if it fails). -/
theorem run_shift (k j : Int) (cs : List RChunk) (r : Recv) (hr : RecvOk r)
    (hcs : ∀ c ∈ cs, CR c) (hk : ∀ c ∈ cs, StreamKnown j r c.sid) :
    Recv.run (shiftRecv k j r) (cs.map (shiftR k j))
      = omap (fun p => (shiftRecv k j p.1, p.2)) (Recv.run r cs) := by
  induction cs generalizing r with
  | nil => rfl
  | cons c cs ih =>
    have hc := hcs c (by simp)
    simp only [List.map_cons, Recv.run, step_shift k j r c hr hc (hk c (by simp))]
    cases hstep : r.step c with
    | ok p =>
      obtain ⟨r1, out1⟩ := p
      have hr1 := step_ok r r1 c out1 hr hc hstep
      have hk1 : ∀ c' ∈ cs, StreamKnown j r1 c'.sid :=
        fun c' hc' => step_known j r r1 c out1 c'.sid (hk c' (by simp [hc'])) hstep
      simp only [omap_ok, ih r1 hr1 (fun y hy => hcs y (by simp [hy])) hk1]
      cases Recv.run r1 cs with
      | ok q => simp
      | valueError => simp
      | crash s => simp
      | hang => simp
    | valueError => simp
    | crash s => simp
    | hang => simp

end Aiortc.C17
