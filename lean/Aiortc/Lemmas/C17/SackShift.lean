import Aiortc.Lemmas.C17.TxDefs
/-!
# C17 part 2 — SACK processing on the sender: `ackLoop`, `gapSeen`, `htnaLoop` under the shifts
-/
namespace Aiortc.C17
open Aiortc Aiortc.Gen Aiortc.Sctp Aiortc.Props.C17

theorem ackLoop_shift (k j : Int) (ls : Int) (hls : R32 ls) (fl done db : Nat) (l : List SChunk)
    (hl : ∀ c ∈ l, R32 c.tsn) :
    ackLoop (σ32 k ls) fl done db (l.map (shiftS k j))
      = ((ackLoop ls fl done db l).1, (ackLoop ls fl done db l).2.1, (ackLoop ls fl done db l).2.2.1,
         (ackLoop ls fl done db l).2.2.2.map (shiftS k j)) := by
  induction l generalizing fl done db with
  | nil => rfl
  | cons c cs ih =>
    have hc := hl c (by simp)
    have ih := fun fl done db => ih fl done db (fun y hy => hl y (by simp [hy]))
    simp only [List.map_cons, ackLoop, shiftS_tsn, σ32_gte k ls c.tsn hls hc, shiftS_acked,
      shiftS_bookSize, decFlight_shift]
    by_cases hg : uint32_gte ls c.tsn = true
    · simp only [hg, if_true, ih]
      rfl
    · simp only [hg, Bool.false_eq_true, if_false]; rfl

/-! ## gap blocks -/

theorem gapSeen_shift (k : Int) (cum : Int) (limit : Nat) (gaps : List (Nat × Nat)) :
    gapSeen (σ32 k cum) limit gaps
      = ((gapSeen cum limit gaps).1.map (σ32 k), σ32 k (gapSeen cum limit gaps).2) := by
  unfold gapSeen
  have hpt : ∀ n : Nat, (σ32 k cum + (n : Int)) % 4294967296
      = σ32 k ((cum + (n : Int)) % 4294967296) := by
    intro n; unfold σ32; omega
  have hall : (gaps.flatMap fun g =>
        (List.range (min g.2 limit + 1 - g.1)).map fun i =>
          (σ32 k cum + ((g.1 + i : Nat) : Int)) % 4294967296)
      = (gaps.flatMap fun g =>
        (List.range (min g.2 limit + 1 - g.1)).map fun i =>
          (cum + ((g.1 + i : Nat) : Int)) % 4294967296).map (σ32 k) := by
    rw [List.map_flatMap]
    congr 1
    funext g
    rw [List.map_map]
    congr 1
    funext i
    exact hpt (g.1 + i)
  simp only [hall, List.getLast?_map]
  congr 1
  cases (gaps.flatMap fun g =>
        (List.range (min g.2 limit + 1 - g.1)).map fun i =>
          (cum + ((g.1 + i : Nat) : Int)) % 4294967296).getLast? <;> rfl

theorem gapSeen_range (cum : Int) (limit : Nat) (gaps : List (Nat × Nat)) (hc : R32 cum) :
    (∀ x ∈ (gapSeen cum limit gaps).1, R32 x) ∧ R32 (gapSeen cum limit gaps).2 := by
  unfold gapSeen
  have h1 : ∀ x ∈ (gaps.flatMap fun g =>
        (List.range (min g.2 limit + 1 - g.1)).map fun i =>
          (cum + ((g.1 + i : Nat) : Int)) % 4294967296), R32 x := by
    intro x hx
    simp only [List.mem_flatMap, List.mem_map] at hx
    obtain ⟨g, _, i, _, rfl⟩ := hx
    unfold R32; omega
  refine ⟨h1, ?_⟩
  simp only []
  cases hl : (gaps.flatMap fun g =>
        (List.range (min g.2 limit + 1 - g.1)).map fun i =>
          (cum + ((g.1 + i : Nat) : Int)) % 4294967296).getLast? with
  | none => exact hc
  | some x => exact h1 x (List.mem_of_getLast? hl)

/-- `limit`: offset of the highest outstanding TSN from the cumulative TSN — unchanged by the shift. -/
theorem limit_shift (k : Int) (a cum : Int) :
    ((σ32 k a - σ32 k cum) % 4294967296).toNat = ((a - cum) % 4294967296).toNat := by
  have : (σ32 k a - σ32 k cum) % 4294967296 = (a - cum) % 4294967296 := by unfold σ32; omega
  rw [this]

/-! ## highest-TSN-newly-acked loop -/

theorem htnaLoop_shift (k j : Int) (seen : List Int) (hs : Int) (hseen : ∀ x ∈ seen, R32 x)
    (hhs : R32 hs) (fl db : Nat) (hna : Int) (acc l : List SChunk) (hl : ∀ c ∈ l, R32 c.tsn) :
    htnaLoop (seen.map (σ32 k)) (σ32 k hs) fl db (σ32 k hna) (acc.map (shiftS k j))
        (l.map (shiftS k j))
      = ((htnaLoop seen hs fl db hna acc l).1, (htnaLoop seen hs fl db hna acc l).2.1,
         σ32 k (htnaLoop seen hs fl db hna acc l).2.2.1,
         (htnaLoop seen hs fl db hna acc l).2.2.2.map (shiftS k j)) := by
  induction l generalizing fl db hna acc with
  | nil => simp [htnaLoop]
  | cons c cs ih =>
    have hc := hl c (by simp)
    have ih := fun fl db hna acc => ih fl db hna acc (fun y hy => hl y (by simp [hy]))
    simp only [List.map_cons, htnaLoop, shiftS_tsn, σ32_gt k c.tsn hs hc hhs,
      contains_shift32 k c.tsn seen hc hseen, shiftS_acked, shiftS_bookSize]
    by_cases hg : uint32_gt c.tsn hs = true
    · simp only [hg, if_true]; simp
    · simp only [hg, Bool.false_eq_true, if_false]
      by_cases hn : (seen.contains c.tsn && !c.acked) = true
      · simp only [hn, if_true]
        change htnaLoop _ _ (decFlight fl (shiftS k j { c with acked := true })).1 _ _
          ((decFlight fl (shiftS k j { c with acked := true })).2 :: _) _ = _
        simp only [decFlight_shift]
        rw [← List.map_cons, ih]
      · simp only [hn, Bool.false_eq_true, if_false]
        rw [← List.map_cons, ih]

end Aiortc.C17
