import Aiortc.Lemmas.C17.SenderShift
/-!
# C17 part 2 — whole histories of the RTP sender under a change of origins

A history is a list of operations on one `RTCRtpSender`: an encoded frame going through the `_run_rtp`
packet loop, or an RTCP NACK going through `_handle_rtcp_packet` → `_retransmit`.  `sRun` is that history
on the model functions `sendFrame` / `handleNack` (the ones the `video sender` driver request executes,
`Drv/Video.lean: senderRun`).  `evRun` is the same history as *events*: a first transmission, or a
retransmission of a source packet together with the RTX sequence number it is wrapped with — an RTX packet
embeds the original sequence number in its payload, so "shifted output" is stated on the events and
`render` (= `rtxOut`) turns events into wire packets (`sRun_render`).
-/
namespace Aiortc.C17
open Aiortc Aiortc.Gen Aiortc.Rtp Aiortc.Model.Video Aiortc.Props.C17

inductive SOp where
  | frame (encTs : Int) (payloads : List Bytes)
  | nack (lost : List Int)
  deriving DecidableEq, Repr

/-- The NACKed numbers move with the sequence-number origin; frames are origin-free. -/
def shiftOp (k : Int) : SOp → SOp
  | .frame t pls => .frame t pls
  | .nack l => .nack (l.map (σ16 k))

/-- Every NACKed number is a 16-bit number (it came out of an RTCP packet). -/
def OpOk : SOp → Prop
  | .frame _ _ => True
  | .nack l => ∀ x ∈ l, R16 x

def sStep (cfg : SenderCfg) (s : Sender) : SOp → Sender × List RtpPacket
  | .frame t pls => sendFrame cfg s t pls
  | .nack l => handleNack cfg s l

/-- What the sender puts on the wire, operation by operation. -/
def sRun (cfg : SenderCfg) : Sender → List SOp → List (List RtpPacket)
  | _, [] => []
  | s, op :: ops => (sStep cfg s op).2 :: sRun cfg (sStep cfg s op).1 ops

inductive SEv where
  | sent (p : RtpPacket)
  | resent (rtxSeq : Int) (p : RtpPacket)
  deriving DecidableEq, Repr

def render (cfg : SenderCfg) : SEv → RtpPacket
  | .sent p => p
  | .resent q p => rtxOut cfg q p

def shiftSEv (k r m : Int) : SEv → SEv
  | .sent p => .sent (shiftPkt k m p)
  | .resent q p => .resent (σ16 r q) (shiftPkt k m p)

/-- `_retransmit(sn)` as events: the packet the history finds, with the current RTX sequence number. -/
def retxEv (s : Sender) (sn : Int) : List SEv := (histLookup s sn).toList.map (SEv.resent s.rtxSeq)

def nackEv (cfg : SenderCfg) : Sender → List Int → Sender × List SEv
  | s, [] => (s, [])
  | s, x :: xs => ((nackEv cfg (retransmit cfg s x).1 xs).1, retxEv s x ++ (nackEv cfg (retransmit cfg s x).1 xs).2)

def evStep (cfg : SenderCfg) (s : Sender) : SOp → Sender × List SEv
  | .frame t pls => ((sendFrame cfg s t pls).1, (sendFrame cfg s t pls).2.map SEv.sent)
  | .nack l => nackEv cfg s l

def evRun (cfg : SenderCfg) : Sender → List SOp → List (List SEv)
  | _, [] => []
  | s, op :: ops => (evStep cfg s op).2 :: evRun cfg (evStep cfg s op).1 ops

/-! ## events render to what the model functions send -/

theorem retxEv_render (cfg : SenderCfg) (s : Sender) (sn : Int) :
    (retransmit cfg s sn).2 = (retxEv s sn).map (render cfg) := by
  rw [retransmit_out]; unfold retxEv
  rw [List.map_map]; rfl

theorem nackEv_render (cfg : SenderCfg) (xs : List Int) (s : Sender) :
    handleNack cfg s xs = ((nackEv cfg s xs).1, (nackEv cfg s xs).2.map (render cfg)) := by
  induction xs generalizing s with
  | nil => rfl
  | cons x rest ih =>
    simp only [handleNack, nackEv, List.map_append]
    rw [ih (retransmit cfg s x).1, retxEv_render]

theorem evStep_render (cfg : SenderCfg) (s : Sender) (op : SOp) :
    sStep cfg s op = ((evStep cfg s op).1, (evStep cfg s op).2.map (render cfg)) := by
  cases op with
  | frame t pls =>
    simp only [sStep, evStep, List.map_map]
    have : (render cfg ∘ SEv.sent) = id := rfl
    rw [this, List.map_id]
  | nack l => exact nackEv_render cfg l s

/-- The wire output of a history is the rendering of its events. -/
theorem sRun_render (cfg : SenderCfg) (ops : List SOp) (s : Sender) :
    sRun cfg s ops = (evRun cfg s ops).map (List.map (render cfg)) := by
  induction ops generalizing s with
  | nil => rfl
  | cons op rest ih =>
    simp only [sRun, evRun, List.map_cons]
    rw [evStep_render cfg s op]
    simp only []
    rw [ih]

/-! ## the invariant: next sequence number and stored sequence numbers are 16-bit, keys are slots -/

def SOk (s : Sender) : Prop := R16 s.seq ∧ HistOk s.history

theorem sendLoop_ok (cfg : SenderCfg) (ts : Int) (n i : Nat) (pls : List Bytes) (s : Sender) (h : SOk s) :
    SOk (sendLoop cfg ts n i pls s).1 := by
  induction pls generalizing i s with
  | nil => exact h
  | cons pl rest ih =>
    have hp := mkPacket_seq cfg s.seq ts pl i n h.1
    simp only [sendLoop]
    exact ih (i + 1) _ ⟨uint16_add_range _ _, histSet_ok _ _ _ h.2 (slotOfSeq_lt _) hp.2⟩

theorem sendFrame_ok (cfg : SenderCfg) (s : Sender) (t : Int) (pls : List Bytes) (h : SOk s) :
    SOk (sendFrame cfg s t pls).1 := sendLoop_ok cfg _ _ 0 pls s h

theorem retransmit_ok (cfg : SenderCfg) (s : Sender) (sn : Int) (h : SOk s) : SOk (retransmit cfg s sn).1 := by
  have hk := retransmit_history cfg s sn
  exact ⟨hk.2 ▸ h.1, hk.1 ▸ h.2⟩

theorem nackEv_ok (cfg : SenderCfg) (xs : List Int) (s : Sender) (h : SOk s) : SOk (nackEv cfg s xs).1 := by
  induction xs generalizing s with
  | nil => exact h
  | cons x rest ih => exact ih _ (retransmit_ok cfg s x h)

theorem evStep_ok (cfg : SenderCfg) (s : Sender) (op : SOp) (h : SOk s) : SOk (evStep cfg s op).1 := by
  cases op with
  | frame t pls => exact sendFrame_ok cfg s t pls h
  | nack l => exact nackEv_ok cfg l s h

/-! ## shifts -/

/-- `_retransmit` does not look at `timestamp_origin`. -/
theorem retransmit_cfg (m : Int) (cfg : SenderCfg) (s : Sender) (sn : Int) :
    retransmit (shiftCfg m cfg) s sn = retransmit cfg s sn := rfl

theorem retxEv_shift (k r m : Int) (s : Sender) (sn : Int) (hsn : R16 sn) (hh : HistOk s.history) :
    retxEv (shiftSender k r m s) (σ16 k sn) = (retxEv s sn).map (shiftSEv k r m) := by
  unfold retxEv
  rw [histLookup_shift k r m s sn hsn hh]
  cases histLookup s sn <;> rfl

theorem nackEv_shift (k r m : Int) (cfg : SenderCfg) (xs : List Int) (s : Sender) (hx : ∀ x ∈ xs, R16 x)
    (h : SOk s) :
    nackEv (shiftCfg m cfg) (shiftSender k r m s) (xs.map (σ16 k))
      = (shiftSender k r m (nackEv cfg s xs).1, (nackEv cfg s xs).2.map (shiftSEv k r m)) := by
  induction xs generalizing s with
  | nil => rfl
  | cons x rest ih =>
    have h1 := hx x (by simp)
    have hrest : ∀ y ∈ rest, R16 y := fun y hy => hx y (by simp [hy])
    have hst : (retransmit (shiftCfg m cfg) (shiftSender k r m s) (σ16 k x)).1
        = shiftSender k r m (retransmit cfg s x).1 := by
      rw [retransmit_cfg, retransmit_shift k r m cfg s x h1 h.2]
    simp only [List.map_cons, nackEv, hst, List.map_append]
    rw [ih _ hrest (retransmit_ok cfg s x h), retxEv_shift k r m s x h1 h.2]

theorem evStep_shift (k r m : Int) (cfg : SenderCfg) (s : Sender) (op : SOp) (hop : OpOk op) (h : SOk s) :
    evStep (shiftCfg m cfg) (shiftSender k r m s) (shiftOp k op)
      = (shiftSender k r m (evStep cfg s op).1, (evStep cfg s op).2.map (shiftSEv k r m)) := by
  cases op with
  | frame t pls =>
    simp only [shiftOp, evStep]
    rw [sendFrame_shift k r m cfg s t pls h.1 h.2]
    simp only [List.map_map]
    rfl
  | nack l => exact nackEv_shift k r m cfg l s hop h

/-- **Whole histories of the RTP sender**: sequence-number origin moved by `k`, RTX sequence-number origin
by `r`, timestamp origin by `m` — the same events in the same order, each with its counters moved. -/
theorem evRun_shift (k r m : Int) (cfg : SenderCfg) (ops : List SOp) (s : Sender) (hops : ∀ op ∈ ops, OpOk op)
    (h : SOk s) :
    evRun (shiftCfg m cfg) (shiftSender k r m s) (ops.map (shiftOp k))
      = (evRun cfg s ops).map (List.map (shiftSEv k r m)) := by
  induction ops generalizing s with
  | nil => rfl
  | cons op rest ih =>
    have h1 := hops op (by simp)
    have hrest : ∀ o ∈ rest, OpOk o := fun o ho => hops o (by simp [ho])
    simp only [List.map_cons, evRun]
    rw [evStep_shift k r m cfg s op h1 h]
    simp only []
    rw [ih _ hrest (evStep_ok cfg s op h)]

/-- The retransmission decisions (how many packets answer each operation) do not depend on the origins. -/
theorem sRun_lengths_shift (k r m : Int) (cfg : SenderCfg) (ops : List SOp) (s : Sender)
    (hops : ∀ op ∈ ops, OpOk op) (h : SOk s) :
    (sRun (shiftCfg m cfg) (shiftSender k r m s) (ops.map (shiftOp k))).map List.length
      = (sRun cfg s ops).map List.length := by
  rw [sRun_render, sRun_render, evRun_shift k r m cfg ops s hops h]
  simp only [List.map_map]
  apply List.map_congr_left
  intro l _
  simp only [Function.comp, List.length_map]

/-- Without RTX the wire packets themselves are the shifted packets. -/
theorem render_shift_plain (k r m : Int) (cfg : SenderCfg) (hc : cfg.rtxPt = none) (e : SEv) :
    render (shiftCfg m cfg) (shiftSEv k r m e) = shiftPkt k m (render cfg e) := by
  cases e with
  | sent p => rfl
  | resent q p =>
    have hc' : (shiftCfg m cfg).rtxPt = none := hc
    simp only [shiftSEv, render, rtxOut, hc, hc']

theorem sRun_shift_plain (k r m : Int) (cfg : SenderCfg) (hc : cfg.rtxPt = none) (ops : List SOp) (s : Sender)
    (hops : ∀ op ∈ ops, OpOk op) (h : SOk s) :
    sRun (shiftCfg m cfg) (shiftSender k r m s) (ops.map (shiftOp k))
      = (sRun cfg s ops).map (List.map (shiftPkt k m)) := by
  rw [sRun_render, sRun_render, evRun_shift k r m cfg ops s hops h]
  simp only [List.map_map]
  apply List.map_congr_left
  intro l _
  simp only [Function.comp, List.map_map]
  apply List.map_congr_left
  intro e _
  exact render_shift_plain k r m cfg hc e

/-- A sender that has sent nothing yet, at any 16-bit origin, satisfies the invariant. -/
theorem fresh_ok (seq rtxSeq : Int) (h : R16 seq) : SOk ⟨seq, rtxSeq, []⟩ :=
  ⟨h, fun _ he => by cases he⟩

/-- The fresh sender at the shifted origins is the shifted fresh sender. -/
theorem fresh_shift (k r m seq rtxSeq : Int) :
    shiftSender k r m ⟨seq, rtxSeq, []⟩ = ⟨σ16 k seq, σ16 r rtxSeq, []⟩ := rfl

end Aiortc.C17
