import Aiortc.Lemmas.C17.ShiftDefs
import Aiortc.Model.Video.Sender
/-!
# C17 part 2 — the RTP sender (`_run_rtp` packet loop, retransmission history) under shifts of the
sequence-number origin (`k`), the RTX sequence-number origin (`r`) and the timestamp origin (`m`)

The history is a dict keyed by `sequence_number % 128`; 128 divides 2^16, so the slot of a shifted
sequence number is the slot rotated by `k`.
-/
namespace Aiortc.C17
open Aiortc Aiortc.Gen Aiortc.Rtp Aiortc.Model.Video Aiortc.Props.C17

theorem history_size_const : RTP_HISTORY_SIZE = 128 := by decide

/-- A history key moved by `k` (mod 128). -/
def rotSlot (k : Int) (s : Nat) : Nat := (((s : Int) + k) % 128).toNat

/-- The slot of a shifted sequence number is the rotated slot — for EVERY `x` and `k`. -/
theorem slotOfSeq_shift (k x : Int) : slotOfSeq (σ16 k x) = rotSlot k (slotOfSeq x) := by
  unfold slotOfSeq rotSlot σ16
  rw [history_size_const]
  congr 1
  omega

theorem slotOfSeq_lt (x : Int) : slotOfSeq x < 128 := by
  unfold slotOfSeq; rw [history_size_const]; omega

theorem rotSlot_inj (k : Int) (a b : Nat) (ha : a < 128) (hb : b < 128) :
    rotSlot k a = rotSlot k b ↔ a = b := by
  unfold rotSlot; omega

/-- A packet with its sequence number moved by `k` and its timestamp by `m`. -/
def shiftPkt (k m : Int) (p : RtpPacket) : RtpPacket :=
  { p with sequenceNumber := (σ16 k p.sequenceNumber).toNat, timestamp := (σ32 m p.timestamp).toNat }

def shiftHist (k m : Int) (h : History) : History := h.map fun e => (rotSlot k e.1, shiftPkt k m e.2)

def shiftSender (k r m : Int) (s : Sender) : Sender :=
  { seq := σ16 k s.seq, rtxSeq := σ16 r s.rtxSeq, history := shiftHist k m s.history }

def shiftCfg (m : Int) (cfg : SenderCfg) : SenderCfg := { cfg with tsOrigin := σ32 m cfg.tsOrigin }

/-- Keys are slots; stored sequence numbers are 16-bit. -/
def HistOk (h : History) : Prop := ∀ e ∈ h, e.1 < 128 ∧ e.2.sequenceNumber < 65536

theorem histSet_shift (k m : Int) (h : History) (key : Nat) (p : RtpPacket) (hh : HistOk h)
    (hk : key < 128) :
    histSet (shiftHist k m h) (rotSlot k key) (shiftPkt k m p) = shiftHist k m (histSet h key p) := by
  unfold histSet shiftHist
  simp only [List.map_cons]
  congr 1
  apply filter_map_shift
  intro e he
  rw [Bool.eq_iff_iff]
  simp only [ne_eq, decide_eq_true_eq, rotSlot_inj k e.1 key (hh e he).1 hk]

theorem histSet_ok (h : History) (key : Nat) (p : RtpPacket) (hh : HistOk h) (hk : key < 128)
    (hp : p.sequenceNumber < 65536) : HistOk (histSet h key p) := by
  intro e he
  unfold histSet at he
  simp only [List.mem_cons] at he
  rcases he with he | he
  · rw [he]; exact ⟨hk, hp⟩
  · exact hh e (List.mem_filter.1 he).1

theorem histGet_shift (k m : Int) (h : History) (key : Nat) (hh : HistOk h) (hk : key < 128) :
    histGet (shiftHist k m h) (rotSlot k key) = (histGet h key).map (shiftPkt k m) := by
  unfold histGet shiftHist
  induction h with
  | nil => rfl
  | cons e es ih =>
    have he := hh e (by simp)
    have ih := ih (fun y hy => hh y (by simp [hy]))
    simp only [List.map_cons, List.find?_cons, rotSlot_inj k e.1 key he.1 hk]
    by_cases hkey : e.1 = key
    · simp [hkey]
    · simp only [hkey, decide_false]
      exact ih

theorem histGet_ok (h : History) (key : Nat) (p : RtpPacket) (hh : HistOk h)
    (hg : histGet h key = some p) : p.sequenceNumber < 65536 := by
  unfold histGet at hg
  cases hf : h.find? (fun e => e.1 = key) with
  | none => rw [hf] at hg; cases hg
  | some e =>
    rw [hf] at hg; simp only [Option.map_some, Option.some.injEq] at hg
    rw [← hg]; exact (hh e (List.mem_of_find?_eq_some hf)).2

/-! ## `_run_rtp`: the packet loop -/

theorem mkPacket_shift (k m : Int) (cfg : SenderCfg) (seq ts : Int) (pl : Bytes) (i n : Nat)
    (hs : R16 seq) (ht : R32 ts) :
    mkPacket (shiftCfg m cfg) (σ16 k seq) (σ32 m ts) pl i n = shiftPkt k m (mkPacket cfg seq ts pl i n) := by
  unfold mkPacket shiftPkt shiftCfg
  have e1 : ((seq.toNat : Nat) : Int) = seq := by unfold R16 at hs; omega
  have e2 : ((ts.toNat : Nat) : Int) = ts := by unfold R32 at ht; omega
  simp only [e1, e2]

theorem mkPacket_seq (cfg : SenderCfg) (seq ts : Int) (pl : Bytes) (i n : Nat) (hs : R16 seq) :
    ((mkPacket cfg seq ts pl i n).sequenceNumber : Int) = seq ∧
      (mkPacket cfg seq ts pl i n).sequenceNumber < 65536 := by
  unfold mkPacket; unfold R16 at hs; simp only; omega

theorem sendLoop_shift (k r m : Int) (cfg : SenderCfg) (ts : Int) (ht : R32 ts) (n i : Nat)
    (pls : List Bytes) (s : Sender) (hs : R16 s.seq) (hh : HistOk s.history) :
    sendLoop (shiftCfg m cfg) (σ32 m ts) n i pls (shiftSender k r m s)
      = (shiftSender k r m (sendLoop cfg ts n i pls s).1,
         (sendLoop cfg ts n i pls s).2.map (shiftPkt k m)) := by
  induction pls generalizing i s with
  | nil => rfl
  | cons pl rest ih =>
    have hp := mkPacket_seq cfg s.seq ts pl i n hs
    simp only [sendLoop, List.map_cons]
    have e1 : (shiftSender k r m s).seq = σ16 k s.seq := rfl
    have e2 : (shiftSender k r m s).history = shiftHist k m s.history := rfl
    rw [e1, e2, mkPacket_shift k m cfg s.seq ts pl i n hs ht]
    have e3 : (((shiftPkt k m (mkPacket cfg s.seq ts pl i n)).sequenceNumber : Nat) : Int)
        = σ16 k ((mkPacket cfg s.seq ts pl i n).sequenceNumber : Int) := by
      have := σ16_range k ((mkPacket cfg s.seq ts pl i n).sequenceNumber : Int)
      unfold R16 at this
      show (((σ16 k _).toNat : Nat) : Int) = _
      omega
    rw [e3, slotOfSeq_shift, histSet_shift k m _ _ _ hh (slotOfSeq_lt _), σ16_add]
    have hstep := ih (i + 1)
      { s with history := histSet s.history (slotOfSeq ((mkPacket cfg s.seq ts pl i n).sequenceNumber : Int))
                 (mkPacket cfg s.seq ts pl i n),
               seq := uint16_add s.seq 1 }
      (uint16_add_range _ _) (histSet_ok _ _ _ hh (slotOfSeq_lt _) hp.2)
    simp only [shiftSender] at hstep ⊢
    rw [hstep]

/-- One encoded frame through `_run_rtp`: the same packets, sequence numbers moved by `k`, timestamps
by `m` (the shift of `timestamp_origin`); the history is the rotated history. -/
theorem sendFrame_shift (k r m : Int) (cfg : SenderCfg) (s : Sender) (encTs : Int) (pls : List Bytes)
    (hs : R16 s.seq) (hh : HistOk s.history) :
    sendFrame (shiftCfg m cfg) (shiftSender k r m s) encTs pls
      = (shiftSender k r m (sendFrame cfg s encTs pls).1,
         (sendFrame cfg s encTs pls).2.map (shiftPkt k m)) := by
  unfold sendFrame
  have e : uint32_add (shiftCfg m cfg).tsOrigin encTs = σ32 m (uint32_add cfg.tsOrigin encTs) :=
    σ32_add m cfg.tsOrigin encTs
  rw [e]
  exact sendLoop_shift k r m cfg _ (uint32_add_range _ _) _ 0 pls s hs hh

/-! ## `_retransmit`: what the history finds -/

/-- The packet `_retransmit(sn)` sends again (before RTX wrapping), if any. -/
def histLookup (s : Sender) (sn : Int) : Option RtpPacket :=
  match histGet s.history (slotOfSeq sn) with
  | some p => if (p.sequenceNumber : Int) = sn then some p else none
  | none => none

/-- RTX wrapping with the current RTX sequence number, or the packet itself without RTX. -/
def rtxOut (cfg : SenderCfg) (rtxSeq : Int) (p : RtpPacket) : RtpPacket :=
  match cfg.rtxPt with
  | some rpt => wrapRtx p rpt rtxSeq.toNat cfg.rtxSsrc
  | none => p

theorem retransmit_out (cfg : SenderCfg) (s : Sender) (sn : Int) :
    (retransmit cfg s sn).2 = (histLookup s sn).toList.map (rtxOut cfg s.rtxSeq) := by
  unfold retransmit histLookup rtxOut
  cases histGet s.history (slotOfSeq sn) with
  | none => rfl
  | some p =>
    simp only []
    split
    · cases cfg.rtxPt <;> rfl
    · rfl

/-- The retransmission history finds the SAME packet (shifted) for the shifted sequence number. -/
theorem histLookup_shift (k r m : Int) (s : Sender) (sn : Int) (hsn : R16 sn) (hh : HistOk s.history) :
    histLookup (shiftSender k r m s) (σ16 k sn) = (histLookup s sn).map (shiftPkt k m) := by
  unfold histLookup
  have e : (shiftSender k r m s).history = shiftHist k m s.history := rfl
  rw [e, slotOfSeq_shift, histGet_shift k m _ _ hh (slotOfSeq_lt _)]
  cases hg : histGet s.history (slotOfSeq sn) with
  | none => rfl
  | some p =>
    have hp := histGet_ok _ _ _ hh hg
    simp only [Option.map_some]
    have e3 : (((shiftPkt k m p).sequenceNumber : Nat) : Int) = σ16 k (p.sequenceNumber : Int) := by
      have := σ16_range k (p.sequenceNumber : Int)
      unfold R16 at this
      show (((σ16 k _).toNat : Nat) : Int) = _
      omega
    simp only [e3, σ16_inj k _ sn (show R16 (p.sequenceNumber : Int) by unfold R16; omega) hsn]
    by_cases hq : (p.sequenceNumber : Int) = sn
    · simp only [hq, if_true, Option.map_some]
    · simp only [hq, if_false, Option.map_none]

/-- `_retransmit` in terms of the history lookup. -/
def retransmitVia (cfg : SenderCfg) (s : Sender) (found : Option RtpPacket) : Sender × List RtpPacket :=
  match found with
  | some p =>
    match cfg.rtxPt with
    | some rpt => ({ s with rtxSeq := uint16_add s.rtxSeq 1 }, [wrapRtx p rpt s.rtxSeq.toNat cfg.rtxSsrc])
    | none => (s, [p])
  | none => (s, [])

theorem retransmit_eq (cfg : SenderCfg) (s : Sender) (sn : Int) :
    retransmit cfg s sn = retransmitVia cfg s (histLookup s sn) := by
  unfold retransmit histLookup retransmitVia
  cases histGet s.history (slotOfSeq sn) with
  | none => rfl
  | some p =>
    simp only []
    by_cases hq : (p.sequenceNumber : Int) = sn
    · simp only [hq, if_true]
      cases cfg.rtxPt <;> rfl
    · simp only [hq, if_false]

theorem retransmitVia_shift (k r m : Int) (cfg : SenderCfg) (s : Sender) (found : Option RtpPacket) :
    retransmitVia cfg (shiftSender k r m s) (found.map (shiftPkt k m))
      = (shiftSender k r m (retransmitVia cfg s found).1,
         found.toList.map fun p => rtxOut cfg (σ16 r s.rtxSeq) (shiftPkt k m p)) := by
  unfold retransmitVia rtxOut
  cases found with
  | none => rfl
  | some p =>
    cases cfg.rtxPt with
    | none => rfl
    | some rpt =>
      simp only [Option.map_some, Option.toList_some, List.map_cons, List.map_nil]
      have e : (shiftSender k r m s).rtxSeq = σ16 r s.rtxSeq := rfl
      simp only [e, σ16_add]
      rfl

/-- `_retransmit`: state and output under the shifts — the source packet is the shifted source packet,
wrapped (if RTX is negotiated) with the shifted RTX sequence number; the RTX counter moves along. -/
theorem retransmit_shift (k r m : Int) (cfg : SenderCfg) (s : Sender) (sn : Int) (hsn : R16 sn)
    (hh : HistOk s.history) :
    retransmit cfg (shiftSender k r m s) (σ16 k sn)
      = (shiftSender k r m (retransmit cfg s sn).1,
         (histLookup s sn).toList.map fun p => rtxOut cfg (σ16 r s.rtxSeq) (shiftPkt k m p)) := by
  rw [retransmit_eq, retransmit_eq, histLookup_shift k r m s sn hsn hh, retransmitVia_shift]

theorem retransmit_history (cfg : SenderCfg) (s : Sender) (sn : Int) :
    (retransmit cfg s sn).1.history = s.history ∧ (retransmit cfg s sn).1.seq = s.seq := by
  rw [retransmit_eq]
  unfold retransmitVia
  cases histLookup s sn with
  | none => exact ⟨rfl, rfl⟩
  | some p => cases cfg.rtxPt <;> exact ⟨rfl, rfl⟩

/-- The NACK branch of `_handle_rtcp_packet` without RTX: the same packets are sent again, shifted. -/
theorem handleNack_shift_plain (k r m : Int) (cfg : SenderCfg) (hc : cfg.rtxPt = none) (xs : List Int)
    (s : Sender) (hx : ∀ x ∈ xs, R16 x) (hh : HistOk s.history) :
    handleNack cfg (shiftSender k r m s) (xs.map (σ16 k))
      = (shiftSender k r m (handleNack cfg s xs).1, (handleNack cfg s xs).2.map (shiftPkt k m)) := by
  induction xs generalizing s with
  | nil => rfl
  | cons x rest ih =>
    have h1 := hx x (by simp)
    have hrest : ∀ y ∈ rest, R16 y := fun y hy => hx y (by simp [hy])
    have hkeep := retransmit_history cfg s x
    simp only [List.map_cons, handleNack, retransmit_shift k r m cfg s x h1 hh]
    rw [ih _ hrest (hkeep.1 ▸ hh)]
    have hout := retransmit_out cfg s x
    simp only [List.map_append]
    congr 1
    congr 1
    rw [hout, List.map_map]
    apply List.map_congr_left
    intro p _
    simp only [rtxOut, hc, Function.comp]

/-- With or without RTX: the sender state after a NACK is the shifted state. -/
theorem handleNack_shift_state (k r m : Int) (cfg : SenderCfg) (xs : List Int)
    (s : Sender) (hx : ∀ x ∈ xs, R16 x) (hh : HistOk s.history) :
    (handleNack cfg (shiftSender k r m s) (xs.map (σ16 k))).1
      = shiftSender k r m (handleNack cfg s xs).1 := by
  induction xs generalizing s with
  | nil => rfl
  | cons x rest ih =>
    have h1 := hx x (by simp)
    have hrest : ∀ y ∈ rest, R16 y := fun y hy => hx y (by simp [hy])
    have hkeep := retransmit_history cfg s x
    simp only [List.map_cons, handleNack, retransmit_shift k r m cfg s x h1 hh]
    exact ih _ hrest (hkeep.1 ▸ hh)

end Aiortc.C17
