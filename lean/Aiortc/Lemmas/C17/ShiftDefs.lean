import Aiortc.Props.C17
import Aiortc.Model.Sctp.Recv
/-!
# C17 part 2 — the shift maps `σ32` / `σ16` and their lifting to the SCTP states

`σ32 k x = (x + k) % 2^32` (= `Gen.uint32_add x k`) and `σ16 j x = (x + j) % 2^16` act on every
sequence-number-typed field; everything else (stream ids, PPIDs, flags, payloads, byte counts, flags of
the bookkeeping) is left alone.  This file has the definitions and the arithmetic facts about the
regenerated `Gen` comparison functions under a shift; the component theorems are in the sibling files.
-/
namespace Aiortc.C17
open Aiortc Aiortc.Gen Aiortc.Sctp Aiortc.Props.C17

def σ32 (k x : Int) : Int := (x + k) % 4294967296
def σ16 (k x : Int) : Int := (x + k) % 65536

theorem σ32_eq_add (k x : Int) : σ32 k x = uint32_add x k := rfl
theorem σ16_eq_add (k x : Int) : σ16 k x = uint16_add x k := rfl

theorem σ32_range (k x : Int) : R32 (σ32 k x) := by unfold R32 σ32; omega
theorem σ16_range (k x : Int) : R16 (σ16 k x) := by unfold R16 σ16; omega

theorem σ32_zero (x : Int) (h : R32 x) : σ32 0 x = x := by unfold R32 at h; unfold σ32; omega
theorem σ16_zero (x : Int) (h : R16 x) : σ16 0 x = x := by unfold R16 at h; unfold σ16; omega

theorem σ32_inj (k a b : Int) (ha : R32 a) (hb : R32 b) : σ32 k a = σ32 k b ↔ a = b := by
  unfold R32 at *; unfold σ32; omega
theorem σ16_inj (k a b : Int) (ha : R16 a) (hb : R16 b) : σ16 k a = σ16 k b ↔ a = b := by
  unfold R16 at *; unfold σ16; omega

theorem σ32_gt (k a b : Int) (ha : R32 a) (hb : R32 b) :
    uint32_gt (σ32 k a) (σ32 k b) = uint32_gt a b := uint32_gt_shift a b k ha hb
theorem σ32_gte (k a b : Int) (ha : R32 a) (hb : R32 b) :
    uint32_gte (σ32 k a) (σ32 k b) = uint32_gte a b := uint32_gte_shift a b k ha hb
theorem σ16_gt (k a b : Int) (ha : R16 a) (hb : R16 b) :
    uint16_gt (σ16 k a) (σ16 k b) = uint16_gt a b := uint16_gt_shift a b k ha hb
theorem σ16_gte (k a b : Int) (ha : R16 a) (hb : R16 b) :
    uint16_gte (σ16 k a) (σ16 k b) = uint16_gte a b := uint16_gte_shift a b k ha hb

theorem σ32_plus_one (k a : Int) : tsn_plus_one (σ32 k a) = σ32 k (tsn_plus_one a) := by
  unfold tsn_plus_one σ32; omega
theorem σ32_minus_one (k a : Int) : tsn_minus_one (σ32 k a) = σ32 k (tsn_minus_one a) := by
  unfold tsn_minus_one σ32; omega
theorem plus_one_range (a : Int) : R32 (tsn_plus_one a) := by unfold R32 tsn_plus_one; omega
theorem minus_one_range (a : Int) : R32 (tsn_minus_one a) := by unfold R32 tsn_minus_one; omega
theorem σ16_add (k a n : Int) : uint16_add (σ16 k a) n = σ16 k (uint16_add a n) := by
  unfold uint16_add σ16; omega
theorem σ32_add (k a n : Int) : uint32_add (σ32 k a) n = σ32 k (uint32_add a n) := by
  unfold uint32_add σ32; omega
theorem uint16_add_range' (a n : Int) : R16 (uint16_add a n) := uint16_add_range a n

/-- `t` is the successor of `last` iff the shifted `t` is the successor of the shifted `last`. -/
theorem σ32_eq_plus_one (k t last : Int) (ht : R32 t) :
    σ32 k t = tsn_plus_one (σ32 k last) ↔ t = tsn_plus_one last := by
  unfold R32 at ht; unfold tsn_plus_one σ32; omega

theorem serialKey_shift (k base t : Int) : serialKey (σ32 k base) (σ32 k t) = serialKey base t := by
  unfold serialKey σ32; omega

/-! ## membership in shifted lists -/

theorem contains_shift32 (k a : Int) (l : List Int) (ha : R32 a) (hl : ∀ x ∈ l, R32 x) :
    (l.map (σ32 k)).contains (σ32 k a) = l.contains a := by
  induction l with
  | nil => rfl
  | cons x xs ih =>
    have hx := hl x (by simp)
    have ih := ih (fun y hy => hl y (by simp [hy]))
    simp only [List.map_cons, List.contains_cons, ih]
    congr 1
    rw [Bool.eq_iff_iff]; simp only [beq_iff_eq]
    exact σ32_inj k a x ha hx

theorem contains_shift16 (k a : Int) (l : List Int) (ha : R16 a) (hl : ∀ x ∈ l, R16 x) :
    (l.map (σ16 k)).contains (σ16 k a) = l.contains a := by
  induction l with
  | nil => rfl
  | cons x xs ih =>
    have hx := hl x (by simp)
    have ih := ih (fun y hy => hl y (by simp [hy]))
    simp only [List.map_cons, List.contains_cons, ih]
    congr 1
    rw [Bool.eq_iff_iff]; simp only [beq_iff_eq]
    exact σ16_inj k a x ha hx

/-- Filtering a shifted list with a predicate that is invariant under the shift. -/
theorem filter_map_shift {α} (f : α → α) (p q : α → Bool) (l : List α)
    (h : ∀ x ∈ l, q (f x) = p x) : (l.map f).filter q = (l.filter p).map f := by
  induction l with
  | nil => rfl
  | cons x xs ih =>
    have hx := h x (by simp)
    have ih := ih (fun y hy => h y (by simp [hy]))
    simp only [List.map_cons, List.filter_cons, hx, ih]
    split <;> simp

/-! ## `Outcome` -/

def omap {α β} (f : α → β) : Outcome α → Outcome β
  | .ok a => .ok (f a)
  | .valueError => .valueError
  | .crash k => .crash k
  | .hang => .hang

@[simp] theorem omap_ok {α β} (f : α → β) (a : α) : omap f (.ok a) = .ok (f a) := rfl
@[simp] theorem omap_valueError {α β} (f : α → β) : omap f (.valueError : Outcome α) = .valueError := rfl
@[simp] theorem omap_crash {α β} (f : α → β) (s : String) : omap f (.crash s : Outcome α) = .crash s := rfl
@[simp] theorem omap_hang {α β} (f : α → β) : omap f (.hang : Outcome α) = .hang := rfl

/-! ## receive side: shifted chunks and states -/

/-- A received DATA chunk with its TSN moved by `k` and its SSN by `j`. -/
def shiftR (k j : Int) (c : RChunk) : RChunk := { c with tsn := σ32 k c.tsn, ssn := σ16 j c.ssn }

/-- Wire-range of the sequence-number fields of a chunk. -/
def CR (c : RChunk) : Prop := R32 c.tsn ∧ R16 c.ssn

@[simp] theorem shiftR_tsn (k j : Int) (c : RChunk) : (shiftR k j c).tsn = σ32 k c.tsn := rfl
@[simp] theorem shiftR_ssn (k j : Int) (c : RChunk) : (shiftR k j c).ssn = σ16 j c.ssn := rfl
@[simp] theorem shiftR_sid (k j : Int) (c : RChunk) : (shiftR k j c).sid = c.sid := rfl
@[simp] theorem shiftR_ppid (k j : Int) (c : RChunk) : (shiftR k j c).ppid = c.ppid := rfl
@[simp] theorem shiftR_flags (k j : Int) (c : RChunk) : (shiftR k j c).flags = c.flags := rfl
@[simp] theorem shiftR_data (k j : Int) (c : RChunk) : (shiftR k j c).data = c.data := rfl

theorem shiftR_CR (k j : Int) (c : RChunk) : CR (shiftR k j c) := ⟨σ32_range _ _, σ16_range _ _⟩

def shiftRx (k : Int) (r : Rx) : Rx :=
  { last := σ32 k r.last, mis := r.mis.map (σ32 k), dups := r.dups.map (σ32 k) }

def RxOk (r : Rx) : Prop := R32 r.last ∧ (∀ x ∈ r.mis, R32 x) ∧ (∀ x ∈ r.dups, R32 x)

def shiftIn (k j : Int) (s : InStream) : InStream :=
  { reasm := s.reasm.map (shiftR k j), seq := σ16 j s.seq }

def InOk (s : InStream) : Prop := (∀ c ∈ s.reasm, CR c) ∧ R16 s.seq

def shiftRecv (k j : Int) (r : Recv) : Recv :=
  { rx := shiftRx k r.rx, streams := r.streams.map (fun e => (e.1, shiftIn k j e.2)) }

def RecvOk (r : Recv) : Prop := RxOk r.rx ∧ ∀ e ∈ r.streams, InOk e.2

end Aiortc.C17
