import Aiortc.Lemmas.C17.ShiftDefs
/-!
# C17 part 2 — `InboundStream.add_chunk` / `pop_messages` under a TSN shift `k` and an SSN shift `j`
-/
namespace Aiortc.C17
open Aiortc Aiortc.Gen Aiortc.Sctp Aiortc.Props.C17

/-! ## `add_chunk` -/

theorem insertLoop_shift (k j : Int) (c : RChunk) (l : List RChunk) (hc : CR c)
    (hl : ∀ x ∈ l, CR x) :
    insertLoop (shiftR k j c) (l.map (shiftR k j)) = (insertLoop c l).map (List.map (shiftR k j)) := by
  induction l with
  | nil => rfl
  | cons r rs ih =>
    have hr := hl r (by simp)
    have ih := ih (fun y hy => hl y (by simp [hy]))
    simp only [List.map_cons, insertLoop, shiftR_tsn, σ32_inj k r.tsn c.tsn hr.1 hc.1,
      σ32_gt k r.tsn c.tsn hr.1 hc.1, ih]
    split
    · rfl
    · split
      · simp
      · cases insertLoop c rs <;> simp

theorem insertLoop_mem (c : RChunk) (l r : List RChunk) (h : insertLoop c l = some r) :
    ∀ x ∈ r, x = c ∨ x ∈ l := by
  induction l generalizing r with
  | nil => simp [insertLoop] at h; subst h; simp
  | cons y ys ih =>
    simp only [insertLoop] at h
    split at h
    · cases h
    · split at h
      · cases h; intro x hx; simp only [List.mem_cons] at hx ⊢; exact hx
      · cases h' : insertLoop c ys with
        | none => rw [h'] at h; cases h
        | some r' =>
          rw [h'] at h; simp only [Option.map_some, Option.some.injEq] at h; subst h
          intro x hx; simp only [List.mem_cons] at hx ⊢
          rcases hx with hx | hx
          · exact Or.inr (Or.inl hx)
          · rcases ih r' h' x hx with h1 | h1
            · exact Or.inl h1
            · exact Or.inr (Or.inr h1)

/-- `add_chunk` commutes with the shifts (including the AssertionError outcome). -/
theorem addChunk_shift (k j : Int) (s : InStream) (c : RChunk) (hs : InOk s) (hc : CR c) :
    (shiftIn k j s).addChunk (shiftR k j c) = omap (shiftIn k j) (s.addChunk c) := by
  unfold InStream.addChunk
  simp only [shiftIn, List.getLast?_map]
  cases hl : s.reasm.getLast? with
  | none => simp [shiftIn]
  | some l =>
    have hlr : CR l := hs.1 l (List.mem_of_getLast? hl)
    simp only [Option.map_some, shiftR_tsn, σ32_gt k c.tsn l.tsn hc.1 hlr.1,
      insertLoop_shift k j c s.reasm hc hs.1]
    split
    · simp [shiftIn]
    · cases insertLoop c s.reasm <;> simp [shiftIn]

theorem addChunk_ok (s s' : InStream) (c : RChunk) (hs : InOk s) (hc : CR c)
    (h : s.addChunk c = .ok s') : InOk s' := by
  unfold InStream.addChunk at h
  split at h
  · cases h; exact ⟨by simpa using hc, hs.2⟩
  · split at h
    · cases h
      refine ⟨?_, hs.2⟩
      intro x hx; simp only [List.mem_append, List.mem_singleton] at hx
      rcases hx with hx | hx
      · exact hs.1 x hx
      · exact hx ▸ hc
    · split at h
      · cases h
      · rename_i r hr
        cases h
        refine ⟨?_, hs.2⟩
        intro x hx
        rcases insertLoop_mem c s.reasm r hr x hx with h1 | h1
        · exact h1 ▸ hc
        · exact hs.1 x h1

/-! ## `pop_messages` -/

/-- Two loop states of `pop_messages` that differ by the shifts.  `expected` is only meaningful
(and only related) while a run is open (`start` is not `None`). -/
structure PopRel (k j : Int) (a b : PopSt) : Prop where
  hr : ∀ c ∈ a.reasm, CR c
  hseq : R16 a.seq
  reasm : b.reasm = a.reasm.map (shiftR k j)
  seq : b.seq = σ16 j a.seq
  pos : b.pos = a.pos
  start : b.start = a.start
  ordered : b.ordered = a.ordered
  out : b.out = a.out
  exp : a.start.isSome → R32 a.expected ∧ b.expected = σ32 k a.expected

def OptRel {α β} (R : α → β → Prop) : Option α → Option β → Prop
  | none, none => True
  | some a, some b => R a b
  | _, _ => False

theorem flatMap_data_shift (k j : Int) (l : List RChunk) :
    (l.map (shiftR k j)).flatMap (·.data) = l.flatMap (·.data) := by
  rw [List.flatMap_map]; rfl

theorem popTail_rel {k j : Int} {a b : PopSt} (h : PopRel k j a b) (hst : a.start.isSome)
    (c : RChunk) (hc : CR c) (sp : Nat) :
    PopRel k j (popTail a c sp) (popTail b (shiftR k j c) sp) := by
  obtain ⟨hr, hseq, e1, e2, e3, e4, e5, e6, hexp⟩ := h
  obtain ⟨hx1, hx2⟩ := hexp hst
  cases b with | mk br bs bp bst bexp bord bout =>
  simp only at e1 e2 e3 e4 e5 e6 hx2
  subst e1 e2 e3 e4 e5 e6 hx2
  unfold popTail
  simp only [shiftR_flags, shiftR_ssn, shiftR_sid, shiftR_ppid,
    σ16_inj j c.ssn a.seq hc.2 hseq]
  by_cases hE : flagE c.flags
  · simp only [hE, if_true]
    refine ⟨?_, ?_, ?_, ?_, rfl, rfl, rfl, ?_, ?_⟩
    · intro x hx; simp only [List.mem_append] at hx
      rcases hx with hx | hx
      · exact hr x (List.mem_of_mem_take hx)
      · exact hr x (List.mem_of_mem_drop hx)
    · show R16 (if (a.ordered && decide (c.ssn = a.seq)) = true then uint16_add a.seq 1 else a.seq)
      split
      · exact uint16_add_range _ _
      · exact hseq
    · simp [List.map_take, List.map_drop]
    · show (if (a.ordered && decide (c.ssn = a.seq)) = true then uint16_add (σ16 j a.seq) 1
            else σ16 j a.seq)
          = σ16 j (if (a.ordered && decide (c.ssn = a.seq)) = true then uint16_add a.seq 1 else a.seq)
      split
      · exact σ16_add j a.seq 1
      · rfl
    · simp only [← List.map_take, ← List.map_drop, flatMap_data_shift]
    · intro hh; cases hh
  · simp only [hE, Bool.false_eq_true, if_false]
    exact ⟨hr, hseq, rfl, rfl, rfl, rfl, rfl, rfl,
      fun _ => ⟨plus_one_range _, σ32_plus_one k a.expected⟩⟩

theorem popIter_rel {k j : Int} {a b : PopSt} (h : PopRel k j a b) :
    OptRel (PopRel k j) (popIter a) (popIter b) := by
  have h0 := h
  obtain ⟨hr, hseq, e1, e2, e3, e4, e5, e6, hexp⟩ := h
  cases b with | mk br bs bp bst bexp bord bout =>
  simp only at e1 e2 e3 e4 e5 e6 hexp
  subst e1 e2 e3 e4 e5 e6
  unfold popIter
  simp only [List.getElem?_map]
  cases hc : a.reasm[a.pos]? with
  | none => simp [OptRel]
  | some chunk =>
    have hcr : CR chunk := hr chunk (List.mem_of_getElem? hc)
    simp only [Option.map_some]
    cases hs : a.start with
    | none =>
      simp only [shiftR_flags, shiftR_ssn, shiftR_tsn, σ16_gt j _ _ hcr.2 hseq]
      by_cases hB : flagB chunk.flags
      · simp only [hB, Bool.not_true, Bool.false_eq_true, if_false]
        split
        · trivial
        · simp only [OptRel]
          have hrel : PopRel k j
              { a with ordered := !flagU chunk.flags, expected := chunk.tsn, start := some a.pos }
              { reasm := a.reasm.map (shiftR k j), seq := σ16 j a.seq, pos := a.pos,
                start := some a.pos, expected := σ32 k chunk.tsn, ordered := !flagU chunk.flags,
                out := a.out } :=
            ⟨hr, hseq, rfl, rfl, rfl, rfl, rfl, rfl, fun _ => ⟨hcr.1, rfl⟩⟩
          exact popTail_rel hrel rfl chunk hcr a.pos
      · simp only [hB, Bool.not_false, if_true]
        by_cases hU : flagU chunk.flags
        · simp only [hU, Bool.not_true, Bool.false_eq_true, if_false, OptRel]
          exact ⟨hr, hseq, rfl, rfl, rfl, rfl, rfl, rfl, fun hh => by simp at hh⟩
        · simp only [hU, Bool.not_false, if_true, OptRel]
    | some sp =>
      have hx := hexp (by simp [hs])
      simp only [shiftR_tsn, hx.2, ne_eq, σ32_inj k chunk.tsn a.expected hcr.1 hx.1]
      split
      · split
        · trivial
        · simp only [OptRel]
          exact ⟨hr, hseq, rfl, rfl, rfl, rfl, rfl, rfl, fun hh => by simp at hh⟩
      · simp only [OptRel]
        have := popTail_rel h0 (by simp [hs]) chunk hcr sp
        simpa [hs, hx.2] using this

theorem popRun_rel {k j : Int} (fuel : Nat) {a b : PopSt} (h : PopRel k j a b) :
    OptRel (PopRel k j) (popRun fuel a) (popRun fuel b) := by
  induction fuel generalizing a b with
  | zero => simp [popRun, OptRel]
  | succ n ih =>
    have hi := popIter_rel h
    simp only [popRun]
    cases ha : popIter a with
    | none =>
      cases hb : popIter b with
      | none => simpa [OptRel] using h
      | some b' => rw [ha, hb] at hi; exact hi.elim
    | some a' =>
      cases hb : popIter b with
      | none => rw [ha, hb] at hi; exact hi.elim
      | some b' => rw [ha, hb] at hi; exact ih hi

theorem popInit_rel (k j : Int) (s : InStream) (hs : InOk s) :
    PopRel k j
      { reasm := s.reasm, seq := s.seq, pos := 0, start := none, expected := 0, ordered := true,
        out := [] }
      { reasm := (shiftIn k j s).reasm, seq := (shiftIn k j s).seq, pos := 0, start := none,
        expected := 0, ordered := true, out := [] } :=
  ⟨hs.1, hs.2, rfl, rfl, rfl, rfl, rfl, rfl, fun hh => by simp at hh⟩

/-- `pop_messages`: the yielded messages are IDENTICAL, the stream afterwards is the shifted one
(TSNs by `k`, SSNs and the expected sequence number by `j`, independently). -/
theorem popMessages_shift (k j : Int) (s : InStream) (hs : InOk s) :
    (shiftIn k j s).popMessages = omap (fun r => (r.1, shiftIn k j r.2)) s.popMessages := by
  have h := popRun_rel (2 * s.reasm.length + 2) (popInit_rel k j s hs)
  unfold InStream.popMessages
  have hlen : (shiftIn k j s).reasm.length = s.reasm.length := by simp [shiftIn]
  rw [hlen]
  simp only []
  cases ha : popRun (2 * s.reasm.length + 2)
      { reasm := s.reasm, seq := s.seq, pos := 0, start := none, expected := 0, ordered := true,
        out := [] } with
  | none =>
    cases hb : popRun (2 * s.reasm.length + 2)
      { reasm := (shiftIn k j s).reasm, seq := (shiftIn k j s).seq, pos := 0, start := none,
        expected := 0, ordered := true, out := [] } with
    | none => simp
    | some b' => rw [ha, hb] at h; exact h.elim
  | some a' =>
    cases hb : popRun (2 * s.reasm.length + 2)
      { reasm := (shiftIn k j s).reasm, seq := (shiftIn k j s).seq, pos := 0, start := none,
        expected := 0, ordered := true, out := [] } with
    | none => rw [ha, hb] at h; exact h.elim
    | some b' =>
      rw [ha, hb] at h
      simp only [omap_ok, shiftIn, h.reasm, h.seq, h.out]

theorem popMessages_ok (s s' : InStream) (m : List Msg) (hs : InOk s)
    (h : s.popMessages = .ok (m, s')) : InOk s' := by
  have hrel := popRun_rel (2 * s.reasm.length + 2) (popInit_rel 0 0 s hs)
  unfold InStream.popMessages at h
  simp only [] at h
  cases ha : popRun (2 * s.reasm.length + 2)
      { reasm := s.reasm, seq := s.seq, pos := 0, start := none, expected := 0, ordered := true,
        out := [] } with
  | none => rw [ha] at h; cases h
  | some a' =>
    rw [ha] at h hrel
    cases h
    cases hb : popRun (2 * s.reasm.length + 2)
      { reasm := (shiftIn 0 0 s).reasm, seq := (shiftIn 0 0 s).seq, pos := 0, start := none,
        expected := 0, ordered := true, out := [] } with
    | none => rw [hb] at hrel; exact hrel.elim
    | some b' => rw [hb] at hrel; exact ⟨hrel.hr, hrel.hseq⟩

end Aiortc.C17
