import Aiortc.Lemmas.C17.AbandonShift
/-!
# C17 part 2 — the strike loop of `_receive_sack_chunk` under the shifts
-/
namespace Aiortc.C17
open Aiortc Aiortc.Gen Aiortc.Sctp Aiortc.Props.C17

/-! ## `List.modify` -/

theorem map_modify_comm {α β} (g : α → β) (f : α → α) (f' : β → β) (h : ∀ x, f' (g x) = g (f x))
    (l : List α) (i : Nat) : (l.map g).modify i f' = (l.modify i f).map g := by
  induction l generalizing i with
  | nil => simp
  | cons x xs ih =>
    cases i with
    | zero => simp [h]
    | succ n => simp [ih]

theorem mem_modify {α} (f : α → α) (l : List α) (i : Nat) (x : α) (hx : x ∈ l.modify i f) :
    x ∈ l ∨ ∃ y ∈ l, x = f y := by
  induction l generalizing i with
  | nil => simp at hx
  | cons a as ih =>
    cases i with
    | zero =>
      simp only [List.modify_zero_cons, List.mem_cons] at hx
      rcases hx with hx | hx
      · exact Or.inr ⟨a, by simp, hx⟩
      · exact Or.inl (by simp [hx])
    | succ n =>
      simp only [List.modify_succ_cons, List.mem_cons] at hx
      rcases hx with hx | hx
      · exact Or.inl (by simp [hx])
      · rcases ih n hx with h | ⟨y, hy, hxy⟩
        · exact Or.inl (by simp [h])
        · exact Or.inr ⟨y, by simp [hy], hxy⟩

/-! ## all TSNs of a queue are in the wire range -/

def AllR (l : List SChunk) : Prop := ∀ c ∈ l, R32 c.tsn

theorem AllR.modify {l : List SChunk} (h : AllR l) (f : SChunk → SChunk) (hf : ∀ c, (f c).tsn = c.tsn)
    (i : Nat) : AllR (l.modify i f) := by
  intro x hx
  rcases mem_modify f l i x hx with h1 | ⟨y, hy, hxy⟩
  · exact h x h1
  · rw [hxy, hf]; exact h y hy

theorem AllR.append {l l' : List SChunk} (h : AllR l) (h' : AllR l') : AllR (l ++ l') := by
  intro x hx; rcases List.mem_append.1 hx with h1 | h1
  · exact h x h1
  · exact h' x h1

theorem AllR.sub {l l' : List SChunk} (h : AllR l) (hs : ∀ x ∈ l', x ∈ l) : AllR l' :=
  fun x hx => h x (hs x hx)

theorem decFlight_tsn (fl : Nat) (c : SChunk) : (decFlight fl c).2.tsn = c.tsn := by
  unfold decFlight; split <;> rfl

theorem markAb_tsn (fl : Nat) (c : SChunk) : (markAb fl c).2.tsn = c.tsn := by
  unfold markAb; rw [decFlight_tsn]

theorem abandonBack_allR (fl : Nat) (l : List SChunk) (h : AllR l) : AllR (abandonBack fl l).2 := by
  induction l generalizing fl with
  | nil => exact h
  | cons c cs ih =>
    have hc := h c (by simp)
    have hcs : AllR cs := fun y hy => h y (by simp [hy])
    simp only [abandonBack]
    split
    · intro x hx; simp only [List.mem_cons] at hx
      rcases hx with hx | hx
      · rw [hx, markAb_tsn]; exact hc
      · exact hcs x hx
    · intro x hx; simp only [List.mem_cons] at hx
      rcases hx with hx | hx
      · rw [hx, markAb_tsn]; exact hc
      · exact ih _ hcs x hx

theorem abandonFwd_allR (fl : Nat) (l : List SChunk) (h : AllR l) : AllR (abandonFwd fl l).2.1 := by
  induction l generalizing fl with
  | nil => exact h
  | cons c cs ih =>
    have hc := h c (by simp)
    have hcs : AllR cs := fun y hy => h y (by simp [hy])
    simp only [abandonFwd]
    split
    · intro x hx; simp only [List.mem_cons] at hx
      rcases hx with hx | hx
      · rw [hx, markAb_tsn]; exact hc
      · exact hcs x hx
    · intro x hx; simp only [List.mem_cons] at hx
      rcases hx with hx | hx
      · rw [hx, markAb_tsn]; exact hc
      · exact ih _ hcs x hx

theorem abandonUnsent_allR (l : List SChunk) (h : AllR l) :
    AllR (abandonUnsent l).1 ∧ AllR (abandonUnsent l).2 := by
  induction l with
  | nil => exact ⟨h, h⟩
  | cons c cs ih =>
    have hc := h c (by simp)
    have hcs : AllR cs := fun y hy => h y (by simp [hy])
    simp only [abandonUnsent]
    split
    · refine ⟨?_, hcs⟩
      intro x hx; simp only [List.mem_singleton] at hx; rw [hx]; exact hc
    · refine ⟨?_, (ih hcs).2⟩
      intro x hx; simp only [List.mem_cons] at hx
      rcases hx with hx | hx
      · rw [hx]; exact hc
      · exact (ih hcs).1 x hx

/-- Both queues of the sender hold in-range TSNs. -/
def QOk (t : Tx) : Prop := AllR t.sentQ ∧ AllR t.outQ

theorem maybeAbandon_qok (t : Tx) (pos : Nat) (now : Int) (h : QOk t) :
    QOk (t.maybeAbandon pos now).2 := by
  unfold Tx.maybeAbandon
  cases hc : t.sentQ[pos]? with
  | none => exact h
  | some chunk =>
    simp only []
    split
    · exact h
    · split
      · exact h
      · have hpre : AllR (abandonBack t.flight (t.sentQ.take (pos + 1)).reverse).2.reverse := by
          have h1 : AllR (t.sentQ.take (pos + 1)).reverse :=
            h.1.sub (fun x hx => List.mem_of_mem_take (List.mem_reverse.1 hx))
          exact (abandonBack_allR _ _ h1).sub (fun x hx => List.mem_reverse.1 hx)
        have hcur : R32 ((abandonBack t.flight (t.sentQ.take (pos + 1)).reverse).2.reverse.getLast?.getD
            chunk).tsn := by
          cases hl : (abandonBack t.flight (t.sentQ.take (pos + 1)).reverse).2.reverse.getLast? with
          | none => exact h.1 chunk (List.mem_of_getElem? hc)
          | some v => exact hpre v (List.mem_of_getLast? hl)
        have hfwd := abandonFwd_allR
          (abandonBack t.flight (t.sentQ.take (pos + 1)).reverse).1
          ((abandonBack t.flight (t.sentQ.take (pos + 1)).reverse).2.reverse.getLast?.getD chunk
            :: t.sentQ.drop (pos + 1))
          (by
            intro x hx; simp only [List.mem_cons] at hx
            rcases hx with hx | hx
            · rw [hx]; exact hcur
            · exact h.1 x (List.mem_of_mem_drop hx))
        have hsent := (hpre.sub (List.dropLast_subset _)).append hfwd
        have hun := abandonUnsent_allR t.outQ h.2
        split
        · exact ⟨hsent, h.2⟩
        · exact ⟨hsent.append hun.1, hun.2⟩

/-! ## strike loop -/

theorem shiftTx_sentQ (k j : Int) (t : Tx) : (shiftTx k j t).sentQ = t.sentQ.map (shiftS k j) := rfl
theorem shiftTx_flight (k j : Int) (t : Tx) : (shiftTx k j t).flight = t.flight := rfl

/-- `chunk.misses = m` at position `pos`. -/
def strikeMiss (t : Tx) (pos m : Nat) : Tx :=
  { t with sentQ := t.sentQ.modify pos fun c => { c with misses := m } }

def fixCur (ab : Bool) (cur : SChunk) : SChunk :=
  { (if !ab then { cur with retransmit := true } else cur) with acked := false }

/-- The tail of the `misses == 3` branch after `_maybe_abandon` returned `ab`. -/
def strikeFix (ab : Bool) (t : Tx) (pos : Nat) (c : SChunk) : Tx :=
  { t with flight := (decFlight t.flight (fixCur ab (t.sentQ[pos]?.getD c))).1,
           sentQ := t.sentQ.modify pos fun _ => (decFlight t.flight (fixCur ab (t.sentQ[pos]?.getD c))).2 }

def strikeHit (t : Tx) (pos : Nat) (c : SChunk) (now : Int) : Tx :=
  strikeFix ((strikeMiss t pos 0).maybeAbandon pos now).1 ((strikeMiss t pos 0).maybeAbandon pos now).2 pos c

theorem strikeLoop_succ (seen : List Int) (hna now : Int) (fuel pos : Nat) (t : Tx) (loss : Bool) :
    strikeLoop seen hna now (fuel + 1) pos t loss
      = match t.sentQ[pos]? with
        | none => (t, loss)
        | some c =>
          if uint32_gt c.tsn hna then (t, loss)
          else if !seen.contains c.tsn then
            if c.misses + 1 = 3 then strikeLoop seen hna now fuel (pos + 1) (strikeHit t pos c now) true
            else strikeLoop seen hna now fuel (pos + 1) (strikeMiss t pos (c.misses + 1)) loss
          else strikeLoop seen hna now fuel (pos + 1) t loss := by
  rfl

theorem strikeMiss_shift (k j : Int) (t : Tx) (pos m : Nat) :
    strikeMiss (shiftTx k j t) pos m = shiftTx k j (strikeMiss t pos m) := by
  unfold strikeMiss
  rw [shiftTx_sentQ, map_modify_comm (shiftS k j) (fun c => { c with misses := m })
    (fun c => { c with misses := m }) (fun _ => rfl)]
  rfl

theorem strikeMiss_qok (t : Tx) (pos m : Nat) (h : QOk t) : QOk (strikeMiss t pos m) :=
  ⟨h.1.modify (fun c => { c with misses := m }) (fun _ => rfl) pos, h.2⟩

theorem fixCur_shift (k j : Int) (ab : Bool) (c : SChunk) :
    fixCur ab (shiftS k j c) = shiftS k j (fixCur ab c) := by
  cases ab <;> rfl

theorem fixCur_tsn (ab : Bool) (c : SChunk) : (fixCur ab c).tsn = c.tsn := by
  cases ab <;> rfl

theorem strikeFix_shift (k j : Int) (ab : Bool) (t : Tx) (pos : Nat) (c : SChunk) :
    strikeFix ab (shiftTx k j t) pos (shiftS k j c) = shiftTx k j (strikeFix ab t pos c) := by
  unfold strikeFix
  have e : (shiftTx k j t).sentQ[pos]?.getD (shiftS k j c) = shiftS k j (t.sentQ[pos]?.getD c) := by
    rw [shiftTx_sentQ, List.getElem?_map]; cases t.sentQ[pos]? <;> rfl
  rw [e, fixCur_shift, shiftTx_flight, decFlight_shift, shiftTx_sentQ]
  simp only []
  rw [map_modify_comm (shiftS k j)
    (fun _ => (decFlight t.flight (fixCur ab (t.sentQ[pos]?.getD c))).2)
    (fun _ => shiftS k j (decFlight t.flight (fixCur ab (t.sentQ[pos]?.getD c))).2) (fun _ => rfl)]
  rfl

theorem strikeFix_qok (ab : Bool) (t : Tx) (pos : Nat) (c : SChunk) (h : QOk t) (hc : R32 c.tsn) :
    QOk (strikeFix ab t pos c) := by
  refine ⟨?_, h.2⟩
  intro x hx
  rcases mem_modify _ _ _ x hx with h1 | ⟨y, _, hxy⟩
  · exact h.1 x h1
  · rw [hxy, decFlight_tsn, fixCur_tsn]
    cases hg : t.sentQ[pos]? with
    | none => exact hc
    | some v => exact h.1 v (List.mem_of_getElem? hg)

theorem strikeHit_shift (k j : Int) (t : Tx) (pos : Nat) (c : SChunk) (now : Int) :
    strikeHit (shiftTx k j t) pos (shiftS k j c) now = shiftTx k j (strikeHit t pos c now) := by
  unfold strikeHit
  rw [strikeMiss_shift, maybeAbandon_shift]
  exact strikeFix_shift k j _ _ pos c

theorem strikeHit_qok (t : Tx) (pos : Nat) (c : SChunk) (now : Int) (h : QOk t) (hc : R32 c.tsn) :
    QOk (strikeHit t pos c now) :=
  strikeFix_qok _ _ pos c (maybeAbandon_qok _ pos now (strikeMiss_qok t pos 0 h)) hc

theorem strikeLoop_qok (seen : List Int) (hna now : Int) (fuel pos : Nat) (t : Tx) (loss : Bool)
    (ht : QOk t) : QOk (strikeLoop seen hna now fuel pos t loss).1 := by
  induction fuel generalizing pos t loss with
  | zero => exact ht
  | succ n ih =>
    rw [strikeLoop_succ]
    cases hc : t.sentQ[pos]? with
    | none => exact ht
    | some c =>
      have hcr : R32 c.tsn := ht.1 c (List.mem_of_getElem? hc)
      simp only []
      split
      · exact ht
      · split
        · split
          · exact ih _ _ _ (strikeHit_qok t pos c now ht hcr)
          · exact ih _ _ _ (strikeMiss_qok t pos _ ht)
        · exact ih _ _ _ ht

theorem strikeLoop_shift (k j : Int) (seen : List Int) (hna now : Int) (hseen : ∀ x ∈ seen, R32 x)
    (hh : R32 hna) (fuel pos : Nat) (t : Tx) (loss : Bool) (ht : QOk t) :
    strikeLoop (seen.map (σ32 k)) (σ32 k hna) now fuel pos (shiftTx k j t) loss
      = (shiftTx k j (strikeLoop seen hna now fuel pos t loss).1,
         (strikeLoop seen hna now fuel pos t loss).2) := by
  induction fuel generalizing pos t loss with
  | zero => rfl
  | succ n ih =>
    rw [strikeLoop_succ, strikeLoop_succ, shiftTx_sentQ, List.getElem?_map]
    cases hc : t.sentQ[pos]? with
    | none => rfl
    | some c =>
      have hcr : R32 c.tsn := ht.1 c (List.mem_of_getElem? hc)
      simp only [Option.map_some, shiftS_tsn, σ32_gt k c.tsn hna hcr hh,
        contains_shift32 k c.tsn seen hcr hseen, shiftS_misses, strikeHit_shift, strikeMiss_shift]
      by_cases hg : uint32_gt c.tsn hna = true
      · simp only [hg, if_true]
      · simp only [hg, Bool.false_eq_true, if_false]
        by_cases hs : seen.contains c.tsn = true
        · simp only [hs, Bool.not_true, Bool.false_eq_true, if_false]
          exact ih (pos + 1) t loss ht
        · simp only [hs, Bool.not_false, if_true]
          by_cases hm : c.misses + 1 = 3
          · simp only [hm, if_true]
            exact ih (pos + 1) _ true (strikeHit_qok t pos c now ht hcr)
          · simp only [hm, if_false]
            exact ih (pos + 1) _ loss (strikeMiss_qok t pos _ ht)

end Aiortc.C17
