import Aiortc.Lemmas.C17.ReceiveSackShift
/-!
# C17 part 2 — `_t3_expired` under the shifts, and what `_update_advanced_peer_ack_point` keeps in range
-/
namespace Aiortc.C17
open Aiortc Aiortc.Gen Aiortc.Sctp Aiortc.Props.C17

/-- The per-chunk update of the `for chunk in list(self._sent_queue)` loop of `_t3_expired`. -/
def t3Fix (ab : Bool) (c : SChunk) : SChunk :=
  { (if !ab then { c with retransmit := true } else c) with acked := false, inFlight := false }

theorem t3Fix_shift (k j : Int) (ab : Bool) (c : SChunk) : t3Fix ab (shiftS k j c) = shiftS k j (t3Fix ab c) := by
  cases ab <;> rfl

theorem t3Fix_tsn (ab : Bool) (c : SChunk) : (t3Fix ab c).tsn = c.tsn := by cases ab <;> rfl

def t3Step (now : Int) (pos : Nat) (t : Tx) : Tx :=
  { (t.maybeAbandon pos now).2 with
    sentQ := (t.maybeAbandon pos now).2.sentQ.modify pos (t3Fix (t.maybeAbandon pos now).1) }

theorem t3Mark_succ (now : Int) (fuel pos : Nat) (t : Tx) :
    t3Mark now (fuel + 1) pos t = t3Mark now fuel (pos + 1) (t3Step now pos t) := rfl

theorem t3Step_shift (k j : Int) (now : Int) (pos : Nat) (t : Tx) :
    t3Step now pos (shiftTx k j t) = shiftTx k j (t3Step now pos t) := by
  unfold t3Step
  rw [maybeAbandon_shift]
  simp only [shiftTx_sentQ]
  rw [map_modify_comm (shiftS k j) (t3Fix (t.maybeAbandon pos now).1) (t3Fix (t.maybeAbandon pos now).1)
    (fun c => t3Fix_shift k j _ c)]
  rfl

theorem t3Step_frame (now : Int) (pos : Nat) (t : Tx) : Frame t (t3Step now pos t) :=
  (maybeAbandon_frame t pos now).trans ⟨rfl, rfl, rfl, rfl⟩

theorem t3Step_qok (now : Int) (pos : Nat) (t : Tx) (h : QOk t) : QOk (t3Step now pos t) := by
  have h1 := maybeAbandon_qok t pos now h
  exact ⟨h1.1.modify _ (fun c => t3Fix_tsn _ c) pos, h1.2⟩

theorem t3Mark_shift (k j : Int) (now : Int) (fuel pos : Nat) (t : Tx) :
    t3Mark now fuel pos (shiftTx k j t) = shiftTx k j (t3Mark now fuel pos t) := by
  induction fuel generalizing pos t with
  | zero => rfl
  | succ n ih => rw [t3Mark_succ, t3Mark_succ, t3Step_shift, ih]

theorem t3Mark_frame (now : Int) (fuel pos : Nat) (t : Tx) : Frame t (t3Mark now fuel pos t) := by
  induction fuel generalizing pos t with
  | zero => exact Frame.refl t
  | succ n ih => rw [t3Mark_succ]; exact (t3Step_frame now pos t).trans (ih _ _)

theorem t3Mark_qok (now : Int) (fuel pos : Nat) (t : Tx) (h : QOk t) : QOk (t3Mark now fuel pos t) := by
  induction fuel generalizing pos t with
  | zero => exact h
  | succ n ih => rw [t3Mark_succ]; exact ih _ _ (t3Step_qok now pos t h)

/-- `_t3_expired` (up to the `_transmit` it schedules). -/
theorem t3Expired_shift (k j : Int) (t : Tx) (now : Int) (h1 : R32 t.lastSacked) (h2 : R32 t.advAck) :
    (shiftTx k j t).t3Expired now = shiftTx k j (t.t3Expired now) := by
  unfold Tx.t3Expired
  have e0 : ({ shiftTx k j t with t3 := false } : Tx) = shiftTx k j { t with t3 := false } := rfl
  have e1 : ({ shiftTx k j t with t3 := false } : Tx).sentQ.length = ({ t with t3 := false } : Tx).sentQ.length := by
    simp [shiftTx]
  simp only [e1]
  rw [e0, t3Mark_shift]
  have hf := t3Mark_frame now ({ t with t3 := false } : Tx).sentQ.length 0 { t with t3 := false }
  rw [updateAdvAck_shift k j _ (by rw [hf.2.2.1]; exact h1) (by rw [hf.2.1]; exact h2)]
  rfl

/-! ## range facts about `_update_advanced_peer_ack_point` -/

theorem popAbandoned_ok (adv : Int) (streams : List (Nat × Int)) (needed : Bool) (l : List SChunk)
    (ha : R32 adv) (hl : AllR l) :
    R32 (popAbandoned adv streams needed l).1 ∧ AllR (popAbandoned adv streams needed l).2.2.2 := by
  induction l generalizing adv streams needed with
  | nil => exact ⟨ha, hl⟩
  | cons c cs ih =>
    simp only [popAbandoned]
    split
    · exact ih _ _ _ (hl c (by simp)) (fun y hy => hl y (by simp [hy]))
    · exact ⟨ha, hl⟩

theorem updateAdvAck_frame (t : Tx) :
    t.updateAdvAck.lastSacked = t.lastSacked ∧ t.updateAdvAck.fastRecoveryExit = t.fastRecoveryExit
      ∧ t.updateAdvAck.outQ = t.outQ ∧ t.updateAdvAck.streamSeq = t.streamSeq := by
  unfold Tx.updateAdvAck
  simp only []
  split <;> split <;> exact ⟨rfl, rfl, rfl, rfl⟩

theorem updateAdvAck_ok (t : Tx) (h1 : R32 t.lastSacked) (h2 : R32 t.advAck) (hs : AllR t.sentQ) :
    R32 t.updateAdvAck.advAck ∧ AllR t.updateAdvAck.sentQ := by
  unfold Tx.updateAdvAck
  simp only []
  split
  · have := popAbandoned_ok t.lastSacked [] false t.sentQ h1 hs
    split <;> exact this
  · have := popAbandoned_ok t.advAck t.forwardStreams t.forwardNeeded t.sentQ h2 hs
    split <;> exact this

end Aiortc.C17
