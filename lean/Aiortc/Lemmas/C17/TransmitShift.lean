import Aiortc.Lemmas.C17.TxDefs
/-!
# C17 part 2 — `_transmit` under the shifts: the same chunks go out, with shifted TSNs / SSNs
-/
namespace Aiortc.C17
open Aiortc Aiortc.Gen Aiortc.Sctp Aiortc.Props.C17

def shiftRtx (k j : Int) (st : RtxSt) : RtxSt :=
  { st with done := st.done.map (shiftS k j), evs := st.evs.map (shiftEv k j) }

theorem t3Restart_shift (k j : Int) (b : Bool) : (t3Restart b).map (shiftEv k j) = t3Restart b := by
  cases b <;> rfl

theorem rtxLoop_shift (k j : Int) (cwnd : Nat) (st : RtxSt) (l : List SChunk) :
    rtxLoop cwnd (shiftRtx k j st) (l.map (shiftS k j))
      = (shiftRtx k j (rtxLoop cwnd st l).1, (rtxLoop cwnd st l).2.map (shiftS k j)) := by
  induction l generalizing st with
  | nil => rfl
  | cons c cs ih =>
    simp only [List.map_cons, rtxLoop, shiftS_retransmit]
    by_cases hr : c.retransmit = true
    · simp only [hr, if_true]
      have e1 : (shiftRtx k j st).frt = st.frt := rfl
      have e2 : (shiftRtx k j st).flight = st.flight := rfl
      have e3 : (shiftRtx k j st).earliest = st.earliest := rfl
      have e4 : (shiftRtx k j st).t3 = st.t3 := rfl
      simp only [e1, e2, e3, e4]
      by_cases hw : (!st.frt && decide (st.flight ≥ cwnd)) = true
      · simp only [hw, if_true]; rfl
      · simp only [hw, Bool.false_eq_true, if_false, incFlight_shift]
        by_cases he : st.earliest = true
        · simp only [he, if_true]
          rw [← ih]
          congr 1
          simp only [shiftRtx, List.map_cons, List.map_append, List.map_reverse, t3Restart_shift]
          rfl
        · simp only [he, Bool.false_eq_true, if_false]
          rw [← ih]
          congr 1
    · simp only [hr, Bool.false_eq_true, if_false]
      rw [← ih]
      congr 1

theorem newLoop_shift (k j : Int) (cwnd fuel fl : Nat) (t3 : Bool) (outQ sent : List SChunk)
    (evs : List TxEv) :
    newLoop cwnd fuel fl t3 (outQ.map (shiftS k j)) (sent.map (shiftS k j)) (evs.map (shiftEv k j))
      = ((newLoop cwnd fuel fl t3 outQ sent evs).1, (newLoop cwnd fuel fl t3 outQ sent evs).2.1,
         (newLoop cwnd fuel fl t3 outQ sent evs).2.2.1.map (shiftS k j),
         (newLoop cwnd fuel fl t3 outQ sent evs).2.2.2.1.map (shiftS k j),
         (newLoop cwnd fuel fl t3 outQ sent evs).2.2.2.2.map (shiftEv k j)) := by
  induction fuel generalizing fl t3 outQ sent evs with
  | zero => rfl
  | succ n ih =>
    cases outQ with
    | nil => rfl
    | cons c cs =>
      simp only [List.map_cons, newLoop]
      by_cases hf : fl < cwnd
      · simp only [hf, if_true, incFlight_shift]
        rw [← ih]
        congr 1
        · simp
          rfl
        · cases t3 <;> simp [shiftEv] <;> rfl
      · simp only [hf, if_false]; rfl

/-- `_transmit` after the FORWARD-TSN part (same text as in the model). -/
def txBody (t : Tx) (evs0 : List TxEv) : Tx × List TxEv :=
  let burst := if t.fastRecoveryExit.isSome then 2 * USERDATA_MAX else 4 * USERDATA_MAX
  let cwnd := min (t.flight + burst) t.cwnd
  let (st, rest) := rtxLoop cwnd { flight := t.flight, frt := t.fastRecoveryTransmit, t3 := t.t3,
                                   earliest := true, done := [], evs := [] } t.sentQ
  let sent := st.done.reverse ++ rest
  let t := { t with flight := st.flight, fastRecoveryTransmit := st.frt, t3 := st.t3, sentQ := sent }
  let evs1 := evs0 ++ st.evs.reverse
  if st.ret then (t, evs1)
  else
    let (fl, t3, outQ, sent', evs2) := newLoop cwnd (t.outQ.length + 1) t.flight t.t3 t.outQ t.sentQ evs1
    ({ t with flight := fl, t3 := t3, outQ := outQ, sentQ := sent' }, evs2)

def txFwd (t : Tx) : Tx × List TxEv :=
  match t.forwardTsn with
  | some (cum, streams) =>
    ({ t with forwardTsn := none, t3 := true },
     [TxEv.fwd cum streams] ++ (if t.t3 then [] else [TxEv.t3start]))
  | none => (t, [])

theorem transmit_eq (t : Tx) : t.transmit = txBody (txFwd t).1 (txFwd t).2 := by
  unfold Tx.transmit txBody txFwd
  cases t.forwardTsn <;> rfl

theorem txFwd_shift (k j : Int) (t : Tx) :
    txFwd (shiftTx k j t) = (shiftTx k j (txFwd t).1, (txFwd t).2.map (shiftEv k j)) := by
  unfold txFwd
  have e1 : (shiftTx k j t).forwardTsn
      = t.forwardTsn.map (fun p => (σ32 k p.1, mapVals (σ16 j) p.2)) := rfl
  rw [e1]
  cases hf : t.forwardTsn with
  | none => simp only [Option.map_none, List.map_nil]
  | some p =>
    obtain ⟨cum, streams⟩ := p
    simp only [Option.map_some]
    have e2 : (shiftTx k j t).t3 = t.t3 := rfl
    rw [e2]
    cases t.t3 <;> simp [shiftTx, shiftEv]

def rtx0 (t : Tx) : RtxSt :=
  { flight := t.flight, frt := t.fastRecoveryTransmit, t3 := t.t3, earliest := true, done := [], evs := [] }

theorem txBody_shift (k j : Int) (t : Tx) (evs0 : List TxEv) :
    txBody (shiftTx k j t) (evs0.map (shiftEv k j))
      = (shiftTx k j (txBody t evs0).1, (txBody t evs0).2.map (shiftEv k j)) := by
  unfold txBody
  have e1 : (shiftTx k j t).fastRecoveryExit.isSome = t.fastRecoveryExit.isSome := by
    simp [shiftTx]
  have e2 : (shiftTx k j t).flight = t.flight := rfl
  have e3 : (shiftTx k j t).cwnd = t.cwnd := rfl
  have e4 : (shiftTx k j t).fastRecoveryTransmit = t.fastRecoveryTransmit := rfl
  have e5 : (shiftTx k j t).t3 = t.t3 := rfl
  have e6 : (shiftTx k j t).sentQ = t.sentQ.map (shiftS k j) := rfl
  have e7 : (shiftTx k j t).outQ = t.outQ.map (shiftS k j) := rfl
  simp only [e1, e2, e3, e4, e5, e6, e7, List.length_map]
  have key := fun C => rtxLoop_shift k j C (rtx0 t) t.sentQ
  have h0 : shiftRtx k j (rtx0 t) = rtx0 t := rfl
  simp only [h0] at key
  simp only [rtx0] at key
  simp only [key]
  generalize rtxLoop _ _ t.sentQ = r
  obtain ⟨st, rest⟩ := r
  simp only []
  have f1 : (shiftRtx k j st).ret = st.ret := rfl
  have f2 : (shiftRtx k j st).flight = st.flight := rfl
  have f3 : (shiftRtx k j st).frt = st.frt := rfl
  have f4 : (shiftRtx k j st).t3 = st.t3 := rfl
  have f5 : (shiftRtx k j st).done = st.done.map (shiftS k j) := rfl
  have f6 : (shiftRtx k j st).evs = st.evs.map (shiftEv k j) := rfl
  simp only [f1, f2, f3, f4, f5, f6, ← List.map_reverse, ← List.map_append, newLoop_shift]
  by_cases hr : st.ret = true
  · simp only [hr, if_true]; rfl
  · simp only [hr, Bool.false_eq_true, if_false]; rfl

/-- `_transmit()`: the events (DATA chunks sent, FORWARD-TSN, T3 start / cancel) are the same events with
shifted sequence numbers; the state afterwards is the shifted state. -/
theorem transmit_shift (k j : Int) (t : Tx) :
    (shiftTx k j t).transmit = (shiftTx k j t.transmit.1, t.transmit.2.map (shiftEv k j)) := by
  rw [transmit_eq, transmit_eq, txFwd_shift, txBody_shift]

end Aiortc.C17
