import Aiortc.Lemmas.C17.ShiftDefs
import Aiortc.Model.Video.Receiver
/-!
# C17 part 2 — `TimestampMapper` (rtcrtpreceiver.py) under a shift of the 32-bit timestamp origin

`map` returns `timestamp - _origin`, where `_origin` is lowered by 2^32 whenever the timestamp is smaller than
the previous one.  Under a shift the *branch taken* can differ (the wrap happens at another place of the
sequence), the value returned does not: each call adds `(t - last) mod 2^32` to the previous value.  The
state relation is therefore "`last` shifted, `origin - last` unchanged" (`shiftTs`).
-/
namespace Aiortc.C17
open Aiortc Aiortc.Gen Aiortc.Model.Video Aiortc.Props.C17

def shiftTs (m : Int) (t : TsMap) : TsMap :=
  match t.last, t.origin with
  | some l, some o => ⟨some (σ32 m l), some (o + (σ32 m l - l))⟩
  | _, _ => t

/-- `_last_timestamp` is a 32-bit number (it is the previous argument). -/
def TsMapOk (t : TsMap) : Prop := ∀ l, t.last = some l → R32 l

/-- The arithmetic core: whichever branch each run takes, the new `_origin` differs by `σ t - t`. -/
theorem tsOrigin_shift (m l t o : Int) (hl : R32 l) (ht : R32 t) :
    (if σ32 m t < σ32 m l then o + (σ32 m l - l) - 4294967296 else o + (σ32 m l - l))
      = (if t < l then o - 4294967296 else o) + (σ32 m t - t) := by
  unfold R32 at hl ht
  unfold σ32
  split <;> split <;> omega

theorem tsMap_shift (m : Int) (s : TsMap) (t : Int) (ht : R32 t) (hs : TsMapOk s) :
    TsMap.map (shiftTs m s) (σ32 m t) = omap (fun r => (shiftTs m r.1, r.2)) (TsMap.map s t) := by
  obtain ⟨last, origin⟩ := s
  have e0 : t + (σ32 m t - t) = σ32 m t := by omega
  cases origin with
  | none =>
    cases last with
    | none => simp only [shiftTs, TsMap.map, omap_ok, e0]
    | some l => simp only [shiftTs, TsMap.map, omap_ok, e0]
  | some o =>
    cases last with
    | none => rfl
    | some l =>
      have hk := tsOrigin_shift m l t o (hs l rfl) ht
      simp only [shiftTs, TsMap.map, omap_ok, hk]
      generalize (if t < l then o - 4294967296 else o) = o'
      have e1 : σ32 m t - (o' + (σ32 m t - t)) = t - o' := by omega
      rw [e1]

theorem tsMap_ok (s : TsMap) (t : Int) (ht : R32 t) (r : TsMap × Int) (h : TsMap.map s t = .ok r) : TsMapOk r.1 := by
  obtain ⟨last, origin⟩ := s
  intro l hl
  cases origin with
  | none =>
    simp only [TsMap.map, Outcome.ok.injEq] at h
    subst h
    simp only [Option.some.injEq] at hl
    exact hl ▸ ht
  | some o =>
    cases last with
    | none => simp only [TsMap.map] at h; cases h
    | some l0 =>
      simp only [TsMap.map, Outcome.ok.injEq] at h
      subst h
      simp only [Option.some.injEq] at hl
      exact hl ▸ ht

/-- The values `map` returns for a whole sequence of timestamps. -/
def tsMapAll : TsMap → List Int → Outcome (List Int)
  | _, [] => .ok []
  | s, t :: ts =>
    match TsMap.map s t with
    | .ok r => omap (fun vs => r.2 :: vs) (tsMapAll r.1 ts)
    | .valueError => .valueError
    | .crash k => .crash k
    | .hang => .hang

theorem tsMapAll_shift (m : Int) (ts : List Int) (s : TsMap) (hts : ∀ t ∈ ts, R32 t) (hs : TsMapOk s) :
    tsMapAll (shiftTs m s) (ts.map (σ32 m)) = tsMapAll s ts := by
  induction ts generalizing s with
  | nil => rfl
  | cons t rest ih =>
    have h1 := hts t (by simp)
    have hrest : ∀ y ∈ rest, R32 y := fun y hy => hts y (by simp [hy])
    simp only [List.map_cons, tsMapAll, tsMap_shift m s t h1 hs]
    cases hr : TsMap.map s t with
    | ok r =>
      simp only [omap_ok]
      rw [ih r.1 hrest (tsMap_ok s t h1 r hr)]
    | valueError => rfl
    | crash k => rfl
    | hang => rfl

theorem tsInit_ok : TsMapOk TsMap.init := fun _ h => by cases h

theorem tsInit_shift (m : Int) : shiftTs m TsMap.init = TsMap.init := rfl

end Aiortc.C17
