import Aiortc.Lemmas.C17.RecvShift
/-!
# C17 part 2 — the send side: shifted chunks, events and `Tx` states

On the send side an UNORDERED chunk carries SSN 0 whatever the stream's sequence number is, so the SSN
shift `j` acts on ordered chunks only (`flagU` clear); the per-stream counters `_outbound_stream_seq`
and the stream table of a FORWARD-TSN (which only ever lists ordered chunks) are shifted throughout.
-/
namespace Aiortc.C17
open Aiortc Aiortc.Gen Aiortc.Sctp Aiortc.Props.C17

def ssnS (j : Int) (flags : Nat) (ssn : Int) : Int := if flagU flags then ssn else σ16 j ssn

def shiftS (k j : Int) (c : SChunk) : SChunk :=
  { c with tsn := σ32 k c.tsn, ssn := ssnS j c.flags c.ssn }

/-- A DATA chunk as put on the wire by the sender. -/
def shiftRo (k j : Int) (c : RChunk) : RChunk :=
  { c with tsn := σ32 k c.tsn, ssn := ssnS j c.flags c.ssn }

@[simp] theorem shiftS_tsn (k j : Int) (c : SChunk) : (shiftS k j c).tsn = σ32 k c.tsn := rfl
@[simp] theorem shiftS_ssn (k j : Int) (c : SChunk) : (shiftS k j c).ssn = ssnS j c.flags c.ssn := rfl
@[simp] theorem shiftS_sid (k j : Int) (c : SChunk) : (shiftS k j c).sid = c.sid := rfl
@[simp] theorem shiftS_flags (k j : Int) (c : SChunk) : (shiftS k j c).flags = c.flags := rfl
@[simp] theorem shiftS_abandoned (k j : Int) (c : SChunk) : (shiftS k j c).abandoned = c.abandoned := rfl
@[simp] theorem shiftS_acked (k j : Int) (c : SChunk) : (shiftS k j c).acked = c.acked := rfl
@[simp] theorem shiftS_bookSize (k j : Int) (c : SChunk) : (shiftS k j c).bookSize = c.bookSize := rfl
@[simp] theorem shiftS_expiry (k j : Int) (c : SChunk) : (shiftS k j c).expiry = c.expiry := rfl
@[simp] theorem shiftS_maxRetransmits (k j : Int) (c : SChunk) :
    (shiftS k j c).maxRetransmits = c.maxRetransmits := rfl
@[simp] theorem shiftS_misses (k j : Int) (c : SChunk) : (shiftS k j c).misses = c.misses := rfl
@[simp] theorem shiftS_retransmit (k j : Int) (c : SChunk) : (shiftS k j c).retransmit = c.retransmit := rfl
@[simp] theorem shiftS_sentCount (k j : Int) (c : SChunk) : (shiftS k j c).sentCount = c.sentCount := rfl
@[simp] theorem shiftS_inFlight (k j : Int) (c : SChunk) : (shiftS k j c).inFlight = c.inFlight := rfl

theorem toR_shiftS (k j : Int) (c : SChunk) : (shiftS k j c).toR = shiftRo k j c.toR := rfl

def shiftEv (k j : Int) : TxEv → TxEv
  | .data c => .data (shiftRo k j c)
  | .fwd cum streams => .fwd (σ32 k cum) (mapVals (σ16 j) streams)
  | .t3start => .t3start
  | .t3cancel => .t3cancel

def shiftTx (k j : Int) (t : Tx) : Tx :=
  { t with
    fastRecoveryExit := t.fastRecoveryExit.map (σ32 k)
    forwardTsn := t.forwardTsn.map (fun p => (σ32 k p.1, mapVals (σ16 j) p.2))
    forwardStreams := mapVals (σ16 j) t.forwardStreams
    localTsn := σ32 k t.localTsn
    lastSacked := σ32 k t.lastSacked
    advAck := σ32 k t.advAck
    outQ := t.outQ.map (shiftS k j)
    streamSeq := mapVals (σ16 j) t.streamSeq
    sentQ := t.sentQ.map (shiftS k j) }

/-- Wire range of the TSN-typed fields the SACK / FORWARD-TSN logic compares. -/
structure TxOk (t : Tx) : Prop where
  lastSacked : R32 t.lastSacked
  advAck : R32 t.advAck
  sent : ∀ c ∈ t.sentQ, R32 c.tsn
  out : ∀ c ∈ t.outQ, R32 c.tsn
  exit : ∀ e, t.fastRecoveryExit = some e → R32 e

/-! ## bookkeeping helpers that never look at a sequence number -/

theorem decFlight_shift (k j : Int) (fl : Nat) (c : SChunk) :
    decFlight fl (shiftS k j c) = ((decFlight fl c).1, shiftS k j (decFlight fl c).2) := by
  cases h : c.inFlight <;> simp [decFlight, h, shiftS]

theorem incFlight_shift (k j : Int) (fl : Nat) (c : SChunk) :
    incFlight fl (shiftS k j c) = ((incFlight fl c).1, shiftS k j (incFlight fl c).2) := by
  cases h : c.inFlight <;> simp [incFlight, h, shiftS]

theorem markAb_shift (k j : Int) (fl : Nat) (c : SChunk) :
    markAb fl (shiftS k j c) = ((markAb fl c).1, shiftS k j (markAb fl c).2) := by
  unfold markAb
  exact decFlight_shift k j fl { c with abandoned := true, retransmit := false }

theorem shouldAbandon_shift (k j : Int) (c : SChunk) (now : Int) :
    shouldAbandon (shiftS k j c) now = shouldAbandon c now := rfl

end Aiortc.C17
