import Aiortc.Lemmas.C17.T3Shift
import Aiortc.Lemmas.C17.TransmitShift
import Aiortc.Lemmas.C17.EnqueueShift
/-!
# C17 part 2 — whole runs of the SCTP sender

The sender is driven by a list of commands (`_send`, a SACK arriving, `_transmit`, T3 expiry) in any
interleaving.  `TxOk` (all TSN-typed fields in the wire range) is an invariant of every command, so the
per-command equivariance theorems compose: the same commands with every SACK's cumulative TSN moved by `k`,
from the shifted state, emit the same events with shifted sequence numbers.
-/
namespace Aiortc.C17
open Aiortc Aiortc.Gen Aiortc.Sctp Aiortc.Props.C17

/-! ## `TxOk` is kept by every command -/

theorem TxOk.qok {t : Tx} (h : TxOk t) : QOk t := ⟨h.sent, h.out⟩

theorem fragments_allR (tsn : Int) (sid : Nat) (ssn : Int) (ppid : Nat) (ordered : Bool)
    (expiry maxRtx : Option Int) (n : Nat) (data : Bytes) (m : Nat) :
    AllR (fragments tsn sid ssn ppid ordered expiry maxRtx n data m) := by
  induction m with
  | zero => intro c hc; simp [fragments] at hc
  | succ q ih =>
    intro c hc
    simp only [fragments, List.mem_cons] at hc
    rcases hc with hc | hc
    · rw [hc]; show R32 (_ % 4294967296); unfold R32; omega
    · exact ih c hc

theorem enqueue_ok (t : Tx) (sid ppid : Nat) (data : Bytes) (expiry maxRtx : Option Int) (ordered : Bool)
    (h : TxOk t) : TxOk (t.enqueue sid ppid data expiry maxRtx ordered) := by
  unfold Tx.enqueue
  exact ⟨h.lastSacked, h.advAck, h.sent, AllR.append h.out (fragments_allR _ _ _ _ _ _ _ _ _ _), h.exit⟩

theorem incFlight_tsn (fl : Nat) (c : SChunk) : (incFlight fl c).2.tsn = c.tsn := by
  unfold incFlight; split <;> rfl

theorem rtxLoop_allR (cwnd : Nat) (st : RtxSt) (l : List SChunk) (hd : AllR st.done) (hl : AllR l) :
    AllR (rtxLoop cwnd st l).1.done ∧ AllR (rtxLoop cwnd st l).2 := by
  induction l generalizing st with
  | nil => exact ⟨hd, hl⟩
  | cons c cs ih =>
    have hc := hl c (by simp)
    have hcs : AllR cs := fun y hy => hl y (by simp [hy])
    simp only [rtxLoop]
    split
    · split
      · exact ⟨hd, hl⟩
      · split <;>
        · apply ih _ _ hcs
          intro x hx; simp only [List.mem_cons] at hx
          rcases hx with hx | hx
          · rw [hx]; show R32 (incFlight st.flight c).2.tsn; rw [incFlight_tsn]; exact hc
          · exact hd x hx
    · apply ih _ _ hcs
      intro x hx; simp only [List.mem_cons] at hx
      rcases hx with hx | hx
      · rw [hx]; exact hc
      · exact hd x hx

theorem newLoop_allR (cwnd fuel fl : Nat) (t3 : Bool) (outQ sent : List SChunk) (evs : List TxEv)
    (ho : AllR outQ) (hs : AllR sent) :
    AllR (newLoop cwnd fuel fl t3 outQ sent evs).2.2.1 ∧ AllR (newLoop cwnd fuel fl t3 outQ sent evs).2.2.2.1 := by
  induction fuel generalizing fl t3 outQ sent evs with
  | zero => exact ⟨ho, hs⟩
  | succ n ih =>
    cases outQ with
    | nil => exact ⟨ho, hs⟩
    | cons c cs =>
      have hc := ho c (by simp)
      have hcs : AllR cs := fun y hy => ho y (by simp [hy])
      simp only [newLoop]
      split
      · apply ih _ _ _ _ _ hcs
        apply AllR.append hs
        intro x hx; simp only [List.mem_singleton] at hx
        rw [hx]; show R32 (incFlight fl c).2.tsn; rw [incFlight_tsn]; exact hc
      · exact ⟨ho, hs⟩

theorem txFwd_keep (t : Tx) :
    (txFwd t).1.lastSacked = t.lastSacked ∧ (txFwd t).1.advAck = t.advAck
      ∧ (txFwd t).1.fastRecoveryExit = t.fastRecoveryExit ∧ (txFwd t).1.sentQ = t.sentQ
      ∧ (txFwd t).1.outQ = t.outQ ∧ (txFwd t).1.streamSeq = t.streamSeq := by
  unfold txFwd
  cases t.forwardTsn <;> exact ⟨rfl, rfl, rfl, rfl, rfl, rfl⟩

theorem txBody_ok (t : Tx) (evs0 : List TxEv) (h : TxOk t) :
    TxOk (txBody t evs0).1 ∧ (txBody t evs0).1.streamSeq = t.streamSeq := by
  unfold txBody
  simp only []
  have hr := rtxLoop_allR
    (min (t.flight + if t.fastRecoveryExit.isSome = true then 2 * USERDATA_MAX else 4 * USERDATA_MAX) t.cwnd)
    (rtx0 t) t.sentQ (fun x hx => by simp [rtx0] at hx) h.sent
  simp only [rtx0] at hr
  generalize rtxLoop _ _ t.sentQ = r at hr ⊢
  obtain ⟨st, rest⟩ := r
  simp only [] at hr ⊢
  have hsent : AllR (st.done.reverse ++ rest) :=
    AllR.append (hr.1.sub (fun x hx => List.mem_reverse.1 hx)) hr.2
  split
  · exact ⟨⟨h.lastSacked, h.advAck, hsent, h.out, h.exit⟩, rfl⟩
  · have hn := newLoop_allR
      (min (t.flight + if t.fastRecoveryExit.isSome = true then 2 * USERDATA_MAX else 4 * USERDATA_MAX) t.cwnd)
      (t.outQ.length + 1) st.flight st.t3 t.outQ (st.done.reverse ++ rest) (evs0 ++ st.evs.reverse) h.out hsent
    exact ⟨⟨h.lastSacked, h.advAck, hn.2, hn.1, h.exit⟩, rfl⟩

theorem transmit_ok (t : Tx) (h : TxOk t) : TxOk t.transmit.1 ∧ t.transmit.1.streamSeq = t.streamSeq := by
  rw [transmit_eq]
  have hk := txFwd_keep t
  have h1 : TxOk (txFwd t).1 :=
    ⟨hk.1 ▸ h.lastSacked, hk.2.1 ▸ h.advAck, hk.2.2.2.1 ▸ h.sent, hk.2.2.2.2.1 ▸ h.out,
     fun e he => h.exit e (hk.2.2.1 ▸ he)⟩
  have := txBody_ok (txFwd t).1 (txFwd t).2 h1
  exact ⟨this.1, this.2.trans hk.2.2.2.2.2⟩

theorem t3Expired_ok (t : Tx) (now : Int) (h : TxOk t) :
    TxOk (t.t3Expired now) ∧ (t.t3Expired now).streamSeq = t.streamSeq := by
  unfold Tx.t3Expired
  simp only []
  have hq : QOk ({ t with t3 := false } : Tx) := h.qok
  have hm := t3Mark_qok now ({ t with t3 := false } : Tx).sentQ.length 0 { t with t3 := false } hq
  have hf := t3Mark_frame now ({ t with t3 := false } : Tx).sentQ.length 0 { t with t3 := false }
  generalize t3Mark now _ 0 ({ t with t3 := false } : Tx) = tm at hm hf
  have hu := updateAdvAck_ok tm (hf.2.2.1 ▸ h.lastSacked) (hf.2.1 ▸ h.advAck) hm.1
  have hk := updateAdvAck_frame tm
  refine ⟨⟨?_, hu.1, hu.2, ?_, ?_⟩, ?_⟩
  · show R32 tm.updateAdvAck.lastSacked; rw [hk.1, hf.2.2.1]; exact h.lastSacked
  · show AllR tm.updateAdvAck.outQ; rw [hk.2.2.1]; exact hm.2
  · intro e he; cases he
  · show tm.updateAdvAck.streamSeq = t.streamSeq; rw [hk.2.2.2, hf.2.2.2]

/-! ### `_receive_sack_chunk` -/

theorem sackGaps_qok (t : Tx) (cum : Int) (gaps : List (Nat × Nat)) (db : Nat) (now : Int) (hc : R32 cum)
    (h : QOk t) : QOk (sackGaps t cum gaps db now).1 := by
  unfold sackGaps
  simp only []
  exact strikeLoop_qok _ _ _ _ _ _ _
    ⟨(htnaLoop_ok _ _ _ _ _ _ _ hc (fun x hx => by simp at hx) h.1).2, h.2⟩

theorem sackMid_qok (t : Tx) (cum : Int) (gaps : List (Nat × Nat)) (now : Int) (hc : R32 cum) (h : QOk t) :
    QOk (sackMid t cum gaps now).1 := by
  unfold sackMid
  split
  · exact sackAck_qok t cum h
  · exact sackGaps_qok _ cum gaps _ now hc (sackAck_qok t cum h)

theorem cwndGrow_queues (t : Tx) (done : Nat) (fully : Bool) (db : Nat) :
    (cwndGrow t done fully db).sentQ = t.sentQ ∧ (cwndGrow t done fully db).outQ = t.outQ
      ∧ (cwndGrow t done fully db).fastRecoveryExit = t.fastRecoveryExit
      ∧ (cwndGrow t done fully db).streamSeq = t.streamSeq := by
  unfold cwndGrow
  split
  · split
    · exact ⟨rfl, rfl, rfl, rfl⟩
    · simp only []; split <;> exact ⟨rfl, rfl, rfl, rfl⟩
  · exact ⟨rfl, rfl, rfl, rfl⟩

/-- After the congestion-window phase: queues untouched, `fast_recovery_exit` still in range. -/
theorem sackCwnd_ok (t t' : Tx) (cum : Int) (done : Nat) (fully : Bool) (db : Nat) (loss : Bool)
    (hq : QOk t) (hex : ∀ e, t.fastRecoveryExit = some e → R32 e)
    (h : sackCwnd t cum done fully db loss = .ok t') :
    QOk t' ∧ (∀ e, t'.fastRecoveryExit = some e → R32 e) ∧ t'.streamSeq = t.streamSeq := by
  unfold sackCwnd at h
  cases hfe : t.fastRecoveryExit with
  | none =>
    rw [hfe] at h
    simp only [] at h
    have hk := cwndGrow_queues t done fully db
    split at h
    · unfold enterFr at h
      cases hl : (cwndGrow t done fully db).sentQ.getLast? with
      | none => rw [hl] at h; cases h
      | some l =>
        rw [hl] at h; cases h
        have hlm : l ∈ t.sentQ := hk.1 ▸ List.mem_of_getLast? hl
        refine ⟨⟨?_, ?_⟩, ?_, hk.2.2.2⟩
        · show AllR (cwndGrow t done fully db).sentQ; rw [hk.1]; exact hq.1
        · show AllR (cwndGrow t done fully db).outQ; rw [hk.2.1]; exact hq.2
        · intro e he; cases he; exact hq.1 l hlm
    · cases h
      refine ⟨⟨hk.1 ▸ hq.1, hk.2.1 ▸ hq.2⟩, ?_, hk.2.2.2⟩
      intro e he; rw [hk.2.2.1, hfe] at he; cases he
  | some ex =>
    rw [hfe] at h
    simp only [] at h
    split at h
    · cases h; exact ⟨hq, (fun e he => by cases he), rfl⟩
    · cases h; exact ⟨hq, hex, rfl⟩

theorem sackT3_queues (t : Tx) (done : Nat) :
    (sackT3 t done).1.sentQ = t.sentQ ∧ (sackT3 t done).1.outQ = t.outQ
      ∧ (sackT3 t done).1.fastRecoveryExit = t.fastRecoveryExit
      ∧ (sackT3 t done).1.streamSeq = t.streamSeq := by
  unfold sackT3
  split
  · exact ⟨rfl, rfl, rfl, rfl⟩
  · split <;> exact ⟨rfl, rfl, rfl, rfl⟩

theorem receiveSack_ok (t t' : Tx) (cum : Int) (gaps : List (Nat × Nat)) (now : Int) (evs : List TxEv)
    (h : TxOk t) (hc : R32 cum) (hr : t.receiveSack cum gaps now = .ok (some (t', evs))) :
    TxOk t' ∧ t'.streamSeq = t.streamSeq := by
  rw [receiveSack_eq] at hr
  split at hr
  · cases hr
  · have hf := sackMid_frame t cum gaps now
    have hq := sackMid_qok t cum gaps now hc h.qok
    have hss : (sackMid t cum gaps now).1.streamSeq = t.streamSeq := by
      unfold sackMid
      split
      · rfl
      · exact (sackGaps_frame (sackAck t cum).1 cum gaps (sackAck t cum).2.2 now).2.2.2
    cases hcw : sackCwnd (sackMid t cum gaps now).1 cum (sackAck t cum).2.1 (decide (t.flight ≥ t.cwnd))
        (sackMid t cum gaps now).2.1 (sackMid t cum gaps now).2.2 with
    | ok tc =>
      rw [hcw] at hr
      simp only [sackEnd, Outcome.ok.injEq, Option.some.injEq, Prod.mk.injEq] at hr
      have hco := sackCwnd_ok _ tc cum _ _ _ _ hq (fun e he => h.exit e (hf.1 ▸ he)) hcw
      have hkeep := sackCwnd_keep _ _ _ _ _ _ _ hcw
      have ht3 := sackT3_queues tc (sackAck t cum).2.1
      have ht3k := sackT3_keep tc (sackAck t cum).2.1
      have hls : R32 (sackT3 tc (sackAck t cum).2.1).1.lastSacked := by
        rw [ht3k.1, hkeep.1, hf.2.2]; exact hc
      have hadv : R32 (sackT3 tc (sackAck t cum).2.1).1.advAck := by
        rw [ht3k.2, hkeep.2, hf.2.1]; exact h.advAck
      have hu := updateAdvAck_ok (sackT3 tc (sackAck t cum).2.1).1 hls hadv (ht3.1 ▸ hco.1.1)
      have hk := updateAdvAck_frame (sackT3 tc (sackAck t cum).2.1).1
      rw [← hr.1]
      refine ⟨⟨hk.1 ▸ hls, hu.1, hu.2, ?_, ?_⟩, ?_⟩
      · rw [hk.2.2.1, ht3.2.1]; exact hco.1.2
      · intro e he; rw [hk.2.1, ht3.2.2.1] at he; exact hco.2.1 e he
      · rw [hk.2.2.2, ht3.2.2.2, hco.2.2, hss]
    | valueError => rw [hcw] at hr; cases hr
    | crash s => rw [hcw] at hr; cases hr
    | hang => rw [hcw] at hr; cases hr

/-! ## commands and runs -/

inductive TxCmd where
  | send (sid ppid : Nat) (data : Bytes) (expiry maxRtx : Option Int) (ordered : Bool)
  | sack (cum : Int) (gaps : List (Nat × Nat)) (now : Int)
  | transmit
  | t3 (now : Int)

/-- Only a SACK carries a sequence number (the cumulative TSN; gap blocks are offsets). -/
def shiftCmd (k : Int) : TxCmd → TxCmd
  | .sack cum gaps now => .sack (σ32 k cum) gaps now
  | c => c

def txStep (t : Tx) : TxCmd → Outcome (Tx × List TxEv)
  | .send sid ppid data expiry maxRtx ordered => .ok (t.enqueue sid ppid data expiry maxRtx ordered, [])
  | .sack cum gaps now =>
    match t.receiveSack cum gaps now with
    | .ok none => .ok (t, [])
    | .ok (some r) => .ok r
    | .valueError => .valueError | .crash s => .crash s | .hang => .hang
  | .transmit => .ok t.transmit
  | .t3 now => .ok (t.t3Expired now, [])

def txRun : Tx → List TxCmd → Outcome (Tx × List TxEv)
  | t, [] => .ok (t, [])
  | t, c :: cs =>
    match txStep t c with
    | .ok (t1, e1) =>
      match txRun t1 cs with
      | .ok (t2, e2) => .ok (t2, e1 ++ e2)
      | .valueError => .valueError | .crash s => .crash s | .hang => .hang
    | .valueError => .valueError | .crash s => .crash s | .hang => .hang

/-- A command is well-formed for a state: SACK numbers in range; an ordered `_send` goes to a stream whose
SSN counter exists (or the SSN shift is trivial). -/
def CmdOk (j : Int) (t : Tx) : TxCmd → Prop
  | .send sid _ _ _ _ ordered => SeqKnown j t sid ordered
  | .sack cum _ _ => R32 cum
  | _ => True

def shiftStepOut (k j : Int) (r : Tx × List TxEv) : Tx × List TxEv := (shiftTx k j r.1, r.2.map (shiftEv k j))

theorem txStep_shift (k j : Int) (t : Tx) (c : TxCmd) (h : TxOk t) (hc : CmdOk j t c) :
    txStep (shiftTx k j t) (shiftCmd k c) = omap (shiftStepOut k j) (txStep t c) := by
  cases c with
  | send sid ppid data expiry maxRtx ordered =>
    simp only [txStep, shiftCmd, omap_ok, shiftStepOut, List.map_nil]
    rw [enqueue_shift k j t sid ppid data expiry maxRtx ordered hc]
  | sack cum gaps now =>
    simp only [txStep, shiftCmd]
    rw [receiveSack_shift k j t cum gaps now h hc]
    cases hr : t.receiveSack cum gaps now with
    | ok r =>
      cases r with
      | none => rfl
      | some p => rfl
    | valueError => rfl
    | crash s => rfl
    | hang => rfl
  | transmit =>
    simp only [txStep, shiftCmd, omap_ok, shiftStepOut]
    rw [transmit_shift]
  | t3 now =>
    simp only [txStep, shiftCmd, omap_ok, shiftStepOut, List.map_nil]
    rw [t3Expired_shift k j t now h.lastSacked h.advAck]

/-- `TxOk` and the set of known stream counters survive every command. -/
theorem txStep_ok (t : Tx) (c : TxCmd) (r : Tx × List TxEv) (h : TxOk t) (hc : ∀ cum gaps now, c = .sack cum gaps now → R32 cum)
    (hr : txStep t c = .ok r) :
    TxOk r.1 ∧ ∀ sid, (dictGet t.streamSeq sid).isSome → (dictGet r.1.streamSeq sid).isSome := by
  cases c with
  | send sid ppid data expiry maxRtx ordered =>
    simp only [txStep, Outcome.ok.injEq] at hr
    rw [← hr]
    refine ⟨enqueue_ok t _ _ _ _ _ _ h, ?_⟩
    intro sid' hs
    unfold Tx.enqueue
    simp only []
    split
    · exact dictGet_isSome_dictSet _ _ _ _ hs
    · exact hs
  | sack cum gaps now =>
    simp only [txStep] at hr
    cases hrs : t.receiveSack cum gaps now with
    | ok x =>
      rw [hrs] at hr
      cases x with
      | none => simp only [Outcome.ok.injEq] at hr; rw [← hr]; exact ⟨h, fun _ hs => hs⟩
      | some p =>
        simp only [Outcome.ok.injEq] at hr
        subst hr
        have := receiveSack_ok t p.1 cum gaps now p.2 h (hc cum gaps now rfl) hrs
        exact ⟨this.1, fun sid hs => by rw [this.2]; exact hs⟩
    | valueError => rw [hrs] at hr; cases hr
    | crash s => rw [hrs] at hr; cases hr
    | hang => rw [hrs] at hr; cases hr
  | transmit =>
    simp only [txStep, Outcome.ok.injEq] at hr
    rw [← hr]
    have := transmit_ok t h
    exact ⟨this.1, fun sid hs => by rw [this.2]; exact hs⟩
  | t3 now =>
    simp only [txStep, Outcome.ok.injEq] at hr
    rw [← hr]
    have := t3Expired_ok t now h
    exact ⟨this.1, fun sid hs => by rw [this.2]; exact hs⟩

/-- Well-formedness of a command list with respect to the INITIAL state (stream counters only grow). -/
def CmdsOk (j : Int) (t : Tx) (cs : List TxCmd) : Prop := ∀ c ∈ cs, CmdOk j t c

theorem CmdOk.mono {j : Int} {t t' : Tx} {c : TxCmd}
    (hm : ∀ sid, (dictGet t.streamSeq sid).isSome → (dictGet t'.streamSeq sid).isSome) (h : CmdOk j t c) :
    CmdOk j t' c := by
  cases c with
  | send sid ppid data expiry maxRtx ordered =>
    rcases h with h | h | h
    · exact Or.inl h
    · exact Or.inr (Or.inl (hm sid h))
    · exact Or.inr (Or.inr h)
  | sack cum gaps now => exact h
  | transmit => trivial
  | t3 now => trivial

/-- **Whole runs of the sender**: the same commands (SACK numbers moved by `k`) from the shifted state emit
the same events — the same DATA chunks with TSNs moved by `k` and ordered SSNs by `j`, the same
FORWARD-TSNs, the same timer starts and stops — and fail the same way if they fail. -/
theorem txRun_shift (k j : Int) (cs : List TxCmd) (t : Tx) (h : TxOk t) (hc : CmdsOk j t cs) :
    txRun (shiftTx k j t) (cs.map (shiftCmd k)) = omap (shiftStepOut k j) (txRun t cs) := by
  induction cs generalizing t with
  | nil => rfl
  | cons c rest ih =>
    have hc0 := hc c (by simp)
    simp only [List.map_cons, txRun, txStep_shift k j t c h hc0]
    cases hs : txStep t c with
    | ok r =>
      obtain ⟨t1, e1⟩ := r
      have hok := txStep_ok t c (t1, e1) h
        (fun cum gaps now he => by subst he; exact hc0) hs
      have hrest : CmdsOk j t1 rest := fun c' hc' => (hc c' (by simp [hc'])).mono hok.2
      simp only [omap_ok, shiftStepOut, ih t1 hok.1 hrest]
      cases txRun t1 rest with
      | ok q => simp [shiftStepOut]
      | valueError => rfl
      | crash s => rfl
      | hang => rfl
    | valueError => rfl
    | crash s => rfl
    | hang => rfl

end Aiortc.C17
