import Aiortc.Lemmas.C17.RecvShift
import Aiortc.Lemmas.C17.TxDefs
import Aiortc.Lemmas.C17.NackShift
import Aiortc.Lemmas.C17.SenderShift
import Aiortc.Lemmas.C17.JitterAdd
import Aiortc.Lemmas.C17.TxRun
import Aiortc.Lemmas.C17.SenderRun
/-!
# C17 part 2 — concrete states at the wrap point (used by the non-vacuity examples of `Props/C17Shift.lean`)
-/
namespace Aiortc.C17
open Aiortc Aiortc.Gen Aiortc.Sctp Aiortc.Props.C17 Aiortc.Model.Video

/-- Receiver whose cumulative TSN is 2^32-2 and whose stream 0 expects SSN 65535. -/
def rWrap : Recv :=
  { rx := { last := 4294967294, mis := [], dups := [] },
    streams := [(0, { reasm := [], seq := 65535 })] }

/-- Reordered arrivals across both wraps; the last message is fragmented. -/
def csWrap : List RChunk :=
  [ { tsn := 0, sid := 0, ssn := 0, ppid := 51, flags := 3, data := [2] },
    { tsn := 4294967295, sid := 0, ssn := 65535, ppid := 51, flags := 3, data := [1] },
    { tsn := 2, sid := 0, ssn := 1, ppid := 51, flags := 1, data := [4] },
    { tsn := 1, sid := 0, ssn := 1, ppid := 51, flags := 2, data := [3] } ]

def mkS (tsn : Int) (ssn : Int) (flags : Nat) : SChunk :=
  { tsn := tsn, sid := 0, ssn := ssn, ppid := 51, flags := flags, data := [7], bookSize := 1,
    sentCount := 1, inFlight := true }

/-- Sender with four chunks in flight across the TSN wrap and a stream counter about to wrap. -/
def tWrap : Tx :=
  { cwnd := 4800, ssthresh := 4800, flight := 4, localTsn := 2, lastSacked := 4294967293,
    advAck := 4294967293,
    sentQ := [mkS 4294967294 65534 3, mkS 4294967295 65535 3, mkS 0 0 3, mkS 1 1 3],
    streamSeq := [(0, 2)], t3 := true }

/-- Sender about to assign TSN 2^32-1 and SSN 65535. -/
def tSend : Tx :=
  { cwnd := 4800, ssthresh := 4800, localTsn := 4294967295, lastSacked := 4294967294,
    advAck := 4294967294, streamSeq := [(0, 65535)] }

def gWrap : NackGen := ⟨some 65533, [65532]⟩

/-- Commands for `tWrap`: a SACK across the wrap, an ordered `_send`, `_transmit`, a T3 expiry. -/
def cmdsW : List TxCmd :=
  [.sack 4294967295 [(2, 2)] 0, .send 0 51 [9, 9] none none true, .transmit, .t3 5]

/-- What an event says about sequence numbers (`-1`: none). -/
def evTag : TxEv → Int × Int
  | TxEv.data c => (c.tsn, c.ssn)
  | TxEv.fwd c _ => (c, -1)
  | TxEv.t3start => (-2, -2)
  | TxEv.t3cancel => (-3, -3)

/-- RTP sender whose next sequence number is 65535 and whose timestamp origin is 2^32 - 2296. -/
def sWrap : Sender := { seq := 65535, rtxSeq := 65535, history := [] }
def cfgW : SenderCfg := { ssrc := 1, rtxSsrc := 2, pt := 96, rtxPt := none, tsOrigin := 4294965000 }

/-- Arrivals at the jitter buffer across the sequence-number wrap; the second frame's timestamp has
wrapped 2^32. -/
def psWrap : List Aiortc.Model.Jitter.Packet :=
  [⟨65534, 4294966296, [1]⟩, ⟨65535, 4294966296, [2]⟩, ⟨0, 1000, [3]⟩, ⟨1, 1000, [4]⟩, ⟨2, 4000, [5]⟩]

/-- `cfgW` with RTX negotiated (payload type 97). -/
def cfgRtx : SenderCfg := { cfgW with rtxPt := some 97 }

/-- A history of `sWrap`: three packets (65535, 0, 1), a NACK, one frame of 127 packets (2 … 128), then NACKs for
the packets 127, 128 and 129 positions before the newest one (sequence numbers 1, 0, 65535). -/
def opsWrap : List SOp :=
  [.frame 3000 [[1], [2], [3]], .nack [65535, 0, 7], .frame 6000 (List.replicate 127 [7]),
   .nack [1], .nack [0], .nack [65535]]

end Aiortc.C17
