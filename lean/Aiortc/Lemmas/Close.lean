import Aiortc.Model.Close
/-! Helper lemmas for C19: the termination measure of the close protocol and the invariant it needs
(once the close latch is set no `__connect` task can start anything). -/
namespace Aiortc.Lemmas.Close
open Aiortc.Model.Close

/-! ## sums over lists with one updated element -/

def sumBy {α} (f : α → Nat) (l : List α) : Nat := (l.map f).sum

theorem sumBy_set {α} (f : α → Nat) (l : List α) (i : Nat) (a b : α) (h : l[i]? = some a) :
    sumBy f (l.set i b) + f a = sumBy f l + f b := by
  induction l generalizing i with
  | nil => simp at h
  | cons x xs ih =>
    cases i with
    | zero =>
      simp at h; subst h
      simp [sumBy]; omega
    | succ n =>
      simp at h
      have := ih n h
      simp [sumBy] at this ⊢; omega

theorem sumBy_set_lt {α} (f : α → Nat) (l : List α) (i : Nat) (a b : α) (h : l[i]? = some a) (hlt : f b < f a) :
    sumBy f (l.set i b) < sumBy f l := by
  have := sumBy_set f l i a b h; omega

theorem sumBy_set_le {α} (f : α → Nat) (l : List α) (i : Nat) (a b : α) (h : l[i]? = some a) (hle : f b ≤ f a) :
    sumBy f (l.set i b) ≤ sumBy f l := by
  have := sumBy_set f l i a b h; omega

theorem sumBy_append {α} (f : α → Nat) (l m : List α) : sumBy f (l ++ m) = sumBy f l + sumBy f m := by
  simp [sumBy]

/-! ## the measure -/

def autoRank : APc → Nat
  | .queued => 2 | _ => 0
def doneRank : Bool → Nat
  | true => 0 | false => 1

/-- steps a transceiver's tasks, decoder thread and running `stop()` calls still have to take -/
def trxW (t : Trx) : Nat := t.rank + (3 - t.rcvStop) + (3 - t.sndStop)
def tptW (t : Tpt) : Nat := t.rank + (3 - t.dtlsStop) + (3 - t.iceStop) + (4 - t.nstop)
def sctpW : Option Sctp → Nat
  | some sc => 3 - sc.stop | none => 0

/-- what is left to do: the rest of the close program (4 per `stop()` call, minus the progress inside the running one), its
final step, and one unit per step every task / thread still has to take -/
def mu (s : State) : Nat :=
  4 * s.prog.length + doneRank s.closeDone + sumBy trxW s.trxs + sumBy tptW s.tpts + sctpW s.sctp
    + sumBy Conn.rank s.conns + s.waiters + autoRank s.auto

/-! ## invariant D: after the latch every `__connect` task is cancelled or finished -/

def ConnsStopped (s : State) : Prop := s.closed = true → ∀ c ∈ s.conns, c.cancelReq = true ∨ c.pc = .done

theorem liveConn_false {s : State} (h : ConnsStopped s) (hc : s.closed = true) : s.liveConn = false := by
  unfold State.liveConn
  rw [List.any_eq_false]
  intro c hmem
  rcases h hc c hmem with h1 | h1 <;> simp [Conn.live, h1]

/-! ## local steps never raise a rank; task steps lower it -/

theorem run_first_rank {r r' : Run} (h : r.first = some r') : r'.rank < r.rank := by
  unfold Run.first at h
  split at h
  · rename_i hq
    injection h with h; subst h
    split <;> simp [Run.rank, hq]
  · simp at h

theorem run_exit_rank {r r' : Run} (h : r.exit = some r') : r'.rank < r.rank := by
  unfold Run.exit at h
  split at h
  · rename_i hq
    injection h with h; subst h
    simp [Run.rank, hq]
  · simp at h

theorem run_cancel_rank (r : Run) : r.cancel.rank = r.rank := by
  unfold Run.cancel; split <;> simp [Run.rank]

theorem trx_set_rank (t : Trx) (w : Which) (r : Run) (h : r.rank < (t.get w).rank) : (t.set w r).rank < t.rank := by
  cases w <;> simp [Trx.set, Trx.get, Trx.rank] at * <;> omega

/-- with no live `__connect` task a transceiver step is a task step that lowers the rank, or an input -/
theorem trxStep_rank {t t' : Trx} {a : TrxAct} (h : trxStep false t a = some t') :
    (match a with | .mkTrack | .assign _ | .cancel _ => t'.rank = t.rank | _ => t'.rank < t.rank) := by
  cases a with
  | sndStart => simp [trxStep] at h
  | rcvStart => simp [trxStep] at h
  | first w =>
    simp only [trxStep, Option.map_eq_some_iff] at h
    obtain ⟨r, hr, rfl⟩ := h
    exact trx_set_rank t w r (run_first_rank hr)
  | exit w =>
    simp only [trxStep, Option.map_eq_some_iff] at h
    obtain ⟨r, hr, rfl⟩ := h
    exact trx_set_rank t w r (run_exit_rank hr)
  | decoderStop =>
    simp only [trxStep] at h
    split at h
    · rename_i hd
      injection h with h; subst h
      simp [Trx.rank, Thr.rank, hd]
    · simp at h
  | mkTrack => simp [trxStep] at h; subst h; simp [Trx.rank]
  | assign k =>
    simp only [trxStep] at h
    split at h
    · injection h with h; subst h; simp [Trx.rank]
    · simp at h
  | cancel w =>
    simp only [trxStep] at h
    split at h
    · injection h with h; subst h
      cases w <;> simp [Trx.set, Trx.get, Trx.rank, run_cancel_rank]
    · simp at h

theorem tptStep_rank {t t' : Tpt} {a : TptAct} (h : tptStep false t a = some t') :
    (match a with | .nstep => t'.rank = t.rank | _ => t'.rank < t.rank) := by
  cases a with
  | iceStart => simp [tptStep] at h
  | iceDone ok => simp [tptStep] at h
  | dtlsStart => simp [tptStep] at h
  | dtlsUp => simp [tptStep] at h
  | dtlsFail => simp [tptStep] at h
  | pumpExit =>
    simp only [tptStep] at h
    split at h
    · rename_i hp
      injection h with h; subst h
      simp [Tpt.rank, PPc.rank, MPc.rank, hp]
    · simp at h
  | monFirst =>
    simp only [tptStep] at h
    split at h
    · rename_i hp
      injection h with h; subst h
      simp [Tpt.rank, PPc.rank, MPc.rank, hp]
    · simp at h
  | monExit =>
    simp only [tptStep] at h
    split at h
    · rename_i hp
      injection h with h; subst h
      simp at hp
      simp [Tpt.rank, PPc.rank, MPc.rank, hp.1]
    · simp at h
  | nstep =>
    simp only [tptStep] at h
    repeat' split at h
    all_goals (try (simp at h; done))
    all_goals (injection h with h; subst h; simp [Tpt.rank])

theorem trxStep_stops {live : Bool} {t t' : Trx} {a : TrxAct} (h : trxStep live t a = some t') :
    t'.rcvStop = t.rcvStop ∧ t'.sndStop = t.sndStop := by
  cases a with
  | first w | exit w =>
    simp only [trxStep, Option.map_eq_some_iff] at h
    obtain ⟨r, -, rfl⟩ := h
    cases w <;> simp [Trx.set]
  | cancel w =>
    simp only [trxStep] at h
    split at h
    · injection h with h; subst h; cases w <;> simp [Trx.set]
    · simp at h
  | sndStart | rcvStart | decoderStop | mkTrack | assign k =>
    simp only [trxStep] at h
    first
      | (split at h
         · injection h with h; subst h; simp
         · simp at h)
      | (injection h with h; subst h; simp)

theorem tptStep_stops {live : Bool} {t t' : Tpt} {a : TptAct} (h : tptStep live t a = some t') :
    t'.dtlsStop = t.dtlsStop ∧ t'.iceStop = t.iceStop := by
  cases a <;> simp only [tptStep] at h <;> (repeat' split at h) <;> (try (simp at h; done)) <;>
    (injection h with h; subst h; simp)

/-- the clean-up position only moves through `nstep`, one at a time, up to 4 -/
theorem tptStep_nstop {live : Bool} {t t' : Tpt} {a : TptAct} (h : tptStep live t a = some t') :
    (match a with | .nstep => t'.nstop = t.nstop + 1 ∧ t'.nstop ≤ 4 | _ => t'.nstop = t.nstop) := by
  cases a <;> simp only [tptStep] at h <;> (repeat' split at h) <;> (try (simp at h; done)) <;>
    (injection h with h; subst h; simp_all)

theorem trxStep_W {t t' : Trx} {a : TrxAct} (h : trxStep false t a = some t') :
    (match a with | .mkTrack | .assign _ | .cancel _ => trxW t' = trxW t | _ => trxW t' < trxW t) := by
  have hs := trxStep_stops h
  have hr := trxStep_rank h
  cases a <;> simp only [trxW, hs.1, hs.2] <;> simp only at hr <;> omega

/-- with no live `__connect` task every transport step is a task step that lowers the weight -/
theorem tptStep_W {t t' : Tpt} {a : TptAct} (h : tptStep false t a = some t') : tptW t' < tptW t := by
  have hs := tptStep_stops h
  have hr := tptStep_rank h
  have hn := tptStep_nstop h
  cases a <;> simp only [tptW, hs.1, hs.2] <;> simp only at hr hn <;> omega

theorem tail_len (l : List Instr) (h : l ≠ []) : l.tail.length + 1 = l.length := by
  cases l with
  | nil => exact absurd rfl h
  | cons a rest => simp

theorem sumBy_ge {α} (f : α → Nat) (l : List α) (i : Nat) (a : α) (h : l[i]? = some a) : f a ≤ sumBy f l := by
  induction l generalizing i with
  | nil => simp at h
  | cons x xs ih =>
    cases i with
    | zero => simp at h; subst h; simp [sumBy]
    | succ n => simp at h; have := ih n h; simp [sumBy] at this ⊢; omega

theorem sumBy_set_eq {α} (f : α → Nat) (l : List α) (i : Nat) (a b : α) (h : l[i]? = some a) :
    sumBy f (l.set i b) = sumBy f l - f a + f b := by
  have := sumBy_set f l i a b h
  have := sumBy_ge f l i a h
  omega

theorem mu_setTrx_lt {s : State} {i : Nat} {t t' : Trx} (ht : s.trxs[i]? = some t) (h : trxW t' < trxW t) :
    mu (s.setTrx i t') < mu s := by
  have := sumBy_set trxW s.trxs i t t' ht
  simp only [mu, State.setTrx]; omega

theorem mu_setTrx_pop_lt {s : State} {i : Nat} {t t' : Trx} (ht : s.trxs[i]? = some t) (hne : s.prog ≠ [])
    (h : trxW t' < trxW t + 4) : mu ((s.setTrx i t').pop) < mu s := by
  have := sumBy_set trxW s.trxs i t t' ht
  have := tail_len s.prog hne
  simp only [mu, State.setTrx, State.pop]; omega

theorem mu_setTpt_lt {s : State} {k : Nat} {t t' : Tpt} (ht : s.tpts[k]? = some t) (h : tptW t' < tptW t) :
    mu (s.setTpt k t') < mu s := by
  have := sumBy_set tptW s.tpts k t t' ht
  simp only [mu, State.setTpt]; omega

theorem mu_setTpt_pop_lt {s : State} {k : Nat} {t t' : Tpt} (ht : s.tpts[k]? = some t) (hne : s.prog ≠ [])
    (h : tptW t' < tptW t + 4) : mu ((s.setTpt k t').pop) < mu s := by
  have := sumBy_set tptW s.tpts k t t' ht
  have := tail_len s.prog hne
  simp only [mu, State.setTpt, State.pop]; omega

theorem closeNext_mu {s s' : State} {l : CLabel} (h : s.closeNext = some (l, s')) : mu s' < mu s := by
  unfold State.closeNext at h
  split at h
  · simp at h
  split at h
  · -- [] : the final step
    split at h
    · rename_i hg
      simp at hg
      simp only [Option.some.injEq, Prod.mk.injEq] at h; obtain ⟨-, rfl⟩ := h
      simp [mu, doneRank, hg.2]
    · simp at h
  all_goals rename_i hprog
  all_goals have hne : s.prog ≠ [] := by simp [hprog]
  · -- stopRcv
    split at h
    · simp at h
    rename_i t ht
    repeat' split at h
    all_goals (try (simp at h; done))
    all_goals (simp only [Option.some.injEq, Prod.mk.injEq] at h; obtain ⟨-, rfl⟩ := h)
    all_goals (have hge := sumBy_ge trxW s.trxs _ t ht)
    all_goals (have hpw := tail_len s.prog hne)
    all_goals (simp only [mu, State.setTrx, State.pop, sumBy_set_eq trxW _ _ _ _ ht])
    all_goals (simp [trxW, Trx.rank, Thr.rank, run_cancel_rank, *] at hge ⊢)
    all_goals omega
  · -- stopSnd
    split at h
    · simp at h
    rename_i t ht
    repeat' split at h
    all_goals (try (simp at h; done))
    all_goals (simp only [Option.some.injEq, Prod.mk.injEq] at h; obtain ⟨-, rfl⟩ := h)
    all_goals (have hge := sumBy_ge trxW s.trxs _ t ht)
    all_goals (have hpw := tail_len s.prog hne)
    all_goals (simp only [mu, State.setTrx, State.pop, sumBy_set_eq trxW _ _ _ _ ht])
    all_goals (simp [trxW, Trx.rank, Thr.rank, run_cancel_rank, *] at hge ⊢)
    all_goals omega
  · -- stopSctp
    have := tail_len s.prog hne
    repeat' split at h
    all_goals (try (simp at h; done))
    all_goals (simp only [Option.some.injEq, Prod.mk.injEq] at h; obtain ⟨-, rfl⟩ := h)
    all_goals (simp [mu, State.pop, sctpW, *])
    all_goals omega
  · -- stopDtls
    split at h
    · simp at h
    rename_i t ht
    repeat' split at h
    all_goals (try (simp at h; done))
    all_goals (simp only [Option.some.injEq, Prod.mk.injEq] at h; obtain ⟨-, rfl⟩ := h)
    all_goals (have hge := sumBy_ge tptW s.tpts _ t ht)
    all_goals (have hpw := tail_len s.prog hne)
    all_goals (simp only [mu, State.setTpt, State.pop, sumBy_set_eq tptW _ _ _ _ ht])
    all_goals (simp [tptW, Tpt.rank, *] at hge ⊢)
    all_goals omega
  · -- stopIce
    split at h
    · simp at h
    rename_i t ht
    repeat' split at h
    all_goals (try (simp at h; done))
    all_goals (simp only [Option.some.injEq, Prod.mk.injEq] at h; obtain ⟨-, rfl⟩ := h)
    all_goals (have hge := sumBy_ge tptW s.tpts _ t ht)
    all_goals (have hpw := tail_len s.prog hne)
    all_goals (simp only [mu, State.setTpt, State.pop, sumBy_set_eq tptW _ _ _ _ ht])
    all_goals (simp [tptW, Tpt.rank, *] at hge ⊢)
    all_goals omega

theorem autoTrigger_closed {s : State} (hc : s.closed = true) : s.autoTrigger = s := by
  simp [State.autoTrigger, hc]

/-- **every step of a task, thread or coroutine of a closed connection lowers the measure** -/
theorem step_mu {s s' : State} {a : Action} (hD : ConnsStopped s) (hc : s.closed = true)
    (hk : a.kind = .task) (h : s.step a = some s') : mu s' < mu s := by
  have hlive := liveConn_false hD hc
  cases a with
  | closeCall byAuto =>
    cases byAuto with
    | false => simp [Action.kind] at hk
    | true =>
      simp only [State.step] at h
      split at h
      · simp at h
      · rename_i hq
        simp at hq
        simp [hc] at h; subst h
        simp [mu, autoRank, hq]; omega
  | trx i a =>
    cases a with
    | mkTrack => simp [Action.kind] at hk
    | assign k => simp [Action.kind] at hk
    | cancel w => simp [Action.kind] at hk
    | sndStart | rcvStart | first w | exit w | decoderStop =>
      simp only [State.step] at h
      split at h
      · rename_i t ht
        simp only [hlive, Option.map_eq_some_iff] at h
        obtain ⟨t', ht', rfl⟩ := h
        exact mu_setTrx_lt ht (trxStep_W ht')
      · simp at h
  | tpt k a =>
    cases a with
    | nstep =>
      simp only [State.step] at h
      split at h
      · rename_i t ht
        split at h
        · simp only [hlive, Option.map_eq_some_iff] at h
          obtain ⟨t', ht', rfl⟩ := h
          have := mu_setTpt_lt ht (tptStep_W ht')
          have hm : mu ((s.setTpt k t').syncSet k t') = mu (s.setTpt k t') := by
            unfold State.syncSet; split <;> rfl
          rw [hm]; exact this
        · simp at h
      · simp at h
    | pumpExit =>
      simp only [State.step] at h
      split at h
      · rename_i t ht
        simp only [hlive, Option.map_eq_some_iff] at h
        obtain ⟨t', ht', rfl⟩ := h
        rw [autoTrigger_closed (by simpa [State.setTpt] using hc)]
        exact mu_setTpt_lt ht (tptStep_W ht')
      · simp at h
    | iceStart | dtlsStart =>
      simp only [State.step] at h
      split at h
      · rename_i t ht
        split at h
        · simp only [hlive, Option.map_eq_some_iff] at h
          obtain ⟨t', ht', rfl⟩ := h
          exact mu_setTpt_lt ht (tptStep_W ht')
        · simp at h
      · simp at h
    | iceDone ok | dtlsUp | dtlsFail | monFirst | monExit =>
      simp only [State.step] at h
      split at h
      · rename_i t ht
        simp only [hlive, Option.map_eq_some_iff] at h
        obtain ⟨t', ht', rfl⟩ := h
        exact mu_setTpt_lt ht (tptStep_W ht')
      · simp at h
  | connFirst c =>
    simp only [State.step] at h
    split at h
    · rename_i cn hcn
      split at h
      · rename_i hg
        simp at hg
        rcases hD hc cn (List.mem_of_getElem? hcn) with h1 | h1 <;> simp [h1] at hg
      · simp at h
    · simp at h
  | connExit c =>
    simp only [State.step] at h
    split at h
    · rename_i cn hcn
      split at h
      · rename_i hg
        injection h with h; subst h
        have := sumBy_set_lt Conn.rank s.conns c cn { pc := .done, cancelReq := false } hcn (by simp [Conn.rank, hg])
        simp only [mu]; omega
      · simp at h
    · simp at h
  | sctpStart =>
    simp only [State.step, hlive] at h
    split at h <;> simp at h
  | close l =>
    simp only [State.step] at h
    split at h
    · rename_i l' s'' hn
      split at h
      · injection h with h; subst h
        exact closeNext_mu hn
      · simp at h
    · simp at h
  | waiterReturn =>
    simp only [State.step] at h
    split at h
    · rename_i hg
      injection h with h; subst h
      simp at hg
      simp [mu]; omega
    · simp at h
  | negBegin | negSpawn | negEnd | addTpt | addTrx k | addSctp k | assignSctp k | chanNew | chanEv j c | emit
    | obsCancelConn c | obsAutoSpawn => simp [Action.kind] at hk

end Aiortc.Lemmas.Close
