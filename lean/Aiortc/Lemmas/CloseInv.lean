import Aiortc.Lemmas.Close
/-! Invariants of the close protocol (C19): well-formedness of every transceiver / transport record (local), structure of
the close program, coverage (whatever is still alive has its `stop()` call ahead in the program), references. -/
namespace Aiortc.Lemmas.Close
open Aiortc.Model.Close

/-! ## lists -/

theorem forall_set {α} {P : Nat → α → Prop} {l : List α} {i : Nat} {x : α}
    (h : ∀ j a, l[j]? = some a → P j a) (hx : P i x) : ∀ j a, (l.set i x)[j]? = some a → P j a := by
  intro j a hj
  rw [List.getElem?_set] at hj
  split at hj
  · rename_i hij
    subst hij
    split at hj
    · injection hj with hj; subst hj; exact hx
    · simp at hj
  · exact h j a hj

theorem forall_append {α} {P : Nat → α → Prop} {l : List α} {x : α}
    (h : ∀ j a, l[j]? = some a → P j a) (hx : P l.length x) : ∀ j a, (l ++ [x])[j]? = some a → P j a := by
  intro j a hj
  rw [List.getElem?_append] at hj
  split at hj
  · exact h j a hj
  · rename_i hlt
    have : j - l.length = 0 := by
      cases hjl : j - l.length with
      | zero => rfl
      | succ n => rw [hjl] at hj; simp at hj
    have hj' : j = l.length := by omega
    rw [this] at hj; simp at hj; subst hj; subst hj'; exact hx

/-! ## local well-formedness -/

def WfRun (r : Run) : Prop := (r.cancelReq = true → r.pc = .loop) ∧ r.pc ≠ .dead

def WfTrx (t : Trx) : Prop :=
  WfRun t.rtp ∧ WfRun t.srtcp ∧ WfRun t.rrtcp
  ∧ (t.sndStarted = false → t.rtp.pc = .none ∧ t.srtcp.pc = .none)
  ∧ (t.sndStarted = true → t.rtp.pc ≠ .none ∧ t.srtcp.pc ≠ .none)
  ∧ (t.rcvStarted = false → t.rrtcp.pc = .none ∧ t.decoder = .none)
  ∧ (t.rcvStarted = true → t.rrtcp.pc ≠ .none ∧ t.decoder ≠ .none ∧ t.hasTrack = true)
  ∧ (t.decoder = .exited → t.trackEnd = true)
  ∧ (1 ≤ t.rcvStop → t.decoder ≠ .running ∧ (t.hasTrack = true → t.trackEnd = true))
  ∧ (t.rcvStop = 1 → t.rcvStarted = true)
  ∧ (t.rcvStop = 2 → t.rrtcp.doomed = true)
  ∧ (t.sndStop = 1 → t.sndStarted = true)
  ∧ (t.sndStop = 2 → t.rtp.doomed = true ∧ t.srtcp.pc ≠ .none ∧ t.srtcp.pc ≠ .queued)
  ∧ (t.sndStop = 3 → t.rtp.doomed = true ∧ t.srtcp.doomed = true)
  ∧ t.rcvStop ≤ 2 ∧ t.sndStop ≤ 3

def WfTpt (t : Tpt) : Prop :=
  (t.pump = .live → t.pumpCancel = false → t.pumpHandle = true)
  ∧ (t.dtlsStop = 2 → t.pump ≠ .live ∨ t.pumpCancel = true)
  ∧ (t.iceStop = 2 → t.monQuiet = true ∨ t.connClosed = true)
  ∧ (t.ice = .closed → t.monQuiet = true ∨ t.connClosed = true ∨ t.iceStop = 1)
  ∧ (t.monQuiet = false → t.ice ≠ .new)
  ∧ t.dtlsStop ≤ 2 ∧ t.iceStop ≤ 2

theorem wfTrx_init (k : Nat) : WfTrx { tpt := k } := by
  simp [WfTrx, WfRun, Run.doomed]

theorem wfTpt_init : WfTpt {} := by
  simp [WfTpt, Tpt.monQuiet]

theorem wfRun_first {r r' : Run} (h : r.first = some r') (hw : WfRun r) : WfRun r' ∧ r'.pc = .loop ∧ r.pc = .queued := by
  unfold Run.first at h
  split at h
  · rename_i hq
    have hc : r.cancelReq = false := by
      cases hcr : r.cancelReq with
      | false => rfl
      | true => have := hw.1 hcr; simp [hq] at this
    simp [hc] at h; subst h
    simp [WfRun, hq]
  · simp at h

theorem wfRun_exit {r r' : Run} (h : r.exit = some r') : WfRun r' ∧ r'.pc = .exited ∧ r.pc = .loop := by
  unfold Run.exit at h
  split at h
  · rename_i hq
    injection h with h; subst h
    simp [WfRun, hq]
  · simp at h

theorem wfRun_cancel {r : Run} (hw : WfRun r) (hs : r.started = true) : WfRun r.cancel ∧ r.cancel.doomed = true
    ∧ r.cancel.pc = r.pc := by
  unfold Run.started at hs
  unfold Run.cancel
  have hnc : r.pc ≠ .loop → r.cancelReq = false := by
    intro hne
    cases hcr : r.cancelReq with
    | false => rfl
    | true => exact absurd (hw.1 hcr) hne
  cases hp : r.pc <;> simp [hp] at hs
  · simp [WfRun, Run.doomed, Run.quiet, hp]
  · have := hnc (by simp [hp])
    simp [WfRun, Run.doomed, Run.quiet, hp, this]

def rcvDone (t : Trx) : Prop := t.rrtcp.quiet = true ∧ t.decoder ≠ .running ∧ (t.hasTrack = true → t.trackEnd = true)

theorem doomed_of_first {r r' : Run} (h : r.first = some r') (hd : r.doomed = true) : False := by
  unfold Run.first at h
  split at h
  · rename_i hq; simp [Run.doomed, Run.quiet, hq] at hd
  · simp at h

theorem doomed_exit {r r' : Run} (h : r.exit = some r') : r'.doomed = true ∧ r'.quiet = true := by
  have := wfRun_exit h
  simp [Run.doomed, Run.quiet, this.2.1]

/-- a transceiver step keeps the record well-formed (starting anything needs a live `__connect` task, which exists only
while no `stop()` is running) -/
theorem trxStep_wf {live : Bool} {t t' : Trx} {a : TrxAct} (hw : WfTrx t) (h : trxStep live t a = some t')
    (hz : live = true ∨ a = .mkTrack → t.rcvStop = 0 ∧ t.sndStop = 0) : WfTrx t' := by
  obtain ⟨w1, w2, w3, w4, w5, w6, w7, w8, w9, w10, w11, w12, w13, w14, w15, w16⟩ := hw
  cases a with
  | sndStart =>
    simp only [trxStep] at h
    split at h
    · rename_i hg
      simp at hg
      have hz' := hz (Or.inl hg.1.1.1)
      injection h with h; subst h
      refine ⟨by simp [WfRun], by simp [WfRun], w3, by simp, by simp, w6, w7, w8, w9, w10, w11, by simp, ?_, ?_, w15, w16⟩
      · intro hs; simp [hz'.2] at hs
      · intro hs; simp [hz'.2] at hs
    · simp at h
  | rcvStart =>
    simp only [trxStep] at h
    split at h
    · rename_i hg
      simp at hg
      have hz' := hz (Or.inl hg.1.1.1.1)
      injection h with h; subst h
      refine ⟨w1, w2, by simp [WfRun], w4, w5, by simp, by simp [hg.1.1.2], by simp, ?_, by simp, ?_, w12, w13, w14, w15, w16⟩
      · intro hs; simp [hz'.1] at hs
      · intro hs; simp [hz'.1] at hs
    · simp at h
  | first w =>
    simp only [trxStep, Option.map_eq_some_iff] at h
    obtain ⟨r, hr, rfl⟩ := h
    cases w with
    | rtp =>
      obtain ⟨hwr, hl, hq⟩ := wfRun_first hr w1
      simp only [Trx.get] at hr hq
      refine ⟨hwr, w2, w3, ?_, ?_, w6, w7, w8, w9, w10, w11, w12, ?_, ?_, w15, w16⟩
      · intro hs; have := (w4 hs).1; simp [hq] at this
      · intro hs; simp [Trx.set, hl]; exact (w5 hs).2
      · intro hs; exact absurd (w13 hs).1 (fun hd => doomed_of_first hr hd)
      · intro hs; exact absurd (w14 hs).1 (fun hd => doomed_of_first hr hd)
    | srtcp =>
      obtain ⟨hwr, hl, hq⟩ := wfRun_first hr w2
      simp only [Trx.get] at hr hq
      refine ⟨w1, hwr, w3, ?_, ?_, w6, w7, w8, w9, w10, w11, w12, ?_, ?_, w15, w16⟩
      · intro hs; have := (w4 hs).2; simp [hq] at this
      · intro hs; simp [Trx.set, hl]; exact (w5 hs).1
      · intro hs; exact absurd hq (w13 hs).2.2
      · intro hs; exact absurd (w14 hs).2 (fun hd => doomed_of_first hr hd)
    | rrtcp =>
      obtain ⟨hwr, hl, hq⟩ := wfRun_first hr w3
      simp only [Trx.get] at hr hq
      refine ⟨w1, w2, hwr, w4, w5, ?_, ?_, w8, w9, w10, ?_, w12, w13, w14, w15, w16⟩
      · intro hs; have := (w6 hs).1; simp [hq] at this
      · intro hs; simp [Trx.set, hl]; exact (w7 hs).2
      · intro hs; exact absurd (w11 hs) (fun hd => doomed_of_first hr hd)
  | exit w =>
    simp only [trxStep, Option.map_eq_some_iff] at h
    obtain ⟨r, hr, rfl⟩ := h
    cases w with
    | rtp =>
      obtain ⟨hwr, hl, hq⟩ := wfRun_exit hr
      have hd := doomed_exit hr
      simp only [Trx.get] at hr hq
      refine ⟨hwr, w2, w3, ?_, ?_, w6, w7, w8, w9, w10, w11, w12, ?_, ?_, w15, w16⟩
      · intro hs; have := (w4 hs).1; simp [hq] at this
      · intro hs; simp [Trx.set, hl]; exact (w5 hs).2
      · intro hs; exact ⟨hd.1, (w13 hs).2⟩
      · intro hs; exact ⟨hd.1, (w14 hs).2⟩
    | srtcp =>
      obtain ⟨hwr, hl, hq⟩ := wfRun_exit hr
      have hd := doomed_exit hr
      simp only [Trx.get] at hr hq
      refine ⟨w1, hwr, w3, ?_, ?_, w6, w7, w8, w9, w10, w11, w12, ?_, ?_, w15, w16⟩
      · intro hs; have := (w4 hs).2; simp [hq] at this
      · intro hs; simp [Trx.set, hl]; exact (w5 hs).1
      · intro hs; simp [Trx.set, hl]; exact (w13 hs).1
      · intro hs; exact ⟨(w14 hs).1, hd.1⟩
    | rrtcp =>
      obtain ⟨hwr, hl, hq⟩ := wfRun_exit hr
      have hd := doomed_exit hr
      simp only [Trx.get] at hr hq
      refine ⟨w1, w2, hwr, w4, w5, ?_, ?_, w8, w9, w10, ?_, w12, w13, w14, w15, w16⟩
      · intro hs; have := (w6 hs).1; simp [hq] at this
      · intro hs; simp [Trx.set, hl]; exact (w7 hs).2
      · intro _; exact hd.1
  | decoderStop =>
    simp only [trxStep] at h
    split at h
    · rename_i hg
      injection h with h; subst h
      refine ⟨w1, w2, w3, w4, w5, ?_, ?_, ?_, ?_, w10, w11, w12, w13, w14, w15, w16⟩
      · intro hs; have := (w6 hs).2; simp [hg] at this
      · intro hs; exact ⟨(w7 hs).1, by simp, (w7 hs).2.2⟩
      · intro _; rfl
      · intro hs; exact ⟨by simp, fun _ => rfl⟩
    · simp at h
  | mkTrack =>
    simp only [trxStep] at h
    injection h with h; subst h
    have hz' := hz (Or.inr rfl)
    refine ⟨w1, w2, w3, w4, w5, w6, ?_, w8, ?_, w10, w11, w12, w13, w14, w15, w16⟩
    · intro hs; exact ⟨(w7 hs).1, (w7 hs).2.1, rfl⟩
    · intro hs; simp [hz'.1] at hs
  | assign k =>
    simp only [trxStep] at h
    split at h
    · injection h with h; subst h
      exact ⟨w1, w2, w3, w4, w5, w6, w7, w8, w9, w10, w11, w12, w13, w14, w15, w16⟩
    · simp at h
  | cancel w =>
    simp only [trxStep] at h
    split at h
    · rename_i hs
      injection h with h; subst h
      cases w with
      | rtp =>
        simp only [Trx.get] at hs
        obtain ⟨c1, c2, c3⟩ := wfRun_cancel w1 hs
        refine ⟨c1, w2, w3, ?_, ?_, w6, w7, w8, w9, w10, w11, w12, ?_, ?_, w15, w16⟩
        · intro h'; simpa [Trx.set, Trx.get, c3] using w4 h'
        · intro h'; simpa [Trx.set, Trx.get, c3] using w5 h'
        · intro h'; exact ⟨c2, (w13 h').2⟩
        · intro h'; exact ⟨c2, (w14 h').2⟩
      | srtcp =>
        simp only [Trx.get] at hs
        obtain ⟨c1, c2, c3⟩ := wfRun_cancel w2 hs
        refine ⟨w1, c1, w3, ?_, ?_, w6, w7, w8, w9, w10, w11, w12, ?_, ?_, w15, w16⟩
        · intro h'; simpa [Trx.set, Trx.get, c3] using w4 h'
        · intro h'; simpa [Trx.set, Trx.get, c3] using w5 h'
        · intro h'; simpa [Trx.set, Trx.get, c3] using w13 h'
        · intro h'; exact ⟨(w14 h').1, c2⟩
      | rrtcp =>
        simp only [Trx.get] at hs
        obtain ⟨c1, c2, c3⟩ := wfRun_cancel w3 hs
        refine ⟨w1, w2, c1, w4, w5, ?_, ?_, w8, w9, w10, ?_, w12, w13, w14, w15, w16⟩
        · intro h'; simpa [Trx.set, Trx.get, c3] using w6 h'
        · intro h'; simpa [Trx.set, Trx.get, c3] using w7 h'
        · intro _; exact c2
    · simp at h

theorem tptStep_wf {live : Bool} {t t' : Tpt} {a : TptAct} (hw : WfTpt t) (h : tptStep live t a = some t')
    (hz : live = true → t.dtlsStop = 0 ∧ t.iceStop = 0) : WfTpt t' := by
  obtain ⟨w1, w2, w3, w4, w5, w6, w7⟩ := hw
  cases a with
  | iceStart =>
    simp only [tptStep] at h
    split at h
    · rename_i hg
      simp at hg
      have hz' := hz hg.1.1
      injection h with h; subst h
      refine ⟨w1, w2, ?_, by simp, by simp, w6, w7⟩
      intro hs; simp [hz'.2] at hs
    · simp at h
  | iceDone ok =>
    simp only [tptStep] at h
    split at h
    · rename_i hg
      injection h with h; subst h
      refine ⟨w1, w2, w3, ?_, ?_, w6, w7⟩
      · cases ok <;> simp
      · cases ok <;> simp
    · simp at h
  | dtlsStart =>
    simp only [tptStep] at h
    split at h
    · injection h with h; subst h
      exact ⟨w1, w2, w3, w4, w5, w6, w7⟩
    · simp at h
  | dtlsUp =>
    simp only [tptStep] at h
    split at h
    · rename_i hg
      simp at hg
      have hz' := hz hg.1.1
      injection h with h; subst h
      refine ⟨by simp, ?_, w3, w4, w5, w6, w7⟩
      intro hs; simp [hz'.1] at hs
    · simp at h
  | dtlsFail =>
    simp only [tptStep] at h
    split at h
    · injection h with h; subst h
      exact ⟨w1, w2, w3, w4, w5, w6, w7⟩
    · simp at h
  | pumpExit =>
    simp only [tptStep] at h
    split at h
    · injection h with h; subst h
      exact ⟨by simp, by simp, w3, w4, w5, w6, w7⟩
    · simp at h
  | monFirst =>
    simp only [tptStep] at h
    split at h
    · rename_i hg
      injection h with h; subst h
      have hq : t.monQuiet = false := by simp [Tpt.monQuiet, hg]
      refine ⟨w1, w2, ?_, ?_, ?_, w6, w7⟩
      · intro hs; rcases w3 hs with h1 | h1
        · simp [hq] at h1
        · exact Or.inr h1
      · intro hs; rcases w4 hs with h1 | h1 | h1
        · simp [hq] at h1
        · exact Or.inr (Or.inl h1)
        · exact Or.inr (Or.inr h1)
      · intro _; exact w5 hq
    · simp at h
  | monExit =>
    simp only [tptStep] at h
    split at h
    · injection h with h; subst h
      exact ⟨w1, w2, by simp [Tpt.monQuiet], by simp [Tpt.monQuiet], by simp [Tpt.monQuiet], w6, w7⟩
    · simp at h
  | nstep =>
    simp only [tptStep] at h
    split at h
    · rename_i hg
      simp [Tpt.unstarted] at hg
      have hmq : ∀ (x : Tpt), x.monitor = t.monitor → x.monQuiet = true := by
        intro x hx; simp [Tpt.monQuiet, hx, hg.1.2]
      repeat' split at h
      all_goals (try (simp at h; done))
      all_goals (injection h with h; subst h)
      all_goals exact ⟨w1, w2, fun _ => Or.inl (hmq _ rfl), fun _ => Or.inl (hmq _ rfl),
        fun hq => by simp [Tpt.monQuiet, hg.1.2] at hq, w6, w7⟩
    · simp at h

/-! ## the global invariant -/

/-- the BUNDLE clean-up position of a transport agrees with what has been done to it; a `stop()` that got past its first
step has set the ICE state to closed -/
def WfN (t : Tpt) : Prop :=
  t.nstop ≤ 4 ∧ (2 ≤ t.nstop → t.ice = .closed) ∧ (3 ≤ t.nstop → t.connClosed = true) ∧ (t.inSet = false ↔ t.nstop = 4)
  ∧ (1 ≤ t.nstop → t.unstarted = true) ∧ (1 ≤ t.iceStop → t.ice = .closed)

theorem wfN_init : WfN {} := by simp [WfN, Tpt.unstarted]

theorem refd_setTrx_same {s : State} {i : Nat} {t t' : Trx} (ht : s.trxs[i]? = some t) (hk : t'.tpt = t.tpt) (k : Nat) :
    (s.setTrx i t').refd k = s.refd k := by
  have hany : (s.trxs.set i t').any (fun x => decide (x.tpt = k)) = s.trxs.any (fun x => decide (x.tpt = k)) := by
    have hi : i < s.trxs.length := by
      rcases Nat.lt_or_ge i s.trxs.length with h' | h'
      · exact h'
      · rw [List.getElem?_eq_none h'] at ht; simp at ht
    have hget : s.trxs[i] = t := by
      have := List.getElem?_eq_getElem hi; rw [ht] at this; injection this with this; exact this.symm
    apply Bool.eq_iff_iff.mpr
    simp only [List.any_eq_true, decide_eq_true_eq]
    constructor
    · rintro ⟨x, hx, hxk⟩
      rcases List.mem_or_eq_of_mem_set hx with h1 | h1
      · exact ⟨x, h1, hxk⟩
      · subst h1; exact ⟨t, by rw [← hget]; exact List.getElem_mem hi, by rw [← hk]; exact hxk⟩
    · rintro ⟨x, hx, hxk⟩
      obtain ⟨n, hn, hnx⟩ := List.getElem_of_mem hx
      by_cases hin : i = n
      · subst hin
        have : x = t := by rw [← hnx, hget]
        subst this
        exact ⟨t', List.mem_iff_getElem?.mpr ⟨i, by simp [hi]⟩, by rw [hk]; exact hxk⟩
      · exact ⟨x, List.mem_iff_getElem?.mpr ⟨n, by simp [List.getElem?_set, hin, hn, hnx]⟩, hxk⟩
  simp only [State.refd, State.setTrx, hany]

def Instr.valid (s : State) : Instr → Prop
  | .stopRcv i | .stopSnd i => i < s.trxs.length
  | .stopDtls k | .stopIce k => k < s.tpts.length
  | .stopSctp => s.sctp.isSome = true

def sctpDone (sc : Sctp) : Prop := sc.closed = true ∧ ∀ c ∈ sc.chans, c = Chan.closed

structure Inv (s : State) : Prop where
  wfT : ∀ (i : Nat) (t : Trx), s.trxs[i]? = some t → WfTrx t
  wfK : ∀ (k : Nat) (t : Tpt), s.tpts[k]? = some t → WfTpt t
  conns : ConnsStopped s
  opn : s.closed = false → s.prog = [] ∧ s.closeDone = false ∧ s.waiters = 0
        ∧ (∀ (i : Nat) (t : Trx), s.trxs[i]? = some t → t.rcvStop = 0 ∧ t.sndStop = 0)
        ∧ (∀ (k : Nat) (t : Tpt), s.tpts[k]? = some t → t.dtlsStop = 0 ∧ t.iceStop = 0)
        ∧ (∀ (sc : Sctp), s.sctp = some sc → sc.stop = 0)
  dne : s.closeDone = true → s.closed = true ∧ s.prog = [] ∧ s.iceClosed = true ∧ s.connClosed = true ∧ s.listeners = false
  sig : s.closed = true → s.sigClosed = true
  valid : ∀ ins ∈ s.prog, Instr.valid s ins
  tptOk : (∀ (i : Nat) (t : Trx), s.trxs[i]? = some t → t.tpt < s.tpts.length) ∧ (∀ (sc : Sctp), s.sctp = some sc → sc.tpt < s.tpts.length)
  coverT : s.closed = true → ∀ (i : Nat) (t : Trx), s.trxs[i]? = some t →
      (Instr.stopRcv i ∈ s.prog ∨ rcvDone t) ∧ (Instr.stopSnd i ∈ s.prog ∨ t.sndQuiet = true)
  coverK : s.closed = true → ∀ (k : Nat) (t : Tpt), s.tpts[k]? = some t →
      (Instr.stopDtls k ∈ s.prog ∨ t.pump ≠ .live ∨ t.pumpCancel = true) ∧ (Instr.stopIce k ∈ s.prog ∨ t.monQuiet = true)
  coverS : s.closed = true → ∀ (sc : Sctp), s.sctp = some sc → Instr.stopSctp ∈ s.prog ∨ sctpDone sc
  refs : s.closed = false → ∀ (k : Nat) (t : Tpt), s.tpts[k]? = some t → t.unstarted = false → s.refd k = true
  wfN : ∀ (k : Nat) (t : Tpt), s.tpts[k]? = some t → WfN t
  unref : ∀ (k : Nat) (t : Tpt), s.tpts[k]? = some t → 1 ≤ t.nstop → s.refd k = false
  tsetOk : ∀ (k : Nat), k ∈ s.tset ↔ ∃ t, s.tpts[k]? = some t ∧ t.inSet = true
  tsetNodup : s.tset.Nodup
  coverI : s.closed = true → ∀ (k : Nat) (t : Tpt), s.tpts[k]? = some t → s.refd k = true →
      Instr.stopIce k ∈ s.prog ∨ t.ice = .closed

theorem inv_init : Inv State.init := by
  constructor <;> simp [State.init, ConnsStopped]

theorem live_open {s : State} (hI : Inv s) (hl : s.liveConn = true) : s.closed = false := by
  cases hc : s.closed with
  | false => rfl
  | true => rw [liveConn_false hI.conns hc] at hl; simp at hl

/-- frame: one transceiver record replaced, program unchanged -/
theorem inv_setTrx {s : State} {i : Nat} {t t' : Trx} (hI : Inv s) (ht : s.trxs[i]? = some t) (hw : WfTrx t')
    (hz : s.closed = false → t'.rcvStop = 0 ∧ t'.sndStop = 0) (hk : t'.tpt = t.tpt)
    (h1 : s.closed = true → rcvDone t → rcvDone t') (h2 : s.closed = true → t.sndQuiet = true → t'.sndQuiet = true) :
    Inv (s.setTrx i t') := by
  have hlen : (s.trxs.set i t').length = s.trxs.length := by simp
  constructor
  · exact forall_set hI.wfT hw
  · exact hI.wfK
  · exact hI.conns
  · intro hc
    obtain ⟨o1, o2, o3, o4, o5, o6⟩ := hI.opn hc
    exact ⟨o1, o2, o3, forall_set o4 (hz hc), o5, o6⟩
  · exact hI.dne
  · exact hI.sig
  · intro ins hin
    have := hI.valid ins hin
    cases ins <;> simpa [Instr.valid, State.setTrx] using this
  · refine ⟨forall_set hI.tptOk.1 ?_, hI.tptOk.2⟩
    rw [hk]; exact hI.tptOk.1 i t ht
  · intro hc
    refine forall_set (hI.coverT hc) ?_
    have := hI.coverT hc i t ht
    exact ⟨this.1.imp id (h1 hc), this.2.imp id (h2 hc)⟩
  · exact hI.coverK
  · exact hI.coverS
  · intro hc k tk hk' hu
    have := hI.refs hc k tk hk' hu
    simp only [State.refd, State.setTrx] at this ⊢
    rw [Bool.or_eq_true] at this ⊢
    refine this.imp ?_ id
    intro ha
    rw [List.any_eq_true] at ha ⊢
    obtain ⟨x, hx, hxk⟩ := ha
    obtain ⟨j, hj, hjx⟩ := List.getElem_of_mem hx
    by_cases hij : i = j
    · subst hij
      have : s.trxs[i]? = some x := by rw [List.getElem?_eq_getElem hj, hjx]
      rw [ht] at this; injection this with this; subst this
      exact ⟨t', List.mem_iff_getElem?.mpr ⟨i, by simp [List.getElem?_set, hj]⟩, by simpa [hk] using hxk⟩
    · exact ⟨x, List.mem_iff_getElem?.mpr ⟨j, by simp [List.getElem?_set, hij, hj, hjx]⟩, hxk⟩
  · exact hI.wfN
  · intro k tk hk' hn
    rw [refd_setTrx_same ht hk]; exact hI.unref k tk hk' hn
  · exact hI.tsetOk
  · exact hI.tsetNodup
  · intro hc k tk hk' hr
    rw [refd_setTrx_same ht hk] at hr
    exact hI.coverI hc k tk hk' hr

/-- frame: one transport record replaced, program unchanged -/
theorem getElem?_set_self'' {α} {l : List α} {i : Nat} {a b : α} (h : l[i]? = some a) : (l.set i b)[i]? = some b := by
  have : i < l.length := by
    rcases Nat.lt_or_ge i l.length with h' | h'
    · exact h'
    · rw [List.getElem?_eq_none h'] at h; simp at h
  simp [this]

theorem exists_set_iff {l : List Tpt} {k : Nat} {t t' : Tpt} (ht : l[k]? = some t) (j : Nat) (P : Tpt → Prop) :
    (∃ x, (l.set k t')[j]? = some x ∧ P x) ↔ (if j = k then P t' else ∃ x, l[j]? = some x ∧ P x) := by
  by_cases hjk : j = k
  · subst hjk
    simp [getElem?_set_self'' ht]
  · have : (l.set k t')[j]? = l[j]? := by rw [List.getElem?_set]; simp [Ne.symm hjk]
    simp [hjk, this]

/-- frame: one transport record replaced (and, if the record left the connection's transport set, the set updated),
program unchanged -/
theorem inv_setTpt' {s : State} {k : Nat} {t t' : Tpt} (ts' : List Nat) (hI : Inv s) (ht : s.tpts[k]? = some t)
    (hw : WfTpt t') (hz : s.closed = false → t'.dtlsStop = 0 ∧ t'.iceStop = 0)
    (h1 : s.closed = true → (t.pump ≠ .live ∨ t.pumpCancel = true) → (t'.pump ≠ .live ∨ t'.pumpCancel = true))
    (h2 : s.closed = true → t.monQuiet = true → t'.monQuiet = true)
    (hu : s.closed = false → t'.unstarted = false → t.unstarted = false ∨ s.refd k = true)
    (hn : WfN t') (hn2 : t'.nstop = t.nstop ∨ (1 ≤ t'.nstop → s.refd k = false))
    (hice : t.ice = .closed → t'.ice = .closed)
    (hts : ts' = s.tset ∧ t'.inSet = t.inSet ∨ ts' = s.tset.erase k ∧ t'.inSet = false) :
    Inv { s.setTpt k t' with tset := ts' } := by
  have hlen : (s.tpts.set k t').length = s.tpts.length := by simp
  constructor
  · exact hI.wfT
  · exact forall_set hI.wfK hw
  · exact hI.conns
  · intro hc
    obtain ⟨o1, o2, o3, o4, o5, o6⟩ := hI.opn hc
    exact ⟨o1, o2, o3, o4, forall_set o5 (hz hc), o6⟩
  · exact hI.dne
  · exact hI.sig
  · intro ins hin
    have := hI.valid ins hin
    cases ins <;> simpa [Instr.valid, State.setTpt] using this
  · simpa [State.setTpt] using hI.tptOk
  · exact hI.coverT
  · intro hc
    refine forall_set (hI.coverK hc) ?_
    have := hI.coverK hc k t ht
    exact ⟨this.1.imp id (h1 hc), this.2.imp id (h2 hc)⟩
  · exact hI.coverS
  · intro hc
    have hr := hI.refs hc
    have : ∀ (j : Nat) (a : Tpt), (s.tpts.set k t')[j]? = some a → a.unstarted = false → s.refd j = true := by
      refine forall_set hr ?_
      intro hu'
      rcases hu hc hu' with h | h
      · exact hr k t ht h
      · exact h
    exact this
  · exact forall_set hI.wfN hn
  · have : ∀ (j : Nat) (a : Tpt), (s.tpts.set k t')[j]? = some a → 1 ≤ a.nstop → s.refd j = false := by
      refine forall_set hI.unref ?_
      rcases hn2 with h | h
      · rw [h]; exact hI.unref k t ht
      · exact h
    exact this
  · intro j
    show j ∈ ts' ↔ ∃ x, (s.tpts.set k t')[j]? = some x ∧ x.inSet = true
    rw [exists_set_iff ht j (fun x => x.inSet = true)]
    have hk_spec := hI.tsetOk k
    rcases hts with ⟨h, hin⟩ | ⟨h, hin⟩
    · subst h
      by_cases hjk : j = k
      · subst hjk; simp only [if_true]; rw [hI.tsetOk j, hin]
        constructor
        · rintro ⟨x, hx, hxs⟩; rw [ht] at hx; injection hx with hx; subst hx; exact hxs
        · intro h; exact ⟨t, ht, h⟩
      · simp only [hjk, if_false]; exact hI.tsetOk j
    · subst h
      by_cases hjk : j = k
      · subst hjk; simp only [if_true, hin]
        constructor
        · intro hm; exact absurd hm (List.Nodup.not_mem_erase hI.tsetNodup)
        · intro h; simp at h
      · simp only [hjk, if_false]
        rw [List.mem_erase_of_ne hjk]; exact hI.tsetOk j
  · rcases hts with ⟨h, _⟩ | ⟨h, _⟩
    · subst h; exact hI.tsetNodup
    · subst h; exact hI.tsetNodup.erase k
  · intro hc
    have : ∀ (j : Nat) (a : Tpt), (s.tpts.set k t')[j]? = some a → s.refd j = true →
        Instr.stopIce j ∈ s.prog ∨ a.ice = .closed := by
      refine forall_set (hI.coverI hc) ?_
      intro hr
      exact (hI.coverI hc k t ht hr).imp id hice
    exact this

theorem inv_setTpt {s : State} {k : Nat} {t t' : Tpt} (hI : Inv s) (ht : s.tpts[k]? = some t) (hw : WfTpt t')
    (hz : s.closed = false → t'.dtlsStop = 0 ∧ t'.iceStop = 0)
    (h1 : s.closed = true → (t.pump ≠ .live ∨ t.pumpCancel = true) → (t'.pump ≠ .live ∨ t'.pumpCancel = true))
    (h2 : s.closed = true → t.monQuiet = true → t'.monQuiet = true)
    (hu : s.closed = false → t'.unstarted = false → t.unstarted = false ∨ s.refd k = true)
    (hn : WfN t') (hn2 : t'.nstop = t.nstop ∨ (1 ≤ t'.nstop → s.refd k = false))
    (hice : t.ice = .closed → t'.ice = .closed) (hin : t'.inSet = t.inSet) : Inv (s.setTpt k t') :=
  inv_setTpt' s.tset hI ht hw hz h1 h2 hu hn hn2 hice (Or.inl ⟨rfl, hin⟩)

/-- frame: the running `stop()` call returned -/
theorem inv_pop {s : State} {ins : Instr} {rest : List Instr} (hI : Inv s) (hp : s.prog = ins :: rest)
    (hd : match ins with
      | .stopRcv i => ∀ t, s.trxs[i]? = some t → rcvDone t
      | .stopSnd i => ∀ t, s.trxs[i]? = some t → t.sndQuiet = true
      | .stopDtls k => ∀ t, s.tpts[k]? = some t → t.pump ≠ .live ∨ t.pumpCancel = true
      | .stopIce k => ∀ t, s.tpts[k]? = some t → t.monQuiet = true ∧ t.ice = .closed
      | .stopSctp => ∀ sc, s.sctp = some sc → sctpDone sc) : Inv s.pop := by
  have hclosed : s.closed = true := by
    cases hc : s.closed with
    | true => rfl
    | false => have := (hI.opn hc).1; rw [hp] at this; simp at this
  have hmem : ∀ x, x ∈ s.prog → x = ins ∨ x ∈ rest := by
    intro x hx; rw [hp] at hx; simpa using hx
  constructor
  · exact hI.wfT
  · exact hI.wfK
  · exact hI.conns
  · intro hc; simp [State.pop, hclosed] at hc
  · intro hc
    have := (hI.dne hc).2.1; rw [hp] at this; simp at this
  · exact hI.sig
  · intro x hx
    have hx' : x ∈ s.prog := by rw [hp]; simp only [State.pop, hp, List.tail_cons] at hx; exact List.mem_cons_of_mem _ hx
    have := hI.valid x hx'
    cases x <;> simpa [Instr.valid, State.pop] using this
  · exact hI.tptOk
  · intro _ i t ht
    have := hI.coverT hclosed i t ht
    simp only [State.pop, hp, List.tail_cons]
    constructor
    · rcases this.1 with h | h
      · rcases hmem _ h with h' | h'
        · subst h'; exact Or.inr (hd t ht)
        · exact Or.inl h'
      · exact Or.inr h
    · rcases this.2 with h | h
      · rcases hmem _ h with h' | h'
        · subst h'; exact Or.inr (hd t ht)
        · exact Or.inl h'
      · exact Or.inr h
  · intro _ k t ht
    have := hI.coverK hclosed k t ht
    simp only [State.pop, hp, List.tail_cons]
    constructor
    · rcases this.1 with h | h
      · rcases hmem _ h with h' | h'
        · subst h'; exact Or.inr (hd t ht)
        · exact Or.inl h'
      · exact Or.inr h
    · rcases this.2 with h | h
      · rcases hmem _ h with h' | h'
        · subst h'; exact Or.inr (hd t ht).1
        · exact Or.inl h'
      · exact Or.inr h
  · intro _ sc hsc
    have := hI.coverS hclosed sc hsc
    simp only [State.pop, hp, List.tail_cons]
    rcases this with h | h
    · rcases hmem _ h with h' | h'
      · subst h'; exact Or.inr (hd sc hsc)
      · exact Or.inl h'
    · exact Or.inr h
  · intro hc; simp [State.pop, hclosed] at hc
  · exact hI.wfN
  · exact hI.unref
  · exact hI.tsetOk
  · exact hI.tsetNodup
  · intro _ k t ht hr
    have := hI.coverI hclosed k t ht hr
    simp only [State.pop, hp, List.tail_cons]
    rcases this with h | h
    · rcases hmem _ h with h' | h'
      · subst h'; exact Or.inr (hd t ht).2
      · exact Or.inl h'
    · exact Or.inr h

theorem closed_of_prog {s : State} (hI : Inv s) {ins rest} (hp : s.prog = ins :: rest) : s.closed = true := by
  cases hc : s.closed with
  | true => rfl
  | false => have := (hI.opn hc).1; rw [hp] at this; simp at this

theorem getElem?_set_self' {α} {l : List α} {i : Nat} {a b : α} (h : l[i]? = some a) : (l.set i b)[i]? = some b := by
  have : i < l.length := by
    rcases Nat.lt_or_ge i l.length with h' | h'
    · exact h'
    · rw [List.getElem?_eq_none h'] at h; simp at h
  simp [this]

theorem inv_closeNext_rcv {s s' : State} {l : CLabel} {i : Nat} {rest : List Instr} (hI : Inv s)
    (hp : s.prog = .stopRcv i :: rest) (h : s.closeNext = some (l, s')) : Inv s' := by
  have hcl := closed_of_prog hI hp
  unfold State.closeNext at h
  split at h
  · simp at h
  rw [hp] at h
  simp only at h
  split at h
  · simp at h
  rename_i t ht
  have hw := hI.wfT i t ht
  split at h
  · rename_i h0
    split at h
    · rename_i hst
      simp only [Option.some.injEq, Prod.mk.injEq] at h; obtain ⟨-, rfl⟩ := h
      apply inv_setTrx hI ht
      · cases hd : t.decoder <;> simp_all [WfTrx, WfRun]
      · simp [hcl]
      · rfl
      · cases hd : t.decoder <;> simp_all [rcvDone]
      · simp [Trx.sndQuiet]
    · rename_i hst
      simp only [Option.some.injEq, Prod.mk.injEq] at h; obtain ⟨-, rfl⟩ := h
      apply inv_setTrx hI ht
      · cases hd : t.hasTrack <;> simp_all [WfTrx, WfRun, Run.doomed, Run.quiet]
      · simp [hcl]
      · rfl
      · cases hd : t.hasTrack <;> simp_all [rcvDone]
      · simp [Trx.sndQuiet]
  · split at h
    · rename_i h0 h1
      split at h
      · rename_i hst
        simp only [Option.some.injEq, Prod.mk.injEq] at h; obtain ⟨-, rfl⟩ := h
        obtain ⟨c1, c2, c3⟩ := wfRun_cancel hw.2.2.1 hst
        apply inv_setTrx hI ht
        · simp_all [WfTrx]
        · simp [hcl]
        · rfl
        · simp_all [rcvDone, Run.quiet]
        · simp [Trx.sndQuiet]
      · simp at h
    · rename_i h0 h1
      split at h
      · rename_i hq
        simp only [Option.some.injEq, Prod.mk.injEq] at h; obtain ⟨-, rfl⟩ := h
        have h2 : t.rcvStop = 2 := by have := hw.2.2.2.2.2.2.2.2.2.2.2.2.2.2.1; omega
        have hI' : Inv (s.setTrx i { t with rcvStop := 0 }) := by
          apply inv_setTrx hI ht
          · simp_all [WfTrx]
          · simp [hcl]
          · rfl
          · simp_all [rcvDone]
          · simp [Trx.sndQuiet]
        refine inv_pop hI' (ins := .stopRcv i) (rest := rest) (by simpa [State.setTrx] using hp) ?_
        intro t'' ht''
        simp only [State.setTrx] at ht''
        rw [getElem?_set_self' ht] at ht''
        injection ht'' with ht''; subst ht''
        simp_all [rcvDone, WfTrx]
      · simp at h

theorem inv_closeNext_snd {s s' : State} {l : CLabel} {i : Nat} {rest : List Instr} (hI : Inv s)
    (hp : s.prog = .stopSnd i :: rest) (h : s.closeNext = some (l, s')) : Inv s' := by
  have hcl := closed_of_prog hI hp
  unfold State.closeNext at h
  split at h
  · simp at h
  rw [hp] at h
  simp only at h
  split at h
  · simp at h
  rename_i t ht
  have hw := hI.wfT i t ht
  split at h
  · rename_i h0
    simp only [Option.some.injEq, Prod.mk.injEq] at h; obtain ⟨-, rfl⟩ := h
    apply inv_setTrx hI ht
    · cases hd : t.sndStarted <;> simp_all [WfTrx, WfRun, Run.doomed, Run.quiet]
    · simp [hcl]
    · rfl
    · simp [rcvDone]
    · simp [Trx.sndQuiet]
  · split at h
    · rename_i h0 h1
      split at h
      · rename_i hst
        simp only [Bool.and_eq_true] at hst
        simp only [Option.some.injEq, Prod.mk.injEq] at h; obtain ⟨-, rfl⟩ := h
        obtain ⟨c1, c2, c3⟩ := wfRun_cancel hw.1 hst.1
        have hs2 := hst.2
        apply inv_setTrx hI ht
        · simp_all [WfTrx, Run.started]
          cases hq : t.srtcp.pc <;> simp_all
        · simp [hcl]
        · rfl
        · simp [rcvDone]
        · simp_all [Trx.sndQuiet, Run.quiet]
      · simp at h
    · split at h
      · rename_i h0 h1 h2
        simp only [Option.some.injEq, Prod.mk.injEq] at h; obtain ⟨-, rfl⟩ := h
        have hs2 : t.srtcp.started = true := by
          have := (hw.2.2.2.2.2.2.2.2.2.2.2.2.1 h2).2
          simp [Run.started]; cases hq : t.srtcp.pc <;> simp_all [WfTrx, WfRun]
        obtain ⟨c1, c2, c3⟩ := wfRun_cancel hw.2.1 hs2
        apply inv_setTrx hI ht
        · simp_all [WfTrx]
        · simp [hcl]
        · rfl
        · simp [rcvDone]
        · simp_all [Trx.sndQuiet, Run.quiet]
      · rename_i h0 h1 h2
        split at h
        · rename_i hq
          simp only [Option.some.injEq, Prod.mk.injEq] at h; obtain ⟨-, rfl⟩ := h
          have hI' : Inv (s.setTrx i { t with sndStop := 0 }) := by
            apply inv_setTrx hI ht
            · simp_all [WfTrx]
            · simp [hcl]
            · rfl
            · simp [rcvDone]
            · simp_all [Trx.sndQuiet]
          refine inv_pop hI' (ins := .stopSnd i) (rest := rest) (by simpa [State.setTrx] using hp) ?_
          intro t'' ht''
          simp only [State.setTrx] at ht''
          rw [getElem?_set_self' ht] at ht''
          injection ht'' with ht''; subst ht''
          simpa [Trx.sndQuiet] using hq
        · simp at h

theorem inv_closeNext_dtls {s s' : State} {l : CLabel} {k : Nat} {rest : List Instr} (hI : Inv s)
    (hp : s.prog = .stopDtls k :: rest) (h : s.closeNext = some (l, s')) : Inv s' := by
  have hcl := closed_of_prog hI hp
  unfold State.closeNext at h
  split at h
  · simp at h
  rw [hp] at h
  simp only at h
  split at h
  · simp at h
  rename_i t ht
  have hw := hI.wfK k t ht
  split at h
  · rename_i h0
    simp only [Option.some.injEq, Prod.mk.injEq] at h; obtain ⟨-, rfl⟩ := h
    apply inv_setTpt hI ht
    · cases hd : t.pumpHandle <;> cases hq : t.pump <;> cases hc : t.pumpCancel <;> simp_all [WfTpt, Tpt.monQuiet]
    · simp [hcl]
    · simp
    · exact fun _ h => h
    · simp [hcl]
    · have := hI.wfN k t ht; simp_all [WfN, Tpt.unstarted]
    · exact Or.inl rfl
    · first | exact fun h => h | exact fun _ => rfl
    · rfl
  · split at h
    · rename_i h0 h1
      simp only [Option.some.injEq, Prod.mk.injEq] at h; obtain ⟨-, rfl⟩ := h
      apply inv_setTpt hI ht
      · cases hq : t.pump <;> simp_all [WfTpt, Tpt.monQuiet]
      · simp [hcl]
      · cases hq : t.pump <;> simp
      · exact fun _ h => h
      · simp [hcl]
      · have := hI.wfN k t ht; simp_all [WfN, Tpt.unstarted]
      · exact Or.inl rfl
      · first | exact fun h => h | exact fun _ => rfl
      · rfl
    · rename_i h0 h1
      simp only [Option.some.injEq, Prod.mk.injEq] at h; obtain ⟨-, rfl⟩ := h
      have h2 : t.dtlsStop = 2 := by have := hw.2.2.2.2.2.1; omega
      have hI' : Inv (s.setTpt k { t with dtlsStop := 0 }) := by
        apply inv_setTpt hI ht
        · simp_all [WfTpt, Tpt.monQuiet]
        · simp [hcl]
        · simp
        · exact fun _ h => h
        · simp [hcl]
        · have := hI.wfN k t ht; simp_all [WfN, Tpt.unstarted]
        · exact Or.inl rfl
        · first | exact fun h => h | exact fun _ => rfl
        · rfl
      refine inv_pop hI' (ins := .stopDtls k) (rest := rest) (by simpa [State.setTpt] using hp) ?_
      intro t'' ht''
      simp only [State.setTpt] at ht''
      rw [getElem?_set_self' ht] at ht''
      injection ht'' with ht''; subst ht''
      simpa using hw.2.1 h2

theorem inv_closeNext_ice {s s' : State} {l : CLabel} {k : Nat} {rest : List Instr} (hI : Inv s)
    (hp : s.prog = .stopIce k :: rest) (h : s.closeNext = some (l, s')) : Inv s' := by
  have hcl := closed_of_prog hI hp
  unfold State.closeNext at h
  split at h
  · simp at h
  rw [hp] at h
  simp only at h
  split at h
  · simp at h
  rename_i t ht
  have hw := hI.wfK k t ht
  split at h
  · rename_i h0
    split at h
    · rename_i hic
      simp only [Option.some.injEq, Prod.mk.injEq] at h; obtain ⟨-, rfl⟩ := h
      apply inv_setTpt hI ht
      · simp_all [WfTpt, Tpt.monQuiet]
      · simp [hcl]
      · simp
      · simp [Tpt.monQuiet]
      · simp [hcl]
      · have := hI.wfN k t ht; simp_all [WfN, Tpt.unstarted]
      · exact Or.inl rfl
      · first | exact fun h => h | exact fun _ => rfl
      · rfl
    · rename_i hic
      simp only [Option.some.injEq, Prod.mk.injEq] at h; obtain ⟨-, rfl⟩ := h
      apply inv_setTpt hI ht
      · simp_all [WfTpt, Tpt.monQuiet]
      · simp [hcl]
      · simp
      · simp [Tpt.monQuiet]
      · simp [hcl]
      · have := hI.wfN k t ht; simp_all [WfN, Tpt.unstarted]
      · exact Or.inl rfl
      · first | exact fun h => h | exact fun _ => rfl
      · rfl
  · split at h
    · rename_i h0 h1
      split at h
      · simp only [Option.some.injEq, Prod.mk.injEq] at h; obtain ⟨-, rfl⟩ := h
        apply inv_setTpt hI ht
        · simp_all [WfTpt, Tpt.monQuiet]
        · simp [hcl]
        · simp
        · simp [Tpt.monQuiet]
        · simp [hcl]
        · have := hI.wfN k t ht; simp_all [WfN, Tpt.unstarted]
        · exact Or.inl rfl
        · first | exact fun h => h | exact fun _ => rfl
        · rfl
      · simp at h
    · rename_i h0 h1
      split at h
      · rename_i hq
        simp only [Option.some.injEq, Prod.mk.injEq] at h; obtain ⟨-, rfl⟩ := h
        have hI' : Inv (s.setTpt k { t with iceStop := 0 }) := by
          apply inv_setTpt hI ht
          · simp_all [WfTpt, Tpt.monQuiet]
          · simp [hcl]
          · simp
          · simp [Tpt.monQuiet]
          · simp [hcl]
          · have := hI.wfN k t ht; simp_all [WfN, Tpt.unstarted]
          · exact Or.inl rfl
          · first | exact fun h => h | exact fun _ => rfl
          · rfl
        refine inv_pop hI' (ins := .stopIce k) (rest := rest) (by simpa [State.setTpt] using hp) ?_
        intro t'' ht''
        simp only [State.setTpt] at ht''
        rw [getElem?_set_self' ht] at ht''
        injection ht'' with ht''; subst ht''
        refine ⟨by simpa [Tpt.monQuiet] using hq, ?_⟩
        have h2 : t.iceStop = 2 := by have := hw.2.2.2.2.2.2; omega
        exact (hI.wfN k t ht).2.2.2.2.2 (by omega)
      · simp at h

theorem inv_setSctp {s : State} {sc sc' : Sctp} (hI : Inv s) (hs : s.sctp = some sc) (hk : sc'.tpt = sc.tpt)
    (hz : s.closed = false → sc'.stop = 0) (hd : sctpDone sc → sctpDone sc') : Inv { s with sctp := some sc' } := by
  constructor
  · exact hI.wfT
  · exact hI.wfK
  · exact hI.conns
  · intro hc
    obtain ⟨o1, o2, o3, o4, o5, o6⟩ := hI.opn hc
    refine ⟨o1, o2, o3, o4, o5, ?_⟩
    intro sc'' h''; simp at h''; subst h''; exact hz hc
  · exact hI.dne
  · exact hI.sig
  · intro ins hin
    have := hI.valid ins hin
    cases ins <;> simp_all [Instr.valid]
  · refine ⟨hI.tptOk.1, ?_⟩
    intro sc'' h''; simp at h''; subst h''; rw [hk]; exact hI.tptOk.2 sc hs
  · exact hI.coverT
  · exact hI.coverK
  · intro hc sc'' h''
    simp at h''; subst h''
    exact (hI.coverS hc sc hs).imp id hd
  · intro hc k t hk' hu
    have := hI.refs hc k t hk' hu
    simpa [State.refd, hs, hk] using this
  · exact hI.wfN
  · intro k t hk' hn
    have := hI.unref k t hk' hn
    simpa [State.refd, hs, hk] using this
  · exact hI.tsetOk
  · exact hI.tsetNodup
  · intro hc k t hk' hr
    have hr' : s.refd k = true := by simpa [State.refd, hs, hk] using hr
    exact hI.coverI hc k t hk' hr'

theorem inv_closeNext_sctp {s s' : State} {l : CLabel} {rest : List Instr} (hI : Inv s)
    (hp : s.prog = .stopSctp :: rest) (h : s.closeNext = some (l, s')) : Inv s' := by
  have hcl := closed_of_prog hI hp
  unfold State.closeNext at h
  split at h
  · simp at h
  split at h
  all_goals (rename_i hprog; rw [hp] at hprog)
  all_goals (try (simp at hprog; done))
  split at h
  · simp at h
  rename_i sc hs
  split at h
  · simp only [Option.some.injEq, Prod.mk.injEq] at h; obtain ⟨-, rfl⟩ := h
    exact inv_setSctp hI hs rfl (by simp [hcl]) (by simp [sctpDone])
  · simp only [Option.some.injEq, Prod.mk.injEq] at h; obtain ⟨-, rfl⟩ := h
    have hI' := inv_setSctp (sc' := { sc with closed := true, chans := sc.chans.map fun _ => .closed, stop := 0 }) hI hs rfl
      (by simp) (by simp [sctpDone])
    refine inv_pop hI' (ins := .stopSctp) (rest := rest) hp ?_
    intro sc'' h''
    simp at h''; subst h''
    simp [sctpDone]

theorem inv_closeNext_nil {s s' : State} {l : CLabel} (hI : Inv s)
    (hp : s.prog = []) (h : s.closeNext = some (l, s')) : Inv s' := by
  unfold State.closeNext at h
  split at h
  · simp at h
  split at h
  all_goals (rename_i hprog; rw [hp] at hprog)
  all_goals (try (simp at hprog; done))
  split at h
  · rename_i hg
    simp at hg
    simp only [Option.some.injEq, Prod.mk.injEq] at h; obtain ⟨-, rfl⟩ := h
    constructor
    · exact hI.wfT
    · exact hI.wfK
    · exact hI.conns
    · intro hc; simp [hg.1] at hc
    · intro _; exact ⟨hg.1, hp, rfl, rfl, rfl⟩
    · exact hI.sig
    · exact hI.valid
    · exact hI.tptOk
    · exact hI.coverT
    · exact hI.coverK
    · exact hI.coverS
    · exact hI.refs
    · exact hI.wfN
    · exact hI.unref
    · exact hI.tsetOk
    · exact hI.tsetNodup
    · exact hI.coverI
  · simp at h

theorem inv_closeNext {s s' : State} {l : CLabel} (hI : Inv s) (h : s.closeNext = some (l, s')) : Inv s' := by
  cases hp : s.prog with
  | nil => exact inv_closeNext_nil hI hp h
  | cons ins rest =>
    cases ins with
    | stopRcv i => exact inv_closeNext_rcv hI hp h
    | stopSnd i => exact inv_closeNext_snd hI hp h
    | stopSctp => exact inv_closeNext_sctp hI hp h
    | stopDtls k => exact inv_closeNext_dtls hI hp h
    | stopIce k => exact inv_closeNext_ice hI hp h

end Aiortc.Lemmas.Close
