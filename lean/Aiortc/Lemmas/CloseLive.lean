import Aiortc.Lemmas.CloseStep
/-! C19: progress.  In a reachable closed state in which no *guaranteed* step is enabled, everything is over. -/
namespace Aiortc.Lemmas.Close
open Aiortc.Model.Close

/-- steps that happen without the environment's help: the close coroutine's own moves (whenever their guard holds), the first
step of a queued task, the end of a task whose cancellation is on its way, the monitor's moves, a waiter's return, the
auto-close task's call.  (A task may also end on its own - connection lost, track ended - but nothing guarantees it.) -/
def guaranteed (s : State) : Action → Bool
  | .close _ => true
  | .trx _ (.first _) => true
  | .trx i (.exit w) => match s.trxs[i]? with | some t => (t.get w).cancelReq | none => false
  | .tpt k .pumpExit => match s.tpts[k]? with | some t => t.pumpCancel | none => false
  | .tpt _ .monFirst | .tpt _ .monExit => true
  | .tpt k .nstep => match s.tpts[k]? with | some t => decide (1 ≤ t.nstop) | none => false
  | .connExit c => match s.conns[c]? with | some cn => cn.cancelReq | none => false
  | .waiterReturn => true
  | .closeCall true => true
  | _ => false

def Quiescent (s : State) : Prop := ∀ a, guaranteed s a = true → s.step a = none

structure Final (s : State) : Prop where
  done : s.closeDone = true
  prog : s.prog = []
  conns : ∀ c ∈ s.conns, c.pc = .done
  trxs : ∀ (i : Nat) (t : Trx), s.trxs[i]? = some t → rcvDone t ∧ t.sndQuiet = true
  tpts : ∀ (k : Nat) (t : Tpt), s.tpts[k]? = some t → t.pump ≠ .live ∧ t.monQuiet = true
  sctp : ∀ (sc : Sctp), s.sctp = some sc → sctpDone sc
  waiters : s.waiters = 0
  auto : s.auto ≠ .queued
  cleanups : ∀ (k : Nat) (t : Tpt), s.tpts[k]? = some t → t.nstop = 0 ∨ t.nstop = 4

theorem close_enabled {s s' : State} {l : CLabel} (hQ : Quiescent s) (h : s.closeNext = some (l, s')) : False := by
  have := hQ (.close l) rfl
  simp [State.step, h] at this

theorem run_cases (r : Run) (hw : WfRun r) (hn : r.pc ≠ .none) :
    r.pc = .queued ∨ r.pc = .loop ∨ r.pc = .exited := by
  cases hp : r.pc <;> simp_all [WfRun]

theorem first_enabled {s : State} {i : Nat} {t : Trx} {w : Which} (hQ : Quiescent s) (ht : s.trxs[i]? = some t)
    (hq : (t.get w).pc = .queued) : False := by
  have := hQ (.trx i (.first w)) rfl
  simp [State.step, ht, trxStep, Run.first, hq] at this

theorem exit_enabled {s : State} {i : Nat} {t : Trx} {w : Which} (hQ : Quiescent s) (ht : s.trxs[i]? = some t)
    (hq : (t.get w).pc = .loop) (hc : (t.get w).cancelReq = true) : False := by
  have := hQ (.trx i (.exit w)) (by simp [guaranteed, ht, hc])
  simp [State.step, ht, trxStep, Run.exit, hq] at this

/-- a doomed task that is not quiet is in its loop with the cancellation pending -/
theorem doomed_not_quiet {r : Run} (hd : r.doomed = true) (hq : r.quiet = false) : r.pc = .loop ∧ r.cancelReq = true := by
  simp [Run.doomed, hq] at hd; exact hd

theorem conns_done {s : State} (hI : Inv s) (hc : s.closed = true) (hQ : Quiescent s) : ∀ c ∈ s.conns, c.pc = .done := by
  intro c hc'
  obtain ⟨n, hn, hnc⟩ := List.getElem_of_mem hc'
  have hget : s.conns[n]? = some c := by rw [List.getElem?_eq_getElem hn, hnc]
  by_cases hne : c.pc = .done
  · exact hne
  · exfalso
    rcases hI.conns hc c hc' with h1 | h1
    · have := hQ (.connExit n) (by simp [guaranteed, hget, h1])
      simp [State.step, hget, hne] at this
    · exact hne h1

theorem getElem_of_lt {α} {l : List α} {i : Nat} (h : i < l.length) : ∃ a, l[i]? = some a :=
  ⟨l[i], by rw [List.getElem?_eq_getElem h]⟩

/-- with every `__connect` task finished, a non-empty close program always has an enabled guaranteed step -/
theorem prog_empty {s : State} (hI : Inv s) (hQ : Quiescent s) (hcd : s.connsDone = true) : s.prog = [] := by
  cases hp : s.prog with
  | nil => rfl
  | cons ins rest =>
    exfalso
    have hv := hI.valid ins (by rw [hp]; simp)
    cases ins with
    | stopRcv i =>
      obtain ⟨t, ht⟩ := getElem_of_lt (show i < s.trxs.length from hv)
      obtain ⟨w1, w2, w3, w4, w5, w6, w7, w8, w9, w10, w11, w12, w13, w14, w15, w16⟩ := hI.wfT i t ht
      by_cases h0 : t.rcvStop = 0
      · by_cases hst : t.rcvStarted = true
        · exact close_enabled hQ (l := .enterRcv i) (by simp [State.closeNext, hcd, hp, ht, h0, hst]; rfl)
        · exact close_enabled hQ (l := .enterRcv i) (by simp [State.closeNext, hcd, hp, ht, h0, hst]; rfl)
      · by_cases h1 : t.rcvStop = 1
        · by_cases hst : t.rrtcp.started = true
          · exact close_enabled hQ (l := .cancelRrtcp i) (by simp [State.closeNext, hcd, hp, ht, h1, hst]; rfl)
          · rcases run_cases t.rrtcp w3 (w7 (w10 h1)).1 with hq | hq | hq
            · exact first_enabled hQ ht (w := .rrtcp) hq
            · simp [Run.started, hq] at hst
            · simp [Run.started, hq] at hst
        · have h2 : t.rcvStop = 2 := by omega
          cases hq : t.rrtcp.quiet with
          | true => exact close_enabled hQ (l := .leaveRcv i) (by simp [State.closeNext, hcd, hp, ht, h0, h1, hq]; rfl)
          | false =>
            obtain ⟨a, b⟩ := doomed_not_quiet (w11 h2) hq
            exact exit_enabled hQ ht (w := .rrtcp) a b
    | stopSnd i =>
      obtain ⟨t, ht⟩ := getElem_of_lt (show i < s.trxs.length from hv)
      obtain ⟨w1, w2, w3, w4, w5, w6, w7, w8, w9, w10, w11, w12, w13, w14, w15, w16⟩ := hI.wfT i t ht
      by_cases h0 : t.sndStop = 0
      · exact close_enabled hQ (l := .enterSnd i) (by simp [State.closeNext, hcd, hp, ht, h0]; rfl)
      · by_cases h1 : t.sndStop = 1
        · by_cases hst : (t.rtp.started && t.srtcp.started) = true
          · exact close_enabled hQ (l := .cancelRtp i) (by simp [State.closeNext, hcd, hp, ht, h1, hst]; rfl)
          · have hs := w5 (w12 h1)
            rcases run_cases t.rtp w1 hs.1 with hq | hq | hq
            · exact first_enabled hQ ht (w := .rtp) hq
            all_goals
              rcases run_cases t.srtcp w2 hs.2 with hq2 | hq2 | hq2
              · exact first_enabled hQ ht (w := .srtcp) hq2
              all_goals simp [Run.started, hq, hq2] at hst
        · by_cases h2 : t.sndStop = 2
          · exact close_enabled hQ (l := .cancelSrtcp i) (by simp [State.closeNext, hcd, hp, ht, h2]; rfl)
          · have h3 : t.sndStop = 3 := by omega
            cases hq : t.sndQuiet with
            | true =>
              exact close_enabled hQ (l := .leaveSnd i) (by simp [State.closeNext, hcd, hp, ht, h0, h1, h2, hq]; rfl)
            | false =>
              simp only [Trx.sndQuiet, Bool.and_eq_false_iff] at hq
              rcases hq with hq | hq
              · obtain ⟨a, b⟩ := doomed_not_quiet (w14 h3).1 hq
                exact exit_enabled hQ ht (w := .rtp) a b
              · obtain ⟨a, b⟩ := doomed_not_quiet (w14 h3).2 hq
                exact exit_enabled hQ ht (w := .srtcp) a b
    | stopSctp =>
      simp only [Instr.valid, Option.isSome_iff_exists] at hv
      obtain ⟨sc, hs⟩ := hv
      by_cases h0 : sc.stop = 0
      · exact close_enabled hQ (l := .enterSctp) (by simp [State.closeNext, hcd, hp, hs, h0]; rfl)
      · exact close_enabled hQ (l := .leaveSctp) (by simp [State.closeNext, hcd, hp, hs, h0]; rfl)
    | stopDtls k =>
      obtain ⟨t, ht⟩ := getElem_of_lt (show k < s.tpts.length from hv)
      by_cases h0 : t.dtlsStop = 0
      · exact close_enabled hQ (l := .enterDtls k) (by simp [State.closeNext, hcd, hp, ht, h0]; rfl)
      · by_cases h1 : t.dtlsStop = 1
        · exact close_enabled hQ (l := .cancelPump k) (by simp [State.closeNext, hcd, hp, ht, h1]; rfl)
        · exact close_enabled hQ (l := .leaveDtls k) (by simp [State.closeNext, hcd, hp, ht, h0, h1]; rfl)
    | stopIce k =>
      obtain ⟨t, ht⟩ := getElem_of_lt (show k < s.tpts.length from hv)
      obtain ⟨w1, w2, w3, w4, w5, w6, w7⟩ := hI.wfK k t ht
      have mon_step : t.monQuiet = false → t.connClosed = true → False := by
        intro hq hcc
        cases hm : t.monitor with
        | none => simp [Tpt.monQuiet, hm] at hq
        | exited => simp [Tpt.monQuiet, hm] at hq
        | queued =>
          have := hQ (.tpt k .monFirst) rfl
          simp [State.step, ht, tptStep, hm] at this
        | waiting =>
          have := hQ (.tpt k .monExit) rfl
          simp [State.step, ht, tptStep, hm, hcc] at this
      by_cases h0 : t.iceStop = 0
      · by_cases hic : t.ice = .closed
        · exact close_enabled hQ (l := .enterIce k) (by simp [State.closeNext, hcd, hp, ht, h0, hic]; rfl)
        · exact close_enabled hQ (l := .enterIce k) (by simp [State.closeNext, hcd, hp, ht, h0, hic]; rfl)
      · by_cases h1 : t.iceStop = 1
        · by_cases hm : t.monitor = .queued
          · have := hQ (.tpt k .monFirst) rfl
            simp [State.step, ht, tptStep, hm] at this
          · exact close_enabled hQ (l := .connClosed k) (by simp [State.closeNext, hcd, hp, ht, h1, hm]; rfl)
        · have h2 : t.iceStop = 2 := by omega
          cases hq : t.monQuiet with
          | true => exact close_enabled hQ (l := .leaveIce k) (by simp [State.closeNext, hcd, hp, ht, h0, h1, hq]; rfl)
          | false =>
            rcases w3 h2 with h | h
            · rw [hq] at h; simp at h
            · exact mon_step hq h

theorem final_of_quiescent {s : State} (hI : Inv s) (hc : s.closed = true) (hQ : Quiescent s) : Final s := by
  have hconns := conns_done hI hc hQ
  have hcd : s.connsDone = true := by
    simp only [State.connsDone, List.all_eq_true, decide_eq_true_eq]; exact hconns
  have hp := prog_empty hI hQ hcd
  have hdone : s.closeDone = true := by
    cases hd : s.closeDone with
    | true => rfl
    | false =>
      exfalso
      exact close_enabled hQ (l := .leaveClose) (by simp [State.closeNext, hcd, hp, hc, hd]; rfl)
  refine ⟨hdone, hp, hconns, ?_, ?_, ?_, ?_, ?_, ?_⟩
  · intro i t ht
    have := hI.coverT hc i t ht
    rw [hp] at this
    simpa using this
  · intro k t ht
    have := hI.coverK hc k t ht
    rw [hp] at this
    simp only [List.not_mem_nil, false_or] at this
    refine ⟨?_, this.2⟩
    intro hl
    rcases this.1 with h | h
    · exact h hl
    · have := hQ (.tpt k .pumpExit) (by simp [guaranteed, ht, h])
      simp [State.step, ht, tptStep, hl] at this
  · intro sc hs
    have := hI.coverS hc sc hs
    rw [hp] at this
    simpa using this
  · cases hw : s.waiters with
    | zero => rfl
    | succ n =>
      exfalso
      have := hQ .waiterReturn rfl
      simp [State.step, hdone, hw] at this
  · intro ha
    have := hQ (.closeCall true) rfl
    simp [State.step, ha, hc] at this
  · -- a BUNDLE clean-up in progress always has its next step enabled: the transport is unreferenced and was never started
    intro k t ht
    obtain ⟨n1, n2, n3, n4, n5, n6⟩ := hI.wfN k t ht
    rcases Nat.eq_zero_or_pos t.nstop with h0 | h0
    · exact Or.inl h0
    · right
      rcases Nat.lt_or_ge t.nstop 4 with h4 | h4
      · exfalso
        have hg : guaranteed s (.tpt k .nstep) = true := by simp [guaranteed, ht]; omega
        have := hQ (.tpt k .nstep) hg
        have hr := hI.unref k t ht h0
        have hu := n5 h0
        have h123 : t.nstop = 1 ∨ t.nstop = 2 ∨ t.nstop = 3 := by omega
        rcases h123 with h | h | h <;> simp [State.step, ht, hr, tptStep, hu, h] at this
      · omega

end Aiortc.Lemmas.Close
