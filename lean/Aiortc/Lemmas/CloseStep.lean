import Aiortc.Lemmas.CloseInv
/-! C19: every step of the task system preserves the invariant `Inv`. -/
namespace Aiortc.Lemmas.Close
open Aiortc.Model.Close

theorem free_lt {s : State} {k : Nat} (h : s.free k = true) : k < s.tpts.length := by
  unfold State.free at h
  rcases Nat.lt_or_ge k s.tpts.length with h' | h'
  · exact h'
  · rw [List.getElem?_eq_none h'] at h; simp at h

/-- only `inflight`, `auto`, `waiters`, `tset` differ -/
theorem inv_scalar {s s' : State} (hI : Inv s) (h1 : s'.trxs = s.trxs) (h2 : s'.tpts = s.tpts) (h3 : s'.sctp = s.sctp)
    (h4 : s'.conns = s.conns) (h5 : s'.closed = s.closed) (h6 : s'.prog = s.prog) (h7 : s'.closeDone = s.closeDone)
    (h8 : s'.sigClosed = s.sigClosed) (h9 : s'.iceClosed = s.iceClosed) (h10 : s'.connClosed = s.connClosed)
    (h11 : s'.listeners = s.listeners) (hw : s.closed = false → s'.waiters = 0) (h12 : s'.tset = s.tset := by rfl) :
    Inv s' := by
  constructor
  · rw [h1]; exact hI.wfT
  · rw [h2]; exact hI.wfK
  · simpa [ConnsStopped, h4, h5] using hI.conns
  · rw [h5, h6, h7, h1, h2, h3]; intro hc
    obtain ⟨o1, o2, o3, o4, o5, o6⟩ := hI.opn hc
    exact ⟨o1, o2, hw hc, o4, o5, o6⟩
  · rw [h5, h6, h7, h9, h10, h11]; exact hI.dne
  · rw [h5, h8]; exact hI.sig
  · rw [h6]; intro ins hin
    have := hI.valid ins hin
    cases ins <;> simpa [Instr.valid, h1, h2, h3] using this
  · rw [h1, h2, h3]; exact hI.tptOk
  · rw [h5, h1, h6]; exact hI.coverT
  · rw [h5, h2, h6]; exact hI.coverK
  · rw [h5, h3, h6]; exact hI.coverS
  · rw [h5, h2]; intro hc k t hk hu
    have := hI.refs hc k t hk hu
    simpa [State.refd, h1, h3] using this
  · rw [h2]; exact hI.wfN
  · rw [h2]; intro k t hk hn
    have := hI.unref k t hk hn
    simpa [State.refd, h1, h3] using this
  · rw [h12, h2]; exact hI.tsetOk
  · rw [h12]; exact hI.tsetNodup
  · rw [h5, h2, h6]; intro hc k t hk hr
    have hr' : s.refd k = true := by simpa [State.refd, h1, h3] using hr
    exact hI.coverI hc k t hk hr'

theorem inv_autoTrigger {s : State} (hI : Inv s) : Inv s.autoTrigger := by
  unfold State.autoTrigger
  split
  · exact inv_scalar hI rfl rfl rfl rfl rfl rfl rfl rfl rfl rfl rfl (fun hc => (hI.opn hc).2.2.1)
  · exact hI

/-! ### membership in the close program -/

theorem mem_program_rcv {s : State} {i : Nat} (h : i < s.trxs.length) :
    Instr.stopRcv i ∈ s.program ∧ Instr.stopSnd i ∈ s.program := by
  simp only [State.program, List.mem_append, List.mem_flatMap, List.mem_range]
  exact ⟨Or.inl (Or.inl (Or.inl ⟨i, h, by simp⟩)), Or.inl (Or.inl (Or.inl ⟨i, h, by simp⟩))⟩

theorem mem_program_tpt {s : State} {k : Nat} (h : s.refd k = true) :
    Instr.stopDtls k ∈ s.program ∧ Instr.stopIce k ∈ s.program := by
  simp only [State.refd, Bool.or_eq_true, List.any_eq_true] at h
  simp only [State.program, List.mem_append, List.mem_flatMap]
  rcases h with ⟨t, ht, hk⟩ | h
  · simp at hk; subst hk
    exact ⟨Or.inl (Or.inr ⟨t, ht, by simp⟩), Or.inl (Or.inr ⟨t, ht, by simp⟩)⟩
  · cases hs : s.sctp with
    | none => simp [hs] at h
    | some sc =>
      simp [hs] at h; subst h
      exact ⟨Or.inr (by simp), Or.inr (by simp)⟩

theorem mem_program_sctp {s : State} {sc : Sctp} (h : s.sctp = some sc) : Instr.stopSctp ∈ s.program := by
  simp [State.program, h]

theorem program_valid {s : State} (hI : Inv s) : ∀ ins ∈ s.program, Instr.valid s ins := by
  intro ins hin
  simp only [State.program, List.mem_append, List.mem_flatMap, List.mem_range] at hin
  rcases hin with ((⟨i, hi, hm⟩ | hm) | ⟨t, ht, hm⟩) | hm
  · simp at hm; rcases hm with rfl | rfl <;> exact hi
  · cases hs : s.sctp <;> simp [hs] at hm
    subst hm; simp [Instr.valid, hs]
  · obtain ⟨j, hj, hjt⟩ := List.getElem_of_mem ht
    have := hI.tptOk.1 j t (by rw [List.getElem?_eq_getElem hj, hjt])
    simp at hm; rcases hm with rfl | rfl <;> exact this
  · cases hs : s.sctp with
    | none => simp [hs] at hm
    | some sc =>
      have := hI.tptOk.2 sc hs
      simp [hs] at hm; rcases hm with rfl | rfl <;> exact this

/-- the primary `close()` call: latch, cancel every `__connect` task, lay out the teardown program -/
theorem inv_latch {s : State} (hI : Inv s) (hc : s.closed = false) (a : APc) :
    Inv { s with closed := true, sigClosed := true, conns := s.conns.map Conn.cancel, prog := s.program, auto := a } := by
  obtain ⟨o1, o2, o3, o4, o5, o6⟩ := hI.opn hc
  constructor
  · exact hI.wfT
  · exact hI.wfK
  · intro _ c hcm
    simp only [List.mem_map] at hcm
    obtain ⟨c0, _, rfl⟩ := hcm
    unfold Conn.cancel
    split
    · rename_i hd; exact Or.inr hd
    · exact Or.inl rfl
  · intro h; simp at h
  · intro h; simp [o2] at h
  · intro _; rfl
  · intro ins hin
    have := program_valid hI ins hin
    cases ins <;> simpa [Instr.valid] using this
  · exact hI.tptOk
  · intro _ i t ht
    have hlt : i < s.trxs.length := by
      rcases Nat.lt_or_ge i s.trxs.length with h' | h'
      · exact h'
      · rw [List.getElem?_eq_none h'] at ht; simp at ht
    exact ⟨Or.inl (mem_program_rcv hlt).1, Or.inl (mem_program_rcv hlt).2⟩
  · intro _ k t ht
    have hr := hI.refs hc k t ht
    constructor
    · by_cases hp : t.pump = .live
      · exact Or.inl (mem_program_tpt (hr (by simp [Tpt.unstarted, hp]))).1
      · exact Or.inr (Or.inl hp)
    · cases hq : t.monQuiet with
      | true => exact Or.inr rfl
      | false =>
        have : t.unstarted = false := by
          simp only [Tpt.monQuiet, Bool.or_eq_false_iff, decide_eq_false_iff_not] at hq
          simp [Tpt.unstarted, hq.1]
        exact Or.inl (mem_program_tpt (hr this)).2
  · intro _ sc hs
    exact Or.inl (mem_program_sctp hs)
  · intro h; simp at h
  · exact hI.wfN
  · exact hI.unref
  · exact hI.tsetOk
  · exact hI.tsetNodup
  · intro _ k t ht hr
    exact Or.inl (mem_program_tpt hr).2

theorem inv_closeCall {s s' : State} {b : Bool} (hI : Inv s) (h : s.step (.closeCall b) = some s') : Inv s' := by
  simp only [State.step] at h
  split at h
  · simp at h
  · cases hc : s.closed with
    | true =>
      cases b <;> simp [hc] at h <;> subst h <;>
        exact inv_scalar hI rfl rfl rfl rfl (by simp [hc]) rfl rfl rfl rfl rfl rfl (by simp [hc])
    | false =>
      cases b <;> simp [hc] at h <;> subst h
      · exact inv_latch hI hc s.auto
      · exact inv_latch hI hc .ran


theorem quiet_first_false {r r' : Run} (h : r.first = some r') (hq : r.quiet = true) : False :=
  doomed_of_first h (by simp [Run.doomed, hq])

theorem trxStep_done {t t' : Trx} {a : TrxAct} (h : trxStep false t a = some t') (ha : a ≠ .mkTrack) :
    (rcvDone t → rcvDone t') ∧ (t.sndQuiet = true → t'.sndQuiet = true) := by
  cases a with
  | sndStart => simp [trxStep] at h
  | rcvStart => simp [trxStep] at h
  | mkTrack => exact absurd rfl ha
  | first w =>
    simp only [trxStep, Option.map_eq_some_iff] at h
    obtain ⟨r, hr, rfl⟩ := h
    cases w <;> simp only [Trx.get] at hr <;> simp only [Trx.set, rcvDone, Trx.sndQuiet, Bool.and_eq_true]
    · exact ⟨id, fun hq => (quiet_first_false hr hq.1).elim⟩
    · exact ⟨id, fun hq => (quiet_first_false hr hq.2).elim⟩
    · exact ⟨fun hq => (quiet_first_false hr hq.1).elim, id⟩
  | exit w =>
    simp only [trxStep, Option.map_eq_some_iff] at h
    obtain ⟨r, hr, rfl⟩ := h
    have hx := (doomed_exit hr).2
    cases w <;> simp only [Trx.get] at hr <;> simp only [Trx.set, rcvDone, Trx.sndQuiet, Bool.and_eq_true]
    · exact ⟨id, fun hq => ⟨hx, hq.2⟩⟩
    · exact ⟨id, fun hq => ⟨hq.1, hx⟩⟩
    · exact ⟨fun hq => ⟨hx, hq.2⟩, id⟩
  | decoderStop =>
    simp only [trxStep] at h
    split at h
    · rename_i hd
      injection h with h; subst h
      exact ⟨fun hq => absurd hd hq.2.1, id⟩
    · simp at h
  | assign k =>
    simp only [trxStep] at h
    split at h
    · injection h with h; subst h
      exact ⟨id, id⟩
    · simp at h
  | cancel w =>
    simp only [trxStep] at h
    split at h
    · rename_i hs
      injection h with h; subst h
      have hq : ∀ r : Run, r.cancel.quiet = r.quiet := by
        intro r; unfold Run.cancel; split <;> simp_all [Run.quiet]
      cases w <;> simp only [Trx.get, Trx.set, rcvDone, Trx.sndQuiet, hq] <;> exact ⟨id, id⟩
    · simp at h

theorem trxStep_tpt {live : Bool} {t t' : Trx} {a : TrxAct} (h : trxStep live t a = some t') (ha : ∀ k, a ≠ .assign k) :
    t'.tpt = t.tpt := by
  cases a with
  | assign k => exact absurd rfl (ha k)
  | first w | exit w =>
    simp only [trxStep, Option.map_eq_some_iff] at h
    obtain ⟨r, -, rfl⟩ := h
    cases w <;> simp [Trx.set]
  | cancel w =>
    simp only [trxStep] at h
    split at h
    · injection h with h; subst h; cases w <;> simp [Trx.set]
    · simp at h
  | sndStart | rcvStart | decoderStop | mkTrack =>
    simp only [trxStep] at h
    first
      | (split at h
         · injection h with h; subst h; simp
         · simp at h)
      | (injection h with h; subst h; simp)

theorem zero_of_open {s : State} (hI : Inv s) {i : Nat} {t : Trx} (ht : s.trxs[i]? = some t) (hc : s.closed = false) :
    t.rcvStop = 0 ∧ t.sndStop = 0 := (hI.opn hc).2.2.2.1 i t ht

theorem zero_of_openK {s : State} (hI : Inv s) {k : Nat} {t : Tpt} (ht : s.tpts[k]? = some t) (hc : s.closed = false) :
    t.dtlsStop = 0 ∧ t.iceStop = 0 := (hI.opn hc).2.2.2.2.1 k t ht

/-- a transceiver step other than the BUNDLE re-assignment -/
theorem inv_trx_local {s : State} {i : Nat} {t t' : Trx} {a : TrxAct} (hI : Inv s) (ht : s.trxs[i]? = some t)
    (h : trxStep s.liveConn t a = some t') (ha : ∀ k, a ≠ .assign k) (hm : a = .mkTrack → s.closed = false) :
    Inv (s.setTrx i t') := by
  have hstops := trxStep_stops h
  apply inv_setTrx hI ht
  · apply trxStep_wf (hI.wfT i t ht) h
    rintro (hl | hmk)
    · exact zero_of_open hI ht (live_open hI hl)
    · exact zero_of_open hI ht (hm hmk)
  · intro hc; rw [hstops.1, hstops.2]; exact zero_of_open hI ht hc
  · exact trxStep_tpt h ha
  · intro hc
    have hl := liveConn_false hI.conns hc
    rw [hl] at h
    have hne : a ≠ .mkTrack := by intro hmk; have := hm hmk; rw [hc] at this; simp at this
    exact (trxStep_done h hne).1
  · intro hc
    have hl := liveConn_false hI.conns hc
    rw [hl] at h
    have hne : a ≠ .mkTrack := by intro hmk; have := hm hmk; rw [hc] at this; simp at this
    exact (trxStep_done h hne).2

theorem refd_mono_set {s : State} {i : Nat} {t : Trx} {k j : Nat} (ht : s.trxs[i]? = some t) (hj : t.tpt ≠ j)
    (h : s.refd j = true) : (s.setTrx i { t with tpt := k }).refd j = true := by
  simp only [State.refd, State.setTrx, Bool.or_eq_true] at h ⊢
  refine h.imp ?_ id
  intro ha
  rw [List.any_eq_true] at ha ⊢
  obtain ⟨x, hx, hxk⟩ := ha
  obtain ⟨n, hn, hnx⟩ := List.getElem_of_mem hx
  by_cases hin : i = n
  · subst hin
    have : s.trxs[i]? = some x := by rw [List.getElem?_eq_getElem hn, hnx]
    rw [ht] at this; injection this with this; subst this
    simp at hxk; exact absurd hxk hj
  · exact ⟨x, List.mem_iff_getElem?.mpr ⟨n, by simp [List.getElem?_set, hin, hn, hnx]⟩, hxk⟩

theorem refd_setTrx_le {s : State} {i : Nat} {t' : Trx} {j : Nat} (h : (s.setTrx i t').refd j = true) :
    s.refd j = true ∨ t'.tpt = j := by
  simp only [State.refd, State.setTrx, Bool.or_eq_true] at h ⊢
  rcases h with h | h
  · rw [List.any_eq_true] at h
    obtain ⟨x, hx, hxk⟩ := h
    rcases List.mem_or_eq_of_mem_set hx with h1 | h1
    · exact Or.inl (Or.inl (List.any_eq_true.mpr ⟨x, h1, hxk⟩))
    · subst h1; exact Or.inr (by simpa using hxk)
  · exact Or.inl (Or.inr h)

theorem free_nstop {s : State} {k : Nat} {t : Tpt} (h : s.free k = true) (ht : s.tpts[k]? = some t) : t.nstop = 0 := by
  unfold State.free at h; rw [ht] at h; simpa using h

theorem inv_trx_assign {s s' : State} {i k : Nat} (hI : Inv s) (h : s.step (.trx i (.assign k)) = some s') : Inv s' := by
  simp only [State.step] at h
  split at h
  · rename_i t ht
    split at h
    · rename_i old hold
      split at h
      · rename_i hg
        simp only [Bool.and_eq_true, Bool.not_eq_true', decide_eq_true_eq] at hg
        obtain ⟨⟨hc, hk⟩, hun⟩ := hg
        simp only [trxStep, Option.map_eq_some_iff] at h
        obtain ⟨t', ht', rfl⟩ := h
        split at ht'
        · injection ht' with ht'; subst ht'
          have hz := zero_of_open hI ht hc
          constructor
          · exact forall_set hI.wfT (by have := hI.wfT i t ht; simpa [WfTrx] using this)
          · exact hI.wfK
          · exact hI.conns
          · intro _
            obtain ⟨o1, o2, o3, o4, o5, o6⟩ := hI.opn hc
            exact ⟨o1, o2, o3, forall_set o4 hz, o5, o6⟩
          · exact hI.dne
          · exact hI.sig
          · intro ins hin
            have := hI.valid ins hin
            cases ins <;> simpa [Instr.valid, State.setTrx] using this
          · exact ⟨forall_set hI.tptOk.1 (free_lt hk), hI.tptOk.2⟩
          · intro hc'; simp [State.setTrx, hc] at hc'
          · intro hc'; simp [State.setTrx, hc] at hc'
          · intro hc'; simp [State.setTrx, hc] at hc'
          · intro _ j tj hj hu
            have hr := hI.refs hc j tj hj hu
            by_cases hjo : t.tpt = j
            · subst hjo
              simp only [State.setTrx] at hj
              rw [hold] at hj; injection hj with hj; subst hj
              rw [hun] at hu; simp at hu
            · exact refd_mono_set ht hjo hr
          · exact hI.wfN
          · intro j tj hj hn
            cases hrj : (s.setTrx i { t with tpt := k }).refd j with
            | false => rfl
            | true =>
              rcases refd_setTrx_le hrj with h1 | h1
              · have := hI.unref j tj hj hn; rw [h1] at this; simp at this
              · simp at h1; subst h1
                have := free_nstop hk hj; omega
          · exact hI.tsetOk
          · exact hI.tsetNodup
          · intro hc'; simp [State.setTrx, hc] at hc'
        · simp at ht'
      · simp at h
    · simp at h
  · simp at h

theorem inv_trx {s s' : State} {i : Nat} {a : TrxAct} (hI : Inv s) (h : s.step (.trx i a) = some s') : Inv s' := by
  cases a with
  | assign k => exact inv_trx_assign hI h
  | mkTrack =>
    simp only [State.step] at h
    split at h
    · rename_i t ht
      split at h
      · simp at h
      · rename_i hc
        simp only [Option.map_eq_some_iff] at h
        obtain ⟨t', ht', rfl⟩ := h
        exact inv_trx_local hI ht ht' (by simp) (fun _ => by simpa using hc)
    · simp at h
  | sndStart | rcvStart | first w | exit w | decoderStop | cancel w =>
    simp only [State.step] at h
    split at h
    · rename_i t ht
      simp only [Option.map_eq_some_iff] at h
      obtain ⟨t', ht', rfl⟩ := h
      exact inv_trx_local hI ht ht' (by simp) (by simp)
    · simp at h

theorem tptStep_done {t t' : Tpt} {a : TptAct} (h : tptStep false t a = some t') :
    ((t.pump ≠ .live ∨ t.pumpCancel = true) → (t'.pump ≠ .live ∨ t'.pumpCancel = true))
    ∧ (t.monQuiet = true → t'.monQuiet = true) := by
  cases a with
  | iceStart | iceDone ok | dtlsStart | dtlsUp | dtlsFail => simp [tptStep] at h
  | pumpExit =>
    simp only [tptStep] at h
    split at h
    · injection h with h; subst h; exact ⟨fun _ => Or.inl (by simp), id⟩
    · simp at h
  | monFirst =>
    simp only [tptStep] at h
    split at h
    · rename_i hq
      injection h with h; subst h
      exact ⟨id, fun hm => by simp [Tpt.monQuiet, hq] at hm⟩
    · simp at h
  | monExit =>
    simp only [tptStep] at h
    split at h
    · injection h with h; subst h; exact ⟨id, fun _ => by simp [Tpt.monQuiet]⟩
    · simp at h
  | nstep =>
    simp only [tptStep] at h
    repeat' split at h
    all_goals (try (simp at h; done))
    all_goals (injection h with h; subst h; exact ⟨id, id⟩)

theorem tptStep_unstarted {live : Bool} {t t' : Tpt} {a : TptAct} (h : tptStep live t a = some t')
    (hu : t'.unstarted = false) : t.unstarted = false ∨ a = .iceStart ∨ a = .dtlsStart := by
  cases a with
  | iceStart => exact Or.inr (Or.inl rfl)
  | dtlsStart => exact Or.inr (Or.inr rfl)
  | iceDone ok | dtlsUp | dtlsFail | pumpExit | monFirst | monExit | nstep =>
    left
    simp only [tptStep] at h
    repeat' split at h
    all_goals (try (simp at h; done))
    all_goals (injection h with h; subst h; simp_all [Tpt.unstarted])

theorem tptStep_N {live : Bool} {t t' : Tpt} {a : TptAct} (hw : WfN t) (h : tptStep live t a = some t') (ha : a ≠ .nstep)
    (hfree : a = .iceStart ∨ a = .dtlsStart → t.nstop = 0) (hz : live = true → t.iceStop = 0) :
    WfN t' ∧ t'.nstop = t.nstop ∧ t'.inSet = t.inSet ∧ (t.ice = .closed → t'.ice = .closed) := by
  obtain ⟨n1, n2, n3, n4, n5, n6⟩ := hw
  have hun : t.unstarted = false → t.nstop = 0 := by
    intro hu
    rcases Nat.eq_zero_or_pos t.nstop with h0 | h0
    · exact h0
    · rw [n5 h0] at hu; simp at hu
  cases a with
  | nstep => exact absurd rfl ha
  | iceStart =>
    have h0 := hfree (Or.inl rfl)
    simp only [tptStep] at h
    split at h
    · rename_i hg; simp at hg
      have hi := hz hg.1.1
      injection h with h; subst h
      simp_all [WfN]
    · simp at h
  | dtlsStart =>
    have h0 := hfree (Or.inr rfl)
    simp only [tptStep] at h
    split at h
    · rename_i hg; simp at hg
      injection h with h; subst h
      simp_all [WfN]
    · simp at h
  | iceDone ok =>
    simp only [tptStep] at h
    split at h
    · rename_i hg; simp at hg
      have hi := hz hg.1
      injection h with h; subst h
      have : ¬ (2 ≤ t.nstop) := fun h2 => by have := n2 h2; rw [hg.2] at this; simp at this
      refine ⟨⟨n1, fun h2 => absurd h2 this, n3, n4, ?_, ?_⟩, rfl, rfl, fun hc => by rw [hg.2] at hc; simp at hc⟩
      · intro h1; simpa [Tpt.unstarted] using n5 h1
      · intro h1; simp [hi] at h1
    · simp at h
  | dtlsUp =>
    simp only [tptStep] at h
    split at h
    · rename_i hg; simp at hg
      have h0 : t.nstop = 0 := hun (by simp [Tpt.unstarted, hg.1.2])
      injection h with h; subst h
      exact ⟨⟨by simp [h0], by simp [h0], by simp [h0], by simpa [h0] using n4, by simp [h0], n6⟩, rfl, rfl, fun hc => hc⟩
    · simp at h
  | dtlsFail =>
    simp only [tptStep] at h
    split at h
    · rename_i hg; simp at hg
      have h0 : t.nstop = 0 := hun (by simp [Tpt.unstarted, hg.2])
      injection h with h; subst h
      exact ⟨⟨by simp [h0], by simp [h0], by simp [h0], by simpa [h0] using n4, by simp [h0], n6⟩, rfl, rfl, fun hc => hc⟩
    · simp at h
  | pumpExit =>
    simp only [tptStep] at h
    split at h
    · rename_i hg
      have h0 : t.nstop = 0 := hun (by simp [Tpt.unstarted, hg])
      injection h with h; subst h
      exact ⟨⟨by simp [h0], by simp [h0], by simp [h0], by simpa [h0] using n4, by simp [h0], n6⟩, rfl, rfl, fun hc => hc⟩
    · simp at h
  | monFirst =>
    simp only [tptStep] at h
    split at h
    · rename_i hg
      have h0 : t.nstop = 0 := hun (by simp [Tpt.unstarted, hg])
      injection h with h; subst h
      exact ⟨⟨by simp [h0], by simp [h0], by simp [h0], by simpa [h0] using n4, by simp [h0], n6⟩, rfl, rfl, fun hc => hc⟩
    · simp at h
  | monExit =>
    simp only [tptStep] at h
    split at h
    · rename_i hg; simp at hg
      have h0 : t.nstop = 0 := hun (by simp [Tpt.unstarted, hg.1])
      injection h with h; subst h
      exact ⟨⟨by simp [h0], by simp [h0], by simp [h0], by simpa [h0] using n4, by simp [h0], n6⟩, rfl, rfl, fun hc => hc⟩
    · simp at h

/-- the clean-up steps: each does to the transport what the position says -/
theorem nstep_N {live : Bool} {t t' : Tpt} (hw : WfN t) (h : tptStep live t .nstep = some t') :
    WfN t' ∧ 1 ≤ t'.nstop ∧ (t.ice = .closed → t'.ice = .closed)
    ∧ ((t'.inSet = t.inSet) ∨ (t'.inSet = false ∧ t.inSet = true)) := by
  obtain ⟨n1, n2, n3, n4, n5, n6⟩ := hw
  simp only [tptStep] at h
  split at h
  · rename_i hu
    have hu' : ∀ x : Tpt, x.pump = t.pump → x.monitor = t.monitor → x.dtls = t.dtls → x.unstarted = true := by
      intro x a b c; simpa [Tpt.unstarted, a, b, c] using hu
    repeat' split at h
    all_goals (try (simp at h; done))
    all_goals (injection h with h; subst h)
    · rename_i h0
      refine ⟨⟨by simp, by simp, by simp, ?_, fun _ => hu' _ rfl rfl rfl, n6⟩, by simp, fun hc => hc, Or.inl rfl⟩
      simpa [h0] using n4
    · rename_i h0 h1
      refine ⟨⟨by simp, by simp, by simp, ?_, fun _ => hu' _ rfl rfl rfl, fun _ => rfl⟩, by simp, fun _ => rfl, Or.inl rfl⟩
      simpa [h1] using n4
    · rename_i h0 h1 h2
      refine ⟨⟨by simp, fun _ => n2 (by omega), by simp, ?_, fun _ => hu' _ rfl rfl rfl, n6⟩, by simp, fun hc => hc, Or.inl rfl⟩
      simpa [h2] using n4
    · rename_i h0 h1 h2 h3
      refine ⟨⟨by simp, fun _ => n2 (by omega), fun _ => n3 (by omega), by simp, fun _ => hu' _ rfl rfl rfl, n6⟩, by simp,
        fun hc => hc, Or.inr ⟨rfl, ?_⟩⟩
      cases hin : t.inSet with
      | true => rfl
      | false => have := n4.mp hin; omega
  · simp at h

theorem inv_tpt_local {s : State} {k : Nat} {t t' : Tpt} {a : TptAct} (hI : Inv s) (ht : s.tpts[k]? = some t)
    (h : tptStep s.liveConn t a = some t') (hr : a = .iceStart ∨ a = .dtlsStart → s.refd k = true)
    (ha : a ≠ .nstep := by simp) : Inv (s.setTpt k t') := by
  have hstops := tptStep_stops h
  have hN := tptStep_N (hI.wfN k t ht) h ha
    (fun hs => by
      have hrk := hr hs
      rcases Nat.eq_zero_or_pos t.nstop with h0 | h0
      · exact h0
      · have := hI.unref k t ht h0; rw [hrk] at this; simp at this)
    (fun hl => (zero_of_openK hI ht (live_open hI hl)).2)
  apply inv_setTpt hI ht (hn := hN.1) (hn2 := Or.inl hN.2.1) (hice := hN.2.2.2) (hin := hN.2.2.1)
  · apply tptStep_wf (hI.wfK k t ht) h
    intro hl; exact zero_of_openK hI ht (live_open hI hl)
  · intro hc; rw [hstops.1, hstops.2]; exact zero_of_openK hI ht hc
  · intro hc
    rw [liveConn_false hI.conns hc] at h
    exact (tptStep_done h).1
  · intro hc
    rw [liveConn_false hI.conns hc] at h
    exact (tptStep_done h).2
  · intro _ hu
    rcases tptStep_unstarted h hu with h1 | h1
    · exact Or.inl h1
    · exact Or.inr (hr h1)

theorem inv_tpt {s s' : State} {k : Nat} {a : TptAct} (hI : Inv s) (h : s.step (.tpt k a) = some s') : Inv s' := by
  cases a with
  | pumpExit =>
    simp only [State.step] at h
    split at h
    · rename_i t ht
      simp only [Option.map_eq_some_iff] at h
      obtain ⟨t', ht', rfl⟩ := h
      exact inv_autoTrigger (inv_tpt_local hI ht ht' (by simp))
    · simp at h
  | nstep =>
    simp only [State.step] at h
    split at h
    · rename_i t ht
      split at h
      · rename_i hnr
        simp only [Bool.not_eq_true'] at hnr
        simp only [Option.map_eq_some_iff] at h
        obtain ⟨t', ht', rfl⟩ := h
        have hstops := tptStep_stops ht'
        obtain ⟨hn, hn1, hice, hin⟩ := nstep_N (hI.wfN k t ht) ht'
        have hwf := tptStep_wf (hI.wfK k t ht) ht' (fun hl => zero_of_openK hI ht (live_open hI hl))
        have hun : t'.unstarted = false → t.unstarted = false ∨ s.refd k = true := fun hu =>
          (tptStep_unstarted ht' hu).imp id (fun h => by rcases h with h | h <;> simp at h)
        have key : ∀ ts', (ts' = s.tset ∧ t'.inSet = t.inSet ∨ ts' = s.tset.erase k ∧ t'.inSet = false) →
            Inv { s.setTpt k t' with tset := ts' } := fun ts' hts =>
          inv_setTpt' ts' hI ht hwf (fun hc => by rw [hstops.1, hstops.2]; exact zero_of_openK hI ht hc)
            (fun hc => by rw [liveConn_false hI.conns hc] at ht'; exact (tptStep_done ht').1)
            (fun hc => by rw [liveConn_false hI.conns hc] at ht'; exact (tptStep_done ht').2)
            (fun _ => hun) hn (Or.inr (fun _ => hnr)) hice hts
        unfold State.syncSet
        split
        · rename_i hi
          rcases hin with h1 | h1
          · exact key s.tset (Or.inl ⟨rfl, h1⟩)
          · rw [h1.1] at hi; simp at hi
        · rename_i hi
          simp only [Bool.not_eq_true] at hi
          exact key (s.tset.erase k) (Or.inr ⟨rfl, hi⟩)
      · simp at h
    · simp at h
  | iceStart | dtlsStart =>
    simp only [State.step] at h
    split at h
    · rename_i t ht
      split at h
      · rename_i hr
        simp only [Option.map_eq_some_iff] at h
        obtain ⟨t', ht', rfl⟩ := h
        exact inv_tpt_local hI ht ht' (fun _ => hr)
      · simp at h
    · simp at h
  | iceDone ok | dtlsUp | dtlsFail | monFirst | monExit =>
    simp only [State.step] at h
    split at h
    · rename_i t ht
      simp only [Option.map_eq_some_iff] at h
      obtain ⟨t', ht', rfl⟩ := h
      exact inv_tpt_local hI ht ht' (by simp)
    · simp at h


theorem refd_mono {s s' : State} {k : Nat} (h : s.refd k = true)
    (ht : ∀ x ∈ s.trxs, x ∈ s'.trxs) (hs : ∀ sc, s.sctp = some sc → ∃ sc', s'.sctp = some sc' ∧ sc'.tpt = sc.tpt) :
    s'.refd k = true := by
  simp only [State.refd, Bool.or_eq_true, List.any_eq_true] at h ⊢
  rcases h with ⟨x, hx, hxk⟩ | h
  · exact Or.inl ⟨x, ht x hx, hxk⟩
  · right
    cases hsc : s.sctp with
    | none => simp [hsc] at h
    | some sc =>
      obtain ⟨sc', h', hk⟩ := hs sc hsc
      simp [hsc] at h
      simp [h', hk, h]

/-- configuration inputs while the connection is open -/
theorem inv_config {s s' : State} (hI : Inv s) (hc : s.closed = false) (hc' : s'.closed = false)
    (hconns : s'.conns = s.conns) (hprog : s'.prog = []) (hdone : s'.closeDone = false) (hw : s'.waiters = 0)
    (hT : ∀ (i : Nat) (t : Trx), s'.trxs[i]? = some t → WfTrx t ∧ t.rcvStop = 0 ∧ t.sndStop = 0 ∧ t.tpt < s'.tpts.length)
    (hK : ∀ (k : Nat) (t : Tpt), s'.tpts[k]? = some t → WfTpt t ∧ t.dtlsStop = 0 ∧ t.iceStop = 0
            ∧ (t.unstarted = false → s'.refd k = true))
    (hS : ∀ (sc : Sctp), s'.sctp = some sc → sc.stop = 0 ∧ sc.tpt < s'.tpts.length)
    (hN : ∀ (k : Nat) (t : Tpt), s'.tpts[k]? = some t → WfN t ∧ (1 ≤ t.nstop → s'.refd k = false))
    (hts : ∀ (k : Nat), k ∈ s'.tset ↔ ∃ t, s'.tpts[k]? = some t ∧ t.inSet = true) (hnd : s'.tset.Nodup) : Inv s' := by
  constructor
  · exact fun i t h => (hT i t h).1
  · exact fun k t h => (hK k t h).1
  · intro h; rw [hc'] at h; simp at h
  · intro _
    exact ⟨hprog, hdone, hw, fun i t h => ⟨(hT i t h).2.1, (hT i t h).2.2.1⟩,
      fun k t h => ⟨(hK k t h).2.1, (hK k t h).2.2.1⟩, fun sc h => (hS sc h).1⟩
  · intro h; rw [hdone] at h; simp at h
  · intro h; rw [hc'] at h; simp at h
  · intro ins hin; rw [hprog] at hin; simp at hin
  · exact ⟨fun i t h => (hT i t h).2.2.2, fun sc h => (hS sc h).2⟩
  · intro h; rw [hc'] at h; simp at h
  · intro h; rw [hc'] at h; simp at h
  · intro h; rw [hc'] at h; simp at h
  · exact fun _ k t h => (hK k t h).2.2.2
  · exact fun k t h => (hN k t h).1
  · exact fun k t h => (hN k t h).2
  · exact hts
  · exact hnd
  · intro h; rw [hc'] at h; simp at h

/-- new references go to a free transport only: the transports under clean-up stay unreferenced -/
theorem unref_grow {s s' : State} (hI : Inv s) {k : Nat} (hk : s.free k = true) (htp : s'.tpts = s.tpts)
    (hle : ∀ j, s'.refd j = true → s.refd j = true ∨ j = k) :
    ∀ (j : Nat) (t : Tpt), s'.tpts[j]? = some t → WfN t ∧ (1 ≤ t.nstop → s'.refd j = false) := by
  intro j t hj
  rw [htp] at hj
  refine ⟨hI.wfN j t hj, fun hn => ?_⟩
  cases hr : s'.refd j with
  | false => rfl
  | true =>
    rcases hle j hr with h1 | h1
    · have := hI.unref j t hj hn; rw [h1] at this; simp at this
    · subst h1; have := free_nstop hk hj; omega

theorem open_facts {s : State} (hI : Inv s) (hc : s.closed = false) :
    (∀ (i : Nat) (t : Trx), s.trxs[i]? = some t → WfTrx t ∧ t.rcvStop = 0 ∧ t.sndStop = 0 ∧ t.tpt < s.tpts.length)
    ∧ (∀ (k : Nat) (t : Tpt), s.tpts[k]? = some t → WfTpt t ∧ t.dtlsStop = 0 ∧ t.iceStop = 0
        ∧ (t.unstarted = false → s.refd k = true))
    ∧ (∀ (sc : Sctp), s.sctp = some sc → sc.stop = 0 ∧ sc.tpt < s.tpts.length) := by
  obtain ⟨o1, o2, o3, o4, o5, o6⟩ := hI.opn hc
  exact ⟨fun i t h => ⟨hI.wfT i t h, (o4 i t h).1, (o4 i t h).2, hI.tptOk.1 i t h⟩,
    fun k t h => ⟨hI.wfK k t h, (o5 k t h).1, (o5 k t h).2, hI.refs hc k t h⟩,
    fun sc h => ⟨o6 sc h, hI.tptOk.2 sc h⟩⟩

theorem inv_addTpt {s s' : State} (hI : Inv s) (h : s.step .addTpt = some s') : Inv s' := by
  simp only [State.step] at h
  split at h
  · simp at h
  · rename_i hc
    simp at hc
    injection h with h; subst h
    obtain ⟨fT, fK, fS⟩ := open_facts hI hc
    obtain ⟨o1, o2, o3, -⟩ := hI.opn hc
    have hlt : ∀ j, j ∈ s.tset → j < s.tpts.length := by
      intro j hj
      obtain ⟨t, ht, -⟩ := (hI.tsetOk j).mp hj
      rcases Nat.lt_or_ge j s.tpts.length with h' | h'
      · exact h'
      · rw [List.getElem?_eq_none h'] at ht; simp at ht
    refine inv_config hI hc hc rfl o1 o2 o3 ?_ ?_ ?_ ?_ ?_ ?_
    · intro i t ht
      obtain ⟨a, b, c, d⟩ := fT i t ht
      exact ⟨a, b, c, by simp; omega⟩
    · refine forall_append ?_ ?_
      · intro k t hk
        obtain ⟨a, b, c, d⟩ := fK k t hk
        exact ⟨a, b, c, fun hu => by simpa [State.refd] using d hu⟩
      · exact ⟨wfTpt_init, rfl, rfl, by simp [Tpt.unstarted]⟩
    · intro sc hs
      obtain ⟨a, b⟩ := fS sc hs
      exact ⟨a, by simp; omega⟩
    · refine forall_append ?_ ?_
      · intro k t hk
        exact ⟨hI.wfN k t hk, fun hn => by simpa [State.refd] using hI.unref k t hk hn⟩
      · exact ⟨wfN_init, fun hn => by simp at hn⟩
    · intro j
      simp only [List.mem_append, List.mem_singleton]
      constructor
      · rintro (hj | hj)
        · obtain ⟨t, ht, hin⟩ := (hI.tsetOk j).mp hj
          exact ⟨t, by rw [List.getElem?_append_left (hlt j hj)]; exact ht, hin⟩
        · subst hj; exact ⟨{}, by simp, rfl⟩
      · rintro ⟨t, ht, hin⟩
        rcases Nat.lt_or_ge j s.tpts.length with h' | h'
        · rw [List.getElem?_append_left h'] at ht
          exact Or.inl ((hI.tsetOk j).mpr ⟨t, ht, hin⟩)
        · right
          rcases Nat.eq_or_lt_of_le h' with h'' | h''
          · exact h''.symm
          · rw [List.getElem?_eq_none (by simp; omega)] at ht; simp at ht
    · rw [List.nodup_append]
      refine ⟨hI.tsetNodup, by simp, ?_⟩
      intro a ha b hb
      simp at hb; subst hb
      have := hlt a ha; omega

theorem inv_addTrx {s s' : State} {k : Nat} (hI : Inv s) (h : s.step (.addTrx k) = some s') : Inv s' := by
  simp only [State.step] at h
  split at h
  · rename_i hg
    simp at hg
    obtain ⟨hc, hk⟩ := hg
    injection h with h; subst h
    obtain ⟨fT, fK, fS⟩ := open_facts hI hc
    obtain ⟨o1, o2, o3, -⟩ := hI.opn hc
    refine inv_config hI hc hc rfl o1 o2 o3 ?_ ?_ ?_ ?_ ?_ ?_
    · exact forall_append fT ⟨wfTrx_init k, rfl, rfl, free_lt hk⟩
    · intro j t hj
      obtain ⟨a, b, c, d⟩ := fK j t hj
      refine ⟨a, b, c, fun hu => refd_mono (d hu) ?_ ?_⟩
      · intro x hx; exact List.mem_append_left _ hx
      · intro sc hs; exact ⟨sc, hs, rfl⟩
    · exact fS
    · refine unref_grow hI hk rfl ?_
      intro j hj
      simp only [State.refd, List.any_append, Bool.or_eq_true] at hj ⊢
      rcases hj with (hj | hj) | hj
      · exact Or.inl (Or.inl hj)
      · right; have hj' : k = j := by simpa using hj
        exact hj'.symm
      · exact Or.inl (Or.inr hj)
    · exact hI.tsetOk
    · exact hI.tsetNodup
  · simp at h

theorem inv_addSctp {s s' : State} {k : Nat} (hI : Inv s) (h : s.step (.addSctp k) = some s') : Inv s' := by
  simp only [State.step] at h
  split at h
  · rename_i hg
    simp at hg
    obtain ⟨⟨hc, hn⟩, hk⟩ := hg
    injection h with h; subst h
    obtain ⟨fT, fK, fS⟩ := open_facts hI hc
    obtain ⟨o1, o2, o3, -⟩ := hI.opn hc
    refine inv_config hI hc hc rfl o1 o2 o3 fT ?_ ?_ ?_ hI.tsetOk hI.tsetNodup
    · intro j t hj
      obtain ⟨a, b, c, d⟩ := fK j t hj
      refine ⟨a, b, c, fun hu => refd_mono (d hu) (fun x hx => hx) ?_⟩
      intro sc hs; rw [hn] at hs; simp at hs
    · intro sc hs; simp at hs; subst hs; exact ⟨rfl, free_lt hk⟩
    · refine unref_grow hI hk rfl ?_
      intro j hj
      simp only [State.refd, Bool.or_eq_true] at hj ⊢
      rcases hj with hj | hj
      · exact Or.inl (Or.inl hj)
      · right; have hj' : k = j := by simpa using hj
        exact hj'.symm
  · simp at h

theorem inv_assignSctp {s s' : State} {k : Nat} (hI : Inv s) (h : s.step (.assignSctp k) = some s') : Inv s' := by
  simp only [State.step] at h
  split at h
  · rename_i sc hs
    split at h
    · rename_i old hold
      split at h
      · rename_i hg
        simp only [Bool.and_eq_true, Bool.not_eq_true', decide_eq_true_eq] at hg
        obtain ⟨⟨⟨hc, hst⟩, hk⟩, hun⟩ := hg
        injection h with h; subst h
        obtain ⟨fT, fK, fS⟩ := open_facts hI hc
        obtain ⟨o1, o2, o3, -⟩ := hI.opn hc
        refine inv_config hI hc hc rfl o1 o2 o3 fT ?_ ?_ ?_ hI.tsetOk hI.tsetNodup
        rotate_left 2
        · refine unref_grow hI hk rfl ?_
          intro j hj
          simp only [State.refd, Bool.or_eq_true] at hj ⊢
          rcases hj with hj | hj
          · exact Or.inl (Or.inl hj)
          · right; have hj' : k = j := by simpa using hj
            exact hj'.symm
        · intro j t hj
          obtain ⟨a, b, c, d⟩ := fK j t hj
          refine ⟨a, b, c, fun hu => ?_⟩
          have hr := d hu
          simp only [State.refd, Bool.or_eq_true] at hr ⊢
          rcases hr with hr | hr
          · exact Or.inl hr
          · simp [hs] at hr
            subst hr
            simp only at hj
            rw [hold] at hj; injection hj with hj; subst hj
            rw [hun] at hu; simp at hu
        · intro sc' hs'; simp at hs'; subst hs'
          exact ⟨(fS sc hs).1, free_lt hk⟩
      · simp at h
    · simp at h
  · simp at h

/-- only the list of `__connect` tasks changes -/
theorem inv_conns {s : State} (hI : Inv s) (cs : List Conn)
    (h : s.closed = true → ∀ c ∈ cs, c.cancelReq = true ∨ c.pc = .done) : Inv { s with conns := cs } := by
  constructor
  · exact hI.wfT
  · exact hI.wfK
  · exact h
  · exact hI.opn
  · exact hI.dne
  · exact hI.sig
  · intro ins hin
    have := hI.valid ins hin
    cases ins <;> simpa [Instr.valid] using this
  · exact hI.tptOk
  · exact hI.coverT
  · exact hI.coverK
  · exact hI.coverS
  · intro hc k t hk hu
    have := hI.refs hc k t hk hu
    simpa [State.refd] using this
  · exact hI.wfN
  · intro k t hk hn
    have := hI.unref k t hk hn
    simpa [State.refd] using this
  · exact hI.tsetOk
  · exact hI.tsetNodup
  · intro hc k t hk hr
    have hr' : s.refd k = true := by simpa [State.refd] using hr
    exact hI.coverI hc k t hk hr'

theorem inv_step {s s' : State} {a : Action} (hI : Inv s) (h : s.step a = some s') : Inv s' := by
  cases a with
  | closeCall b => exact inv_closeCall hI h
  | negBegin =>
    simp only [State.step] at h
    split at h
    · simp at h
    · injection h with h; subst h
      exact inv_scalar hI rfl rfl rfl rfl rfl rfl rfl rfl rfl rfl rfl (fun hc => (hI.opn hc).2.2.1)
  | negSpawn =>
    simp only [State.step] at h
    split at h
    · rename_i hg
      simp at hg
      injection h with h; subst h
      exact inv_conns hI _ (fun hc => by rw [hg.1] at hc; simp at hc)
    · simp at h
  | negEnd =>
    simp only [State.step] at h
    split at h
    · injection h with h; subst h
      exact inv_scalar hI rfl rfl rfl rfl rfl rfl rfl rfl rfl rfl rfl (fun hc => (hI.opn hc).2.2.1)
    · simp at h
  | addTpt => exact inv_addTpt hI h
  | addTrx k => exact inv_addTrx hI h
  | addSctp k => exact inv_addSctp hI h
  | assignSctp k => exact inv_assignSctp hI h
  | chanNew =>
    simp only [State.step] at h
    split at h
    · rename_i sc hs
      split at h
      · rename_i hg
        simp at hg
        injection h with h; subst h
        exact inv_setSctp hI hs rfl (fun hc => (hI.opn hc).2.2.2.2.2 sc hs)
          (fun hd => by rw [hd.1] at hg; simp at hg)
      · simp at h
    · simp at h
  | chanEv j c =>
    simp only [State.step] at h
    split at h
    · rename_i sc hs
      split at h
      · split at h
        · rename_i hg
          simp at hg
          injection h with h; subst h
          exact inv_setSctp hI hs rfl (fun hc => (hI.opn hc).2.2.2.2.2 sc hs)
            (fun hd => by rw [hd.1] at hg; simp at hg)
        · simp at h
      · simp at h
    · simp at h
  | trx i a => exact inv_trx hI h
  | tpt k a => exact inv_tpt hI h
  | connFirst c =>
    simp only [State.step] at h
    split at h
    · rename_i cn hcn
      split at h
      · rename_i hg
        simp at hg
        injection h with h; subst h
        apply inv_conns hI
        intro hc
        rcases hI.conns hc cn (List.mem_of_getElem? hcn) with h1 | h1 <;> simp [h1] at hg
      · simp at h
    · simp at h
  | connExit c =>
    simp only [State.step] at h
    split at h
    · rename_i cn hcn
      split at h
      · injection h with h; subst h
        apply inv_conns hI
        intro hc x hx
        rcases List.mem_or_eq_of_mem_set hx with h1 | h1
        · exact hI.conns hc x h1
        · subst h1; exact Or.inr rfl
      · simp at h
    · simp at h
  | sctpStart =>
    simp only [State.step] at h
    split at h
    · rename_i sc hs
      split at h
      · rename_i hg
        simp at hg
        injection h with h; subst h
        exact inv_setSctp hI hs rfl (fun hc => (hI.opn hc).2.2.2.2.2 sc hs)
          (fun hd => by rw [hd.1] at hg; simp at hg)
      · simp at h
    · simp at h
  | close l =>
    simp only [State.step] at h
    split at h
    · rename_i l' s'' hn
      split at h
      · injection h with h; subst h
        exact inv_closeNext hI hn
      · simp at h
    · simp at h
  | waiterReturn =>
    simp only [State.step] at h
    split at h
    · rename_i hg
      simp at hg
      injection h with h; subst h
      exact inv_scalar hI rfl rfl rfl rfl rfl rfl rfl rfl rfl rfl rfl
        (fun hc => by have := (hI.dne hg.1).1; rw [hc] at this; simp at this)
    · simp at h
  | emit =>
    simp only [State.step] at h
    split at h
    · injection h with h; subst h; exact hI
    · simp at h
  | obsCancelConn c =>
    simp only [State.step] at h
    split at h
    · split at h
      · injection h with h; subst h; exact hI
      · simp at h
    · simp at h
  | obsAutoSpawn =>
    simp only [State.step] at h
    split at h
    · injection h with h; subst h; exact hI
    · simp at h

end Aiortc.Lemmas.Close
