import Aiortc.Model.Crc32c
/-!
# CRC-32C: linearity over XOR and the burst-error lemma (core `Nat.testBit` lemmas only)

* `step` is linear over XOR: `step (s ^^^ Δ) (b ^^ e) = step s b ^^^ step Δ e`; hence
  `run (s ^^^ Δ) (m ⊕ e) = run s m ^^^ run Δ e`, and `crc32c (m ⊕ e) = crc32c m ^^^ run 0 (bits e)`.
* `run 0 E ≠ 0` for every non-zero error pattern `E` whose set bits fit in a window of 32 positions:
  the first set bit loads `POLY ≥ 2^31` into the (difference) register; each of the following `j ≤ 31`
  window steps either halves it or sets bit 31 again, so it stays `≥ 2^(31-j) > 0`; steps with a zero
  error bit map non-zero to non-zero.
-/
namespace Aiortc.Crc32c

theorem POLY_lt : POLY < 2 ^ 32 := by decide
theorem POLY_bit31 : POLY.testBit 31 = true := by decide

/-- Linearity of one register step over XOR. -/
theorem step_xor (s d : Nat) (b e : Bool) : step (s ^^^ d) (b ^^ e) = step s b ^^^ step d e := by
  unfold step
  rw [Nat.testBit_xor, Nat.xor_div_two]
  generalize s.testBit 0 = x, d.testBit 0 = y, s / 2 = A, d / 2 = B, POLY = P
  apply Nat.eq_of_testBit_eq; intro i
  cases x <;> cases y <;> cases b <;> cases e <;> simp [Nat.testBit_xor] <;>
    cases A.testBit i <;> cases B.testBit i <;> cases P.testBit i <;> rfl

theorem step_zero_false : step 0 false = 0 := by decide
theorem step_zero_true : step 0 true = POLY := by decide

theorem step_lt (s : Nat) (b : Bool) (h : s < 2 ^ 32) : step s b < 2 ^ 32 := by
  unfold step
  split
  · exact Nat.xor_lt_two_pow (by omega) POLY_lt
  · omega

/-- XOR of two bit sequences (error pattern applied to a message). -/
def xorBits (m e : List Bool) : List Bool := List.zipWith (· ^^ ·) m e

theorem run_xor (m e : List Bool) (h : e.length = m.length) (s d : Nat) :
    run (s ^^^ d) (xorBits m e) = run s m ^^^ run d e := by
  induction m generalizing e s d with
  | nil => cases e with
    | nil => simp [run, xorBits]
    | cons _ _ => simp at h
  | cons b m ih => cases e with
    | nil => simp at h
    | cons c e =>
      simp only [List.length_cons, Nat.add_right_cancel_iff] at h
      simp only [run, xorBits, List.zipWith_cons_cons, List.foldl_cons] at ih ⊢
      rw [step_xor]; exact ih e h _ _

/-- A window step: the register difference keeps a set bit at or above `2^(k-1)`. -/
theorem step_ge (d : Nat) (b : Bool) (k : Nat) (hlo : 2 ^ k ≤ d) (hhi : d < 2 ^ 32)
    (hb : b = true → 0 < k) : 2 ^ (k - 1) ≤ step d b := by
  have hk : k < 32 := (Nat.pow_lt_pow_iff_right (by omega)).mp (Nat.lt_of_le_of_lt hlo hhi)
  unfold step
  split
  · -- feedback: bit 31 is set again
    have h31 : ((d / 2) ^^^ POLY).testBit 31 = true := by
      rw [Nat.testBit_xor, POLY_bit31, Nat.testBit_lt_two_pow (by omega : d / 2 < 2 ^ 31)]; rfl
    have := Nat.ge_two_pow_of_testBit h31
    have : 2 ^ (k - 1) ≤ 2 ^ 31 := Nat.pow_le_pow_right (by omega) (by omega)
    omega
  · rename_i hf
    cases k with
    | zero =>
      -- b = false and no feedback, so d is even and ≥ 1
      have hbf : b = false := by cases b <;> simp_all
      subst hbf
      simp only [Bool.xor_false, Bool.not_eq_true] at hf
      rw [Nat.testBit_zero] at hf
      simp at hf
      simp at hlo ⊢; omega
    | succ k =>
      simp only [Nat.add_sub_cancel]
      rw [Nat.pow_succ] at hlo; omega

/-- Main lemma: register difference `≥ 2^k`, all remaining error bits within the next `k` positions. -/
theorem run_ne_zero_of_window (E : List Bool) (d k : Nat) (hlo : 2 ^ k ≤ d) (hhi : d < 2 ^ 32)
    (hE : ∀ i : Nat, E[i]? = some true → i < k) : run d E ≠ 0 := by
  induction E generalizing d k with
  | nil => simp only [run, List.foldl_nil]; have := Nat.two_pow_pos k; omega
  | cons b E ih =>
    simp only [run, List.foldl_cons]
    apply ih (step d b) (k - 1) (step_ge d b k hlo hhi ?_) (step_lt d b hhi)
    · intro i hi
      have := hE (i + 1) (by simpa using hi)
      omega
    · intro hb; subst hb; exact hE 0 (by simp)

/-- All set bits of `E` lie in the window `[p, p+len)`. -/
def InWindow (E : List Bool) (p len : Nat) : Prop := ∀ i : Nat, E[i]? = some true → p ≤ i ∧ i < p + len

/-- **Burst lemma**: a non-zero error pattern confined to ≤ 32 consecutive bit positions never
leaves the all-zero register at zero, whatever the length of the message. -/
theorem run_zero_burst_ne_zero (E : List Bool) (p len : Nat) (hlen : len ≤ 32)
    (hw : InWindow E p len) (hne : ∃ i : Nat, E[i]? = some true) : run 0 E ≠ 0 := by
  induction E generalizing p with
  | nil => obtain ⟨i, hi⟩ := hne; simp at hi
  | cons b E ih =>
    cases b with
    | false =>
      simp only [run, List.foldl_cons, step_zero_false]
      obtain ⟨i, hi⟩ := hne
      cases i with
      | zero => simp at hi
      | succ i =>
        apply ih (p - 1)
        · intro j hj
          have := hw (j + 1) (by simpa using hj); omega
        · exact ⟨i, by simpa using hi⟩
    | true =>
      simp only [run, List.foldl_cons, step_zero_true]
      have h0 := hw 0 (by simp)
      apply run_ne_zero_of_window E POLY 31 (by decide) POLY_lt
      intro i hi
      have := hw (i + 1) (by simpa using hi); omega

/-! ## From bytes to bits -/

theorem byteBits_xor (a b : Nat) : byteBits (a ^^^ b) = xorBits (byteBits a) (byteBits b) := by
  simp only [byteBits, xorBits, Nat.testBit_xor, List.zipWith_cons_cons, List.zipWith_nil_left]

@[simp] theorem byteBits_length (a : Nat) : (byteBits a).length = 8 := rfl
@[simp] theorem bitsOf_length (d : Bytes) : (bitsOf d).length = 8 * d.length := by
  induction d with
  | nil => rfl
  | cons a d ih => simp [bitsOf, ih]; omega

/-- Byte-wise XOR of two byte strings. -/
def xorBytes (d e : Bytes) : Bytes := List.zipWith (· ^^^ ·) d e

theorem xorBits_append (a b c d : List Bool) (h : a.length = c.length) :
    xorBits (a ++ b) (c ++ d) = xorBits a c ++ xorBits b d := by
  unfold xorBits; exact List.zipWith_append h

theorem bitsOf_xorBytes (d e : Bytes) (h : e.length = d.length) :
    bitsOf (xorBytes d e) = xorBits (bitsOf d) (bitsOf e) := by
  induction d generalizing e with
  | nil => cases e <;> simp_all [xorBytes, bitsOf, xorBits]
  | cons a d ih => cases e with
    | nil => simp at h
    | cons b e =>
      simp only [List.length_cons, Nat.add_right_cancel_iff] at h
      have := ih e h
      simp only [xorBytes, List.zipWith_cons_cons, bitsOf] at this ⊢
      rw [this, byteBits_xor, xorBits_append _ _ _ _ (by simp)]

/-- CRC of a corrupted message = CRC of the message XOR the zero-preset register run on the error. -/
theorem crc32c_xor (d e : Bytes) (h : e.length = d.length) :
    crc32c (xorBytes d e) = crc32c d ^^^ run 0 (bitsOf e) := by
  unfold crc32c
  rw [bitsOf_xorBytes d e h]
  have := run_xor (bitsOf d) (bitsOf e) (by simp [h]) 0xFFFFFFFF 0
  rw [Nat.xor_zero] at this
  rw [this, Nat.xor_assoc, Nat.xor_comm (run 0 _), ← Nat.xor_assoc]

theorem xor_ne_self (a b : Nat) (hb : b ≠ 0) : a ^^^ b ≠ a := by
  intro h
  have : a ^^^ (a ^^^ b) = a ^^^ a := by rw [h]
  rw [← Nat.xor_assoc, Nat.xor_self, Nat.zero_xor] at this
  exact hb this

/-- **CRC-32C detects every burst of ≤ 32 bits** (bit positions in CRC order: `8*i + k` is bit `k`,
LSB = 0, of byte `i`), for messages of any length. -/
theorem crc32c_burst (d e : Bytes) (h : e.length = d.length) (p len : Nat) (hlen : len ≤ 32)
    (hw : InWindow (bitsOf e) p len) (hne : ∃ i : Nat, (bitsOf e)[i]? = some true) :
    crc32c (xorBytes d e) ≠ crc32c d := by
  rw [crc32c_xor d e h]
  exact xor_ne_self _ _ (run_zero_burst_ne_zero _ p len hlen hw hne)

end Aiortc.Crc32c
