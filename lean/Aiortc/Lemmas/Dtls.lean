import Aiortc.Model.Dtls
set_option linter.unusedSimpArgs false
/-! Helper lemmas for C04: the counting loop of `_validate_peer_identity` as `countP`, slices. -/
namespace Aiortc.Lemmas.Dtls
open Aiortc Aiortc.Model.Dtls

section policy
variable (lower fold : Str → Str) (algs : List Str) (digest : Str → Str)

/-- `f` uses a supported hash. -/
def sup (f : Fingerprint) : Bool := decide (lower f.algorithm ∈ algs)
/-- `f` uses a supported hash and its value matches the certificate digest. -/
def good (f : Fingerprint) : Bool :=
  decide (lower f.algorithm ∈ algs) && decide (fold f.value = fold (digest (lower f.algorithm)))

theorem foldl_validateStep (fps : List Fingerprint) (c : Counts) :
    fps.foldl (validateStep lower fold algs digest) c =
      ⟨c.supported + fps.countP (sup lower algs), c.valid + fps.countP (good lower fold algs digest)⟩ := by
  induction fps generalizing c with
  | nil => simp
  | cons f fs ih =>
    rw [List.foldl_cons, ih]
    unfold validateStep
    by_cases h1 : lower f.algorithm ∈ algs
    · by_cases h2 : fold f.value = fold (digest (lower f.algorithm))
      · simp [List.countP_cons, sup, good, h1, h2]; omega
      · simp [List.countP_cons, sup, good, h1, h2]; omega
    · simp [List.countP_cons, sup, good, h1]

theorem validateCounts_eq (fps : List Fingerprint) :
    validateCounts lower fold algs digest fps =
      ⟨fps.countP (sup lower algs), fps.countP (good lower fold algs digest)⟩ := by
  unfold validateCounts; rw [foldl_validateStep]; simp

theorem good_le_sup (fps : List Fingerprint) :
    fps.countP (good lower fold algs digest) ≤ fps.countP (sup lower algs) := by
  apply List.countP_mono_left
  intro f _ h
  simp only [good, sup, Bool.and_eq_true] at *
  exact h.1

/-- equal counts ⇔ every supported entry is good. -/
theorem count_eq_iff (fps : List Fingerprint) :
    fps.countP (good lower fold algs digest) = fps.countP (sup lower algs) ↔
      ∀ f ∈ fps, sup lower algs f = true → good lower fold algs digest f = true := by
  induction fps with
  | nil => simp
  | cons f fs ih =>
    have hle := good_le_sup lower fold algs digest fs
    simp only [List.countP_cons, List.mem_cons, forall_eq_or_imp]
    by_cases hs : sup lower algs f = true
    · by_cases hg : good lower fold algs digest f = true
      · simp only [hs, hg, if_true, forall_const, true_and]
        rw [← ih]; omega
      · simp only [hs, hg, if_true, forall_const, false_and, iff_false]
        simp only [Bool.not_eq_true] at hg
        simp [hg]; omega
    · have hg : good lower fold algs digest f = false := by
        simp only [good, sup, Bool.not_eq_true, decide_eq_false_iff_not] at *
        simp [hs]
      simp only [Bool.not_eq_true] at hs
      simp only [hs, hg, Bool.false_eq_true, if_false, Nat.add_zero, false_imp_iff, true_and]
      exact ih

end policy

theorem slice_length {α} (d : List α) (i j : Nat) : (slice d i j).length = min j d.length - i := by
  simp [slice]

end Aiortc.Lemmas.Dtls
