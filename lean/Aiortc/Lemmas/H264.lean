import Aiortc.Model.H264
import Aiortc.Lemmas.Bytes
/-! Helper lemmas for C16 (H.264 part): byte/bit facts, `parse` on the three payload shapes. -/
namespace Aiortc.Lemmas.H264
open Aiortc Aiortc.Gen Aiortc.Model.H264

@[simp] theorem ok_bind {α β} (a : α) (f : α → Outcome β) : (Outcome.ok a >>= f) = f a := rfl
@[simp] theorem pure_eq {α} (a : α) : (pure a : Outcome α) = Outcome.ok a := rfl

theorem slice_mid {α} (pre mid post : List α) :
    slice (pre ++ mid ++ post) pre.length (pre.length + mid.length) = mid := by
  unfold slice
  rw [List.take_left' (by simp), List.drop_left' rfl]

/-! ## bit facts about header bytes -/

set_option maxRecDepth 100000 in
theorem byte_split : ∀ b < 256, (b &&& 0xE0) ||| (b &&& 0x1F) = b := by decide

set_option maxRecDepth 100000 in
theorem byte_fu_restore : ∀ b < 256,
    (((b &&& 0xE0) ||| 28) &&& 0xE0) ||| (((b &&& 0x1F) ||| 0x80) &&& 0x1F) = b := by decide

theorem fu_indicator_type (b : Nat) : ((b &&& 0xE0) ||| 28) &&& 0x1F = 28 := by
  simp [Nat.and_or_distrib_right, Nat.and_assoc]

theorem fu_indicator_nri (b : Nat) : ((b &&& 0xE0) ||| 28) &&& 0xE0 = b &&& 0xE0 := by
  simp [Nat.and_or_distrib_right, Nat.and_assoc]

theorem fu_start_bit (b : Nat) : ((b &&& 0x1F) ||| 0x80) &&& 0x80 = 0x80 := by
  simp [Nat.and_or_distrib_right, Nat.and_assoc]
theorem fu_start_type (b : Nat) : ((b &&& 0x1F) ||| 0x80) &&& 0x1F = b &&& 0x1F := by
  simp [Nat.and_or_distrib_right, Nat.and_assoc]
theorem fu_start_noend (b : Nat) : ((b &&& 0x1F) ||| 0x80) &&& 0x40 = 0 := by
  simp [Nat.and_or_distrib_right, Nat.and_assoc]
theorem fu_mid_bits (b : Nat) : (b &&& 0x1F) &&& 0x80 = 0 ∧ (b &&& 0x1F) &&& 0x40 = 0 := by
  simp [Nat.and_assoc]
theorem fu_end_bit (b : Nat) : ((b &&& 0x1F) ||| 0x40) &&& 0x40 = 0x40 := by
  simp [Nat.and_or_distrib_right, Nat.and_assoc]
theorem fu_end_nostart (b : Nat) : ((b &&& 0x1F) ||| 0x40) &&& 0x80 = 0 := by
  simp [Nat.and_or_distrib_right, Nat.and_assoc]
theorem fu_end_type (b : Nat) : ((b &&& 0x1F) ||| 0x40) &&& 0x1F = b &&& 0x1F := by
  simp [Nat.and_or_distrib_right, Nat.and_assoc]

theorem stap_hdr_f (h n : Nat) : (h ||| (n &&& 0x80)) &&& 0x1F = h &&& 0x1F := by
  simp [Nat.and_or_distrib_right, Nat.and_assoc]
theorem stap_hdr_nri (h n : Nat) : (h &&& 0x9F ||| (n &&& 0x60)) &&& 0x1F = h &&& 0x1F := by
  simp [Nat.and_or_distrib_right, Nat.and_assoc]
theorem stap_hdr_init (d : Nat) : (24 ||| (d &&& 0xE0)) &&& 0x1F = 24 := by
  simp [Nat.and_or_distrib_right, Nat.and_assoc]

/-! ## parse -/

/-- NAL units behind 4-byte start codes: what the depacketiser must reproduce. -/
def withStartCodes (nals : List Bytes) : Bytes := (nals.map fun n => startCode ++ n).flatten

/-- STAP-A body: 16-bit length + unit, for each aggregated unit. -/
def stapEnc (nals : List Bytes) : Bytes := (nals.map fun n => u16be n.length ++ n).flatten

@[simp] theorem withStartCodes_nil : withStartCodes [] = [] := rfl
@[simp] theorem withStartCodes_cons (n : Bytes) (ns : List Bytes) :
    withStartCodes (n :: ns) = startCode ++ n ++ withStartCodes ns := by
  simp [withStartCodes]
theorem withStartCodes_append (a b : List Bytes) :
    withStartCodes (a ++ b) = withStartCodes a ++ withStartCodes b := by
  simp [withStartCodes]
@[simp] theorem stapEnc_nil : stapEnc [] = [] := rfl
@[simp] theorem stapEnc_cons (n : Bytes) (ns : List Bytes) :
    stapEnc (n :: ns) = u16be n.length ++ n ++ stapEnc ns := by
  simp [stapEnc]
theorem stapEnc_append (a b : List Bytes) : stapEnc (a ++ b) = stapEnc a ++ stapEnc b := by
  simp [stapEnc]

theorem parse_single (data : Bytes) (b0 : Nat) (t : Bytes) (hd : data = b0 :: t) (hlen : 2 ≤ data.length)
    (h1 : 1 ≤ b0 &&& 0x1F) (h2 : b0 &&& 0x1F < 24) :
    parse data = .ok (true, startCode ++ data) := by
  subst hd
  unfold parse
  rw [if_neg (by omega)]
  simp [getB, h1, h2]

theorem parse_fu_a (ind hdr : Nat) (payload : Bytes) (hi : ind &&& 0x1F = 28) :
    parse (ind :: hdr :: payload) =
      .ok ((hdr &&& 0x80) != 0,
        (if (hdr &&& 0x80) != 0 then startCode ++ [(ind &&& 0xE0) ||| (hdr &&& 0x1F)] else []) ++ payload) := by
  unfold parse
  simp [getB, hi, H264_NAL_TYPE_FU_A, H264_NAL_HEADER_SIZE]

/-- offsets recorded by the STAP-A loop for a well-formed body -/
def stapOffs : List Bytes → Nat → List Nat
  | [], _ => []
  | n :: ns, pos => (pos + 2) :: stapOffs ns (pos + 2 + n.length)

theorem stapOffsets_enc (nals : List Bytes) : ∀ (pre : Bytes) (fuel : Nat),
    (∀ n ∈ nals, n.length < 65536) → nals.length < fuel →
    stapOffsets (pre ++ stapEnc nals) fuel pre.length = .ok (stapOffs nals pre.length) := by
  induction nals with
  | nil =>
    intro pre fuel _ hf
    cases fuel with
    | zero => simp at hf
    | succ f => simp [stapOffsets, stapOffs]
  | cons n ns ih =>
    intro pre fuel hl hf
    cases fuel with
    | zero => simp at hf
    | succ f =>
      have hn : n.length < 65536 := hl n (by simp)
      have hsl : slice (pre ++ stapEnc (n :: ns)) pre.length (pre.length + 2) = u16be n.length := by
        have := slice_mid pre (u16be n.length) (n ++ stapEnc ns)
        simpa [List.append_assoc] using this
      have hdata : pre ++ stapEnc (n :: ns) = (pre ++ u16be n.length ++ n) ++ stapEnc ns := by
        simp [List.append_assoc]
      have hlen : (pre ++ stapEnc (n :: ns)).length = pre.length + 2 + n.length + (stapEnc ns).length := by
        simp; omega
      have c1 : pre.length < (pre ++ stapEnc (n :: ns)).length := by omega
      have c2 : ¬ ((pre ++ stapEnc (n :: ns)).length < pre.length + 2) := by omega
      have c3 : ¬ ((pre ++ stapEnc (n :: ns)).length < pre.length + 2 + n.length) := by omega
      rw [stapOffsets]
      simp only [H264_LENGTH_FIELD_SIZE, hsl, unpackU16_u16be _ hn, Outcome.ofStruct, ok_bind, c1, c2, c3,
        if_true, if_false]
      have ih' := ih (pre ++ u16be n.length ++ n) f (fun m hm => hl m (by simp [hm])) (by simp at hf; omega)
      have hpl : (pre ++ u16be n.length ++ n).length = pre.length + 2 + n.length := by simp; omega
      rw [hpl, ← hdata] at ih'
      rw [ih']
      simp [stapOffs]

theorem stapOutput_cons2 (data : Bytes) (a b : Nat) (l : List Nat) :
    stapOutput data (a :: b :: l) = startCode ++ slice data a (b - 2) ++ stapOutput data (b :: l) := by
  simp [stapOutput, pairwise, H264_LENGTH_FIELD_SIZE]

theorem stapOutput_single (data : Bytes) (a : Nat) : stapOutput data [a] = [] := by
  simp [stapOutput, pairwise]

theorem stapOutput_enc (nals : List Bytes) : ∀ (pre : Bytes), nals ≠ [] →
    stapOutput (pre ++ stapEnc nals) (stapOffs nals pre.length ++ [(pre ++ stapEnc nals).length + 2])
      = withStartCodes nals := by
  induction nals with
  | nil => intro _ h; exact absurd rfl h
  | cons n ns ih =>
    intro pre _
    have hdata : pre ++ stapEnc (n :: ns) = (pre ++ u16be n.length ++ n) ++ stapEnc ns := by
      simp [List.append_assoc]
    have hpl : (pre ++ u16be n.length ++ n).length = pre.length + 2 + n.length := by simp; omega
    cases ns with
    | nil =>
      have hsl : slice (pre ++ stapEnc [n]) (pre.length + 2) ((pre ++ stapEnc [n]).length + 2 - 2) = n := by
        have := slice_mid (pre ++ u16be n.length) n []
        simp only [List.append_nil] at this
        have e : (pre ++ stapEnc [n]).length + 2 - 2 = (pre ++ u16be n.length).length + n.length := by
          simp; omega
        have e2 : pre.length + 2 = (pre ++ u16be n.length).length := by simp
        rw [e, e2]
        simpa [List.append_assoc] using this
      simp only [stapOffs, List.cons_append, List.nil_append, stapOutput_cons2, stapOutput_single, hsl]
      simp
    | cons m ms =>
      have ih' := ih (pre ++ u16be n.length ++ n) (by simp)
      rw [← hdata, hpl] at ih'
      have hsl : slice (pre ++ stapEnc (n :: m :: ms)) (pre.length + 2) (pre.length + 2 + n.length + 2 - 2) = n := by
        have := slice_mid (pre ++ u16be n.length) n (stapEnc (m :: ms))
        have e2 : pre.length + 2 = (pre ++ u16be n.length).length := by simp
        rw [Nat.add_sub_cancel, e2]
        simpa [List.append_assoc] using this
      rw [stapOffs]
      rw [show stapOffs (m :: ms) (pre.length + 2 + n.length)
            = (pre.length + 2 + n.length + 2) :: stapOffs ms (pre.length + 2 + n.length + 2 + m.length) from rfl]
      rw [show stapOffs (m :: ms) (pre.length + 2 + n.length)
            = (pre.length + 2 + n.length + 2) :: stapOffs ms (pre.length + 2 + n.length + 2 + m.length) from rfl] at ih'
      simp only [List.cons_append] at ih' ⊢
      rw [stapOutput_cons2, hsl, ih']
      simp

theorem parse_stap_a (h : Nat) (nals : List Bytes) (hh : h &&& 0x1F = 24) (hne : nals ≠ [])
    (hl : ∀ n ∈ nals, n.length < 65536) :
    parse (h :: stapEnc nals) = .ok (true, withStartCodes nals) := by
  have hlen2 : 2 ≤ (stapEnc nals).length := by
    cases nals with
    | nil => exact absurd rfl hne
    | cons n ns => simp
  have ho := stapOffsets_enc nals [h] ((h :: stapEnc nals).length + 1) hl (by
    have : nals.length ≤ (stapEnc nals).length := by
      clear hne hl hlen2
      induction nals with
      | nil => simp
      | cons n ns ih => simp; omega
    simp; omega)
  have hout := stapOutput_enc nals [h] hne
  simp only [List.singleton_append, List.length_singleton] at ho hout
  unfold parse
  rw [if_neg (by simp; omega)]
  simp only [getB, List.getElem?_cons_zero, ok_bind, hh, H264_NAL_HEADER_SIZE, H264_NAL_TYPE_FU_A,
    H264_NAL_TYPE_STAP_A, H264_LENGTH_FIELD_SIZE, ho, hout]
  simp

/-! ## depayloadAll -/

theorem depayloadAll_cons_ok {p : Bytes} {ps : List Bytes} {a b : Bytes}
    (h1 : depayload p = .ok a) (h2 : depayloadAll ps = .ok b) : depayloadAll (p :: ps) = .ok (a ++ b) := by
  simp [depayloadAll, h1, h2]

theorem depayloadAll_append_ok {xs ys : List Bytes} {a b : Bytes}
    (h1 : depayloadAll xs = .ok a) (h2 : depayloadAll ys = .ok b) : depayloadAll (xs ++ ys) = .ok (a ++ b) := by
  induction xs generalizing a with
  | nil => simp [depayloadAll] at h1; subst h1; simpa using h2
  | cons x xs ih =>
    simp only [depayloadAll, List.cons_append] at h1 ⊢
    cases hx : depayload x with
    | ok ax =>
      rw [hx] at h1; simp only [ok_bind] at h1 ⊢
      cases hxs : depayloadAll xs with
      | ok axs =>
        rw [hxs] at h1; simp only [ok_bind, pure_eq, Outcome.ok.injEq] at h1
        rw [ih hxs]; simp [← h1]
      | valueError => rw [hxs] at h1; cases h1
      | crash k => rw [hxs] at h1; cases h1
      | hang => rw [hxs] at h1; cases h1
    | valueError => rw [hx] at h1; cases h1
    | crash k => rw [hx] at h1; cases h1
    | hang => rw [hx] at h1; cases h1

theorem depayload_single (data : Bytes) (b0 : Nat) (t : Bytes) (hd : data = b0 :: t) (hlen : 2 ≤ data.length)
    (h1 : 1 ≤ b0 &&& 0x1F) (h2 : b0 &&& 0x1F < 24) : depayload data = .ok (startCode ++ data) := by
  simp [depayload, parse_single data b0 t hd hlen h1 h2]

theorem depayload_fu_cont (ind hdr : Nat) (payload : Bytes) (hi : ind &&& 0x1F = 28) (hs : hdr &&& 0x80 = 0) :
    depayload ([ind, hdr] ++ payload) = .ok payload := by
  simp [depayload, parse_fu_a ind hdr payload hi, hs]

theorem depayload_fu_start (ind hdr : Nat) (payload : Bytes) (hi : ind &&& 0x1F = 28) (hs : hdr &&& 0x80 = 0x80) :
    depayload ([ind, hdr] ++ payload) = .ok (startCode ++ [(ind &&& 0xE0) ||| (hdr &&& 0x1F)] ++ payload) := by
  simp [depayload, parse_fu_a ind hdr payload hi, hs]

theorem depayload_stap_a (h : Nat) (nals : List Bytes) (hh : h &&& 0x1F = 24) (hne : nals ≠ [])
    (hl : ∀ n ∈ nals, n.length < 65536) : depayload (h :: stapEnc nals) = .ok (withStartCodes nals) := by
  simp [depayload, parse_stap_a h nals hh hne hl]
