import Aiortc.Lemmas.H264
/-! FU-A fragmentation: the loop of `_packetize_fu_a` as a pure function (`fuSpec`) and its properties. -/
namespace Aiortc.Lemmas.H264
open Aiortc Aiortc.Gen Aiortc.Model.H264

/-- The fragments the loop produces from the bytes not yet sent: `k` fragments left, the first
`larger` of them one byte longer. -/
def fuSpec (ind nal q : Nat) : Nat → Bytes → Nat → Bool → List Bytes
  | 0, _, _, _ => []
  | k + 1, rest, larger, first =>
    ([ind, if k = 0 then nal ||| 0x40 else if first then nal ||| 0x80 else nal]
        ++ rest.take (if larger > 0 then q + 1 else q))
      :: fuSpec ind nal q k (rest.drop (if larger > 0 then q + 1 else q)) (larger - 1) false

theorem slice_eq_take_drop {α} (d : List α) (i n : Nat) : slice d i (i + n) = (d.drop i).take n := by
  unfold slice
  rw [List.drop_take, Nat.add_sub_cancel_left]

theorem fuLoop_eq_spec (data : Bytes) (ind nal q : Nat) (hq : 1 ≤ q) :
    ∀ (k fuel offset larger : Nat) (first : Bool), larger ≤ k → offset + k * q + larger = data.length → k < fuel →
      fuLoop data ind nal q fuel offset larger first = .ok (fuSpec ind nal q k (data.drop offset) larger first) := by
  intro k
  induction k with
  | zero =>
    intro fuel offset larger first hl he hf
    cases fuel with
    | zero => omega
    | succ f =>
      have : offset = data.length := by omega
      subst this
      simp [fuLoop, fuSpec]
  | succ k ih =>
    intro fuel offset larger first hl he hf
    cases fuel with
    | zero => omega
    | succ f =>
      rw [Nat.succ_mul] at he
      have hkq : k = 0 ∨ q ≤ k * q := by
        cases k with
        | zero => left; rfl
        | succ j => right; exact Nat.le_mul_of_pos_left q (Nat.succ_pos j)
      have c1 : offset < data.length := by omega
      rw [fuLoop, fuSpec]
      by_cases hlg : larger > 0
      · have c2 : (offset + (q + 1) = data.length) ↔ k = 0 := by
          constructor
          · intro h; rcases hkq with h0 | h1
            · exact h0
            · omega
          · intro h; subst h; omega
        have ih' := ih f (offset + (q + 1)) (larger - 1) false (by omega) (by omega) (by omega)
        simp only [c1, hlg, if_true, ih', ok_bind, pure_eq, slice_eq_take_drop, c2, List.drop_drop]
        by_cases hk0 : k = 0 <;> cases first <;> simp [hk0]
      · have hl0 : larger = 0 := by omega
        subst hl0
        have c2 : (offset + q = data.length) ↔ k = 0 := by
          constructor
          · intro h; rcases hkq with h0 | h1
            · exact h0
            · omega
          · intro h; subst h; omega
        have ih' := ih f (offset + q) 0 false (by omega) (by omega) (by omega)
        simp only [c1, Nat.lt_irrefl, gt_iff_lt, if_true, if_false, ih', ok_bind, pure_eq, slice_eq_take_drop, c2,
          List.drop_drop, Nat.zero_sub]
        by_cases hk0 : k = 0 <;> cases first <;> simp [hk0]

theorem fuSpec_length (ind nal q : Nat) : ∀ (k : Nat) (rest : Bytes) (larger : Nat) (first : Bool),
    (fuSpec ind nal q k rest larger first).length = k := by
  intro k
  induction k with
  | zero => intros; rfl
  | succ k ih => intro rest larger first; simp [fuSpec, ih]

/-- every fragment: 2 header bytes + at most `q` (+1 while larger packets remain) payload bytes -/
theorem fuSpec_size (ind nal q : Nat) : ∀ (k : Nat) (rest : Bytes) (larger : Nat) (first : Bool),
    ∀ f ∈ fuSpec ind nal q k rest larger first, f.length ≤ 2 + (if larger > 0 then q + 1 else q) := by
  intro k
  induction k with
  | zero => intro _ _ _ f hf; simp [fuSpec] at hf
  | succ k ih =>
    intro rest larger first f hf
    simp only [fuSpec, List.mem_cons] at hf
    rcases hf with hf | hf
    · subst hf
      simp only [List.length_append, List.length_cons, List.length_nil, List.length_take]
      split <;> omega
    · have := ih _ _ _ f hf
      split at this <;> split <;> omega

/-- every fragment carries at least one payload byte -/
theorem fuSpec_nonempty (ind nal q : Nat) (hq : 1 ≤ q) : ∀ (k : Nat) (rest : Bytes) (larger : Nat) (first : Bool),
    larger ≤ k → k * q + larger = rest.length →
    ∀ f ∈ fuSpec ind nal q k rest larger first, 3 ≤ f.length := by
  intro k
  induction k with
  | zero => intro _ _ _ _ _ f hf; simp [fuSpec] at hf
  | succ k ih =>
    intro rest larger first hl he f hf
    rw [Nat.succ_mul] at he
    simp only [fuSpec, List.mem_cons] at hf
    rcases hf with hf | hf
    · subst hf
      simp only [List.length_append, List.length_cons, List.length_nil, List.length_take]
      split <;> omega
    · refine ih _ _ _ ?_ ?_ f hf
      · omega
      · simp only [List.length_drop]; split <;> omega

/-- the payload parts of the fragments concatenate to the bytes that were left -/
theorem fuSpec_payload (ind nal q : Nat) : ∀ (k : Nat) (rest : Bytes) (larger : Nat) (first : Bool),
    larger ≤ k → k * q + larger = rest.length →
    ((fuSpec ind nal q k rest larger first).map (List.drop 2)).flatten = rest := by
  intro k
  induction k with
  | zero =>
    intro rest larger first hl he
    have : rest = [] := by apply List.eq_nil_of_length_eq_zero; omega
    simp [fuSpec, this]
  | succ k ih =>
    intro rest larger first hl he
    rw [Nat.succ_mul] at he
    simp only [fuSpec, List.map_cons, List.flatten_cons]
    rw [ih]
    · simp
    · omega
    · simp only [List.length_drop]; split <;> omega

/-- FU header bytes of the fragments after the first one: `k-1` plain ones and one with the E bit -/
theorem fuSpec_headers_cont (ind nal q : Nat) : ∀ (k : Nat) (rest : Bytes) (larger : Nat),
    (fuSpec ind nal q (k + 1) rest larger false).map (List.take 2)
      = List.replicate k [ind, nal] ++ [[ind, nal ||| 0x40]] := by
  intro k
  induction k with
  | zero => intro rest larger; simp [fuSpec]
  | succ k ih =>
    intro rest larger
    rw [fuSpec, List.map_cons, ih]
    simp [List.replicate_succ]

/-- exactly one start marker (first fragment) and one end marker (last fragment) -/
theorem fuSpec_headers_first (ind nal q : Nat) (k : Nat) (rest : Bytes) (larger : Nat) :
    (fuSpec ind nal q (k + 2) rest larger true).map (List.take 2)
      = [ind, nal ||| 0x80] :: (List.replicate k [ind, nal] ++ [[ind, nal ||| 0x40]]) := by
  rw [fuSpec, List.map_cons, fuSpec_headers_cont]
  simp

theorem fuSpec_depayload_cont (b q : Nat) : ∀ (k : Nat) (rest : Bytes) (larger : Nat),
    larger ≤ k → k * q + larger = rest.length →
    depayloadAll (fuSpec ((b &&& 0xE0) ||| 28) (b &&& 0x1F) q k rest larger false) = .ok rest := by
  intro k
  induction k with
  | zero =>
    intro rest larger hl he
    have : rest = [] := by apply List.eq_nil_of_length_eq_zero; omega
    simp [fuSpec, depayloadAll, this]
  | succ k ih =>
    intro rest larger hl he
    rw [Nat.succ_mul] at he
    rw [fuSpec]
    have hs : (if k = 0 then (b &&& 0x1F) ||| 0x40 else if false = true then (b &&& 0x1F) ||| 0x80 else b &&& 0x1F)
        &&& 0x80 = 0 := by
      split
      · exact fu_end_nostart b
      · simp only [Bool.false_eq_true, if_false]; exact (fu_mid_bits b).1
    have h1 := depayload_fu_cont ((b &&& 0xE0) ||| 28) _ (rest.take (if larger > 0 then q + 1 else q))
      (fu_indicator_type b) hs
    have h2 := ih (rest.drop (if larger > 0 then q + 1 else q)) (larger - 1) (by omega)
      (by simp only [List.length_drop]; split <;> omega)
    rw [depayloadAll_cons_ok h1 h2, List.take_append_drop]

theorem fuSpec_depayload_first (b q : Nat) (hb : b < 256) (k : Nat) (rest : Bytes) (larger : Nat)
    (hl : larger ≤ k + 2) (he : (k + 2) * q + larger = rest.length) :
    depayloadAll (fuSpec ((b &&& 0xE0) ||| 28) (b &&& 0x1F) q (k + 2) rest larger true)
      = .ok (startCode ++ [b] ++ rest) := by
  rw [fuSpec]
  rw [Nat.succ_mul] at he
  have h1 := depayload_fu_start ((b &&& 0xE0) ||| 28) ((b &&& 0x1F) ||| 0x80)
    (rest.take (if larger > 0 then q + 1 else q)) (fu_indicator_type b) (fu_start_bit b)
  rw [byte_fu_restore b hb] at h1
  have h2 := fuSpec_depayload_cont b q (k + 1) (rest.drop (if larger > 0 then q + 1 else q)) (larger - 1)
    (by omega) (by simp only [List.length_drop]; split <;> omega)
  simp only [Nat.succ_ne_zero, if_false, if_true]
  rw [depayloadAll_cons_ok h1 h2, List.append_assoc, List.take_append_drop]

/-! ## arithmetic of the fragment sizes -/

theorem fu_arith (p : Nat) (hp : 1 ≤ p) :
    let n := (p + 1298 - 1) / 1298
    1 ≤ n ∧ n ≤ p ∧ 1 ≤ p / n ∧ p / n ≤ 1298 ∧ (0 < p % n → p / n + 1 ≤ 1298) ∧
      n * (p / n) + p % n = p ∧ p % n < n ∧ (1299 ≤ p → 2 ≤ n) := by
  intro n
  have hn1 : 1 ≤ n := by show 1 ≤ (p + 1298 - 1) / 1298; omega
  have hnp : n ≤ p := by show (p + 1298 - 1) / 1298 ≤ p; omega
  have hub : p ≤ 1298 * n := by show p ≤ 1298 * ((p + 1298 - 1) / 1298); omega
  have hq1 : 1 ≤ p / n := Nat.div_pos hnp hn1
  have hq2 : p / n ≤ 1298 := Nat.div_le_of_le_mul (by rw [Nat.mul_comm]; exact hub)
  have hdm := Nat.div_add_mod p n
  have hmod : p % n < n := Nat.mod_lt _ hn1
  refine ⟨hn1, hnp, hq1, hq2, ?_, hdm, hmod, ?_⟩
  · intro hr
    -- n * q + r = p ≤ 1298 n with r > 0 gives q < 1298
    have : n * (p / n) < n * 1298 := by rw [Nat.mul_comm n 1298]; omega
    have := Nat.lt_of_mul_lt_mul_left this
    omega
  · intro h; show 2 ≤ (p + 1298 - 1) / 1298; omega

theorem packetizeFuA_eq (b0 : Nat) (t : Bytes) (ht : 1 ≤ t.length) :
    packetizeFuA (b0 :: t) =
      .ok (fuSpec ((b0 &&& 0xE0) ||| 28) (b0 &&& 0x1F) (t.length / ((t.length + 1298 - 1) / 1298))
            ((t.length + 1298 - 1) / 1298) t (t.length % ((t.length + 1298 - 1) / 1298)) true) := by
  obtain ⟨hn1, hnp, hq1, hq2, hq3, hdm, hmod, _⟩ := fu_arith t.length ht
  unfold packetizeFuA
  simp only [H264_PACKET_MAX, H264_FU_A_HEADER_SIZE, H264_NAL_HEADER_SIZE, H264_NAL_TYPE_FU_A, ceilDiv,
    List.length_cons, Nat.add_sub_cancel]
  rw [if_neg (by omega)]
  simp only [getB, List.getElem?_cons_zero, ok_bind]
  have := fuLoop_eq_spec (b0 :: t) ((b0 &&& 0xE0) ||| 28) (b0 &&& 0x1F)
    (t.length / ((t.length + 1298 - 1) / 1298)) hq1 ((t.length + 1298 - 1) / 1298) ((b0 :: t).length + 1) 1
    (t.length % ((t.length + 1298 - 1) / 1298)) true (by omega)
    (by simp only [List.length_cons]; omega) (by simp only [List.length_cons]; omega)
  simpa using this
