import Aiortc.Lemmas.H264Fu
import Aiortc.Lemmas.H264Stap
/-! `_packetize` as a whole: bounded, never raises, lossless (for valid NAL units). -/
namespace Aiortc.Lemmas.H264
open Aiortc Aiortc.Gen Aiortc.Model.H264

/-- A NAL unit the property quantifies over: at least two bytes, every element a byte, type 1..23. -/
def ValidNal (n : Bytes) : Prop :=
  2 ≤ n.length ∧ IsBytes n ∧ 1 ≤ n.headD 0 &&& 0x1F ∧ n.headD 0 &&& 0x1F < 24

instance (n : Bytes) : Decidable (ValidNal n) := by unfold ValidNal; infer_instance

theorem ValidNal.ne_nil {n : Bytes} (h : ValidNal n) : n ≠ [] := by
  intro e; subst e; have := h.1; simp at this

theorem packetizeLoop_none (f : Nat) (it : List Bytes) : packetizeLoop (f + 1) none it = .ok [] := by
  simp [packetizeLoop]

/-- `_packetize_fu_a` on a unit that `_packetize` fragments (more than 1300 bytes). -/
theorem packetizeFuA_big (b0 : Nat) (t : Bytes) (hb : b0 < 256) (ht : 1300 ≤ t.length) :
    ∃ frags, packetizeFuA (b0 :: t) = .ok frags ∧ (∀ f ∈ frags, f.length ≤ 1300) ∧
      depayloadAll frags = .ok (startCode ++ (b0 :: t)) := by
  obtain ⟨hn1, hnp, hq1, hq2, hq3, hdm, hmod, hn2⟩ := fu_arith t.length (by omega)
  have hn2' := hn2 (by omega)
  refine ⟨_, packetizeFuA_eq b0 t (by omega), ?_, ?_⟩
  · intro f hf
    have := fuSpec_size _ _ _ _ _ _ _ f hf
    split at this
    · have := hq3 (by assumption); omega
    · omega
  · obtain ⟨k, hk⟩ : ∃ k, (t.length + 1298 - 1) / 1298 = k + 2 := ⟨_, (Nat.sub_add_cancel hn2').symm⟩
    rw [hk] at hdm hmod ⊢
    have := fuSpec_depayload_first b0 (t.length / (k + 2)) hb k t (t.length % (k + 2)) (by omega) (by omega)
    simpa using this

theorem packetizeLoop_spec : ∀ (fuel : Nat) (cur : Bytes) (it : List Bytes), it.length + 2 ≤ fuel →
    ValidNal cur → (∀ n ∈ it, ValidNal n) →
    ∃ payloads, packetizeLoop fuel (some cur) it = .ok payloads ∧ (∀ p ∈ payloads, p.length ≤ 1300) ∧
      depayloadAll payloads = .ok (withStartCodes (cur :: it)) := by
  intro fuel
  induction fuel with
  | zero => intro _ _ h; omega
  | succ f ih =>
    intro cur it hf hcur hit
    obtain ⟨f', rfl⟩ : ∃ f', f = f' + 1 := ⟨f - 1, by omega⟩
    obtain ⟨hlen, hbytes, ht1, ht2⟩ := hcur
    obtain ⟨b0, t, rfl⟩ : ∃ b t, cur = b :: t := by
      cases cur with
      | nil => simp at hlen
      | cons b t => exact ⟨b, t, rfl⟩
    simp only [List.headD_cons] at ht1 ht2
    rw [packetizeLoop]
    by_cases hbig : (b0 :: t).length > H264_PACKET_MAX
    · -- FU-A
      rw [if_pos hbig]
      simp only [H264_PACKET_MAX, List.length_cons] at hbig
      obtain ⟨frags, hfr, hsz, hdp⟩ := packetizeFuA_big b0 t (hbytes b0 (by simp)) (by omega)
      simp only [hfr, ok_bind]
      cases it with
      | nil =>
        refine ⟨frags ++ [], ?_, ?_, ?_⟩
        · simp [packetizeLoop_none, iterNext]
        · simpa using hsz
        · simpa [withStartCodes] using hdp
      | cons n r =>
        obtain ⟨pl, hpl, hplsz, hpldp⟩ := ih n r (by simp at hf; omega) (hit n (by simp))
          (fun m hm => hit m (by simp [hm]))
        refine ⟨frags ++ pl, ?_, ?_, ?_⟩
        · simp [hpl, iterNext]
        · intro p hp
          rcases List.mem_append.mp hp with h | h
          · exact hsz p h
          · exact hplsz p h
        · rw [depayloadAll_append_ok hdp hpldp]
          simp [List.append_assoc]
    · -- single NAL / STAP-A
      rw [if_neg hbig]
      simp only [H264_PACKET_MAX, List.length_cons, gt_iff_lt, Nat.not_lt] at hbig
      obtain ⟨agg, packet, next, rest, hst, hl, hnone, hshape⟩ :=
        packetizeStapA_spec (b0 :: t) it (by simp) (fun n hn => (hit n hn).ne_nil)
      simp only [hst, ok_bind]
      have hpk : packet.length ≤ 1300 ∧ depayload packet = .ok (withStartCodes agg) := by
        rcases hshape with ⟨ha, hp⟩ | ⟨_, h, hh, hp, hsz, hlens⟩
        · subst ha hp
          refine ⟨by simpa using hbig, ?_⟩
          rw [depayload_single (b0 :: t) b0 t rfl hlen ht1 ht2]
          simp
        · subst hp
          refine ⟨by simp; omega, ?_⟩
          exact depayload_stap_a h agg hh (by intro e; subst e; simp at *) hlens
      cases next with
      | none =>
        have hr := hnone rfl
        subst hr
        simp only [Option.toList_none, List.append_nil] at hl
        refine ⟨[packet], ?_, ?_, ?_⟩
        · simp [packetizeLoop_none]
        · simpa using hpk.1
        · rw [hl, depayloadAll_cons_ok hpk.2 (show depayloadAll [] = .ok [] from rfl)]
          simp
      | some n =>
        simp only [Option.toList_some, List.singleton_append] at hl
        have hagg : 1 ≤ agg.length := by
          rcases hshape with ⟨ha, _⟩ | ⟨h2, _⟩
          · subst ha; simp
          · omega
        have hlen2 : it.length + 1 = agg.length + (rest.length + 1) := by
          have := congrArg List.length hl
          simpa using this
        have hmem : ∀ m ∈ n :: rest, ValidNal m := by
          intro m hm
          have : m ∈ (b0 :: t) :: it := by rw [hl]; exact List.mem_append_right _ hm
          rcases List.mem_cons.mp this with h | h
          · subst h; exact ⟨hlen, hbytes, by simpa using ht1, by simpa using ht2⟩
          · exact hit m h
        obtain ⟨pl, hpl, hplsz, hpldp⟩ := ih n rest (by omega) (hmem n (by simp))
          (fun m hm => hmem m (by simp [hm]))
        refine ⟨packet :: pl, ?_, ?_, ?_⟩
        · simp [hpl]
        · intro p hp
          rcases List.mem_cons.mp hp with h | h
          · subst h; exact hpk.1
          · exact hplsz p h
        · rw [depayloadAll_cons_ok hpk.2 hpldp, hl, withStartCodes_append]

theorem packetize_spec (nals : List Bytes) (hv : ∀ n ∈ nals, ValidNal n) :
    ∃ payloads, packetize nals = .ok payloads ∧ (∀ p ∈ payloads, p.length ≤ 1300) ∧
      depayloadAll payloads = .ok (withStartCodes nals) := by
  cases nals with
  | nil => exact ⟨[], by simp [packetize, packetizeLoop], by simp, rfl⟩
  | cons p it =>
    unfold packetize
    exact packetizeLoop_spec _ p it (by simp) (hv p (by simp)) (fun n hn => hv n (by simp [hn]))
