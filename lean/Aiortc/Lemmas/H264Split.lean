import Aiortc.Lemmas.H264
/-! `_split_bitstream` inverts start-code framing (3- and 4-byte start codes). -/
namespace Aiortc.Lemmas.H264
open Aiortc Aiortc.Gen Aiortc.Model.H264

/-- No `00 00 01` inside. -/
def NoStartCode (n : Bytes) : Prop := ∀ pre post, n ≠ pre ++ [0, 0, 1] ++ post

/-- A NAL unit that survives start-code framing: no `00 00 01` inside and it does not end in `00`. -/
def Clean (n : Bytes) : Prop := NoStartCode n ∧ n.getLast? ≠ some 0

/-- start code with `k` leading zero bytes (`k = 0`: 3-byte, `k = 1`: 4-byte) -/
def sc (k : Nat) : Bytes := zeros k ++ [0, 0, 1]

theorem NoStartCode.tail {b : Nat} {n : Bytes} (h : NoStartCode (b :: n)) : NoStartCode n := by
  intro pre post e
  exact h (b :: pre) post (by rw [e]; simp)

theorem findFrom_none (n : Bytes) : ∀ base, NoStartCode n → findFrom n base = none := by
  induction n with
  | nil => intro _ _; rfl
  | cons b t ih =>
    intro base h
    rw [findFrom]
    have : ¬ ((b :: t).take 3 = [0, 0, 1]) := by
      intro e
      apply h [] ((b :: t).drop 3)
      rw [← e]; simp
    rw [if_neg this]
    exact ih _ h.tail

theorem findFrom_sc (k : Nat) (hk : k ≤ 1) (tail : Bytes) (base : Nat) :
    findFrom (sc k ++ tail) base = some (base + k) := by
  have : k = 0 ∨ k = 1 := by omega
  rcases this with rfl | rfl
  · simp [sc, zeros, findFrom]
  · simp [sc, zeros, findFrom, List.replicate]

theorem findFrom_clean (n : Bytes) : ∀ (k : Nat) (tail : Bytes) (base : Nat), k ≤ 1 → NoStartCode n →
    findFrom (n ++ sc k ++ tail) base = some (base + n.length + k) := by
  induction n with
  | nil => intro k tail base hk _; simpa using findFrom_sc k hk tail base
  | cons b t ih =>
    intro k tail base hk h
    rw [List.cons_append, List.cons_append, findFrom]
    have hne : ¬ ((b :: (t ++ sc k ++ tail)).take 3 = [0, 0, 1]) := by
      intro e
      match t, h with
      | [], _ =>
        have : k = 0 ∨ k = 1 := by omega
        rcases this with rfl | rfl <;> simp [sc, zeros, List.replicate] at e
      | [x], _ =>
        have : k = 0 ∨ k = 1 := by omega
        rcases this with rfl | rfl <;> simp [sc, zeros, List.replicate] at e
      | x :: y :: r, h =>
        simp at e
        apply h [] r
        simp [e]
    rw [if_neg hne, ih k tail (base + 1) hk h.tail]
    simp; omega

theorem find_at (pre rest : Bytes) : find (pre ++ rest) pre.length = findFrom rest pre.length := by
  unfold find; rw [List.drop_left' rfl]

theorem getB_mid (l : Bytes) (a : Nat) (r : Bytes) : getB (l ++ a :: r) l.length = .ok a := by
  simp [getB]

theorem slice_mid' (pre mid post : Bytes) (i j : Nat) (hi : i = pre.length) (hj : j = pre.length + mid.length) :
    slice (pre ++ mid ++ post) i j = mid := by
  subst hi hj; exact slice_mid pre mid post

theorem prev_byte (pre n tail : Bytes) (k k2 : Nat) (hc : Clean n) (hk2 : k2 ≤ 1) :
    ∃ p, getB (pre ++ sc k ++ (n ++ sc k2 ++ tail)) ((pre ++ sc k).length + n.length + k2 - 1) = .ok p ∧
      (p = 0 ↔ k2 = 1) := by
  have : k2 = 0 ∨ k2 = 1 := by omega
  rcases this with rfl | rfl
  · rcases List.eq_nil_or_concat n with rfl | ⟨n0, x, h⟩
    · refine ⟨1, ?_, by simp⟩
      have e : pre ++ sc k ++ ([] ++ sc 0 ++ tail) = (pre ++ zeros k ++ [0, 0]) ++ 1 :: (sc 0 ++ tail) := by
        simp [sc, zeros, List.append_assoc]
      have e2 : (pre ++ sc k).length + ([] : Bytes).length + 0 - 1 = (pre ++ zeros k ++ [0, 0]).length := by
        simp [sc, zeros]
      rw [e, e2, getB_mid]
    · rw [List.concat_eq_append] at h; subst h
      refine ⟨x, ?_, ?_⟩
      · have e : pre ++ sc k ++ (n0 ++ [x] ++ sc 0 ++ tail) = (pre ++ sc k ++ n0) ++ x :: (sc 0 ++ tail) := by
          simp [List.append_assoc]
        have e2 : (pre ++ sc k).length + (n0 ++ [x]).length + 0 - 1 = (pre ++ sc k ++ n0).length := by
          simp; omega
        rw [e, e2, getB_mid]
      · have := hc.2
        simp at this
        simp [this]
  · refine ⟨0, ?_, by simp⟩
    have e : pre ++ sc k ++ (n ++ sc 1 ++ tail) = (pre ++ sc k ++ n) ++ 0 :: ([0, 0, 1] ++ tail) := by
      simp [sc, zeros, List.replicate, List.append_assoc]
    have e2 : (pre ++ sc k).length + n.length + 1 - 1 = (pre ++ sc k ++ n).length := by simp; omega
    rw [e, e2, getB_mid]

/-- the framed bitstream: every unit behind a 3-byte (`k = 0`) or 4-byte (`k = 1`) start code -/
def framed (items : List (Nat × Bytes)) : Bytes := (items.map fun it => sc it.1 ++ it.2).flatten

theorem framed_cons (k : Nat) (n : Bytes) (items : List (Nat × Bytes)) :
    framed ((k, n) :: items) = sc k ++ n ++ framed items := by
  simp [framed]

theorem zeros_split (j k : Nat) (h : j ≤ k) : zeros k = zeros j ++ zeros (k - j) := by
  unfold zeros; rw [List.replicate_append_replicate]; congr 1; omega

theorem splitLoop_framed : ∀ (items : List (Nat × Bytes)) (pre : Bytes) (fuel j : Nat),
    items ≠ [] → (∀ it ∈ items, it.1 ≤ 1 ∧ Clean it.2) → items.length < fuel →
    (∀ it ∈ items.head?, j ≤ it.1) →
    splitLoop (pre ++ framed items) fuel (pre.length + j) = .ok (items.map (·.2)) := by
  intro items
  induction items with
  | nil => intro _ _ _ h; exact absurd rfl h
  | cons it items ih =>
    intro pre fuel j _ hall hf hj
    obtain ⟨k, n⟩ := it
    obtain ⟨hk, hclean⟩ := hall (k, n) (by simp)
    have hjk : j ≤ k := hj (k, n) (by simp)
    simp only at hk hclean
    cases fuel with
    | zero => omega
    | succ f =>
      rw [splitLoop]
      have hbuf : pre ++ framed ((k, n) :: items) = pre ++ (sc k ++ (n ++ framed items)) := by
        rw [framed_cons]; simp [List.append_assoc]
      have h1 : find (pre ++ framed ((k, n) :: items)) (pre.length + j) = some (pre.length + k) := by
        have e : pre ++ framed ((k, n) :: items) = (pre ++ zeros j) ++ (sc (k - j) ++ (n ++ framed items)) := by
          rw [hbuf]; unfold sc; rw [zeros_split j k hjk]; simp [List.append_assoc]
        have e2 : pre.length + j = (pre ++ zeros j).length := by simp [zeros]
        rw [e, e2, find_at, findFrom_sc (k - j) (by omega)]
        simp [zeros]; omega
      rw [h1]
      simp only
      -- nal_start
      have hsclen : (sc k).length = k + 3 := by simp [sc, zeros]
      have hstart : pre.length + k + 3 = (pre ++ sc k).length := by simp [hsclen]; omega
      cases items with
      | nil =>
        have hbuf2 : pre ++ framed [(k, n)] = (pre ++ sc k) ++ n := by
          rw [hbuf]; simp [framed, List.append_assoc]
        have h2 : find (pre ++ framed [(k, n)]) (pre.length + k + 3) = none := by
          rw [hbuf2, hstart, find_at, findFrom_none n _ hclean.1]
        rw [h2]
        simp only
        have : slice (pre ++ framed [(k, n)]) (pre.length + k + 3) (pre ++ framed [(k, n)]).length = n := by
          rw [hbuf2]
          have := slice_mid' (pre ++ sc k) n [] (pre.length + k + 3) ((pre ++ sc k) ++ n).length hstart (by simp [Nat.add_assoc])
          simpa using this
        rw [this]; rfl
      | cons it2 items2 =>
        obtain ⟨k2, n2⟩ := it2
        obtain ⟨hk2, _⟩ := hall (k2, n2) (by simp)
        simp only at hk2
        have hbuf2 : pre ++ framed ((k, n) :: (k2, n2) :: items2)
            = (pre ++ sc k) ++ (n ++ sc k2 ++ (n2 ++ framed items2)) := by
          rw [hbuf, framed_cons]; simp [List.append_assoc]
        have h2 : find (pre ++ framed ((k, n) :: (k2, n2) :: items2)) (pre.length + k + 3)
            = some (pre.length + k + 3 + n.length + k2) := by
          rw [hbuf2, hstart, find_at, findFrom_clean n k2 _ _ hk2 hclean.1]
        rw [h2]
        simp only
        have hbuf3 : pre ++ framed ((k, n) :: (k2, n2) :: items2)
            = (pre ++ sc k ++ n) ++ framed ((k2, n2) :: items2) := by
          rw [hbuf2, framed_cons]; simp [List.append_assoc]
        have hlen3 : pre.length + k + 3 + n.length + k2 = (pre ++ sc k ++ n).length + k2 := by
          simp [hsclen]; omega
        have hrec := ih (pre ++ sc k ++ n) f k2 (by simp) (fun it hit => hall it (by simp [hit]))
          (by simp at hf ⊢; omega) (by simp)
        rw [← hbuf3, ← hlen3] at hrec
        rw [hrec]
        obtain ⟨p, hp, hp0⟩ := prev_byte pre n (n2 ++ framed items2) k k2 hclean hk2
        rw [hbuf2]
        rw [hstart]
        rw [hp]
        simp only [ok_bind, pure_eq, List.map_cons]
        have hsl : ∀ j, j = (pre ++ sc k).length + n.length →
            slice (pre ++ sc k ++ (n ++ sc k2 ++ (n2 ++ framed items2))) (pre ++ sc k).length j = n := by
          intro j hj
          have := slice_mid' (pre ++ sc k) n (sc k2 ++ (n2 ++ framed items2)) _ j rfl hj
          simpa [List.append_assoc] using this
        by_cases h0 : p = 0
        · have hk21 := hp0.mp h0
          rw [if_pos h0, hsl _ (by omega)]
        · have hk20 : k2 = 0 := by
            have : ¬ k2 = 1 := fun h => h0 (hp0.mpr h)
            omega
          rw [if_neg h0, hsl _ (by omega)]

theorem framed_length_ge (items : List (Nat × Bytes)) : items.length ≤ (framed items).length := by
  induction items with
  | nil => simp
  | cons it items ih =>
    obtain ⟨k, n⟩ := it
    rw [framed_cons]
    simp [sc, zeros]; omega

theorem splitBitstream_framed (items : List (Nat × Bytes)) (hall : ∀ it ∈ items, it.1 ≤ 1 ∧ Clean it.2) :
    splitBitstream (framed items) = .ok (items.map (·.2)) := by
  unfold splitBitstream
  cases items with
  | nil => simp [framed, splitLoop, find, findFrom]
  | cons it items =>
    have := splitLoop_framed (it :: items) [] ((framed (it :: items)).length + 1) 0 (by simp) hall
      (by have := framed_length_ge (it :: items); omega) (by simp)
    simpa using this
