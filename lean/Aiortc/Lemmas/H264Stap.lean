import Aiortc.Lemmas.H264
/-! STAP-A aggregation: what `_packetize_stap_a` returns for non-empty NAL units. -/
namespace Aiortc.Lemmas.H264
open Aiortc Aiortc.Gen Aiortc.Model.H264

theorem getB_cons (b : Nat) (t : Bytes) : getB (b :: t) 0 = .ok b := rfl

theorem packU16_nat (n : Nat) (h : n < 65536) : packU16? (n : Int) = some (u16be n) := by
  unfold packU16?
  split
  · rw [Int.toNat_natCast]
  · omega

theorem stapBody_cons (b : Nat) (t : Bytes) (avail : Int) (counter h : Nat) (payload : Bytes)
    (hlen : (b :: t).length < 65536) :
    stapBody (b :: t) avail counter h payload = .ok
      (avail - ((H264_LENGTH_FIELD_SIZE + (b :: t).length : Nat) : Int), counter + 1,
       (if (h ||| (b &&& 0x80)) &&& 0x60 < b &&& 0x60 then (h ||| (b &&& 0x80)) &&& 0x9F ||| (b &&& 0x60)
          else h ||| (b &&& 0x80)),
       payload ++ u16be (b :: t).length ++ (b :: t)) := by
  have hpk : packU16? (((b :: t).length : Nat) : Int) = some (u16be (b :: t).length) :=
    packU16_nat _ hlen
  unfold stapBody
  rw [getB_cons, hpk]
  rfl

theorem stapLoop_spec : ∀ (rest : List Bytes) (nalu : Bytes) (avail : Int) (counter h : Nat) (payload : Bytes),
    nalu ≠ [] → (∀ n ∈ rest, n ≠ []) → avail ≤ 65535 →
    ∃ (agg : List Bytes) (st : StapSt), stapLoop rest nalu avail counter h payload = .ok st ∧
      st.payload = payload ++ stapEnc agg ∧ st.counter = counter + agg.length ∧
      nalu :: rest = agg ++ (st.nalu.toList ++ st.rest) ∧ (st.nalu = none → st.rest = []) ∧
      st.stap_header &&& 0x1F = h &&& 0x1F ∧
      (agg ≠ [] → ((stapEnc agg).length : Int) ≤ avail + 2) ∧ (∀ n ∈ agg, n.length < 65536) := by
  intro rest
  induction rest with
  | nil =>
    intro nalu avail counter h payload hne _ hav
    rw [stapLoop]
    by_cases hc : (nalu.length : Int) ≤ avail ∧ counter < 9
    · obtain ⟨b, t, rfl⟩ : ∃ b t, nalu = b :: t := by
        cases nalu with
        | nil => exact absurd rfl hne
        | cons b t => exact ⟨b, t, rfl⟩
      rw [if_pos hc, stapBody_cons b t avail counter h payload (by omega)]
      refine ⟨[b :: t], _, rfl, ?_, ?_, ?_, ?_, ?_, ?_, ?_⟩
      · simp [List.append_assoc]
      · simp
      · simp
      · simp
      · dsimp only; split
        · rw [stap_hdr_nri, stap_hdr_f]
        · rw [stap_hdr_f]
      · intro _; simp at hc ⊢; omega
      · intro n hn; simp at hn; subst hn; simp at hc ⊢; omega
    · rw [if_neg hc]
      exact ⟨[], _, rfl, by simp, by simp, by simp, by simp, by simp, by simp, by simp⟩
  | cons next rest' ih =>
    intro nalu avail counter h payload hne hrest hav
    rw [stapLoop]
    by_cases hc : (nalu.length : Int) ≤ avail ∧ counter < 9
    · obtain ⟨b, t, rfl⟩ : ∃ b t, nalu = b :: t := by
        cases nalu with
        | nil => exact absurd rfl hne
        | cons b t => exact ⟨b, t, rfl⟩
      rw [if_pos hc, stapBody_cons b t avail counter h payload (by omega)]
      obtain ⟨agg, st, hst, hp, hcn, hl, hnone, hh, hsz, hlen⟩ :=
        ih next (avail - ((H264_LENGTH_FIELD_SIZE + (b :: t).length : Nat) : Int)) (counter + 1)
          (if (h ||| (b &&& 0x80)) &&& 0x60 < b &&& 0x60 then (h ||| (b &&& 0x80)) &&& 0x9F ||| (b &&& 0x60)
            else h ||| (b &&& 0x80))
          (payload ++ u16be (b :: t).length ++ (b :: t))
          (hrest next (by simp)) (fun n hn => hrest n (by simp [hn])) (by simp [H264_LENGTH_FIELD_SIZE]; omega)
      refine ⟨(b :: t) :: agg, st, hst, ?_, ?_, ?_, hnone, ?_, ?_, ?_⟩
      · rw [hp]; simp [List.append_assoc]
      · rw [hcn]; simp; omega
      · rw [hl]; simp
      · rw [hh]; split
        · rw [stap_hdr_nri, stap_hdr_f]
        · rw [stap_hdr_f]
      · intro _
        by_cases ha : agg = []
        · subst ha; simp at hc ⊢; omega
        · have := hsz ha
          simp [H264_LENGTH_FIELD_SIZE] at this hc ⊢; omega
      · intro n hn
        simp only [List.mem_cons] at hn
        rcases hn with hn | hn
        · subst hn; simp at hc ⊢; omega
        · exact hlen n hn
    · rw [if_neg hc]
      exact ⟨[], _, rfl, by simp, by simp, by simp, by simp, by simp, by simp, by simp⟩

/-- What `_packetize_stap_a(data, it)` returns: it consumes a non-empty prefix `agg` of `data :: it`,
hands back the look-ahead unit and the rest of the iterator untouched, and the packet is either `data`
itself or a STAP-A of at most 1300 bytes containing exactly `agg`. -/
theorem packetizeStapA_spec (data : Bytes) (it : List Bytes) (hd : data ≠ []) (hit : ∀ n ∈ it, n ≠ []) :
    ∃ (agg : List Bytes) (packet : Bytes) (next : Option Bytes) (rest : List Bytes),
      packetizeStapA data it = .ok (packet, next, rest) ∧
      data :: it = agg ++ (next.toList ++ rest) ∧ (next = none → rest = []) ∧
      ((agg = [data] ∧ packet = data) ∨
       (2 ≤ agg.length ∧ ∃ h, h &&& 0x1F = 24 ∧ packet = h :: stapEnc agg ∧ (stapEnc agg).length ≤ 1299 ∧
          ∀ n ∈ agg, n.length < 65536)) := by
  obtain ⟨b, t, rfl⟩ : ∃ b t, data = b :: t := by
    cases data with
    | nil => exact absurd rfl hd
    | cons b t => exact ⟨b, t, rfl⟩
  obtain ⟨agg, st, hst, hp, hcn, hl, hnone, hh, hsz, hlen⟩ :=
    stapLoop_spec it (b :: t) (((H264_PACKET_MAX : Nat) : Int) - ((H264_STAP_A_HEADER_SIZE : Nat) : Int)) 0
      (H264_NAL_TYPE_STAP_A ||| (b &&& 0xE0)) [] hd hit (by simp [H264_PACKET_MAX, H264_STAP_A_HEADER_SIZE])
  unfold packetizeStapA
  simp only [getB_cons, ok_bind, hst, pure_eq]
  simp only [Nat.zero_add, List.nil_append] at hcn hp
  match agg, hcn, hl, hp, hsz, hlen with
  | [], hcn, hl, hp, _, _ =>
    -- counter = 0: the unit does not fit an aggregate; it is sent alone and the next one is fetched
    simp only [List.length_nil] at hcn
    simp only [List.nil_append] at hl
    have hsn : st.nalu = some (b :: t) ∧ st.rest = it := by
      cases hn : st.nalu with
      | none => rw [hn, hnone hn] at hl; simp at hl
      | some x => rw [hn] at hl; simp at hl; exact ⟨by rw [hl.1], hl.2.symm⟩
    rw [hcn, hsn.2]
    cases it with
    | nil => exact ⟨[b :: t], b :: t, none, [], by simp, by simp, by simp, Or.inl ⟨rfl, rfl⟩⟩
    | cons n r => exact ⟨[b :: t], b :: t, some n, r, by simp, by simp, by simp, Or.inl ⟨rfl, rfl⟩⟩
  | [x], hcn, hl, hp, _, _ =>
    simp only [List.length_singleton] at hcn
    have hx : x = b :: t := by simp at hl; exact hl.1.symm
    subst hx
    rw [hcn]
    exact ⟨[b :: t], b :: t, st.nalu, st.rest, by simp, hl, hnone, Or.inl ⟨rfl, rfl⟩⟩
  | x :: y :: zs, hcn, hl, hp, hsz, hlen =>
    simp only [List.length_cons] at hcn
    have hc2 : ¬ (st.counter = 0) := by omega
    have hc3 : ¬ (st.counter ≤ 1) := by omega
    refine ⟨x :: y :: zs, [st.stap_header] ++ st.payload, st.nalu, st.rest, ?_, hl, hnone, Or.inr ⟨by simp, ?_⟩⟩
    · simp only [hc2, hc3, if_false]
    · refine ⟨st.stap_header, ?_, by rw [hp]; rfl, ?_, hlen⟩
      · rw [hh]; exact stap_hdr_init b
      · have := hsz (by simp)
        simp only [H264_PACKET_MAX, H264_STAP_A_HEADER_SIZE] at this
        omega
