import Aiortc.Model.Jitter
/-!
# Jitter buffer — invariant and per-operation specifications (helper lemmas for Props/C10)

`Inv` is the ring invariant of `JitterBuffer`; every operation of the model is shown to succeed under it,
to preserve it, and its effect on the set of held packets is characterised through the forward distance
`dist o p = (p.seq - o) % 2^16` of a packet from the origin.
-/
namespace Aiortc.Lemmas.Jitter
open Aiortc Aiortc.Gen Aiortc.Model.Jitter

set_option linter.unusedVariables false

def R16 (a : Int) : Prop := 0 ≤ a ∧ a < 65536

/-- Slot `s` of the ring holds packet `p`. -/
def Held (jb : JB) (s : Nat) (p : Packet) : Prop := jb.packets[s]? = some (some p)

/-- Forward distance of `p` from origin `o` in 16-bit serial arithmetic. -/
def dist (o : Int) (p : Packet) : Int := (p.seq - o) % 65536

/-- Index of the slot that sequence number `x` maps to. -/
def pos (jb : JB) (x : Int) : Nat := (x % (jb.capacity : Int)).toNat

/-- The static fields. -/
def Same (a b : JB) : Prop :=
  a.capacity = b.capacity ∧ a.prefetch = b.prefetch ∧ a.isVideo = b.isVideo

theorem Same.rfl' (a : JB) : Same a a := ⟨rfl, rfl, rfl⟩
theorem Same.trans {a b c : JB} (h1 : Same a b) (h2 : Same b c) : Same a c :=
  ⟨h1.1.trans h2.1, h1.2.1.trans h2.2.1, h1.2.2.trans h2.2.2⟩

structure Inv (jb : JB) : Prop where
  cap_pos : 0 < jb.capacity
  cap_dvd : (jb.capacity : Int) ∣ 65536
  len : jb.packets.length = jb.capacity
  empty : jb.origin = none → ∀ s p, ¬ Held jb s p
  orig : ∀ o, jb.origin = some o → R16 o
  slots : ∀ o, jb.origin = some o → ∀ s p, Held jb s p →
    R16 p.seq ∧ dist o p < jb.capacity ∧ pos jb p.seq = s

/-! ## Modular arithmetic with a variable modulus dividing 2^16 -/

theorem dvd_small {c x : Int} (h : c ∣ x) (h0 : 0 ≤ x) (h1 : x < c) : x = 0 := by
  have := Int.emod_eq_of_lt h0 h1
  have := Int.emod_eq_zero_of_dvd h
  omega

theorem slot_inj {a b c o : Int} (ha : 0 ≤ a) (hac : a < c) (hb : 0 ≤ b) (hbc : b < c)
    (e : (o + a) % c = (o + b) % c) : a = b := by
  have h1 := (Int.emod_eq_emod_iff_emod_sub_eq_zero).1 e
  have h2 := Int.dvd_of_emod_eq_zero h1
  have h3 : o + a - (o + b) = a - b := by omega
  rw [h3] at h2
  rcases Int.le_total b a with hba | hab
  · have := dvd_small h2 (by omega) (by omega); omega
  · have h4 : c ∣ b - a := by have := Int.dvd_neg.2 h2; rwa [Int.neg_sub] at this
    have := dvd_small h4 (by omega) (by omega); omega

theorem pos_lt (jb : JB) (h : 0 < jb.capacity) (x : Int) : pos jb x < jb.capacity := by
  unfold pos
  have h1 := Int.emod_nonneg x (b := (jb.capacity : Int)) (by omega)
  have h2 := Int.emod_lt_of_pos x (b := (jb.capacity : Int)) (by omega)
  omega

theorem pos_eq_iff (jb : JB) (h : 0 < jb.capacity) (x y : Int) :
    pos jb x = pos jb y ↔ x % (jb.capacity : Int) = y % (jb.capacity : Int) := by
  unfold pos
  have h1 := Int.emod_nonneg x (b := (jb.capacity : Int)) (by omega)
  have h2 := Int.emod_nonneg y (b := (jb.capacity : Int)) (by omega)
  omega

/-- The slot of `(o + d) mod 2^16` is the slot of `o + d`: this is where `capacity ∣ 2^16` is needed. -/
theorem pos_wrap (jb : JB) (hd : (jb.capacity : Int) ∣ 65536) (x : Int) :
    pos jb (x % 65536) = pos jb x := by
  unfold pos; rw [Int.emod_emod_of_dvd x hd]

theorem seq_eq_of_dist {o : Int} {p : Packet} (ho : R16 o) (hp : R16 p.seq) :
    p.seq = (o + dist o p) % 65536 := by
  unfold dist R16 at *; omega

theorem dist_range (o : Int) (p : Packet) : 0 ≤ dist o p ∧ dist o p < 65536 := by
  unfold dist; omega

/-- Under the invariant a packet sits in the slot `(o + dist) % capacity`. -/
theorem pos_of_dist (jb : JB) (hd : (jb.capacity : Int) ∣ 65536) {o : Int} {p : Packet}
    (ho : R16 o) (hp : R16 p.seq) : pos jb p.seq = pos jb (o + dist o p) := by
  have := seq_eq_of_dist ho hp
  rw [this, pos_wrap jb hd]

/-- A packet found in window slot `i` is exactly `i` ahead of the origin. -/
theorem dist_of_held {jb : JB} (hI : Inv jb) {o : Int} (ho : jb.origin = some o) {i : Int}
    (hi0 : 0 ≤ i) (hi : i < jb.capacity) {p : Packet} (h : Held jb (pos jb (o + i)) p) :
    dist o p = i := by
  obtain ⟨hp, hdist, hpos⟩ := hI.slots o ho _ _ h
  have hO := hI.orig o ho
  rw [pos_of_dist jb hI.cap_dvd hO hp, pos_eq_iff jb hI.cap_pos] at hpos
  exact slot_inj (dist_range o p).1 hdist hi0 hi hpos

/-- Conversely a held packet is found in window slot `dist o p`. -/
theorem held_at_dist {jb : JB} (hI : Inv jb) {o : Int} (ho : jb.origin = some o) {s : Nat} {p : Packet}
    (h : Held jb s p) : Held jb (pos jb (o + dist o p)) p := by
  obtain ⟨hp, hdist, hpos⟩ := hI.slots o ho _ _ h
  rw [← pos_of_dist jb hI.cap_dvd (hI.orig o ho) hp, hpos]; exact h

/-- Two held packets with the same distance are the same packet. -/
theorem held_unique {jb : JB} (hI : Inv jb) {o : Int} (ho : jb.origin = some o) {s t : Nat} {p q : Packet}
    (hp : Held jb s p) (hq : Held jb t q) (e : dist o p = dist o q) : p = q := by
  have h1 := held_at_dist hI ho hp
  have h2 := held_at_dist hI ho hq
  rw [e] at h1
  unfold Held at h1 h2
  rw [h1] at h2
  injection h2 with h2; injection h2

/-! ## Elementary slot operations -/

theorem slotOf_ok (jb : JB) (h : 0 < jb.capacity) (x : Int) : slotOf jb x = .ok (pos jb x) := by
  unfold slotOf pos; simp [Nat.ne_of_gt h]

theorem setSlot_ok (jb : JB) (k : Nat) (v : Option Packet) (h : k < jb.packets.length) :
    setSlot jb k v = .ok { jb with packets := jb.packets.set k v } := by
  unfold setSlot; simp [h]

theorem getSlot_ok (jb : JB) (k : Nat) (h : k < jb.packets.length) :
    getSlot jb k = .ok (jb.packets[k]?.join) := by
  unfold getSlot
  have : jb.packets[k]? = some jb.packets[k] := List.getElem?_eq_getElem h
  rw [this]; rfl

theorem held_iff_join (jb : JB) (k : Nat) (p : Packet) : Held jb k p ↔ jb.packets[k]?.join = some p := by
  unfold Held
  cases h : jb.packets[k]? with
  | none => simp
  | some v => cases v <;> simp

theorem held_set (jb : JB) (k : Nat) (v : Option Packet) (o' : Option Int) (s : Nat) (p : Packet)
    (hk : k < jb.packets.length) :
    Held { jb with packets := jb.packets.set k v, origin := o' } s p ↔
      (if s = k then v = some p else Held jb s p) := by
  unfold Held
  simp only [List.getElem?_set, hk, if_true]
  by_cases h : s = k
  · subst h; simp
  · have : ¬ k = s := fun e => h e.symm
    simp [h, this]

end Aiortc.Lemmas.Jitter
