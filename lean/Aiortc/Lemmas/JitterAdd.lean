import Aiortc.Lemmas.JitterSmart
import Aiortc.Lemmas.JitterFrame
/-!
# `add`: total under the invariant; its effect is described by `AddPost`
(early return, or: an intermediate state `jb2` after reset / overflow handling, the state `jb3` after the
packet was placed, and the outcome of `_remove_frame` on `jb3`).
-/
namespace Aiortc.Lemmas.Jitter
open Aiortc Aiortc.Gen Aiortc.Model.Jitter

set_option linter.unusedVariables false

/-- `jb'` is `jb` with the origin advanced by `r` and exactly the packets at distance `< r` dropped. -/
def Shift (jb jb' : JB) (o : Int) (r : Nat) : Prop :=
  Same jb jb' ∧ jb'.origin = some ((o + (r : Int)) % 65536) ∧ Inv jb' ∧
  jb'.packets.length = jb.packets.length ∧
  ∀ s p, Held jb' s p ↔ (Held jb s p ∧ (r : Int) ≤ dist o p)

/-- `f` with ghost `used` is a frame sitting at the origin `o` of `jb`. -/
def FrameAt (jb : JB) (o : Int) (f : Frame) (used : List Packet) : Prop :=
  used ≠ [] ∧ used.length < jb.capacity ∧ f.data = joinData used ∧
  (∀ (k : Nat) p, used[k]? = some p → Held jb (pos jb (o + (k : Int))) p ∧ p.ts = f.ts) ∧
  ∃ q, Held jb (pos jb (o + (used.length : Int))) q ∧ q.ts ≠ f.ts

/-- What `_remove_frame` does on `jb3` (origin `o`). -/
def RFPost (jb3 : JB) (o : Int) (jbOut : JB) (frame : Option Frame) (used : List Packet) : Prop :=
  (frame = none ∧ used = [] ∧ jbOut = jb3 ∧
      scan jb3.prefetch (winList jb3 o 0 jb3.capacity) 0 RF.init = none) ∨
  (∃ f st, frame = some f ∧ FrameAt jb3 o f used ∧ Shift jb3 jbOut o used.length ∧
      scan jb3.prefetch (winList jb3 o 0 jb3.capacity) 0 RF.init = some st ∧ st.used = used ∧ st.frame = some f)

theorem removeFrame_spec {jb : JB} (hI : Inv jb) {o : Int} (ho : jb.origin = some o) (x : Int) :
    ∃ out, removeFrame jb x = .ok out ∧ RFPost jb o out.jb out.frame out.used := by
  have hc : jb.capacity ≠ 0 := Nat.ne_of_gt hI.cap_pos
  simp only [removeFrame, hc, if_false, ho, rfLoop_eq_scan hI]
  cases hs : scan jb.prefetch (winList jb o 0 jb.capacity) 0 RF.init with
  | none => exact ⟨_, rfl, Or.inl ⟨rfl, rfl, rfl, hs⟩⟩
  | some st =>
    obtain ⟨f, q, rest, hf, hne, hl, hts, hq, hdata, hrm⟩ := scan_init _ _ _ hs
    have hlen := winList_length jb o 0 jb.capacity
    rw [hl] at hlen
    simp at hlen
    have hlt : st.used.length < jb.capacity := by omega
    obtain ⟨jb', e, hS, ho', hI', hl', hH⟩ := remove_spec hI ho st.remove (by omega)
    simp only [e]
    refine ⟨_, rfl, Or.inr ⟨f, st, hf, ⟨hne, hlt, hdata, ?_, ?_⟩, ⟨hS, by rw [← hrm]; exact ho', hI', hl', by rw [← hrm]; exact hH⟩, hs, rfl, hf⟩⟩
    · intro k p hk
      have hk' : k < st.used.length := by
        rcases Nat.lt_or_ge k st.used.length with h | h
        · exact h
        · rw [List.getElem?_eq_none h] at hk; cases hk
      have h1 : (winList jb o 0 jb.capacity)[k]? = some (some p) := by
        rw [hl, List.getElem?_append_left (by simpa using hk'), List.getElem?_map, hk]; rfl
      rw [winList_get jb o _ k (by omega)] at h1
      injection h1 with h1
      exact ⟨(held_iff_join jb _ p).2 h1, hts p (List.mem_of_getElem? hk)⟩
    · refine ⟨q, ?_, hq⟩
      have h1 : (winList jb o 0 jb.capacity)[st.used.length]? = some (some q) := by
        rw [hl, List.getElem?_append_right (by simp)]; simp
      rw [winList_get jb o _ _ hlt] at h1
      injection h1 with h1
      exact (held_iff_join jb _ q).2 h1

/-- `p` arrives at least `n` positions behind the origin (serial arithmetic, as `add` computes it). -/
def Late (jb : JB) (p : Packet) (n : Int) : Prop :=
  ∃ o, jb.origin = some o ∧ uint16_add o (-p.seq) < uint16_add p.seq (-o) ∧ n ≤ uint16_add o (-p.seq)

/-- The state `jb2` (origin `o2`) in which `add` places the packet, after the reset / overflow handling. -/
structure Mid (jb : JB) (p : Packet) (jb2 : JB) (o2 : Int) (pli : Bool) : Prop where
  same : Same jb jb2
  inv : Inv jb2
  orig : jb2.origin = some o2
  near : dist o2 p < jb.capacity
  sub : ∀ s q, Held jb2 s q → Held jb s q
  keep : jb.isVideo = true → pli = false → ∀ s q, Held jb s q → Held jb2 s q
  adv : ¬ Late jb p (MAX_MISORDER : Int) → ∀ o, jb.origin = some o →
    ∃ a : Int, 0 ≤ a ∧ o2 = (o + a) % 65536 ∧ a ≤ dist o p ∧ dist o p ≤ 32768 ∧
      (a = 0 ∨ (jb.capacity : Int) ≤ dist o p)
  first : jb.origin = none → o2 = p.seq
  audio : jb.isVideo = false → pli = false

/-- `jb3` is `jb2` with `p` stored in its slot. -/
def Placed (jb2 : JB) (p : Packet) (jb3 : JB) : Prop :=
  Same jb2 jb3 ∧ jb3.origin = jb2.origin ∧ Inv jb3 ∧
  ∀ s q, Held jb3 s q ↔ (if s = pos jb2 p.seq then q = p else Held jb2 s q)

def AddPost (jb : JB) (p : Packet) (out : AddOut) : Prop :=
  (¬ Late jb p (MAX_MISORDER : Int) ∧ Late jb p 0 ∧ out.jb = jb ∧ out.pli = false ∧ out.frame = none ∧ out.used = []) ∨
  (∃ jb2 o2 jb3, Mid jb p jb2 o2 out.pli ∧ Placed jb2 p jb3 ∧ RFPost jb3 o2 out.jb out.frame out.used)

theorem inv_of_empty {jb : JB} (hc : 0 < jb.capacity) (hd : (jb.capacity : Int) ∣ 65536)
    (hl : jb.packets.length = jb.capacity) (o : Int) (ho : jb.origin = some o) (hO : R16 o)
    (hE : ∀ s p, ¬ Held jb s p) : Inv jb :=
  ⟨hc, hd, hl, fun _ => hE, fun o1 h1 => by rw [ho] at h1; injection h1 with h1; rw [← h1]; exact hO,
   fun o1 h1 s p h => absurd h (hE s p)⟩

theorem uint16_sub_eq_dist (o : Int) (p : Packet) : uint16_add p.seq (-o) = dist o p := by
  unfold uint16_add dist; congr 1

theorem addPlace_spec {jb2 : JB} {o2 : Int} (hI : Inv jb2) (ho : jb2.origin = some o2) (p : Packet)
    (hp : R16 p.seq) (hnear : dist o2 p < jb2.capacity) (pli : Bool) :
    ∃ out jb3, addPlace jb2 p pli = .ok out ∧ out.pli = pli ∧ Placed jb2 p jb3 ∧
      RFPost jb3 o2 out.jb out.frame out.used := by
  have hk : pos jb2 p.seq < jb2.packets.length := by rw [hI.len]; exact pos_lt jb2 hI.cap_pos _
  let jb3 : JB := { jb2 with packets := jb2.packets.set (pos jb2 p.seq) (some p) }
  have hH : ∀ s q, Held jb3 s q ↔ (if s = pos jb2 p.seq then q = p else Held jb2 s q) := by
    intro s q
    have := held_set jb2 (pos jb2 p.seq) (some p) jb2.origin s q hk
    rw [show jb3 = { jb2 with packets := jb2.packets.set (pos jb2 p.seq) (some p), origin := jb2.origin } from rfl, this]
    by_cases h : s = pos jb2 p.seq
    · simp only [h, if_true]; constructor
      · intro e; injection e with e; exact e.symm
      · intro e; rw [e]
    · simp only [h, if_false]
  have hI3 : Inv jb3 := by
    refine ⟨hI.cap_pos, hI.cap_dvd, by simp [jb3, hI.len], ?_, hI.orig, ?_⟩
    · intro h; rw [show jb3.origin = jb2.origin from rfl, ho] at h; cases h
    · intro o1 h1 s q hq
      have h1' : jb2.origin = some o1 := h1
      rw [ho] at h1'; injection h1' with h1'; subst h1'
      rw [hH] at hq
      by_cases h : s = pos jb2 p.seq
      · simp only [h, if_true] at hq; subst hq
        exact ⟨hp, hnear, h.symm⟩
      · simp only [h, if_false] at hq
        exact hI.slots o2 ho s q hq
  obtain ⟨r, er, hr⟩ := removeFrame_spec hI3 (o := o2) ho p.seq
  refine ⟨⟨r.jb, pli, r.frame, r.used⟩, jb3, ?_, rfl, ⟨⟨rfl, rfl, rfl⟩, rfl, hI3, hH⟩, hr⟩
  simp only [addPlace, slotOf_ok jb2 hI.cap_pos, setSlot_ok jb2 _ _ hk]
  rw [show ({ jb2 with packets := jb2.packets.set (pos jb2 p.seq) (some p) } : JB) = jb3 from rfl, er]

end Aiortc.Lemmas.Jitter
