import Aiortc.Lemmas.JitterAdd
/-! # `add_spec`: `add` never fails under the invariant and satisfies `AddPost`. -/
namespace Aiortc.Lemmas.Jitter
open Aiortc Aiortc.Gen Aiortc.Model.Jitter

set_option linter.unusedVariables false

theorem add_finish {jb jb2 : JB} {p : Packet} {o2 : Int} {pli : Bool} (hp : R16 p.seq)
    (hM : Mid jb p jb2 o2 pli) : ∃ out, addPlace jb2 p pli = .ok out ∧ AddPost jb p out := by
  obtain ⟨out, jb3, e, hpli, hPl, hRF⟩ :=
    addPlace_spec hM.inv hM.orig p hp (by rw [← hM.same.1]; exact hM.near) pli
  exact ⟨out, e, Or.inr ⟨jb2, o2, jb3, by rw [hpli]; exact hM, hPl, hRF⟩⟩

theorem dist_self (p : Packet) : dist p.seq p = 0 := by unfold dist; simp

theorem no_held_of_shift_cap {jb jb' : JB} (hI : Inv jb) {o : Int} (ho : jb.origin = some o) {k : Nat}
    (hk : k = jb.capacity) (hH : ∀ s p, Held jb' s p ↔ (Held jb s p ∧ (k : Int) ≤ dist o p)) :
    ∀ s p, ¬ Held jb' s p := by
  intro s p h
  obtain ⟨h1, h2⟩ := (hH s p).1 h
  have := (hI.slots o ho s p h1).2.1
  omega

theorem add_spec {jb : JB} (hI : Inv jb) (p : Packet) (hp : R16 p.seq) :
    ∃ out, add jb p = .ok out ∧ AddPost jb p out := by
  have hcap : ¬ ((0 : Int) ≥ (jb.capacity : Int)) := by have := hI.cap_pos; omega
  cases ho : jb.origin with
  | none =>
    have hM : Mid jb p { jb with origin := some p.seq } p.seq false := by
      refine ⟨⟨rfl, rfl, rfl⟩, ?_, rfl, by rw [dist_self]; have := hI.cap_pos; omega, fun s q h => h,
        fun _ _ s q h => h, ?_, fun _ => rfl, fun _ => rfl⟩
      · exact inv_of_empty hI.cap_pos hI.cap_dvd hI.len p.seq rfl hp (fun s q h => hI.empty ho s q h)
      · intro _ o h; rw [ho] at h; cases h
    obtain ⟨out, e, hA⟩ := add_finish hp hM
    refine ⟨out, ?_, hA⟩
    simp only [add, addDist, ho, addMisorder, Int.lt_irrefl, if_false, addOverflow, hcap]
    exact e
  | some o =>
    have hO := hI.orig o ho
    have hdr := dist_range o p
    have hm : uint16_add o (-p.seq) = (o - p.seq) % 65536 := by unfold uint16_add; congr 1
    by_cases hlate : uint16_add o (-p.seq) < dist o p
    · by_cases hmax : uint16_add o (-p.seq) ≥ (MAX_MISORDER : Int)
      · -- reset
        obtain ⟨jb1, e1, hS1, ho1, hI1, hl1, hH1⟩ := remove_spec hI ho jb.capacity (Nat.le_refl _)
        have hE := no_held_of_shift_cap hI ho rfl hH1
        have hM : Mid jb p { jb1 with origin := some p.seq } p.seq jb1.isVideo := by
          refine ⟨hS1, ?_, rfl, by rw [dist_self]; have := hI.cap_pos; omega, fun s q h => absurd h (hE s q),
            ?_, ?_, (fun h => by simp [ho] at h), (fun h => by rw [← hS1.2.2]; exact h)⟩
          · exact inv_of_empty hI1.cap_pos hI1.cap_dvd hI1.len p.seq rfl hp hE
          · intro hv hpl; rw [← hS1.2.2, hv] at hpl; cases hpl
          · intro hn; exact absurd ⟨o, ho, by rw [uint16_sub_eq_dist]; exact hlate, hmax⟩ hn
        obtain ⟨out, e, hA⟩ := add_finish hp hM
        refine ⟨out, ?_, hA⟩
        have hcap1 : ¬ ((0 : Int) ≥ (jb1.capacity : Int)) := by rw [← hS1.1]; exact hcap
        simp only [add, addDist, ho, addMisorder, uint16_sub_eq_dist, hlate, hmax, if_true, e1, addOverflow, hcap1,
          if_false]
        exact e
      · -- early return
        refine ⟨⟨jb, false, none, []⟩, ?_, Or.inl ⟨?_, ?_, rfl, rfl, rfl, rfl⟩⟩
        · simp only [add, addDist, ho, addMisorder, uint16_sub_eq_dist, hlate, hmax, if_true, if_false]
        · rintro ⟨o', ho', h1, h2⟩
          rw [ho] at ho'; injection ho' with ho'; subst ho'; exact hmax h2
        · exact ⟨o, ho, by rw [uint16_sub_eq_dist]; exact hlate, by rw [hm]; omega⟩
    · have hnl : ¬ Late jb p (MAX_MISORDER : Int) → ∀ o', jb.origin = some o' → dist o' p ≤ 32768 := by
        intro _ o' ho'; rw [ho] at ho'; injection ho' with ho'; subst ho'
        rw [hm] at hlate; unfold dist R16 at *; omega
      by_cases hov : dist o p ≥ (jb.capacity : Int)
      · -- overflow
        obtain ⟨jb1, b, k, e1, hS1, hk1, ho1, hI1, hl1, hH1, hb1, hb2, hb3⟩ :=
          smartRemove_spec hI ho (dist o p - (jb.capacity : Int) + 1)
        cases b with
        | true =>
          obtain ⟨hkc, _⟩ := hb1 rfl
          have hE := no_held_of_shift_cap hI ho hkc hH1
          have hM : Mid jb p { jb1 with origin := some p.seq } p.seq (false || jb1.isVideo) := by
            refine ⟨hS1, ?_, rfl, by rw [dist_self]; have := hI.cap_pos; omega, fun s q h => absurd h (hE s q),
              ?_, ?_, (fun h => by simp [ho] at h), (fun h => by rw [← hS1.2.2, h]; rfl)⟩
            · exact inv_of_empty hI1.cap_pos hI1.cap_dvd hI1.len p.seq rfl hp hE
            · intro hv hpl; rw [← hS1.2.2, hv] at hpl; cases hpl
            · intro hn o' ho'
              have h32 := hnl hn o' ho'
              rw [ho] at ho'; injection ho' with ho'; subst ho'
              exact ⟨dist o p, hdr.1, seq_eq_of_dist hO hp, Int.le_refl _, h32, Or.inr hov⟩
          obtain ⟨out, e, hA⟩ := add_finish hp hM
          refine ⟨out, ?_, hA⟩
          simp only [add, addDist, ho, addMisorder, uint16_sub_eq_dist, hlate, if_false, addOverflow, hov, if_true, e1]
          exact e
        | false =>
          have hkn := hb3 rfl hI.cap_pos
          have hcnt := hb2 rfl hkn
          have hM : Mid jb p jb1 ((o + (k : Int)) % 65536) (false || jb1.isVideo) := by
            refine ⟨hS1, hI1, ho1, ?_, fun s q h => ((hH1 s q).1 h).1, ?_, ?_, (fun h => by simp [ho] at h),
              (fun h => by rw [← hS1.2.2, h]; rfl)⟩
            · unfold dist R16 at *; simp at hcnt; omega
            · intro hv hpl; rw [← hS1.2.2, hv] at hpl; cases hpl
            · intro hn o' ho'
              have h32 := hnl hn o' ho'
              rw [ho] at ho'; injection ho' with ho'; subst ho'
              exact ⟨(k : Int), by omega, rfl, by omega, h32, Or.inr hov⟩
          obtain ⟨out, e, hA⟩ := add_finish hp hM
          refine ⟨out, ?_, hA⟩
          simp only [add, addDist, ho, addMisorder, uint16_sub_eq_dist, hlate, if_false, addOverflow, hov, if_true, e1]
          exact e
      · -- the packet fits
        have hM : Mid jb p jb o false := by
          refine ⟨Same.rfl' jb, hI, ho, by omega, fun s q h => h, fun _ _ s q h => h, ?_,
            (fun h => by simp [ho] at h), fun _ => rfl⟩
          intro hn o' ho'
          have h32 := hnl hn o' ho'
          rw [ho] at ho'; injection ho' with ho'; subst ho'
          exact ⟨0, Int.le_refl _, by unfold R16 at hO; omega, hdr.1, h32, Or.inl rfl⟩
        obtain ⟨out, e, hA⟩ := add_finish hp hM
        refine ⟨out, ?_, hA⟩
        simp only [add, addDist, ho, addMisorder, uint16_sub_eq_dist, hlate, if_false, addOverflow, hov]
        exact e

end Aiortc.Lemmas.Jitter
