import Aiortc.Lemmas.JitterRemove
/-!
# `_remove_frame`: the loop reads the window `origin, origin+1, …` of the ring; its logic is the pure list
function `scan` over that window (`rfLoop_eq_scan`), and the frame logic is proved on lists.
-/
namespace Aiortc.Lemmas.Jitter
open Aiortc Aiortc.Gen Aiortc.Model.Jitter

set_option linter.unusedVariables false

/-- Content of window position `i` (slot `(o + i) % capacity`). -/
def winAt (jb : JB) (o : Int) (i : Nat) : Option Packet := jb.packets[pos jb (o + (i : Int))]?.join

theorem rfStep_eq {jb : JB} (hI : Inv jb) (o : Int) (st : RF) (count : Nat) :
    rfStep jb o st count = .ok
      (match winAt jb o count with
       | none => .brk
       | some p => rfBody jb.prefetch st count p) := by
  have hk : pos jb (o + (count : Int)) < jb.packets.length := by
    rw [hI.len]; exact pos_lt jb hI.cap_pos _
  simp only [rfStep, slotOf_ok jb hI.cap_pos, getSlot_ok jb _ hk, winAt]
  cases jb.packets[pos jb (o + (count : Int))]?.join with
  | none => rfl
  | some p => rfl

/-- The loop of `_remove_frame` as a function of the window contents. -/
def scan (prefetch : Int) : List (Option Packet) → Nat → RF → Option RF
  | [], _, _ => none
  | none :: _, _, _ => none
  | some p :: rest, count, st =>
    match rfBody prefetch st count p with
    | .cont st1 => scan prefetch rest (count + 1) st1
    | .brk => none
    | .ret st1 => some st1

def winList (jb : JB) (o : Int) (count n : Nat) : List (Option Packet) :=
  (List.range' count n).map (winAt jb o)

theorem rfLoop_eq_scan {jb : JB} (hI : Inv jb) (o : Int) (n : Nat) : ∀ (count : Nat) (st : RF),
    rfLoop jb o n count st = .ok (scan jb.prefetch (winList jb o count n) count st) := by
  induction n with
  | zero => intro count st; rfl
  | succ n ih =>
    intro count st
    simp only [rfLoop, rfStep_eq hI, winList, List.range'_succ, List.map_cons]
    cases hw : winAt jb o count with
    | none => rfl
    | some p =>
      simp only [scan]
      cases hb : rfBody jb.prefetch st count p with
      | cont st1 => simp only []; exact ih (count + 1) st1
      | brk => rfl
      | ret st1 => rfl

theorem winList_length (jb : JB) (o : Int) (count n : Nat) : (winList jb o count n).length = n := by
  simp [winList]

theorem winList_get (jb : JB) (o : Int) (n i : Nat) (hi : i < n) :
    (winList jb o 0 n)[i]? = some (winAt jb o i) := by
  simp [winList, List.getElem?_map, List.getElem?_range', hi]

/-! ## Pure list reasoning about `scan` -/

/-- Once the first frame has been stored it is what the loop returns. -/
theorem scan_frame_some (P : Int) (l : List (Option Packet)) : ∀ (c : Nat) (st st' : RF) (f : Frame),
    st.frame = some f → scan P l c st = some st' →
    st'.frame = some f ∧ st'.used = st.used ∧ st'.remove = st.remove := by
  induction l with
  | nil => intro c st st' f hf h; simp [scan] at h
  | cons x rest ih =>
    intro c st st' f hf h
    cases x with
    | none => simp [scan] at h
    | some p =>
      simp only [scan, rfBody] at h
      cases hts : st.ts with
      | none =>
        simp only [hts] at h
        have := ih (c + 1) _ st' f (by simpa using hf) h
        simpa using this
      | some t =>
        simp only [hts, hf] at h
        by_cases hne : p.ts ≠ t
        · simp only [hne, ne_eq, not_false_eq_true, if_true] at h
          by_cases hP : st.frames + 1 ≥ P
          · simp only [hP, if_true] at h
            injection h with h; subst h; simp [hf]
          · simp only [hP, if_false] at h
            have := ih (c + 1) _ st' f (by simpa using hf) h
            simpa using this
        · simp only [hne, if_false] at h
          have := ih (c + 1) _ st' f (by simpa using hf) h
          simpa using this

/-- While the first frame is being collected (timestamp `t`, packets so far `st.pkts`). -/
theorem scan_run (P : Int) (l : List (Option Packet)) : ∀ (c : Nat) (st st' : RF) (t : Int),
    st.frame = none → st.ts = some t → scan P l c st = some st' →
    ∃ run q rest, l = run.map some ++ some q :: rest ∧ (∀ p ∈ run, p.ts = t) ∧ q.ts ≠ t ∧
      st'.frame = some ⟨joinData (st.pkts ++ run), t⟩ ∧ st'.used = st.pkts ++ run ∧
      st'.remove = c + run.length := by
  induction l with
  | nil => intro c st st' t hf ht h; simp [scan] at h
  | cons x rest ih =>
    intro c st st' t hf ht h
    cases x with
    | none => simp [scan] at h
    | some p =>
      simp only [scan, rfBody, ht, hf] at h
      by_cases hne : p.ts ≠ t
      · simp only [hne, ne_eq, not_false_eq_true, if_true] at h
        refine ⟨[], p, rest, by simp, by simp, hne, ?_⟩
        by_cases hP : st.frames + 1 ≥ P
        · simp only [hP, if_true] at h
          injection h with h; subst h; simp
        · simp only [hP, if_false] at h
          have := scan_frame_some P rest (c + 1) _ st' ⟨joinData st.pkts, t⟩ (by simp) h
          simpa using this
      · simp only [hne, if_false] at h
        have hpt : p.ts = t := by simpa using hne
        obtain ⟨run, q, rest', e, hrun, hq, hfr, hus, hrm⟩ := ih (c + 1) _ st' t (by simpa using hf) (by simpa using ht) h
        refine ⟨p :: run, q, rest', by simp [e], ?_, hq, ?_, ?_, ?_⟩
        · intro p' hp'; rcases List.mem_cons.1 hp' with h1 | h1
          · rw [h1]; exact hpt
          · exact hrun p' h1
        · simpa [List.append_assoc] using hfr
        · simpa [List.append_assoc] using hus
        · simp at hrm ⊢; omega

/-- Frame integrity on the window list. -/
theorem scan_init (P : Int) (l : List (Option Packet)) (st' : RF) (h : scan P l 0 RF.init = some st') :
    ∃ f q rest, st'.frame = some f ∧ st'.used ≠ [] ∧ l = st'.used.map some ++ some q :: rest ∧
      (∀ p ∈ st'.used, p.ts = f.ts) ∧ q.ts ≠ f.ts ∧ f.data = joinData st'.used ∧
      st'.remove = st'.used.length := by
  cases l with
  | nil => simp [scan] at h
  | cons x rest =>
    cases x with
    | none => simp [scan] at h
    | some p0 =>
      simp only [scan, rfBody, RF.init] at h
      obtain ⟨run, q, rest', e, hrun, hq, hfr, hus, hrm⟩ := scan_run P rest 1 _ st' p0.ts rfl rfl h
      simp only [List.nil_append] at hfr hus
      refine ⟨_, q, rest', hfr, by rw [hus]; simp, by rw [hus, e]; simp, ?_, hq, by rw [hus], by rw [hus, hrm]; simp; omega⟩
      intro p hp; rw [hus] at hp
      rcases List.mem_cons.1 hp with h1 | h1
      · rw [h1]
      · exact hrun p h1

end Aiortc.Lemmas.Jitter
