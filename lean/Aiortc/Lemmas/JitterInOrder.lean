import Aiortc.Lemmas.JitterStream
import Aiortc.Lemmas.JitterAddSpec
/-!
# In-order arrival of a sender stream: the buffer holds exactly the packets `b … k-1` of the stream
(`St`), and one more arrival either releases the first frame of `ps.drop b` or leaves the buffer not ready.
-/
namespace Aiortc.Lemmas.Jitter
open Aiortc Aiortc.Gen Aiortc.Model.Jitter

set_option linter.unusedVariables false

/-- Packets `b … k-1` of the stream. -/
def seg (ps : List Packet) (b k : Nat) : List Packet := (ps.drop b).take (k - b)

/-- Consecutive sequence numbers from `s0`. -/
def SeqFrom (s0 : Int) (ps : List Packet) : Prop :=
  ∀ (i : Nat) q, ps[i]? = some q → q.seq = (s0 + (i : Int)) % 65536

theorem pos_add_wrap (jb : JB) (hd : (jb.capacity : Int) ∣ 65536) (x i : Int) :
    pos jb (x % 65536 + i) = pos jb (x + i) := by
  unfold pos
  congr 1
  obtain ⟨m, hm⟩ := hd
  have h2 : x + i = (x % 65536 + i) + (jb.capacity : Int) * (m * (x / 65536)) := by
    rw [← Int.mul_assoc, ← hm]; omega
  rw [h2, Int.add_mul_emod_self_left]

theorem seg_get (ps : List Packet) (b k i : Nat) (hi : i < k - b) : (seg ps b k)[i]? = ps[b + i]? := by
  unfold seg
  rw [List.getElem?_take_of_lt hi, List.getElem?_drop]

theorem seg_length (ps : List Packet) (b k : Nat) (hk : k ≤ ps.length) : (seg ps b k).length = k - b := by
  unfold seg; simp; omega

/-- The two branches of `add` that an in-order arrival takes. -/
theorem add_first {jb : JB} (hI : Inv jb) (ho : jb.origin = none) (p : Packet) (hp : R16 p.seq) :
    ∃ out jb3, add jb p = .ok out ∧ out.pli = false ∧ Inv { jb with origin := some p.seq } ∧
      Placed { jb with origin := some p.seq } p jb3 ∧ RFPost jb3 p.seq out.jb out.frame out.used := by
  have hcap : ¬ ((0 : Int) ≥ (jb.capacity : Int)) := by have := hI.cap_pos; omega
  have hI2 : Inv { jb with origin := some p.seq } :=
    inv_of_empty hI.cap_pos hI.cap_dvd hI.len p.seq rfl hp (fun s q h => hI.empty ho s q h)
  obtain ⟨out, jb3, e, hpli, hPl, hRF⟩ :=
    addPlace_spec hI2 (o2 := p.seq) rfl p hp (by rw [dist_self]; have := hI.cap_pos; simp; omega) false
  refine ⟨out, jb3, ?_, hpli, hI2, hPl, hRF⟩
  simp only [add, addDist, ho, addMisorder, Int.lt_irrefl, if_false, addOverflow, hcap]
  exact e

theorem add_fits {jb : JB} (hI : Inv jb) {o : Int} (ho : jb.origin = some o) (p : Packet) (hp : R16 p.seq)
    (hlate : ¬ uint16_add o (-p.seq) < dist o p) (hov : ¬ dist o p ≥ (jb.capacity : Int)) :
    ∃ out jb3, add jb p = .ok out ∧ out.pli = false ∧ Placed jb p jb3 ∧
      RFPost jb3 o out.jb out.frame out.used := by
  obtain ⟨out, jb3, e, hpli, hPl, hRF⟩ := addPlace_spec hI ho p hp (by omega) false
  refine ⟨out, jb3, ?_, hpli, hPl, hRF⟩
  simp only [add, addDist, ho, addMisorder, uint16_sub_eq_dist, hlate, if_false, addOverflow, hov]
  exact e

/-- The buffer holds exactly the stream packets `b … k-1`, origin at packet `b`. -/
structure Holds (ps : List Packet) (s0 : Int) (jb : JB) (b k : Nat) : Prop where
  inv : Inv jb
  bk : b ≤ k
  kn : k ≤ ps.length
  orig : jb.origin = some ((s0 + (b : Int)) % 65536)
  held : ∀ s q, Held jb s q ↔ ∃ i, b ≤ i ∧ i < k ∧ ps[i]? = some q ∧ s = pos jb q.seq
  room : k - b ≤ jb.capacity

theorem winAt_eq {ps : List Packet} {s0 : Int} (hseq : SeqFrom s0 ps) (hs0 : R16 s0) {jb : JB} {b k : Nat}
    (hH : Holds ps s0 jb b k) (i : Nat) (hi : i < jb.capacity) :
    winAt jb ((s0 + (b : Int)) % 65536) i = if i < k - b then ps[b + i]? else none := by
  have hI := hH.inv
  have hcap : (jb.capacity : Int) ≤ 65536 := Int.le_of_dvd (by decide) hI.cap_dvd
  by_cases hlt : i < k - b
  · simp only [hlt, if_true]
    have hbi : b + i < ps.length := by have := hH.kn; omega
    have hq : ps[b + i]? = some ps[b + i] := List.getElem?_eq_getElem hbi
    have hs := hseq (b + i) _ hq
    have hheld : Held jb (pos jb (ps[b + i]).seq) ps[b + i] :=
      (hH.held _ _).2 ⟨b + i, by omega, by omega, hq, rfl⟩
    have hpos : pos jb (ps[b + i]).seq = pos jb ((s0 + (b : Int)) % 65536 + (i : Int)) := by
      rw [hs, pos_wrap jb hI.cap_dvd, pos_add_wrap jb hI.cap_dvd]
      congr 1; push_cast; omega
    rw [hpos] at hheld
    unfold winAt
    rw [(held_iff_join jb _ _).1 hheld, hq]
  · simp only [hlt, if_false]
    unfold winAt
    cases hw : jb.packets[pos jb ((s0 + (b : Int)) % 65536 + (i : Int))]?.join with
    | none => rfl
    | some q =>
      exfalso
      have hheld : Held jb (pos jb ((s0 + (b : Int)) % 65536 + (i : Int))) q := (held_iff_join jb _ _).2 hw
      have hd := dist_of_held hI hH.orig (Int.natCast_nonneg i) (by omega) hheld
      obtain ⟨j, hj1, hj2, hj3, _⟩ := (hH.held _ _).1 hheld
      have hs := hseq j q hj3
      have hroom := hH.room
      unfold dist at hd
      rw [hs] at hd
      unfold R16 at hs0
      omega

theorem window_eq {ps : List Packet} {s0 : Int} (hseq : SeqFrom s0 ps) (hs0 : R16 s0) {jb : JB} {b k : Nat}
    (hH : Holds ps s0 jb b k) :
    somePrefix (winList jb ((s0 + (b : Int)) % 65536) 0 jb.capacity) = seg ps b k := by
  have hlen := seg_length ps b k hH.kn
  have hroom := hH.room
  symm
  have key := somePrefix_eq (seg ps b k) (winList jb ((s0 + (b : Int)) % 65536) 0 jb.capacity) ?_ ?_
  · exact key.symm
  · intro i hi
    rw [hlen] at hi
    rw [winList_get jb _ _ i (by omega), winAt_eq hseq hs0 hH i (by omega), if_pos hi, seg_get ps b k i hi]
  · rw [hlen]
    by_cases hfull : k - b = jb.capacity
    · right; rw [winList_length]; exact hfull.symm
    · left
      rw [winList_get jb _ _ (k - b) (by omega), winAt_eq hseq hs0 hH (k - b) (by omega)]
      simp

theorem same_seq {jb : JB} (hI : Inv jb) {o : Int} (ho : jb.origin = some o) {s : Nat}
    {q p : Packet} (hq : Held jb s q) (hp : R16 p.seq) (hnear : dist o p < jb.capacity)
    (hs : pos jb p.seq = s) : p.seq = q.seq := by
  obtain ⟨hq1, hq2, hq3⟩ := hI.slots o ho s q hq
  have hO := hI.orig o ho
  rw [pos_of_dist jb hI.cap_dvd hO hp] at hs
  rw [pos_of_dist jb hI.cap_dvd hO hq1, ← hs, pos_eq_iff jb hI.cap_pos] at hq3
  have := slot_inj (dist_range o q).1 hq2 (dist_range o p).1 hnear hq3
  rw [seq_eq_of_dist hO hp, seq_eq_of_dist hO hq1, this]

/-- Storing stream packet `k` into a buffer that holds `b … k-1`. -/
theorem holds_placed {ps : List Packet} {s0 : Int} (hseq : SeqFrom s0 ps) {jb jb3 : JB} {b k : Nat} {p : Packet}
    (hk : ps[k]? = some p) (hI : Inv jb) (hbk : b ≤ k) (ho : jb.origin = some ((s0 + (b : Int)) % 65536))
    (hheld : ∀ s q, Held jb s q ↔ ∃ i, b ≤ i ∧ i < k ∧ ps[i]? = some q ∧ s = pos jb q.seq)
    (hroom : k - b < jb.capacity) (hP : Placed jb p jb3) : Holds ps s0 jb3 b (k + 1) := by
  obtain ⟨hS, ho3, hI3, hH3⟩ := hP
  have hkn : k < ps.length := by
    rcases Nat.lt_or_ge k ps.length with h | h
    · exact h
    · rw [List.getElem?_eq_none h] at hk; cases hk
  refine ⟨hI3, by omega, hkn, by rw [ho3, ho], ?_, by rw [← hS.1]; omega⟩
  intro s q
  rw [hH3]
  have hpos : ∀ x, pos jb3 x = pos jb x := fun x => pos_same hS x
  by_cases hs : s = pos jb p.seq
  · simp only [hs, if_true]
    constructor
    · intro h; subst h; exact ⟨k, hbk, by omega, hk, by rw [hpos]⟩
    · rintro ⟨i, hi1, hi2, hi3, hi4⟩
      rcases Nat.lt_or_ge i k with hlt | hge
      · -- an older packet in the same slot: impossible, distances differ
        exfalso
        have hq : Held jb (pos jb q.seq) q := (hheld _ _).2 ⟨i, hi1, hlt, hi3, rfl⟩
        rw [hpos] at hi4
        have hsq := hseq i q hi3
        have hsp := hseq k p hk
        obtain ⟨hq1, hq2, _⟩ := hI.slots _ ho _ _ hq
        have hO := hI.orig _ ho
        have hp1 : R16 p.seq := by rw [hsp]; unfold R16; omega
        have hcap : (jb.capacity : Int) ≤ 65536 := Int.le_of_dvd (by decide) hI.cap_dvd
        have hdp : dist ((s0 + (b : Int)) % 65536) p < jb.capacity := by
          unfold dist; rw [hsp]; omega
        have := same_seq hI ho hq hp1 hdp hi4
        rw [hsq, hsp] at this
        omega
      · have : i = k := by omega
        subst this; rw [hk] at hi3; injection hi3 with hi3; exact hi3.symm
  · simp only [hs, if_false]
    rw [hheld]
    constructor
    · rintro ⟨i, hi1, hi2, hi3, hi4⟩; exact ⟨i, hi1, by omega, hi3, by rw [hpos]; exact hi4⟩
    · rintro ⟨i, hi1, hi2, hi3, hi4⟩
      rw [hpos] at hi4
      rcases Nat.lt_or_ge i k with hlt | hge
      · exact ⟨i, hi1, hlt, hi3, hi4⟩
      · exfalso
        have : i = k := by omega
        subst this; rw [hk] at hi3; injection hi3 with hi3; subst hi3; exact hs hi4

end Aiortc.Lemmas.Jitter
