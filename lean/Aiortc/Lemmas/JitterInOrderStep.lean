import Aiortc.Lemmas.JitterInOrder
/-! # One in-order arrival: release the first frame of the unreleased stream, or stay not ready. -/
namespace Aiortc.Lemmas.Jitter
open Aiortc Aiortc.Gen Aiortc.Model.Jitter

set_option linter.unusedVariables false

/-- State between two in-order arrivals: `k` packets arrived, `b … k-1` are held, fewer than
`max(prefetch,1)` frame boundaries among them. -/
structure St (ps : List Packet) (s0 : Int) (P : Int) (jb : JB) (b k : Nat) : Prop where
  inv : Inv jb
  pf : jb.prefetch = P
  bk : b ≤ k
  kn : k ≤ ps.length
  o0 : k = 0 → jb.origin = none
  hold : 0 < k → Holds ps s0 jb b k
  room : k - b < jb.capacity
  calm : (changes (seg ps b k) : Int) < max P 1

theorem chg_append_one (l : List Packet) : ∀ (t : Int) (p : Packet), chg t (l ++ [p]) ≤ chg t l + 1 := by
  induction l with
  | nil => intro t p; simp [chg]; split <;> omega
  | cons a r ih => intro t p; simp only [List.cons_append, chg]; have := ih a.ts p; omega

theorem changes_append_one (l : List Packet) (p : Packet) : changes (l ++ [p]) ≤ changes l + 1 := by
  cases l with
  | nil => simp [changes, chg]
  | cons a r => simp only [List.cons_append, changes]; exact chg_append_one r a.ts p

theorem seg_succ (ps : List Packet) (b k : Nat) (hbk : b ≤ k) (p : Packet) (hk : ps[k]? = some p) :
    seg ps b (k + 1) = seg ps b k ++ [p] := by
  unfold seg
  have h1 : k + 1 - b = (k - b) + 1 := by omega
  have h2 : (List.drop b ps)[k - b]? = some p := by
    rw [List.getElem?_drop]
    have : b + (k - b) = k := by omega
    rw [this, hk]
  rw [h1, List.take_add_one, h2]; rfl

/-- After the packet was placed: the buffer holds `b … k`, and `_remove_frame` ran on it. -/
theorem inorder_place {ps : List Packet} {s0 : Int} {P : Int} (hseq : SeqFrom s0 ps) (hs0 : R16 s0) {jb : JB}
    {b k : Nat} (hc32 : jb.capacity ≤ 32768) (hS : St ps s0 P jb b k) {p : Packet} (hk : ps[k]? = some p) :
    ∃ out jb3, add jb p = .ok out ∧ out.pli = false ∧ Holds ps s0 jb3 b (k + 1) ∧ Same jb jb3 ∧
      RFPost jb3 ((s0 + (b : Int)) % 65536) out.jb out.frame out.used := by
  have hI := hS.inv
  have hsp := hseq k p hk
  have hp16 : R16 p.seq := by rw [hsp]; unfold R16; omega
  have hcap : (jb.capacity : Int) ≤ 65536 := Int.le_of_dvd (by decide) hI.cap_dvd
  rcases Nat.eq_zero_or_pos k with hk0 | hkpos
  · subst hk0
    have hb : b = 0 := by have := hS.bk; omega
    subst hb
    have ho := hS.o0 rfl
    obtain ⟨out, jb3, e, hpli, hI2, hPl, hRF⟩ := add_first hI ho p hp16
    have hps : p.seq = (s0 + ((0 : Nat) : Int)) % 65536 := hsp
    refine ⟨out, jb3, e, hpli, ?_, hPl.1, by rw [← hps]; exact hRF⟩
    refine holds_placed hseq hk hI2 (Nat.le_refl 0) (by rw [← hps]) ?_ (by have := hI.cap_pos; simp; omega) hPl
    intro s q
    constructor
    · intro h; exact absurd h (hI.empty ho s q)
    · rintro ⟨i, _, hi, _⟩; omega
  · have hH := hS.hold hkpos
    have hroom := hS.room
    have hbk := hS.bk
    have hd : dist ((s0 + (b : Int)) % 65536) p = ((k - b : Nat) : Int) := by
      unfold dist; rw [hsp]; unfold R16 at hs0; omega
    obtain ⟨out, jb3, e, hpli, hPl, hRF⟩ := add_fits hI hH.orig p hp16
      (by rw [hd]; unfold uint16_add; rw [hsp]; unfold R16 at hs0; omega) (by rw [hd]; omega)
    exact ⟨out, jb3, e, hpli, holds_placed hseq hk hI hbk hH.orig hH.held hroom hPl, hPl.1, hRF⟩

/-- Every segment of the stream with fewer than `max(prefetch,1)` frame boundaries is shorter than the
capacity: a frame plus its prefetch window always fits. -/
def Fits (ps : List Packet) (P : Int) (c : Nat) : Prop :=
  ∀ k, k ≤ ps.length → ∀ b, b ≤ k → (changes (seg ps b k) : Int) < max P 1 → k - b < c

theorem frame_eq {f : Frame} {d : Bytes} {t : Int} (h1 : f.data = d) (h2 : f.ts = t) : f = ⟨d, t⟩ := by
  cases f; simp at h1 h2; simp [h1, h2]

theorem inorder_step {ps : List Packet} {s0 : Int} {P : Int} (hseq : SeqFrom s0 ps) (hs0 : R16 s0) {jb : JB}
    {b k : Nat} (hc32 : jb.capacity ≤ 32768) (hfit : Fits ps P jb.capacity) (hS : St ps s0 P jb b k)
    {p : Packet} (hk : ps[k]? = some p) :
    ∃ out, add jb p = .ok out ∧ out.pli = false ∧ out.jb.capacity = jb.capacity ∧
      ((out.frame = none ∧ St ps s0 P out.jb b (k + 1)) ∨
       (out.frame = some (firstFrame (ps.drop b)) ∧ max P 1 ≤ (changes (ps.drop b) : Int) ∧
        St ps s0 P out.jb (b + (firstRun (ps.drop b)).length) (k + 1))) := by
  obtain ⟨out, jb3, e, hpli, hH3, hS3, hRF⟩ := inorder_place hseq hs0 hc32 hS hk
  have hkn : k < ps.length := by
    rcases Nat.lt_or_ge k ps.length with h | h
    · exact h
    · rw [List.getElem?_eq_none h] at hk; cases hk
  have hbk := hS.bk
  have hW := window_eq hseq hs0 hH3
  have hP3 : jb3.prefetch = P := by rw [← hS3.2.1]; exact hS.pf
  have hc3 : jb3.capacity = jb.capacity := hS3.1.symm
  have hsegle : changes (seg ps b (k + 1)) ≤ changes (seg ps b k) + 1 := by
    rw [seg_succ ps b k hbk p hk]; exact changes_append_one _ _
  have hcalm := hS.calm
  refine ⟨out, e, hpli, ?_⟩
  rcases hRF with ⟨hf, _, hj, hs⟩ | ⟨f, st, hf, hF, hSh, hs, hus, hfr⟩
  · -- not ready: nothing released
    have hnr := (scan_init_none_iff jb3.prefetch _).1 hs
    rw [hW, hP3] at hnr
    refine ⟨by rw [hj, hc3], Or.inl ⟨hf, ?_⟩⟩
    rw [hj]
    exact ⟨hH3.inv, hP3, by omega, hkn, fun h => by omega, fun _ => hH3,
      by rw [hc3]; exact hfit (k + 1) hkn b (by omega) hnr, hnr⟩
  · -- the first frame of `ps.drop b` is released
    obtain ⟨f', q, rest, hf', hne, hl, hts, hq, hdata, hrm⟩ := scan_init _ _ _ hs
    rw [hfr] at hf'; injection hf' with hf'; subst hf'
    rw [hus] at hne hl hts hdata
    have hL : seg ps b (k + 1) = out.used ++ q :: somePrefix rest := by
      rw [← hW, hl, somePrefix_append]
    have hready : max P 1 ≤ (changes (seg ps b (k + 1)) : Int) := by
      rcases Int.lt_or_le (changes (seg ps b (k + 1)) : Int) (max P 1) with h | h
      · have := (scan_init_none_iff jb3.prefetch (winList jb3 ((s0 + (b : Int)) % 65536) 0 jb3.capacity)).2
          (by rw [hW, hP3]; exact h)
        rw [hs] at this; cases this
      · exact h
    have hdrop : ps.drop b = out.used ++ q :: (somePrefix rest ++ (ps.drop b).drop (k + 1 - b)) := by
      have := List.take_append_drop (k + 1 - b) (ps.drop b)
      unfold seg at hL
      rw [hL] at this
      rw [List.append_assoc, List.cons_append] at this
      exact this.symm
    cases hu : out.used with
    | nil => exact absurd hu hne
    | cons u us =>
      rw [hu] at hdrop hts hL hdata
      have hus' : ∀ x ∈ us, x.ts = u.ts := by
        intro x hx
        rw [hts x (List.mem_cons_of_mem _ hx), hts u List.mem_cons_self]
      have hqu : q.ts ≠ u.ts := by rw [hts u List.mem_cons_self]; exact hq
      have hfirst : firstRun (ps.drop b) = u :: us := by
        rw [hdrop]; exact firstRun_append u us q _ hus' hqu
      have hff : firstFrame (ps.drop b) = f := by
        unfold firstFrame
        rw [hfirst]
        rw [hdrop]
        exact (frame_eq hdata (hts u List.mem_cons_self).symm).symm
      have hlen : (firstRun (ps.drop b)).length = out.used.length := by rw [hfirst, hu]
      have hLlen := seg_length ps b (k + 1) hkn
      rw [hL] at hLlen
      simp at hLlen
      have hchL : changes (seg ps b (k + 1)) = 1 + changes (q :: somePrefix rest) := by
        rw [hL]; simp only [List.cons_append, changes]
        exact chg_append u.ts us q _ hus' hqu
      have hseg' : seg ps (b + out.used.length) (k + 1) = q :: somePrefix rest := by
        have h1 : (seg ps b (k + 1)).drop out.used.length = q :: somePrefix rest := by
          rw [hL, hu]; simp
        rw [← h1]
        unfold seg
        rw [List.drop_take, List.drop_drop]
        congr 1; omega
      have hcap65 : (jb3.capacity : Int) ≤ 65536 := Int.le_of_dvd (by decide) hH3.inv.cap_dvd
      have hroom3 := hH3.room
      obtain ⟨hSS, hoo, hIo, hlo, hHo⟩ := hSh
      refine ⟨by rw [← hSS.1, hc3], Or.inr ⟨by rw [hf, hff], ?_, ?_⟩⟩
      · have := changes_take_le (ps.drop b) (k + 1 - b)
        unfold seg at hready
        omega
      · rw [hlen]
        have hulen : out.used.length = us.length + 1 := by rw [hu]; simp
        refine ⟨hIo, by rw [← hSS.2.1]; exact hP3, by omega, hkn, fun h => by omega, fun _ => ?_,
          by rw [← hSS.1, hc3] at *; omega, ?_⟩
        · refine ⟨hIo, by omega, hkn, ?_, ?_, by rw [← hSS.1]; omega⟩
          · rw [hoo]; congr 1; push_cast; omega
          · intro s x
            rw [hHo, hH3.held]
            have hpos : ∀ y, pos out.jb y = pos jb3 y := fun y => pos_same hSS y
            constructor
            · rintro ⟨⟨i, hi1, hi2, hi3, hi4⟩, hd⟩
              have hsx := hseq i x hi3
              refine ⟨i, ?_, hi2, hi3, by rw [hpos]; exact hi4⟩
              unfold dist at hd; rw [hsx] at hd; unfold R16 at hs0; omega
            · rintro ⟨i, hi1, hi2, hi3, hi4⟩
              have hsx := hseq i x hi3
              refine ⟨⟨i, by omega, hi2, hi3, by rw [← hpos]; exact hi4⟩, ?_⟩
              unfold dist; rw [hsx]; unfold R16 at hs0; omega
        · rw [hseg']
          rw [hchL] at hsegle
          omega

/-- The whole in-order arrival from state `St … b k`: what comes out is `expected` of the unreleased stream. -/
theorem inorder_run {ps : List Packet} {s0 : Int} {P : Int} (hseq : SeqFrom s0 ps) (hs0 : R16 s0) (c : Nat)
    (hc32 : c ≤ 32768) (hfit : Fits ps P c) : ∀ (m k b : Nat) (jb : JB), k + m = ps.length →
    jb.capacity = c → St ps s0 P jb b k →
    ∃ jb' obs, run jb (ps.drop k) = .ok (jb', obs) ∧ obs.filterMap (·.2) = expected P (ps.drop b) ∧
      ∀ o ∈ obs, o.1 = false := by
  intro m
  induction m with
  | zero =>
    intro k b jb hkm hc hS
    have hk : k = ps.length := by omega
    refine ⟨jb, [], by rw [List.drop_eq_nil_of_le (by omega)]; rfl, ?_, by simp⟩
    have hcalm := hS.calm
    have hseg : seg ps b k = ps.drop b := by
      unfold seg; apply List.take_of_length_le; simp; omega
    rw [hseg] at hcalm
    rw [expected, dif_neg (by omega)]; rfl
  | succ m ih =>
    intro k b jb hkm hc hS
    have hkn : k < ps.length := by omega
    have hk : ps[k]? = some ps[k] := List.getElem?_eq_getElem hkn
    obtain ⟨out, e, hpli, hcap, hcase⟩ := inorder_step hseq hs0 (by rw [hc]; exact hc32) (by rw [hc]; exact hfit) hS hk
    rw [List.drop_eq_getElem_cons hkn]
    rcases hcase with ⟨hf, hS'⟩ | ⟨hf, hready, hS'⟩
    · obtain ⟨jb', obs, e', hobs, hall⟩ := ih (k + 1) b out.jb (by omega) (by rw [hcap, hc]) hS'
      refine ⟨jb', (out.pli, out.frame) :: obs, by simp only [run, e, e'], ?_, ?_⟩
      · rw [hf]; simpa using hobs
      · intro o ho; rcases List.mem_cons.1 ho with h | h
        · rw [h]; exact hpli
        · exact hall o h
    · obtain ⟨jb', obs, e', hobs, hall⟩ := ih (k + 1) _ out.jb (by omega) (by rw [hcap, hc]) hS'
      refine ⟨jb', (out.pli, out.frame) :: obs, by simp only [run, e, e'], ?_, ?_⟩
      · rw [hf, expected, dif_pos hready, List.drop_drop]
        simpa using hobs
      · intro o ho; rcases List.mem_cons.1 ho with h | h
        · rw [h]; exact hpli
        · exact hall o h

end Aiortc.Lemmas.Jitter
