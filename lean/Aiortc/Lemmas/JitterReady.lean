import Aiortc.Lemmas.JitterFrame
/-!
# When does `_remove_frame` return a frame?  Exactly when the run of packets held contiguously from the
origin contains at least `max(prefetch, 1)` timestamp changes.
-/
namespace Aiortc.Lemmas.Jitter
open Aiortc Aiortc.Gen Aiortc.Model.Jitter

set_option linter.unusedVariables false

/-- The packets at the front of a window list, up to the first empty position. -/
def somePrefix : List (Option Packet) → List Packet
  | some p :: r => p :: somePrefix r
  | _ => []

/-- Number of timestamp changes along `l`, the packet before `l` having timestamp `t`. -/
def chg : Int → List Packet → Nat
  | _, [] => 0
  | t, p :: r => (if p.ts ≠ t then 1 else 0) + chg p.ts r

/-- Number of frame boundaries (timestamp changes between neighbours) in a run of packets. -/
def changes : List Packet → Nat
  | [] => 0
  | p :: r => chg p.ts r

theorem scan_none_iff (P : Int) (l : List (Option Packet)) : ∀ (c : Nat) (st : RF) (t : Int),
    st.ts = some t →
    (scan P l c st = none ↔
      (chg t (somePrefix l) = 0 ∨ st.frames + (chg t (somePrefix l) : Int) < P)) := by
  induction l with
  | nil => intro c st t ht; simp [scan, somePrefix, chg]
  | cons x rest ih =>
    intro c st t ht
    cases x with
    | none => simp [scan, somePrefix, chg]
    | some p =>
      simp only [scan, rfBody, ht, somePrefix, chg]
      by_cases hne : p.ts ≠ t
      · cases hfm : st.frame <;> simp only [hne, ne_eq, not_false_eq_true, if_true] <;>
        (by_cases hP : st.frames + 1 ≥ P
         · simp only [hP, if_true]
           constructor
           · intro h; cases h
           · intro h; exfalso; push_cast at h; omega
         · simp only [hP, if_false]
           rw [ih (c + 1) _ p.ts rfl]
           push_cast
           constructor
           · intro h; right; omega
           · intro h; rcases h with h | h
             · omega
             · by_cases h0 : chg p.ts (somePrefix rest) = 0
               · left; exact h0
               · right; omega)
      · simp only [hne, if_false]
        have hpt : p.ts = t := by simpa using hne
        rw [ih (c + 1) _ t (by simpa using ht), hpt]
        simp

/-- From the initial loop state: no frame is returned iff the contiguous run at the origin has fewer than
`max(prefetch, 1)` timestamp changes. -/
theorem scan_init_none_iff (P : Int) (l : List (Option Packet)) :
    scan P l 0 RF.init = none ↔ (changes (somePrefix l) : Int) < max P 1 := by
  cases l with
  | nil => simp [scan, somePrefix, changes]; omega
  | cons x rest =>
    cases x with
    | none => simp [scan, somePrefix, changes]; omega
    | some p =>
      simp only [scan, rfBody, RF.init, somePrefix, changes]
      rw [scan_none_iff P rest 1 _ p.ts rfl]
      simp only []
      omega

end Aiortc.Lemmas.Jitter
