import Aiortc.Lemmas.Jitter
/-!
# `remove` and `smart_remove`: they succeed under the invariant, preserve it, advance the origin by some
`r` and drop exactly the held packets whose distance from the old origin is `< r`.
-/
namespace Aiortc.Lemmas.Jitter
open Aiortc Aiortc.Gen Aiortc.Model.Jitter

set_option linter.unusedVariables false

theorem pos_same {a b : JB} (h : Same a b) (x : Int) : pos b x = pos a x := by
  unfold pos; rw [h.1]

/-- Moving the origin forward by `r` while keeping only (some of the) packets at distance `≥ r`
re-establishes the invariant. -/
theorem inv_of_shift {jb jb' : JB} (hI : Inv jb) {o : Int} (ho : jb.origin = some o) (hS : Same jb jb')
    (hlen : jb'.packets.length = jb.packets.length) (r : Int) (hr : 0 ≤ r)
    (ho' : jb'.origin = some ((o + r) % 65536))
    (hH : ∀ s p, Held jb' s p → Held jb s p ∧ r ≤ dist o p) : Inv jb' := by
  refine ⟨by rw [← hS.1]; exact hI.cap_pos, by rw [← hS.1]; exact hI.cap_dvd,
    by rw [hlen, hI.len, hS.1], ?_, ?_, ?_⟩
  · intro h; rw [ho'] at h; cases h
  · intro o1 h1; rw [ho'] at h1; injection h1 with h1; subst h1; unfold R16; omega
  · intro o1 h1 s p hp
    rw [ho'] at h1; injection h1 with h1; subst h1
    obtain ⟨hp0, hr'⟩ := hH s p hp
    obtain ⟨hp1, hd, hpos⟩ := hI.slots o ho s p hp0
    have hO := hI.orig o ho
    refine ⟨hp1, ?_, by rw [pos_same hS]; exact hpos⟩
    rw [← hS.1]
    have := dist_range o p
    unfold dist R16 at *
    omega

theorem removeOne_spec {jb : JB} (hI : Inv jb) {o : Int} (ho : jb.origin = some o) :
    ∃ jb', removeOne jb = .ok jb' ∧ Same jb jb' ∧ jb'.origin = some ((o + 1) % 65536) ∧ Inv jb' ∧
      jb'.packets.length = jb.packets.length ∧
      ∀ s p, Held jb' s p ↔ (Held jb s p ∧ 1 ≤ dist o p) := by
  have hk : pos jb o < jb.packets.length := by rw [hI.len]; exact pos_lt jb hI.cap_pos o
  let jb' : JB := { jb with packets := jb.packets.set (pos jb o) none, origin := some (uint16_add o 1) }
  have hH : ∀ s p, Held jb' s p ↔ (Held jb s p ∧ 1 ≤ dist o p) := by
    intro s p
    rw [held_set jb (pos jb o) none _ s p hk]
    by_cases hs : s = pos jb o
    · simp only [hs, if_true]
      constructor
      · intro h; cases h
      · rintro ⟨h1, h2⟩
        have h0 : pos jb o = pos jb (o + 0) := by simp
        rw [h0] at h1
        have := dist_of_held hI ho (Int.le_refl 0) (by have := hI.cap_pos; omega) h1
        omega
    · simp only [hs, if_false]
      constructor
      · intro h
        refine ⟨h, ?_⟩
        obtain ⟨hp1, hd, hpos⟩ := hI.slots o ho s p h
        have h2 := pos_of_dist jb hI.cap_dvd (hI.orig o ho) hp1
        have := dist_range o p
        by_cases h0 : dist o p = 0
        · rw [h0] at h2; simp at h2; rw [h2] at hpos; exact absurd hpos.symm hs
        · omega
      · exact fun h => h.1
  refine ⟨jb', ?_, ⟨rfl, rfl, rfl⟩, rfl, ?_, by simp [jb'], hH⟩
  · unfold removeOne; rw [ho]; simp only [slotOf_ok jb hI.cap_pos, setSlot_ok jb _ _ hk]; rfl
  · exact inv_of_shift hI ho ⟨rfl, rfl, rfl⟩ (by simp [jb']) 1 (by omega) rfl (fun s p h => (hH s p).1 h)

theorem removeLoop_spec (r : Nat) : ∀ {jb : JB} (hI : Inv jb) {o : Int} (ho : jb.origin = some o),
    ∃ jb', removeLoop r jb = .ok jb' ∧ Same jb jb' ∧ jb'.origin = some ((o + r) % 65536) ∧ Inv jb' ∧
      jb'.packets.length = jb.packets.length ∧
      ∀ s p, Held jb' s p ↔ (Held jb s p ∧ (r : Int) ≤ dist o p) := by
  induction r with
  | zero =>
    intro jb hI o ho
    refine ⟨jb, rfl, Same.rfl' jb, ?_, hI, rfl, ?_⟩
    · have := hI.orig o ho; unfold R16 at this; rw [ho]; congr 1; simp; omega
    · intro s p; have := dist_range o p; constructor
      · intro h; exact ⟨h, by simp; omega⟩
      · exact fun h => h.1
  | succ n ih =>
    intro jb hI o ho
    obtain ⟨jb1, e1, hS1, ho1, hI1, hl1, hH1⟩ := removeOne_spec hI ho
    obtain ⟨jb2, e2, hS2, ho2, hI2, hl2, hH2⟩ := ih hI1 ho1
    refine ⟨jb2, ?_, hS1.trans hS2, ?_, hI2, by rw [hl2, hl1], ?_⟩
    · simp only [removeLoop, e1]; exact e2
    · rw [ho2]; congr 1; push_cast; omega
    · intro s p
      rw [hH2, hH1]
      have hO := hI.orig o ho
      have := dist_range o p
      constructor
      · rintro ⟨⟨h1, h2⟩, h3⟩
        refine ⟨h1, ?_⟩
        unfold dist R16 at *; push_cast; omega
      · rintro ⟨h1, h2⟩
        refine ⟨⟨h1, by push_cast at h2; omega⟩, ?_⟩
        unfold dist R16 at *; push_cast at h2; omega

theorem remove_spec {jb : JB} (hI : Inv jb) {o : Int} (ho : jb.origin = some o) (r : Nat)
    (hr : r ≤ jb.capacity) :
    ∃ jb', remove jb r = .ok jb' ∧ Same jb jb' ∧ jb'.origin = some ((o + r) % 65536) ∧ Inv jb' ∧
      jb'.packets.length = jb.packets.length ∧
      ∀ s p, Held jb' s p ↔ (Held jb s p ∧ (r : Int) ≤ dist o p) := by
  unfold remove; simp only [hr, if_true]; exact removeLoop_spec r hI ho

end Aiortc.Lemmas.Jitter
