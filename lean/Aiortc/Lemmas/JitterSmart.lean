import Aiortc.Lemmas.JitterRemove
/-!
# `smart_remove`: succeeds under the invariant, preserves it, advances the origin by `k ≤ capacity`,
drops exactly the held packets at distance `< k`; returns `True` only after `capacity` steps, and when it
returns `False` it removed at least `count` slots and fewer than `capacity`.
-/
namespace Aiortc.Lemmas.Jitter
open Aiortc Aiortc.Gen Aiortc.Model.Jitter

set_option linter.unusedVariables false

/-- The state after clearing the origin slot and advancing the origin (what one loop step does). -/
def adv1 (jb : JB) (o : Int) : JB :=
  { jb with packets := jb.packets.set (pos jb o) none, origin := some (uint16_add o 1) }

theorem removeOne_eq {jb : JB} (hI : Inv jb) {o : Int} (ho : jb.origin = some o) :
    removeOne jb = .ok (adv1 jb o) := by
  have hk : pos jb o < jb.packets.length := by rw [hI.len]; exact pos_lt jb hI.cap_pos o
  unfold removeOne adv1; rw [ho]; simp only [slotOf_ok jb hI.cap_pos, setSlot_ok jb _ _ hk]

theorem smartStep_eq {jb : JB} (hI : Inv jb) {o : Int} (ho : jb.origin = some o) (count : Int) (i : Nat)
    (ts : Option Int) :
    smartStep jb count i ts = .ok
      (match jb.packets[pos jb o]?.join with
       | some p =>
         if (i : Int) ≥ count ∧ ts ≠ some p.ts then .brk jb
         else if (i : Int) = (jb.capacity : Int) - 1 then .retTrue (adv1 jb o) else .cont (adv1 jb o) (some p.ts)
       | none => if (i : Int) = (jb.capacity : Int) - 1 then .retTrue (adv1 jb o) else .cont (adv1 jb o) ts) := by
  have hk : pos jb o < jb.packets.length := by rw [hI.len]; exact pos_lt jb hI.cap_pos o
  simp only [smartStep, ho, slotOf_ok jb hI.cap_pos, getSlot_ok jb _ hk, setSlot_ok jb _ _ hk, adv1]
  cases jb.packets[pos jb o]?.join with
  | none => simp only []; split <;> rfl
  | some p =>
    simp only []
    by_cases hc : (i : Int) ≥ count ∧ ts ≠ some p.ts
    · rw [if_pos hc, if_pos hc]
    · rw [if_neg hc, if_neg hc]; simp only []; split <;> rfl

def SmartPost (count : Int) (n i : Nat) (jb : JB) (o : Int) (res : Outcome (JB × Bool)) : Prop :=
  ∃ jb' b, ∃ k : Nat, res = .ok (jb', b) ∧ Same jb jb' ∧ k ≤ n ∧
    jb'.origin = some ((o + k) % 65536) ∧ Inv jb' ∧ jb'.packets.length = jb.packets.length ∧
    (∀ s p, Held jb' s p ↔ (Held jb s p ∧ (k : Int) ≤ dist o p)) ∧
    (b = true → k = n ∧ 0 < n) ∧ (b = false → k < n → count ≤ (i : Int) + k) ∧ (b = false → 0 < n → k < n)

theorem smartPost_stop {jb : JB} (hI : Inv jb) {o : Int} (ho : jb.origin = some o) (count : Int) (n i : Nat)
    (hc : n = 0 ∨ count ≤ (i : Int)) (hn : n = 0 ∨ 0 < n) :
    SmartPost count n i jb o (.ok (jb, false)) := by
  have hO := hI.orig o ho
  refine ⟨jb, false, 0, rfl, Same.rfl' jb, Nat.zero_le _, ?_, hI, rfl, ?_, by simp, ?_, ?_⟩
  · unfold R16 at hO; rw [ho]; congr 1; simp; omega
  · intro s p; have := dist_range o p; constructor
    · intro h; exact ⟨h, by simp; omega⟩
    · exact fun h => h.1
  · intro _ h; rcases hc with hc | hc
    · omega
    · simp; exact hc
  · intro _ h; exact h

theorem smartLoop_spec (count : Int) (n : Nat) :
    ∀ (i : Nat) {jb : JB} (hI : Inv jb) {o : Int} (ho : jb.origin = some o) (ts : Option Int)
      (hin : i + n = jb.capacity), SmartPost count n i jb o (smartLoop count n i jb ts) := by
  induction n with
  | zero =>
    intro i jb hI o ho ts hin
    exact smartPost_stop hI ho count 0 i (Or.inl rfl) (Or.inl rfl)
  | succ n ih =>
    intro i jb hI o ho ts hin
    have hO := hI.orig o ho
    obtain ⟨jb1, e1, hS1, ho1, hI1, hl1, hH1⟩ := removeOne_spec hI ho
    have e1' : jb1 = adv1 jb o := by
      rw [removeOne_eq hI ho] at e1; injection e1 with e1; exact e1.symm
    subst e1'
    -- the fall-through case (slot cleared, origin advanced)
    have thru : ∀ ts', SmartPost count (n + 1) i jb o
        (if (i : Int) = (jb.capacity : Int) - 1 then (Outcome.ok (adv1 jb o, true) : Outcome (JB × Bool))
          else smartLoop count n (i + 1) (adv1 jb o) ts') := by
      intro ts'
      by_cases hlast : (i : Int) = (jb.capacity : Int) - 1
      · have hn : n = 0 := by omega
        subst hn
        refine ⟨adv1 jb o, true, 1, by simp [hlast], hS1, Nat.le_refl _, by rw [ho1]; rfl, hI1, hl1, ?_,
          by simp, by simp, by simp⟩
        intro s p; rw [hH1]; simp
      · obtain ⟨jb2, b, k, e2, hS2, hk2, ho2, hI2, hl2, hH2, hb1, hb2, hb3⟩ :=
          ih (i + 1) hI1 ho1 ts' (by rw [← hS1.1]; omega)
        refine ⟨jb2, b, k + 1, by simp only [hlast, if_false]; exact e2, hS1.trans hS2, by omega, ?_, hI2,
          by rw [hl2, hl1], ?_, ?_, ?_, ?_⟩
        · rw [ho2]; congr 1; push_cast; omega
        · intro s p
          rw [hH2, hH1]
          have := dist_range o p
          constructor
          · rintro ⟨⟨h1, h2⟩, h3⟩
            refine ⟨h1, ?_⟩
            unfold dist R16 at *; push_cast; omega
          · rintro ⟨h1, h2⟩
            refine ⟨⟨h1, by push_cast at h2; omega⟩, ?_⟩
            unfold dist R16 at *; push_cast at h2; omega
        · intro hb; have := hb1 hb; omega
        · intro hb hk1
          have := hb2 hb (by omega); push_cast; omega
        · intro hb hn
          by_cases h0 : 0 < n
          · have := hb3 hb h0; omega
          · exfalso; omega
    simp only [smartLoop, smartStep_eq hI ho]
    cases hq : jb.packets[pos jb o]?.join with
    | none =>
      simp only []
      have := thru ts
      split at this <;> (rename_i hl; simp only [hl, if_true, if_false]; exact this)
    | some p =>
      simp only []
      by_cases hc : (i : Int) ≥ count ∧ ts ≠ some p.ts
      · rw [if_pos hc]
        exact smartPost_stop hI ho count (n + 1) i (Or.inr hc.1) (Or.inr (Nat.succ_pos n))
      · rw [if_neg hc]
        have := thru (some p.ts)
        split at this <;> (rename_i hl; simp only [hl, if_true, if_false]; exact this)

theorem smartRemove_spec {jb : JB} (hI : Inv jb) {o : Int} (ho : jb.origin = some o) (count : Int) :
    SmartPost count jb.capacity 0 jb o (smartRemove jb count) := by
  unfold smartRemove
  exact smartLoop_spec count jb.capacity 0 hI ho none (by omega)

end Aiortc.Lemmas.Jitter
