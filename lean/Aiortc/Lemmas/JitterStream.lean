import Aiortc.Lemmas.JitterReady
/-!
# Pure list facts about a sender's packet stream: maximal same-timestamp runs, timestamp changes,
and the specification `expected` of what an in-order arrival must release.
-/
namespace Aiortc.Lemmas.Jitter
open Aiortc Aiortc.Gen Aiortc.Model.Jitter

set_option linter.unusedVariables false

/-- Leading packets with timestamp `t`. -/
def sameRun (t : Int) : List Packet → List Packet
  | [] => []
  | p :: r => if p.ts = t then p :: sameRun t r else []

/-- The first frame of a stream: its maximal leading run of equal timestamps. -/
def firstRun : List Packet → List Packet
  | [] => []
  | p :: r => p :: sameRun p.ts r

def firstFrame (l : List Packet) : Frame :=
  ⟨joinData (firstRun l), match l with | p :: _ => p.ts | [] => 0⟩

theorem firstRun_length_pos (p : Packet) (r : List Packet) : 0 < (firstRun (p :: r)).length := by
  simp [firstRun]

theorem changes_nil : changes [] = 0 := rfl

/-- What an in-order arrival of stream `l` must release: its frames (maximal runs of equal timestamps) one
after the other, as long as at least `max(prefetch, 1)` frame boundaries remain — i.e. every frame except the
trailing `max(prefetch, 1)`. -/
def expected (P : Int) (l : List Packet) : List Frame :=
  if h : max P 1 ≤ (changes l : Int) then
    firstFrame l :: expected P (l.drop (firstRun l).length)
  else []
termination_by l.length
decreasing_by
  cases l with
  | nil => simp [changes] at h; omega
  | cons p r =>
    have := firstRun_length_pos p r
    simp only [List.length_drop, List.length_cons]
    omega

theorem sameRun_append (t : Int) (run : List Packet) (q : Packet) (R : List Packet)
    (hrun : ∀ p ∈ run, p.ts = t) (hq : q.ts ≠ t) : sameRun t (run ++ q :: R) = run := by
  induction run with
  | nil => simp [sameRun, hq]
  | cons u us ih =>
    have hu : u.ts = t := hrun u List.mem_cons_self
    simp only [List.cons_append, sameRun, hu, if_true]
    rw [ih (fun p hp => hrun p (List.mem_cons_of_mem _ hp))]

theorem firstRun_append (u : Packet) (us : List Packet) (q : Packet) (R : List Packet)
    (hrun : ∀ p ∈ us, p.ts = u.ts) (hq : q.ts ≠ u.ts) : firstRun (u :: us ++ q :: R) = u :: us := by
  simp only [List.cons_append, firstRun]
  rw [sameRun_append u.ts us q R hrun hq]

theorem chg_append (t : Int) (run : List Packet) (q : Packet) (R : List Packet)
    (hrun : ∀ p ∈ run, p.ts = t) (hq : q.ts ≠ t) : chg t (run ++ q :: R) = 1 + chg q.ts R := by
  induction run with
  | nil => simp [chg, hq]
  | cons u us ih =>
    have hu : u.ts = t := hrun u List.mem_cons_self
    simp only [List.cons_append, chg, hu]
    rw [ih (fun p hp => hrun p (List.mem_cons_of_mem _ hp))]
    simp

theorem chg_take_le (l : List Packet) : ∀ (t : Int) (m : Nat), chg t (l.take m) ≤ chg t l := by
  induction l with
  | nil => intro t m; simp [chg]
  | cons p r ih =>
    intro t m
    cases m with
    | zero => simp [chg]
    | succ m =>
      simp only [List.take_succ_cons, chg]
      have := ih p.ts m
      omega

theorem changes_take_le (l : List Packet) (m : Nat) : changes (l.take m) ≤ changes l := by
  cases l with
  | nil => simp [changes]
  | cons p r =>
    cases m with
    | zero => simp [changes]
    | succ m => simp only [List.take_succ_cons, changes]; exact chg_take_le r p.ts m

/-- The window list determines the contiguous run: if its first `L.length` positions hold exactly `L` and
the next position is empty (or the list ends there), `somePrefix` is `L`. -/
theorem somePrefix_eq (L : List Packet) : ∀ (l : List (Option Packet)),
    (∀ i, i < L.length → l[i]? = some (L[i]?)) →
    (l[L.length]? = some none ∨ l.length = L.length) → somePrefix l = L := by
  induction L with
  | nil =>
    intro l _ h
    cases l with
    | nil => rfl
    | cons x r =>
      rcases h with h | h
      · simp at h; subst h; rfl
      · simp at h
  | cons a L ih =>
    intro l h1 h2
    cases l with
    | nil => have := h1 0 (by simp); simp at this
    | cons x r =>
      have h0 := h1 0 (by simp)
      simp at h0; subst h0
      simp only [somePrefix]
      congr 1
      apply ih
      · intro i hi
        have := h1 (i + 1) (by simp; omega)
        simpa using this
      · rcases h2 with h | h
        · left; simpa using h
        · right; simpa using h

theorem chg_split (r : List Packet) : ∀ (t : Int), 1 ≤ chg t r →
    ∃ us q R, r = us ++ q :: R ∧ (∀ x ∈ us, x.ts = t) ∧ q.ts ≠ t := by
  induction r with
  | nil => intro t h; simp [chg] at h
  | cons a r' ih =>
    intro t h
    by_cases ha : a.ts ≠ t
    · exact ⟨[], a, r', rfl, by simp, ha⟩
    · have hat : a.ts = t := by simpa using ha
      simp only [chg, hat, ne_eq, not_true_eq_false, if_false, Nat.zero_add] at h
      obtain ⟨us, q, R, e, h1, h2⟩ := ih t h
      refine ⟨a :: us, q, R, by rw [e]; rfl, ?_, h2⟩
      intro x hx; rcases List.mem_cons.1 hx with h' | h'
      · rw [h']; exact hat
      · exact h1 x h'

/-- The number of frames `expected` lists: all `changes l + 1` of them except the trailing `max(P, 1)`. -/
theorem expected_length (P : Int) : ∀ (n : Nat) (l : List Packet), l.length ≤ n →
    ((expected P l).length : Int) = max 0 ((changes l : Int) + 1 - max P 1) := by
  intro n
  induction n with
  | zero =>
    intro l hl
    have : l = [] := List.length_eq_zero_iff.1 (by omega)
    subst this
    rw [expected, dif_neg (by simp [changes]; omega)]; simp [changes]; omega
  | succ n ih =>
    intro l hl
    by_cases hr : max P 1 ≤ (changes l : Int)
    · cases l with
      | nil => simp [changes] at hr; omega
      | cons u r =>
        have h1 : 1 ≤ chg u.ts r := by simp only [changes] at hr; omega
        obtain ⟨us, q, R, e, hus, hq⟩ := chg_split r u.ts h1
        have hfirst : firstRun (u :: r) = u :: us := by rw [e]; exact firstRun_append u us q R hus hq
        have hch : changes (u :: r) = 1 + changes (q :: R) := by
          simp only [changes]; rw [e]; exact chg_append u.ts us q R hus hq
        have hdrop : (u :: r).drop (firstRun (u :: r)).length = q :: R := by
          rw [hfirst, e]; simp
        rw [expected, dif_pos hr, hdrop, List.length_cons]
        have hlen : (q :: R).length ≤ n := by
          have : (u :: r).length = (u :: us).length + (q :: R).length := by rw [e]; simp; omega
          simp at this hl ⊢; omega
        have := ih (q :: R) hlen
        rw [hch] at hr ⊢
        push_cast at hr ⊢
        omega
    · rw [expected, dif_neg hr]; simp; omega

/-- `somePrefix` of a list of the shape found by `scan_init`. -/
theorem somePrefix_append (used : List Packet) (q : Packet) (rest : List (Option Packet)) :
    somePrefix (used.map some ++ some q :: rest) = used ++ q :: somePrefix rest := by
  induction used with
  | nil => simp [somePrefix]
  | cons u us ih => simp only [List.map_cons, List.cons_append, somePrefix]; rw [ih]

end Aiortc.Lemmas.Jitter
