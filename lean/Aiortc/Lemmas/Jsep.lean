import Aiortc.Model.Jsep.Spec
/-! Helper lemmas for C14: the checks of `__validate_description` expressed through the
specification's predicates. -/
namespace Aiortc.Model.Jsep
open Spec

theorem checkMedia_eq (t : DType) (m : Media) :
    checkMedia t m = if mediaOk t m then none else some .valueError := by
  unfold checkMedia mediaOk
  cases m.ufrag <;> cases m.pwd <;> cases m.role <;> cases t.answerLike <;> cases m.kind.isRtp <;>
    cases m.mux <;> simp

theorem checkAll_eq (t : DType) (ms : List Media) :
    checkAll (checkMedia t) ms = if ms.all (mediaOk t) then none else some .valueError := by
  induction ms with
  | nil => simp [checkAll]
  | cons m ms ih =>
    simp only [checkAll, checkMedia_eq, List.all_cons]
    by_cases h : mediaOk t m = true
    · simp [h, ih]
    · simp [h]

/-- Under the invariant (no pranswer states) the state table of `__validate_description` is the JSEP table. -/
theorem stateCheck_eq_next (sig : Sig) (isLocal : Bool) (t : DType)
    (h1 : sig ≠ .haveLocalPranswer) (h2 : sig ≠ .haveRemotePranswer)
    (ht : t = .offer ∨ t = .answer) :
    stateCheck sig isLocal t = (next sig isLocal t).isSome := by
  rcases ht with rfl | rfl <;> cases sig <;> cases isLocal <;> simp_all [stateCheck, next]

theorem next_local_answer {sig s' : Sig} (h : next sig true .answer = some s') : sig = .haveRemoteOffer := by
  cases sig <;> simp_all [next]

theorem next_remote_answer {sig s' : Sig} (h : next sig false .answer = some s') : sig = .haveLocalOffer := by
  cases sig <;> simp_all [next]

/-- `__validate_description` on a reachable state, for offers and answers: the JSEP table, then
"acceptable", in this order; nothing else can come out of it. -/
theorem validate_eq (pc : Pc) (d : Desc) (isLocal : Bool) (hinv : Inv pc)
    (ht : d.type = .offer ∨ d.type = .answer) :
    validate pc d isLocal =
      match next pc.sig isLocal d.type with
      | none => some .invalidState
      | some _ =>
        if acceptable d (if isLocal then pc.remoteDescription else pc.localDescription) then none
        else some .valueError := by
  unfold validate validateWith
  rw [stateCheck_eq_next _ _ _ hinv.no_local_pranswer hinv.no_remote_pranswer ht, checkAll_eq]
  cases hn : next pc.sig isLocal d.type with
  | none => simp
  | some s' =>
    simp only [Option.isSome_some, Bool.not_true, Bool.false_eq_true, if_false]
    unfold acceptable wellFormed
    by_cases hw : d.media.all (mediaOk d.type) = true
    · simp only [hw, if_true, Bool.true_and]
      rcases ht with ht | ht
      · simp [ht, DType.answerLike]
      · rw [ht] at hn
        cases isLocal with
        | true =>
          have hs := next_local_answer hn
          have hr := hinv.remote_offer_present hs
          cases hrd : pc.remoteDescription with
          | none => exact absurd hrd hr
          | some o => by_cases hk : mediaKeys d.media = mediaKeys o.media <;> simp [ht, DType.answerLike, matchesOffer, hk]
        | false =>
          have hs := next_remote_answer hn
          have hr := hinv.local_offer_present hs
          cases hrd : pc.localDescription with
          | none => exact absurd hrd hr
          | some o => by_cases hk : mediaKeys d.media = mediaKeys o.media <;> simp [ht, DType.answerLike, matchesOffer, hk]
    · simp [hw]

end Aiortc.Model.Jsep
