import Aiortc.Model.Jsep.Codecs
import Std.Data.String.ToNat
/-!
Helper lemmas for C03, part 1: `find_common_codecs`, `filter_preferred_codecs`,
`find_common_header_extensions`, `allocate_mid` — for ALL input lists.
-/
namespace Aiortc.Model.Negotiate
open Aiortc (Outcome)

/-! ## is_rtx only depends on the lower-cased mime type -/

theorem isRtxMime_congr {a b : String} (h : a.toLower = b.toLower) : isRtxMime a = isRtxMime b := by
  unfold isRtxMime; rw [h]

theorem compatible_mime {a b : Codec} (h : isCodecCompatible a b = true) : a.mime.toLower = b.mime.toLower := by
  unfold isCodecCompatible at h
  by_cases hm : a.mime.toLower = b.mime.toLower
  · exact hm
  · simp [hm] at h

theorem compatible_clock {a b : Codec} (h : isCodecCompatible a b = true) : a.clockRate = b.clockRate := by
  unfold isCodecCompatible at h
  by_cases hm : a.clockRate = b.clockRate
  · exact hm
  · simp [hm] at h

theorem compatible_isRtx {a b : Codec} (h : isCodecCompatible a b = true) : a.isRtx = b.isRtx :=
  isRtxMime_congr (compatible_mime h)

/-! ## adapt -/

@[simp] theorem adapt_mime (l c : Codec) : (adapt l c).mime = l.mime := rfl
@[simp] theorem adapt_clock (l c : Codec) : (adapt l c).clockRate = l.clockRate := rfl
@[simp] theorem adapt_params (l c : Codec) : (adapt l c).params = l.params := rfl
@[simp] theorem adapt_channels (l c : Codec) : (adapt l c).channels = l.channels := rfl
@[simp] theorem adapt_isRtx (l c : Codec) : (adapt l c).isRtx = l.isRtx := rfl

/-- the payload type of a selected codec is the offered one whenever that is dynamic -/
theorem adapt_pt (l c : Codec) : (adapt l c).pt = if isDynamicPt c.pt then c.pt else l.pt := rfl

/-- feedback of a selected codec ⊆ offered feedback (and ⊆ the local codec's) -/
theorem adapt_fb_offered (l c : Codec) : ∀ f ∈ (adapt l c).fb, f ∈ c.fb ∧ f ∈ l.fb := by
  intro f hf
  simp only [adapt, List.mem_filter, List.contains_iff_mem] at hf
  exact ⟨hf.2, hf.1⟩

/-! ## find_common_codecs -/

/-- What `find_common_codecs` may put into its result for a remote list: a local codec adapted to a compatible,
non-RTX remote codec, or a remote RTX codec itself. -/
inductive Selected (loc remote : List Codec) : Codec → Prop where
  | base (l r : Codec) : l ∈ loc → r ∈ remote → r.isRtx = false → isCodecCompatible l r = true → Selected loc remote (adapt l r)
  | rtx (r : Codec) : r ∈ remote → r.isRtx = true → Selected loc remote r

theorem selected_mono {loc remote remote' : List Codec} (h : ∀ r ∈ remote, r ∈ remote') {c : Codec}
    (hc : Selected loc remote c) : Selected loc remote' c := by
  cases hc with
  | base l r hl hr h1 h2 => exact .base l r hl (h r hr) h1 h2
  | rtx _ hr h1 => exact .rtx _ (h _ hr) h1

/-- `base` maps payload types to codecs that were appended to `common` earlier. -/
def BaseOk (acc : List Codec) (base : List (Nat × Codec)) : Prop :=
  ∀ k b, (k, b) ∈ base → b ∈ acc ∧ b.pt = k ∧ b.isRtx = false

theorem baseLookup_mem {pt : Int} {base : List (Nat × Codec)} {b : Codec} (h : baseLookup pt base = some b) :
    ∃ k, (k, b) ∈ base ∧ (k : Int) = pt := by
  induction base with
  | nil => simp [baseLookup] at h
  | cons x xs ih =>
    obtain ⟨k, c⟩ := x
    simp only [baseLookup] at h
    split at h
    · rename_i hk
      simp only [beq_iff_eq] at hk
      cases h
      exact ⟨k, by simp, hk⟩
    · obtain ⟨k', hm, hk'⟩ := ih h
      exact ⟨k', by simp [hm], hk'⟩

/-- RTX entries of a codec list have their base codec in the list (`apt` = its payload type, same clock rate). -/
def RtxHasBase (l : List Codec) : Prop :=
  ∀ c ∈ l, c.isRtx = true → ∃ b ∈ l, b.isRtx = false ∧ plookup "apt" c.params = some (.inl (b.pt : Int)) ∧ b.clockRate = c.clockRate

theorem findCommonGo_spec (loc : List Codec) :
    ∀ (remote : List Codec) (base : List (Nat × Codec)) (acc : List Codec), BaseOk acc base →
      (∀ c ∈ findCommonGo loc remote base, Selected loc remote c) ∧
      (∀ c ∈ findCommonGo loc remote base, c.isRtx = true →
        ∃ b ∈ acc ++ findCommonGo loc remote base, b.isRtx = false ∧ plookup "apt" c.params = some (.inl (b.pt : Int)) ∧ b.clockRate = c.clockRate) := by
  intro remote
  induction remote with
  | nil => intro base acc _; simp [findCommonGo]
  | cons c rs ih =>
    intro base acc hb
    have mono : ∀ x, Selected loc rs x → Selected loc (c :: rs) x := fun x hx => selected_mono (by simp_all) hx
    unfold findCommonGo
    by_cases hrtx : c.isRtx = true
    · simp only [hrtx, if_true]
      -- RTX: three ways to skip, one way to keep
      have skip : (∀ x ∈ findCommonGo loc rs base, Selected loc (c :: rs) x) ∧
          (∀ x ∈ findCommonGo loc rs base, x.isRtx = true →
            ∃ b ∈ acc ++ findCommonGo loc rs base, b.isRtx = false ∧ plookup "apt" x.params = some (.inl (b.pt : Int)) ∧ b.clockRate = x.clockRate) :=
        ⟨fun x hx => mono x ((ih base acc hb).1 x hx), (ih base acc hb).2⟩
      split
      · rename_i apt hapt
        split
        · rename_i b hbl
          split
          · rename_i hclk
            simp only [beq_iff_eq] at hclk
            obtain ⟨k, hk, hkp⟩ := baseLookup_mem hbl
            obtain ⟨hbacc, hbpt, hbr⟩ := hb k b hk
            constructor
            · intro x hx
              rcases List.mem_cons.mp hx with rfl | hx
              · exact .rtx _ (by simp) hrtx
              · exact mono x ((ih base acc hb).1 x hx)
            · intro x hx hxr
              rcases List.mem_cons.mp hx with rfl | hx
              · refine ⟨b, by simp [hbacc], hbr, ?_, hclk.symm⟩
                rw [hapt, hbpt, hkp]
              · obtain ⟨b', hb', h1, h2, h3⟩ := (ih base acc hb).2 x hx hxr
                refine ⟨b', ?_, h1, h2, h3⟩
                rcases List.mem_append.mp hb' with h | h
                · simp [h]
                · simp [h]
          · exact skip
        · exact skip
      · exact skip
    · simp only [hrtx]
      have hrtx' : c.isRtx = false := by simpa using hrtx
      simp only [Bool.false_eq_true, if_false]
      split
      · rename_i l hfind
        have hl : l ∈ loc := List.mem_of_find?_eq_some hfind
        have hcomp : isCodecCompatible l c = true := by simpa using List.find?_some hfind
        have hnr : (adapt l c).isRtx = false := by rw [adapt_isRtx, compatible_isRtx hcomp]; exact hrtx'
        have hb' : BaseOk (acc ++ [adapt l c]) (((adapt l c).pt, adapt l c) :: base) := by
          intro k b hkb
          rcases List.mem_cons.mp hkb with h | h
          · cases h; exact ⟨by simp, rfl, hnr⟩
          · obtain ⟨h1, h2, h3⟩ := hb k b h
            exact ⟨by simp [h1], h2, h3⟩
        have ih' := ih (((adapt l c).pt, adapt l c) :: base) (acc ++ [adapt l c]) hb'
        constructor
        · intro x hx
          rcases List.mem_cons.mp hx with rfl | hx
          · exact .base l c hl (by simp) hrtx' hcomp
          · exact mono x (ih'.1 x hx)
        · intro x hx hxr
          rcases List.mem_cons.mp hx with rfl | hx
          · rw [hnr] at hxr; cases hxr
          · obtain ⟨b', hb'', h1, h2, h3⟩ := ih'.2 x hx hxr
            refine ⟨b', ?_, h1, h2, h3⟩
            simpa [List.append_assoc] using hb''
      · exact ⟨fun x hx => mono x ((ih base acc hb).1 x hx), (ih base acc hb).2⟩

/-- Every codec `find_common_codecs` returns was offered: a local codec adapted to a compatible offered non-RTX codec
(offerer's payload type when dynamic, feedback ⊆ offered), or an offered RTX codec itself. -/
theorem findCommon_selected (loc remote : List Codec) : ∀ c ∈ findCommon loc remote, Selected loc remote c :=
  (findCommonGo_spec loc remote [] [] (by intro k b h; cases h)).1

/-- RTX is accepted only behind its accepted base codec (`apt` = base payload type, equal clock rate). -/
theorem findCommon_rtxHasBase (loc remote : List Codec) : RtxHasBase (findCommon loc remote) := by
  intro c hc hr
  have := (findCommonGo_spec loc remote [] [] (by intro k b h; cases h)).2 c hc hr
  simpa [findCommon] using this

/-! ## filter_preferred_codecs -/

theorem rtxFor_spec {rtxs : List Codec} {pt : Nat} {r : Option Codec} (h : rtxFor rtxs pt = .ok r) :
    ∀ x, r = some x → x ∈ rtxs ∧ plookup "apt" x.params = some (.inl (pt : Int)) := by
  induction rtxs with
  | nil =>
    intro x hx
    simp only [rtxFor] at h
    cases h; cases hx
  | cons y ys ih =>
    simp only [rtxFor] at h
    split at h
    · cases h
    · rename_i v hv
      split at h
      · rename_i hveq
        cases h
        intro x hx; cases hx
        exact ⟨by simp, by rw [hv, hveq]⟩
      · intro x hx
        obtain ⟨h1, h2⟩ := ih h x hx
        exact ⟨by simp [h1], h2⟩

theorem pickCodec_spec {codecs : List Codec} {p : Cap} {c : Codec} (h : pickCodec codecs p = some c) :
    c ∈ codecs ∧ c.mime.toLower = p.mime.toLower ∧ c.params = p.params := by
  unfold pickCodec at h
  have := List.find?_some h
  simp only [Bool.and_eq_true] at this
  exact ⟨List.mem_of_find?_eq_some h, eq_of_beq this.1, of_decide_eq_true this.2⟩

/-- Output of the preference loop: picked codecs are in `codecs` and not RTX (when no preference is RTX); an RTX
entry is in `rtxCodecs` and sits behind a picked codec whose payload type is its `apt`. -/
theorem filterGo_spec (codecs rtxs : List Codec) (en : Bool) :
    ∀ (prefs : List Cap) (out : List Codec), (∀ p ∈ prefs, p.isRtx = false) → filterGo codecs rtxs en prefs = .ok out →
      ∀ c ∈ out, (c ∈ codecs ∧ c.isRtx = false) ∨
        (c ∈ rtxs ∧ ∃ b ∈ out, b ∈ codecs ∧ b.isRtx = false ∧ plookup "apt" c.params = some (.inl (b.pt : Int))) := by
  intro prefs
  induction prefs with
  | nil => intro out _ h; simp [filterGo] at h; subst h; simp
  | cons p ps ih =>
    intro out hp h
    have hps : ∀ q ∈ ps, q.isRtx = false := fun q hq => hp q (by simp [hq])
    have lift : ∀ (rest pre : List Codec), (∀ c ∈ rest, (c ∈ codecs ∧ c.isRtx = false) ∨
        (c ∈ rtxs ∧ ∃ b ∈ rest, b ∈ codecs ∧ b.isRtx = false ∧ plookup "apt" c.params = some (.inl (b.pt : Int)))) →
        ∀ c ∈ rest, (c ∈ codecs ∧ c.isRtx = false) ∨
        (c ∈ rtxs ∧ ∃ b ∈ pre ++ rest, b ∈ codecs ∧ b.isRtx = false ∧ plookup "apt" c.params = some (.inl (b.pt : Int))) := by
      intro rest pre hrest c hc
      rcases hrest c hc with h1 | ⟨h1, b, hb, h2⟩
      · exact .inl h1
      · exact .inr ⟨h1, b, by simp [hb], h2⟩
    simp only [filterGo] at h
    split at h
    · exact ih out hps h
    · rename_i c hpick
      obtain ⟨hcm, hcmime, _⟩ := pickCodec_spec hpick
      have hcr : c.isRtx = false := by
        have : c.isRtx = p.isRtx := isRtxMime_congr hcmime
        rw [this]; exact hp p (by simp)
      split at h
      · -- rtx enabled
        split at h
        · rename_i r hr
          split at h
          · rename_i rest hrest
            cases h
            have ihr := ih rest hps hrest
            intro x hx
            rcases List.mem_cons.mp hx with rfl | hx
            · exact .inl ⟨hcm, hcr⟩
            · rcases List.mem_append.mp hx with hx | hx
              · cases r with
                | none => simp at hx
                | some rr =>
                  simp at hx; subst hx
                  obtain ⟨h1, h2⟩ := rtxFor_spec hr x rfl
                  exact .inr ⟨h1, c, by simp, hcm, hcr, h2⟩
              · have := lift rest (c :: r.toList) ihr x hx
                simpa using this
          · rename_i e hne
            cases e <;> simp_all
        · cases h
        · cases h
        · cases h
      · split at h
        · rename_i rest hrest
          cases h
          have ihr := ih rest hps hrest
          intro x hx
          rcases List.mem_cons.mp hx with rfl | hx
          · exact .inl ⟨hcm, hcr⟩
          · have := lift rest [c] ihr x hx
            simpa using this
        · rename_i e hne
          cases e <;> simp_all

/-- `filter_preferred_codecs` only selects from `codecs`; an RTX codec in a filtered (non-trivially filtered) list
directly belongs to a selected base codec. -/
theorem filterPreferred_spec {codecs : List Codec} {prefs : List Cap} {out : List Codec}
    (h : filterPreferred codecs prefs = .ok out) :
    (∀ c ∈ out, c ∈ codecs) ∧
    (prefs ≠ [] → ∀ c ∈ out, c.isRtx = true →
      ∃ b ∈ out, b.isRtx = false ∧ plookup "apt" c.params = some (.inl (b.pt : Int))) := by
  unfold filterPreferred at h
  split at h
  · rename_i he
    cases h
    exact ⟨fun c hc => hc, fun hne => absurd (by simpa using he) hne⟩
  · have hp : ∀ p ∈ prefs.filter (fun p => !p.isRtx), p.isRtx = false := by
      intro p hp; simpa using (List.mem_filter.mp hp).2
    have spec := filterGo_spec codecs (codecs.filter Codec.isRtx) (prefs.any Cap.isRtx) _ out hp h
    constructor
    · intro c hc
      rcases spec c hc with h1 | ⟨h1, _⟩
      · exact h1.1
      · exact (List.mem_filter.mp h1).1
    · intro _ c hc hcr
      rcases spec c hc with h1 | ⟨_, b, hb, _, hbr, hapt⟩
      · rw [h1.2] at hcr; cases hcr
      · exact ⟨b, hb, hbr, hapt⟩

/-! ## find_common_header_extensions -/

/-- Selected header extensions are the REMOTE entries (offerer's ids) whose uri the local side knows. -/
theorem findCommonExt_offered (loc remote : List Ext) :
    ∀ x ∈ findCommonExt loc remote, x ∈ remote ∧ ∃ l ∈ loc, l.uri = x.uri := by
  intro x hx
  simp only [findCommonExt, List.mem_flatMap, List.mem_map, List.mem_filter, beq_iff_eq] at hx
  obtain ⟨rx, hrx, l, ⟨hl, hu⟩, rfl⟩ := hx
  exact ⟨hrx, l, hl, hu⟩

/-! ## allocate_mid -/

theorem allocateMidGo_fresh {mids : List String} : ∀ {fuel i : Nat} {m : String},
    allocateMidGo mids fuel i = some m → m ∉ mids ∧ ∃ j, i ≤ j ∧ m = toString j := by
  intro fuel
  induction fuel with
  | zero => intro i m h; simp [allocateMidGo] at h
  | succ n ih =>
    intro i m h
    simp only [allocateMidGo] at h
    split at h
    · obtain ⟨h1, j, hj, h2⟩ := ih h
      exact ⟨h1, j, by omega, h2⟩
    · rename_i hc
      cases h
      exact ⟨by simpa using hc, i, Nat.le_refl _, rfl⟩

/-- `allocate_mid` returns a mid that was not in the set, and adds exactly it. -/
theorem allocateMid_fresh {mids : List String} {m : String} {mids' : List String}
    (h : allocateMid mids = .ok (m, mids')) : m ∉ mids ∧ mids' = mids ++ [m] := by
  unfold allocateMid at h
  split at h
  · rename_i m' hm
    cases h
    exact ⟨(allocateMidGo_fresh hm).1, rfl⟩
  · cases h

theorem toString_nat_inj {a b : Nat} (h : toString a = toString b) : a = b := Nat.repr_inj.mp h

/-- counting argument: if the candidates `i … i+fuel-1` are all taken, `mids` has at least `fuel` elements among them -/
theorem allocateMidGo_none {mids : List String} : ∀ {fuel i : Nat},
    allocateMidGo mids fuel i = none → ∀ j, i ≤ j → j < i + fuel → toString j ∈ mids := by
  intro fuel
  induction fuel with
  | zero => intro i _ j h1 h2; omega
  | succ n ih =>
    intro i h j h1 h2
    simp only [allocateMidGo] at h
    split at h
    · rename_i hc
      by_cases hj : j = i
      · subst hj; simpa using hc
      · exact ih h j (by omega) (by omega)
    · cases h

/-- The `while True` loop of `allocate_mid` terminates: among `|mids| + 1` candidates one is free. -/
theorem allocateMid_no_hang (mids : List String) : allocateMid mids ≠ .hang := by
  unfold allocateMid
  split
  · intro h; cases h
  · rename_i hnone
    exfalso
    have hall := allocateMidGo_none hnone
    -- the injective image of `range (|mids|+1)` is a duplicate-free sublist of `mids`: too long
    have hsub : ((List.range (mids.length + 1)).map (fun j => toString j)) ⊆ mids := by
      intro s hs
      obtain ⟨j, hj, rfl⟩ := List.mem_map.mp hs
      exact hall j (Nat.zero_le _) (by simpa using List.mem_range.mp hj)
    have hnd : ((List.range (mids.length + 1)).map (fun j => toString j)).Nodup := by
      refine List.Pairwise.map _ ?_ List.nodup_range
      intro a b hab hs
      exact hab (toString_nat_inj hs)
    have := hnd.length_le_of_subset hsub
    simp at this
    omega

end Aiortc.Model.Negotiate
