import Aiortc.Lemmas.NegotiateMatch
/-!
Helper lemmas for C03, part 4: from `setRemoteDescription` through BUNDLE, `createAnswer` and
`setLocalDescription(answer)` to the final state of both sides.
-/
namespace Aiortc.Model.Negotiate
open Aiortc (Outcome)
open Aiortc.Model.Jsep (Sig)

/-! ## BUNDLE only moves transports -/

/-- `t2` is `t` up to the transport it sits on -/
def SameBut (t t2 : Transceiver) : Prop := t2 = { t with transport := t2.transport, bundled := t2.bundled }

theorem SameBut.refl (t : Transceiver) : SameBut t t := rfl

theorem Negotiated.sameBut {typ : DType} {m : MSec} {t t2 : Transceiver} (h : Negotiated typ m t) (hs : SameBut t t2) :
    Negotiated typ m t2 := by
  unfold SameBut at hs
  constructor
  · rw [hs]; exact h.mid
  · rw [hs]; exact h.kind
  · rw [hs]; exact h.remoteSet
  · rw [hs]; exact h.codecs
  · rw [hs]; exact h.nonempty
  · rw [hs]; exact h.exts
  · intro ht; rw [hs]; exact h.cur ht
  · intro ht; rw [hs]; exact h.off ht

theorem applyBundle_transceivers {pc pc2 : Pc} {b : List String} (h : pc.applyBundleWith bundleStep b = .ok pc2) :
    ∃ g : Transceiver → Transceiver, (∀ t, SameBut t (g t)) ∧ pc2.transceivers = pc.transceivers.map g := by
  unfold Pc.applyBundleWith at h
  split at h
  · cases h; exact ⟨id, fun t => rfl, by simp⟩
  · rename_i primaryMid slaves
    split at h
    · rename_i p hp
      cases h
      refine ⟨fun t => if inSlaves slaves t.mid then { t with transport := p, bundled := true } else t, ?_, rfl⟩
      intro t
      simp only
      split <;> rfl
    · split at h
      · cases h
      · cases h; exact ⟨id, fun t => rfl, by simp⟩

theorem uniqueMid_map {ts : List Transceiver} {g : Transceiver → Transceiver} (hg : ∀ t, (g t).mid = t.mid)
    (h : UniqueMid ts) : UniqueMid (ts.map g) := by
  unfold UniqueMid at *
  refine List.pairwise_map.mpr (h.imp ?_)
  intro a b hab hne
  rw [hg a, hg b]
  exact hab (by rw [← hg a]; exact hne)

theorem SameBut.mid {t t2 : Transceiver} (h : SameBut t t2) : t2.mid = t.mid := by unfold SameBut at h; rw [h]
theorem SameBut.mline {t t2 : Transceiver} (h : SameBut t t2) : t2.mline = t.mline := by unfold SameBut at h; rw [h]

/-! ## setRemoteDescription(offer) on a connection that has not negotiated anything yet -/

/-- the answerer has created transceivers but none of them has been through an exchange -/
def Unnegotiated (ts : List Transceiver) : Prop := ∀ t ∈ ts, t.mid = none ∧ t.mline = none

theorem unnegotiated_freshFor {all ms : List MSec} {ts : List Transceiver} (h : Unnegotiated ts) : FreshFor all 0 ms ts := by
  refine ⟨?_, ?_, fun t ht => .inl (h t ht)⟩
  · unfold UniqueMid
    induction ts with
    | nil => exact .nil
    | cons a as ih =>
      refine List.pairwise_cons.mpr ⟨?_, ih (fun t ht => h t (by simp [ht]))⟩
      intro b _ hne
      exact absurd (h a (by simp)).1 hne
  · intro t ht m _
    rw [(h t ht).1]; simp

/-- What the answerer looks like after `setRemoteDescription(offer)`: one transceiver per media section of the
offer, negotiated from that section, carrying its m-line index; mids unique; nothing else has an m-line index. -/
theorem setRemote_offer_fresh {a a1 : Pc} {offer : Desc} (h : a.setRemoteWith bundleStep offer = .ok a1)
    (hty : offer.type = .offer) (hun : Unnegotiated a.transceivers) (hnd : (offer.media.map (·.mid)).Nodup) :
    a1.remoteDesc = some offer ∧ UniqueMid a1.transceivers ∧
    (∀ t ∈ a1.transceivers, (t.mid = none ∧ t.mline = none) ∨
        ∃ (j : Nat) (m : MSec), offer.media[j]? = some m ∧ t.mid = some m.mid ∧ t.mline = some j) ∧
    (∀ (j : Nat) m, offer.media[j]? = some m → m.kind.isMedia = true → ∃ t ∈ a1.transceivers, Negotiated .offer m t) := by
  obtain ⟨_, pc1, pc2, hfold, hb, hO, _⟩ := setRemoteWith_spec h
  have hres := hO hty
  rw [hty] at hfold
  have hidx : ∀ (j : Nat) (m : MSec), offer.media[j]? = some m → offer.media[0 + j]? = some m := by
    intro j m hj; simpa using hj
  obtain ⟨hI, _, hneg⟩ := freshFor_fold (all := offer.media) offer.media a pc1 0 (unnegotiated_freshFor hun) hnd
    hidx hfold
  obtain ⟨g, hg, hmap⟩ := applyBundle_transceivers hb
  have hts : a1.transceivers = pc1.transceivers.map g := by rw [hres]; exact hmap
  refine ⟨by rw [hres]; simp [Pc.remoteDesc], ?_, ?_, ?_⟩
  · rw [hts]; exact uniqueMid_map (fun t => (hg t).mid) hI.unique
  · intro t ht
    rw [hts] at ht
    obtain ⟨t0, ht0, rfl⟩ := List.mem_map.mp ht
    rw [(hg t0).mid, (hg t0).mline]
    rcases hI.lines t0 ht0 with h1 | ⟨j, m, _, h2, h3, h4⟩
    · exact .inl h1
    · exact .inr ⟨j, m, h2, h3, h4⟩
  · intro j m hj hk
    obtain ⟨t', ht', hN, _⟩ := hneg j m hj hk
    exact ⟨g t', by rw [hts]; exact List.mem_map_of_mem ht', hN.sameBut (hg t')⟩

/-! ## setLocalDescription(answer) leaves the transceivers alone except for currentDirection -/

theorem localRoles_transceivers : ∀ (ms : List MSec) (pc pc' : Pc) (i : Nat), localRoles pc ms i = .ok pc' →
    pc'.transceivers = pc.transceivers := by
  intro ms
  induction ms with
  | nil => intro pc pc' i h; simp [localRoles] at h; rw [h]
  | cons m ms ih =>
    intro pc pc' i h
    simp only [localRoles] at h
    split at h
    · split at h
      · cases h
      · exact (ih _ _ _ h).trans rfl
    · split at h
      · cases h
      · exact (ih _ _ _ h).trans rfl

/-- "assign MID" changes nothing when every transceiver with an m-line index already has that section's mid -/
theorem assignMids_noop : ∀ (ms : List MSec) (pc pc' : Pc) (i : Nat),
    (∀ t ∈ pc.transceivers, ∀ j, t.mline = some j → i ≤ j → ∃ m, ms[j - i]? = some m ∧ t.mid = some m.mid) →
    assignMids pc ms i = .ok pc' → pc'.transceivers = pc.transceivers := by
  intro ms
  induction ms with
  | nil => intro pc pc' i _ h; simp [assignMids] at h; rw [h]
  | cons m ms ih =>
    intro pc pc' i hyp h
    have hyp' : ∀ t ∈ pc.transceivers, ∀ j, t.mline = some j → i + 1 ≤ j → ∃ m', ms[j - (i + 1)]? = some m' ∧ t.mid = some m'.mid := by
      intro t ht j hj hij
      obtain ⟨m', hm', hmid⟩ := hyp t ht j hj (by omega)
      have : j - i = (j - (i + 1)) + 1 := by omega
      rw [this] at hm'
      exact ⟨m', by simpa using hm', hmid⟩
    simp only [assignMids] at h
    split at h
    · split at h
      · cases h
      · rename_i ts hupd
        have hid : ts = pc.transceivers := by
          refine updFirst_id hupd ?_
          intro x hx hpx
          simp only [beq_iff_eq] at hpx
          obtain ⟨m', hm', hmid⟩ := hyp x hx i hpx (Nat.le_refl _)
          simp at hm'; subst hm'
          cases x; simp_all
        subst hid
        refine (ih _ pc' (i + 1) ?_ h).trans rfl
        exact hyp'
    · split at h
      · cases h
      · refine (ih _ pc' (i + 1) ?_ h).trans rfl
        exact hyp'

theorem setLocal_answer_transceivers {pc pc' : Pc} {d : Desc} (ht : d.type = .answer) (h : pc.setLocal d = .ok pc')
    (hyp : ∀ t ∈ pc.transceivers, ∀ j, t.mline = some j → ∃ m, d.media[j]? = some m ∧ t.mid = some m.mid) :
    pc'.transceivers = localDirections pc.transceivers := by
  unfold Pc.setLocal at h
  simp only [ht] at h
  split at h
  · cases h
  · split at h
    · split at h
      · rename_i pc2 h2
        have e2 : pc2.transceivers = pc.transceivers := by
          refine (assignMids_noop _ _ pc2 0 ?_ h2).trans rfl
          intro t ht j hj _
          simpa using hyp t ht j hj
        simp at h
        split at h
        · rename_i pc4 h4
          have e4 := localRoles_transceivers _ _ _ _ h4
          split at h
          · cases h
            simp only
            rw [e4, e2]
          · cases h
          · cases h
          · cases h
        · rename_i e hne
          cases e <;> simp_all
      · rename_i e hne
        cases e <;> simp_all
    · cases h
    · cases h
    · cases h

theorem localDirections_mem {ts : List Transceiver} {t : Transceiver} {od : Dir} (ht : t ∈ ts) (ho : t.offerDirection = some od) :
    { t with currentDirection := some (andDir t.direction od) } ∈ localDirections ts := by
  unfold localDirections
  refine List.mem_map.mpr ⟨t, ht, ?_⟩
  simp [ho]

theorem localDirections_unique {ts : List Transceiver} (h : UniqueMid ts) : UniqueMid (localDirections ts) := by
  unfold localDirections
  refine uniqueMid_map ?_ h
  intro t
  split <;> rfl

end Aiortc.Model.Negotiate
