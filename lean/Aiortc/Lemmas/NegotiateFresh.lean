import Aiortc.Lemmas.NegotiateExchange
/-!
Helper lemmas for C03, part 5: the first offer of a connection that has not negotiated anything yet
(`createOffer` + `setLocalDescription(offer)`): mids are pairwise distinct and afterwards every transceiver owns
exactly the section that was created for it.
-/
namespace Aiortc.Model.Negotiate
open Aiortc (Outcome)
open Aiortc.Model.Jsep (Sig)

/-! ## updFirst when at most one element matches -/

theorem updFirst_eq_map {α} {p : α → Bool} {f : α → α} : ∀ {l l' : List α},
    l.Pairwise (fun a b => ¬(p a = true ∧ p b = true)) → updFirst p f l = some l' →
    l' = l.map (fun x => if p x then f x else x) := by
  intro l
  induction l with
  | nil => intro l' _ h; simp [updFirst] at h
  | cons a as ih =>
    intro l' hp h
    obtain ⟨ha, has⟩ := List.pairwise_cons.mp hp
    simp only [updFirst] at h
    split at h
    · rename_i hpa
      cases h
      simp only [List.map_cons, hpa, if_true]
      congr 1
      symm
      rw [List.map_congr_left (g := id)]
      · simp
      · intro x hx
        have := ha x hx
        simp only [hpa, true_and, Bool.not_eq_true] at this
        simp [this]
    · rename_i hpa
      cases hr : updFirst p f as with
      | none => simp [hr] at h
      | some r =>
        simp [hr] at h; subst h
        simp only [List.map_cons, hpa]
        rw [ih has hr]
        simp

/-! ## "assign MID" as a map -/

/-- what "assign MID" does to one transceiver when m-line indices are not shared -/
def assignFn : List MSec → Nat → Transceiver → Transceiver
  | [], _, t => t
  | m :: ms, i, t => assignFn ms (i + 1) (if m.kind.isMedia && t.mline == some i then { t with mid := some m.mid } else t)

theorem assignFn_mline : ∀ (ms : List MSec) (i : Nat) (t : Transceiver), (assignFn ms i t).mline = t.mline := by
  intro ms
  induction ms with
  | nil => intro i t; rfl
  | cons m ms ih => intro i t; simp only [assignFn]; rw [ih]; split <;> rfl

theorem assignFn_kind : ∀ (ms : List MSec) (i : Nat) (t : Transceiver), (assignFn ms i t).kind = t.kind := by
  intro ms
  induction ms with
  | nil => intro i t; rfl
  | cons m ms ih => intro i t; simp only [assignFn]; rw [ih]; split <;> rfl

/-- a transceiver whose m-line index is outside the remaining sections keeps its mid -/
theorem assignFn_mid_out : ∀ (ms : List MSec) (i : Nat) (t : Transceiver), (∀ j, t.mline = some j → j < i) →
    (assignFn ms i t).mid = t.mid := by
  intro ms
  induction ms with
  | nil => intro i t _; rfl
  | cons m ms ih =>
    intro i t h
    simp only [assignFn]
    have hne : (t.mline == some i) = false := by
      cases hl : t.mline with
      | none => simp
      | some j => have := h j hl; simp; omega
    simp only [hne, Bool.and_false, Bool.false_eq_true, if_false]
    exact ih (i + 1) t (fun j hj => by have := h j hj; omega)

/-- a transceiver with the m-line index of a media section gets that section's mid -/
theorem assignFn_mid : ∀ (ms : List MSec) (i : Nat) (t : Transceiver) (j : Nat) (m : MSec),
    t.mline = some j → i ≤ j → ms[j - i]? = some m → m.kind.isMedia = true → (assignFn ms i t).mid = some m.mid := by
  intro ms
  induction ms with
  | nil => intro i t j m _ _ h; simp at h
  | cons m0 ms ih =>
    intro i t j m hj hij hm hk
    simp only [assignFn]
    by_cases hji : j = i
    · subst hji
      simp at hm; subst hm
      simp only [hk, hj, beq_self_eq_true, Bool.and_self, if_true]
      rw [assignFn_mid_out]
      intro j' hj'
      simp at hj'; omega
    · have hne : (t.mline == some i) = false := by rw [hj]; simp; omega
      simp only [hne, Bool.and_false, Bool.false_eq_true, if_false]
      have : j - i = (j - (i + 1)) + 1 := by omega
      rw [this] at hm
      exact ih (i + 1) t j m hj (by omega) (by simpa using hm) hk

/-- distinct m-line indices (a missing index counts as a value too: at most one transceiver lacks one) -/
def DistinctLines (ts : List Transceiver) : Prop := ts.Pairwise (fun a b => a.mline ≠ b.mline)

theorem assignMids_map : ∀ (ms : List MSec) (pc pc' : Pc) (i : Nat), DistinctLines pc.transceivers →
    assignMids pc ms i = .ok pc' → pc'.transceivers = pc.transceivers.map (assignFn ms i) := by
  intro ms
  induction ms with
  | nil => intro pc pc' i _ h; simp [assignMids] at h; subst h; simp [assignFn]
  | cons m ms ih =>
    intro pc pc' i hd h
    simp only [assignMids] at h
    split at h
    · rename_i hk
      split at h
      · cases h
      · rename_i ts hupd
        have hpw : pc.transceivers.Pairwise (fun a b => ¬((a.mline == some i) = true ∧ (b.mline == some i) = true)) := by
          refine hd.imp ?_
          intro a b hab hboth
          simp only [beq_iff_eq] at hboth
          exact hab (hboth.1.trans hboth.2.symm)
        have hts := updFirst_eq_map hpw hupd
        have hd' : DistinctLines ts := by
          rw [hts]
          refine List.pairwise_map.mpr (hd.imp ?_)
          intro a b hab
          have e : ∀ x : Transceiver, (if (x.mline == some i) = true then { x with mid := some m.mid } else x).mline = x.mline := by
            intro x; split <;> rfl
          rw [e a, e b]; exact hab
        have := ih _ pc' (i + 1) hd' h
        rw [this, hts, List.map_map]
        refine List.map_congr_left ?_
        intro x _
        simp only [Function.comp, assignFn, hk, Bool.true_and]
    · rename_i hk
      split at h
      · cases h
      · have : pc'.transceivers = pc.transceivers.map (assignFn ms (i + 1)) := by
          refine (ih _ pc' (i + 1) ?_ h).trans rfl
          exact hd
        rw [this]
        refine List.map_congr_left ?_
        intro x _
        have hk' : m.kind.isMedia = false := by simpa using hk
        simp only [assignFn, hk', Bool.false_and, Bool.false_eq_true, if_false]

theorem setLocal_offer_transceivers {pc pc' : Pc} {d : Desc} (ht : d.type = .offer) (h : pc.setLocal d = .ok pc')
    (hd : DistinctLines pc.transceivers) : pc'.transceivers = pc.transceivers.map (assignFn d.media 0) := by
  unfold Pc.setLocal at h
  simp only [ht] at h
  split at h
  · cases h
  · split at h
    · split at h
      · rename_i pc2 h2
        have e2 : pc2.transceivers = pc.transceivers.map (assignFn d.media 0) := by
          refine (assignMids_map _ _ pc2 0 ?_ h2).trans rfl
          exact hd
        simp at h
        split at h
        · cases h; exact e2
        · cases h
        · cases h
        · cases h
      · rename_i e hne
        cases e <;> simp_all
    · cases h
    · cases h
    · cases h

/-! ## createOffer on a connection without descriptions -/

theorem offerCodecs_spec : ∀ (ts ts0 : List Transceiver), offerCodecs ts = .ok ts0 →
    ts0.map (fun t => (t.mid, t.mline, t.kind)) = ts.map (fun t => (t.mid, t.mline, t.kind)) := by
  intro ts
  induction ts with
  | nil => intro ts0 h; simp [offerCodecs] at h; subst h; rfl
  | cons t ts ih =>
    intro ts0 h
    simp only [offerCodecs] at h
    split at h
    · split at h
      · rename_i ts' hts'
        cases h
        simp only [List.map_cons]
        rw [ih ts' hts']
      · rename_i e hne
        cases e <;> simp_all
    · cases h
    · cases h
    · cases h

/-- "handle new transceivers" when none of them has a mid: consecutive m-line indices, one section each, fresh
distinct mids -/
theorem offerNew_spec (pc : Pc) : ∀ (ts ts' : List Transceiver) (n : Nat) (mids mids' : List String) (secs : List MSec),
    (∀ t ∈ ts, t.mid = none) → offerNew pc ts n mids = .ok (ts', secs, mids') →
    ts'.map (·.mline) = (List.range' n ts.length).map some ∧ ts'.map (·.kind) = ts.map (·.kind) ∧
    ts'.map (·.mid) = ts.map (·.mid) ∧ secs.map (·.kind) = ts.map (·.kind) ∧
    mids' = mids ++ secs.map (·.mid) ∧ (secs.map (·.mid)).Nodup ∧ (∀ x ∈ secs.map (·.mid), x ∉ mids) := by
  intro ts
  induction ts with
  | nil =>
    intro ts' n mids mids' secs _ h
    simp [offerNew] at h
    obtain ⟨rfl, rfl, rfl⟩ := h
    simp
  | cons t ts ih =>
    intro ts' n mids mids' secs hnone h
    have htn : t.mid = none := hnone t (by simp)
    simp only [offerNew, htn, Option.isNone_none, if_true] at h
    split at h
    · rename_i m mids1 hal
      obtain ⟨hfresh, hm1⟩ := allocateMid_fresh hal
      split at h
      · rename_i ts2 secs2 mids2 hrec
        cases h
        obtain ⟨e1, e2, e3, e4, e5, e6, e7⟩ := ih ts2 (n + 1) mids1 _ secs2 (fun x hx => hnone x (by simp [hx])) hrec
        refine ⟨?_, ?_, ?_, ?_, ?_, ?_, ?_⟩
        · simp [List.range'_succ, e1]
        · simp [e2]
        · simp [e3, htn]
        · simp [Pc.secForTransceiver, e4]
        · simp [Pc.secForTransceiver, e5, hm1]
        · simp only [List.map_cons, List.nodup_cons]
          refine ⟨?_, e6⟩
          intro hmem
          have := e7 m (by simpa [Pc.secForTransceiver] using hmem)
          rw [hm1] at this; simp at this
        · intro x hx
          simp only [List.map_cons, List.mem_cons] at hx
          rcases hx with rfl | hx
          · simpa [Pc.secForTransceiver] using hfresh
          · have := e7 x hx
            rw [hm1] at this
            intro hxm; exact this (by simp [hxm])
      · rename_i e hne
        cases e <;> simp_all
    · cases h
    · cases h
    · cases h

/-- a connection that has not been through any exchange: no descriptions, no mids seen, nothing has a mid or an
m-line index yet (any transceivers / data channel / preferences / policy) -/
structure FreshPc (o : Pc) : Prop where
  un : Unnegotiated o.transceivers
  media : ∀ t ∈ o.transceivers, t.kind.isMedia = true
  noLocal : o.localDesc = none
  noRemote : o.remoteDesc = none
  noMids : o.seenMids = []
  sctpMid : ∀ s, o.sctp = some s → s.mid = none

theorem offerFinish_spec {pc pc' : Pc} {media : List MSec} {mids : List String} {d : Desc}
    (h : pc.offerFinish media mids = .ok (pc', d)) (hs : ∀ s, pc.sctp = some s → s.mid = none) :
    pc'.transceivers = pc.transceivers ∧ d.type = .offer ∧
    ∃ tail, d.media = media ++ tail ∧ (∀ m ∈ tail, m.kind.isMedia = false) ∧ (∀ m ∈ tail, m.mid ∉ mids) ∧ tail.length ≤ 1 := by
  unfold Pc.offerFinish at h
  split at h
  · rename_i s hsome
    simp only [hs s hsome, Option.isNone_none, if_true] at h
    split at h
    · rename_i m mids1 hal
      cases h
      refine ⟨rfl, rfl, [pc.secForSctp s m], rfl, ?_, ?_, by simp⟩
      · intro x hx; simp at hx; subst hx; rfl
      · intro x hx; simp at hx; subst hx
        exact (allocateMid_fresh hal).1
    · cases h
    · cases h
    · cases h
  · cases h
    exact ⟨rfl, rfl, [], by simp, by simp, by simp, by simp⟩

theorem offerExisting_nil (pc : Pc) (i : Nat) : offerExisting pc [] i = .ok (pc, []) := by simp [offerExisting]

/-- shape of the first offer of a fresh connection -/
theorem fresh_createOffer {o o1 : Pc} {offer0 : Desc} (hf : FreshPc o) (h1 : o.createOffer = .ok (o1, offer0)) :
    offer0.type = .offer ∧
    ∃ secs tail, offer0.media = secs ++ tail ∧ (∀ m ∈ tail, m.kind.isMedia = false) ∧ (∀ m ∈ secs, m.kind.isMedia = true) ∧
      (offer0.media.map (·.mid)).Nodup ∧
      o1.transceivers.map (·.mline) = (List.range' 0 secs.length).map some ∧
      o1.transceivers.map (·.kind) = secs.map (·.kind) := by
  unfold Pc.createOffer at h1
  split at h1
  · cases h1
  · split at h1
    · rename_i ts0 hc
      have hex : o.existingMedia = [] := by
        simp [Pc.existingMedia, hf.noLocal, hf.noRemote, mergeMedia]
      rw [hex, offerExisting_nil] at h1
      simp only at h1
      split at h1
      · rename_i ts2 secs2 mids2 hnew
        have hspec0 := offerCodecs_spec _ _ hc
        have hmid0 : ∀ t ∈ ts0, t.mid = none := by
          intro t ht
          have : (t.mid, t.mline, t.kind) ∈ ts0.map (fun t => (t.mid, t.mline, t.kind)) := List.mem_map_of_mem ht
          rw [hspec0] at this
          obtain ⟨t1, ht1, he⟩ := List.mem_map.mp this
          have := (hf.un t1 ht1).1
          simp only [Prod.mk.injEq] at he
          rw [← he.1]; exact this
        have hkind0 : ∀ k ∈ ts0.map (·.kind), k.isMedia = true := by
          intro k hk
          obtain ⟨t, ht, rfl⟩ := List.mem_map.mp hk
          have : (t.mid, t.mline, t.kind) ∈ ts0.map (fun t => (t.mid, t.mline, t.kind)) := List.mem_map_of_mem ht
          rw [hspec0] at this
          obtain ⟨t1, ht1, he⟩ := List.mem_map.mp this
          simp only [Prod.mk.injEq] at he
          rw [← he.2.2]; exact hf.media t1 ht1
        obtain ⟨e1, e2, _, e4, e5, e6, _⟩ := offerNew_spec _ ts0 ts2 _ _ mids2 secs2 hmid0 hnew
        have hlen : secs2.length = ts0.length := by
          have := congrArg List.length e4; simpa using this
        obtain ⟨ht, hty, tail, hmedia, htail1, htail2, _⟩ := offerFinish_spec h1 (fun s hs => hf.sctpMid s hs)
        simp only [List.nil_append] at hmedia
        refine ⟨hty, secs2, tail, hmedia, htail1, ?_, ?_, ?_, ?_⟩
        · intro m hm
          exact hkind0 m.kind (by rw [← e4]; exact List.mem_map_of_mem hm)
        · rw [hmedia, List.map_append]
          refine List.nodup_append.mpr ⟨e6, ?_, ?_⟩
          · -- tail has at most one element
            match tail, ‹tail.length ≤ 1› with
            | [], _ => simp
            | [x], _ => simp
          · intro a ha b hb hab
            obtain ⟨mb, hmb, rfl⟩ := List.mem_map.mp hb
            have := htail2 mb hmb
            rw [e5, hf.noMids] at this
            simp only [List.nil_append] at this
            exact this (hab ▸ ha)
        · rw [ht]; simp only; rw [e1, hlen]; rfl
        · rw [ht]; simp only; rw [e2, e4]
      · cases h1
      · cases h1
      · cases h1
    · cases h1
    · cases h1
    · cases h1

theorem nodup_getElem?_inj {α} {l : List α} (h : l.Nodup) {i j : Nat} {x : α} (hi : l[i]? = some x) (hj : l[j]? = some x) : i = j := by
  induction l generalizing i j with
  | nil => simp at hi
  | cons a as ih =>
    obtain ⟨ha, has⟩ := List.nodup_cons.mp h
    cases i with
    | zero =>
      cases j with
      | zero => rfl
      | succ j' =>
        simp at hi hj; subst hi
        exact absurd (List.mem_of_getElem? hj) ha
    | succ i' =>
      cases j with
      | zero =>
        simp at hi hj; subst hj
        exact absurd (List.mem_of_getElem? hi) ha
      | succ j' =>
        simp at hi hj
        rw [ih has hi hj]

/-- The first offer of a fresh connection, once applied: distinct mids, and every media section is owned by exactly
one transceiver (of its kind); every transceiver owns one. -/
theorem fresh_offer_owned {o o1 o2 : Pc} {offer0 : Desc} (hf : FreshPc o)
    (h1 : o.createOffer = .ok (o1, offer0)) (h2 : o1.setLocal offer0 = .ok o2) :
    (offer0.media.map (·.mid)).Nodup ∧ OwnedBy offer0.media o2.transceivers := by
  obtain ⟨hty, secs, tail, hmedia, htail, hsecs, hnd, hlines, hkinds⟩ := fresh_createOffer hf h1
  refine ⟨hnd, ?_⟩
  -- positional facts about the offerer's transceivers
  have hlen : o1.transceivers.length = secs.length := by
    have := congrArg List.length hkinds; simpa using this
  have hpos : ∀ (k : Nat) (t : Transceiver), o1.transceivers[k]? = some t →
      t.mline = some k ∧ ∃ m, secs[k]? = some m ∧ m.kind = t.kind := by
    intro k t hk
    have hklt : k < secs.length := by
      rw [← hlen]; exact (List.getElem?_eq_some_iff.mp hk).1
    have h1' : (o1.transceivers.map (·.mline))[k]? = some t.mline := by simp [hk]
    rw [hlines] at h1'
    simp [hklt] at h1'
    have h2' : (o1.transceivers.map (·.kind))[k]? = some t.kind := by simp [hk]
    rw [hkinds] at h2'
    simp only [List.getElem?_map, Option.map_eq_some_iff] at h2'
    obtain ⟨m, hm, hmk⟩ := h2'
    exact ⟨h1'.symm, m, hm, hmk⟩
  have hd : DistinctLines o1.transceivers := by
    unfold DistinctLines
    have : (o1.transceivers.map (·.mline)).Nodup := by
      rw [hlines]
      have hr : (List.range' 0 secs.length).Nodup := List.nodup_range'
      exact List.pairwise_map.mpr (List.Pairwise.imp (fun hab h => hab (Option.some.inj h)) hr)
    exact (List.pairwise_map.mp this)
  have hts := setLocal_offer_transceivers hty h2 hd
  -- the mid every transceiver ends with
  have hmidOf : ∀ (k : Nat) (t : Transceiver), o1.transceivers[k]? = some t →
      ∃ m, secs[k]? = some m ∧ m.kind = t.kind ∧ (assignFn offer0.media 0 t).mid = some m.mid := by
    intro k t hk
    obtain ⟨hl, m, hm, hmk⟩ := hpos k t hk
    refine ⟨m, hm, hmk, assignFn_mid offer0.media 0 t k m hl (Nat.zero_le _) ?_ (hsecs m (List.mem_of_getElem? hm))⟩
    rw [hmedia]
    simp only [Nat.sub_zero]
    rw [List.getElem?_append_left (List.getElem?_eq_some_iff.mp hm).1]
    exact hm
  have hndsecs : (secs.map (·.mid)).Nodup := by
    rw [hmedia, List.map_append] at hnd
    exact (List.nodup_append.mp hnd).1
  rw [hts]
  refine ⟨?_, ?_, ?_⟩
  · -- unique mids
    unfold UniqueMid
    refine List.pairwise_map.mpr ?_
    refine List.Pairwise.imp_of_mem ?_ hd
    intro a b ha hb hab hne heq
    obtain ⟨ka, hka⟩ := List.getElem?_of_mem ha
    obtain ⟨kb, hkb⟩ := List.getElem?_of_mem hb
    obtain ⟨ma, hma, _, hamid⟩ := hmidOf ka a hka
    obtain ⟨mb, hmb, _, hbmid⟩ := hmidOf kb b hkb
    rw [hamid, hbmid] at heq
    have hmm : ma.mid = mb.mid := Option.some.inj heq
    have e1 : (secs.map (·.mid))[ka]? = some ma.mid := by simp [hma]
    have e2 : (secs.map (·.mid))[kb]? = some ma.mid := by simp [hmb, hmm]
    have hk := nodup_getElem?_inj hndsecs e1 e2
    subst hk
    exact hab (by rw [(hpos ka a hka).1, (hpos ka b hkb).1])
  · intro t ht
    obtain ⟨t0, ht0, rfl⟩ := List.mem_map.mp ht
    obtain ⟨k, hk⟩ := List.getElem?_of_mem ht0
    obtain ⟨m, _, _, hmid⟩ := hmidOf k t0 hk
    rw [hmid]; simp
  · intro m hm hkm
    rw [hmedia] at hm
    rcases List.mem_append.mp hm with hm | hm
    · obtain ⟨k, hk⟩ := List.getElem?_of_mem hm
      have hklt : k < o1.transceivers.length := by rw [hlen]; exact (List.getElem?_eq_some_iff.mp hk).1
      have hget : o1.transceivers[k]? = some o1.transceivers[k] := List.getElem?_eq_getElem hklt
      obtain ⟨m', hm', hmk', hmid'⟩ := hmidOf k _ hget
      rw [hk] at hm'; cases hm'
      exact ⟨_, List.mem_map_of_mem (List.getElem_mem hklt), hmid', by rw [assignFn_kind]; exact hmk'.symm⟩
    · rw [htail m hm] at hkm; cases hkm

theorem OwnedBy.of_keys {ms ms' : List MSec} {ts : List Transceiver}
    (hk : ms'.map (fun m => (m.kind, m.mid)) = ms.map (fun m => (m.kind, m.mid))) (h : OwnedBy ms ts) : OwnedBy ms' ts := by
  refine ⟨h.unique, h.allMid, ?_⟩
  intro m' hm' hk'
  have : (m'.kind, m'.mid) ∈ ms'.map (fun m => (m.kind, m.mid)) := List.mem_map_of_mem hm'
  rw [hk] at this
  obtain ⟨m, hm, he⟩ := List.mem_map.mp this
  simp only [Prod.mk.injEq] at he
  obtain ⟨t, ht, h1, h2⟩ := h.owned m hm (by rw [he.1]; exact hk')
  exact ⟨t, ht, by rw [h1, he.2], by rw [h2, he.1]⟩

end Aiortc.Model.Negotiate
