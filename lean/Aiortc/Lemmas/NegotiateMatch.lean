import Aiortc.Lemmas.NegotiatePc
/-!
Helper lemmas for C03, part 3: which transceiver `setRemoteDescription` negotiates for which media section.

Two regimes are covered (all configurations inside each):
* `FreshFor`  — none of the description's mids is owned by a transceiver yet (an answerer receiving a first offer,
  whatever transceivers it created beforehand);
* `OwnedBy`   — every transceiver has a mid and every media section's mid is owned by a transceiver of that kind
  (an offerer receiving the answer to the offer it has just applied).
-/
namespace Aiortc.Model.Negotiate
open Aiortc (Outcome)
open Aiortc.Model.Jsep (Sig)

/-- the relation behind `UniqueMid`: an owned mid is not repeated -/
def MidDiff (a b : Transceiver) : Prop := a.mid ≠ none → a.mid ≠ b.mid

/-- at most one transceiver per mid (positionally: two list positions never carry the same mid) -/
def UniqueMid (ts : List Transceiver) : Prop := ts.Pairwise MidDiff

theorem UniqueMid.eq {ts : List Transceiver} (h : UniqueMid ts) :
    ∀ t1 ∈ ts, ∀ t2 ∈ ts, t1.mid = t2.mid → t1.mid ≠ none → t1 = t2 := by
  unfold UniqueMid at h
  induction h with
  | nil => intro t1 h1; cases h1
  | @cons a as ha _ ih =>
    intro t1 h1 t2 h2 heq hne
    rcases List.mem_cons.mp h1 with e1 | h1'
    · rcases List.mem_cons.mp h2 with e2 | h2'
      · rw [e1, e2]
      · subst e1; exact absurd heq (ha t2 h2' hne)
    · rcases List.mem_cons.mp h2 with e2 | h2'
      · subst e2; exact absurd heq.symm (ha t1 h1' (by rw [← heq]; exact hne))
      · exact ih t1 h1' t2 h2' heq hne

/-- replacing the first match keeps a pairwise relation if the replacement relates to the others like the original -/
theorem updFirst_pairwise {α} {R : α → α → Prop} {p : α → Bool} {f : α → α} : ∀ {l l' : List α},
    updFirst p f l = some l' → l.Pairwise R →
    (∀ x ∈ l, p x = true → ∀ y ∈ l, R x y → R (f x) y) → (∀ x ∈ l, p x = true → ∀ y ∈ l, R y x → R y (f x)) →
    l'.Pairwise R := by
  intro l
  induction l with
  | nil => intro l' h; simp [updFirst] at h
  | cons a as ih =>
    intro l' h hp h1 h2
    obtain ⟨ha, has⟩ := List.pairwise_cons.mp hp
    simp only [updFirst] at h
    split at h
    · rename_i hpa
      cases h
      exact List.pairwise_cons.mpr ⟨fun y hy => h1 a (by simp) hpa y (by simp [hy]) (ha y hy), has⟩
    · cases hr : updFirst p f as with
      | none => simp [hr] at h
      | some r =>
        simp [hr] at h; subst h
        refine List.pairwise_cons.mpr ⟨?_, ih hr has (fun x hx hpx y hy => h1 x (by simp [hx]) hpx y (by simp [hy]))
          (fun x hx hpx y hy => h2 x (by simp [hx]) hpx y (by simp [hy]))⟩
        intro y hy
        rcases updFirst_mem' hr y hy with hy | ⟨x, hx, hpx, rfl⟩
        · exact ha y hy
        · exact h2 x (by simp [hx]) hpx a (by simp) (ha x hx)

/-- What `setRemoteDescription` establishes for the transceiver that answers media section `m`. -/
structure Negotiated (typ : DType) (m : MSec) (t : Transceiver) : Prop where
  mid : t.mid = some m.mid
  kind : t.kind = m.kind
  remoteSet : t.remoteSet = true
  codecs : filterPreferred (findCommon (codecsOf m.kind) m.codecs) t.preferred = .ok t.codecs
  nonempty : t.codecs ≠ []
  exts : t.exts = findCommonExt (extsOf m.kind) m.exts
  cur : typ = .answer → t.currentDirection = some (revDir m.direction)
  off : typ = .offer → t.offerDirection = some (revDir m.direction)

theorem negotiateTransceiver_spec {typ : DType} {t t' : Transceiver} {m : MSec} {i : Nat}
    (h : negotiateTransceiver typ t m i = .ok t') (hm : matchesSec m t = true) :
    Negotiated typ m t' ∧ t'.direction = t.direction ∧ t'.transport = t.transport ∧ t'.preferred = t.preferred ∧
    (t.mid = none → t'.mline = some i) ∧ (t.mid ≠ none → t'.mline = t.mline) ∧
    (typ = .offer → t'.currentDirection = t.currentDirection) ∧ (typ = .answer → t'.offerDirection = t.offerDirection) := by
  unfold negotiateTransceiver at h
  split at h
  · rename_i common hc
    split at h
    · cases h
    · rename_i hne
      cases h
      simp only [matchesSec, Bool.and_eq_true, beq_iff_eq, Bool.or_eq_true] at hm
      refine ⟨⟨?_, hm.1, rfl, hc, ?_, rfl, ?_, ?_⟩, rfl, rfl, rfl, ?_, ?_, ?_, ?_⟩
      · rcases hm.2 with h1 | h1
        · cases ht : t.mid <;> simp_all
        · simp [h1]
      · intro he; exact hne (by simpa using he)
      · intro ht; simp [ht]
      · intro ht; simp [ht]
      · intro ht; simp [ht]
      · intro ht; cases hx : t.mid <;> simp_all
      · intro ht; simp [ht]
      · intro ht; simp [ht]
  · cases h
  · cases h
  · cases h

theorem createTransceiver_transceivers (pc : Pc) (d : Dir) (k : Kind) (tr : Bool) :
    ∃ n, (pc.createTransceiver d k tr).transceivers = pc.transceivers ++ [n] ∧ n.mid = none ∧ n.mline = none ∧ n.kind = k := by
  unfold Pc.createTransceiver
  split <;> exact ⟨_, rfl, rfl, rfl, rfl⟩

theorem createSctp_frame (pc : Pc) :
    pc.createSctp.transceivers = pc.transceivers ∧ pc.createSctp.slots = pc.slots ∧ pc.createSctp.seenMids = pc.seenMids := by
  unfold Pc.createSctp
  split <;> exact ⟨rfl, rfl, rfl⟩

theorem ensureSctp_frame (pc : Pc) :
    pc.ensureSctp.transceivers = pc.transceivers ∧ pc.ensureSctp.slots = pc.slots ∧ pc.ensureSctp.seenMids = pc.seenMids := by
  unfold Pc.ensureSctp
  split
  · exact ⟨rfl, rfl, rfl⟩
  · exact createSctp_frame pc

theorem modTransport_transceivers (pc : Pc) (id : Nat) (f : Transport → Transport) :
    (pc.modTransport id f).transceivers = pc.transceivers := rfl

/-- one media section of `setRemoteDescription`: the first matching transceiver of `ts0` (the old list, or the old list
plus a fresh `recvonly` transceiver when nothing matched) is replaced by its negotiated version -/
theorem applyRemoteSec_media {typ : DType} {pc pc' : Pc} {i : Nat} {m : MSec}
    (h : applyRemoteSec typ pc i m = .ok pc') (hk : m.kind.isMedia = true) :
    ∃ ts0 t t', (ts0 = pc.transceivers ∨
        (pc.transceivers.any (matchesSec m) = false ∧ ∃ n, ts0 = pc.transceivers ++ [n] ∧ n.mid = none ∧ n.mline = none ∧ n.kind = m.kind)) ∧
      ts0.find? (matchesSec m) = some t ∧ negotiateTransceiver typ t m i = .ok t' ∧
      updFirst (matchesSec m) (fun _ => t') ts0 = some pc'.transceivers := by
  unfold applyRemoteSec at h
  simp only [hk, if_true] at h
  unfold applyRemoteMedia at h
  split at h
  · cases h
  · rename_i t hfind
    split at h
    · rename_i t' hneg
      split at h
      · cases h
      · rename_i ts hupd
        cases h
        refine ⟨_, t, t', ?_, hfind, hneg, ?_⟩
        · by_cases hany : pc.transceivers.any (matchesSec m) = true
          · left; simp [Pc.ensureTransceiver, Pc.seeMid, hany]
          · right
            have hany' : pc.transceivers.any (matchesSec m) = false := by simpa using hany
            obtain ⟨n, hn, h1, h2, h3⟩ := createTransceiver_transceivers (pc.seeMid m.mid) .recvonly m.kind false
            refine ⟨hany', n, ?_, h1, h2, h3⟩
            have : (pc.seeMid m.mid).transceivers.any (matchesSec m) = false := hany'
            simp only [Pc.ensureTransceiver, this, Bool.false_eq_true, if_false]
            exact hn
        · rw [modTransport_transceivers]; exact hupd
    · cases h
    · cases h
    · cases h

theorem applyRemoteSec_app {typ : DType} {pc pc' : Pc} {i : Nat} {m : MSec}
    (h : applyRemoteSec typ pc i m = .ok pc') (hk : m.kind.isMedia = false) : pc'.transceivers = pc.transceivers := by
  unfold applyRemoteSec at h
  simp only [hk, Bool.false_eq_true, if_false] at h
  unfold applyRemoteApp at h
  split at h
  · cases h
  · cases h
    rw [modTransport_transceivers]
    exact (ensureSctp_frame (pc.seeMid m.mid)).1

/-! ## regime 1: the description's mids are new to this connection -/

/-- no transceiver owns a mid of `ms` yet; every transceiver that has a mid has the m-line index of a section
`all[j]`, `j < k`, with that mid (and nothing else has an m-line index) -/
structure FreshFor (all : List MSec) (k : Nat) (ms : List MSec) (ts : List Transceiver) : Prop where
  unique : UniqueMid ts
  fresh : ∀ t ∈ ts, ∀ m ∈ ms, t.mid ≠ some m.mid
  lines : ∀ t ∈ ts, (t.mid = none ∧ t.mline = none) ∨ ∃ j m, j < k ∧ all[j]? = some m ∧ t.mid = some m.mid ∧ t.mline = some j

theorem freshFor_step {all : List MSec} {typ : DType} {pc pc' : Pc} {i : Nat} {m : MSec} {ms : List MSec}
    (hI : FreshFor all i (m :: ms) pc.transceivers) (hnd : m.mid ∉ ms.map (·.mid)) (hall : all[i]? = some m)
    (h : applyRemoteSec typ pc i m = .ok pc') :
    FreshFor all (i + 1) ms pc'.transceivers ∧
    (∀ x ∈ pc.transceivers, x.mid ≠ none → x ∈ pc'.transceivers) ∧
    (m.kind.isMedia = true → ∃ t' ∈ pc'.transceivers, Negotiated typ m t' ∧ t'.mline = some i) := by
  have weaken : FreshFor all (i + 1) ms pc.transceivers := by
    refine ⟨hI.unique, fun t ht m2 hm2 => hI.fresh t ht m2 (by simp [hm2]), ?_⟩
    intro t ht
    rcases hI.lines t ht with h1 | ⟨j, mj, hj, h2, h3, h4⟩
    · exact .inl h1
    · exact .inr ⟨j, mj, by omega, h2, h3, h4⟩
  cases hk : m.kind.isMedia
  · have := applyRemoteSec_app h hk
    rw [this]
    exact ⟨weaken, fun x hx _ => hx, fun hf => by cases hf⟩
  · obtain ⟨ts0, t, t', hts0, hfind, hneg, hupd⟩ := applyRemoteSec_media h hk
    have hmatch : matchesSec m t = true := by simpa using List.find?_some hfind
    have htmem : t ∈ ts0 := List.mem_of_find?_eq_some hfind
    -- elements of ts0
    have hts0mem : ∀ x ∈ ts0, x ∈ pc.transceivers ∨ (x.mid = none ∧ x.mline = none) := by
      intro x hx
      rcases hts0 with rfl | ⟨_, n, rfl, h1, h2, _⟩
      · exact .inl hx
      · rcases List.mem_append.mp hx with hx | hx
        · exact .inl hx
        · simp at hx; subst hx; exact .inr ⟨h1, h2⟩
    have holdsub : ∀ x ∈ pc.transceivers, x ∈ ts0 := by
      intro x hx
      rcases hts0 with rfl | ⟨_, n, rfl, _⟩
      · exact hx
      · simp [hx]
    -- the matched transceiver has no mid yet
    have htnone : t.mid = none := by
      rcases hts0mem t htmem with hold | hnew
      · have := hI.fresh t hold m (by simp)
        simp only [matchesSec, Bool.and_eq_true, beq_iff_eq, Bool.or_eq_true] at hmatch
        rcases hmatch.2 with h1 | h1
        · cases ht : t.mid <;> simp_all
        · exact absurd h1 this
      · exact hnew.1
    obtain ⟨hN, _, _, _, hline, _, _, _⟩ := negotiateTransceiver_spec hneg hmatch
    have hline' := hline htnone
    -- transceivers that own a mid are not touched
    have hkeep : ∀ x ∈ pc.transceivers, x.mid ≠ none → x ∈ pc'.transceivers := by
      intro x hx hxm
      refine updFirst_keeps hupd x (holdsub x hx) ?_
      have := hI.fresh x hx m (by simp)
      simp only [matchesSec]
      cases hxmid : x.mid with
      | none => exact absurd hxmid hxm
      | some v =>
        have hv : v ≠ m.mid := by intro hv; rw [hxmid, hv] at this; exact this rfl
        simp [hv]
    have hnewmem : ∀ y ∈ pc'.transceivers, y = t' ∨ y ∈ pc.transceivers ∨ (y.mid = none ∧ y.mline = none) := by
      intro y hy
      rcases updFirst_mem' hupd y hy with h1 | ⟨_, _, _, rfl⟩
      · exact .inr (hts0mem y h1)
      · exact .inl rfl
    have ht'mem : t' ∈ pc'.transceivers := by
      obtain ⟨x, hx, hfx⟩ := updFirst_has hupd
      exact hfx
    refine ⟨⟨?_, ?_, ?_⟩, hkeep, fun _ => ⟨t', ht'mem, hN, hline'⟩⟩
    · -- UniqueMid
      have hmnone : ∀ x ∈ ts0, matchesSec m x = true → x.mid = none := by
        intro x hx hmx
        rcases hts0mem x hx with hold | hnew
        · have := hI.fresh x hold m (by simp)
          simp only [matchesSec, Bool.and_eq_true, beq_iff_eq, Bool.or_eq_true] at hmx
          rcases hmx.2 with h1 | h1
          · cases hxm : x.mid <;> simp_all
          · exact absurd h1 this
        · exact hnew.1
      have hfreshall : ∀ y ∈ ts0, y.mid ≠ some m.mid := by
        intro y hy
        rcases hts0mem y hy with hold | hnew
        · exact hI.fresh y hold m (by simp)
        · rw [hnew.1]; simp
      have hu0 : ts0.Pairwise MidDiff := by
        rcases hts0 with rfl | ⟨_, n, rfl, h1, _, _⟩
        · exact hI.unique
        · refine List.pairwise_append.mpr ⟨hI.unique, by simp, ?_⟩
          intro a _ b hb
          simp at hb; subst hb
          intro hne; rw [h1]; exact hne
      refine updFirst_pairwise hupd hu0 ?_ ?_
      · intro x hx hpx y hy _ _
        rw [hN.mid]; exact (hfreshall y hy).symm
      · intro x hx hpx y hy _ hne
        rw [hN.mid]; exact hfreshall y hy
    · -- still fresh for the remaining sections
      intro y hy m2 hm2
      rcases hnewmem y hy with rfl | ho | hn
      · rw [hN.mid]
        intro hh
        have : m.mid = m2.mid := Option.some.inj hh
        exact hnd (by rw [this]; exact List.mem_map_of_mem hm2)
      · exact hI.fresh y ho m2 (by simp [hm2])
      · rw [hn.1]; simp
    · -- m-line bookkeeping
      intro y hy
      rcases hnewmem y hy with rfl | ho | hn
      · exact .inr ⟨i, m, by omega, hall, hN.mid, hline'⟩
      · rcases hI.lines y ho with h1 | ⟨j, mj, hj, h2, h3, h4⟩
        · exact .inl h1
        · exact .inr ⟨j, mj, by omega, h2, h3, h4⟩
      · exact .inl hn

/-- the whole "apply description" loop in regime 1 -/
theorem freshFor_fold {all : List MSec} {typ : DType} : ∀ (ms : List MSec) (pc pc' : Pc) (i : Nat),
    FreshFor all i ms pc.transceivers → (ms.map (·.mid)).Nodup → (∀ j m, ms[j]? = some m → all[i + j]? = some m) →
    applyRemote typ pc ms i = .ok pc' →
    FreshFor all (i + ms.length) [] pc'.transceivers ∧
    (∀ x ∈ pc.transceivers, x.mid ≠ none → x ∈ pc'.transceivers) ∧
    (∀ j m, ms[j]? = some m → m.kind.isMedia = true → ∃ t' ∈ pc'.transceivers, Negotiated typ m t' ∧ t'.mline = some (i + j)) := by
  intro ms
  induction ms with
  | nil =>
    intro pc pc' i hI _ _ h
    simp [applyRemote] at h; subst h
    exact ⟨by simpa using hI, fun x hx _ => hx, fun j m hj => by simp at hj⟩
  | cons m ms ih =>
    intro pc pc' i hI hnd hall h
    simp only [applyRemote] at h
    split at h
    · rename_i pc1 h1
      simp only [List.map_cons, List.nodup_cons] at hnd
      obtain ⟨hI1, hkeep1, hneg1⟩ := freshFor_step hI hnd.1 (by simpa using hall 0 m (by simp)) h1
      obtain ⟨hI2, hkeep2, hneg2⟩ := ih pc1 pc' (i + 1) hI1 hnd.2
        (fun j mj hj => by have := hall (j + 1) mj (by simpa using hj); rw [← this]; congr 1; omega) h
      refine ⟨?_, ?_, ?_⟩
      · have : i + (m :: ms).length = i + 1 + ms.length := by simp; omega
        rw [this]; exact hI2
      · intro x hx hxm
        exact hkeep2 x (hkeep1 x hx hxm) hxm
      · intro j mj hj hk
        cases j with
        | zero =>
          simp at hj; subst hj
          obtain ⟨t', ht', hN, hl⟩ := hneg1 hk
          exact ⟨t', hkeep2 t' ht' (by rw [hN.mid]; simp), hN, by simpa using hl⟩
        | succ n =>
          obtain ⟨t', ht', hN, hl⟩ := hneg2 n mj (by simpa using hj) hk
          exact ⟨t', ht', hN, by rw [hl]; congr 1; omega⟩
    · rename_i e hne
      cases e <;> simp_all

/-! ## regime 2: every section's mid is already owned -/

/-- every transceiver has a mid, mids are unique, every media section of `ms` is owned by a transceiver of its kind -/
structure OwnedBy (ms : List MSec) (ts : List Transceiver) : Prop where
  unique : UniqueMid ts
  allMid : ∀ t ∈ ts, t.mid ≠ none
  owned : ∀ m ∈ ms, m.kind.isMedia = true → ∃ t ∈ ts, t.mid = some m.mid ∧ t.kind = m.kind

theorem ownedBy_step {typ : DType} {pc pc' : Pc} {i : Nat} {m : MSec} {ms : List MSec}
    (hI : OwnedBy (m :: ms) pc.transceivers) (hnd : m.mid ∉ ms.map (·.mid))
    (h : applyRemoteSec typ pc i m = .ok pc') :
    OwnedBy ms pc'.transceivers ∧
    (∀ x ∈ pc.transceivers, x.mid ≠ some m.mid → x ∈ pc'.transceivers) ∧
    (m.kind.isMedia = true → ∃ t ∈ pc.transceivers, ∃ t' ∈ pc'.transceivers, t.mid = some m.mid ∧ Negotiated typ m t' ∧
        t'.direction = t.direction ∧ (typ = .answer → t'.offerDirection = t.offerDirection)) := by
  have weaken : OwnedBy ms pc.transceivers :=
    ⟨hI.unique, hI.allMid, fun m2 hm2 hk2 => hI.owned m2 (by simp [hm2]) hk2⟩
  cases hk : m.kind.isMedia
  · have := applyRemoteSec_app h hk
    rw [this]
    exact ⟨weaken, fun x hx _ => hx, fun hf => by cases hf⟩
  · obtain ⟨ts0, t, t', hts0, hfind, hneg, hupd⟩ := applyRemoteSec_media h hk
    obtain ⟨ow, howm, howmid, howk⟩ := hI.owned m (by simp) hk
    have howmatch : matchesSec m ow = true := by simp [matchesSec, howk, howmid]
    -- nothing is created: the owner matches
    have hts0' : ts0 = pc.transceivers := by
      rcases hts0 with h1 | ⟨hany, _⟩
      · exact h1
      · have : pc.transceivers.any (matchesSec m) = true := List.any_eq_true.mpr ⟨ow, howm, howmatch⟩
        rw [this] at hany; cases hany
    subst hts0'
    have hmatch : matchesSec m t = true := by simpa using List.find?_some hfind
    have htmem : t ∈ pc.transceivers := List.mem_of_find?_eq_some hfind
    have htmid : t.mid = some m.mid := by
      simp only [matchesSec, Bool.and_eq_true, beq_iff_eq, Bool.or_eq_true] at hmatch
      rcases hmatch.2 with h1 | h1
      · exact absurd (by cases ht : t.mid <;> simp_all) (hI.allMid t htmem)
      · exact h1
    obtain ⟨hN, hdir, _, _, _, _, _, hoff⟩ := negotiateTransceiver_spec hneg hmatch
    have hkeep : ∀ x ∈ pc.transceivers, x.mid ≠ some m.mid → x ∈ pc'.transceivers := by
      intro x hx hxm
      refine updFirst_keeps hupd x hx ?_
      have hx2 := hI.allMid x hx
      simp only [matchesSec]
      cases hxmid : x.mid with
      | none => exact absurd hxmid hx2
      | some v =>
        have hv : v ≠ m.mid := by intro hv; rw [hxmid, hv] at hxm; exact hxm rfl
        simp [hv]
    have hnewmem : ∀ y ∈ pc'.transceivers, y = t' ∨ y ∈ pc.transceivers := by
      intro y hy
      rcases updFirst_mem' hupd y hy with h1 | ⟨_, _, _, rfl⟩
      · exact .inr h1
      · exact .inl rfl
    have ht'mem : t' ∈ pc'.transceivers := (updFirst_has hupd).choose_spec.2
    refine ⟨⟨?_, ?_, ?_⟩, hkeep, fun _ => ⟨t, htmem, t', ht'mem, htmid, hN, hdir, hoff⟩⟩
    · have hmmid : ∀ x ∈ pc.transceivers, matchesSec m x = true → x.mid = some m.mid := by
        intro x hx hmx
        simp only [matchesSec, Bool.and_eq_true, beq_iff_eq, Bool.or_eq_true] at hmx
        rcases hmx.2 with h1 | h1
        · exact absurd (by cases hxm : x.mid <;> simp_all) (hI.allMid x hx)
        · exact h1
      refine updFirst_pairwise hupd hI.unique ?_ ?_
      · intro x hx hpx y hy hR hne
        rw [hN.mid, ← hmmid x hx hpx]
        exact hR (by rw [hmmid x hx hpx]; simp)
      · intro x hx hpx y hy hR hne
        rw [hN.mid, ← hmmid x hx hpx]
        exact hR hne
    · intro y hy
      rcases hnewmem y hy with rfl | ho
      · rw [hN.mid]; simp
      · exact hI.allMid y ho
    · intro m2 hm2 hk2
      obtain ⟨o2, ho2, ho2mid, ho2k⟩ := hI.owned m2 (by simp [hm2]) hk2
      refine ⟨o2, hkeep o2 ho2 ?_, ho2mid, ho2k⟩
      rw [ho2mid]
      intro hh
      exact hnd (by rw [Option.some.inj hh.symm]; exact List.mem_map_of_mem hm2)

/-- the whole "apply description" loop in regime 2 -/
theorem ownedBy_fold {typ : DType} : ∀ (ms : List MSec) (pc pc' : Pc) (i : Nat),
    OwnedBy ms pc.transceivers → (ms.map (·.mid)).Nodup → applyRemote typ pc ms i = .ok pc' →
    UniqueMid pc'.transceivers ∧
    (∀ x ∈ pc.transceivers, (∀ m ∈ ms, x.mid ≠ some m.mid) → x ∈ pc'.transceivers) ∧
    (∀ m ∈ ms, m.kind.isMedia = true → ∃ t' ∈ pc'.transceivers, Negotiated typ m t') := by
  intro ms
  induction ms with
  | nil =>
    intro pc pc' i hI _ h
    simp [applyRemote] at h; subst h
    exact ⟨hI.unique, fun x hx _ => hx, fun m hm => by cases hm⟩
  | cons m ms ih =>
    intro pc pc' i hI hnd h
    simp only [applyRemote] at h
    split at h
    · rename_i pc1 h1
      simp only [List.map_cons, List.nodup_cons] at hnd
      obtain ⟨hI1, hkeep1, hneg1⟩ := ownedBy_step hI hnd.1 h1
      obtain ⟨hu2, hkeep2, hneg2⟩ := ih pc1 pc' (i + 1) hI1 hnd.2 h
      refine ⟨hu2, ?_, ?_⟩
      · intro x hx hxm
        exact hkeep2 x (hkeep1 x hx (hxm m (by simp))) (fun m2 hm2 => hxm m2 (by simp [hm2]))
      · intro m2 hm2 hk
        rcases List.mem_cons.mp hm2 with rfl | hm2
        · obtain ⟨_, _, t', ht', _, hN, _⟩ := hneg1 hk
          refine ⟨t', hkeep2 t' ht' ?_, hN⟩
          intro m3 hm3
          rw [hN.mid]
          intro hh
          exact hnd.1 (by rw [Option.some.inj hh]; exact List.mem_map_of_mem hm3)
        · exact hneg2 m2 hm2 hk
    · rename_i e hne
      cases e <;> simp_all

end Aiortc.Model.Negotiate
