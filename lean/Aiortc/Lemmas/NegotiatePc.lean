import Aiortc.Model.Jsep.Negotiate
import Aiortc.Lemmas.NegotiateCodecs
/-!
Helper lemmas for C03, part 2: the four calls on the abstract peer connection — frame facts (what a call leaves
alone), what `setLocalDescription` / `setRemoteDescription` / `createOffer` / `createAnswer` establish.
-/
namespace Aiortc.Model.Negotiate
open Aiortc (Outcome)
open Aiortc.Model.Jsep (Sig)

/-! ## updFirst -/

/-- elements of the updated list: old elements, or the image of an element that satisfied `p` -/
theorem updFirst_mem' {α} {p : α → Bool} {f : α → α} : ∀ {l l' : List α}, updFirst p f l = some l' →
    ∀ y ∈ l', y ∈ l ∨ ∃ x ∈ l, p x = true ∧ y = f x := by
  intro l
  induction l with
  | nil => intro l' h; simp [updFirst] at h
  | cons a as ih =>
    intro l' h y hy
    simp only [updFirst] at h
    split at h
    · rename_i hp
      cases h
      rcases List.mem_cons.mp hy with rfl | hy
      · exact .inr ⟨a, by simp, hp, rfl⟩
      · exact .inl (by simp [hy])
    · cases hr : updFirst p f as with
      | none => simp [hr] at h
      | some r =>
        simp [hr] at h; subst h
        rcases List.mem_cons.mp hy with rfl | hy
        · exact .inl (by simp)
        · rcases ih hr y hy with h1 | ⟨x, hx, hpx, rfl⟩
          · exact .inl (by simp [h1])
          · exact .inr ⟨x, by simp [hx], hpx, rfl⟩

/-- elements that do not satisfy `p` survive -/
theorem updFirst_keeps {α} {p : α → Bool} {f : α → α} : ∀ {l l' : List α}, updFirst p f l = some l' →
    ∀ x ∈ l, p x = false → x ∈ l' := by
  intro l
  induction l with
  | nil => intro l' h; simp [updFirst] at h
  | cons a as ih =>
    intro l' h x hx hpx
    simp only [updFirst] at h
    split at h
    · rename_i hp
      cases h
      rcases List.mem_cons.mp hx with rfl | hx
      · rw [hp] at hpx; cases hpx
      · simp [hx]
    · cases hr : updFirst p f as with
      | none => simp [hr] at h
      | some r =>
        simp [hr] at h; subst h
        rcases List.mem_cons.mp hx with rfl | hx
        · simp
        · simp [ih hr x hx hpx]

/-- the image of the first match is in the result -/
theorem updFirst_has {α} {p : α → Bool} {f : α → α} : ∀ {l l' : List α}, updFirst p f l = some l' →
    ∃ x, l.find? p = some x ∧ f x ∈ l' := by
  intro l
  induction l with
  | nil => intro l' h; simp [updFirst] at h
  | cons a as ih =>
    intro l' h
    simp only [updFirst] at h
    split at h
    · rename_i hp
      cases h
      exact ⟨a, by simp [hp], by simp⟩
    · rename_i hp
      cases hr : updFirst p f as with
      | none => simp [hr] at h
      | some r =>
        simp [hr] at h; subst h
        obtain ⟨x, hx, hfx⟩ := ih hr
        exact ⟨x, by simp [List.find?, hp, hx], by simp [hfx]⟩

theorem updFirst_isSome {α} {p : α → Bool} {f : α → α} : ∀ {l : List α} {x : α}, l.find? p = some x →
    ∃ l', updFirst p f l = some l' := by
  intro l
  induction l with
  | nil => intro x h; simp at h
  | cons a as ih =>
    intro x h
    simp only [updFirst]
    by_cases hp : p a = true
    · simp [hp]
    · simp only [hp]
      simp only [List.find?, hp] at h
      obtain ⟨l', hl'⟩ := ih h
      exact ⟨a :: l', by simp [hl']⟩

/-- updating with a function that fixes every matching element changes nothing -/
theorem updFirst_id {α} {p : α → Bool} {f : α → α} : ∀ {l l' : List α}, updFirst p f l = some l' →
    (∀ x ∈ l, p x = true → f x = x) → l' = l := by
  intro l
  induction l with
  | nil => intro l' h; simp [updFirst] at h
  | cons a as ih =>
    intro l' h hf
    simp only [updFirst] at h
    split at h
    · rename_i hp
      cases h
      rw [hf a (by simp) hp]
    · cases hr : updFirst p f as with
      | none => simp [hr] at h
      | some r =>
        simp [hr] at h; subst h
        rw [ih hr (fun x hx hpx => hf x (by simp [hx]) hpx)]

/-- pointwise relation of two lists of equal length -/
inductive Rel2 {α β} (R : α → β → Prop) : List α → List β → Prop where
  | nil : Rel2 R [] []
  | cons {a b l1 l2} : R a b → Rel2 R l1 l2 → Rel2 R (a :: l1) (b :: l2)

theorem Rel2.length {α β} {R : α → β → Prop} {l1 : List α} {l2 : List β} (h : Rel2 R l1 l2) : l1.length = l2.length := by
  induction h with
  | nil => rfl
  | cons _ _ ih => simp [ih]

theorem Rel2.get {α β} {R : α → β → Prop} {l1 : List α} {l2 : List β} (h : Rel2 R l1 l2) :
    ∀ (i : Nat) (a : α) (b : β), l1[i]? = some a → l2[i]? = some b → R a b := by
  induction h with
  | nil => intro i a b h1; simp at h1
  | cons hr _ ih =>
    intro i a b h1 h2
    cases i with
    | zero => simp at h1 h2; subst h1; subst h2; exact hr
    | succ n => simp at h1 h2; exact ih n a b h1 h2

theorem Rel2.get_left {α β} {R : α → β → Prop} {l1 : List α} {l2 : List β} (h : Rel2 R l1 l2) :
    ∀ (i : Nat) (a : α), l1[i]? = some a → ∃ b, l2[i]? = some b ∧ R a b := by
  induction h with
  | nil => intro i a h1; simp at h1
  | cons hr _ ih =>
    intro i a h1
    cases i with
    | zero => simp at h1; subst h1; exact ⟨_, by simp, hr⟩
    | succ n => simp at h1; simpa using ih n a h1

theorem Rel2.get_right {α β} {R : α → β → Prop} {l1 : List α} {l2 : List β} (h : Rel2 R l1 l2) :
    ∀ (i : Nat) (b : β), l2[i]? = some b → ∃ a, l1[i]? = some a ∧ R a b := by
  induction h with
  | nil => intro i b h1; simp at h1
  | cons hr _ ih =>
    intro i b h1
    cases i with
    | zero => simp at h1; subst h1; exact ⟨_, by simp, hr⟩
    | succ n => simp at h1; simpa using ih n b h1

theorem Rel2.forall_right {α β} {R : α → β → Prop} {P : β → Prop} {l1 : List α} {l2 : List β} (h : Rel2 R l1 l2)
    (hp : ∀ a b, R a b → P b) : ∀ b ∈ l2, P b := by
  induction h with
  | nil => intro b hb; cases hb
  | cons hr _ ih =>
    intro b hb
    rcases List.mem_cons.mp hb with rfl | hb
    · exact hp _ _ hr
    · exact ih b hb

/-! ## frame facts: signalling state and description slots -/

/-- the part of the state that only `setLocal` / `setRemote` themselves write -/
def Pc.slots (pc : Pc) : Sig × Option Desc × Option Desc × Option Desc × Option Desc :=
  (pc.sig, pc.pendingLocal, pc.currentLocal, pc.pendingRemote, pc.currentRemote)

theorem assignMids_slots : ∀ (ms : List MSec) (pc pc' : Pc) (i : Nat), assignMids pc ms i = .ok pc' → pc'.slots = pc.slots := by
  intro ms
  induction ms with
  | nil => intro pc pc' i h; simp [assignMids] at h; rw [h]
  | cons m ms ih =>
    intro pc pc' i h
    simp only [assignMids] at h
    split at h
    · split at h
      · cases h
      · exact (ih _ _ _ h).trans rfl
    · split at h
      · cases h
      · exact (ih _ _ _ h).trans rfl

theorem localRoles_slots : ∀ (ms : List MSec) (pc pc' : Pc) (i : Nat), localRoles pc ms i = .ok pc' → pc'.slots = pc.slots := by
  intro ms
  induction ms with
  | nil => intro pc pc' i h; simp [localRoles] at h; rw [h]
  | cons m ms ih =>
    intro pc pc' i h
    simp only [localRoles] at h
    split at h
    · split at h
      · cases h
      · exact (ih _ _ _ h).trans rfl
    · split at h
      · cases h
      · exact (ih _ _ _ h).trans rfl

/-- `refreshTransports` only rewrites the `transport` field, section by section -/
theorem refresh_forall₂ : ∀ (ms : List MSec) (pc : Pc) (i : Nat) (r : List MSec), refreshTransports pc ms i = .ok r →
    Rel2 (fun m m' => m' = { m with transport := m'.transport }) ms r := by
  intro ms
  induction ms with
  | nil => intro pc i r h; simp [refreshTransports] at h; subst h; exact .nil
  | cons m ms ih =>
    intro pc i r h
    simp only [refreshTransports] at h
    split at h
    · split at h
      · cases h
      · split at h
        · rename_i r' hr'
          cases h
          exact .cons rfl (ih _ _ _ hr')
        · rename_i e hne
          cases e <;> simp_all
    · split at h
      · cases h
      · split at h
        · rename_i r' hr'
          cases h
          exact .cons rfl (ih _ _ _ hr')
        · rename_i e hne
          cases e <;> simp_all

theorem refresh_keys {ms r : List MSec} (h : Rel2 (fun m m' => m' = { m with transport := m'.transport }) ms r) :
    r.map (fun m => (m.kind, m.mid)) = ms.map (fun m => (m.kind, m.mid)) := by
  induction h with
  | nil => rfl
  | cons h1 _ ih => rw [List.map_cons, List.map_cons, ih, h1]

theorem refresh_mids {ms r : List MSec} (h : Rel2 (fun m m' => m' = { m with transport := m'.transport }) ms r) :
    r.map (·.mid) = ms.map (·.mid) := by
  induction h with
  | nil => rfl
  | cons h1 _ ih => rw [List.map_cons, List.map_cons, ih, h1]

theorem refresh_setup {ms r : List MSec} (h : Rel2 (fun m m' => m' = { m with transport := m'.transport }) ms r) :
    ∀ m' ∈ r, ∃ m ∈ ms, m'.setup = m.setup := by
  induction h with
  | nil => intro m' hm'; cases hm'
  | @cons a b _ _ h1 _ ih =>
    intro m' hm'
    rcases List.mem_cons.mp hm' with rfl | hm'
    · exact ⟨a, by simp, by rw [h1]⟩
    · obtain ⟨m, hm, he⟩ := ih m' hm'
      exact ⟨m, by simp [hm], he⟩

/-! ## __validate_description -/

/-- a validated answer has definite roles and mirrors the pending offer -/
theorem validate_answer {pc : Pc} {d : Desc} {isLocal : Bool} (h : pc.validate d isLocal = .ok ()) (ht : d.type = .answer) :
    (∀ m ∈ d.media, m.setup ≠ .auto) ∧
    ∃ offer, (if isLocal then pc.remoteDesc else pc.localDesc) = some offer ∧ keysOf d = keysOf offer := by
  unfold Pc.validate at h
  split at h
  · cases h
  · split at h
    · cases h
    · rename_i hany
      simp only [ht, beq_self_eq_true, Bool.true_and, Bool.not_eq_true] at hany
      split at h
      · split at h
        · cases h
        · rename_i offer ho
          split at h
          · cases h
          · rename_i hk
            refine ⟨?_, offer, ho, by simpa using hk⟩
            intro m hm hs
            have : d.media.any (fun m => m.setup == .auto) = true := List.any_eq_true.mpr ⟨m, hm, by simp [hs]⟩
            rw [this] at hany; cases hany
      · rename_i hne; simp [ht] at hne

/-! ## setLocalDescription -/

/-- What a successful `setLocalDescription(offer)` does to the signalling state and the description slots. -/
theorem setLocal_offer_spec {pc pc' : Pc} {d : Desc} (ht : d.type = .offer) (h : pc.setLocal d = .ok pc') :
    pc.validate d true = .ok () ∧
    ∃ media, Rel2 (fun m m' => m' = { m with transport := m'.transport }) d.media media ∧
      pc'.pendingRemote = pc.pendingRemote ∧ pc'.currentRemote = pc.currentRemote ∧
      pc'.sig = .haveLocalOffer ∧ pc'.pendingLocal = some { d with media } := by
  unfold Pc.setLocal at h
  simp only [ht] at h
  split at h
  · cases h
  · split at h
    · rename_i hv
      refine ⟨hv, ?_⟩
      split at h
      · rename_i pc2 h2
        have s2 := assignMids_slots _ _ _ _ h2
        simp at h
        split at h
        · rename_i media hm
          have hf := refresh_forall₂ _ _ _ _ hm
          cases h
          simp only [Pc.slots, Prod.mk.injEq] at s2
          exact ⟨media, hf, s2.2.2.2.1, s2.2.2.2.2, s2.1, by simp [ht]⟩
        · cases h
        · cases h
        · cases h
      · rename_i e hne
        cases e <;> simp_all
    · cases h
    · cases h
    · cases h

/-- What a successful `setLocalDescription(answer)` does to the signalling state and the description slots. -/
theorem setLocal_answer_spec {pc pc' : Pc} {d : Desc} (ht : d.type = .answer) (h : pc.setLocal d = .ok pc') :
    pc.validate d true = .ok () ∧
    ∃ media, Rel2 (fun m m' => m' = { m with transport := m'.transport }) d.media media ∧
      pc'.pendingRemote = pc.pendingRemote ∧ pc'.currentRemote = pc.currentRemote ∧
      pc'.sig = .stable ∧ pc'.pendingLocal = none ∧ pc'.currentLocal = some { d with media } := by
  unfold Pc.setLocal at h
  simp only [ht] at h
  split at h
  · cases h
  · split at h
    · rename_i hv
      refine ⟨hv, ?_⟩
      split at h
      · rename_i pc2 h2
        have s2 := assignMids_slots _ _ _ _ h2
        simp at h
        split at h
        · rename_i pc4 h4
          have s4 := localRoles_slots _ _ _ _ h4
          split at h
          · rename_i media hm
            have hf := refresh_forall₂ _ _ _ _ hm
            cases h
            rw [s2] at s4
            simp only [Pc.slots, Prod.mk.injEq] at s4
            exact ⟨media, hf, s4.2.2.2.1, s4.2.2.2.2, s4.1, rfl, by simp [ht]⟩
          · cases h
          · cases h
          · cases h
        · rename_i e hne
          cases e <;> simp_all
      · rename_i e hne
        cases e <;> simp_all
    · cases h
    · cases h
    · cases h

/-! ## setRemoteDescription -/

theorem setRemoteWith_spec {step : Pc → Nat → List String → Pc} {pc pc' : Pc} {d : Desc} (h : pc.setRemoteWith step d = .ok pc') :
    pc.validate d false = .ok () ∧
    ∃ pc1 pc2, applyRemote d.type pc d.media 0 = .ok pc1 ∧ pc1.applyBundleWith step d.bundle = .ok pc2 ∧
      (d.type = .offer → pc' = { pc2 with sig := .haveRemoteOffer, pendingRemote := some d }) ∧
      (d.type = .answer → pc' = { pc2 with sig := .stable, currentRemote := some d, pendingRemote := none }) := by
  unfold Pc.setRemoteWith at h
  split at h
  · rename_i hv
    refine ⟨hv, ?_⟩
    split at h
    · rename_i pc1 h1
      split at h
      · rename_i pc2 h2
        refine ⟨pc1, pc2, h1, h2, ?_, ?_⟩
        · intro ht; simp [ht] at h; exact h.symm
        · intro ht; simp [ht] at h; exact h.symm
      · rename_i e hne
        cases e <;> simp_all
    · rename_i e hne
      cases e <;> simp_all
  · cases h
  · cases h
  · cases h

/-! ## createOffer / createAnswer: type, BUNDLE group, roles -/

theorem offerFinish_shape {pc pc' : Pc} {media : List MSec} {mids : List String} {d : Desc}
    (h : pc.offerFinish media mids = .ok (pc', d)) : d.type = .offer ∧ d.bundle = d.media.map (·.mid) := by
  unfold Pc.offerFinish at h
  split at h
  · split at h
    · split at h
      · cases h; exact ⟨rfl, rfl⟩
      · cases h
      · cases h
      · cases h
    · cases h; exact ⟨rfl, rfl⟩
  · cases h; exact ⟨rfl, rfl⟩

theorem createOffer_shape {pc pc' : Pc} {d : Desc} (h : pc.createOffer = .ok (pc', d)) :
    d.type = .offer ∧ d.bundle = d.media.map (·.mid) := by
  unfold Pc.createOffer at h
  split at h
  · cases h
  · split at h
    · split at h
      · split at h
        · exact offerFinish_shape h
        · cases h
        · cases h
        · cases h
      · cases h
      · cases h
      · cases h
    · cases h
    · cases h
    · cases h

theorem answerRole_definite (r : Role) : answerRole r ≠ .auto := by cases r <;> simp [answerRole]

theorem answerSecs_spec (pc : Pc) : ∀ (ms r : List MSec), answerSecs pc ms = .ok r →
    Rel2 (fun m s => s.setup ≠ .auto ∧
      (m.kind.isMedia = true → ∃ t od, pc.byMid m.mid = some t ∧ t.offerDirection = some od ∧ s.mid = m.mid ∧ s.kind = t.kind ∧
          s.direction = andDir t.direction od ∧ s.codecs = t.codecs ∧ s.exts = t.exts) ∧
      (m.kind.isMedia = false → s.kind = .application)) ms r := by
  intro ms
  induction ms with
  | nil => intro r h; simp [answerSecs] at h; subst h; exact .nil
  | cons m ms ih =>
    intro r h
    simp only [answerSecs] at h
    split at h
    · rename_i hk
      split at h
      · cases h
      · rename_i t ht
        split at h
        · rename_i od mid hod hmid
          split at h
          · rename_i r' hr'
            cases h
            have hm : t.mid = some m.mid := by
              have := List.find?_some ht
              simpa using this
            have hmid' : mid = m.mid := by rw [hmid] at hm; exact Option.some.inj hm
            refine .cons ⟨answerRole_definite _, ?_, ?_⟩ (ih _ hr')
            · intro _
              exact ⟨t, od, ht, hod, by simp [Pc.secForTransceiver, hmid'], rfl, rfl, rfl, rfl⟩
            · intro hk'; rw [hk] at hk'; cases hk'
          · rename_i e hne
            cases e <;> simp_all
        · cases h
    · rename_i hk
      split at h
      · cases h
      · split at h
        · cases h
        · split at h
          · rename_i r' hr'
            cases h
            refine .cons ⟨answerRole_definite _, ?_, ?_⟩ (ih _ hr')
            · intro hk'; rw [hk'] at hk; simp at hk
            · intro _; rfl
          · rename_i e hne
            cases e <;> simp_all


theorem createAnswer_spec {pc : Pc} {d : Desc} (h : pc.createAnswer = .ok d) :
    d.type = .answer ∧ d.bundle = d.media.map (·.mid) ∧
    ∃ rd, pc.remoteDesc = some rd ∧
      Rel2 (fun m s => s.setup ≠ .auto ∧
        (m.kind.isMedia = true → ∃ t od, pc.byMid m.mid = some t ∧ t.offerDirection = some od ∧ s.mid = m.mid ∧ s.kind = t.kind ∧
            s.direction = andDir t.direction od ∧ s.codecs = t.codecs ∧ s.exts = t.exts) ∧
        (m.kind.isMedia = false → s.kind = .application)) rd.media d.media := by
  unfold Pc.createAnswer at h
  split at h
  · cases h
  · split at h
    · cases h
    · rename_i rd hrd
      split at h
      · rename_i media hm
        cases h
        exact ⟨rfl, rfl, rd, hrd, answerSecs_spec pc _ _ hm⟩
      · cases h
      · cases h
      · cases h

/-- the six calls of a successful exchange, with the facts `negotiateWith` threads through them -/
theorem negotiateWith_steps {step : Pc → Nat → List String → Pc} {o a : Pc} {ex : Exchange}
    (h : negotiateWith step o a = .ok ex) :
    ∃ o1 offer0 answer0,
      o.createOffer = .ok (o1, offer0) ∧ o1.setLocal offer0 = .ok ex.offererMid ∧ ex.offererMid.localDesc = some ex.offer ∧
      a.setRemoteWith step ex.offer = .ok ex.answererMid ∧ ex.answererMid.createAnswer = .ok answer0 ∧
      ex.answererMid.setLocal answer0 = .ok ex.answerer ∧ ex.answerer.localDesc = some ex.answer ∧
      ex.offererMid.setRemoteWith step ex.answer = .ok ex.offerer := by
  unfold negotiateWith at h
  split at h
  · rename_i o1 offer0 h1
    split at h
    · rename_i o2 h2
      split at h
      · cases h
      · rename_i offer h3
        split at h
        · rename_i a1 h4
          split at h
          · rename_i answer0 h5
            split at h
            · rename_i a2 h6
              split at h
              · cases h
              · rename_i answer h7
                split at h
                · rename_i o3 h8
                  cases h
                  exact ⟨o1, offer0, answer0, h1, h2, h3, h4, h5, h6, h7, h8⟩
                · cases h
                · cases h
                · cases h
            · cases h
            · cases h
            · cases h
          · cases h
          · cases h
          · cases h
        · cases h
        · cases h
        · cases h
    · cases h
    · cases h
    · cases h
  · cases h
  · cases h
  · cases h

theorem bundleOld_ne (pc : Pc) (p : Nat) (slaves : List String) : ∀ y ∈ bundleOld pc p slaves, y ≠ p := by
  intro y hy
  simp only [bundleOld, List.mem_append, List.mem_map, List.mem_filter] at hy
  rcases hy with ⟨t, ⟨_, ht⟩, rfl⟩ | hy
  · simp at ht; exact ht.2
  · split at hy
    · split at hy
      · rename_i hm
        simp at hy hm
        rw [hy]; exact hm.2
      · cases hy
    · cases hy

/-- Everything `negotiateWith` threads through the six calls, in one place. -/
theorem exchange_facts {o a : Pc} {ex : Exchange} (h : negotiate o a = .ok ex) :
    ∃ answer0 amedia,
      ex.offer.type = .offer ∧ ex.offer.bundle = ex.offer.media.map (·.mid) ∧
      a.setRemoteWith bundleStep ex.offer = .ok ex.answererMid ∧
      ex.answererMid.createAnswer = .ok answer0 ∧ answer0.type = .answer ∧
      ex.answererMid.setLocal answer0 = .ok ex.answerer ∧
      Rel2 (fun m m' => m' = { m with transport := m'.transport }) answer0.media amedia ∧
      ex.answer = { answer0 with media := amedia } ∧
      (ex.answererMid.remoteDesc = some ex.offer → keysOf answer0 = keysOf ex.offer) ∧
      ex.offererMid.setRemoteWith bundleStep ex.answer = .ok ex.offerer := by
  obtain ⟨o1, offer0, answer0, h1, h2, h3, h4, h5, h6, h7, h8⟩ := negotiateWith_steps h
  obtain ⟨hot, hob⟩ := createOffer_shape h1
  obtain ⟨_, omedia, hof, _, _, _, hopl⟩ := setLocal_offer_spec hot h2
  have hoffer : ex.offer = { offer0 with media := omedia } := by
    simp [Pc.localDesc, hopl] at h3; exact h3.symm
  obtain ⟨hat, _, _⟩ := createAnswer_spec h5
  obtain ⟨hv, amedia, haf, _, _, _, hpl, hcl⟩ := setLocal_answer_spec hat h6
  have hans : ex.answer = { answer0 with media := amedia } := by
    simp [Pc.localDesc, hpl, hcl] at h7; exact h7.symm
  refine ⟨answer0, amedia, by rw [hoffer]; exact hot, ?_, h4, h5, hat, h6, haf, hans, ?_, h8⟩
  · rw [hoffer]; simp only; rw [hob, refresh_mids hof]
  · intro hrd
    obtain ⟨_, offer, ho, hk⟩ := validate_answer hv hat
    simp only [if_true, hrd] at ho
    cases ho; exact hk

end Aiortc.Model.Negotiate
