import Aiortc.Model.RateCounter
/-!
# Ring-buffer invariant of `RateCounter` (helper lemmas for Props/C15)

`agg p H` is the (count, byte sum) of the samples `(t, v) ∈ H` with `p t`.
`Core rc o H`: the counter has origin `o`, bucket `(origin_index + k) % W` holds exactly the samples of
`H` with time `o + k`, the total is the aggregate of the samples at or after `o`, and no sample lies at
or beyond `o + W`.  `Fresh rc`: the state after the constructor / `reset()`.
-/
namespace Aiortc.Model.Rate

theorem Bucket.ext' {a b : Bucket} (h1 : a.count = b.count) (h2 : a.value = b.value) : a = b := by
  cases a; cases b; simp_all

abbrev Sample := Int × Int

def agg (p : Int → Bool) : List Sample → Bucket
  | [] => Bucket.zero
  | s :: H => if p s.1 then Bucket.add (agg p H) ⟨1, s.2⟩ else agg p H

theorem agg_congr {p q : Int → Bool} {H : List Sample} (h : ∀ s ∈ H, p s.1 = q s.1) :
    agg p H = agg q H := by
  induction H with
  | nil => rfl
  | cons s H ih =>
    simp only [agg]
    rw [h s List.mem_cons_self, ih (fun s hs => h s (List.mem_cons_of_mem _ hs))]

theorem agg_none {p : Int → Bool} {H : List Sample} (h : ∀ s ∈ H, p s.1 = false) :
    agg p H = Bucket.zero := by
  induction H with
  | nil => rfl
  | cons s H ih =>
    simp only [agg]
    rw [h s List.mem_cons_self, ih (fun s hs => h s (List.mem_cons_of_mem _ hs))]
    simp

theorem agg_count_nonneg (p : Int → Bool) (H : List Sample) : 0 ≤ (agg p H).count := by
  induction H with
  | nil => simp [agg, Bucket.zero]
  | cons s H ih =>
    simp only [agg]
    split
    · simp only [Bucket.add]; omega
    · exact ih

/-- a zero count means that no sample satisfies the predicate -/
theorem agg_count_zero {p : Int → Bool} {H : List Sample} (h : (agg p H).count ≤ 0) :
    ∀ s ∈ H, p s.1 = false := by
  induction H with
  | nil => intro s hs; cases hs
  | cons s H ih =>
    simp only [agg] at h
    by_cases hp : p s.1 = true
    · rw [if_pos hp] at h
      simp only [Bucket.add] at h
      have := agg_count_nonneg p H
      omega
    · rw [if_neg hp] at h
      intro s' hs'
      rcases List.mem_cons.mp hs' with rfl | hs'
      · simpa using hp
      · exact ih h s' hs'

theorem agg_split (o : Int) (H : List Sample) :
    (agg (fun t => decide (o ≤ t)) H).sub (agg (fun t => decide (t = o)) H)
      = agg (fun t => decide (o + 1 ≤ t)) H := by
  induction H with
  | nil => rfl
  | cons s H ih =>
    have hc := congrArg Bucket.count ih
    have hv := congrArg Bucket.value ih
    simp only [Bucket.sub] at hc hv
    simp only [agg]
    rcases Int.lt_trichotomy s.1 o with h | h | h
    · rw [if_neg (by simp; omega), if_neg (by simp; omega), if_neg (by simp; omega)]; exact ih
    · rw [if_pos (by simp; omega), if_pos (by simp; omega), if_neg (by simp; omega)]
      apply Bucket.ext' <;> simp only [Bucket.sub, Bucket.add] <;> omega
    · rw [if_pos (by simp; omega), if_neg (by simp; omega), if_pos (by simp; omega)]
      apply Bucket.ext' <;> simp only [Bucket.sub, Bucket.add] <;> omega

theorem ring_idx (a k W : Nat) (_ha : a < W) (hk : k < W) :
    (a + k) % W = if a + k < W then a + k else a + k - W := by
  split
  · exact Nat.mod_eq_of_lt ‹_›
  · rw [Nat.mod_eq_sub_mod (by omega)]; exact Nat.mod_eq_of_lt (by omega)

structure Core (rc : RateCounter) (o : Int) (H : List Sample) : Prop where
  origin : rc.originMs = some o
  wpos : 0 < rc.window
  size : rc.buckets.size = rc.window
  idx : rc.originIndex < rc.window
  bound : ∀ s ∈ H, s.1 < o + rc.window
  ring : ∀ k, k < rc.window →
    rc.buckets[(rc.originIndex + k) % rc.window]? = some (agg (fun t => decide (t = o + k)) H)
  total : rc.total = agg (fun t => decide (o ≤ t)) H

structure Fresh (rc : RateCounter) : Prop where
  origin : rc.originMs = none
  wpos : 0 < rc.window
  size : rc.buckets.size = rc.window
  idx : rc.originIndex < rc.window
  ring : ∀ k, k < rc.window → rc.buckets[k]? = some Bucket.zero
  total : rc.total = Bucket.zero

theorem fresh_new (W : Nat) (scale : Int) (hW : 0 < W) : Fresh (RateCounter.new W scale) := by
  refine ⟨rfl, hW, by simp [RateCounter.new], hW, ?_, rfl⟩
  intro k hk
  have hk' : k < W := hk
  simp [RateCounter.new, hk']

theorem fresh_reset (rc : RateCounter) (hW : 0 < rc.window) : Fresh rc.reset := by
  refine ⟨rfl, hW, by simp [RateCounter.reset], hW, ?_, rfl⟩
  intro k hk
  have : k < rc.window := hk
  simp [RateCounter.reset, this]

/-- one iteration of the `_erase_old` loop body -/
theorem eraseStep_core {rc : RateCounter} {o : Int} {H : List Sample} (c : Core rc o H) :
    ∃ rc', rc.eraseStep = .ok rc' ∧ Core rc' (o + 1) H ∧ rc'.window = rc.window ∧ rc'.scale = rc.scale := by
  have hW := c.wpos
  have h0 : rc.buckets[rc.originIndex]? = some (agg (fun t => decide (t = o)) H) := by
    have := c.ring 0 hW
    rw [Nat.add_zero, Nat.mod_eq_of_lt c.idx] at this
    simpa using this
  refine ⟨{ rc with total := rc.total.sub (agg (fun t => decide (t = o)) H),
                    buckets := rc.buckets.setIfInBounds rc.originIndex Bucket.zero,
                    originIndex := (rc.originIndex + 1) % rc.window,
                    originMs := some (o + 1) }, ?_, ?_, rfl, rfl⟩
  · unfold RateCounter.eraseStep
    rw [c.origin]
    simp only [h0]
    rw [if_neg (by omega)]
  · refine ⟨rfl, hW, ?_, Nat.mod_lt _ hW, ?_, ?_, ?_⟩
    · simp [c.size]
    · intro s hs; have := c.bound s hs; simp only; omega
    · intro k hk
      have hk : k < rc.window := hk
      simp only
      rw [Nat.mod_add_mod, Array.getElem?_setIfInBounds]
      by_cases hk1 : k + 1 < rc.window
      · have hne : ¬ rc.originIndex = (rc.originIndex + 1 + k) % rc.window := by
          have := ring_idx rc.originIndex (k + 1) rc.window c.idx hk1
          rw [show rc.originIndex + 1 + k = rc.originIndex + (k + 1) by omega]
          split at this <;> omega
        rw [if_neg hne, show rc.originIndex + 1 + k = rc.originIndex + (k + 1) by omega, c.ring (k + 1) hk1]
        congr 1
        apply agg_congr
        intro s _
        congr 1
        apply propext
        push_cast
        constructor <;> intro h <;> omega
      · have hk' : k + 1 = rc.window := by omega
        have heq : rc.originIndex = (rc.originIndex + 1 + k) % rc.window := by
          rw [show rc.originIndex + 1 + k = rc.originIndex + rc.window by omega, Nat.add_mod_right,
              Nat.mod_eq_of_lt c.idx]
        rw [if_pos heq, if_pos (by rw [c.size]; exact c.idx)]
        congr 1
        symm
        apply agg_none
        intro s hs
        have := c.bound s hs
        simp only [decide_eq_false_iff_not]
        omega
    · simp only
      rw [c.total]
      exact agg_split o H

theorem eraseN_core (n : Nat) : ∀ {rc : RateCounter} {o : Int} {H : List Sample}, Core rc o H →
    ∃ rc', rc.eraseN n = .ok rc' ∧ Core rc' (o + n) H ∧ rc'.window = rc.window ∧ rc'.scale = rc.scale := by
  induction n with
  | zero => intro rc o H c; exact ⟨rc, rfl, by simpa using c, rfl, rfl⟩
  | succ n ih =>
    intro rc o H c
    obtain ⟨rc1, h1, c1, w1, s1⟩ := eraseStep_core c
    obtain ⟨rc2, h2, c2, w2, s2⟩ := ih c1
    refine ⟨rc2, ?_, ?_, by omega, by rw [s2, s1]⟩
    · simp only [RateCounter.eraseN, h1]; exact h2
    · have : o + 1 + (n : Int) = o + ((n + 1 : Nat) : Int) := by push_cast; omega
      rw [← this]; exact c2

/-- `_erase_old(now)`: terminates without exception, new origin `max(o, now - W + 1)` -/
theorem eraseOld_core {rc : RateCounter} {o : Int} {H : List Sample} (c : Core rc o H) (now : Int) :
    ∃ rc', rc.eraseOld now = .ok rc' ∧ Core rc' (max o (now - rc.window + 1)) H ∧
      rc'.window = rc.window ∧ rc'.scale = rc.scale := by
  obtain ⟨rc', h, c', w, s⟩ := eraseN_core ((now - rc.window + 1) - o).toNat c
  refine ⟨rc', ?_, ?_, w, s⟩
  · unfold RateCounter.eraseOld; rw [c.origin]; exact h
  · have : o + (((now - rc.window + 1) - o).toNat : Int) = max o (now - rc.window + 1) := by omega
    rw [← this]; exact c'

theorem idx_cast (a k W : Nat) (x : Int) (hx : x = (k : Int)) :
    ((((a : Int) + x) % (W : Int)).toNat) = (a + k) % W := by
  subst hx
  rw [← Int.natCast_add, ← Int.natCast_emod, Int.toNat_natCast]

/-- the bucket update at the end of `add`, on a counter whose window contains `now` -/
theorem put_core {rc : RateCounter} {o : Int} {H : List Sample} (c : Core rc o H) (v now : Int)
    (h1 : o ≤ now) (h2 : now < o + rc.window) :
    ∃ b, rc.buckets[((((rc.originIndex : Int) + now - o) % (rc.window : Int))).toNat]? = some b ∧
      Core { rc with buckets := rc.buckets.setIfInBounds
                        ((((rc.originIndex : Int) + now - o) % (rc.window : Int))).toNat ⟨b.count + 1, b.value + v⟩,
                     total := ⟨rc.total.count + 1, rc.total.value + v⟩ } o ((now, v) :: H) := by
  have hW := c.wpos
  have hk0 : ((now - o).toNat : Int) = now - o := Int.toNat_of_nonneg (by omega)
  have hk0lt : (now - o).toNat < rc.window := by omega
  have hidx : ((((rc.originIndex : Int) + now - o) % (rc.window : Int))).toNat
      = (rc.originIndex + (now - o).toNat) % rc.window := by
    rw [show (rc.originIndex : Int) + now - o = (rc.originIndex : Int) + (now - o) by omega]
    exact idx_cast _ _ _ _ hk0.symm
  rw [hidx]
  refine ⟨_, c.ring _ hk0lt, ?_⟩
  refine ⟨c.origin, hW, ?_, c.idx, ?_, ?_, ?_⟩
  · simp [c.size]
  · intro s hs
    rcases List.mem_cons.mp hs with rfl | hs
    · exact h2
    · exact c.bound s hs
  · intro k hk
    have hk : k < rc.window := hk
    simp only
    rw [Array.getElem?_setIfInBounds]
    by_cases hkk : k = (now - o).toNat
    · subst hkk
      rw [if_pos rfl, if_pos (by rw [c.size]; exact Nat.mod_lt _ hW)]
      congr 1
      simp only [agg]
      rw [if_pos (by simp; omega)]
      rfl
    · have hne : ¬ (rc.originIndex + (now - o).toNat) % rc.window = (rc.originIndex + k) % rc.window := by
        have a1 := ring_idx rc.originIndex k rc.window c.idx hk
        have a2 := ring_idx rc.originIndex (now - o).toNat rc.window c.idx hk0lt
        split at a1 <;> split at a2 <;> omega
      rw [if_neg hne, c.ring k hk]
      congr 1
      simp only [agg]
      rw [if_neg (by simp; omega)]
  · simp only [agg]
    rw [if_pos (by simp; omega), ← c.total]
    rfl

/-- `add(value, now)` on an initialised counter with `o ≤ now`. -/
theorem add_core {rc : RateCounter} {o : Int} {H : List Sample} (c : Core rc o H) (v now : Int)
    (h1 : o ≤ now) :
    ∃ rc', rc.add v now = .ok rc' ∧ Core rc' (max o (now - rc.window + 1)) ((now, v) :: H) ∧
      rc'.window = rc.window ∧ rc'.scale = rc.scale := by
  obtain ⟨rc1, he, c1, w1, s1⟩ := eraseOld_core c now
  have hW := c.wpos
  obtain ⟨b, hb, c2⟩ := put_core c1 v now (by omega) (by rw [w1]; omega)
  refine ⟨_, ?_, c2, w1, s1⟩
  unfold RateCounter.add
  rw [c.origin]
  simp only [he, c1.origin]
  rw [if_neg (by rw [w1]; omega)]
  simp only [hb]

/-- `add(value, now)` on a fresh counter (after the constructor / `reset()`). -/
theorem add_fresh {rc : RateCounter} (f : Fresh rc) (v now : Int) :
    ∃ rc', rc.add v now = .ok rc' ∧ Core rc' now [(now, v)] ∧
      rc'.window = rc.window ∧ rc'.scale = rc.scale := by
  have hW := f.wpos
  have c0 : Core { rc with originMs := some now } now [] := by
    refine ⟨rfl, hW, f.size, f.idx, (by intro s hs; cases hs), ?_, (by simp [agg, f.total])⟩
    intro k _
    simp only [agg]
    exact f.ring _ (Nat.mod_lt _ hW)
  obtain ⟨b, hb, c2⟩ := put_core c0 v now (Int.le_refl _) (by simp only; omega)
  refine ⟨_, ?_, c2, rfl, rfl⟩
  unfold RateCounter.add
  rw [f.origin]
  simp only
  rw [if_neg (by omega)]
  simp only at hb
  simp only [hb]

/-- `rate(now)` on an initialised counter. -/
theorem rate_core {rc : RateCounter} {o : Int} {H : List Sample} (c : Core rc o H) (now : Int) :
    ∃ rc', Core rc' (max o (now - rc.window + 1)) H ∧ rc'.window = rc.window ∧ rc'.scale = rc.scale ∧
      rc.rate now = .ok (rc',
        if rc'.total.count > 0 ∧ now - (max o (now - rc.window + 1)) + 1 > 1
        then some (roundDivHalfEven (rc.scale * rc'.total.value) (now - (max o (now - rc.window + 1)) + 1))
        else none) := by
  obtain ⟨rc1, he, c1, w1, s1⟩ := eraseOld_core c now
  refine ⟨rc1, c1, w1, s1, ?_⟩
  unfold RateCounter.rate
  rw [c.origin]
  simp only [he, c1.origin, s1]
  split <;> rfl

theorem rate_fresh {rc : RateCounter} (f : Fresh rc) (now : Int) : rc.rate now = .ok (rc, none) := by
  unfold RateCounter.rate; rw [f.origin]

theorem agg_append (p : Int → Bool) (H D : List Sample) :
    agg p (H ++ D) = Bucket.add (agg p H) (agg p D) := by
  induction H with
  | nil => simp only [List.nil_append, agg]; apply Bucket.ext' <;> simp [Bucket.add, Bucket.zero]
  | cons s H ih =>
    simp only [List.cons_append, agg]
    split
    · rw [ih]; apply Bucket.ext' <;> simp only [Bucket.add] <;> omega
    · exact ih

theorem agg_value_nonneg (p : Int → Bool) (H : List Sample) (h : ∀ s ∈ H, 0 ≤ s.2) :
    0 ≤ (agg p H).value := by
  induction H with
  | nil => simp [agg, Bucket.zero]
  | cons s H ih =>
    have h1 := h s List.mem_cons_self
    have h2 := ih (fun s hs => h s (List.mem_cons_of_mem _ hs))
    simp only [agg]
    split
    · simp only [Bucket.add]; omega
    · exact h2

theorem roundDivHalfEven_nonneg (a b : Int) (ha : 0 ≤ a) (hb : 0 < b) : 0 ≤ roundDivHalfEven a b := by
  have : 0 ≤ a / b := Int.ediv_nonneg ha (by omega)
  unfold roundDivHalfEven
  simp only []
  repeat' split
  all_goals omega

end Aiortc.Model.Rate
