import Aiortc.Lemmas.Router
import Aiortc.Lemmas.Bytes
/-! The REMB FCI decoder of `Model/Router.lean` against a declarative description of the wire format
(draft-alvestrand-rmcat-remb-03): `"REMB"`, count, 3 bytes of bitrate, `count` big-endian SSRCs. -/
namespace Aiortc.Model.Router
open Aiortc

/-- `fci` is a well-formed REMB FCI carrying exactly `ssrcs` (trailing bytes are permitted, as in the code). -/
def IsRemb (fci : Bytes) (ssrcs : List Nat) : Prop :=
  ∃ b5 b6 b7 extra,
    fci = [82, 69, 77, 66, ssrcs.length, b5, b6, b7] ++ ssrcs.flatMap u32be ++ extra ∧
    ∀ s ∈ ssrcs, s < 4294967296

theorem rembSsrcs_flatMap (ssrcs : List Nat) (extra : Bytes) (h : ∀ s ∈ ssrcs, s < 4294967296) :
    rembSsrcs ssrcs.length (ssrcs.flatMap u32be ++ extra) = .ok ssrcs := by
  induction ssrcs with
  | nil => rfl
  | cons s t ih =>
    have hs : s < 4294967296 := h s (by simp)
    have ht := ih (fun x hx => h x (by simp [hx]))
    have h1 : (List.flatMap u32be (s :: t) ++ extra) = u32be s ++ (t.flatMap u32be ++ extra) := by simp
    rw [h1]
    have htake : (u32be s ++ (t.flatMap u32be ++ extra)).take 4 = u32be s := by simp [u32be]
    have hdrop : (u32be s ++ (t.flatMap u32be ++ extra)).drop 4 = t.flatMap u32be ++ extra := by simp [u32be]
    simp only [List.length_cons, rembSsrcs, htake, hdrop, unpackU32_u32be s hs, ht]

theorem unpackRembFci_of_isRemb {fci : Bytes} {ssrcs : List Nat} (h : IsRemb fci ssrcs) :
    ∃ b, unpackRembFci fci = .ok (b, ssrcs) := by
  obtain ⟨b5, b6, b7, extra, rfl, hlt⟩ := h
  have hlen : ¬ (ssrcs.flatMap u32be ++ extra).length < 4 * ssrcs.length := by
    have : (ssrcs.flatMap u32be).length = 4 * ssrcs.length := by
      clear hlt
      induction ssrcs with
      | nil => rfl
      | cons s t ih => simp [u32be, ih]; omega
    simp [this]
  refine ⟨((b5 &&& 3) <<< 16 ||| b6 <<< 8 ||| b7) <<< ((b5 &&& 252) >>> 2), ?_⟩
  simp only [List.cons_append, List.nil_append, unpackRembFci]
  simp only [ne_eq, not_true_eq_false, if_false, hlen, rembSsrcs_flatMap ssrcs extra hlt]

theorem rembSsrcs_sound (n : Nat) (d : Bytes) (hd : IsBytes d) (l : List Nat) (h : rembSsrcs n d = .ok l) :
    l.length = n ∧ (∀ s ∈ l, s < 4294967296) ∧ ∃ extra, d = l.flatMap u32be ++ extra := by
  induction n generalizing d l with
  | zero => simp [rembSsrcs] at h; subst h; exact ⟨rfl, by simp, d, by simp⟩
  | succ n ih =>
    match d, hd with
    | a :: b :: c :: e :: rest, hd =>
      have hrest : IsBytes rest := fun x hx => hd x (by simp [hx])
      simp only [rembSsrcs, List.take_succ_cons, List.take_zero, unpackU32?, List.drop_succ_cons, List.drop_zero] at h
      cases hr : rembSsrcs n rest with
      | ok l' =>
        rw [hr] at h; simp only [Outcome.ok.injEq] at h; subst h
        obtain ⟨h1, h2, extra, h3⟩ := ih rest hrest l' hr
        have ha := hd a (by simp); have hb := hd b (by simp); have hc := hd c (by simp); have he := hd e (by simp)
        refine ⟨by simp [h1], ?_, extra, ?_⟩
        · intro s hs
          rcases List.mem_cons.1 hs with hs | hs
          · subst hs; omega
          · exact h2 s hs
        · simp only [List.flatMap_cons, u32be_unpack a b c e ha hb hc he, h3, List.cons_append, List.nil_append]
      | valueError => rw [hr] at h; cases h
      | crash k => rw [hr] at h; cases h
      | hang => rw [hr] at h; cases h
    | [], _ => simp [rembSsrcs, unpackU32?] at h
    | [_], _ => simp [rembSsrcs, unpackU32?] at h
    | [_, _], _ => simp [rembSsrcs, unpackU32?] at h
    | [_, _, _], _ => simp [rembSsrcs, unpackU32?] at h

/-- Whatever the decoder accepts is a well-formed REMB FCI carrying exactly the decoded list. -/
theorem isRemb_of_unpackRembFci {fci : Bytes} (hb : IsBytes fci) {b : Nat} {l : List Nat}
    (h : unpackRembFci fci = .ok (b, l)) : IsRemb fci l := by
  unfold unpackRembFci at h
  split at h
  · rename_i a b' c d n b5 b6 b7 rest
    by_cases h1 : [a, b', c, d] ≠ [82, 69, 77, 66]
    · simp [h1] at h
    · by_cases h2 : rest.length < 4 * n
      · simp [h1, h2] at h
      · simp only [h1, h2, if_false] at h
        have hrest : IsBytes rest := fun x hx => hb x (by simp [hx])
        cases hr : rembSsrcs n rest with
        | ok l' =>
          rw [hr] at h; simp only [Outcome.ok.injEq, Prod.mk.injEq] at h
          obtain ⟨_, rfl⟩ := h
          obtain ⟨hl, hlt, extra, hex⟩ := rembSsrcs_sound n rest hrest l' hr
          have h1' : [a, b', c, d] = [82, 69, 77, 66] := Decidable.of_not_not h1
          simp only [List.cons.injEq, and_true] at h1'
          obtain ⟨rfl, rfl, rfl, rfl⟩ := h1'
          exact ⟨b5, b6, b7, extra, by simp [hl, hex], hlt⟩
        | valueError => rw [hr] at h; cases h
        | crash k => rw [hr] at h; cases h
        | hang => rw [hr] at h; cases h
  · cases h

end Aiortc.Model.Router
