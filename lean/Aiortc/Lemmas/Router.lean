import Aiortc.Model.Router
/-! Lemmas about the dict / set encodings and the table invariants of `Model/Router.lean`. -/
namespace Aiortc.Model.Router

/-! ## dict -/

/-- values of a dict -/
def dvals {κ β} (d : List (κ × β)) : List β := d.map Prod.snd
/-- keys of a dict -/
def dkeys {κ β} (d : List (κ × β)) : List κ := d.map Prod.fst

section dict
variable {κ β : Type} [DecidableEq κ]

@[simp] theorem dget_nil (k : κ) : dget k ([] : List (κ × β)) = none := rfl

theorem dget_dset (k k' : κ) (v : β) (d : List (κ × β)) :
    dget k' (dset k v d) = if k' = k then some v else dget k' d := by
  induction d with
  | nil => simp [dset, dget, eq_comm]
  | cons e t ih =>
    obtain ⟨a, b⟩ := e
    by_cases h : a = k
    · subst h; by_cases h' : k' = a
      · subst h'; simp [dset, dget]
      · have : ¬ a = k' := fun e => h' e.symm
        simp [dset, dget, h', this]
    · by_cases h' : a = k'
      · subst h'; simp [dset, dget, h]
      · simp [dset, dget, h, h', ih]

theorem dget_mem_dvals {k : κ} {v : β} {d : List (κ × β)} (h : dget k d = some v) : v ∈ dvals d := by
  induction d with
  | nil => simp [dget] at h
  | cons e t ih =>
    obtain ⟨a, b⟩ := e
    by_cases ha : a = k
    · simp [dget, ha] at h; simp [dvals, h]
    · simp [dget, ha] at h; have := ih h; simp [dvals] at this ⊢; exact Or.inr this

theorem dget_none_of_not_key {k : κ} {d : List (κ × β)} (h : k ∉ dkeys d) : dget k d = none := by
  induction d with
  | nil => rfl
  | cons e t ih =>
    obtain ⟨a, b⟩ := e
    simp [dkeys] at h
    have h1 : ¬ a = k := fun e => h.1 e.symm
    simp only [dget, h1, if_false]
    exact ih (by simpa [dkeys] using h.2)

theorem mem_dvals_dset {k : κ} {v x : β} {d : List (κ × β)} (h : x ∈ dvals (dset k v d)) :
    x = v ∨ x ∈ dvals d := by
  induction d with
  | nil => simp [dset, dvals] at h; exact Or.inl h
  | cons e t ih =>
    obtain ⟨a, b⟩ := e
    by_cases ha : a = k
    · simp [dset, ha, dvals] at h ⊢
      rcases h with h | h
      · exact Or.inl h
      · exact Or.inr (Or.inr h)
    · simp only [dset, ha, if_false, dvals, List.map_cons, List.mem_cons] at h ⊢
      rcases h with h | h
      · exact Or.inr (Or.inl h)
      · rcases ih h with h | h
        · exact Or.inl h
        · exact Or.inr (Or.inr h)

theorem dkeys_dset (k : κ) (v : β) (d : List (κ × β)) :
    dkeys (dset k v d) = if k ∈ dkeys d then dkeys d else dkeys d ++ [k] := by
  induction d with
  | nil => simp [dset, dkeys]
  | cons e t ih =>
    obtain ⟨a, b⟩ := e
    by_cases ha : a = k
    · subst ha; simp [dset, dkeys]
    · have hk : ¬ k = a := fun e => ha e.symm
      simp only [dset, ha, if_false, dkeys, List.map_cons, List.mem_cons, hk, false_or] at ih ⊢
      rw [ih]; by_cases hm : k ∈ List.map Prod.fst t <;> simp [hm]

theorem nodup_dkeys_dset (k : κ) (v : β) {d : List (κ × β)} (h : (dkeys d).Nodup) :
    (dkeys (dset k v d)).Nodup := by
  rw [dkeys_dset]
  split
  · exact h
  · rename_i hk
    rw [List.nodup_append]
    refine ⟨h, by simp, ?_⟩
    intro a ha b hb
    simp at hb; subst hb
    intro e; subst e; exact hk ha

end dict

section discard
variable {κ : Type}

theorem mem_dvals_ddiscard {x y : Nat} {d : List (κ × Nat)} :
    y ∈ dvals (ddiscard x d) ↔ y ≠ x ∧ y ∈ dvals d := by
  simp only [dvals, ddiscard, List.mem_map, List.mem_filter, decide_eq_true_eq]
  constructor
  · rintro ⟨e, ⟨he, hne⟩, rfl⟩; exact ⟨hne, e, he, rfl⟩
  · rintro ⟨hne, e, he, rfl⟩; exact ⟨e, ⟨he, hne⟩, rfl⟩

theorem nodup_dkeys_ddiscard (x : Nat) {d : List (κ × Nat)} (h : (dkeys d).Nodup) :
    (dkeys (ddiscard x d)).Nodup := by
  unfold dkeys ddiscard at *
  exact (List.filter_sublist.map Prod.fst).nodup h

/-- `__discard` never leaves the discarded value reachable. -/
theorem dget_ddiscard_ne [DecidableEq κ] (k : κ) (x : Nat) (d : List (κ × Nat)) : dget k (ddiscard x d) ≠ some x := by
  intro h
  have := dget_mem_dvals h
  rw [mem_dvals_ddiscard] at this
  exact this.1 rfl

/-- Bindings to other values survive `__discard`. -/
theorem dget_ddiscard_of_ne [DecidableEq κ] {k : κ} {x v : Nat} {d : List (κ × Nat)} (h : dget k d = some v) (hv : v ≠ x) :
    dget k (ddiscard x d) = some v := by
  induction d with
  | nil => simp [dget] at h
  | cons e t ih =>
    obtain ⟨a, b⟩ := e
    by_cases ha : a = k
    · simp [dget, ha] at h; subst h
      simp [ddiscard, List.filter, hv, dget, ha]
    · simp [dget, ha] at h
      have := ih h
      by_cases hb : b = x
      · simpa [ddiscard, List.filter, hb] using this
      · simp only [ddiscard, List.filter, ne_eq, hb, not_false_eq_true, decide_true, dget, ha, if_false]
        simpa [ddiscard] using this

/-- Exact effect of `__discard` on a dict (unique keys). -/
theorem dget_ddiscard [DecidableEq κ] (k : κ) (x : Nat) {d : List (κ × Nat)} (hd : (dkeys d).Nodup) :
    dget k (ddiscard x d) = if dget k d = some x then none else dget k d := by
  induction d with
  | nil => simp [ddiscard, dget]
  | cons e t ih =>
    obtain ⟨a, b⟩ := e
    have hd' : a ∉ dkeys t ∧ (dkeys t).Nodup := by simpa [dkeys] using hd
    by_cases ha : a = k
    · subst ha
      by_cases hb : b = x
      · subst hb
        have h1 : dget a (ddiscard b t) = none :=
          dget_none_of_not_key (fun hm => hd'.1 ((List.filter_sublist.map Prod.fst).subset hm))
        simpa [ddiscard, List.filter, dget] using h1
      · simp [ddiscard, List.filter, hb, dget]
    · by_cases hb : b = x
      · subst hb
        have := ih hd'.2
        simpa [ddiscard, List.filter, dget, ha] using this
      · have := ih hd'.2
        simp only [ddiscard, List.filter, ne_eq, hb, not_false_eq_true, decide_true, dget, ha, if_false]
        simpa [ddiscard] using this

end discard

/-! ## set -/

theorem mem_sadd {x y : Nat} {s : List Nat} : y ∈ sadd x s ↔ y = x ∨ y ∈ s := by
  unfold sadd; split
  · constructor
    · exact Or.inr
    · rintro (h | h); · subst h; assumption
      exact h
  · simp [or_comm]

theorem nodup_sadd (x : Nat) {s : List Nat} (h : s.Nodup) : (sadd x s).Nodup := by
  unfold sadd; split
  · exact h
  · rename_i hx
    rw [List.nodup_append]
    refine ⟨h, by simp, ?_⟩
    intro a ha b hb; simp at hb; subst hb; intro e; subst e; exact hx ha

theorem mem_sdiscard {x y : Nat} {s : List Nat} : y ∈ sdiscard x s ↔ y ≠ x ∧ y ∈ s := by
  simp [sdiscard, and_comm]

theorem nodup_sdiscard (x : Nat) {s : List Nat} (h : s.Nodup) : (sdiscard x s).Nodup :=
  List.filter_sublist.nodup h

theorem mem_radd {x y : Recipient} {s : List Recipient} : y ∈ radd x s ↔ y = x ∨ y ∈ s := by
  unfold radd; split
  · constructor
    · exact Or.inr
    · rintro (h | h); · subst h; assumption
      exact h
  · simp [or_comm]

theorem nodup_radd (x : Recipient) {s : List Recipient} (h : s.Nodup) : (radd x s).Nodup := by
  unfold radd; split
  · exact h
  · rename_i hx
    rw [List.nodup_append]
    refine ⟨h, by simp, ?_⟩
    intro a ha b hb; simp at hb; subst hb; intro e; subst e; exact hx ha

/-- A duplicate-free list whose members are exactly `{r}` is `[r]`. -/
theorem eq_singleton_of_nodup {l : List Nat} {r : Nat} (hn : l.Nodup) (h : ∀ x, x ∈ l ↔ x = r) : l = [r] := by
  match l, hn, h with
  | [], _, h => exact absurd ((h r).2 rfl) (by simp)
  | [a], _, h => have := (h a).1 (by simp); subst this; rfl
  | a :: b :: t, hn, h =>
    have ha := (h a).1 (by simp)
    have hb := (h b).1 (by simp)
    subst ha; subst hb
    simp at hn

/-! ## payload-type table -/

theorem ptSet_ptAdd (r pt pt' : Nat) (tbl : List (Nat × List Nat)) :
    ptSet (ptAdd r pt tbl) pt' = if pt' = pt then sadd r (ptSet tbl pt) else ptSet tbl pt' := by
  induction tbl with
  | nil =>
    by_cases h : pt' = pt
    · subst h; simp [ptAdd, ptSet, dget]
    · have : ¬ pt = pt' := fun e => h e.symm
      simp [ptAdd, ptSet, dget, h, this]
  | cons e t ih =>
    obtain ⟨k, s⟩ := e
    by_cases hk : k = pt
    · subst hk
      by_cases h : pt' = k
      · subst h; simp [ptAdd, ptSet, dget]
      · have : ¬ k = pt' := fun e => h e.symm
        simp [ptAdd, ptSet, dget, h, this]
    · by_cases h : pt' = pt
      · subst h
        have := ih
        simp only [if_true] at this
        simp only [ptAdd, hk, if_false, if_true]
        simpa [ptSet, dget, hk] using this
      · simp only [ptAdd, hk, if_false, h]
        by_cases hk' : k = pt'
        · simp [ptSet, dget, hk']
        · have := ih
          simp only [h, if_false] at this
          simpa [ptSet, dget, hk'] using this

theorem ptSet_map_sdiscard (r pt : Nat) (tbl : List (Nat × List Nat)) :
    ptSet (tbl.map (fun e => (e.1, sdiscard r e.2))) pt = sdiscard r (ptSet tbl pt) := by
  induction tbl with
  | nil => simp [ptSet, dget, sdiscard]
  | cons e t ih =>
    obtain ⟨k, s⟩ := e
    by_cases hk : k = pt
    · simp [ptSet, dget, hk]
    · simpa [ptSet, dget, hk] using ih

/-- the `for payload_type in payload_types` loop -/
theorem mem_ptSet_foldl_ptAdd (r : Nat) (pts : List Nat) (tbl : List (Nat × List Nat)) (pt y : Nat) :
    y ∈ ptSet (pts.foldl (fun t p => ptAdd r p t) tbl) pt ↔ (y = r ∧ pt ∈ pts) ∨ y ∈ ptSet tbl pt := by
  induction pts generalizing tbl with
  | nil => simp
  | cons p ps ih =>
    simp only [List.foldl_cons, ih, ptSet_ptAdd, List.mem_cons]
    by_cases h : pt = p
    · subst h; simp only [if_true, mem_sadd]; grind
    · simp [h]

theorem nodup_ptSet_foldl_ptAdd (r : Nat) (pts : List Nat) (tbl : List (Nat × List Nat))
    (h : ∀ pt, (ptSet tbl pt).Nodup) : ∀ pt, (ptSet (pts.foldl (fun t p => ptAdd r p t) tbl) pt).Nodup := by
  induction pts generalizing tbl with
  | nil => simpa using h
  | cons p ps ih =>
    simp only [List.foldl_cons]
    apply ih
    intro pt
    rw [ptSet_ptAdd]
    split
    · exact nodup_sadd r (h p)
    · exact h pt

/-- the `for ssrc in ssrcs` loop -/
theorem dget_foldl_dset (r : Nat) (ssrcs : List Nat) (t : List (Nat × Nat)) (x : Nat) :
    dget x (ssrcs.foldl (fun t s => dset s r t) t) = if x ∈ ssrcs then some r else dget x t := by
  induction ssrcs generalizing t with
  | nil => simp
  | cons s ss ih =>
    simp only [List.foldl_cons, ih, dget_dset, List.mem_cons]
    by_cases h1 : x ∈ ss
    · simp [h1]
    · by_cases h2 : x = s <;> simp [h1, h2]

theorem nodup_dkeys_foldl_dset (r : Nat) (ssrcs : List Nat) (t : List (Nat × Nat)) (h : (dkeys t).Nodup) :
    (dkeys (ssrcs.foldl (fun t s => dset s r t) t)).Nodup := by
  induction ssrcs generalizing t with
  | nil => simpa using h
  | cons s ss ih => exact ih _ (nodup_dkeys_dset s r h)

theorem mem_dvals_foldl_dset {r x : Nat} (ssrcs : List Nat) (t : List (Nat × Nat))
    (h : x ∈ dvals (ssrcs.foldl (fun t s => dset s r t) t)) : x = r ∨ x ∈ dvals t := by
  induction ssrcs generalizing t with
  | nil => exact Or.inr (by simpa using h)
  | cons s ss ih =>
    rcases ih _ h with h | h
    · exact Or.inl h
    · exact mem_dvals_dset h

/-! ## the abstract view of a router state -/

/-- who is registered for an SSRC (`ssrc_table.get`) -/
def ssrcOf (st : Router) (x : Nat) : Option Nat := dget x st.ssrcTable
/-- receiver `r` accepts payload type `pt` (`r in payload_type_table.get(pt, set())`) -/
def accepts (st : Router) (pt r : Nat) : Prop := r ∈ ptSet st.ptTable pt
/-- which sender owns an SSRC (`senders.get`) -/
def senderOf (st : Router) (x : Nat) : Option Nat := dget x st.senders

instance (st : Router) (pt r : Nat) : Decidable (accepts st pt r) := by unfold accepts; infer_instance

/-- Representation invariant of every reachable router state: sets have no duplicates, dicts have
unique keys, and every receiver mentioned in a table is in `receivers`. -/
structure WF (st : Router) : Prop where
  recvNodup : st.receivers.Nodup
  ptNodup : ∀ pt, (ptSet st.ptTable pt).Nodup
  ssrcKeys : (dkeys st.ssrcTable).Nodup
  sndKeys : (dkeys st.senders).Nodup
  midKeys : (dkeys st.midTable).Nodup
  ssrcRecv : ∀ r ∈ dvals st.ssrcTable, r ∈ st.receivers
  midRecv : ∀ r ∈ dvals st.midTable, r ∈ st.receivers
  ptRecv : ∀ pt r, r ∈ ptSet st.ptTable pt → r ∈ st.receivers

theorem WF.empty : WF Router.empty := by
  constructor <;> simp [Router.empty, dkeys, dvals, ptSet]

theorem WF.registerReceiver {st : Router} (h : WF st) (r : Nat) (ssrcs pts : List Nat) (mid : Option String) :
    WF (registerReceiver st r ssrcs pts mid) := by
  constructor
  · exact nodup_sadd r h.recvNodup
  · exact nodup_ptSet_foldl_ptAdd r pts _ h.ptNodup
  · exact nodup_dkeys_foldl_dset r ssrcs _ h.ssrcKeys
  · exact h.sndKeys
  · cases mid with
    | none => exact h.midKeys
    | some m => exact nodup_dkeys_dset m r h.midKeys
  · intro x hx
    rcases mem_dvals_foldl_dset ssrcs _ hx with hx | hx
    · exact mem_sadd.2 (Or.inl hx)
    · exact mem_sadd.2 (Or.inr (h.ssrcRecv x hx))
  · intro x hx
    cases mid with
    | none => exact mem_sadd.2 (Or.inr (h.midRecv x hx))
    | some m =>
      rcases mem_dvals_dset hx with hx | hx
      · exact mem_sadd.2 (Or.inl hx)
      · exact mem_sadd.2 (Or.inr (h.midRecv x hx))
  · intro pt x hx
    rcases (mem_ptSet_foldl_ptAdd r pts _ pt x).1 hx with hx | hx
    · exact mem_sadd.2 (Or.inl hx.1)
    · exact mem_sadd.2 (Or.inr (h.ptRecv pt x hx))

theorem WF.registerSender {st : Router} (h : WF st) (s ssrc : Nat) : WF (registerSender st s ssrc) :=
  { h with sndKeys := nodup_dkeys_dset ssrc s h.sndKeys }

theorem WF.unregisterReceiver {st : Router} (h : WF st) (r : Nat) : WF (unregisterReceiver st r) := by
  constructor
  · exact nodup_sdiscard r h.recvNodup
  · intro pt; show (ptSet (st.ptTable.map _) pt).Nodup
    rw [ptSet_map_sdiscard]; exact nodup_sdiscard r (h.ptNodup pt)
  · exact nodup_dkeys_ddiscard r h.ssrcKeys
  · exact h.sndKeys
  · exact nodup_dkeys_ddiscard r h.midKeys
  · intro x hx
    have := mem_dvals_ddiscard.1 hx
    exact mem_sdiscard.2 ⟨this.1, h.ssrcRecv x this.2⟩
  · intro x hx
    have := mem_dvals_ddiscard.1 hx
    exact mem_sdiscard.2 ⟨this.1, h.midRecv x this.2⟩
  · intro pt x hx
    change x ∈ ptSet (st.ptTable.map _) pt at hx
    rw [ptSet_map_sdiscard] at hx
    have := mem_sdiscard.1 hx
    exact mem_sdiscard.2 ⟨this.1, h.ptRecv pt x this.2⟩

theorem WF.unregisterSender {st : Router} (h : WF st) (s : Nat) : WF (unregisterSender st s) :=
  { h with sndKeys := nodup_dkeys_ddiscard s h.sndKeys }

theorem WF.routeRtp {st : Router} (h : WF st) (ssrc pt : Nat) : WF (routeRtp st ssrc pt).1 := by
  unfold Router.routeRtp
  cases hs : dget ssrc st.ssrcTable with
  | some r0 => simp only; split <;> exact h
  | none =>
    simp only
    split
    · rename_i r hr
      exact { h with
        ssrcKeys := nodup_dkeys_dset ssrc r h.ssrcKeys
        ssrcRecv := by
          intro x hx
          rcases mem_dvals_dset hx with hx | hx
          · subst hx; exact h.ptRecv pt x (by rw [hr]; simp)
          · exact h.ssrcRecv x hx }
    · exact h

theorem WF.step {st : Router} (h : WF st) (op : Op) : WF (step st op).1 := by
  cases op with
  | regReceiver r ssrcs pts mid => exact h.registerReceiver r ssrcs pts mid
  | regSender s ssrc => exact h.registerSender s ssrc
  | unregReceiver r => exact h.unregisterReceiver r
  | unregSender s => exact h.unregisterSender s
  | rtp ssrc pt => exact h.routeRtp ssrc pt
  | rtcp p => exact h

theorem WF.run {st : Router} (h : WF st) (ops : List Op) : WF (run st ops).1 := by
  induction ops generalizing st with
  | nil => exact h
  | cons op ops ih => exact ih (h.step op)

theorem run_nil (st : Router) : run st [] = (st, []) := rfl

theorem run_cons (st : Router) (op : Op) (ops : List Op) :
    run st (op :: ops) = ((run (step st op).1 ops).1, (step st op).2 :: (run (step st op).1 ops).2) := rfl

theorem run_append (st : Router) (a b : List Op) :
    run st (a ++ b) = ((run (run st a).1 b).1, (run st a).2 ++ (run (run st a).1 b).2) := by
  induction a generalizing st with
  | nil => simp [run_nil]
  | cons op ops ih => simp only [List.cons_append, run_cons, ih, List.cons_append]

/-! ## recipient sets -/

/-- `for x in xs: add_recipient(table.get(x))` with `f` tagging receivers / senders. -/
def addAll (f : Nat → Recipient) (g : Nat → Option Nat) (xs : List Nat) (acc : List Recipient) : List Recipient :=
  xs.foldl (fun a x => addOpt f (g x) a) acc

theorem mem_addOpt {f : Nat → Recipient} {o : Option Nat} {acc : List Recipient} {y : Recipient} :
    y ∈ addOpt f o acc ↔ (∃ v, o = some v ∧ y = f v) ∨ y ∈ acc := by
  cases o with
  | none => simp [addOpt]
  | some v => simp [addOpt, mem_radd]

theorem nodup_addOpt (f : Nat → Recipient) (o : Option Nat) {acc : List Recipient} (h : acc.Nodup) :
    (addOpt f o acc).Nodup := by
  cases o with
  | none => exact h
  | some v => exact nodup_radd _ h

theorem mem_addAll {f : Nat → Recipient} {g : Nat → Option Nat} {xs : List Nat} {acc : List Recipient} {y : Recipient} :
    y ∈ addAll f g xs acc ↔ (∃ x ∈ xs, ∃ v, g x = some v ∧ y = f v) ∨ y ∈ acc := by
  unfold addAll
  induction xs generalizing acc with
  | nil => simp
  | cons x xs ih =>
    simp only [List.foldl_cons, ih, mem_addOpt, List.mem_cons]
    constructor
    · rintro (⟨x', hx', v, hv⟩ | ⟨v, hv⟩ | h)
      · exact Or.inl ⟨x', Or.inr hx', v, hv⟩
      · exact Or.inl ⟨x, Or.inl rfl, v, hv⟩
      · exact Or.inr h
    · rintro (⟨x', hx' | hx', v, hv⟩ | h)
      · subst hx'; exact Or.inr (Or.inl ⟨v, hv⟩)
      · exact Or.inl ⟨x', hx', v, hv⟩
      · exact Or.inr (Or.inr h)

theorem nodup_addAll (f : Nat → Recipient) (g : Nat → Option Nat) (xs : List Nat) {acc : List Recipient}
    (h : acc.Nodup) : (addAll f g xs acc).Nodup := by
  unfold addAll
  induction xs generalizing acc with
  | nil => exact h
  | cons x xs ih => exact ih (nodup_addOpt f (g x) h)

/-! ## REMB FCI -/

theorem rembSsrcs_ok (n : Nat) (d : Bytes) (h : 4 * n ≤ d.length) :
    ∃ l, rembSsrcs n d = .ok l ∧ l.length = n := by
  induction n generalizing d with
  | zero => exact ⟨[], rfl, rfl⟩
  | succ n ih =>
    match d, h with
    | a :: b :: c :: e :: rest, h =>
      have h' : 4 * n ≤ rest.length := by simp at h; omega
      obtain ⟨l, hl, hlen⟩ := ih rest h'
      refine ⟨(((a * 256 + b) * 256 + c) * 256 + e) :: l, ?_, by simp [hlen]⟩
      simp [rembSsrcs, unpackU32?, hl]
    | [], h => simp at h
    | [_], h => simp at h; omega
    | [_, _], h => simp at h; omega
    | [_, _, _], h => simp at h; omega

/-- With the patch, `unpack_remb_fci` raises nothing but `ValueError`. -/
theorem unpackRembFci_no_crash (fci : Bytes) :
    unpackRembFci fci = .valueError ∨ ∃ b l, unpackRembFci fci = .ok (b, l) := by
  unfold unpackRembFci
  split
  · rename_i a b c d n b5 b6 b7 rest
    by_cases h1 : [a, b, c, d] ≠ [82, 69, 77, 66]
    · exact Or.inl (by simp [h1])
    · by_cases h2 : rest.length < 4 * n
      · exact Or.inl (by simp [h1, h2])
      · obtain ⟨l, hl, _⟩ := rembSsrcs_ok n rest (by omega)
        exact Or.inr ⟨((b5 &&& 3) <<< 16 ||| b6 <<< 8 ||| b7) <<< ((b5 &&& 252) >>> 2), l, by simp [h1, h2, hl]⟩
  · exact Or.inl rfl

/-- … so the `try … except ValueError` of `route_rtcp` always completes. -/
theorem rembTargets_ok (fci : Bytes) : ∃ l, rembTargets fci = .ok l := by
  rcases unpackRembFci_no_crash fci with h | ⟨b, l, h⟩
  · exact ⟨[], by simp [rembTargets, h]⟩
  · exact ⟨l, by simp [rembTargets, h]⟩

end Aiortc.Model.Router
