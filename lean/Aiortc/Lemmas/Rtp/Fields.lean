import Aiortc.Model.Rtp.Fields
import Aiortc.Lemmas.Bytes
/-! Lemmas for the field codecs: packets_lost, REMB, NACK. -/
namespace Aiortc.Rtp
open Aiortc Aiortc.Outcome

/-! ## bit-or of disjoint ranges is addition -/

theorem or_eq_add (a b k : Nat) (hb : b < 2 ^ k) : (a <<< k) ||| b = a * 2 ^ k + b := by
  rw [← Nat.shiftLeft_add_eq_or_of_lt hb, Nat.shiftLeft_eq]

/-! ## packets lost -/

theorem unpackLost_lostBytes (c : Int) (h1 : -8388608 ≤ c) (h2 : c < 8388608) :
    unpackLost (u24be (c % 16777216).toNat) = ok c := by
  unfold u24be unpackLost s24
  simp only
  split <;> (congr 1; omega)

/-! ## beVal / readU32s -/

theorem beVal_u32be (n : Nat) (h : n < 4294967296) : beVal (u32be n) = n := by
  simp [beVal, u32be]; omega
theorem beVal_u16be (n : Nat) (h : n < 65536) : beVal (u16be n) = n := by
  simp [beVal, u16be]; omega

theorem length_flatMap_u32be (l : List Nat) : (l.flatMap u32be).length = 4 * l.length := by
  induction l with
  | nil => rfl
  | cons a l ih => simp [List.flatMap_cons, ih]; omega

theorem take4_u32be_append (n : Nat) (r : Bytes) : (u32be n ++ r).take 4 = u32be n := by
  simp [u32be]
theorem drop4_u32be_append (n : Nat) (r : Bytes) : (u32be n ++ r).drop 4 = r := by
  simp [u32be]

theorem readU32s_flatMap (l : List Nat) (h : ∀ s ∈ l, s < 4294967296) (r : Bytes) :
    readU32s l.length (l.flatMap u32be ++ r) = l := by
  induction l with
  | nil => rfl
  | cons a l ih =>
    simp only [List.flatMap_cons, List.length_cons, readU32s, List.append_assoc,
      take4_u32be_append, drop4_u32be_append]
    rw [beVal_u32be a (h a (by simp)), ih (fun s hs => h s (by simp [hs]))]

/-! ## REMB -/


/-- Invariant of the normalisation loop. With `r = rembNorm m e`, `k = r.2 - e` shifts were made:
`r.1 = ⌊m / 2^k⌋` (as a sandwich), the mantissa fits 18 bits and has its top bit set if `k > 0`. -/
theorem rembNorm_spec (m e : Nat) :
    e ≤ (rembNorm m e).2 ∧ (rembNorm m e).1 ≤ 0x3FFFF
    ∧ (rembNorm m e).1 * 2 ^ ((rembNorm m e).2 - e) ≤ m
    ∧ m < ((rembNorm m e).1 + 1) * 2 ^ ((rembNorm m e).2 - e)
    ∧ (e < (rembNorm m e).2 → 0x20000 ≤ (rembNorm m e).1)
    ∧ (m ≤ 0x3FFFF → rembNorm m e = (m, e)) := by
  induction m, e using rembNorm.induct with
  | case1 m e h ih =>
    rw [rembNorm]; simp only [h, ↓reduceDIte]
    obtain ⟨h1, h2, h3, h4, h5, _⟩ := ih
    generalize rembNorm (m / 2) (e + 1) = r at *
    have h5' : 0x20000 ≤ r.1 := by
      by_cases hlt : e + 1 < r.2
      · exact h5 hlt
      · have : r.2 - (e + 1) = 0 := by omega
        rw [this] at h3 h4
        simp at h3 h4
        omega
    have hk : r.2 - e = (r.2 - (e + 1)) + 1 := by omega
    rw [hk, Nat.pow_succ]
    generalize 2 ^ (r.2 - (e + 1)) = X at *
    rw [Nat.add_mul] at h4 ⊢
    rw [← Nat.mul_assoc]
    generalize r.1 * X = A at *
    exact ⟨by omega, h2, by omega, by omega, fun _ => h5', by omega⟩
  | case2 m e h =>
    rw [rembNorm]; simp only [h, ↓reduceDIte]
    simp; omega

theorem unpackRemb_packRemb (b : Nat) (ss : List Nat) (h : RembWF b ss) :
    unpackRemb (packRemb b ss) = ok ((rembNorm b 0).1 <<< (rembNorm b 0).2, ss) := by
  obtain ⟨he, hn, hs⟩ := h
  obtain ⟨_, hm, _⟩ := rembNorm_spec b 0
  unfold packRemb
  generalize rembNorm b 0 = r at *
  have hX : (r.2 <<< 2) ||| (r.1 >>> 16) = r.2 * 4 + r.1 / 65536 := by
    rw [or_eq_add _ _ 2 (by rw [Nat.shiftRight_eq_div_pow]; omega), Nat.shiftRight_eq_div_pow]
  simp only [hX, u16be, List.cons_append, List.nil_append, unpackRemb, length_flatMap_u32be]
  rw [if_neg (by omega)]
  have e1 : (r.2 * 4 + r.1 / 65536) / 4 % 64 = r.2 := by omega
  have e2 : (r.2 * 4 + r.1 / 65536) % 4 * 65536 + r.1 % 65536 / 256 % 256 * 256 + r.1 % 65536 % 256 = r.1 := by omega
  have e3 := readU32s_flatMap ss hs []
  simp only [List.append_nil] at e3
  rw [e1, e2, e3]


/-! ## NACK -/


theorem mem_nackBits (pid blp x : Nat) :
    x ∈ nackBits pid blp ↔ ∃ d, d < 16 ∧ blp.testBit d = true ∧ x = (pid + d + 1) % 65536 := by
  unfold nackBits
  simp only [List.mem_filterMap, List.mem_range]
  constructor
  · rintro ⟨d, hd, h⟩
    split at h
    · next hb => exact ⟨d, hd, hb, by simpa using h.symm⟩
    · cases h
  · rintro ⟨d, hd, hb, rfl⟩
    exact ⟨d, hd, by simp [hb]⟩

theorem nackBits_zero (pid : Nat) : nackBits pid 0 = [] := by
  unfold nackBits
  rw [List.filterMap_eq_nil_iff]
  intro d _; simp

theorem u16_recombine (n : Nat) (h : n < 65536) : n / 256 % 256 * 256 + n % 256 = n := by omega

theorem nackEntries_pair (pid blp : Nat) (hp : pid < 65536) (hb : blp < 65536) (rest : Bytes) :
    nackEntries (u16be pid ++ u16be blp ++ rest) = pid :: nackBits pid blp ++ nackEntries rest := by
  simp only [u16be, List.cons_append, List.nil_append, nackEntries]
  rw [u16_recombine _ hp, u16_recombine _ hb]

theorem nackEntries_lt (d : Bytes) (h : IsBytes d) : ∀ x ∈ nackEntries d, x < 65536 := by
  induction d using nackEntries.induct with
  | case1 a b c e rest ih =>
    intro x hx
    simp only [nackEntries, List.mem_cons, List.mem_append] at hx
    have ha := h a (by simp); have hb := h b (by simp)
    rcases hx with (rfl | hx) | hx
    · omega
    · rw [mem_nackBits] at hx; obtain ⟨_, _, _, rfl⟩ := hx; omega
    · exact ih (fun y hy => h y (by simp [hy])) x hx
  | case2 d hd =>
    intro x hx
    rw [nackEntries] at hx
    · cases hx
    · exact hd

theorem nackDist_spec (p pid : Nat) (hp : p < 65536) (_hpid : pid < 65536) :
    (pid + nackDist p pid + 1) % 65536 = p ∧ nackDist p pid < 65536 := by
  unfold nackDist; omega

theorem mem_nackPack (ps : List Nat) : ∀ (pid blp : Nat) (tail : Bytes), pid < 65536 → blp < 65536 →
    (∀ p ∈ ps, p < 65536) → ∀ x,
    (x ∈ nackEntries (nackPack pid blp ps ++ tail) ↔
      x = pid ∨ x ∈ nackBits pid blp ∨ x ∈ ps ∨ x ∈ nackEntries tail) := by
  induction ps with
  | nil =>
    intro pid blp tail hp hb _ x
    simp only [nackPack, nackEntries_pair pid blp hp hb, List.mem_cons, List.mem_append, List.not_mem_nil,
      false_or, or_assoc]
  | cons p ps ih =>
    intro pid blp tail hpid hb hps x
    have hp : p < 65536 := hps p (by simp)
    have hps' : ∀ q ∈ ps, q < 65536 := fun q hq => hps q (by simp [hq])
    obtain ⟨hd1, _⟩ := nackDist_spec p pid hp hpid
    unfold nackPack
    split
    · next hlt =>
      have hb' : blp ||| 1 <<< nackDist p pid < 65536 := by
        apply Nat.or_lt_two_pow (n := 16) hb
        rw [Nat.one_shiftLeft]
        exact Nat.pow_lt_pow_right (by omega) hlt
      rw [ih pid _ tail hpid hb' hps' x]
      have : x ∈ nackBits pid (blp ||| 1 <<< nackDist p pid) ↔ x ∈ nackBits pid blp ∨ x = p := by
        simp only [mem_nackBits, Nat.testBit_or, Nat.one_shiftLeft, Nat.testBit_two_pow, Bool.or_eq_true,
          decide_eq_true_eq]
        constructor
        · rintro ⟨d, hd, hb | rfl, rfl⟩
          · exact Or.inl ⟨d, hd, hb, rfl⟩
          · exact Or.inr hd1
        · rintro (⟨d, hd, hb, rfl⟩ | hx)
          · exact ⟨d, hd, Or.inl hb, rfl⟩
          · exact ⟨nackDist p pid, hlt, Or.inr rfl, by rw [hx]; exact hd1.symm⟩
      rw [this]; simp only [List.mem_cons]
      grind
    · rw [List.append_assoc, nackEntries_pair pid blp hpid hb]
      simp only [List.mem_cons, List.mem_append]
      rw [ih p 0 tail hp (by omega) hps' x, nackBits_zero]
      simp only [List.not_mem_nil, false_or]
      grind

/-- Set equality for every list of 16-bit numbers. -/
theorem mem_nackEntries_serLost (l : List Nat) (h : ∀ p ∈ l, p < 65536) (x : Nat) :
    x ∈ nackEntries (serLost l) ↔ x ∈ l := by
  cases l with
  | nil => simp [serLost, nackEntries]
  | cons p ps =>
    have := mem_nackPack ps p 0 [] (h p (by simp)) (by omega) (fun q hq => h q (by simp [hq])) x
    simp only [List.append_nil, nackBits_zero, List.not_mem_nil, false_or] at this
    simp [serLost, this, nackEntries]


theorem length_nackPack (ps : List Nat) : ∀ pid blp, (nackPack pid blp ps).length % 4 = 0 := by
  induction ps with
  | nil => intro pid blp; simp [nackPack]
  | cons p ps ih =>
    intro pid blp
    unfold nackPack
    split
    · exact ih _ _
    · have := ih p 0
      simp only [List.length_append, length_u16be]; omega

theorem length_serLost (l : List Nat) : (serLost l).length % 4 = 0 := by
  cases l with
  | nil => rfl
  | cons p ps => exact length_nackPack ps p 0

end Aiortc.Rtp
