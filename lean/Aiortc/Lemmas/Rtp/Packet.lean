import Aiortc.Model.Rtp.Packet
import Aiortc.Lemmas.Rtp.Fields
/-! Round-trip lemmas for header extensions and `RtpPacket`. -/
namespace Aiortc.Rtp
open Aiortc Aiortc.Outcome

set_option linter.unusedSimpArgs false

@[simp] theorem bind_ok' {α β} (a : α) (f : α → Outcome β) : (Outcome.ok a).bind f = f a := rfl

/-! ## RFC 5285 containers -/

theorem unpackOneByte_zeros (k : Nat) : unpackOneByte (zeros k) = ok [] := by
  induction k with
  | zero => rw [zeros, List.replicate_zero, unpackOneByte]
  | succ k ih => rw [zeros, List.replicate_succ, unpackOneByte, if_pos rfl]; exact ih

theorem unpackTwoByte_zeros (k : Nat) : unpackTwoByte (zeros k) = ok [] := by
  induction k with
  | zero => rw [zeros, List.replicate_zero]; unfold unpackTwoByte; rfl
  | succ k ih => rw [zeros, List.replicate_succ]; unfold unpackTwoByte; simp only [↓reduceIte]; exact ih

theorem unpackOneByte_ser (exts : List (Nat × Bytes))
    (h : ∀ x ∈ exts, 0 < x.1 ∧ x.1 ≤ 14 ∧ 1 ≤ x.2.length ∧ x.2.length ≤ 16) (k : Nat) :
    unpackOneByte (exts.flatMap serOneByte ++ zeros k) = ok exts := by
  induction exts with
  | nil => exact unpackOneByte_zeros k
  | cons x exts ih =>
    obtain ⟨i, v⟩ := x
    obtain ⟨h1, h2, h3, h4⟩ := h (i, v) (by simp)
    simp only at h1 h2 h3 h4
    have hb : (i <<< 4) ||| (v.length - 1) = i * 16 + (v.length - 1) := or_eq_add i _ 4 (by omega)
    simp only [List.flatMap_cons, serOneByte, hb, List.cons_append, List.nil_append, List.append_assoc]
    rw [unpackOneByte, if_neg (by omega)]
    have e1 : (i * 16 + (v.length - 1)) % 16 + 1 = v.length := by omega
    have e2 : (i * 16 + (v.length - 1)) / 16 % 16 = i := by omega
    rw [e1, e2, if_neg (by simp), List.take_left, List.drop_left, ih (fun y hy => h y (by simp [hy]))]
    rfl

theorem unpackTwoByte_ser (exts : List (Nat × Bytes)) (h : ∀ x ∈ exts, 0 < x.1) (k : Nat) :
    unpackTwoByte (exts.flatMap serTwoByte ++ zeros k) = ok exts := by
  induction exts with
  | nil => exact unpackTwoByte_zeros k
  | cons x exts ih =>
    obtain ⟨i, v⟩ := x
    have h1 := h (i, v) (by simp)
    simp only at h1
    simp only [List.flatMap_cons, serTwoByte, List.cons_append, List.nil_append, List.append_assoc]
    rw [unpackTwoByte, if_neg (by omega)]
    rw [if_neg (by simp), List.take_left, List.drop_left, ih (fun y hy => h y (by simp [hy]))]
    rfl

theorem padl_spec (n : Nat) : (n + padl n) % 4 = 0 ∧ padl n < 4 := by unfold padl; omega

theorem length_flatMap_le (f : Nat × Bytes → Bytes) (c : Nat) (exts : List (Nat × Bytes))
    (h : ∀ x ∈ exts, (f x).length ≤ c) : (exts.flatMap f).length ≤ c * exts.length := by
  induction exts with
  | nil => simp
  | cons x exts ih =>
    have := h x (by simp)
    have := ih (fun y hy => h y (by simp [hy]))
    simp only [List.flatMap_cons, List.length_append, List.length_cons, Nat.mul_add]
    omega

/-- `unpack_header_extensions(*pack_header_extensions(exts)) == exts`, the block is 32-bit aligned,
not empty, and short. -/
theorem unpack_pack (exts : List (Nat × Bytes)) (hne : exts ≠ [])
    (h : ∀ x ∈ exts, 0 < x.1 ∧ x.1 < 256 ∧ x.2.length < 256) :
    unpackHeaderExtensions (packHeaderExtensions exts).1 (packHeaderExtensions exts).2 = ok exts
    ∧ (packHeaderExtensions exts).2.length % 4 = 0 ∧ (packHeaderExtensions exts).2 ≠ []
    ∧ (packHeaderExtensions exts).2.length ≤ 257 * exts.length + 3
    ∧ (packHeaderExtensions exts).1 < 65536 := by
  unfold packHeaderExtensions
  have hemp : exts.isEmpty = false := by cases exts <;> simp_all
  rw [hemp]; simp only [Bool.false_eq_true, ↓reduceIte]
  obtain ⟨x0, hx0⟩ := List.exists_mem_of_ne_nil exts hne
  split
  · -- two-byte form
    simp only
    have hlen := length_flatMap_le serTwoByte 257 exts (by
      intro x hx; have := (h x hx).2.2; simp [serTwoByte]; omega)
    have hp := padl_spec (exts.flatMap serTwoByte).length
    refine ⟨?_, by simp only [List.length_append, zeros, List.length_replicate]; omega, ?_,
      by simp only [List.length_append, zeros, List.length_replicate]; omega, by omega⟩
    · unfold unpackHeaderExtensions
      simp only [Nat.reduceEqDiff, ↓reduceIte]
      exact unpackTwoByte_ser exts (fun x hx => (h x hx).1) _
    · obtain ⟨l1, l2, rfl⟩ := List.append_of_mem hx0
      simp [serTwoByte]
  · next hall =>
    simp only
    have hone : ∀ x ∈ exts, 0 < x.1 ∧ x.1 ≤ 14 ∧ 1 ≤ x.2.length ∧ x.2.length ≤ 16 := by
      intro x hx
      have hn : needsTwoByte x = false := by
        simp only [List.any_eq_true, not_exists, not_and, Bool.not_eq_true] at hall
        exact hall x hx
      simp only [needsTwoByte, Bool.or_eq_false_iff, decide_eq_false_iff_not, beq_eq_false_iff_ne] at hn
      have := (h x hx).1
      omega
    have hlen := length_flatMap_le serOneByte 257 exts (by
      intro x hx; have := (h x hx).2.2; simp [serOneByte]; omega)
    have hp := padl_spec (exts.flatMap serOneByte).length
    refine ⟨?_, by simp only [List.length_append, zeros, List.length_replicate]; omega, ?_,
      by simp only [List.length_append, zeros, List.length_replicate]; omega, by omega⟩
    · unfold unpackHeaderExtensions
      simp only [↓reduceIte]
      exact unpackOneByte_ser exts hone _
    · obtain ⟨l1, l2, rfl⟩ := List.append_of_mem hx0
      simp [serOneByte]

/-! ## HeaderExtensionsMap.get ∘ set -/


theorem OptNe.ne_l {a b : Option Nat} {i : Nat} (h : OptNe a b) (hb : b = some i) : a ≠ some i := by
  unfold OptNe at h; rcases h with h | h | h
  · simp [h]
  · simp [hb] at h
  · rw [hb] at h; exact h

theorem getFold_append (ids : ExtIds) (l1 l2 : List (Nat × Bytes)) : ∀ vals,
    getFold ids vals (l1 ++ l2) = (getFold ids vals l1).bind fun v => getFold ids v l2 := by
  induction l1 with
  | nil => intro vals; rfl
  | cons x l1 ih =>
    intro vals
    simp only [List.cons_append, getFold]
    cases getStep ids vals x <;> simp [Outcome.bind, ih]

/-- The 21 pairwise facts. -/
theorem ExtIds.WF.pairs {ids : ExtIds} (h : ids.WF) :
    OptNe ids.mid ids.repairedRtpStreamId ∧ OptNe ids.mid ids.rtpStreamId ∧ OptNe ids.mid ids.absSendTime
    ∧ OptNe ids.mid ids.transmissionOffset ∧ OptNe ids.mid ids.audioLevel ∧ OptNe ids.mid ids.transportSequenceNumber
    ∧ OptNe ids.repairedRtpStreamId ids.rtpStreamId ∧ OptNe ids.repairedRtpStreamId ids.absSendTime
    ∧ OptNe ids.repairedRtpStreamId ids.transmissionOffset ∧ OptNe ids.repairedRtpStreamId ids.audioLevel
    ∧ OptNe ids.repairedRtpStreamId ids.transportSequenceNumber
    ∧ OptNe ids.rtpStreamId ids.absSendTime ∧ OptNe ids.rtpStreamId ids.transmissionOffset
    ∧ OptNe ids.rtpStreamId ids.audioLevel ∧ OptNe ids.rtpStreamId ids.transportSequenceNumber
    ∧ OptNe ids.absSendTime ids.transmissionOffset ∧ OptNe ids.absSendTime ids.audioLevel
    ∧ OptNe ids.absSendTime ids.transportSequenceNumber
    ∧ OptNe ids.transmissionOffset ids.audioLevel ∧ OptNe ids.transmissionOffset ids.transportSequenceNumber
    ∧ OptNe ids.audioLevel ids.transportSequenceNumber := by
  have := h.2
  simp only [ExtIds.toList, List.pairwise_cons, List.mem_cons, List.not_mem_nil, or_false, forall_eq_or_imp,
    forall_eq, List.Pairwise.nil, and_true, false_imp_iff, implies_true] at this
  obtain ⟨⟨a1, a2, a3, a4, a5, a6⟩, ⟨b1, b2, b3, b4, b5⟩, ⟨c1, c2, c3, c4⟩, ⟨d1, d2, d3⟩, ⟨e1, e2⟩, f1⟩ := this
  exact ⟨a1, a2, a3, a4, a5, a6, b1, b2, b3, b4, b5, c1, c2, c3, c4, d1, d2, d3, e1, e2, f1⟩

theorem getFold_emit_mid (ids : ExtIds) (vals : HeaderExtensions) (v : Option Bytes) (rest : List (Nat × Bytes))
    (hv : ∀ m ∈ v, validUtf8 m = true) (hn : vals.mid = none) :
    getFold ids vals (emit ids.mid v id ++ rest) = getFold ids { vals with mid := keep ids.mid v } rest := by
  have hself : { vals with mid := none } = vals := by cases vals; simp_all
  cases v with
  | none => cases hi : ids.mid <;> simp [emit, keep, hself]
  | some a =>
    cases hi : ids.mid with
    | none => simp [emit, keep, hself]
    | some i =>
      by_cases h0 : i = 0
      · simp [emit, keep, h0, hself]
      · have := hv a rfl
        simp [emit, keep, h0, getFold, getStep, hi, this]

theorem getFold_emit_rrid (ids : ExtIds) (hids : ids.WF) (vals : HeaderExtensions) (v : Option Bytes)
    (rest : List (Nat × Bytes)) (hv : ∀ m ∈ v, validAscii m = true) (hn : vals.repairedRtpStreamId = none) :
    getFold ids vals (emit ids.repairedRtpStreamId v id ++ rest) =
      getFold ids { vals with repairedRtpStreamId := keep ids.repairedRtpStreamId v } rest := by
  have hself : { vals with repairedRtpStreamId := none } = vals := by cases vals; simp_all
  obtain ⟨a1, a2, a3, a4, a5, a6, b1, b2, b3, b4, b5, c1, c2, c3, c4, d1, d2, d3, e1, e2, f1⟩ := hids.pairs
  cases v with
  | none => cases hi : ids.repairedRtpStreamId <;> simp [emit, keep, hself]
  | some a =>
    cases hi : ids.repairedRtpStreamId with
    | none => simp [emit, keep, hself]
    | some i =>
      by_cases h0 : i = 0
      · simp [emit, keep, h0, hself]
      · have hva := hv a rfl
        simp [emit, keep, h0, getFold, getStep, hi, a1.ne_l hi, hva]

theorem getFold_emit_rid (ids : ExtIds) (hids : ids.WF) (vals : HeaderExtensions) (v : Option Bytes)
    (rest : List (Nat × Bytes)) (hv : ∀ m ∈ v, validAscii m = true) (hn : vals.rtpStreamId = none) :
    getFold ids vals (emit ids.rtpStreamId v id ++ rest) =
      getFold ids { vals with rtpStreamId := keep ids.rtpStreamId v } rest := by
  have hself : { vals with rtpStreamId := none } = vals := by cases vals; simp_all
  obtain ⟨a1, a2, a3, a4, a5, a6, b1, b2, b3, b4, b5, c1, c2, c3, c4, d1, d2, d3, e1, e2, f1⟩ := hids.pairs
  cases v with
  | none => cases hi : ids.rtpStreamId <;> simp [emit, keep, hself]
  | some a =>
    cases hi : ids.rtpStreamId with
    | none => simp [emit, keep, hself]
    | some i =>
      by_cases h0 : i = 0
      · simp [emit, keep, h0, hself]
      · have hva := hv a rfl
        simp [emit, keep, h0, getFold, getStep, hi, a2.ne_l hi, b1.ne_l hi, hva]

theorem getFold_emit_abs (ids : ExtIds) (hids : ids.WF) (vals : HeaderExtensions) (v : Option Nat)
    (rest : List (Nat × Bytes)) (hv : ∀ m ∈ v, m < 16777216) (hn : vals.absSendTime = none) :
    getFold ids vals (emit ids.absSendTime v u24be ++ rest) =
      getFold ids { vals with absSendTime := keep ids.absSendTime v } rest := by
  have hself : { vals with absSendTime := none } = vals := by cases vals; simp_all
  obtain ⟨a1, a2, a3, a4, a5, a6, b1, b2, b3, b4, b5, c1, c2, c3, c4, d1, d2, d3, e1, e2, f1⟩ := hids.pairs
  cases v with
  | none => cases hi : ids.absSendTime <;> simp [emit, keep, hself]
  | some a =>
    cases hi : ids.absSendTime with
    | none => simp [emit, keep, hself]
    | some i =>
      by_cases h0 : i = 0
      · simp [emit, keep, h0, hself]
      · have hva := hv a rfl
        simp [emit, keep, h0, getFold, getStep, hi, a3.ne_l hi, b2.ne_l hi, c1.ne_l hi, u24be]
        rw [show (a / 65536 % 256 * 256 + a / 256 % 256) * 256 + a % 256 = a by omega]
theorem s24_u24be (c : Int) (h1 : -8388608 ≤ c) (h2 : c < 8388608) :
    s24 ((c % 16777216).toNat / 65536 % 256) ((c % 16777216).toNat / 256 % 256) ((c % 16777216).toNat % 256) = c := by
  unfold s24; split <;> omega

theorem getFold_emit_toff (ids : ExtIds) (hids : ids.WF) (vals : HeaderExtensions) (v : Option Int)
    (rest : List (Nat × Bytes)) (hv : ∀ m ∈ v, -8388608 ≤ m ∧ m < 8388608) (hn : vals.transmissionOffset = none) :
    getFold ids vals (emit ids.transmissionOffset v encOffset ++ rest) =
      getFold ids { vals with transmissionOffset := keep ids.transmissionOffset v } rest := by
  have hself : { vals with transmissionOffset := none } = vals := by cases vals; simp_all
  obtain ⟨a1, a2, a3, a4, a5, a6, b1, b2, b3, b4, b5, c1, c2, c3, c4, d1, d2, d3, e1, e2, f1⟩ := hids.pairs
  cases v with
  | none => cases hi : ids.transmissionOffset <;> simp [emit, keep, hself]
  | some a =>
    cases hi : ids.transmissionOffset with
    | none => simp [emit, keep, hself]
    | some i =>
      by_cases h0 : i = 0
      · simp [emit, keep, h0, hself]
      · have hva := hv a rfl
        simp [emit, keep, h0, getFold, getStep, hi, a4.ne_l hi, b3.ne_l hi, c2.ne_l hi, d1.ne_l hi, encOffset, u24be]
        rw [s24_u24be a hva.1 hva.2]
theorem audio_byte (b : Bool) (n : Nat) (h : n < 128) :
    ((if b then 0x80 else 0) ||| (n % 128)) / 128 % 2 = (if b then 1 else 0)
    ∧ ((if b then 0x80 else 0) ||| (n % 128)) % 128 = n := by
  cases b
  · simp only [Bool.false_eq_true, ↓reduceIte, Nat.zero_or]; omega
  · have : (0x80 : Nat) ||| (n % 128) = 1 * 2 ^ 7 + n % 128 := or_eq_add 1 (n % 128) 7 (by omega)
    simp only [↓reduceIte, this]; omega

theorem getFold_emit_al (ids : ExtIds) (hids : ids.WF) (vals : HeaderExtensions) (v : Option (Bool × Nat))
    (rest : List (Nat × Bytes)) (hv : ∀ m ∈ v, m.2 < 128) (hn : vals.audioLevel = none) :
    getFold ids vals (emit ids.audioLevel v encAudio ++ rest) =
      getFold ids { vals with audioLevel := keep ids.audioLevel v } rest := by
  have hself : { vals with audioLevel := none } = vals := by cases vals; simp_all
  obtain ⟨a1, a2, a3, a4, a5, a6, b1, b2, b3, b4, b5, c1, c2, c3, c4, d1, d2, d3, e1, e2, f1⟩ := hids.pairs
  cases v with
  | none => cases hi : ids.audioLevel <;> simp [emit, keep, hself]
  | some a =>
    cases hi : ids.audioLevel with
    | none => simp [emit, keep, hself]
    | some i =>
      by_cases h0 : i = 0
      · simp [emit, keep, h0, hself]
      · have hva := hv a rfl
        obtain ⟨ab, an⟩ := a
        have hab := audio_byte ab an hva
        simp [emit, keep, h0, getFold, getStep, hi, a5.ne_l hi, b4.ne_l hi, c3.ne_l hi, d2.ne_l hi, e1.ne_l hi, encAudio]
        rw [hab.1, hab.2]; cases ab <;> rfl
theorem getFold_emit_tsn (ids : ExtIds) (hids : ids.WF) (vals : HeaderExtensions) (v : Option Nat)
    (rest : List (Nat × Bytes)) (hv : ∀ m ∈ v, m < 65536) (hn : vals.transportSequenceNumber = none) :
    getFold ids vals (emit ids.transportSequenceNumber v u16be ++ rest) =
      getFold ids { vals with transportSequenceNumber := keep ids.transportSequenceNumber v } rest := by
  have hself : { vals with transportSequenceNumber := none } = vals := by cases vals; simp_all
  obtain ⟨a1, a2, a3, a4, a5, a6, b1, b2, b3, b4, b5, c1, c2, c3, c4, d1, d2, d3, e1, e2, f1⟩ := hids.pairs
  cases v with
  | none => cases hi : ids.transportSequenceNumber <;> simp [emit, keep, hself]
  | some a =>
    cases hi : ids.transportSequenceNumber with
    | none => simp [emit, keep, hself]
    | some i =>
      by_cases h0 : i = 0
      · simp [emit, keep, h0, hself]
      · have hva := hv a rfl
        simp [emit, keep, h0, getFold, getStep, hi, a6.ne_l hi, b5.ne_l hi, c4.ne_l hi, d3.ne_l hi, e2.ne_l hi, f1.ne_l hi, u16be]
        rw [u16_recombine a hva]

theorem getFold_extList (ids : ExtIds) (hids : ids.WF) (v : HeaderExtensions) (hv : v.WF) :
    getFold ids {} (extList ids v) = ok (restrict ids v) := by
  obtain ⟨h1, h2, h3, h4, h5, h6, h7⟩ := hv
  have key : ∀ rest, getFold ids {} (extList ids v ++ rest) = getFold ids (restrict ids v) rest := by
    intro rest
    unfold extList
    simp only [List.append_assoc]
    rw [getFold_emit_mid ids _ _ _ (fun m hm => (h3 m hm).2.1) rfl,
      getFold_emit_rrid ids hids _ _ _ (fun m hm => (h4 m hm).2.1) rfl,
      getFold_emit_rid ids hids _ _ _ (fun m hm => (h5 m hm).2.1) rfl,
      getFold_emit_abs ids hids _ _ _ h1 rfl,
      getFold_emit_toff ids hids _ _ _ h6 rfl,
      getFold_emit_al ids hids _ _ _ h2 rfl,
      getFold_emit_tsn ids hids _ _ _ h7 rfl]
    rfl
  have := key []
  rwa [List.append_nil] at this

/-- Every entry handed to `pack_header_extensions` satisfies its assertions. -/
theorem extList_wf (ids : ExtIds) (hids : ids.WF) (v : HeaderExtensions) (hv : v.WF) :
    (∀ x ∈ extList ids v, 0 < x.1 ∧ x.1 < 256 ∧ x.2.length < 256) ∧ (extList ids v).length ≤ 7 := by
  obtain ⟨h1, h2, h3, h4, h5, h6, h7⟩ := hv
  have hr := hids.1
  simp only [ExtIds.toList, List.mem_cons, List.not_mem_nil, or_false, forall_eq_or_imp, forall_eq] at hr
  obtain ⟨r1, r2, r3, r4, r5, r6, r7⟩ := hr
  have emit_spec : ∀ {α} (i : Option Nat) (o : Option α) (enc : α → Bytes),
      (∀ j ∈ i, 0 < j ∧ j < 256) → (∀ a ∈ o, (enc a).length < 256) →
      (∀ x ∈ emit i o enc, 0 < x.1 ∧ x.1 < 256 ∧ x.2.length < 256) ∧ (emit i o enc).length ≤ 1 := by
    intro α i o enc hi ho
    cases o with
    | none => cases i <;> simp [emit]
    | some a =>
      cases i with
      | none => simp [emit]
      | some j =>
        have := hi j rfl; have := ho a rfl
        by_cases h0 : j = 0 <;> simp [emit, h0]
        omega
  have e1 := emit_spec ids.mid v.mid id r1 (fun a ha => (h3 a ha).2.2)
  have e2 := emit_spec ids.repairedRtpStreamId v.repairedRtpStreamId id r2 (fun a ha => (h4 a ha).2.2)
  have e3 := emit_spec ids.rtpStreamId v.rtpStreamId id r3 (fun a ha => (h5 a ha).2.2)
  have e4 := emit_spec ids.absSendTime v.absSendTime u24be r4 (fun a _ => by simp)
  have e5 := emit_spec ids.transmissionOffset v.transmissionOffset encOffset r5 (fun a _ => by simp [encOffset])
  have e6 := emit_spec ids.audioLevel v.audioLevel encAudio r6 (fun a _ => by simp [encAudio])
  have e7 := emit_spec ids.transportSequenceNumber v.transportSequenceNumber u16be r7 (fun a _ => by simp)
  unfold extList
  constructor
  · intro x hx
    simp only [List.mem_append] at hx
    rcases hx with (((((hx | hx) | hx) | hx) | hx) | hx) | hx
    · exact e1.1 x hx
    · exact e2.1 x hx
    · exact e3.1 x hx
    · exact e4.1 x hx
    · exact e5.1 x hx
    · exact e6.1 x hx
    · exact e7.1 x hx
  · simp only [List.length_append]; omega


/-! ## RtpPacket.parse ∘ serialize -/


theorem hdr_byte : ∀ (pd x : Bool) (cc : Fin 16),
    (2 <<< 6) ||| (b2n pd <<< 5) ||| (b2n x <<< 4) ||| cc.val = 128 + 32 * b2n pd + 16 * b2n x + cc.val := by
  decide

/-- The extension stage undoes what `serialize` wrote. -/
theorem parseExtBlock_ser (ids : ExtIds) (hids : ids.WF) (v : HeaderExtensions) (hv : v.WF) (tail : Bytes) :
    parseExtBlock ids (!(extSet ids v).2.isEmpty)
      ((if (!(extSet ids v).2.isEmpty) = true then
          u16be (extSet ids v).1 ++ u16be ((extSet ids v).2.length >>> 2) ++ (extSet ids v).2 else []) ++ tail)
      = ok (restrict ids v, tail) := by
  have hfold := getFold_extList ids hids v hv
  obtain ⟨hwf, hlen7⟩ := extList_wf ids hids v hv
  unfold extSet
  by_cases hne : extList ids v = []
  · rw [hne] at hfold ⊢
    simp only [packHeaderExtensions, List.isEmpty_nil, ↓reduceIte, Bool.not_true, Bool.false_eq_true,
      parseExtBlock, List.nil_append]
    simp only [getFold] at hfold
    injection hfold with hfold
    rw [hfold]
  · obtain ⟨h1, h2, h3, h4, h5⟩ := unpack_pack (extList ids v) hne hwf
    generalize packHeaderExtensions (extList ids v) = pk at *
    obtain ⟨prof, val⟩ := pk
    simp only at h1 h2 h3 h4 h5 ⊢
    have hemp : val.isEmpty = false := by cases val <;> simp_all
    simp only [hemp, Bool.not_false, ↓reduceIte, parseExtBlock, u16be, List.cons_append, List.nil_append,
      Nat.shiftRight_eq_div_pow]
    have e1 : (val.length / 2 ^ 2 / 256 % 256 * 256 + val.length / 2 ^ 2 % 256) * 4 = val.length := by omega
    rw [e1, u16_recombine prof h5, if_neg (by simp), List.take_left, List.drop_left]
    unfold extGet
    rw [h1]; simp only [bind_ok']
    rw [hfold]; rfl

theorem splitPadding_ser (n last : Nat) (payload pad : Bytes) (hpad : 0 < n → pad.length = n - 1)
    (hlast : 0 < n → last = n) :
    splitPadding (decide (n > 0)) last
      (payload ++ (if decide (n > 0) = true then pad ++ [n] else [])) = ok (payload, n) := by
  unfold splitPadding
  by_cases h : n > 0
  · have := hpad h
    rw [hlast h]
    simp only [h, decide_true, ↓reduceIte, List.length_append, List.length_cons, List.length_nil]
    rw [if_neg (by omega)]
    have : payload.length + (pad.length + (0 + 1)) - n = payload.length := by omega
    rw [this, List.take_left]
  · have : n = 0 := by omega
    subst this; simp

theorem hdr_fields (pd x : Bool) (cc : Nat) (h : cc < 16) :
    (128 + 32 * b2n pd + 16 * b2n x + cc) / 64 = 2 ∧ (128 + 32 * b2n pd + 16 * b2n x + cc) % 16 = cc
    ∧ ((128 + 32 * b2n pd + 16 * b2n x + cc) / 16 % 2 == 1) = x
    ∧ ((128 + 32 * b2n pd + 16 * b2n x + cc) / 32 % 2 == 1) = pd := by
  cases pd <;> cases x <;> simp [b2n] <;> omega

theorem endsWith_append {n : Nat} (l m : Bytes) (h : m.getLast? = some n) : (l ++ m).getLast? = some n := by
  rw [List.getLast?_append, h]; rfl
theorem endsWith_cons {n : Nat} (a : Nat) (m : Bytes) (h : m.getLast? = some n) : (a :: m).getLast? = some n :=
  endsWith_append [a] m h

theorem parse_serialize (ids : ExtIds) (hids : ids.WF) (p : RtpPacket) (hp : p.WF) (pad : Bytes)
    (hpad : 0 < p.paddingSize → pad.length = p.paddingSize - 1) :
    parse ids (serialize ids p pad) = ok { p with extensions := restrict ids p.extensions } := by
  obtain ⟨hm, hpt, hseq, hts, hssrc, hcc, hcsrc, hext, _, hps⟩ := hp
  have hb0 := hdr_byte (decide (p.paddingSize > 0)) (!(extSet ids p.extensions).2.isEmpty) ⟨p.csrc.length, hcc⟩
  have hb1 : (p.marker <<< 7) ||| p.payloadType = p.marker * 128 + p.payloadType := or_eq_add _ _ 7 hpt
  have hX := parseExtBlock_ser ids hids p.extensions hext
  -- the last byte of the datagram
  have hlast : 0 < p.paddingSize → ((serialize ids p pad).getLast?).getD 0 = p.paddingSize := by
    intro h
    unfold serialize
    simp only [h, gt_iff_lt, decide_true, ↓reduceIte, List.append_assoc, List.cons_append, List.nil_append]
    have : ∀ l : Bytes, l.getLast? = some p.paddingSize → l.getLast?.getD 0 = p.paddingSize := by
      intro l hl; rw [hl]; rfl
    apply this
    repeat (first | exact rfl | apply endsWith_cons | apply endsWith_append)
  generalize hd : serialize ids p pad = data at hlast
  unfold serialize at hd
  simp only at hb0 hd
  rw [hb0, hb1] at hd
  have hX' := hX (p.payload ++ (if decide (p.paddingSize > 0) = true then pad ++ [p.paddingSize] else []))
  have hS := splitPadding_ser p.paddingSize (data.getLast?.getD 0) p.payload pad hpad hlast
  simp only [List.append_assoc] at hd hX'
  generalize extSet ids p.extensions = ext at *
  generalize hT : (if (!ext.2.isEmpty) = true then u16be ext.1 ++ (u16be (ext.2.length >>> 2) ++ ext.2) else [])
    ++ (p.payload ++ (if decide (p.paddingSize > 0) = true then pad ++ [p.paddingSize] else [])) = T at hd hX'
  simp only [u16be, u32be, List.cons_append, List.nil_append, List.append_assoc] at hd
  subst hd
  have hlen := length_flatMap_u32be p.csrc
  have hB := hdr_fields (decide (p.paddingSize > 0)) (!ext.2.isEmpty) p.csrc.length hcc
  obtain ⟨hB1, hB2, hB3, hB4⟩ := hB
  unfold parse
  simp only [hB1, hB2, hB3, hB4, List.length_append, hlen] at hS ⊢
  rw [if_neg (by omega), if_neg (by omega), List.drop_left' (by omega), hX']
  simp only [bind_ok']
  rw [hS]
  simp only [bind_ok']
  rw [readU32s_flatMap p.csrc hcsrc T]
  congr 1
  cases p
  simp only [RtpPacket.mk.injEq] at *
  clear hb0 hb1 hB1 hB2 hB3 hB4 hX hS hlast hX'
  and_intros <;> first | trivial | omega


end Aiortc.Rtp
