import Aiortc.Model.Rtp.Rtcp
import Aiortc.Lemmas.Rtp.Fields
/-! Round-trip lemmas for the RTCP packet classes and the compound parser. -/
namespace Aiortc.Rtp
open Aiortc Aiortc.Outcome

@[simp] theorem bind_ok {α β} (a : α) (f : α → Outcome β) : (Outcome.ok a).bind f = f a := rfl

theorem beVal_u64be (n : Nat) (h : n < 18446744073709551616) : beVal (u64be n) = n := by
  simp [beVal, u64be, u32be]; omega

/-! ## receiver / sender info -/

theorem length_serReceiverInfo (r : ReceiverInfo) : (serReceiverInfo r).length = 24 := by
  simp [serReceiverInfo, lostBytes]

theorem parseReceiverInfo_ser (r : ReceiverInfo) (h : r.WF) :
    parseReceiverInfo (serReceiverInfo r) = ok r := by
  obtain ⟨h1, h2, ⟨h3, h3'⟩, h4, h5, h6, h7⟩ := h
  unfold U32 at *
  have hl := unpackLost_lostBytes r.packetsLost h3 h3'
  unfold parseReceiverInfo serReceiverInfo lostBytes
  simp only [u32be, u24be, List.cons_append, List.nil_append, slice, List.take_succ_cons, List.take_zero,
    List.drop_succ_cons, List.drop_zero, List.length_cons, List.length_nil] at hl ⊢
  rw [hl]
  simp only [bind_ok, beVal, List.foldl_cons, List.foldl_nil]
  simp only [Nat.zero_mul, Nat.zero_add, ne_eq, not_true_eq_false, ↓reduceIte, Nat.reduceAdd]
  congr 1
  cases r
  simp only [ReceiverInfo.mk.injEq] at *
  and_intros <;> first | trivial | omega

theorem length_flatMap_ri (rs : List ReceiverInfo) : (rs.flatMap serReceiverInfo).length = 24 * rs.length := by
  induction rs with
  | nil => rfl
  | cons a l ih => simp [List.flatMap_cons, ih, length_serReceiverInfo]; omega

theorem parseReports_ser (rs : List ReceiverInfo) (h : ∀ r ∈ rs, r.WF) (tail : Bytes) :
    parseReports rs.length (rs.flatMap serReceiverInfo ++ tail) = ok rs := by
  induction rs with
  | nil => rfl
  | cons r rs ih =>
    have hl := length_serReceiverInfo r
    simp only [List.flatMap_cons, List.length_cons, parseReports, List.append_assoc]
    rw [List.take_left' hl, List.drop_left' hl, parseReceiverInfo_ser r (h r (by simp)),
      ih (fun x hx => h x (by simp [hx]))]
    rfl

theorem length_serSenderInfo (s : SenderInfo) : (serSenderInfo s).length = 20 := by
  simp [serSenderInfo]

theorem parseSenderInfo_ser (s : SenderInfo) (h : s.WF) : parseSenderInfo (serSenderInfo s) = ok s := by
  obtain ⟨h1, h2, h3, h4⟩ := h
  unfold U32 at *
  unfold parseSenderInfo
  rw [if_neg (by simp [length_serSenderInfo])]
  unfold serSenderInfo
  simp only [u64be, u32be, List.cons_append, List.nil_append, slice, List.take_succ_cons, List.take_zero,
    List.drop_succ_cons, List.drop_zero, beVal, List.foldl_cons, List.foldl_nil]
  congr 1
  cases s
  simp only [SenderInfo.mk.injEq] at *
  and_intros <;> omega

/-! ## SDES -/

theorem parseItems_ser (items : List (Nat × Bytes)) (h : ∀ it ∈ items, ItemWF it) :
    ∀ (acc : List (Nat × Bytes)) (tail : Bytes),
    parseItems (items.flatMap serItem ++ [0, 0] ++ tail) acc = ok (acc ++ items, tail) := by
  induction items with
  | nil => intro acc tail; simp [parseItems]
  | cons it items ih =>
    intro acc tail
    obtain ⟨t, v⟩ := it
    have hw := h (t, v) (by simp)
    simp only [ItemWF] at hw
    simp only [List.flatMap_cons, serItem, List.cons_append, List.nil_append, List.append_assoc]
    rw [parseItems]
    simp only [List.length_append, List.take_left, List.drop_left]
    rw [if_neg (by omega), if_neg (by omega)]
    have := ih (fun x hx => h x (by simp [hx])) (acc ++ [(t, v)]) tail
    simp only [List.append_assoc, List.cons_append, List.nil_append] at this
    rw [this]

theorem parseChunks_ser (cs : List SourceInfo) (h : ∀ c ∈ cs, c.WF) (tail : Bytes) :
    parseChunks cs.length (cs.flatMap serChunk ++ tail) = ok cs := by
  induction cs with
  | nil => rfl
  | cons c cs ih =>
    obtain ⟨h1, h2⟩ := h c (by simp)
    simp only [List.flatMap_cons, List.length_cons, parseChunks, serChunk, List.append_assoc]
    rw [if_neg (by simp)]
    rw [take4_u32be_append, drop4_u32be_append, beVal_u32be _ h1]
    have := parseItems_ser c.items h2 [] (cs.flatMap serChunk ++ tail)
    simp only [List.append_assoc, List.nil_append] at this
    rw [this]
    simp only [bind_ok]
    rw [ih (fun x hx => h x (by simp [hx]))]
    rfl

theorem length_pad4 (d : Bytes) : (pad4 d).length % 4 = 0 := by
  simp [pad4, zeros]; omega

/-! ## common header -/

/-- One step of `parseCompound` on a packet produced by `packRtcp` followed by anything. -/
theorem parseCompound_packRtcp (pt count : Nat) (payload tail : Bytes) (hc : count < 32)
    (hl : payload.length % 4 = 0) (hn : payload.length / 4 < 65536) :
    parseCompound (packRtcp pt count payload ++ tail) =
      ((parseBody pt count payload).bind fun p =>
        (parseCompound tail).bind fun ps => ok (p.toList ++ ps)) := by
  have hb : (2 <<< 6) ||| count = 128 + count := by
    rw [or_eq_add 2 count 6 (by omega)]
  unfold packRtcp
  simp only [hb, u16be, List.cons_append, List.nil_append]
  rw [parseCompound]
  have e1 : (payload.length / 4 / 256 % 256 * 256 + payload.length / 4 % 256) * 4 = payload.length := by omega
  simp only [e1, List.length_append, List.take_left, List.drop_left]
  rw [if_neg (by omega), if_neg (by omega), if_neg (by omega)]
  have e2 : (128 + count) % 32 = count := by omega
  rw [e2]; rfl

/-! ## NACK list equality on ascending lists -/


def nackF (pid blp : Nat) (d : Nat) : Option Nat :=
  if blp.testBit d then some ((pid + d + 1) % 65536) else none

theorem nackBits_eq (pid blp : Nat) : nackBits pid blp = (List.range 16).filterMap (nackF pid blp) := rfl

/-- Setting bit `d` above every set bit of `blp` appends exactly one entry. -/
theorem filterMap_setBit (pid blp d : Nat) (hhi : ∀ d', blp.testBit d' = true → d' < d) (n : Nat) :
    (List.range n).filterMap (nackF pid (blp ||| 2 ^ d)) =
      (List.range n).filterMap (nackF pid blp) ++ (if d < n then [(pid + d + 1) % 65536] else []) := by
  induction n with
  | zero => simp
  | succ n ih =>
    rw [List.range_succ, List.filterMap_append, List.filterMap_append, ih]
    have hf' : nackF pid (blp ||| 2 ^ d) n =
        if n = d then some ((pid + d + 1) % 65536) else nackF pid blp n := by
      unfold nackF
      simp only [Nat.testBit_or, Nat.testBit_two_pow]
      by_cases hnd : n = d
      · subst hnd; simp
      · have : ¬ d = n := fun h => hnd h.symm
        simp [hnd, this]
    have hf : d ≤ n → nackF pid blp n = none := by
      intro hle
      unfold nackF
      split
      · next hb => have := hhi n hb; omega
      · rfl
    simp only [List.filterMap_cons, List.filterMap_nil, hf']
    by_cases h1 : n = d
    · subst h1
      simp [hf (Nat.le_refl _)]
    · by_cases h2 : d < n
      · have h3 : d < n + 1 := by omega
        simp [h1, h2, h3, hf (by omega)]
      · have h3 : ¬ d < n + 1 := by omega
        simp [h1, h2, h3]

theorem nackBits_setBit (pid blp d : Nat) (hd : d < 16) (hhi : ∀ d', blp.testBit d' = true → d' < d) :
    nackBits pid (blp ||| 2 ^ d) = nackBits pid blp ++ [(pid + d + 1) % 65536] := by
  rw [nackBits_eq, nackBits_eq, filterMap_setBit pid blp d hhi 16, if_pos hd]

theorem ascending_head_lt : ∀ (a : Nat) (l : List Nat), Ascending (a :: l) → ∀ x ∈ l, a < x
  | _, [], _, x, hx => by cases hx
  | a, b :: l, h, x, hx => by
    obtain ⟨hab, hl⟩ := h
    rcases List.mem_cons.mp hx with rfl | hx'
    · exact hab
    · exact Nat.lt_trans hab (ascending_head_lt b l hl x hx')

theorem ascending_tail : ∀ (a : Nat) (l : List Nat), Ascending (a :: l) → Ascending l
  | _, [], _ => trivial
  | _, _ :: _, h => h.2

/-- List equality on ascending input: the loop invariant. -/
theorem nackEntries_nackPack_asc (ps : List Nat) : ∀ (pid blp : Nat) (tail : Bytes), pid < 65536 → blp < 65536 →
    (∀ p ∈ ps, p < 65536) → Ascending ps → (∀ p ∈ ps, pid < p) →
    (∀ d, blp.testBit d = true → ∀ p ∈ ps, pid + d + 1 < p) →
    nackEntries (nackPack pid blp ps ++ tail) = pid :: nackBits pid blp ++ ps ++ nackEntries tail := by
  induction ps with
  | nil =>
    intro pid blp tail hp hb _ _ _ _
    simp only [nackPack, nackEntries_pair pid blp hp hb, List.append_nil, List.cons_append]
  | cons p ps ih =>
    intro pid blp tail hpid hb hps hasc hgt hbits
    have hp : p < 65536 := hps p (by simp)
    have hps' : ∀ q ∈ ps, q < 65536 := fun q hq => hps q (by simp [hq])
    have hpp : pid < p := hgt p (by simp)
    have hlt := ascending_head_lt p ps hasc
    have hd : nackDist p pid = p - pid - 1 := by unfold nackDist; omega
    unfold nackPack
    split
    · next hlt16 =>
      rw [Nat.one_shiftLeft]
      have hb' : blp ||| 2 ^ nackDist p pid < 65536 :=
        Nat.or_lt_two_pow (n := 16) hb (Nat.pow_lt_pow_right (by omega) hlt16)
      have hhi : ∀ d', blp.testBit d' = true → d' < nackDist p pid := by
        intro d' hb1
        have := hbits d' hb1 p (by simp)
        omega
      rw [ih pid _ tail hpid hb' hps' (ascending_tail p ps hasc) (fun q hq => hgt q (by simp [hq])) ?_,
        nackBits_setBit pid blp _ hlt16 hhi]
      · have : (pid + nackDist p pid + 1) % 65536 = p := by omega
        rw [this]; simp
      · intro d hbd q hq
        simp only [Nat.testBit_or, Nat.testBit_two_pow, Bool.or_eq_true, decide_eq_true_eq] at hbd
        rcases hbd with hbd | rfl
        · exact hbits d hbd q (by simp [hq])
        · have := hlt q hq; omega
    · rw [List.append_assoc, nackEntries_pair pid blp hpid hb,
        ih p 0 tail hp (by omega) hps' (ascending_tail p ps hasc) hlt (by simp), nackBits_zero]
      simp

theorem nackEntries_serLost_asc (l : List Nat) (h : ∀ p ∈ l, p < 65536) (hasc : Ascending l) :
    nackEntries (serLost l) = l := by
  cases l with
  | nil => simp [serLost, nackEntries]
  | cons p ps =>
    have := nackEntries_nackPack_asc ps p 0 [] (h p (by simp)) (by omega) (fun q hq => h q (by simp [hq]))
      (ascending_tail p ps hasc) (ascending_head_lt p ps hasc) (by simp)
    simpa [serLost, nackBits_zero, nackEntries] using this


/-! ## packets and compounds -/


/-- What a packet parses back to: identical, except that a NACK list comes back in the parser's
enumeration order (same set: `mem_nackEntries_serLost`; same list if ascending). -/
def normalise : RtcpPacket → RtcpPacket
  | .rtpfb f s m lost => .rtpfb f s m (nackEntries (serLost lost))
  | p => p

set_option linter.unusedSimpArgs false

theorem slice_mid {α} (a b c : List α) (i j : Nat) (ha : a.length = i) (hb : (a ++ b).length = j) :
    slice (a ++ b ++ c) i j = b := by
  unfold slice
  rw [List.take_left' hb, List.drop_left' ha]

theorem slice48 (a b : Nat) (r : Bytes) : slice (u32be a ++ u32be b ++ r) 4 8 = u32be b := by
  simp [slice, u32be]
theorem take4' (a b : Nat) (r : Bytes) : (u32be a ++ u32be b ++ r).take 4 = u32be a := by
  simp [u32be]
theorem drop8 (a b : Nat) (r : Bytes) : (u32be a ++ u32be b ++ r).drop 8 = r := by
  simp [u32be]

theorem parseCompound_serRtcp (p : RtcpPacket) (h : p.WF) (tail : Bytes) :
    parseCompound (serRtcp p ++ tail) = (parseCompound tail).bind fun ps => ok (normalise p :: ps) := by
  cases p with
  | bye sources =>
    obtain ⟨h1, h2⟩ := h
    have hlen := length_flatMap_u32be sources
    unfold serRtcp
    rw [parseCompound_packRtcp _ _ _ _ h1 (by omega) (by omega)]
    unfold parseBody
    simp only [Gen.RTCP_BYE, ↓reduceIte, hlen]
    rw [if_neg (by omega)]
    have := readU32s_flatMap sources h2 []
    simp only [List.append_nil] at this
    rw [this]; rfl
  | psfb fmt ssrc media fci =>
    obtain ⟨h1, h2, h3, _, h5, h6⟩ := h
    unfold U32 at *
    unfold serRtcp
    have hlen : (u32be ssrc ++ u32be media ++ fci).length = 8 + fci.length := by simp; omega
    rw [parseCompound_packRtcp _ _ _ _ h1 (by omega) (by omega)]
    unfold parseBody
    simp only [Gen.RTCP_PSFB, Gen.RTCP_BYE, Gen.RTCP_SDES, Gen.RTCP_SR, Gen.RTCP_RR, Gen.RTCP_RTPFB,
      Nat.reduceEqDiff, ↓reduceIte]
    rw [if_neg (by omega), take4', slice48, drop8, beVal_u32be _ h2, beVal_u32be _ h3]; rfl
  | rr ssrc reports =>
    obtain ⟨h1, h2, h3⟩ := h
    unfold U32 at *
    unfold serRtcp
    have hlen : (u32be ssrc ++ reports.flatMap serReceiverInfo).length = 4 + 24 * reports.length := by
      simp only [List.length_append, length_u32be, length_flatMap_ri]
    rw [parseCompound_packRtcp _ _ _ _ h2 (by omega) (by omega)]
    unfold parseBody
    simp only [Gen.RTCP_PSFB, Gen.RTCP_BYE, Gen.RTCP_SDES, Gen.RTCP_SR, Gen.RTCP_RR, Gen.RTCP_RTPFB,
      Nat.reduceEqDiff, ↓reduceIte]
    rw [if_neg (by omega), take4_u32be_append, drop4_u32be_append, beVal_u32be _ h1]
    have := parseReports_ser reports h3 []
    simp only [List.append_nil] at this
    rw [this]; rfl
  | rtpfb fmt ssrc media lost =>
    obtain ⟨h1, h2, h3, _, h5⟩ := h
    unfold U32 at *
    unfold serRtcp
    have hl4 := length_serLost lost
    have hlen : (u32be ssrc ++ u32be media ++ serLost lost).length = 8 + (serLost lost).length := by
      simp; omega
    rw [parseCompound_packRtcp _ _ _ _ h1 (by omega) (by omega)]
    unfold parseBody
    simp only [Gen.RTCP_PSFB, Gen.RTCP_BYE, Gen.RTCP_SDES, Gen.RTCP_SR, Gen.RTCP_RR, Gen.RTCP_RTPFB,
      Nat.reduceEqDiff, ↓reduceIte]
    rw [if_neg (by omega), take4', slice48, drop8, beVal_u32be _ h2, beVal_u32be _ h3]; rfl
  | sdes chunks =>
    obtain ⟨h1, h2, h3⟩ := h
    unfold serRtcp
    rw [parseCompound_packRtcp _ _ _ _ h1 (length_pad4 _) h3]
    unfold parseBody
    simp only [Gen.RTCP_PSFB, Gen.RTCP_BYE, Gen.RTCP_SDES, Gen.RTCP_SR, Gen.RTCP_RR, Gen.RTCP_RTPFB,
      Nat.reduceEqDiff, ↓reduceIte]
    unfold pad4
    rw [parseChunks_ser chunks h2]; rfl
  | sr ssrc info reports =>
    obtain ⟨h1, h2, h3, h4⟩ := h
    unfold U32 at *
    unfold serRtcp
    have hsi := length_serSenderInfo info
    have hlen : (u32be ssrc ++ serSenderInfo info ++ reports.flatMap serReceiverInfo).length
        = 24 + 24 * reports.length := by
      simp only [List.length_append, length_u32be, length_flatMap_ri, hsi]
    rw [parseCompound_packRtcp _ _ _ _ h3 (by omega) (by omega)]
    unfold parseBody
    simp only [Gen.RTCP_PSFB, Gen.RTCP_BYE, Gen.RTCP_SDES, Gen.RTCP_SR, Gen.RTCP_RR, Gen.RTCP_RTPFB,
      Nat.reduceEqDiff, ↓reduceIte]
    rw [if_neg (by omega)]
    have e1 : slice (u32be ssrc ++ serSenderInfo info ++ reports.flatMap serReceiverInfo) 4 24
        = serSenderInfo info := by
      exact slice_mid _ _ _ 4 24 (by simp) (by simp [hsi])
    have e2 : (u32be ssrc ++ serSenderInfo info ++ reports.flatMap serReceiverInfo).drop 24
        = reports.flatMap serReceiverInfo := List.drop_left' (by simp [hsi])
    rw [e1, e2, parseSenderInfo_ser info h2, List.append_assoc, take4_u32be_append, beVal_u32be _ h1]
    have := parseReports_ser reports h4 []
    simp only [List.append_nil] at this
    rw [this]; rfl


theorem normalise_of_ascending (p : RtcpPacket) (h : p.WF)
    (hasc : ∀ f s m lost, p = .rtpfb f s m lost → Ascending lost) : normalise p = p := by
  cases p with
  | rtpfb f s m lost =>
    obtain ⟨_, _, _, h4, _⟩ := h
    simp only [normalise]
    rw [nackEntries_serLost_asc lost h4 (hasc f s m lost rfl)]
  | _ => rfl

theorem parseCompound_serCompound (ps : List RtcpPacket) (h : ∀ p ∈ ps, p.WF) :
    parseCompound (serCompound ps) = ok (ps.map normalise) := by
  induction ps with
  | nil => simp [serCompound, parseCompound]
  | cons p ps ih =>
    have := ih (fun q hq => h q (by simp [hq]))
    unfold serCompound at this ⊢
    rw [List.flatMap_cons, parseCompound_serRtcp p (h p (by simp)), this]; rfl

end Aiortc.Rtp
