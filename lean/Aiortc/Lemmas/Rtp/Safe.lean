import Aiortc.Model.Rtp.Rtcp
import Aiortc.Model.Rtp.Packet
/-! The modelled rtp.py parsers raise nothing but `ValueError` (for C05: no datagram crashes the receive path). -/
namespace Aiortc.Rtp
open Aiortc Aiortc.Outcome

/-- Returns normally or raises ValueError: no `struct.error`/`IndexError`/…, no non-termination. -/
def Safe {α} (o : Outcome α) : Prop := o = valueError ∨ ∃ a, o = ok a

theorem safe_ok {α} (a : α) : Safe (ok a) := Or.inr ⟨a, rfl⟩
theorem safe_ve {α} : Safe (valueError : Outcome α) := Or.inl rfl

theorem Safe.bind {α β} {x : Outcome α} {f : α → Outcome β} (hx : Safe x) (hf : ∀ a, Safe (f a)) :
    Safe (x.bind f) := by
  rcases hx with rfl | ⟨a, rfl⟩
  · exact safe_ve
  · exact hf a

/-! ## RTP -/

theorem unpackOneByte_safe (d : Bytes) : Safe (unpackOneByte d) := by
  induction d using unpackOneByte.induct with
  | case1 => rw [unpackOneByte]; exact safe_ok _
  | case2 rest ih => rw [unpackOneByte, if_pos rfl]; exact ih
  | case3 b rest hb hlt => rw [unpackOneByte, if_neg hb, if_pos hlt]; exact safe_ve
  | case4 b rest hb hlt ih =>
    rw [unpackOneByte, if_neg hb, if_neg hlt]; exact ih.bind fun _ => safe_ok _

theorem unpackTwoByte_safe' : ∀ (n : Nat) (d : Bytes), d.length ≤ n → Safe (unpackTwoByte d) := by
  intro n
  induction n with
  | zero =>
    intro d h
    have : d = [] := List.eq_nil_of_length_eq_zero (by omega)
    subst this; unfold unpackTwoByte; exact safe_ok _
  | succ n ih =>
    intro d h
    unfold unpackTwoByte
    split
    · exact safe_ok _
    · next b rest =>
      simp only [List.length_cons] at h
      split
      · exact ih rest (by omega)
      · split
        · exact safe_ve
        · next l rest' =>
          simp only [List.length_cons] at h
          split
          · exact safe_ve
          · exact (ih _ (by simp only [List.length_drop]; omega)).bind fun _ => safe_ok _

theorem unpackTwoByte_safe (d : Bytes) : Safe (unpackTwoByte d) := unpackTwoByte_safe' d.length d (Nat.le_refl _)

theorem getStep_safe (ids : ExtIds) (vals : HeaderExtensions) (x : Nat × Bytes) : Safe (getStep ids vals x) := by
  unfold getStep
  repeat' split
  all_goals first | exact safe_ok _ | exact safe_ve

theorem getFold_safe (ids : ExtIds) (xs : List (Nat × Bytes)) : ∀ vals, Safe (getFold ids vals xs) := by
  induction xs with
  | nil => intro vals; exact safe_ok _
  | cons x xs ih => intro vals; exact (getStep_safe ids vals x).bind fun v => ih v

theorem extGet_safe (ids : ExtIds) (profile : Nat) (value : Bytes) : Safe (extGet ids profile value) := by
  unfold extGet
  refine Safe.bind ?_ fun xs => getFold_safe ids xs _
  unfold unpackHeaderExtensions
  split
  · exact unpackOneByte_safe _
  · split
    · exact unpackTwoByte_safe _
    · exact safe_ok _

theorem parseExtBlock_safe (ids : ExtIds) (x : Bool) (d : Bytes) : Safe (parseExtBlock ids x d) := by
  unfold parseExtBlock
  split
  · split
    · dsimp only
      split
      · exact safe_ve
      · exact (extGet_safe ids _ _).bind fun _ => safe_ok _
    · exact safe_ve
  · exact safe_ok _

theorem splitPadding_safe (x : Bool) (last : Nat) (body : Bytes) : Safe (splitPadding x last body) := by
  unfold splitPadding
  repeat' split
  all_goals first | exact safe_ok _ | exact safe_ve

/-- `RtpPacket.parse` (fixed tree): for EVERY id map and EVERY input, ValueError or a packet. -/
theorem parse_safe (ids : ExtIds) (data : Bytes) : Safe (parse ids data) := by
  unfold parse
  split
  · split
    · exact safe_ve
    · dsimp only
      split
      · exact safe_ve
      · exact (parseExtBlock_safe ids _ _).bind fun _ => (splitPadding_safe _ _ _).bind fun _ => safe_ok _
  · exact safe_ve

/-! ## RTCP -/

theorem unpackRemb_safe (d : Bytes) : Safe (unpackRemb d) := by
  unfold unpackRemb
  repeat' split
  all_goals first | exact safe_ok _ | exact safe_ve

theorem parseReceiverInfo_safe (d : Bytes) (h : d.length = 24) : Safe (parseReceiverInfo d) := by
  unfold parseReceiverInfo
  rw [if_neg (by simp [h])]
  have h3 : (slice d 5 8).length = 3 := by simp [slice, h]
  match hs : slice d 5 8, h3 with
  | [a, b, c], _ =>
    simp only [unpackLost, Outcome.bind]
    rw [if_neg (by simp [h])]
    exact safe_ok _

theorem parseReports_safe : ∀ (n : Nat) (d : Bytes), d.length = 24 * n → Safe (parseReports n d)
  | 0, _, _ => safe_ok _
  | n + 1, d, h => by
    unfold parseReports
    refine (parseReceiverInfo_safe _ (by simp [h]; omega)).bind fun r => ?_
    exact (parseReports_safe n (d.drop 24) (by simp [h]; omega)).bind fun _ => safe_ok _

theorem parseItems_safe (d : Bytes) (acc : List (Nat × Bytes)) : Safe (parseItems d acc) := by
  induction d, acc using parseItems.induct with
  | case1 acc t l rest hlt => rw [parseItems, if_pos hlt]; exact safe_ve
  | case2 acc l rest hlt => rw [parseItems, if_neg hlt, if_pos rfl]; exact safe_ok _
  | case3 acc t l rest hlt ht ih => rw [parseItems, if_neg hlt, if_neg ht]; exact ih
  | case4 d acc hd => rw [parseItems]; exact safe_ok _; exact fun t l rest h => hd t l rest h

theorem parseChunks_safe : ∀ (n : Nat) (d : Bytes), Safe (parseChunks n d)
  | 0, _ => safe_ok _
  | n + 1, d => by
    unfold parseChunks
    split
    · exact safe_ve
    · exact (parseItems_safe _ _).bind fun ir => (parseChunks_safe n ir.2).bind fun _ => safe_ok _

theorem parseBody_safe (pt count : Nat) (payload : Bytes) : Safe (parseBody pt count payload) := by
  unfold parseBody
  split
  · split
    · exact safe_ve
    · exact safe_ok _
  split
  · exact (parseChunks_safe _ _).bind fun _ => safe_ok _
  split
  · split
    · exact safe_ve
    · next hl =>
      have hl' : payload.length = 24 + 24 * count := Classical.not_not.mp hl
      refine Safe.bind ?_ fun si => ?_
      · unfold parseSenderInfo
        rw [if_neg (by simp [slice, hl'])]
        exact safe_ok _
      · exact (parseReports_safe count _ (by simp [hl'])).bind fun _ => safe_ok _
  split
  · split
    · exact safe_ve
    · next hl =>
      have hl' : payload.length = 4 + 24 * count := Classical.not_not.mp hl
      exact (parseReports_safe count _ (by simp [hl'])).bind fun _ => safe_ok _
  split
  · split
    · exact safe_ve
    · exact safe_ok _
  split
  · split
    · exact safe_ve
    · exact safe_ok _
  exact safe_ok _

theorem stripPadding_safe (payload : Bytes) : Safe (stripPadding payload) := by
  unfold stripPadding
  repeat' split
  all_goals first | exact safe_ok _ | exact safe_ve

/-- `RtcpPacket.parse`: for EVERY input, ValueError or a list of packets. -/
theorem parseCompound_safe' : ∀ (n : Nat) (d : Bytes), d.length ≤ n → Safe (parseCompound d) := by
  intro n
  induction n with
  | zero =>
    intro d h
    have : d = [] := List.eq_nil_of_length_eq_zero (by omega)
    subst this; unfold parseCompound; exact safe_ok _
  | succ n ih =>
    intro d h
    unfold parseCompound
    split
    · exact safe_ok _
    · next b0 pt l1 l2 rest =>
      simp only [List.length_cons] at h
      dsimp only
      split
      · exact safe_ve
      · split
        · exact safe_ve
        · refine Safe.bind (Safe.bind ?_ fun payload => parseBody_safe _ _ _) fun p =>
            (ih _ (by simp only [List.length_drop]; omega)).bind fun _ => safe_ok _
          split
          · exact stripPadding_safe _
          · exact safe_ok _
    · exact safe_ve

/-- `RtcpPacket.parse`: for EVERY input, ValueError or a list of packets. -/
theorem parseCompound_safe (d : Bytes) : Safe (parseCompound d) := parseCompound_safe' d.length d (Nat.le_refl _)

end Aiortc.Rtp
