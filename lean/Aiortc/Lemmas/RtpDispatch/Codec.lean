import Aiortc.Lemmas.Rtp.Safe
import Aiortc.Model.H264
import Aiortc.Model.Vp8
/-! C05 (RTP part): the payload descriptor parsers of `codecs/h264.py` and `codecs/vpx.py` return a value or
raise `ValueError` on EVERY byte string — no `IndexError`, no `struct.error`, and the STAP-A loop terminates
within `len(data) + 1` rounds. -/
namespace Aiortc.Lemmas.RtpDispatch
open Aiortc Aiortc.Rtp Aiortc.Gen

theorem unpackU16_slice (data : Bytes) (pos : Nat) (h : pos + 2 ≤ data.length) :
    ∃ v, unpackU16? (slice data pos (pos + 2)) = some v := by
  have hl : (slice data pos (pos + 2)).length = 2 := by
    simp only [slice, List.length_drop, List.length_take]; omega
  match hs : slice data pos (pos + 2), hl with
  | [a, b], _ => exact ⟨a * 256 + b, rfl⟩

/-- The STAP-A loop: with more fuel than bytes left it never runs out of fuel and never crashes. -/
theorem stapOffsets_safe (data : Bytes) : ∀ (fuel pos : Nat), data.length < fuel + pos → 0 < fuel →
    Safe (Model.H264.stapOffsets data fuel pos) := by
  intro fuel
  induction fuel with
  | zero => intro pos _ h0; omega
  | succ n ih =>
    intro pos h _
    unfold Model.H264.stapOffsets
    have hc : H264_LENGTH_FIELD_SIZE = 2 := by decide
    split
    · rename_i hlt
      split
      · exact safe_ve
      · rename_i hge
        have h2 : pos + 2 ≤ data.length := by omega
        obtain ⟨v, hv⟩ := unpackU16_slice data pos h2
        simp only [hv, Outcome.ofStruct, bind, Outcome.bind]
        split
        · exact safe_ve
        · rename_i hge2
          have hs := ih (pos + H264_LENGTH_FIELD_SIZE + v) (by omega) (by omega)
          rcases hs with hs | ⟨a, hs⟩
          · rw [hs]; exact safe_ve
          · rw [hs]; exact safe_ok _
    · exact safe_ok _

theorem getB_ok (data : Bytes) (i : Nat) (h : i < data.length) : Model.H264.getB data i = .ok data[i] := by
  unfold Model.H264.getB
  rw [List.getElem?_eq_getElem h]

/-- `H264PayloadDescriptor.parse` is total. -/
theorem h264_parse_safe (data : Bytes) : Safe (Model.H264.parse data) := by
  unfold Model.H264.parse
  split
  · exact safe_ve
  · rename_i hlen
    have h0 : 0 < data.length := by omega
    have h1 : H264_NAL_HEADER_SIZE < data.length := by
      have : H264_NAL_HEADER_SIZE = 1 := by decide
      omega
    simp only [getB_ok data 0 h0, getB_ok data _ h1, bind, Outcome.bind, pure]
    split
    · exact safe_ok _
    · split
      · exact safe_ok _
      · split
        · have hs := stapOffsets_safe data (data.length + 1) H264_NAL_HEADER_SIZE (by omega) (by omega)
          rcases hs with hs | ⟨a, hs⟩
          · rw [hs]; exact safe_ve
          · rw [hs]; exact safe_ok _
        · exact safe_ve

/-- `h264_depayload` is total. -/
theorem h264_depayload_safe (data : Bytes) : Safe (Model.H264.depayload data) := by
  unfold Model.H264.depayload
  rcases h264_parse_safe data with h | ⟨a, h⟩
  · rw [h]; exact safe_ve
  · rw [h]; exact safe_ok _

theorem unpackU16_slice_ne_none (data : Bytes) (pos : Nat) (h : ¬ data.length < pos + 2) :
    unpackU16? (slice data pos (pos + 2)) ≠ none := by
  obtain ⟨v, hv⟩ := unpackU16_slice data pos (by omega)
  rw [hv]; simp

theorem vp8_parse_safe (data : Bytes) : Safe (Model.Vp8.parse data) := by
  unfold Model.Vp8.parse
  split
  · exact safe_ve
  · dsimp only
    repeat' (first | exact safe_ve | exact safe_ok _ | split)
    all_goals
      exfalso
      rename_i heq
      repeat' split at heq
      all_goals first | (simp at heq; done) | skip
    all_goals
      rename_i hlen _ hnone
      exact unpackU16_slice_ne_none _ _ hlen hnone

/-- `vp8_depayload` is total. -/
theorem vp8_depayload_safe (data : Bytes) : Safe (Model.Vp8.depayload data) := by
  unfold Model.Vp8.depayload
  rcases vp8_parse_safe data with h | ⟨a, h⟩
  · rw [h]; exact safe_ve
  · rw [h]; exact safe_ok _

end Aiortc.Lemmas.RtpDispatch
