import Aiortc.Model.RtpDispatch
import Aiortc.Props.C17
/-! C05 (RTP part): `NackGenerator.add` — the marking loop terminates, and with
fixes/C05b-nack-generator-jump.patch it runs at most `RTP_HISTORY_SIZE` times per packet; the pinned loop
runs `(seq - max_seq - 1) mod 2^16` times (up to 32766). -/
namespace Aiortc.Lemmas.RtpDispatch
open Aiortc Aiortc.Gen Aiortc.Model.RtpDispatch Aiortc.Props.C17

/-- Serial distance from `seq` up to `p`. -/
def fwd (p seq : Int) : Int := (p - seq) % 65536

theorem gt_iff_fwd (p seq : Int) (hp : R16 p) (hs : R16 seq) :
    uint16_gt p seq = true ↔ 0 < fwd p seq ∧ fwd p seq < 32768 := uint16_gt_iff p seq hp hs

theorem fwd_succ (p seq : Int) (_hp : R16 p) (_hs : R16 seq) (h : 0 < fwd p seq) :
    fwd p (uint16_add seq 1) = fwd p seq - 1 := by
  unfold fwd uint16_add R16 at *; omega

/-- The loop runs exactly `fwd p seq` times when that distance is below half the space (and not at all
otherwise), given at least that much fuel. -/
theorem nackLoop_ok (p : Int) (hp : R16 p) : ∀ (fuel : Nat) (seq : Int) (missing : List Int) (n : Nat),
    R16 seq → fwd p seq < 32768 → fwd p seq < fuel →
    ∃ m, nackLoop p fuel seq missing n = .ok (m, n + (fwd p seq).toNat) := by
  intro fuel
  induction fuel with
  | zero => intro seq _ _ _ _ h; unfold fwd at h; omega
  | succ k ih =>
    intro seq missing n hs hhalf hfuel
    unfold nackLoop
    by_cases hgt : uint16_gt p seq = true
    · rw [if_pos hgt]
      have hpos := ((gt_iff_fwd p seq hp hs).1 hgt).1
      have hstep := fwd_succ p seq hp hs hpos
      obtain ⟨m, hm⟩ := ih (uint16_add seq 1) (setAdd seq missing) (n + 1) (uint16_add_range seq 1)
        (by omega) (by omega)
      refine ⟨m, ?_⟩
      rw [hm, hstep]
      congr 2
      omega
    · rw [if_neg hgt]
      have : ¬ (0 < fwd p seq ∧ fwd p seq < 32768) := fun h => hgt ((gt_iff_fwd p seq hp hs).2 h)
      have h0 : fwd p seq = 0 := by unfold fwd at *; omega
      exact ⟨missing, by rw [h0]; rfl⟩

/-- When the comparison is already false the loop does nothing (whatever the distance). -/
theorem nackLoop_stop (p : Int) (fuel : Nat) (seq : Int) (missing : List Int) (n : Nat)
    (h : uint16_gt p seq = false) : nackLoop p (fuel + 1) seq missing n = .ok (missing, n) := by
  unfold nackLoop; rw [if_neg (by simp [h])]

theorem history_const : (RTP_HISTORY_SIZE : Int) = 128 := by decide

/-- Where the fixed loop starts is at most 128 behind the packet (and still a 16-bit number). -/
theorem nackStart_spec (p m : Int) (hp : R16 p) (hm : R16 m) (hgt : uint16_gt p m = true) :
    R16 (nackStart p m) ∧ fwd p (nackStart p m) ≤ 128 ∧ fwd p (nackStart p m) < 32768 := by
  have hd := (gt_iff_fwd p m hp hm).1 hgt
  unfold nackStart
  simp only [history_const]
  have hr1 := uint16_add_range m 1
  have hr2 := uint16_add_range p (-128)
  split
  · rename_i h
    refine ⟨hr2, ?_, ?_⟩ <;> (unfold fwd uint16_add R16 at *; omega)
  · rename_i h
    have h' : ¬ (0 < fwd (uint16_add p (-128)) (uint16_add m 1) ∧ fwd (uint16_add p (-128)) (uint16_add m 1) < 32768) :=
      fun hh => h ((gt_iff_fwd _ _ hr2 hr1).2 hh)
    refine ⟨hr1, ?_, ?_⟩ <;> (unfold fwd uint16_add R16 at *; omega)

/-- **Fixed generator**: total for 16-bit sequence numbers, at most 128 loop iterations, 16-bit state kept. -/
theorem nack_add_total (g : Nack) (hg : ∀ m, g.maxSeq = some m → R16 m) (p : Int) (hp : R16 p) :
    ∃ g' missed n, g.add p = .ok (g', missed, n) ∧ n ≤ 128 ∧ (∀ m, g'.maxSeq = some m → R16 m) := by
  unfold Nack.add Nack.addWith
  cases hm : g.maxSeq with
  | none => exact ⟨_, _, _, rfl, by omega, by intro m h; cases h; exact hp⟩
  | some m =>
    have hmr := hg m hm
    simp only
    by_cases hgt : uint16_gt p m = true
    · rw [if_pos hgt]
      obtain ⟨hsr, h128, hhalf⟩ := nackStart_spec p m hp hmr hgt
      have hc : RTP_HISTORY_SIZE + 1 = 129 := by decide
      obtain ⟨ms, hms⟩ := nackLoop_ok p hp (RTP_HISTORY_SIZE + 1) (nackStart p m) g.missing 0 hsr hhalf
        (by rw [hc]; omega)
      rw [hms]
      refine ⟨_, _, _, rfl, ?_, ?_⟩
      · have : 0 ≤ fwd p (nackStart p m) := by unfold fwd; omega
        omega
      · intro m' h; cases h; exact hp
    · rw [if_neg hgt]
      exact ⟨_, _, _, rfl, by omega, by intro m' h; rw [hm] at *; cases h; exact hmr⟩

/-- **Pinned generator**: the loop runs once per skipped sequence number — up to 32766 times for one packet. -/
theorem nack_add_unfixed_walks (g : Nack) (m p : Int) (hm : R16 m) (hp : R16 p) (hmax : g.maxSeq = some m)
    (hgt : uint16_gt p m = true) :
    ∃ g' missed, g.addUnfixed p = .ok (g', missed, (fwd p m - 1).toNat) := by
  unfold Nack.addUnfixed Nack.addWith
  rw [hmax]
  simp only [if_pos hgt]
  have hd := (gt_iff_fwd p m hp hm).1 hgt
  have hstep := fwd_succ p m hp hm hd.1
  obtain ⟨ms, hms⟩ := nackLoop_ok p hp 65536 (uint16_add m 1) g.missing 0 (uint16_add_range m 1)
    (by omega) (by omega)
  rw [hms, hstep]
  simp only [Nat.zero_add]
  exact ⟨_, _, rfl⟩

/-- Witness: one packet 32767 ahead costs the pinned code 32766 iterations, the fixed code 128. -/
theorem nack_jump_witness :
    (∃ g' missed, (Nack.mk (some 0) []).addUnfixed 32767 = .ok (g', missed, 32766)) ∧
    (∃ g' missed n, (Nack.mk (some 0) []).add 32767 = .ok (g', missed, n) ∧ n ≤ 128) := by
  constructor
  · obtain ⟨g', missed, h⟩ := nack_add_unfixed_walks ⟨some 0, []⟩ 0 32767 (by unfold R16; omega) (by unfold R16; omega) rfl
      (by decide)
    exact ⟨g', missed, by rw [h]; rfl⟩
  · obtain ⟨g', missed, n, h, hn, _⟩ := nack_add_total ⟨some 0, []⟩ (by intro m h; cases h; unfold R16; omega) 32767
      (by unfold R16; omega)
    exact ⟨g', missed, n, h, hn⟩

end Aiortc.Lemmas.RtpDispatch
