import Aiortc.Lemmas.RtpDispatch.Codec
import Aiortc.Lemmas.RtpDispatch.Nack
import Aiortc.Lemmas.StatsRecv
import Aiortc.Props.C10
/-! C05 (RTP part): `RTCRtpReceiver._handle_rtp_packet` / `_handle_rtcp_packet` never raise on a packet that came out
of `RtpPacket.parse` / `RtcpPacket.parse`, for every receiver state that satisfies the component invariants
(jitter buffer: C10 `Inv`; stream statistics: C18 `GoodRecv`; NACK generator: 16-bit `max_seq`; timestamp mapper:
`_last` set whenever `_origin` is). -/
namespace Aiortc.Lemmas.RtpDispatch
open Aiortc Aiortc.Gen Aiortc.Rtp Aiortc.Model Aiortc.Model.RtpDispatch

/-- What `RtpPacket.parse` guarantees about the fields the receiver computes with. -/
structure PktOk (p : RtpPacket) : Prop where
  seq : p.sequenceNumber < 65536
  ssrc : p.ssrc < 4294967296
  payload : IsBytes p.payload

structure TsInv (m : TsMap) : Prop where
  last : m.origin.isSome → m.last.isSome

structure RecvInv (r : Receiver) : Prop where
  jb : Lemmas.Jitter.Inv r.jb
  stats : Lemmas.Stats.GoodRecv r.stats
  ts : TsInv r.tsMap
  nack : ∀ m, r.nack.maxSeq = some m → Props.C17.R16 m

/-! ## parse → PktOk -/

theorem isBytes_take {l : Bytes} (h : IsBytes l) (n : Nat) : IsBytes (l.take n) :=
  fun b hb => h b (List.mem_of_mem_take hb)

theorem isBytes_drop {l : Bytes} (h : IsBytes l) (n : Nat) : IsBytes (l.drop n) :=
  fun b hb => h b (List.mem_of_mem_drop hb)

theorem splitPadding_bytes {b : Bool} {last : Nat} {body : Bytes} {pp : Bytes × Nat}
    (h : splitPadding b last body = .ok pp) (hb : IsBytes body) : IsBytes pp.1 := by
  unfold splitPadding at h
  split at h
  · split at h
    · cases h
    · cases h; exact isBytes_take hb _
  · cases h; exact hb

theorem parseExtBlock_bytes {ids : ExtIds} {x : Bool} {rest : Bytes} {er : HeaderExtensions × Bytes}
    (h : parseExtBlock ids x rest = .ok er) (hb : IsBytes rest) : IsBytes er.2 := by
  unfold parseExtBlock at h
  split at h
  · split at h
    · rename_i p0 p1 l0 l1 rest2
      dsimp only at h
      split at h
      · cases h
      · cases hg : extGet ids (p0 * 256 + p1) (List.take ((l0 * 256 + l1) * 4) rest2) with
        | ok e =>
          rw [hg] at h
          cases h
          exact isBytes_drop (fun b hb' => hb b (by simp [hb'])) _
        | valueError => rw [hg] at h; cases h
        | crash k => rw [hg] at h; cases h
        | hang => rw [hg] at h; cases h
    · cases h
  · cases h; exact hb

/-- A packet that `RtpPacket.parse` returns has a 16-bit sequence number, a 32-bit SSRC and a payload of bytes. -/
theorem parse_pktOk {ids : ExtIds} {data : Bytes} {p : RtpPacket} (h : Rtp.parse ids data = .ok p)
    (hb : IsBytes data) : PktOk p := by
  unfold Rtp.parse at h
  split at h
  · rename_i b0 b1 s0 s1 t0 t1 t2 t3 r0 r1 r2 r3 rest
    dsimp only at h
    split at h
    · cases h
    · split at h
      · cases h
      · cases he : parseExtBlock ids (b0 / 16 % 2 == 1) (List.drop (4 * (b0 % 16)) rest) with
        | ok er =>
          rw [he] at h
          simp only [Outcome.bind] at h
          have hrest : IsBytes rest := fun b hb' => hb b (by simp [hb'])
          have her := parseExtBlock_bytes he (isBytes_drop hrest _)
          cases hs : splitPadding (b0 / 32 % 2 == 1)
              ((b0 :: b1 :: s0 :: s1 :: t0 :: t1 :: t2 :: t3 :: r0 :: r1 :: r2 :: r3 :: rest).getLast?.getD 0) er.2 with
          | ok pp =>
            rw [hs] at h
            simp only [Outcome.bind] at h
            cases h
            have hpp := splitPadding_bytes hs her
            have m := fun x (hx : x ∈ [s0, s1, r0, r1, r2, r3]) => hb x (by
              simp only [List.mem_cons, List.not_mem_nil, or_false] at hx
              rcases hx with rfl | rfl | rfl | rfl | rfl | rfl <;> simp)
            have := m s0 (by simp); have := m s1 (by simp); have := m r0 (by simp)
            have := m r1 (by simp); have := m r2 (by simp); have := m r3 (by simp)
            exact ⟨by simp only; omega, by simp only; omega, hpp⟩
          | valueError => rw [hs] at h; cases h
          | crash k => rw [hs] at h; cases h
          | hang => rw [hs] at h; cases h
        | valueError => rw [he] at h; cases h
        | crash k => rw [he] at h; cases h
        | hang => rw [he] at h; cases h
  · cases h

/-! ## the stages of `_handle_rtp_packet` -/

/-- After the RTX unwrap only these two are needed. -/
structure PktOk' (p : RtpPacket) : Prop where
  seq : p.sequenceNumber < 65536
  payload : IsBytes p.payload

theorem unwrapRtx_ok (p : RtpPacket) (hp : PktOk p) (hl : ¬ p.payload.length < 2) (a o : Nat) :
    ∃ q, unwrapRtx p a o = .ok q ∧ PktOk' q := by
  unfold unwrapRtx
  match hpl : p.payload, hl with
  | x :: y :: rest, _ =>
    have hx := hp.payload x (by rw [hpl]; simp)
    have hy := hp.payload y (by rw [hpl]; simp)
    refine ⟨_, rfl, ⟨?_, ?_⟩⟩
    · simp only; omega
    · intro b hb'
      exact hp.payload b (by rw [hpl]; simp at hb'; simp [hb'])
  | [_], h => simp at h
  | [], h => simp at h

theorem stageRtx_total (r : Receiver) (codec : Codec) (p : RtpPacket) (hp : PktOk p) :
    r.stageRtx codec p = .ok none ∨ ∃ q c, r.stageRtx codec p = .ok (some (q, c)) ∧ PktOk' q := by
  unfold Receiver.stageRtx
  cases hk : codec.kind with
  | rtx apt =>
    simp only
    cases ho : Router.dget p.ssrc r.rtxSsrc with
    | none => exact Or.inl rfl
    | some original =>
      simp only
      by_cases hl : p.payload.length < 2
      · rw [if_pos hl]; exact Or.inl rfl
      · rw [if_neg hl]
        cases apt with
        | none => exact Or.inl rfl
        | some a =>
          simp only
          cases hc : Router.dget a r.codecs with
          | none => exact Or.inl rfl
          | some c =>
            simp only
            obtain ⟨q, hq, hok⟩ := unwrapRtx_ok p hp hl a original
            rw [hq]
            exact Or.inr ⟨q, c, rfl, hok⟩
  | vp8 => exact Or.inr ⟨p, codec, rfl, ⟨hp.seq, hp.payload⟩⟩
  | h264 => exact Or.inr ⟨p, codec, rfl, ⟨hp.seq, hp.payload⟩⟩
  | other => exact Or.inr ⟨p, codec, rfl, ⟨hp.seq, hp.payload⟩⟩

theorem depayloadFor_safe (k : CodecKind) (payload : Bytes) : Safe (depayloadFor k payload) := by
  unfold depayloadFor
  split
  · exact vp8_depayload_safe payload
  · exact h264_depayload_safe payload
  · exact safe_ok _

theorem tsMap_total (m : TsMap) (hm : TsInv m) (ts : Int) : ∃ m' v, m.map ts = .ok (m', v) ∧ TsInv m' := by
  unfold TsMap.map
  cases ho : m.origin with
  | none => exact ⟨_, _, rfl, ⟨fun _ => rfl⟩⟩
  | some o =>
    have := hm.last (by rw [ho]; rfl)
    cases hl : m.last with
    | none => rw [hl] at this; cases this
    | some l => exact ⟨_, _, rfl, ⟨fun _ => rfl⟩⟩

theorem stageNack_total (r : Receiver) (hr : RecvInv r) (p : RtpPacket) (hp : PktOk' p) :
    ∃ r' e n, r.stageNack p = .ok (r', e, n) ∧ RecvInv r' ∧ n ≤ 128 ∧ r'.jb = r.jb ∧ r'.tsMap = r.tsMap
      ∧ r'.stats = r.stats := by
  unfold Receiver.stageNack
  split
  · obtain ⟨g', missed, n, hadd, hn, hg'⟩ := nack_add_total r.nack hr.nack (p.sequenceNumber : Int)
      (by have := hp.seq; unfold Props.C17.R16; omega)
    rw [hadd]
    exact ⟨_, _, _, rfl, ⟨hr.jb, hr.stats, hr.ts, hg'⟩, hn, rfl, rfl, rfl⟩
  · exact ⟨_, _, _, rfl, hr, by omega, rfl, rfl, rfl⟩

theorem stageJitter_total (r : Receiver) (hr : RecvInv r) (codec : Codec) (p : RtpPacket) (hp : PktOk' p)
    (data : Bytes) : ∃ r' e, r.stageJitter codec p data = .ok (r', e) ∧ RecvInv r' := by
  unfold Receiver.stageJitter
  obtain ⟨out, hadd, hinv, _⟩ := Props.C10.jb_total hr.jb ⟨p.sequenceNumber, p.timestamp, data⟩
    (by have := hp.seq; unfold Lemmas.Jitter.R16; simp only; omega)
  rw [hadd]
  simp only
  cases hf : out.frame with
  | none => exact ⟨_, _, rfl, ⟨hinv, hr.stats, hr.ts, hr.nack⟩⟩
  | some f =>
    simp only
    split
    · obtain ⟨m', v, hm, hts⟩ := tsMap_total r.tsMap hr.ts f.ts
      rw [hm]
      exact ⟨_, _, rfl, ⟨hinv, hr.stats, hts, hr.nack⟩⟩
    · exact ⟨_, _, rfl, ⟨hinv, hr.stats, hr.ts, hr.nack⟩⟩

theorem stageNack_fields {r r' : Receiver} {p : RtpPacket} {e : List Effect} {n : Nat}
    (h : r.stageNack p = .ok (r', e, n)) :
    r'.jb = r.jb ∧ r'.tsMap = r.tsMap ∧ r'.decoderRunning = r.decoderRunning := by
  unfold Receiver.stageNack at h
  split at h
  · split at h
    · cases h; exact ⟨rfl, rfl, rfl⟩
    all_goals cases h
  · cases h; exact ⟨rfl, rfl, rfl⟩

end Aiortc.Lemmas.RtpDispatch
