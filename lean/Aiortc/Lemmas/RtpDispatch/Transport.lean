import Aiortc.Lemmas.RtpDispatch.Receiver
import Aiortc.Props.C12
/-! C05 (RTP part): the handlers of `RTCRtpReceiver`, `RTCRtpSender` and `RTCDtlsTransport` around the parsers. -/
namespace Aiortc.Lemmas.RtpDispatch
open Aiortc Aiortc.Gen Aiortc.Rtp Aiortc.Model Aiortc.Model.RtpDispatch

theorem handleRtpCodec_total (r : Receiver) (hr : RecvInv r) (e0 : List Effect) (codec : Codec) (p : RtpPacket)
    (hp : PktOk p) : ∃ r' e n, r.handleRtpCodec e0 codec p = .ok (r', e, n) ∧ RecvInv r' ∧ n ≤ 128 := by
  unfold Receiver.handleRtpCodec
  rcases stageRtx_total r codec p hp with hx | ⟨q, c, hx, hq⟩
  · rw [hx]; exact ⟨_, _, _, rfl, hr, by omega⟩
  · rw [hx]
    simp only
    obtain ⟨r2, e1, n, hn, hinv2, hle, _⟩ := stageNack_total r hr q hq
    rw [hn]
    simp only
    have hdep : Safe (if q.payload.isEmpty then Outcome.ok [] else depayloadFor c.kind q.payload) := by
      split
      · exact safe_ok _
      · exact depayloadFor_safe _ _
    rcases hdep with hd | ⟨data, hd⟩
    · rw [hd]; exact ⟨_, _, _, rfl, hinv2, hle⟩
    · rw [hd]
      simp only
      obtain ⟨r3, e2, hj, hinv3⟩ := stageJitter_total r2 hinv2 c q hq data
      rw [hj]
      exact ⟨_, _, _, rfl, hinv3, hle⟩

/-- `_handle_rtp_packet` never raises (given that the bitrate estimator does not): new state keeps the invariant,
the only loop runs at most 128 times. -/
theorem handleRtp_total (r : Receiver) (hr : RecvInv r) (p : RtpPacket) (hp : PktOk p) (clock : Int) (remb : Bool) :
    ∃ r' e n, r.handleRtp p clock (.ok remb) = .ok (r', e, n) ∧ RecvInv r' ∧ n ≤ 128 := by
  unfold Receiver.handleRtp
  split
  · exact ⟨_, _, _, rfl, hr, by omega⟩
  · have hrbe : ∃ e0, r.stageRbe p (.ok remb) = .ok e0 := by
      unfold Receiver.stageRbe; split <;> exact ⟨_, rfl⟩
    obtain ⟨e0, he0⟩ := hrbe
    rw [he0]
    simp only
    cases hc : Router.dget p.payloadType r.codecs with
    | none => exact ⟨_, _, _, rfl, ⟨hr.jb, hr.stats, hr.ts, hr.nack⟩, by omega⟩
    | some codec =>
      simp only
      obtain ⟨st, hst, hgood, _⟩ := Lemmas.Stats.rtp_good r.stats hr.stats (p.ssrc : Int) (p.sequenceNumber : Int)
        (p.timestamp : Int) clock (by have := hp.ssrc; unfold Lemmas.Stats.U32; omega) (by have := hp.seq; omega)
      rw [hst]
      exact handleRtpCodec_total _ (RecvInv.mk (r := { r with activeSsrc := addKey p.ssrc r.activeSsrc, stats := st }) hr.jb hgood hr.ts hr.nack) e0 codec p hp

/-- Receiver-side RTCP never raises and keeps the invariant. -/
theorem recv_handleRtcp_inv (r : Receiver) (hr : RecvInv r) (p : RtcpPacket) : RecvInv (r.handleRtcp p).1 := by
  unfold Receiver.handleRtcp
  split
  · exact ⟨hr.jb, Lemmas.Stats.sr_good r.stats hr.stats _ _, hr.ts, hr.nack⟩
  · exact ⟨hr.jb, hr.stats, hr.ts, hr.nack⟩
  · exact hr

/-- Sender invariant: the RTX sequence number is a 16-bit number (what `RtpPacket.serialize` can pack).
`random_sequence_number()` establishes it, `uint16_add` keeps it. -/
def SenderInv (s : Sender) : Prop := Props.C17.R16 s.rtxSequenceNumber

theorem seqPackable_of_r16 {n : Int} (h : Props.C17.R16 n) : seqPackable n = true := by
  unfold seqPackable
  have h1 := h.1
  have h2 := h.2
  simp only [decide_eq_true_eq]
  omega

/-- `_retransmit` with a bump that stays in the 16-bit range: returns, at most one packet sent, invariant kept. -/
theorem retransmitWith_total (bump : Int → Int) (hb : ∀ n, Props.C17.R16 n → Props.C17.R16 (bump n))
    (s : Sender) (hs : SenderInv s) (seq : Nat) :
    ∃ s' e, s.retransmitWith bump seq = .ok (s', e) ∧ SenderInv s' ∧ e.length ≤ 1 := by
  unfold Sender.retransmitWith
  split
  · exact ⟨_, _, rfl, hs, by simp⟩
  · split
    · split
      · rw [if_pos (seqPackable_of_r16 hs)]
        exact ⟨_, _, rfl, hb _ hs, by simp⟩
      · exact ⟨_, _, rfl, hs, by simp⟩
    · exact ⟨_, _, rfl, hs, by simp⟩

theorem retransmitAllWith_total (bump : Int → Int) (hb : ∀ n, Props.C17.R16 n → Props.C17.R16 (bump n)) :
    ∀ (lost : List Nat) (s : Sender), SenderInv s →
    ∃ s' e, s.retransmitAllWith bump lost = .ok (s', e) ∧ SenderInv s' ∧ e.length ≤ lost.length := by
  intro lost
  induction lost with
  | nil => intro s hs; exact ⟨s, [], rfl, hs, by simp⟩
  | cons a rest ih =>
    intro s hs
    unfold Sender.retransmitAllWith
    obtain ⟨s1, e1, h1, hs1, hl1⟩ := retransmitWith_total bump hb s hs a
    rw [h1]
    simp only
    obtain ⟨s2, e2, h2, hs2, hl2⟩ := ih s1 hs1
    rw [h2]
    refine ⟨_, _, rfl, hs2, ?_⟩
    simp only [List.length_append, List.length_cons]
    omega

theorem uint16_bump_r16 : ∀ n, Props.C17.R16 n → Props.C17.R16 ((fun n => uint16_add n 1) n) :=
  fun n _ => Props.C17.uint16_add_range n 1

theorem retransmitAll_total (s : Sender) (hs : SenderInv s) (lost : List Nat) :
    ∃ s' e, s.retransmitAll lost = .ok (s', e) ∧ SenderInv s' ∧ e.length ≤ lost.length :=
  retransmitAllWith_total _ uint16_bump_r16 lost s hs

/-- `RTCRtpSender._handle_rtcp_packet` never raises on a sender whose RTX sequence number is a 16-bit number: the only
parser it calls (`unpack_remb_fci`) is inside `try … except ValueError` and raises nothing else, and every
retransmitted packet can be serialised. -/
theorem sender_handleRtcp_total (s : Sender) (hs : SenderInv s) (p : RtcpPacket) :
    ∃ s' e, s.handleRtcp p = .ok (s', e) ∧ SenderInv s' := by
  unfold Sender.handleRtcp
  split
  · exact ⟨_, _, rfl, hs⟩
  · exact ⟨_, _, rfl, hs⟩
  · split
    · rename_i lost _
      obtain ⟨s', e, h, hs', _⟩ := retransmitAll_total s hs lost
      exact ⟨s', e, h, hs'⟩
    · exact ⟨_, _, rfl, hs⟩
  · split
    · exact ⟨_, _, rfl, hs⟩
    · split
      · rename_i fci _ _
        rcases unpackRemb_safe fci with h | ⟨a, h⟩
        · rw [h]; exact ⟨_, _, rfl, hs⟩
        · rw [h]; exact ⟨_, _, rfl, hs⟩
      · exact ⟨_, _, rfl, hs⟩
  · exact ⟨_, _, rfl, hs⟩

/-- Every receiver object and every sender object of the transport satisfies its invariant. -/
def TransportInv (t : Transport) : Prop := (∀ i, RecvInv (t.receivers i)) ∧ ∀ i, SenderInv (t.senders i)

theorem setReceiver_inv {t : Transport} (h : TransportInv t) (i : Nat) (r : Receiver) (hr : RecvInv r) :
    TransportInv (t.setReceiver i r) := by
  refine ⟨?_, fun j => h.2 j⟩
  intro j
  unfold Transport.setReceiver
  simp only
  split
  · exact hr
  · exact h.1 j

theorem setSender_inv {t : Transport} (h : TransportInv t) (i : Nat) (s : Sender) (hs : SenderInv s) :
    TransportInv (t.setSender i s) := by
  refine ⟨fun j => h.1 j, ?_⟩
  intro j
  unfold Transport.setSender
  simp only
  split
  · exact hs
  · exact h.2 j

theorem deliverRtcp_total (p : RtcpPacket) : ∀ (rs : List Router.Recipient) (t : Transport), TransportInv t →
    ∃ t' e, deliverRtcp t p rs = .ok (t', e) ∧ TransportInv t' ∧ t'.router = t.router ∧ t'.ids = t.ids
      ∧ t'.hasSrtp = t.hasSrtp := by
  intro rs
  induction rs with
  | nil => intro t ht; exact ⟨t, [], rfl, ht, rfl, rfl, rfl⟩
  | cons x rest ih =>
    intro t ht
    cases x with
    | receiver i =>
      unfold deliverRtcp
      simp only
      obtain ⟨t', e, h, hinv, h1, h2, h3⟩ := ih (t.setReceiver i ((t.receivers i).handleRtcp p).1)
        (setReceiver_inv ht i _ (recv_handleRtcp_inv _ (ht.1 i) p))
      rw [h]
      exact ⟨_, _, rfl, hinv, h1, h2, h3⟩
    | sender i =>
      unfold deliverRtcp
      obtain ⟨s', e1, hs, hinvs⟩ := sender_handleRtcp_total (t.senders i) (ht.2 i) p
      rw [hs]
      simp only
      obtain ⟨t', e, h, hinv, h1, h2, h3⟩ := ih (t.setSender i s') (setSender_inv ht i s' hinvs)
      rw [h]
      exact ⟨_, _, rfl, hinv, h1, h2, h3⟩

theorem rtcpLoop_total : ∀ (ps : List RtcpPacket) (t : Transport), TransportInv t →
    ∃ t' e, rtcpLoop t ps = .ok (t', e) ∧ TransportInv t' ∧ t'.router = t.router ∧ t'.ids = t.ids
      ∧ t'.hasSrtp = t.hasSrtp := by
  intro ps
  induction ps with
  | nil => intro t ht; exact ⟨t, [], rfl, ht, rfl, rfl, rfl⟩
  | cons p rest ih =>
    intro t ht
    unfold rtcpLoop
    obtain ⟨l, hl⟩ := Props.C12.route_rtcp_never_raises t.router (toRouterRtcp p)
    rw [hl]
    simp only
    obtain ⟨t1, e1, h1, hinv1, ha, hb, hc⟩ := deliverRtcp_total p l t ht
    rw [h1]
    simp only
    obtain ⟨t2, e2, h2, hinv2, ha2, hb2, hc2⟩ := ih t1 hinv1
    rw [h2]
    exact ⟨_, _, rfl, hinv2, ha2.trans ha, hb2.trans hb, hc2.trans hc⟩

/-- `_handle_rtcp_data` never raises, for ANY byte string. -/
theorem handleRtcpData_total (t : Transport) (ht : TransportInv t) (data : Bytes) :
    ∃ t' e, handleRtcpData t data = .ok (t', e) ∧ TransportInv t' := by
  unfold handleRtcpData
  rcases parseCompound_safe data with h | ⟨ps, h⟩
  · rw [h]; exact ⟨t, [], rfl, ht⟩
  · rw [h]
    obtain ⟨t', e, h1, hinv, _⟩ := rtcpLoop_total ps t ht
    exact ⟨t', e, h1, hinv⟩

/-- `_handle_rtp_data` never raises, for ANY byte string (bitrate estimator permitting). -/
theorem handleRtpData_total (env : Env) (remb : Bool) (henv : env.rbeOut = .ok remb) (t : Transport)
    (ht : TransportInv t) (data : Bytes) (hb : IsBytes data) :
    ∃ t' e n, handleRtpData env t data = .ok (t', e, n) ∧ TransportInv t' ∧ n ≤ 128 := by
  unfold handleRtpData
  rcases parse_safe t.ids data with h | ⟨p, h⟩
  · rw [h]; exact ⟨t, [], 0, rfl, ht, by omega⟩
  · rw [h]
    simp only
    have hp := parse_pktOk h hb
    cases hroute : Router.routeRtp t.router p.ssrc p.payloadType with
    | mk router o =>
      cases o with
      | none => exact ⟨_, _, _, rfl, ⟨fun i => ht.1 i, fun i => ht.2 i⟩, by omega⟩
      | some i =>
        simp only
        obtain ⟨r', e, n, hh, hinv, hn⟩ := handleRtp_total (t.receivers i) (ht.1 i) p hp env.clock remb
        rw [henv, hh]
        refine ⟨_, _, _, rfl, ?_, hn⟩
        exact setReceiver_inv (t := { t with router := router }) ⟨fun j => ht.1 j, fun j => ht.2 j⟩ i r' hinv

/-- A datagram whose parse is rejected leaves the transport, the router and every receiver / sender untouched. -/
theorem handleRtpData_rejected (env : Env) (t : Transport) (data : Bytes) (h : Rtp.parse t.ids data = .valueError) :
    handleRtpData env t data = .ok (t, [], 0) := by
  unfold handleRtpData; rw [h]

theorem handleRtcpData_rejected (t : Transport) (data : Bytes) (h : parseCompound data = .valueError) :
    handleRtcpData t data = .ok (t, []) := by
  unfold handleRtcpData; rw [h]

end Aiortc.Lemmas.RtpDispatch
