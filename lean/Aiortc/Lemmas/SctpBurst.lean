import Aiortc.Lemmas.SctpWire
/-! Burst errors against the SCTP checksum: bursts entirely outside / entirely inside the checksum field
(bytes 8..11 = CRC-order bit positions 64..95) make `checksumOk` false. -/
namespace Aiortc.Sctp.Wire
open Aiortc Aiortc.Gen Aiortc.Crc32c

/-! ### bits of a byte string -/

theorem byteBits_getElem? (a k : Nat) (hk : k < 8) : (byteBits a)[k]? = some (a.testBit k) := by
  obtain _ | _ | _ | _ | _ | _ | _ | _ | k := k <;> first | rfl | omega

theorem bitsOf_getElem? (e : Bytes) (i k : Nat) (hk : k < 8) :
    (bitsOf e)[8 * i + k]? = (e[i]?).map (·.testBit k) := by
  induction e generalizing i with
  | nil => simp [bitsOf]
  | cons a e ih =>
    cases i with
    | zero =>
      simp only [bitsOf, Nat.mul_zero, Nat.zero_add, List.getElem?_cons_zero, Option.map_some]
      rw [List.getElem?_append_left (by simp; exact hk), byteBits_getElem? a k hk]
    | succ i =>
      simp only [bitsOf, List.getElem?_cons_succ]
      rw [List.getElem?_append_right (by simp; omega)]
      have : 8 * (i + 1) + k - (byteBits a).length = 8 * i + k := by simp; omega
      rw [this, ih]

theorem byte_eq_zero (x : Nat) (hx : x < 256) (h : ∀ k, k < 8 → x.testBit k = false) : x = 0 := by
  apply Nat.eq_of_testBit_eq
  intro i
  rw [Nat.zero_testBit]
  by_cases hi : i < 8
  · exact h i hi
  · apply Nat.testBit_lt_two_pow
    calc x < 2 ^ 8 := hx
      _ ≤ 2 ^ i := Nat.pow_le_pow_right (by omega) (by omega)

/-- A byte of the error pattern none of whose bit positions is in the window is zero. -/
theorem byte_zero_of_window (e : Bytes) (he : IsBytes e) (p len : Nat) (hw : InWindow (bitsOf e) p len)
    (i x : Nat) (hx : e[i]? = some x) (hout : 8 * i + 8 ≤ p ∨ p + len ≤ 8 * i) : x = 0 := by
  apply byte_eq_zero x (he x (List.mem_of_getElem? hx))
  intro k hk
  cases hb : x.testBit k with
  | false => rfl
  | true =>
    have := hw (8 * i + k) (by rw [bitsOf_getElem? e i k hk, hx]; simp [hb])
    omega

/-- A set bit of the pattern lies in some byte, which is then non-zero. -/
theorem byte_ne_zero_of_bit (e : Bytes) (q : Nat) (hq : (bitsOf e)[q]? = some true) :
    ∃ x, e[q / 8]? = some x ∧ x ≠ 0 := by
  have h := bitsOf_getElem? e (q / 8) (q % 8) (Nat.mod_lt _ (by omega))
  rw [Nat.div_add_mod] at h
  rw [hq] at h
  cases hx : e[q / 8]? with
  | none => rw [hx] at h; simp at h
  | some x =>
    refine ⟨x, rfl, ?_⟩
    rw [hx] at h
    intro h0; subst h0; simp at h

theorem xorBytes_zeros (d e : Bytes) (h : ∀ x ∈ e, x = 0) (hl : e.length = d.length) : xorBytes d e = d := by
  induction d generalizing e with
  | nil => cases e <;> simp_all [xorBytes]
  | cons a d ih =>
    cases e with
    | nil => simp at hl
    | cons b e =>
      have hb : b = 0 := h b (by simp)
      subst hb
      simp only [xorBytes, List.zipWith_cons_cons, Nat.xor_zero, List.cons.injEq, true_and]
      exact ih e (fun x hx => h x (by simp [hx])) (by simpa using hl)

theorem exists_cons {α} (x : List α) (n : Nat) (h : n + 1 ≤ x.length) : ∃ a r, x = a :: r ∧ n ≤ r.length := by
  cases x with
  | nil => simp at h
  | cons a r => exact ⟨a, r, rfl, by simpa using h⟩


theorem exists_cons12 {α} (x : List α) (h : 12 ≤ x.length) :
    ∃ a0 a1 a2 a3 a4 a5 a6 a7 a8 a9 a10 a11 r,
      x = a0 :: a1 :: a2 :: a3 :: a4 :: a5 :: a6 :: a7 :: a8 :: a9 :: a10 :: a11 :: r := by
  obtain ⟨a0, r0, rfl, g0⟩ := exists_cons x 11 h
  obtain ⟨a1, r1, rfl, g1⟩ := exists_cons r0 10 g0
  obtain ⟨a2, r2, rfl, g2⟩ := exists_cons r1 9 g1
  obtain ⟨a3, r3, rfl, g3⟩ := exists_cons r2 8 g2
  obtain ⟨a4, r4, rfl, g4⟩ := exists_cons r3 7 g3
  obtain ⟨a5, r5, rfl, g5⟩ := exists_cons r4 6 g4
  obtain ⟨a6, r6, rfl, g6⟩ := exists_cons r5 5 g5
  obtain ⟨a7, r7, rfl, g7⟩ := exists_cons r6 4 g6
  obtain ⟨a8, r8, rfl, g8⟩ := exists_cons r7 3 g7
  obtain ⟨a9, r9, rfl, g9⟩ := exists_cons r8 2 g8
  obtain ⟨a10, r10, rfl, g10⟩ := exists_cons r9 1 g9
  obtain ⟨a11, r11, rfl, g11⟩ := exists_cons r10 0 g10
  exact ⟨a0, a1, a2, a3, a4, a5, a6, a7, a8, a9, a10, a11, r11, rfl⟩

theorem length_of_checksumOk (d : Bytes) (h : checksumOk d = true) : 12 ≤ d.length := by
  unfold checksumOk at h
  split at h
  · simp
  · simp at h

/-- A packet that fails the checksum (or is too short) is rejected with `ValueError`. -/
theorem parsePacketG_of_checksum_false (fixed : Bool) (d : Bytes) (h : checksumOk d = false) :
    parsePacketG fixed d = .valueError := by
  unfold parsePacketG
  split
  · rfl
  · simp [h]

/-- Burst entirely outside the checksum field: the field is unchanged, the CRC is not. -/
theorem checksumOk_burst_outside (d e : Bytes) (he : IsBytes e) (hl : e.length = d.length)
    (hd : checksumOk d = true) (p len : Nat) (hlen : len ≤ 32) (hw : InWindow (bitsOf e) p len)
    (hne : ∃ i : Nat, (bitsOf e)[i]? = some true) (hpos : p + len ≤ 64 ∨ 96 ≤ p) :
    checksumOk (xorBytes d e) = false := by
  have hd12 := length_of_checksumOk d hd
  obtain ⟨d0, d1, d2, d3, d4, d5, d6, d7, c0, c1, c2, c3, rest, rfl⟩ := exists_cons12 d hd12
  obtain ⟨e0, e1, e2, e3, e4, e5, e6, e7, e8, e9, e10, e11, rest', rfl⟩ := exists_cons12 e (by omega)
  have h8 : e8 = 0 := byte_zero_of_window _ he p len hw 8 e8 rfl (by omega)
  have h9 : e9 = 0 := byte_zero_of_window _ he p len hw 9 e9 rfl (by omega)
  have h10 : e10 = 0 := byte_zero_of_window _ he p len hw 10 e10 rfl (by omega)
  have h11 : e11 = 0 := byte_zero_of_window _ he p len hw 11 e11 rfl (by omega)
  subst h8 h9 h10 h11
  have key := crc32c_burst (d0 :: d1 :: d2 :: d3 :: d4 :: d5 :: d6 :: d7 :: 0 :: 0 :: 0 :: 0 :: rest)
    (e0 :: e1 :: e2 :: e3 :: e4 :: e5 :: e6 :: e7 :: 0 :: 0 :: 0 :: 0 :: rest') (by simpa using hl) p len hlen hw hne
  simp only [checksumOk, beq_iff_eq] at hd
  simp only [xorBytes, List.zipWith_cons_cons, Nat.xor_zero] at key ⊢
  simp only [checksumOk, hd]
  exact beq_false_of_ne (Ne.symm key)

theorem sum_ne_of_byte_ne (a0 a1 a2 a3 b0 b1 b2 b3 : Nat)
    (ha0 : a0 < 256) (ha1 : a1 < 256) (ha2 : a2 < 256) (_ha3 : a3 < 256)
    (hb0 : b0 < 256) (hb1 : b1 < 256) (hb2 : b2 < 256) (_hb3 : b3 < 256)
    (h : a0 ≠ b0 ∨ a1 ≠ b1 ∨ a2 ≠ b2 ∨ a3 ≠ b3) :
    a0 + a1 * 256 + a2 * 65536 + a3 * 16777216 ≠ b0 + b1 * 256 + b2 * 65536 + b3 * 16777216 := by
  omega

/-- Burst entirely inside the checksum field: the CRC input is unchanged, the field is not. -/
theorem checksumOk_burst_inside (d e : Bytes) (hdb : IsBytes d) (he : IsBytes e) (hl : e.length = d.length)
    (hd : checksumOk d = true) (p len : Nat) (hw : InWindow (bitsOf e) p len)
    (hne : ∃ i : Nat, (bitsOf e)[i]? = some true) (hpos : 64 ≤ p ∧ p + len ≤ 96) :
    checksumOk (xorBytes d e) = false := by
  have hd12 := length_of_checksumOk d hd
  obtain ⟨d0, d1, d2, d3, d4, d5, d6, d7, c0, c1, c2, c3, rest, rfl⟩ := exists_cons12 d hd12
  obtain ⟨e0, e1, e2, e3, e4, e5, e6, e7, e8, e9, e10, e11, rest', rfl⟩ := exists_cons12 e (by omega)
  have h0 : e0 = 0 := byte_zero_of_window _ he p len hw 0 e0 rfl (by omega)
  have h1 : e1 = 0 := byte_zero_of_window _ he p len hw 1 e1 rfl (by omega)
  have h2 : e2 = 0 := byte_zero_of_window _ he p len hw 2 e2 rfl (by omega)
  have h3 : e3 = 0 := byte_zero_of_window _ he p len hw 3 e3 rfl (by omega)
  have h4 : e4 = 0 := byte_zero_of_window _ he p len hw 4 e4 rfl (by omega)
  have h5 : e5 = 0 := byte_zero_of_window _ he p len hw 5 e5 rfl (by omega)
  have h6 : e6 = 0 := byte_zero_of_window _ he p len hw 6 e6 rfl (by omega)
  have h7 : e7 = 0 := byte_zero_of_window _ he p len hw 7 e7 rfl (by omega)
  have hrest : ∀ x ∈ rest', x = 0 := by
    intro x hx
    obtain ⟨j, hj⟩ := List.mem_iff_getElem?.mp hx
    exact byte_zero_of_window _ he p len hw (j + 12) x (by simpa using hj) (by omega)
  -- some byte of the field is altered
  have hfield : e8 ≠ 0 ∨ e9 ≠ 0 ∨ e10 ≠ 0 ∨ e11 ≠ 0 := by
    obtain ⟨q, hq⟩ := hne
    have hq' := hw q hq
    obtain ⟨x, hx, hx0⟩ := byte_ne_zero_of_bit _ q hq
    have hq8 : q / 8 = 8 ∨ q / 8 = 9 ∨ q / 8 = 10 ∨ q / 8 = 11 := by omega
    rcases hq8 with h | h | h | h <;> rw [h] at hx <;> simp at hx <;> subst hx <;> simp [hx0]
  subst h0 h1 h2 h3 h4 h5 h6 h7
  have hb : ∀ x, x ∈ [c0, c1, c2, c3, e8, e9, e10, e11] → x < 256 := by
    intro x hx
    simp only [List.mem_cons, List.not_mem_nil, or_false] at hx
    rcases hx with h | h | h | h | h | h | h | h <;> subst h
    · exact hdb _ (by simp)
    · exact hdb _ (by simp)
    · exact hdb _ (by simp)
    · exact hdb _ (by simp)
    · exact he _ (by simp)
    · exact he _ (by simp)
    · exact he _ (by simp)
    · exact he _ (by simp)
  have hxl : ∀ a b : Nat, a < 256 → b < 256 → a ^^^ b < 256 := fun a b ha hb' =>
    Nat.xor_lt_two_pow (n := 8) ha hb'
  simp only [checksumOk, beq_iff_eq] at hd
  simp only [xorBytes, List.zipWith_cons_cons, Nat.xor_zero]
  have hr := xorBytes_zeros rest rest' hrest (by simpa using hl)
  unfold xorBytes at hr
  simp only [checksumOk, hr, ← hd]
  apply beq_false_of_ne
  apply sum_ne_of_byte_ne
  · exact hxl _ _ (hb c0 (by simp)) (hb e8 (by simp))
  · exact hxl _ _ (hb c1 (by simp)) (hb e9 (by simp))
  · exact hxl _ _ (hb c2 (by simp)) (hb e10 (by simp))
  · exact hxl _ _ (hb c3 (by simp)) (hb e11 (by simp))
  · exact hb c0 (by simp)
  · exact hb c1 (by simp)
  · exact hb c2 (by simp)
  · exact hb c3 (by simp)
  · rcases hfield with h | h | h | h
    · exact Or.inl (xor_ne_self _ _ h)
    · exact Or.inr (Or.inl (xor_ne_self _ _ h))
    · exact Or.inr (Or.inr (Or.inl (xor_ne_self _ _ h)))
    · exact Or.inr (Or.inr (Or.inr (xor_ne_self _ _ h)))

end Aiortc.Sctp.Wire
