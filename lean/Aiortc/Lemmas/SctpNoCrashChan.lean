import Aiortc.Lemmas.SctpNoCrashTx
import Aiortc.Lemmas.Bytes
/-! # Crash-freedom of the small handlers: sending chunks, channel state, `_transmit`, `_data_channel_flush` -/
namespace Aiortc.Sctp
open Aiortc.Gen Aiortc.Sctp.Wire
set_option linter.unusedSimpArgs false

theorem packetFor_ok {e : Ep} {c : Chunk} (h : WF e) (hc : c.inRange = true) : ∃ d, packetFor e c = .ok d := by
  obtain ⟨p, hp, hlt⟩ := h.net.rp
  refine ⟨serializePacketRaw e.localPort p e.remoteTag c, ?_⟩
  have := h.net.lp
  have := h.net.rtag
  simp [packetFor, hp, serializePacket, headerInRange, hc, *]

theorem wp_sendChunk {A} {c : Chunk} {Q : Unit → St → Prop} {e : Ep} {l : List Out} (h : WF e) (hc : c.inRange = true)
    (hq : ∀ d, Q () (e, l ++ [.tx d])) : wp A (sendChunk c) Q (e, l) := by
  obtain ⟨d, hd⟩ := packetFor_ok h hc
  simp [sendChunk, hd, hq]

theorem dataChunkOf_inRange {c : RChunk} (h : c.Wire) : (dataChunkOf c).inRange = true := by
  obtain ⟨h1, h2, h3, h4, h5, h6, h7, h8⟩ := h
  simp [dataChunkOf, Chunk.inRange]
  omega

theorem wp_playTx {A} {evs : List TxEv} {Q : Unit → St → Prop} {e : Ep} {l : List Out} (h : WF e)
    (hev : ∀ ev ∈ evs, ev.Ok) (hq : ∀ l', Q () (e, l')) : wp A (playTx evs) Q (e, l) := by
  unfold playTx
  rw [wp_bind]
  refine wp_forIn A evs _ _ (fun suf s' => s'.1 = e ∧ ∀ ev ∈ suf, ev.Ok) (e, l) ⟨rfl, hev⟩ ?_ ?_
  · intro ev rest s' ⟨he, hok⟩
    have hev := hok ev (by simp)
    have hrest : ∀ ev ∈ rest, ev.Ok := fun x hx => hok x (by simp [hx])
    cases ev with
    | data c =>
      simp only [wp_bind]
      refine wp_sendChunk (he ▸ h) (dataChunkOf_inRange hev) ?_
      intro d; simpa [he] using hrest
    | fwd cum streams => exact absurd hev (by simp [TxEv.Ok])
    | t3start => simpa [he] using hrest
    | t3cancel => simpa [he] using hrest
  · intro s' ⟨he, _⟩
    have := hq s'.2
    rw [← he] at this
    simpa using this

theorem wp_chanGet {A} {i : Nat} {Q : Chan → St → Prop} {e : Ep} {l : List Out} {c : Chan} (h : e.chans[i]? = some c) :
    wp A (chanGet i) Q (e, l) ↔ Q c (e, l) := by
  simp [chanGet, h]

@[simp] theorem wp_chanSet {A} {i : Nat} {c : Chan} {Q : Unit → St → Prop} {e : Ep} {l : List Out} :
    wp A (chanSet i c) Q (e, l) ↔ Q () ({ e with chans := e.chans.set i c }, l) := by
  simp [chanSet]

theorem getElem?_of_lt {α} {l : List α} {i : Nat} (h : i < l.length) : ∃ c, l[i]? = some c :=
  ⟨l[i], List.getElem?_eq_getElem h⟩

theorem DataFrame.setChan (e : Ep) (i : Nat) (c : Chan) : DataFrame e { e with chans := e.chans.set i c } :=
  ⟨e.chans.set i c, e.dataChannels, e.dcQueue, e.tx, _, _, _, _, rfl, by simp⟩

/-- No application handler is armed: `react` does nothing. -/
theorem wp_react_nil {A} {k i : Nat} {Q : Unit → St → Prop} {e : Ep} {l : List Out} (hn : e.reactions = []) :
    wp A (react k i) Q (e, l) ↔ Q () (e, l) := by
  unfold react
  simp [hn]

/-- `_setReadyState`: only the channel object changes. -/
theorem wp_setReady {A} {i st : Nat} {Q : Unit → St → Prop} {e : Ep} {l : List Out} (h : WF e) (hi : i < e.chans.length)
    (hq : ∀ cs l', WF { e with chans := cs } → cs.length = e.chans.length → Q () ({ e with chans := cs }, l')) :
    wp A (setReady i st) Q (e, l) := by
  obtain ⟨c, hc⟩ := getElem?_of_lt hi
  have hself := hq e.chans
  unfold setReady
  simp only [wp_bind, wp_chanGet hc]
  split
  · simp only [wp_bind, wp_chanSet]
    have hw := h.setChan hc (c' := { c with ready := st }) ⟨rfl, rfl, rfl⟩
    split
    · split
      · simp only [wp_bind, wp_emit, wp_react_nil hw.nr]; exact hq _ _ hw (by simp)
      · split
        · simp only [wp_bind, wp_emit, wp_react_nil hw.nr]; exact hq _ _ hw (by simp)
        · simp only [wp_pure]; exact hq _ _ hw (by simp)
    · simp only [wp_pure]; exact hq _ _ hw (by simp)
  · simp only [wp_pure]; exact hself l h rfl

/-- `_addBufferedAmount` proper (returns whether `bufferedamountlow` fired): only the channel object changes. -/
theorem wp_addBufferedCore {A} {i : Nat} {amount : Int} {Q : Bool → St → Prop} {e : Ep} {l : List Out} (h : WF e)
    (hi : i < e.chans.length)
    (hq : ∀ b cs l', WF { e with chans := cs } → cs.length = e.chans.length → Q b ({ e with chans := cs }, l')) :
    wp A (addBufferedCore i amount) Q (e, l) := by
  obtain ⟨c, hc⟩ := getElem?_of_lt hi
  unfold addBufferedCore
  simp only [wp_bind, wp_chanGet hc, wp_chanSet]
  have hw := h.setChan hc (c' := { c with buffered := c.buffered + amount }) ⟨rfl, rfl, rfl⟩
  split
  · simp only [wp_bind, wp_emit, wp_pure]; exact hq _ _ _ hw (by simp)
  · simp only [wp_pure]; exact hq _ _ _ hw (by simp)

/-- `_addBufferedAmount` with the (unarmed) `bufferedamountlow` handler. -/
theorem wp_addBuffered {A} {i : Nat} {amount : Int} {Q : Unit → St → Prop} {e : Ep} {l : List Out} (h : WF e)
    (hi : i < e.chans.length)
    (hq : ∀ cs l', WF { e with chans := cs } → cs.length = e.chans.length → Q () ({ e with chans := cs }, l')) :
    wp A (addBuffered i amount) Q (e, l) := by
  unfold addBuffered
  simp only [wp_bind]
  refine wp_addBufferedCore h hi ?_
  intro b cs l' hw hlen
  split
  · rw [wp_react_nil hw.nr]; exact hq _ _ hw hlen
  · simp only [wp_pure]; exact hq _ _ hw hlen

/-- `_transmit()`: only the send side changes. -/
theorem wp_transmit {A} {Q : Unit → St → Prop} {e : Ep} {l : List Out} (h : WF e)
    (hq : ∀ tx l', WF { e with tx := tx } → Q () ({ e with tx := tx }, l')) : wp A transmit Q (e, l) := by
  unfold transmit
  obtain ⟨ht, hev⟩ := Tx.transmit_ok e.tx h.tx
  simp only [wp_bind, wp_getE, wp_setE]
  have hw : WF { e with tx := e.tx.transmit.1 } := h.setTx ht
  refine wp_playTx hw hev ?_
  intro l'
  exact hq _ _ hw

/-- `_send(...)` of a reliable message. -/
theorem wp_sendData {A} {sid ppid : Nat} {data : Bytes} {ordered : Bool} {Q : Unit → St → Prop} {e : Ep} {l : List Out}
    (h : WF e) (hs : sid < 65536) (hp : ppid < 4294967296)
    (hq : ∀ tx l', WF { e with tx := tx } → Q () ({ e with tx := tx }, l')) :
    wp A (sendData sid ppid data none none ordered) Q (e, l) := by
  unfold sendData
  simp only [wp_bind, wp_modE]
  have hw : WF { e with tx := e.tx.enqueue sid ppid data none none ordered } :=
    h.setTx (Tx.enqueue_ok _ h.tx _ _ _ _ hs hp)
  refine wp_transmit hw ?_
  intro tx l' hw'
  exact hq tx l' hw'

/-! ## `_transmit_reconfig` (called at the end of `_data_channel_flush`) -/

theorem wp_rcCancel {A} {Q : Unit → St → Prop} {e : Ep} {l : List Out}
    (hq : ∀ l', Q () ({ e with rcTimer := false }, l')) : wp A rcCancel Q (e, l) := by
  unfold rcCancel
  simp only [wp_bind, wp_getE]
  split
  · simp only [wp_bind, wp_emit, wp_modE]; exact hq _
  · rename_i hf
    simp only [wp_pure]
    have := hq l
    have he : ({ e with rcTimer := false } : Ep) = e := by cases e; simp_all
    rwa [he] at this

theorem wp_rcStart {A} {Q : Unit → St → Prop} {e : Ep} {l : List Out}
    (hq : ∀ l', Q () ({ e with rcTimer := true }, l')) : wp A rcStart Q (e, l) := by
  unfold rcStart
  simp only [wp_bind]
  refine wp_rcCancel ?_
  intro l'
  simp only [wp_modE, wp_emit]
  exact hq _

theorem encodeParams_single (t : Nat) (v : Bytes) : (encodeParams [(t, v)]).length = v.length + 4 := by
  simp [encodeParams, encodeParamsAux, u16be]

theorem reconfigChunk_inRange {t : Nat} {b : Bytes} (ht : t < 65536) (hb : b.length + 8 < 65536) :
    (Chunk.params .reconfig 0 [(t, b)]).inRange = true := by
  simp only [Chunk.inRange, paramsInRange, List.all_cons, List.all_nil, encodeParams_single, Bool.and_true,
    Bool.and_eq_true, decide_eq_true_eq]
  omega

theorem length_u16sBytes (l : List Nat) : (u16sBytes l).length = 2 * l.length := by
  induction l with
  | nil => rfl
  | cons a l ih => simp [u16sBytes, List.flatMap_cons] at ih ⊢; omega

theorem tsn_minus_one_range (a : Int) : InRange32 (tsn_minus_one a) := by
  unfold tsn_minus_one InRange32; omega

theorem tsn_plus_one_range (a : Int) : InRange32 (tsn_plus_one a) := by
  unfold tsn_plus_one InRange32; omega

/-- `_transmit_reconfig()`: only the stream reset bookkeeping changes. -/
theorem wp_transmitReconfig {A} {Q : Unit → St → Prop} {e : Ep} {l : List Out} (h : WF e)
    (hq : ∀ e' l', WF e' → DataFrame e e' → Q () (e', l')) :
    wp A transmitReconfig Q (e, l) := by
  unfold transmitReconfig
  simp only [wp_bind, wp_getE]
  split
  · generalize hst : ((e.reconfigQueue.filter fun x =>
        !(e.dcQueue.map fun q => (e.chans[q.1]?).bind (·.id)).contains (some x)).take RECONFIG_MAX_STREAMS) = streams
    have hsub : ∀ s ∈ streams, s ∈ e.reconfigQueue := by
      intro s hs; rw [← hst] at hs
      exact (List.mem_filter.mp (List.mem_of_mem_take hs)).1
    have hlen : streams.length ≤ 135 := by
      rw [← hst, List.length_take]; exact Nat.min_le_left _ _
    split
    · simp only [wp_pure]; exact hq e l h (DataFrame.refl _)
    · simp only [wp_bind, wp_setE]
      obtain ⟨ha0, ha1⟩ := h.rcReq
      obtain ⟨hb0, hb1⟩ := h.rcResp
      obtain ⟨hc0, hc1⟩ := tsn_minus_one_range e.tx.localTsn
      have hstreams : ∀ s ∈ streams, s < 65536 := fun s hs => h.ch.rcq s (hsub s hs)
      have hser : (RcParam.resetOut e.reconfigRequestSeq.toNat e.reconfigResponseSeq.toNat
          (tsn_minus_one e.tx.localTsn).toNat streams).serialize =
          .ok (RcParam.resetOut e.reconfigRequestSeq.toNat e.reconfigResponseSeq.toNat
            (tsn_minus_one e.tx.localTsn).toNat streams).bytes := by
        have h1 : e.reconfigRequestSeq.toNat < 4294967296 := by omega
        have h2 : e.reconfigResponseSeq.toNat < 4294967296 := by omega
        have h3 : (tsn_minus_one e.tx.localTsn).toNat < 4294967296 := by omega
        simp only [RcParam.serialize, RcParam.inRange, h1, h2, h3, decide_true, Bool.true_and, List.all_eq_true,
          decide_eq_true_eq]
        rw [if_pos]
        intro s hs; exact hstreams s hs
      simp only [hser, wp_liftO_ok]
      have hw1 : WF { e with reconfigQueue := e.reconfigQueue.filter fun x => !streams.contains x
                             reconfigRequest := some (e.reconfigRequestSeq, e.reconfigResponseSeq,
                               tsn_minus_one e.tx.localTsn, streams)
                             reconfigRequestSeq := tsn_plus_one e.reconfigRequestSeq } :=
        ⟨h.net, ⟨h.ch.dcIdx, h.ch.dcKeys, h.ch.qIdx, h.ch.qId, h.ch.qRel, h.ch.qPpid, h.ch.sid,
          fun s hs => h.ch.rcq s (List.mem_filter.mp hs).1⟩, h.tx, h.rx, tsn_plus_one_range _, h.rcResp, h.sack, h.nr⟩
      refine wp_sendChunk hw1 (reconfigChunk_inRange (by decide) ?_) ?_
      · simp only [RcParam.bytes, List.length_append, length_u32be, length_u16sBytes]
        omega
      · intro d
        refine wp_rcStart ?_
        intro l'
        exact hq _ _ ⟨hw1.net, hw1.ch, hw1.tx, hw1.rx, hw1.rcReq, hw1.rcResp, hw1.sack, hw1.nr⟩
          ⟨_, _, _, _, _, _, _, _, rfl, Nat.le_refl _⟩
  · simp only [wp_pure]
    exact hq e l h (DataFrame.refl _)

theorem ChansOk.subQ {chans dcs q q' rcq} (h : ChansOk chans dcs q rcq) (hsub : ∀ x ∈ q', x ∈ q) :
    ChansOk chans dcs q' rcq :=
  ⟨h.dcIdx, h.dcKeys, fun x hx => h.qIdx x (hsub x hx), fun x hx => h.qId x (hsub x hx),
   fun x hx => h.qRel x (hsub x hx), fun x hx => h.qPpid x (hsub x hx), h.sid, h.rcq⟩

theorem WF.subQ {e : Ep} (h : WF e) {q : List (Nat × Nat × Bytes)} (hsub : ∀ x ∈ q, x ∈ e.dcQueue) :
    WF { e with dcQueue := q } :=
  ⟨h.net, h.ch.subQ hsub, h.tx, h.rx, h.rcReq, h.rcResp, h.sack, h.nr⟩

/-- `_data_channel_flush` loop: channel objects, queue and send side change; nothing else. -/
theorem wp_flushLoop {A} (fuel : Nat) {Q : Unit → St → Prop} {e : Ep} {l : List Out} (h : WF e)
    (hq : ∀ e' l', WF e' → DataFrame e e' → Q () (e', l')) : wp A (flushLoop fuel) Q (e, l) := by
  induction fuel generalizing e l with
  | zero => simpa [flushLoop] using hq e l h (DataFrame.refl _)
  | succ fuel ih =>
    unfold flushLoop
    simp only [wp_bind, wp_getE]
    split
    · simpa using hq e l h (DataFrame.refl _)
    · rename_i i ppid data rest hqeq
      split
      · simpa using hq e l h (DataFrame.refl _)
      · simp only [wp_bind, wp_setE]
        have hmem : (i, ppid, data) ∈ e.dcQueue := by rw [hqeq]; simp
        have hi := h.ch.qIdx _ hmem
        obtain ⟨c, hc⟩ := getElem?_of_lt hi
        have hw1 : WF { e with dcQueue := rest } := h.subQ (by intro x hx; rw [hqeq]; simp [hx])
        rw [wp_chanGet (c := c) (by simpa using hc)]
        have hid := h.ch.qId _ hmem c hc
        obtain ⟨sid, hsid⟩ := Option.isSome_iff_exists.mp hid
        have hsidlt := h.ch.sid c (List.mem_of_getElem? hc) sid hsid
        have hpp := h.ch.qPpid _ hmem
        simp only [hsid, wp_pure, wp_bind]
        split
        · simp only [wp_bind]
          refine wp_sendData hw1 hsidlt hpp ?_
          intro tx l' hw2
          refine ih hw2 ?_
          intro e' l'' hw3 hf
          exact hq e' l'' hw3 (DataFrame.trans ⟨_, _, rest, tx, _, _, _, _, rfl, Nat.le_refl _⟩ hf)
        · rename_i hne
          have hrel := (h.ch.qRel _ hmem c hc).resolve_left hne
          simp only [wp_bind, wp_getE, hrel.1, hrel.2, Option.map_none]
          refine wp_sendData hw1 hsidlt hpp ?_
          intro tx l' hw2
          refine wp_addBuffered hw2 (by simpa using hi) ?_
          intro cs l'' hw3 hlen
          refine ih hw3 ?_
          intro e' l3 hw4 hf
          exact hq e' l3 hw4 (DataFrame.trans ⟨cs, _, rest, tx, _, _, _, _, rfl, by simp at hlen; omega⟩ hf)

theorem wp_flush {A} {Q : Unit → St → Prop} {e : Ep} {l : List Out} (h : WF e)
    (hq : ∀ e' l', WF e' → DataFrame e e' → Q () (e', l')) : wp A flush Q (e, l) := by
  unfold flush
  simp only [wp_bind, wp_getE]
  split
  · simpa using hq e l h (DataFrame.refl _)
  · simp only [wp_bind]
    refine wp_flushLoop _ h ?_
    intro e1 l1 hw1 hf1
    simp only [wp_getE]
    split
    · refine wp_transmitReconfig hw1 ?_
      intro e2 l2 hw2 hf2
      exact hq e2 l2 hw2 (hf1.trans hf2)
    · simp only [wp_pure]; exact hq e1 l1 hw1 hf1

end Aiortc.Sctp
