import Aiortc.Lemmas.SctpNoCrashTx
/-! # Crash-freedom of the small handlers: sending chunks, channel state, `_transmit`, `_data_channel_flush` -/
namespace Aiortc.Sctp
open Aiortc.Gen Aiortc.Sctp.Wire
set_option linter.unusedSimpArgs false

theorem packetFor_ok {e : Ep} {c : Chunk} (h : WF e) (hc : c.inRange = true) : ∃ d, packetFor e c = .ok d := by
  obtain ⟨p, hp, hlt⟩ := h.net.rp
  refine ⟨serializePacketRaw e.localPort p e.remoteTag c, ?_⟩
  have := h.net.lp
  have := h.net.rtag
  simp [packetFor, hp, serializePacket, headerInRange, hc, *]

theorem wp_sendChunk {A} {c : Chunk} {Q : Unit → St → Prop} {e : Ep} {l : List Out} (h : WF e) (hc : c.inRange = true)
    (hq : ∀ d, Q () (e, l ++ [.tx d])) : wp A (sendChunk c) Q (e, l) := by
  obtain ⟨d, hd⟩ := packetFor_ok h hc
  simp [sendChunk, hd, hq]

theorem dataChunkOf_inRange {c : RChunk} (h : c.Wire) : (dataChunkOf c).inRange = true := by
  obtain ⟨h1, h2, h3, h4, h5, h6, h7, h8⟩ := h
  simp [dataChunkOf, Chunk.inRange]
  omega

theorem wp_playTx {A} {evs : List TxEv} {Q : Unit → St → Prop} {e : Ep} {l : List Out} (h : WF e)
    (hev : ∀ ev ∈ evs, ev.Ok) (hq : ∀ l', Q () (e, l')) : wp A (playTx evs) Q (e, l) := by
  unfold playTx
  rw [wp_bind]
  refine wp_forIn A evs _ _ (fun suf s' => s'.1 = e ∧ ∀ ev ∈ suf, ev.Ok) (e, l) ⟨rfl, hev⟩ ?_ ?_
  · intro ev rest s' ⟨he, hok⟩
    have hev := hok ev (by simp)
    have hrest : ∀ ev ∈ rest, ev.Ok := fun x hx => hok x (by simp [hx])
    cases ev with
    | data c =>
      simp only [wp_bind]
      refine wp_sendChunk (he ▸ h) (dataChunkOf_inRange hev) ?_
      intro d; simpa [he] using hrest
    | fwd cum streams => exact absurd hev (by simp [TxEv.Ok])
    | t3start => simpa [he] using hrest
    | t3cancel => simpa [he] using hrest
  · intro s' ⟨he, _⟩
    have := hq s'.2
    rw [← he] at this
    simpa using this

theorem wp_chanGet {A} {i : Nat} {Q : Chan → St → Prop} {e : Ep} {l : List Out} {c : Chan} (h : e.chans[i]? = some c) :
    wp A (chanGet i) Q (e, l) ↔ Q c (e, l) := by
  simp [chanGet, h]

@[simp] theorem wp_chanSet {A} {i : Nat} {c : Chan} {Q : Unit → St → Prop} {e : Ep} {l : List Out} :
    wp A (chanSet i c) Q (e, l) ↔ Q () ({ e with chans := e.chans.set i c }, l) := by
  simp [chanSet]

theorem getElem?_of_lt {α} {l : List α} {i : Nat} (h : i < l.length) : ∃ c, l[i]? = some c :=
  ⟨l[i], List.getElem?_eq_getElem h⟩

theorem DataFrame.setChan (e : Ep) (i : Nat) (c : Chan) : DataFrame e { e with chans := e.chans.set i c } :=
  ⟨e.chans.set i c, e.dataChannels, e.dcQueue, e.tx, rfl, by simp⟩

/-- `_setReadyState`: only the channel object changes. -/
theorem wp_setReady {A} {i st : Nat} {Q : Unit → St → Prop} {e : Ep} {l : List Out} (h : WF e) (hi : i < e.chans.length)
    (hq : ∀ cs l', WF { e with chans := cs } → cs.length = e.chans.length → Q () ({ e with chans := cs }, l')) :
    wp A (setReady i st) Q (e, l) := by
  obtain ⟨c, hc⟩ := getElem?_of_lt hi
  have hself := hq e.chans
  unfold setReady
  simp only [wp_bind, wp_chanGet hc]
  split
  · simp only [wp_bind, wp_chanSet]
    have hw := h.setChan hc (c' := { c with ready := st }) ⟨rfl, rfl, rfl⟩
    split
    · split
      · simp only [wp_emit]; exact hq _ _ hw (by simp)
      · split
        · simp only [wp_emit]; exact hq _ _ hw (by simp)
        · simp only [wp_pure]; exact hq _ _ hw (by simp)
    · simp only [wp_pure]; exact hq _ _ hw (by simp)
  · simp only [wp_pure]; exact hself l h rfl

/-- `_addBufferedAmount`: only the channel object changes. -/
theorem wp_addBuffered {A} {i : Nat} {amount : Int} {Q : Unit → St → Prop} {e : Ep} {l : List Out} (h : WF e)
    (hi : i < e.chans.length)
    (hq : ∀ cs l', WF { e with chans := cs } → cs.length = e.chans.length → Q () ({ e with chans := cs }, l')) :
    wp A (addBuffered i amount) Q (e, l) := by
  obtain ⟨c, hc⟩ := getElem?_of_lt hi
  unfold addBuffered
  simp only [wp_bind, wp_chanGet hc, wp_chanSet]
  have hw := h.setChan hc (c' := { c with buffered := c.buffered + amount }) ⟨rfl, rfl, rfl⟩
  split
  · simp only [wp_emit]; exact hq _ _ hw (by simp)
  · simp only [wp_pure]; exact hq _ _ hw (by simp)

/-- `_transmit()`: only the send side changes. -/
theorem wp_transmit {A} {Q : Unit → St → Prop} {e : Ep} {l : List Out} (h : WF e)
    (hq : ∀ tx l', WF { e with tx := tx } → Q () ({ e with tx := tx }, l')) : wp A transmit Q (e, l) := by
  unfold transmit
  obtain ⟨ht, hev⟩ := Tx.transmit_ok e.tx h.tx
  simp only [wp_bind, wp_getE, wp_setE]
  have hw : WF { e with tx := e.tx.transmit.1 } := h.setTx ht
  refine wp_playTx hw hev ?_
  intro l'
  exact hq _ _ hw

/-- `_send(...)` of a reliable message. -/
theorem wp_sendData {A} {sid ppid : Nat} {data : Bytes} {ordered : Bool} {Q : Unit → St → Prop} {e : Ep} {l : List Out}
    (h : WF e) (hs : sid < 65536) (hp : ppid < 4294967296)
    (hq : ∀ tx l', WF { e with tx := tx } → Q () ({ e with tx := tx }, l')) :
    wp A (sendData sid ppid data none none ordered) Q (e, l) := by
  unfold sendData
  simp only [wp_bind, wp_modE]
  have hw : WF { e with tx := e.tx.enqueue sid ppid data none none ordered } :=
    h.setTx (Tx.enqueue_ok _ h.tx _ _ _ _ hs hp)
  refine wp_transmit hw ?_
  intro tx l' hw'
  exact hq tx l' hw'

theorem ChansOk.subQ {chans dcs q q' rcq} (h : ChansOk chans dcs q rcq) (hsub : ∀ x ∈ q', x ∈ q) :
    ChansOk chans dcs q' rcq :=
  ⟨h.dcIdx, h.dcKeys, fun x hx => h.qIdx x (hsub x hx), fun x hx => h.qId x (hsub x hx),
   fun x hx => h.qRel x (hsub x hx), fun x hx => h.qPpid x (hsub x hx), h.sid, h.rcq⟩

theorem WF.subQ {e : Ep} (h : WF e) {q : List (Nat × Nat × Bytes)} (hsub : ∀ x ∈ q, x ∈ e.dcQueue) :
    WF { e with dcQueue := q } :=
  ⟨h.net, h.ch.subQ hsub, h.tx, h.rx, h.rcReq, h.rcResp, h.sack⟩

/-- `_data_channel_flush` loop: channel objects, queue and send side change; nothing else. -/
theorem wp_flushLoop {A} (fuel : Nat) {Q : Unit → St → Prop} {e : Ep} {l : List Out} (h : WF e)
    (hq : ∀ e' l', WF e' → DataFrame e e' → Q () (e', l')) : wp A (flushLoop fuel) Q (e, l) := by
  induction fuel generalizing e l with
  | zero => simpa [flushLoop] using hq e l h (DataFrame.refl _)
  | succ fuel ih =>
    unfold flushLoop
    simp only [wp_bind, wp_getE]
    split
    · simpa using hq e l h (DataFrame.refl _)
    · rename_i i ppid data rest hqeq
      split
      · simpa using hq e l h (DataFrame.refl _)
      · simp only [wp_bind, wp_setE]
        have hmem : (i, ppid, data) ∈ e.dcQueue := by rw [hqeq]; simp
        have hi := h.ch.qIdx _ hmem
        obtain ⟨c, hc⟩ := getElem?_of_lt hi
        have hw1 : WF { e with dcQueue := rest } := h.subQ (by intro x hx; rw [hqeq]; simp [hx])
        rw [wp_chanGet (c := c) (by simpa using hc)]
        have hid := h.ch.qId _ hmem c hc
        obtain ⟨sid, hsid⟩ := Option.isSome_iff_exists.mp hid
        have hsidlt := h.ch.sid c (List.mem_of_getElem? hc) sid hsid
        have hpp := h.ch.qPpid _ hmem
        simp only [hsid, wp_pure, wp_bind]
        split
        · simp only [wp_bind]
          refine wp_sendData hw1 hsidlt hpp ?_
          intro tx l' hw2
          refine ih hw2 ?_
          intro e' l'' hw3 hf
          exact hq e' l'' hw3 (DataFrame.trans ⟨_, _, rest, tx, rfl, Nat.le_refl _⟩ hf)
        · rename_i hne
          have hrel := (h.ch.qRel _ hmem c hc).resolve_left hne
          simp only [wp_bind, wp_getE, hrel.1, hrel.2, Option.map_none]
          refine wp_sendData hw1 hsidlt hpp ?_
          intro tx l' hw2
          refine wp_addBuffered hw2 (by simpa using hi) ?_
          intro cs l'' hw3 hlen
          refine ih hw3 ?_
          intro e' l3 hw4 hf
          exact hq e' l3 hw4 (DataFrame.trans ⟨cs, _, rest, tx, rfl, by simp at hlen; omega⟩ hf)

theorem wp_flush {A} {Q : Unit → St → Prop} {e : Ep} {l : List Out} (h : WF e)
    (hq : ∀ e' l', WF e' → DataFrame e e' → Q () (e', l')) : wp A flush Q (e, l) := by
  unfold flush
  simp only [wp_bind, wp_getE]
  split
  · simpa using hq e l h (DataFrame.refl _)
  · exact wp_flushLoop _ h hq

end Aiortc.Sctp
