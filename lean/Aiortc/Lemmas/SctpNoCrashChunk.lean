import Aiortc.Lemmas.SctpNoCrashCtl
/-! # Crash-freedom of `_receive_chunk` and `_handle_data` -/
namespace Aiortc.Sctp
open Aiortc.Gen Aiortc.Sctp.Wire
set_option linter.unusedSimpArgs false

theorem paramsInRange_mem {ps : List Param} (h : paramsInRange ps = true) {p : Param} (hp : p ∈ ps) :
    p.1 < 65536 ∧ p.2.length + 4 < 65536 := by
  unfold paramsInRange at h
  rw [List.all_eq_true] at h
  simpa using h p hp

theorem length_zeros (n : Nat) : (zeros n).length = n := by simp [zeros]

theorem encodeParamsAux_length_le (pad : Bytes) (ps : List Param) :
    (encodeParamsAux pad ps).length ≤ pad.length + (ps.map fun p => p.2.length + 7).sum := by
  induction ps generalizing pad with
  | nil => simp [encodeParamsAux]
  | cons p ps ih =>
    obtain ⟨t, v⟩ := p
    have := ih (zeros (padl (v.length + 4)))
    have hp := padl_lt (v.length + 4)
    simp only [encodeParamsAux, List.length_append, length_u16be, List.map_cons, List.sum_cons, length_zeros] at this ⊢
    omega

/-- The parameter group is the one of the state as updated by INIT / INIT-ACK. -/
theorem initAck_inRange {e : Ep} (h : WF e) (hr : e.rwnd ≤ 1048576) {cookie : Bytes} (hc : cookie.length ≤ 1000) :
    (Chunk.init .initAck 0 e.localTag e.rwnd.toNat e.outboundCount e.inboundMax e.tx.localTsn.toNat
      (localExtensions ++ [(SCTP_STATE_COOKIE, cookie)])).inRange = true := by
  have h1 := h.net.ltag
  have h2 := h.net.outCnt
  have h3 := h.net.inMax
  obtain ⟨h4, h5⟩ := h.tx.tsn
  have hlen : (encodeParams (localExtensions ++ [(SCTP_STATE_COOKIE, cookie)])).length ≤ cookie.length + 23 := by
    have := encodeParamsAux_length_le [] (localExtensions ++ [(SCTP_STATE_COOKIE, cookie)])
    simp only [localExtensions, List.cons_append, List.nil_append, List.map_cons, List.map_nil, List.sum_cons,
      List.sum_nil, List.length_nil, List.length_cons] at this
    simp only [encodeParams, localExtensions, List.cons_append, List.nil_append]
    omega
  have hp : paramsInRange (localExtensions ++ [(SCTP_STATE_COOKIE, cookie)]) = true := by
    have c3 : SCTP_STATE_COOKIE < 65536 := by decide
    have c0 : paramsInRange localExtensions = true := by decide
    unfold paramsInRange at c0 ⊢
    rw [List.all_append, c0]
    simp only [List.all_cons, List.all_nil, Bool.and_true, Bool.true_and, Bool.and_eq_true, decide_eq_true_eq]
    omega
  simp only [Chunk.inRange, hp, Bool.and_true, Bool.and_eq_true, decide_eq_true_eq]
  omega

theorem WF.init {e : Ep} (h : WF e) {tag : Nat} (ht : tag < 4294967296) (itsn rwnd : Nat) :
    WF { e with rx := some { last := tsn_minus_one itsn, mis := (e.rx.map (·.mis)).getD [],
                             dups := (e.rx.map (·.dups)).getD [] }
                reconfigResponseSeq := tsn_minus_one itsn
                remoteTag := tag
                hasSsthresh := true
                tx := { e.tx with ssthresh := rwnd } } := by
  refine ⟨⟨h.net.lp, h.net.rp, ht, h.net.ltag, h.net.inMax, h.net.outCnt⟩, h.ch,
    ⟨h.tx.sent, h.tx.out, h.tx.fwd, h.tx.fwdN, h.tx.seq, h.tx.tsn⟩, ⟨?_⟩, h.rcReq, tsn_minus_one_range _,
    fun _ => rfl, h.nr⟩
  intro r hr
  cases hr
  refine ⟨tsn_minus_one_range _, ?_, ?_⟩
  · cases hrx : e.rx with
    | none => simp
    | some r0 => simpa using (h.rx.rng r0 hrx).2.1
  · cases hrx : e.rx with
    | none => simp
    | some r0 => simpa using (h.rx.rng r0 hrx).2.2

theorem WF.counts {e : Ep} (h : WF e) (outs ins : Nat) :
    WF { e with inboundCount := min outs e.inboundMax, outboundCount := min e.outboundCount ins } :=
  ⟨⟨h.net.lp, h.net.rp, h.net.rtag, h.net.ltag, h.net.inMax, by have := h.net.outCnt; simp only; omega⟩,
   h.ch, h.tx, h.rx, h.rcReq, h.rcResp, h.sack, h.nr⟩

theorem Acc.frame {e e' : Ep} (ha : Acc 0 e.rwnd e.inStreams) (hr : e'.rwnd = e.rwnd) (hi : e'.inStreams = e.inStreams) :
    Acc 0 e'.rwnd e'.inStreams := by rw [hr, hi]; exact ha

theorem SidOk.frame {e e' : Ep} (hs : SidOk e.inStreams) (hi : e'.inStreams = e.inStreams) : SidOk e'.inStreams := by
  rw [hi]; exact hs

/-- `_receive_chunk`. -/
theorem wp_receiveChunk {A} {cookie : Bytes} {c : Chunk} {Q : Unit → St → Prop} {e : Ep} {l : List Out} (h : WF e)
    (ha : Acc 0 e.rwnd e.inStreams) (hso : SidOk e.inStreams) (hc : c.Wired) (hck : cookie.length ≤ 1000)
    (hq : ∀ e' l', WF e' → Acc 0 e'.rwnd e'.inStreams → SidOk e'.inStreams → Q () (e', l')) :
    wp A (receiveChunk cookie c) Q (e, l) := by
  have hdone : ∀ l', Q () (e, l') := fun l' => hq e l' h ha hso
  cases c with
  | data flags tsn sid sseq proto ud =>
    obtain ⟨ht, hs⟩ := hc
    simp only [receiveChunk, wp_bind, wp_getE]
    split
    · rename_i hrx
      refine wp_receiveData h hrx ha hso (inRange32_ofNat ht) hs hq
    · simpa using hdone l
  | sack flags ctsn rwnd gaps dups =>
    simp only [receiveChunk, wp_bind, wp_getE]
    refine wp_receiveSack h ?_
    intro e' l' hw hf
    obtain ⟨cs, dcs, q, tx, _, _, _, _, rfl, _⟩ := hf
    exact hq _ _ hw ha hso
  | forwardTsn flags ctsn streams =>
    obtain ⟨ht, hs⟩ := hc
    simp only [receiveChunk, wp_bind, wp_getE]
    split
    · rename_i hrx
      refine wp_receiveForwardTsn h hrx ha hso (inRange32_ofNat ht) hs hq
    · simpa using hdone l
  | shutdown flags ctsn =>
    simp only [receiveChunk, wp_bind, wp_getE]
    refine wp_t2Cancel ?_; intro ch l1
    rw [wp_setState_other (by decide) (by decide)]
    have hw1 : WF { e with t2 := false, t2Chunk := ch, assoc := .shutdownReceived } := by wf_same h
    refine wp_sendChunk hw1 (by decide) ?_
    intro d
    refine wp_t2Start rfl ?_
    intro l2
    rw [wp_setState_other (by decide) (by decide)]
    exact hq _ _ (by wf_same h) ha hso
  | plain k flags body =>
    cases k with
    | cookieEcho =>
      simp only [receiveChunk, wp_bind, wp_getE]
      split
      · split
        · simpa using hdone l
        · split
          · simp only [wp_bind]
            refine wp_sendChunk h ?_ ?_
            · simp only [Chunk.inRange, paramsInRange, encodeParams_single, List.all_cons, List.all_nil,
                length_zeros, SCTP_CAUSE_STALE_COOKIE]
              decide
            · intro d; simpa using hdone _
          · simp only [wp_bind]
            refine wp_sendChunk h (by decide) ?_
            intro d
            refine wp_setState_established h ?_
            intro e' l' hw hr hi
            exact hq _ _ hw (ha.frame hr hi) (hso.frame hi)
      · simpa using hdone l
    | cookieAck =>
      simp only [receiveChunk, wp_bind, wp_getE]
      split
      · simp only [wp_bind]
        refine wp_t1Cancel ?_; intro ch l1
        refine wp_setState_established (e := { e with t1 := false, t1Chunk := ch }) (by wf_same h) ?_
        intro e' l' hw hr hi
        exact hq _ _ hw (ha.frame hr hi) (hso.frame hi)
      · simpa using hdone l
    | shutdownAck =>
      simp only [receiveChunk, wp_bind, wp_getE]
      simpa using hdone l
    | shutdownComplete =>
      simp only [receiveChunk, wp_bind, wp_getE]
      split
      · simp only [wp_bind]
        refine wp_t2Cancel ?_; intro ch l1
        refine wp_setState_closed (e := { e with t2 := false, t2Chunk := ch }) (by wf_same h) ?_
        intro e' l' hw hr hi
        exact hq _ _ hw (ha.frame hr hi) (hso.frame hi)
      · simpa using hdone l
  | params k flags ps =>
    obtain ⟨hpr, hpl, hpb⟩ := hc
    cases k with
    | heartbeat =>
      simp only [receiveChunk, wp_bind, wp_getE]
      refine wp_sendChunk h ?_ ?_
      · simp only [Chunk.inRange, hpr, Bool.and_true, Bool.and_eq_true, decide_eq_true_eq]
        omega
      · intro d; exact hdone _
    | heartbeatAck =>
      simp only [receiveChunk, wp_bind, wp_getE]
      simpa using hdone l
    | abort =>
      simp only [receiveChunk, wp_bind, wp_getE]
      refine wp_setState_closed h ?_
      intro e' l' hw hr hi
      exact hq _ _ hw (ha.frame hr hi) (hso.frame hi)
    | error =>
      simp only [receiveChunk, wp_bind, wp_getE]
      split
      · simp only [wp_bind]
        refine wp_t1Cancel ?_; intro ch l1
        refine wp_setState_closed (e := { e with t1 := false, t1Chunk := ch }) (by wf_same h) ?_
        intro e' l' hw hr hi
        exact hq _ _ hw (ha.frame hr hi) (hso.frame hi)
      · simpa using hdone l
    | reconfig =>
      simp only [receiveChunk, wp_bind, wp_getE]
      split
      · rename_i hest
        rw [wp_bind]
        refine wp_forIn A ps _ _ (fun suf s' => WF s'.1 ∧ Acc 0 s'.1.rwnd s'.1.inStreams ∧
          SidOk s'.1.inStreams ∧ s'.1.assoc = .established ∧ ∀ p ∈ suf, IsBytes p.2) _
          ⟨h, ha, hso, hest, hpb⟩ ?_ ?_
        · intro ⟨t, v⟩ rest ⟨e1, l1⟩ ⟨hw, hacc, hsok, hest1, hbytes⟩
          have hrest : ∀ p ∈ rest, IsBytes p.2 := fun p hp => hbytes p (by simp [hp])
          have hv : IsBytes v := hbytes (t, v) (by simp)
          split
          · rename_i cls hcls
            have hben := rcParse_benign cls v
            split
            · rename_i p hp
              simp only [wp_bind]
              refine wp_receiveReconfigParam hw hacc hsok (rcParse_wired hv hp) hest1 ?_
              intro e' l' hw' ha' hs' hest'
              simp only [wp_pure, true_and]
              exact ⟨hw', ha', hs', hest', hrest⟩
            · simp only [wp_bind, wp_pure, true_and]
              exact ⟨hw, hacc, hsok, hest1, hrest⟩
            · rename_i k hk; rw [hk] at hben; cases hben
            · rename_i hk; rw [hk] at hben; cases hben
          · simp only [wp_bind, wp_pure, true_and]
            exact ⟨hw, hacc, hsok, hest1, hrest⟩
        · intro ⟨e1, l1⟩ ⟨hw, hacc, hsok, _, _⟩
          simp only [wp_pure]
          exact hq _ _ hw hacc hsok
      · simpa using hdone l
  | init k flags tag rwnd outs ins itsn ps =>
    obtain ⟨htag, hpr⟩ := hc
    have hrw : e.rwnd ≤ 1048576 := by have := ha.acc; omega
    cases k with
    | init =>
      simp only [receiveChunk, wp_bind, wp_getE]
      split
      · simp only [wp_bind, wp_modE]
        have hw1 := h.init htag itsn rwnd
        refine wp_getExtensions ?_
        intro pr ext l1
        simp only [wp_modE, wp_getE]
        have hw2 := (show WF _ from by wf_same hw1 :
          WF { e with rx := some { last := tsn_minus_one itsn, mis := (e.rx.map (·.mis)).getD [],
                                   dups := (e.rx.map (·.dups)).getD [] }
                      reconfigResponseSeq := tsn_minus_one itsn
                      remoteTag := tag
                      hasSsthresh := true
                      tx := { e.tx with ssthresh := rwnd }
                      remotePR := pr, remoteExt := ext }).counts outs ins
        refine wp_sendChunk (by wf_same hw2) (initAck_inRange hw2 hrw hck) ?_
        intro d
        exact hq _ _ (by wf_same hw2) ha hso
      · simpa using hdone l
    | initAck =>
      simp only [receiveChunk, wp_bind, wp_getE]
      split
      · simp only [wp_bind]
        refine wp_t1Cancel ?_; intro ch l1
        simp only [wp_modE]
        have hw1 := (show WF { e with t1 := false, t1Chunk := ch } from by wf_same h).init htag itsn rwnd
        refine wp_getExtensions ?_
        intro pr ext l2
        simp only [wp_modE]
        have hw2 := (show WF _ from by wf_same hw1 :
          WF { e with t1 := false, t1Chunk := ch
                      rx := some { last := tsn_minus_one itsn, mis := (e.rx.map (·.mis)).getD [],
                                   dups := (e.rx.map (·.dups)).getD [] }
                      reconfigResponseSeq := tsn_minus_one itsn
                      remoteTag := tag
                      hasSsthresh := true
                      tx := { e.tx with ssthresh := rwnd }
                      remotePR := pr, remoteExt := ext }).counts outs ins
        refine wp_sendChunk hw2 ?_ ?_
        · have hb : (((ps.find? fun p => p.1 == SCTP_STATE_COOKIE).map (·.2)).getD []).length + 4 < 65536 := by
            cases hf : ps.find? fun p => p.1 == SCTP_STATE_COOKIE with
            | none => simp
            | some p => simpa using (paramsInRange_mem hpr (List.mem_of_find?_eq_some hf)).2
          simpa [Chunk.inRange] using hb
        · intro d
          refine wp_t1Start rfl ?_
          intro l3
          rw [wp_setState_other (by decide) (by decide)]
          exact hq _ _ (by wf_same hw2) ha hso
      · simpa using hdone l

/-- `_handle_data(data)` for a datagram of bytes. -/
theorem wp_handleData {A} {data cookie : Bytes} {Q : Unit → St → Prop} {e : Ep} {l : List Out} (h : WF e)
    (ha : Acc 0 e.rwnd e.inStreams) (hso : SidOk e.inStreams) (hd : IsBytes data) (hck : cookie.length ≤ 1000)
    (hq : ∀ e' l', WF e' → Acc 0 e'.rwnd e'.inStreams → SidOk e'.inStreams → Q () (e', l')) :
    wp A (handleData data cookie) Q (e, l) := by
  have hdone : ∀ l', Q () (e, l') := fun l' => hq e l' h ha hso
  have hben := parsePacket_benign data
  unfold handleData
  split
  · simpa using hdone l
  · rename_i k hk; rw [hk] at hben; cases hben
  · rename_i hk; rw [hk] at hben; cases hben
  · rename_i sp dp vtag chunks hp
    have hwired := parsePacket_wired hd hp
    simp only [wp_bind, wp_getE]
    split
    · simpa using hdone l
    · try simp only [wp_bind, wp_pure]
      rw [wp_ite]
      refine ⟨fun _ => ?_, fun _ => ?_⟩
      · simpa using hdone l
      · simp only [wp_bind, wp_pure]
        refine wp_forIn A chunks _ _ (fun suf s' => WF s'.1 ∧ Acc 0 s'.1.rwnd s'.1.inStreams ∧
          SidOk s'.1.inStreams ∧ ∀ c ∈ suf, c.Wired) _ ⟨h, ha, hso, hwired⟩ ?_ ?_
        · intro c rest ⟨e1, l1⟩ ⟨hw, hacc, hsok, hwi⟩
          simp only [wp_bind]
          refine wp_receiveChunk hw hacc hsok (hwi c (by simp)) hck ?_
          intro e' l' hw' ha' hs'
          simp only [wp_pure, true_and]
          exact ⟨hw', ha', hs', fun x hx => hwi x (by simp [hx])⟩
        · intro ⟨e1, l1⟩ ⟨hw, hacc, hsok, _⟩
          simp only [wp_getE]
          split
          · rename_i hsn
            refine wp_sendSack hw (hw.sack hsn) hacc ?_
            intro r l' hw'
            exact hq _ _ hw' hacc hsok
          · simp only [wp_pure]
            exact hq _ _ hw hacc hsok

end Aiortc.Sctp
