import Aiortc.Lemmas.SctpNoCrashData
import Aiortc.Lemmas.SctpNoCrashWired
/-! # Crash-freedom of the control plane: timers, `_set_state`, stream resets -/
namespace Aiortc.Sctp
open Aiortc.Gen Aiortc.Sctp.Wire
set_option linter.unusedSimpArgs false

/-- `WF` does not read the fields that changed. -/
macro "wf_same " h:term : tactic =>
  `(tactic| exact ⟨($h).net, ($h).ch, ($h).tx, ($h).rx, ($h).rcReq, ($h).rcResp, ($h).sack, ($h).nr⟩)

/-! ## timers -/

theorem wp_t1Cancel {A} {Q : Unit → St → Prop} {e : Ep} {l : List Out}
    (hq : ∀ ch l', Q () ({ e with t1 := false, t1Chunk := ch }, l')) : wp A t1Cancel Q (e, l) := by
  unfold t1Cancel
  simp only [wp_bind, wp_getE]
  split
  · simp only [wp_bind, wp_emit, wp_modE]; exact hq _ _
  · rename_i hf
    simp only [wp_pure]
    have := hq e.t1Chunk l
    have he : ({ e with t1 := false, t1Chunk := e.t1Chunk } : Ep) = e := by
      cases e; simp_all
    rwa [he] at this

theorem wp_t2Cancel {A} {Q : Unit → St → Prop} {e : Ep} {l : List Out}
    (hq : ∀ ch l', Q () ({ e with t2 := false, t2Chunk := ch }, l')) : wp A t2Cancel Q (e, l) := by
  unfold t2Cancel
  simp only [wp_bind, wp_getE]
  split
  · simp only [wp_bind, wp_emit, wp_modE]; exact hq _ _
  · rename_i hf
    simp only [wp_pure]
    have := hq e.t2Chunk l
    have he : ({ e with t2 := false, t2Chunk := e.t2Chunk } : Ep) = e := by
      cases e; simp_all
    rwa [he] at this

theorem wp_t3Cancel {A} {Q : Unit → St → Prop} {e : Ep} {l : List Out}
    (hq : ∀ l', Q () ({ e with tx := { e.tx with t3 := false } }, l')) : wp A t3Cancel Q (e, l) := by
  unfold t3Cancel
  simp only [wp_bind, wp_getE]
  split
  · simp only [wp_bind, wp_emit, wp_modE]; exact hq _
  · rename_i hf
    simp only [wp_pure]
    have := hq l
    have he : ({ e with tx := { e.tx with t3 := false } } : Ep) = e := by
      cases e with | mk _ _ _ _ _ _ _ _ _ _ _ _ _ _ _ _ _ _ _ tx => cases tx; simp_all
    rwa [he] at this

theorem wp_t1Start {A} {c : Chunk} {Q : Unit → St → Prop} {e : Ep} {l : List Out} (ht : e.t1 = false)
    (hq : ∀ l', Q () ({ e with t1Chunk := some c, t1Failures := 0, t1 := true }, l')) :
    wp A (t1Start c) Q (e, l) := by
  unfold t1Start
  simp only [wp_bind, wp_getE, ht, Bool.false_eq_true, if_false, wp_pure, wp_modE, wp_emit]
  exact hq _

theorem wp_t2Start {A} {c : Chunk} {Q : Unit → St → Prop} {e : Ep} {l : List Out} (ht : e.t2 = false)
    (hq : ∀ l', Q () ({ e with t2Chunk := some c, t2Failures := 0, t2 := true }, l')) :
    wp A (t2Start c) Q (e, l) := by
  unfold t2Start
  simp only [wp_bind, wp_getE, ht, Bool.false_eq_true, if_false, wp_pure, wp_modE, wp_emit]
  exact hq _

@[simp] theorem wp_queueTask {A} {t : Task} {name : String} {Q : Unit → St → Prop} {e : Ep} {l : List Out} :
    wp A (queueTask t name) Q (e, l) ↔ Q () ({ e with tasks := e.tasks ++ [t] }, l ++ [.task name]) := by
  simp [queueTask]

/-! ## `_set_state` -/

theorem wp_setState_other {A} {st : AState} {Q : Unit → St → Prop} {e : Ep} {l : List Out}
    (h1 : st ≠ .established) (h2 : st ≠ .closed) :
    wp A (setState st) Q (e, l) ↔ Q () ({ e with assoc := st }, l) := by
  unfold setState
  simp [h1, h2]

theorem wp_setState_established {A} {Q : Unit → St → Prop} {e : Ep} {l : List Out} (h : WF e)
    (hq : ∀ e' l', WF e' → e'.rwnd = e.rwnd → e'.inStreams = e.inStreams → Q () (e', l')) :
    wp A (setState .established) Q (e, l) := by
  unfold setState
  simp only [wp_bind, wp_modE, if_true, wp_getE]
  have hw0 : WF { e with assoc := .established, state := "connected" } := by wf_same h
  refine wp_forIn A _ _ _ (fun suf s' => WF s'.1 ∧ (∀ p ∈ suf, p.2 < s'.1.chans.length) ∧
    s'.1.rwnd = e.rwnd ∧ s'.1.inStreams = e.inStreams) _ ⟨hw0, hw0.ch.dcIdx, rfl, rfl⟩ ?_ ?_
  · intro ⟨sid, i⟩ rest ⟨e1, l1⟩ ⟨hw, hidx, hr, hi⟩
    have hlt : i < e1.chans.length := hidx (sid, i) (by simp)
    obtain ⟨c, hc⟩ := getElem?_of_lt hlt
    simp only [wp_bind, wp_chanGet hc]
    split
    · simp only [wp_bind]
      refine wp_setReady hw hlt ?_
      intro cs l' hw' hlen
      simp only [wp_pure, true_and]
      exact ⟨hw', fun p hp => by simpa [hlen] using hidx p (by simp [hp]), hr, hi⟩
    · simp only [wp_bind, wp_pure, true_and]
      exact ⟨hw, fun p hp => hidx p (by simp [hp]), hr, hi⟩
  · intro ⟨e1, l1⟩ ⟨hw, _, hr, hi⟩
    simp only [wp_queueTask]
    exact hq _ _ (by wf_same hw) hr hi

theorem dictDel_cons_nodup {β} {sid : Nat} {v : β} {rest : List (Nat × β)}
    (hn : (((sid, v) :: rest).map (·.1)).Nodup) : dictDel ((sid, v) :: rest) sid = rest := by
  simp only [List.map_cons, List.nodup_cons] at hn
  unfold dictDel
  rw [List.filter_cons]
  simp only [bne_self_eq_false, Bool.false_eq_true, if_false]
  rw [List.filter_eq_self]
  intro p hp
  simp only [bne_iff_ne, ne_eq]
  intro heq
  exact hn.1 (List.mem_map.mpr ⟨p, hp, heq⟩)

theorem wp_setState_closed {A} {Q : Unit → St → Prop} {e : Ep} {l : List Out} (h : WF e)
    (hq : ∀ e' l', WF e' → e'.rwnd = e.rwnd → e'.inStreams = e.inStreams → Q () (e', l')) :
    wp A (setState .closed) Q (e, l) := by
  unfold setState
  simp only [wp_bind, wp_modE, reduceCtorEq, if_false, if_true]
  refine wp_t1Cancel ?_; intro ch1 l1
  refine wp_t2Cancel ?_; intro ch2 l2
  refine wp_t3Cancel ?_; intro l3
  refine wp_rcCancel ?_; intro l4
  simp only [wp_modE, wp_getE]
  have htx : TxOk { e.tx with t3 := false } :=
    ⟨h.tx.sent, h.tx.out, h.tx.fwd, h.tx.fwdN, h.tx.seq, h.tx.tsn⟩
  have hw0 : WF { e with assoc := .closed, t1 := false, t1Chunk := ch1, t2 := false, t2Chunk := ch2,
                         tx := { e.tx with t3 := false }, rcTimer := false, state := "closed",
                         reconfigQueue := [], reconfigRequest := none } :=
    ⟨h.net, ⟨h.ch.dcIdx, h.ch.dcKeys, h.ch.qIdx, h.ch.qId, h.ch.qRel, h.ch.qPpid, h.ch.sid, by simp⟩, htx, h.rx,
     h.rcReq, h.rcResp, h.sack, h.nr⟩
  refine wp_forIn A _ _ _ (fun suf s' => WF s'.1 ∧ s'.1.dataChannels = suf ∧
    s'.1.rwnd = e.rwnd ∧ s'.1.inStreams = e.inStreams) _ ⟨hw0, rfl, rfl, rfl⟩ ?_ ?_
  · intro ⟨sid, i⟩ rest ⟨e1, l1⟩ ⟨hw, hdc, hr, hi⟩
    simp only at hdc
    simp only [wp_bind]
    refine wp_dcClosed hw ?_
    intro cs l' hw' hlen
    simp only [wp_pure, true_and]
    refine ⟨hw', ?_, hr, hi⟩
    show dictDel e1.dataChannels sid = rest
    rw [hdc]
    exact dictDel_cons_nodup (hdc ▸ hw.ch.dcKeys)
  · intro ⟨e1, l1⟩ ⟨hw, _, hr, hi⟩
    simp only [wp_getE, wp_bind]
    refine wp_forIn A _ _ _ (fun suf s' => WF s'.1 ∧ (∀ x ∈ suf, x.1 < s'.1.chans.length) ∧
      s'.1.rwnd = e.rwnd ∧ s'.1.inStreams = e.inStreams) _ ⟨hw, hw.ch.qIdx, hr, hi⟩ ?_ ?_
    · intro ⟨i, ppid, data⟩ rest ⟨e2, l2⟩ ⟨hw2, hidx, hr2, hi2⟩
      simp only [wp_bind]
      refine wp_setReady hw2 (hidx (i, ppid, data) (by simp)) ?_
      intro cs l' hw' hlen
      simp only [wp_pure, true_and]
      exact ⟨hw', fun x hx => by simpa [hlen] using hidx x (by simp [hx]), hr2, hi2⟩
    · intro ⟨e2, l2⟩ ⟨hw2, _, hr2, hi2⟩
      simp only [wp_modE]
      refine hq _ _ ?_ hr2 hi2
      exact ⟨hw2.net, hw2.ch.subQ (q' := []) (by simp), hw2.tx, hw2.rx, hw2.rcReq, hw2.rcResp, hw2.sack, hw2.nr⟩

/-! ## closing channels, stream resets -/

theorem WF.pushRcq {e : Ep} (h : WF e) {sid : Nat} (hs : sid < 65536) :
    WF { e with reconfigQueue := e.reconfigQueue ++ [sid] } := by
  refine ⟨h.net, ⟨h.ch.dcIdx, h.ch.dcKeys, h.ch.qIdx, h.ch.qId, h.ch.qRel, h.ch.qPpid, h.ch.sid, ?_⟩, h.tx, h.rx,
    h.rcReq, h.rcResp, h.sack, h.nr⟩
  intro s hs'
  rcases List.mem_append.mp hs' with hs' | hs'
  · exact h.ch.rcq s hs'
  · simp at hs'; subst hs'; exact hs

/-- `_data_channel_close(channel)`. The `KeyError` of `self._data_channels.pop(channel.id)` cannot happen
while the association is established (the stream reset is queued instead). -/
theorem wp_dcClose {A} {i : Nat} {Q : Unit → St → Prop} {e : Ep} {l : List Out} (h : WF e)
    (hi : i < e.chans.length) (hk : A "KeyError" ∨ e.assoc = .established)
    (hq : ∀ e' l', WF e' → e'.rwnd = e.rwnd → e'.inStreams = e.inStreams → e'.assoc = e.assoc →
      e'.rx = e.rx → e'.chans.length = e.chans.length → Q () (e', l')) :
    wp A (dcClose i) Q (e, l) := by
  obtain ⟨c, hc⟩ := getElem?_of_lt hi
  unfold dcClose
  simp only [wp_bind, wp_chanGet hc]
  split
  · simp only [wp_bind]
    refine wp_setReady h hi ?_
    intro cs l1 hw1 hlen
    simp only [wp_getE]
    split
    · rename_i sid hsid
      have hcid : c.id = some sid := by
        split at hsid
        · exact hsid
        · cases hsid
      have hslt := h.ch.sid c (List.mem_of_getElem? hc) sid hcid
      simp only [wp_bind, wp_setE]
      have hw2 := hw1.pushRcq hslt
      split
      · simp only [wp_queueTask]
        exact hq _ _ (by wf_same hw2) rfl rfl rfl rfl hlen
      · simp only [wp_pure]
        exact hq _ _ hw2 rfl rfl rfl rfl hlen
    · rename_i hnone
      simp only [wp_bind, wp_setE]
      have hw2 : WF { e with chans := cs, dcQueue := e.dcQueue.filter fun q => q.1 != i } :=
        ⟨hw1.net, hw1.ch.subQ (fun x hx => (List.mem_filter.mp hx).1), hw1.tx, hw1.rx, hw1.rcReq, hw1.rcResp,
         hw1.sack, hw1.nr⟩
      split
      · rename_i sid hsid
        have hnotest : e.assoc ≠ .established := by
          intro hest; simp [hest, hsid] at hnone
        have hA : A "KeyError" := hk.resolve_right hnotest
        split
        · simpa using hA
        · simp only [wp_bind, wp_modE]
          have hw3 := hw2.delDc sid
          refine wp_setReady hw3 (by simpa [hlen] using hi) ?_
          intro cs' l2 hw4 hlen'
          exact hq _ _ hw4 rfl rfl rfl rfl (by dsimp only at hlen' ⊢; omega)
      · try simp only [wp_bind, wp_pure]
        refine wp_setReady hw2 (by simpa [hlen] using hi) ?_
        intro cs' l2 hw4 hlen'
        exact hq _ _ hw4 rfl rfl rfl rfl (by dsimp only at hlen' ⊢; omega)
  · simp only [wp_pure]
    exact hq e l h rfl rfl rfl rfl rfl

/-- `_send_reconfig_param(StreamResetResponseParam(...))`. -/
theorem wp_sendReconfigResponse {A} {respSeq : Nat} {Q : Unit → St → Prop} {e : Ep} {l : List Out} (h : WF e)
    (hr : respSeq < 4294967296) (hq : ∀ l', Q () (e, l')) : wp A (sendReconfigResponse respSeq) Q (e, l) := by
  unfold sendReconfigResponse
  have hser : (RcParam.resetResp respSeq 1).serialize = .ok (RcParam.resetResp respSeq 1).bytes := by
    simp [RcParam.serialize, RcParam.inRange, hr]
  simp only [wp_bind, hser, wp_liftO_ok]
  refine wp_sendChunk h (reconfigChunk_inRange (by decide) ?_) ?_
  · simp [RcParam.bytes, u32be]
  · intro d; exact hq _

theorem SidOk.del {ins : List (Nat × InStream)} (h : SidOk ins) (sid : Nat) : SidOk (dictDel ins sid) :=
  fun p hp => h p (List.mem_filter.mp hp).1

/-- `_get_extensions`. -/
theorem wp_getExtensions {A} {ps : List Param} {Q : Unit → St → Prop} {e : Ep} {l : List Out}
    (hq : ∀ pr ext l', Q () ({ e with remotePR := pr, remoteExt := ext }, l')) :
    wp A (getExtensions ps) Q (e, l) := by
  unfold getExtensions
  rw [wp_bind]
  refine wp_forIn A ps _ _ (fun _ s' => ∃ pr ext, s'.1 = { e with remotePR := pr, remoteExt := ext }) _
    ⟨e.remotePR, e.remoteExt, rfl⟩ ?_ ?_
  · intro ⟨k, v⟩ rest ⟨e1, l1⟩ ⟨pr, ext, he⟩
    simp only at he
    subst he
    repeat' split
    all_goals (simp only [wp_bind, wp_modE, wp_pure, true_and]; exact ⟨_, _, rfl⟩)
  · intro ⟨e1, l1⟩ ⟨pr, ext, he⟩
    simp only at he
    subst he
    simp only [wp_pure]
    exact hq _ _ _

theorem inRange32_ofNat {n : Nat} (h : n < 4294967296) : InRange32 (n : Int) := ⟨by omega, by omega⟩

/-- `_receive_reconfig_param` (only called while the association is established). -/
theorem wp_receiveReconfigParam {A} {p : RcParam} {Q : Unit → St → Prop} {e : Ep} {l : List Out} (h : WF e)
    (ha : Acc 0 e.rwnd e.inStreams) (hso : SidOk e.inStreams) (hp : p.Wired) (hest : e.assoc = .established)
    (hq : ∀ e' l', WF e' → Acc 0 e'.rwnd e'.inStreams → SidOk e'.inStreams → e'.assoc = .established →
      Q () (e', l')) :
    wp A (receiveReconfigParam p) Q (e, l) := by
  cases p with
  | resetOut reqSeq respSeq lastTsn streams =>
    obtain ⟨hr1, _, _, hstreams⟩ := hp
    unfold receiveReconfigParam
    simp only [wp_bind, wp_getE]
    split
    · simp only [wp_bind]
      refine wp_sendReconfigResponse h hr1 ?_
      intro l'; simp only [wp_pure]; exact hq _ _ h ha hso hest
    · simp only [wp_bind, wp_pure, wp_getE]
      split
      · simp only [wp_pure]; exact hq _ _ h ha hso hest
      · split
        · simp only [wp_pure]; exact hq _ _ h ha hso hest
        · simp only [wp_bind, wp_pure]
          refine wp_forIn A streams _ _ (fun _ s' => WF s'.1 ∧ Acc 0 s'.1.rwnd s'.1.inStreams ∧
            SidOk s'.1.inStreams ∧ s'.1.assoc = .established) _ ⟨h, ha, hso, hest⟩ ?_ ?_
          · intro sid rest ⟨e1, l1⟩ ⟨hw, hacc, hsok, hest1⟩
            simp only [wp_bind, wp_modE, wp_getE]
            have hw1 : WF { e1 with inStreams := dictDel e1.inStreams sid } := by wf_same hw
            split
            · rename_i i hsome
              have hi := hw.ch.dcIdx _ (dictGet_mem hsome)
              simp only [wp_bind]
              refine wp_dcClose hw1 hi (Or.inr hest1) ?_
              intro e2 l2 hw2 hr2 hi2 has2 _ _
              simp only [wp_pure, true_and]
              refine ⟨hw2, ?_, ?_, has2.trans hest1⟩
              · rw [hr2, hi2]; exact hacc.del sid
              · rw [hi2]; exact hsok.del sid
            · simp only [wp_pure, true_and]
              exact ⟨hw1, hacc.del sid, hsok.del sid, hest1⟩
          · intro ⟨e1, l1⟩ ⟨hw, hacc, hsok, hest1⟩
            simp only [wp_modE, wp_bind]
            have hw1 : WF { e1 with reconfigResponseSeq := reqSeq } :=
              ⟨hw.net, hw.ch, hw.tx, hw.rx, hw.rcReq, inRange32_ofNat hr1, hw.sack, hw.nr⟩
            refine wp_sendReconfigResponse hw1 hr1 ?_
            intro l'; exact hq _ _ hw1 hacc hsok hest1
  | addOut reqSeq n =>
    have hr1 : reqSeq < 4294967296 := hp
    unfold receiveReconfigParam
    simp only [wp_bind, wp_modE]
    have hw1 : WF { e with inboundCount := e.inboundCount + n, reconfigResponseSeq := reqSeq } :=
      ⟨h.net, h.ch, h.tx, h.rx, h.rcReq, inRange32_ofNat hr1, h.sack, h.nr⟩
    refine wp_sendReconfigResponse hw1 hr1 ?_
    intro l'; exact hq _ _ hw1 ha hso hest
  | resetResp respSeq result =>
    unfold receiveReconfigParam
    simp only [wp_bind, wp_getE]
    split
    · rename_i reqSeq x1 x2 streams hreq
      split
      · simp only [wp_bind]
        refine wp_forIn A streams _ _ (fun _ s' => WF s'.1 ∧ s'.1.rwnd = e.rwnd ∧ s'.1.inStreams = e.inStreams ∧
          s'.1.assoc = .established) _ ⟨h, rfl, rfl, hest⟩ ?_ ?_
        · intro sid rest ⟨e1, l1⟩ ⟨hw, hr1, hi1, hest1⟩
          simp only [wp_bind, wp_modE]
          have htx : TxOk { e1.tx with streamSeq := dictDel e1.tx.streamSeq sid } :=
            ⟨hw.tx.sent, hw.tx.out, hw.tx.fwd, hw.tx.fwdN,
             fun p hp => hw.tx.seq p (List.mem_filter.mp hp).1, hw.tx.tsn⟩
          refine wp_dcClosed (hw.setTx htx) ?_
          intro cs l' hw' hlen
          simp only [wp_pure, true_and]
          exact ⟨hw', hr1, hi1, hest1⟩
        · intro ⟨e1, l1⟩ ⟨hw, hr1, hi1, hest1⟩
          simp only [wp_modE, wp_bind]
          refine wp_rcCancel ?_
          intro l2
          refine wp_transmitReconfig (by wf_same hw) ?_
          intro e3 l3 hw3 hf3
          have hr3 := hf3.rwnd
          have hi3 := hf3.ins
          have has3 := hf3.assoc
          refine hq _ _ hw3 ?_ ?_ (has3.trans hest1)
          · rw [hr3, hi3]; simp only; rw [hr1, hi1]; exact ha
          · rw [hi3]; simp only; rw [hi1]; exact hso
      · simp only [wp_pure]; exact hq _ _ h ha hso hest
    · simp only [wp_pure]; exact hq _ _ h ha hso hest

end Aiortc.Sctp
