import Aiortc.Lemmas.SctpNoCrashChan
import Aiortc.Lemmas.SctpNoCrashRx
/-! # Crash-freedom of the data plane: DCEP, DATA, FORWARD-TSN, SACK -/
namespace Aiortc.Sctp
open Aiortc.Gen Aiortc.Sctp.Wire
set_option linter.unusedSimpArgs false

theorem dictGet_mem {β} {d : List (Nat × β)} {k : Nat} {v : β} (h : dictGet d k = some v) : (k, v) ∈ d := by
  unfold dictGet at h
  cases hf : d.find? (·.1 == k) with
  | none => simp [hf] at h
  | some p =>
    simp [hf] at h
    have := List.find?_some hf
    have hm := List.mem_of_find?_eq_some hf
    simp at this
    subst h; subst this
    exact hm

theorem dictGet_none {β} {d : List (Nat × β)} {k : Nat} (h : dictGet d k = none) : k ∉ d.map (·.1) := by
  unfold dictGet at h
  simp at h
  simp
  intro v hv
  exact h _ _ hv rfl

theorem ChansOk.delDc {chans dcs q rcq} (h : ChansOk chans dcs q rcq) (sid : Nat) :
    ChansOk chans (dictDel dcs sid) q rcq := by
  refine ⟨?_, ?_, h.qIdx, h.qId, h.qRel, h.qPpid, h.sid, h.rcq⟩
  · intro p hp; exact h.dcIdx p ((List.mem_filter.mp hp).1)
  · exact h.dcKeys.sublist ((List.filter_sublist).map _)

theorem WF.delDc {e : Ep} (h : WF e) (sid : Nat) : WF { e with dataChannels := dictDel e.dataChannels sid } :=
  ⟨h.net, h.ch.delDc sid, h.tx, h.rx, h.rcReq, h.rcResp, h.sack, h.nr⟩

theorem dictDel_absent {β} {d : List (Nat × β)} {k : Nat} (h : dictGet d k = none) : dictDel d k = d := by
  unfold dictDel
  rw [List.filter_eq_self]
  intro p hp
  simp only [bne_iff_ne, ne_eq]
  intro heq
  exact dictGet_none h (List.mem_map.mpr ⟨p, hp, heq⟩)

/-- `_data_channel_closed(stream_id)` (after the fix: an unknown stream is ignored). -/
theorem wp_dcClosed {A} {sid : Nat} {Q : Unit → St → Prop} {e : Ep} {l : List Out} (h : WF e)
    (hq : ∀ cs l', WF { e with dataChannels := dictDel e.dataChannels sid, chans := cs } →
      cs.length = e.chans.length → Q () ({ e with dataChannels := dictDel e.dataChannels sid, chans := cs }, l')) :
    wp A (dcClosed sid) Q (e, l) := by
  unfold dcClosed
  simp only [wp_bind, wp_getE]
  split
  · rename_i hnone
    simp only [wp_pure]
    have := hq e.chans l (by rw [dictDel_absent hnone]; exact h) rfl
    rw [dictDel_absent hnone] at this
    exact this
  · rename_i i hsome
    simp only [wp_bind, wp_modE]
    have hi := h.ch.dcIdx _ (dictGet_mem hsome)
    refine wp_setReady (h.delDc sid) hi ?_
    intro cs l' hw hlen
    exact hq cs l' hw hlen

theorem ChansOk.open {chans dcs q rcq} (h : ChansOk chans dcs q rcq) {sid : Nat} {c : Chan}
    (hnone : dictGet dcs sid = none) (hs : sid < 65536) (hc : c.id = some sid) (data : Bytes) :
    ChansOk (chans ++ [c]) (dcs ++ [(sid, chans.length)]) (q ++ [(chans.length, WEBRTC_DCEP, data)]) rcq := by
  refine ⟨?_, ?_, ?_, ?_, ?_, ?_, ?_, h.rcq⟩
  · intro p hp
    rcases List.mem_append.mp hp with hp | hp
    · have := h.dcIdx p hp; simp; omega
    · simp at hp; subst hp; simp
  · rw [List.map_append, List.nodup_append]
    refine ⟨h.dcKeys, by simp, ?_⟩
    intro a ha b hb
    simp at hb; subst hb
    intro heq; subst heq
    exact dictGet_none hnone ha
  · intro x hx
    rcases List.mem_append.mp hx with hx | hx
    · have := h.qIdx x hx; simp; omega
    · simp at hx; subst hx; simp
  · intro x hx d hd
    rcases List.mem_append.mp hx with hx | hx
    · have hlt := h.qIdx x hx
      rw [List.getElem?_append_left hlt] at hd
      exact h.qId x hx d hd
    · simp at hx; subst hx
      simp at hd; subst hd; simp [hc]
  · intro x hx d hd
    rcases List.mem_append.mp hx with hx | hx
    · have hlt := h.qIdx x hx
      rw [List.getElem?_append_left hlt] at hd
      exact h.qRel x hx d hd
    · simp at hx; subst hx; exact Or.inl rfl
  · intro x hx
    rcases List.mem_append.mp hx with hx | hx
    · exact h.qPpid x hx
    · simp at hx; subst hx; simp [WEBRTC_DCEP]
  · intro d hd s hds
    rcases List.mem_append.mp hd with hd | hd
    · exact h.sid d hd s hds
    · simp at hd; subst hd; rw [hc] at hds; cases hds; exact hs

/-- `_data_channel_receive`. -/
theorem wp_dcReceive {A} {sid ppid : Nat} {data : Bytes} {Q : Unit → St → Prop} {e : Ep} {l : List Out} (h : WF e)
    (hs : sid < 65536)
    (hq : ∀ e' l', WF e' → DataFrame e e' → Q () (e', l')) : wp A (dcReceive sid ppid data) Q (e, l) := by
  have hdone : ∀ l', Q () (e, l') := fun l' => hq e l' h (DataFrame.refl _)
  unfold dcReceive
  simp only [wp_bind, wp_getE]
  split
  · split
    · split
      · simpa using hdone l
      · rename_i hnone
        split
        · simpa using hdone l
        · simp only [wp_bind, wp_setE]
          have hnone' : dictGet e.dataChannels sid = none := by
            cases hd : dictGet e.dataChannels sid <;> simp_all
          refine wp_flush ⟨h.net, h.ch.open hnone' hs rfl _, h.tx, h.rx, h.rcReq, h.rcResp, h.sack, h.nr⟩ ?_
          intro e1 l1 hw1 hf1
          obtain ⟨cs, dcs, q, tx, _, _, _, _, rfl, hlen⟩ := hf1
          simp only [wp_getE]
          split
          · simp only [wp_bind]
            have hi : e.chans.length < cs.length := by simp at hlen; omega
            obtain ⟨c, hc⟩ := getElem?_of_lt hi
            rw [wp_chanGet (c := c) (by simpa using hc)]
            have hw2 := hw1.setChan (c := c) (c' := { c with silent := false }) (by simpa using hc) ⟨rfl, rfl, rfl⟩
            simp only [wp_chanSet, wp_emit, wp_react_nil hw2.nr]
            refine hq _ _ hw2 ?_
            exact ⟨_, dcs, q, tx, _, _, _, _, rfl, by simp; omega⟩
          · simp only [wp_pure]
            exact hq _ _ hw1 ⟨cs, dcs, q, tx, _, _, _, _, rfl, by simp at hlen; omega⟩
    · split
      · split
        · simpa using hdone l
        · rename_i i hsome
          have hi := h.ch.dcIdx _ (dictGet_mem hsome)
          obtain ⟨c, hc⟩ := getElem?_of_lt hi
          simp only [wp_bind, wp_chanGet hc]
          split
          · refine wp_setReady h hi ?_
            intro cs l' hw hlen
            exact hq _ _ hw ⟨cs, _, _, _, _, _, _, _, rfl, by omega⟩
          · simpa using hdone l
      · simpa using hdone l
  · split
    · simpa using hdone l
    · rename_i i hsome
      have hi := h.ch.dcIdx _ (dictGet_mem hsome)
      obtain ⟨c, hc⟩ := getElem?_of_lt hi
      simp only [wp_bind, wp_chanGet hc]
      repeat' split
      all_goals first | simpa using hdone _ | (simp only [wp_bind, wp_emit, wp_react_nil h.nr]; exact hdone _)

/-! ## delivery of reassembled messages -/

theorem WF.rxFields {e : Ep} (h : WF e) (rwnd : Int) (ins : List (Nat × InStream)) :
    WF { e with rwnd := rwnd, inStreams := ins } :=
  ⟨h.net, h.ch, h.tx, h.rx, h.rcReq, h.rcResp, h.sack, h.nr⟩

/-- Every fragment waiting for reassembly came from the wire: its stream id fits 16 bits. -/
def SidOk (ins : List (Nat × InStream)) : Prop := ∀ p ∈ ins, ∀ c ∈ p.2.reasm, c.sid < 65536

theorem mem_dictSet {β} {d : List (Nat × β)} {k : Nat} {v : β} {p : Nat × β} (h : p ∈ dictSet d k v) :
    p ∈ d ∨ p = (k, v) := by
  unfold dictSet at h
  split at h
  · simp only [List.mem_map] at h
    obtain ⟨x, hx, rfl⟩ := h
    split
    · exact Or.inr rfl
    · exact Or.inl hx
  · simpa using h

theorem SidOk.set {ins : List (Nat × InStream)} (h : SidOk ins) {sid : Nat} {s : InStream}
    (hs : ∀ c ∈ s.reasm, c.sid < 65536) : SidOk (dictSet ins sid s) := by
  intro p hp
  rcases mem_dictSet hp with hp | rfl
  · exact h p hp
  · exact hs

theorem SidOk.get {ins : List (Nat × InStream)} (h : SidOk ins) {sid : Nat} {s : InStream}
    (hg : dictGet ins sid = some s) : ∀ c ∈ s.reasm, c.sid < 65536 :=
  h _ (dictGet_mem hg)

/-- `for message in …: self._advertised_rwnd += len(message[2]); await self._receive(*message)`. -/
theorem wp_deliver {A} {msgs : List Msg} {Q : Unit → St → Prop} {e : Ep} {l : List Out} (h : WF e)
    (ha : Acc (msgsBytes msgs) e.rwnd e.inStreams) (hs : ∀ m ∈ msgs, m.sid < 65536)
    (hq : ∀ e' l', WF e' → Acc 0 e'.rwnd e'.inStreams → e'.inStreams = e.inStreams → Q () (e', l')) :
    wp A (deliver msgs) Q (e, l) := by
  unfold deliver
  rw [wp_bind]
  refine wp_forIn A msgs _ _ (fun suf s' => WF s'.1 ∧ Acc (msgsBytes suf) s'.1.rwnd s'.1.inStreams ∧
    (∀ m ∈ suf, m.sid < 65536) ∧ s'.1.inStreams = e.inStreams) (e, l) ⟨h, ha, hs, rfl⟩ ?_ ?_
  · intro m rest s' ⟨hw, hacc, hsid, hins⟩
    obtain ⟨e1, l1⟩ := s'
    simp only [wp_bind, wp_modE]
    refine wp_dcReceive (hw.rxFields _ _) (hsid m (by simp)) ?_
    intro e2 l2 hw2 hf2
    simp only [wp_pure, true_and]
    obtain ⟨cs, dcs, q, tx, _, _, _, _, rfl, hlen⟩ := hf2
    refine ⟨hw2, ?_, fun x hx => hsid x (by simp [hx]), hins⟩
    obtain ⟨h1, h2⟩ := hacc
    refine ⟨?_, h2⟩
    simp only [msgsBytes, List.map_cons, List.sum_cons] at h1 ⊢
    try dsimp only at h1 ⊢
    omega
  · intro s' ⟨hw, hacc, _, hins⟩
    simp only [wp_pure]
    have : Acc 0 s'.1.rwnd s'.1.inStreams := by simpa [msgsBytes] using hacc
    exact hq s'.1 s'.2 hw this hins

/-- `_get_inbound_stream`. -/
theorem wp_getInStream {A} {sid : Nat} {k : Int} {Q : InStream → St → Prop} {e : Ep} {l : List Out}
    (ha : Acc k e.rwnd e.inStreams) (hso : SidOk e.inStreams)
    (hq : ∀ s ins, dictGet ins sid = some s → Acc k e.rwnd ins → SidOk ins →
      Q s ({ e with inStreams := ins }, l)) : wp A (getInStream sid) Q (e, l) := by
  unfold getInStream
  simp only [wp_bind, wp_getE]
  split
  · rename_i s hs
    simpa using hq s e.inStreams hs ha hso
  · rename_i hnone
    simp only [wp_bind, wp_modE, wp_pure]
    obtain ⟨h1, h2⟩ := ha.append hnone
    refine hq _ _ h2 h1 ?_
    intro p hp c hc
    rcases List.mem_append.mp hp with hp | hp
    · exact hso p hp c hc
    · simp at hp; subst hp; simp at hc

@[simp] theorem wp_setInStream {A} {sid : Nat} {s : InStream} {Q : Unit → St → Prop} {e : Ep} {l : List Out} :
    wp A (setInStream sid s) Q (e, l) ↔ Q () ({ e with inStreams := dictSet e.inStreams sid s }, l) := by
  simp [setInStream]

theorem WF.setRx {e : Ep} (h : WF e) {r : Rx} (hr : RxR r) (b : Bool) : WF { e with rx := some r, sackNeeded := b } :=
  ⟨h.net, h.ch, h.tx, ⟨by intro r' hr'; cases hr'; exact hr⟩, h.rcReq, h.rcResp, fun _ => rfl, h.nr⟩

theorem WF.rxR {e : Ep} (h : WF e) {r : Rx} (hr : e.rx = some r) : RxR r := h.rx.rng r hr

/-- `_receive_data_chunk`: the only exception is the `AssertionError` of `add_chunk`. -/
theorem wp_receiveData {A} {c : RChunk} {Q : Unit → St → Prop} {e : Ep} {l : List Out} (h : WF e)
    (hrx : e.rx.isSome = true) (ha : Acc 0 e.rwnd e.inStreams) (hso : SidOk e.inStreams)
    (hc : InRange32 c.tsn) (hsid : c.sid < 65536)
    (hq : ∀ e' l', WF e' → Acc 0 e'.rwnd e'.inStreams → SidOk e'.inStreams → Q () (e', l')) :
    wp A (receiveData c) Q (e, l) := by
  obtain ⟨r, hr⟩ := Option.isSome_iff_exists.mp hrx
  unfold receiveData
  simp only [wp_bind, wp_modE, wp_getE, hr, wp_pure, wp_setE]
  have hw1 : WF { e with sackNeeded := true, rx := some (markReceived r c.tsn).2 } :=
    (h.setRx (markReceived_range (h.rxR hr) hc) true)
  have ha1 : Acc 0 e.rwnd e.inStreams := ha
  split
  · simp only [wp_pure]
    exact hq _ _ hw1 ha hso
  · simp only [wp_bind]
    refine wp_getInStream (k := 0) (e := { e with sackNeeded := true, rx := some (markReceived r c.tsn).2 }) ha hso ?_
    intro s ins hg hacc hsok
    split
    · simp only [wp_pure]
      exact hq _ _ (hw1.rxFields _ _) hacc hsok
    rename_i hfresh
    rcases addChunk_outcome s c with ⟨s1, h1, hb1⟩ | hcrash
    · obtain ⟨msgs, s2, h2, hb2⟩ := popMessages_ok s1
      have hm1 := addChunk_mem h1
      obtain ⟨hm2, hm3⟩ := popMessages_mem h2
      have hs1 : ∀ x ∈ s1.reasm, x.sid < 65536 := by
        intro x hx
        rcases hm1 x hx with rfl | hx
        · exact hsid
        · exact hsok.get hg x hx
      simp only [h1, h2, wp_liftO_ok, wp_modE, wp_setInStream, wp_bind]
      refine wp_deliver (hw1.rxFields _ _) ?_ ?_ ?_
      · refine hacc.set hg ?_
        simp only [Int.add_zero]
        omega
      · intro m hm
        obtain ⟨x, hx, hxe⟩ := hm3 m hm
        rw [hxe]; exact hs1 x hx
      · intro e' l' hw' ha' hins
        refine hq e' l' hw' ha' ?_
        rw [hins]
        exact hsok.set (fun x hx => hs1 x (hm2 x hx))
    · obtain ⟨s', hs'⟩ := addChunk_ok_of_fresh (by simpa using hfresh)
      rw [hs'] at hcrash; cases hcrash

theorem dictGet_of_mem_nodup {β} {d : List (Nat × β)} (hn : (d.map (·.1)).Nodup) {k : Nat} {v : β}
    (hm : (k, v) ∈ d) : dictGet d k = some v := by
  induction d with
  | nil => cases hm
  | cons p rest ih =>
    simp only [List.map_cons, List.nodup_cons] at hn
    rcases List.mem_cons.mp hm with rfl | hm
    · simp [dictGet]
    · have hne : p.1 ≠ k := by
        intro heq; apply hn.1; rw [heq]; exact List.mem_map.mpr ⟨(k, v), hm, rfl⟩
      have hb : (p.1 == k) = false := by simp [hne]
      unfold dictGet
      rw [List.find?_cons]
      simp only [hb]
      exact ih hn.2 hm

theorem WF.sackTrue {e : Ep} (h : WF e) (hrx : e.rx.isSome = true) : WF { e with sackNeeded := true } :=
  ⟨h.net, h.ch, h.tx, h.rx, h.rcReq, h.rcResp, fun _ => hrx, h.nr⟩

/-- `_receive_forward_tsn_chunk`. -/
theorem wp_receiveForwardTsn {A} {cum : Int} {streams : List (Nat × Nat)} {Q : Unit → St → Prop} {e : Ep}
    {l : List Out} (h : WF e) (hrx : e.rx.isSome = true) (ha : Acc 0 e.rwnd e.inStreams) (hso : SidOk e.inStreams)
    (hc : InRange32 cum) (hsid : ∀ p ∈ streams, p.1 < 65536)
    (hq : ∀ e' l', WF e' → Acc 0 e'.rwnd e'.inStreams → SidOk e'.inStreams → Q () (e', l')) :
    wp A (receiveForwardTsn cum streams) Q (e, l) := by
  obtain ⟨r, hr⟩ := Option.isSome_iff_exists.mp hrx
  have hrr := h.rxR hr
  unfold receiveForwardTsn
  simp only [wp_bind, wp_modE, wp_getE, hr, wp_pure]
  split
  · simp only [wp_pure]
    exact hq _ _ (h.setRx hrr true) ha hso
  · simp only [wp_bind, wp_setE, wp_getE]
    have hmis0 : ∀ x ∈ r.mis.filter (fun x => uint32_gt x cum), InRange32 x :=
      fun x hx => hrr.2.1 x (List.mem_filter.mp hx).1
    have hr' : RxR { last := consolidate cum (sortByKey cum (r.mis.filter fun x => uint32_gt x cum))
                     dups := r.dups.filter fun x => uint32_gt x
                       (consolidate cum (sortByKey cum (r.mis.filter fun x => uint32_gt x cum)))
                     mis := (r.mis.filter fun x => uint32_gt x cum).filter fun x => uint32_gt x
                       (consolidate cum (sortByKey cum (r.mis.filter fun x => uint32_gt x cum))) } :=
      ⟨consolidate_sorted_range hc hmis0, fun x hx => hmis0 x (List.mem_filter.mp hx).1,
       fun x hx => hrr.2.2 x (List.mem_filter.mp hx).1⟩
    have hw1 := h.setRx hr' true
    -- first loop: prune
    refine wp_forIn A e.inStreams _ _ (fun suf s' => WF s'.1 ∧ Acc 0 s'.1.rwnd s'.1.inStreams ∧
      SidOk s'.1.inStreams ∧ (∀ p ∈ suf, dictGet s'.1.inStreams p.1 = some p.2) ∧ (suf.map (·.1)).Nodup) _
      ⟨hw1, ha, hso, fun p hp => dictGet_of_mem_nodup ha.keys hp, ha.keys⟩ ?_ ?_
    · intro ⟨sid, s⟩ rest ⟨e1, l1⟩ ⟨hw, hacc, hsok, hget, hnd⟩
      have hg : dictGet e1.inStreams sid = some s := hget (sid, s) (by simp)
      simp only [List.map_cons, List.nodup_cons] at hnd
      simp only [wp_bind, wp_setInStream, wp_modE, wp_pure, true_and]
      refine ⟨hw.rxFields _ _, ?_, ?_, ?_, hnd.2⟩
      · refine hacc.set hg ?_
        have := pruneChunks_bytes s cum
        dsimp only
        omega
      · exact hsok.set (fun x hx => hsok.get hg x (pruneChunks_mem s cum x hx))
      · intro p hp
        have hne : p.1 ≠ sid := by
          intro heq; apply hnd.1; rw [← heq]; exact List.mem_map.mpr ⟨p, hp, rfl⟩
        show dictGet (dictSet e1.inStreams sid _) p.1 = some p.2
        rw [dictGet_dictSet_ne _ _ hne]
        exact hget p (by simp [hp])
    · intro ⟨e1, l1⟩ ⟨hw, hacc, hsok, _, _⟩
      -- second loop: advance the streams and deliver
      refine wp_forIn A streams _ _ (fun suf s' => WF s'.1 ∧ Acc 0 s'.1.rwnd s'.1.inStreams ∧
        SidOk s'.1.inStreams ∧ (∀ p ∈ suf, p.1 < 65536)) _ ⟨hw, hacc, hsok, hsid⟩ ?_ ?_
      · intro ⟨sid, sseq⟩ rest ⟨e2, l2⟩ ⟨hw2, hacc2, hsok2, hsid2⟩
        simp only [wp_bind]
        refine wp_getInStream (k := 0) hacc2 hsok2 ?_
        intro s ins hg hacc3 hsok3
        obtain ⟨msgs, s2, h2, hb2⟩ := popMessages_ok
          (if uint16_gt (uint16_add sseq 1) s.seq = true then { s with seq := uint16_add sseq 1 } else s)
        obtain ⟨hm2, hm3⟩ := popMessages_mem h2
        have hreasm : (if uint16_gt (uint16_add sseq 1) s.seq = true then { s with seq := uint16_add sseq 1 } else s).reasm
            = s.reasm := by split <;> rfl
        rw [hreasm] at hb2 hm2 hm3
        simp only [h2, wp_liftO_ok, wp_setInStream, wp_bind]
        refine wp_deliver (hw2.rxFields _ _) ?_ ?_ ?_
        · refine hacc3.set hg ?_
          simp only [Int.add_zero]
          omega
        · intro m hm
          obtain ⟨x, hx, hxe⟩ := hm3 m hm
          rw [hxe]; exact hsok3.get hg x hx
        · intro e' l' hw' ha' hins
          simp only [wp_pure, true_and]
          refine ⟨hw', ha', ?_, fun p hp => hsid2 p (by simp [hp])⟩
          rw [hins]
          exact hsok3.set (fun x hx => hsok3.get hg x (hm2 x hx))
      · intro ⟨e2, l2⟩ ⟨hw2, hacc2, hsok2, _⟩
        exact hq _ _ hw2 hacc2 hsok2

/-- `_receive_sack_chunk`. -/
theorem wp_receiveSack {A} {cum : Nat} {gaps : List (Nat × Nat)} {Q : Unit → St → Prop} {e : Ep} {l : List Out}
    (h : WF e) (hq : ∀ e' l', WF e' → DataFrame e e' → Q () (e', l')) :
    wp A (receiveSack cum gaps) Q (e, l) := by
  unfold receiveSack
  simp only [wp_bind, wp_getE]
  split
  · simpa using hq e l h (DataFrame.refl _)
  · obtain ⟨r, hr, hok⟩ := Tx.receiveSack_ok e.tx h.tx cum gaps (1000 * e.now)
    simp only [wp_bind, wp_pure, ite_self, hr, wp_liftO_ok]
    cases r with
    | none => simpa using hq e l h (DataFrame.refl _)
    | some p =>
      obtain ⟨tx, evs⟩ := p
      obtain ⟨htx, hev⟩ := hok tx evs rfl
      simp only [wp_bind, wp_setE]
      have hw1 : WF { e with tx := tx } := h.setTx htx
      refine wp_playTx hw1 hev ?_
      intro l1
      refine wp_flush hw1 ?_
      intro e2 l2 hw2 hf2
      refine wp_transmit hw2 ?_
      intro tx3 l3 hw3
      refine hq _ _ hw3 ?_
      obtain ⟨cs, dcs, q, tx2, _, _, _, _, rfl, hlen⟩ := hf2
      exact ⟨cs, dcs, q, tx3, _, _, _, _, rfl, hlen⟩

theorem sack_inRange {r : Rx} (hr : RxR r) {rwnd : Int} (hw : rwnd ≤ 1048576) :
    (Chunk.sack 0 r.last.toNat (max 0 rwnd).toNat (sendSack.build r none [] (sortByKey r.last r.mis))
      ((r.dups.take (SACK_MAX_ENTRIES - (sendSack.build r none [] (sortByKey r.last r.mis)).length)).map
        (·.toNat))).inRange = true := by
  obtain ⟨hlen, hpairs⟩ := sackBuild_ok r (sortByKey r.last r.mis)
  obtain ⟨⟨hl0, hl1⟩, _, hd⟩ := hr
  simp only [Chunk.inRange, hpairs, Bool.and_true, Bool.and_eq_true, decide_eq_true_eq, u32sInRange,
    List.all_eq_true, List.mem_map, forall_exists_index, and_imp, forall_apply_eq_imp_iff₂, List.length_map,
    List.length_take, SACK_MAX_ENTRIES]
  refine ⟨⟨⟨⟨by omega, by omega⟩, by omega⟩, by omega⟩, ?_⟩
  intro x hx
  obtain ⟨h0, h1⟩ := hd x (List.mem_of_mem_take hx)
  omega

/-- `_send_sack()`. -/
theorem wp_sendSack {A} {Q : Unit → St → Prop} {e : Ep} {l : List Out} (h : WF e) (hrx : e.rx.isSome = true)
    (ha : Acc 0 e.rwnd e.inStreams)
    (hq : ∀ r l', WF { e with rx := some r, sackNeeded := false } →
      Q () ({ e with rx := some r, sackNeeded := false }, l')) : wp A sendSack Q (e, l) := by
  obtain ⟨r, hr⟩ := Option.isSome_iff_exists.mp hrx
  have hrr := h.rxR hr
  have hrw : e.rwnd ≤ 1048576 := by have := ha.acc; omega
  unfold sendSack
  simp only [wp_bind, wp_getE, hr, wp_pure]
  refine wp_sendChunk h (sack_inRange hrr hrw) ?_
  intro d
  simp only [wp_modE]
  exact hq _ _ (h.setRx (r := { r with dups := [] }) ⟨hrr.1, hrr.2.1, by simp⟩ false)

end Aiortc.Sctp
