import Aiortc.Lemmas.SctpNoCrashWp
/-!
# The well-formedness invariant of the SCTP endpoint automaton (C05a)

Grouped by the fields a clause reads, so that an update of one field leaves the other groups alone.
-/
namespace Aiortc.Sctp
open Aiortc.Gen Aiortc.Sctp.Wire
set_option linter.unusedSimpArgs false

/-- The wire-visible (immutable) fields of an outbound DATA chunk fit their `struct.pack` formats. -/
def SChunk.Wire (c : SChunk) : Prop :=
  c.flags < 256 ∧ 0 ≤ c.tsn ∧ c.tsn < 4294967296 ∧ c.sid < 65536 ∧ 0 ≤ c.ssn ∧ c.ssn < 65536 ∧
  c.ppid < 4294967296 ∧ 16 + c.data.length < 65536

/-- The chunk is not subject to partial reliability (never abandoned, so no FORWARD-TSN is ever built). -/
def SChunk.Rel (c : SChunk) : Prop :=
  c.expiry = none ∧ c.maxRetransmits = none ∧ c.abandoned = false

def RChunk.Wire (c : RChunk) : Prop :=
  c.flags < 256 ∧ 0 ≤ c.tsn ∧ c.tsn < 4294967296 ∧ c.sid < 65536 ∧ 0 ≤ c.ssn ∧ c.ssn < 65536 ∧
  c.ppid < 4294967296 ∧ 16 + c.data.length < 65536

/-- What `playTx` can serialise. (`fwd` never occurs while no chunk is abandonable.) -/
def TxEv.Ok : TxEv → Prop
  | .data c => c.Wire
  | .fwd _ _ => False
  | .t3start => True
  | .t3cancel => True

structure TxOk (t : Tx) : Prop where
  sent : ∀ c ∈ t.sentQ, c.Wire ∧ c.Rel
  out : ∀ c ∈ t.outQ, c.Wire ∧ c.Rel
  fwd : t.forwardTsn = none
  fwdN : t.forwardNeeded = false
  seq : ∀ p ∈ t.streamSeq, 0 ≤ p.2 ∧ p.2 < 65536
  tsn : 0 ≤ t.localTsn ∧ t.localTsn < 4294967296

/-- Addressing and the fields copied into INIT / INIT-ACK. -/
structure NetOk (lp : Nat) (rp : Option Nat) (rtag ltag inMax outCnt : Nat) : Prop where
  lp : lp < 65536
  rp : ∃ p, rp = some p ∧ p < 65536
  rtag : rtag < 4294967296
  ltag : ltag < 4294967296
  inMax : inMax < 65536
  outCnt : outCnt < 65536

def Chan.Reliable (c : Chan) : Prop := c.maxRetransmits = none ∧ c.maxPacketLifeTime = none

/-- Data channel bookkeeping. -/
structure ChansOk (chans : List Chan) (dcs : List (Nat × Nat)) (q : List (Nat × Nat × Bytes))
    (rcq : List Nat) : Prop where
  dcIdx : ∀ p ∈ dcs, p.2 < chans.length
  dcKeys : (dcs.map (·.1)).Nodup
  qIdx : ∀ x ∈ q, x.1 < chans.length
  /-- no queued message waits for a stream id (`NoPendingId`) -/
  qId : ∀ x ∈ q, ∀ c, chans[x.1]? = some c → c.id.isSome
  /-- queued user messages belong to reliable channels (`NoPR`) -/
  qRel : ∀ x ∈ q, ∀ c, chans[x.1]? = some c → x.2.1 = WEBRTC_DCEP ∨ c.Reliable
  qPpid : ∀ x ∈ q, x.2.1 < 4294967296
  sid : ∀ c ∈ chans, ∀ s, c.id = some s → s < 65536
  rcq : ∀ s ∈ rcq, s < 65536

def InRange32 (x : Int) : Prop := 0 ≤ x ∧ x < 4294967296

def reasmBytes (ins : List (Nat × InStream)) : Nat :=
  (ins.map fun p => (p.2.reasm.map (·.data.length)).sum).sum

/-- Receive side: TSN bookkeeping in range. -/
structure RxOk (rx : Option Rx) : Prop where
  rng : ∀ r, rx = some r → InRange32 r.last ∧ (∀ x ∈ r.mis, InRange32 x) ∧ (∀ x ∈ r.dups, InRange32 x)

/-- Receive window accounting: `_advertised_rwnd` plus everything held in the reassembly queues (plus `k` bytes
popped but not yet handed over) never exceeds the initial window, so `max(0, rwnd)` always fits 32 bits. -/
structure Acc (k : Int) (rwnd : Int) (ins : List (Nat × InStream)) : Prop where
  acc : rwnd + reasmBytes ins + k ≤ 1048576
  keys : (ins.map (·.1)).Nodup

structure WF (e : Ep) : Prop where
  net : NetOk e.localPort e.remotePort e.remoteTag e.localTag e.inboundMax e.outboundCount
  ch : ChansOk e.chans e.dataChannels e.dcQueue e.reconfigQueue
  tx : TxOk e.tx
  rx : RxOk e.rx
  rcReq : InRange32 e.reconfigRequestSeq
  rcResp : InRange32 e.reconfigResponseSeq
  /-- `_send_sack` reads `_last_received_tsn` -/
  sack : e.sackNeeded = true → e.rx.isSome
  /-- no application handler that re-enters the API is armed (**NoReact**): such a handler may `send()` on a partially
  reliable channel opened by the peer, which `NoPR` rules out; the general case is `Aiortc.Sctp.V2.WF` -/
  nr : e.reactions = []

/-- The exceptions the (unfixed) model is known to raise on the receive path:
`AssertionError` from `InboundStream.add_chunk` (duplicate TSN in the reassembly queue after a TSN wrap) and
`KeyError` from `_data_channel_closed` (stream reset response after the association was re-opened). -/
def Known : String → Prop := fun k => k = "AssertionError" ∨ k = "KeyError"

end Aiortc.Sctp

namespace Aiortc.Sctp
open Aiortc.Gen Aiortc.Sctp.Wire
set_option linter.unusedSimpArgs false

/-! ## frames and preservation under the elementary updates -/

/-- The static attributes of a channel object (everything the invariant reads). -/
def Chan.Same (c c' : Chan) : Prop :=
  c'.id = c.id ∧ c'.maxRetransmits = c.maxRetransmits ∧ c'.maxPacketLifeTime = c.maxPacketLifeTime

theorem Chan.Same.rfl' (c : Chan) : Chan.Same c c := ⟨rfl, rfl, rfl⟩

theorem ChansOk.set {chans dcs q rcq} (h : ChansOk chans dcs q rcq) {i : Nat} {c c' : Chan}
    (hi : chans[i]? = some c) (hs : Chan.Same c c') : ChansOk (chans.set i c') dcs q rcq := by
  obtain ⟨h1, h2, h3⟩ := hs
  have hlt : i < chans.length := by
    rcases Nat.lt_or_ge i chans.length with h | h
    · exact h
    · rw [List.getElem?_eq_none h] at hi; cases hi
  refine ⟨?_, h.dcKeys, ?_, ?_, ?_, h.qPpid, ?_, h.rcq⟩
  · intro p hp; simpa using h.dcIdx p hp
  · intro x hx; simpa using h.qIdx x hx
  · intro x hx d hd
    rw [List.getElem?_set] at hd
    split at hd
    · rename_i heq
      simp only [hlt, if_true, Option.some.injEq] at hd
      subst hd; rw [h1]; exact h.qId x hx c (heq ▸ hi)
    · exact h.qId x hx d hd
  · intro x hx d hd
    rw [List.getElem?_set] at hd
    split at hd
    · rename_i heq
      simp only [hlt, if_true, Option.some.injEq] at hd
      subst hd
      rcases h.qRel x hx c (heq ▸ hi) with h' | h'
      · exact Or.inl h'
      · exact Or.inr ⟨h2 ▸ h'.1, h3 ▸ h'.2⟩
    · exact h.qRel x hx d hd
  · intro d hd s hs
    rcases List.mem_or_eq_of_mem_set hd with hd | rfl
    · exact h.sid d hd s hs
    · exact h.sid c (List.mem_of_getElem? hi) s (h1 ▸ hs)

/-- `e'` differs from `e` at most in the channel objects, the stream table, the channel queue, the send side and
the stream reset bookkeeping (`_data_channel_flush` ends with `_transmit_reconfig`), and no channel object
disappeared.  (What the data plane helpers may touch.) -/
def DataFrame (e e' : Ep) : Prop :=
  ∃ cs dcs q tx rq rr rs rt,
    e' = { e with chans := cs, dataChannels := dcs, dcQueue := q, tx := tx, reconfigQueue := rq,
                  reconfigRequest := rr, reconfigRequestSeq := rs, rcTimer := rt } ∧
    e.chans.length ≤ cs.length

theorem DataFrame.refl (e : Ep) : DataFrame e e :=
  ⟨e.chans, e.dataChannels, e.dcQueue, e.tx, e.reconfigQueue, e.reconfigRequest, e.reconfigRequestSeq, e.rcTimer,
   rfl, Nat.le_refl _⟩

theorem DataFrame.trans {a b c : Ep} (h1 : DataFrame a b) (h2 : DataFrame b c) : DataFrame a c := by
  obtain ⟨cs, dcs, q, tx, rq, rr, rs, rt, rfl, hl⟩ := h1
  obtain ⟨cs', dcs', q', tx', rq', rr', rs', rt', rfl, hl'⟩ := h2
  exact ⟨cs', dcs', q', tx', rq', rr', rs', rt', rfl, Nat.le_trans hl hl'⟩

theorem DataFrame.rwnd {e e' : Ep} (h : DataFrame e e') : e'.rwnd = e.rwnd := by
  obtain ⟨cs, dcs, q, tx, rq, rr, rs, rt, rfl, _⟩ := h; rfl
theorem DataFrame.ins {e e' : Ep} (h : DataFrame e e') : e'.inStreams = e.inStreams := by
  obtain ⟨cs, dcs, q, tx, rq, rr, rs, rt, rfl, _⟩ := h; rfl
theorem DataFrame.assoc {e e' : Ep} (h : DataFrame e e') : e'.assoc = e.assoc := by
  obtain ⟨cs, dcs, q, tx, rq, rr, rs, rt, rfl, _⟩ := h; rfl

theorem WF.setChan {e : Ep} (h : WF e) {i : Nat} {c c' : Chan} (hi : e.chans[i]? = some c) (hs : Chan.Same c c') :
    WF { e with chans := e.chans.set i c' } :=
  ⟨h.net, h.ch.set hi hs, h.tx, h.rx, h.rcReq, h.rcResp, h.sack, h.nr⟩

theorem WF.setTx {e : Ep} (h : WF e) {tx : Tx} (ht : TxOk tx) : WF { e with tx := tx } :=
  ⟨h.net, h.ch, ht, h.rx, h.rcReq, h.rcResp, h.sack, h.nr⟩

end Aiortc.Sctp
